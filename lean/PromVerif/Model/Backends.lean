/-
C12 glue: ONE single-process history over counter / gauge / summary / histogram, run through both value back-ends.

(i)  `runMutex`: the history through `Model/Metrics` (cells are `MutexValue`s: plain values held in the child objects).
(ii) `runMmap`: the same history through a file-backed interpretation.  The control flow (which `labels()` call creates
     a child, which call is rejected) is `Model/Metrics`' own `step` — the metric classes are written against the
     value-store interface only — while every value cell is a `MmapedValue` of `Model/Values`:
       * when a child is created (`_metric_init`), one value object per cell is CONSTRUCTED, in the order of the source,
         with the parameters `(typ, metric_name, sample name, labelnames, labelvalues, help, multiprocess_mode)`;
         `__reset` → `read_value` creates the entry `mmap_key(...) ↦ (0.0, 0.0)` in `<typ>[_<mode>]_<pid>.db`;
       * an accepted update calls `inc` / `set` on the cell's value object (`cellUpdates`, statement order of the source);
       * `Gauge.set` in a mostrecent mode passes `timestamp=time.time()` (`clock n` = what the clock shows at step `n`).
     The whole history is COMPILED to a list of `Values.Op` and run by `Values.run` from the fresh directory, so every
     theorem of C09 about `run vo (St.init pid) ops` applies to it.  The collector model (`Model/Multiprocess.merge`) is
     then applied to the resulting directory (`mpCollect`).

`Gauge.inc/dec` in a mostrecent mode raise RuntimeError BEFORE anything else on both back-ends (`Model/Metrics` models
the gauge of mode `all`): `front` replaces such a call by its `labels(...)` part, `stepMutex` reports RuntimeError.

`remove()` / `clear()` are calls of `Model/Metrics`; in multiprocess mode the library only warns ("Removal of labels has
not been implemented in multi-process mode yet"): no value-object call is made, so `compile` emits nothing for them —
the entries stay in the file, and a re-created child's new value objects re-read them (finding, see Props/C12).
-/
import PromVerif.Model.Metrics
import PromVerif.Model.Values
import PromVerif.Model.Multiprocess

namespace PromVerif.Model.Backends
open PromVerif.Py PromVerif.Generated.Multiprocess
open PromVerif.Model.Metrics (Val Decl Kind Child Reg Action Addr Out Sample)
open PromVerif.Model.Multiprocess (VOps BOps MpFile OutMetric)
open PromVerif.Model.Values (Params)
set_option autoImplicit false

variable {V : Type}

/-- the operations the writer and the collector use, read off the value structure of `Model/Metrics`;
`bool(x)` is `x != 0` -/
def voOf (V : Type) [Val V] : VOps V :=
  ⟨Val.zero, Val.add, Val.lt, Val.le, fun x => !Val.beq x Val.zero⟩

/-- a declaration with what the file-backed store additionally sees: help text and (gauges) the multiprocess mode -/
structure MDecl (V : Type) where
  decl : Decl V
  help : Str
  mode : Str

def isGauge (d : MDecl V) : Bool :=
  match d.decl.kind with
  | .gauge => true
  | _ => false

/-- `self._is_most_recent` -/
def isMostRecent (d : MDecl V) : Bool := isGauge d && mostRecentModes.contains d.mode

/-! ### (i) in-memory run -/

/-- is the call `Gauge.inc/dec` on a gauge in a mostrecent mode (RuntimeError before any other statement)? -/
def mrBlocked (ds : List (MDecl V)) : Metrics.Op V → Bool
  | .call i _ (.inc _) => match ds[i]? with | some d => isMostRecent d | none => false
  | .call i _ (.dec _) => match ds[i]? with | some d => isMostRecent d | none => false
  | _ => false

/-- what reaches the metric object: a blocked call is just its `labels(...)` part (evaluated before the method) -/
def front (ds : List (MDecl V)) (op : Metrics.Op V) : Metrics.Op V :=
  if mrBlocked ds op then
    match op with
    | .call i a _ => .call i a .touch
    | o => o
  else op

def stepMutex [Val V] (ds : List (MDecl V)) (r : Reg V) (op : Metrics.Op V) : Reg V × Out :=
  let x := Metrics.step r (front ds op)
  (x.1, if mrBlocked ds op then (match x.2 with | .ok => .raised .runtimeError | o => o) else x.2)

def runMutexFrom [Val V] (ds : List (MDecl V)) (r : Reg V) : List (Metrics.Op V) → Reg V × List Out
  | [] => (r, [])
  | op :: ops =>
    let x := stepMutex ds r op
    let y := runMutexFrom ds x.1 ops
    (y.1, x.2 :: y.2)

def regFresh [Val V] (ds : List (MDecl V)) : Reg V := Reg.fresh (ds.map (·.decl))

/-- the registry after the history, all cells in memory -/
def runMutex [Val V] (ds : List (MDecl V)) (h : List (Metrics.Op V)) : Reg V := (runMutexFrom ds (regFresh ds) h).1

/-! ### cells of a child -/

def typStr : Kind V → Str
  | .counter => "counter".toList
  | .gauge => "gauge".toList
  | .summary => "summary".toList
  | .histogram _ => "histogram".toList
  | .info => "info".toList
  | .enum _ => "stateset".toList

/-- the constructor arguments of the value objects `_metric_init` creates for the child with label values `lv`, in
source order (Histogram: `_sum` first, then one `_bucket` per upper bound with `le = floatToGoString(bound)`) -/
def cellParams (d : MDecl V) (lv : List Str) : List Params :=
  let nm := d.decl.name
  let ln := d.decl.labelnames
  match d.decl.kind with
  | .counter => [⟨"counter".toList, nm, nm ++ "_total".toList, ln, lv, d.help, []⟩]
  | .gauge => [⟨"gauge".toList, nm, nm, ln, lv, d.help, d.mode⟩]
  | .summary =>
    [⟨"summary".toList, nm, nm ++ "_count".toList, ln, lv, d.help, []⟩,
     ⟨"summary".toList, nm, nm ++ "_sum".toList, ln, lv, d.help, []⟩]
  | .histogram bs =>
    ⟨"histogram".toList, nm, nm ++ "_sum".toList, ln, lv, d.help, []⟩ ::
      bs.map (fun b => ⟨"histogram".toList, nm, nm ++ "_bucket".toList, ln ++ ["le".toList],
        lv ++ [Utils.floatToGoString b.2], d.help, []⟩)
  | _ => []

/-- the in-memory cells of a child, in the order of `cellParams` -/
def cellValues (d : MDecl V) (c : Child V) : List V :=
  match d.decl.kind with
  | .counter => [c.value]
  | .gauge => [c.value]
  | .summary => [c.count, c.sum]
  | .histogram _ => c.sum :: c.buckets
  | _ => []

/-- one call on the value object at position `pos` of the child -/
inductive CellUpd (V : Type)
  | inc (pos : Nat) (amount : V)
  | set (pos : Nat) (value : V) (ts : Option V)

/-- position of the first bound that takes the amount (`for i, bound in enumerate(...)`: `if amount <= bound: … break`) -/
def firstBucket [Val V] (amount : V) : List V → Option Nat
  | [] => none
  | b :: bs => if Metrics.bucketTakes amount b then some 0 else (firstBucket amount bs).map (· + 1)

/-- the value-object calls an ACCEPTED method call makes, in source order; `t` is `time.time()` -/
def cellUpdates [Val V] (d : MDecl V) (t : V) : Action V → List (CellUpd V)
  | .inc a =>
    match d.decl.kind with
    | .counter => [.inc 0 a]                                   -- self._value.inc(amount)
    | .gauge => [.inc 0 a]
    | _ => []
  | .dec a =>
    match d.decl.kind with
    | .gauge => [.inc 0 (Val.neg a)]                           -- self._value.inc(-amount)
    | _ => []
  | .set x =>
    match d.decl.kind with
    | .gauge => [.set 0 x (if isMostRecent d then some t else none)]
    | _ => []
  | .reset =>
    match d.decl.kind with
    | .counter => [.set 0 Val.zero none]                       -- self._value.set(0.0)
    | _ => []
  | .observe a =>
    match d.decl.kind with
    | .summary => [.inc 0 Val.one, .inc 1 a]                   -- self._count.inc(1); self._sum.inc(amount)
    | .histogram _ =>
      .inc 0 a ::                                              -- self._sum.inc(amount)
        (match firstBucket a d.decl.kind.bounds with
          | some i => [.inc (i + 1) Val.one]                   -- self._buckets[i].inc(1); break
          | none => [])
    | _ => []
  | _ => []

/-! ### (ii) file-backed run: compilation to value-object calls -/

/-- position of the YOUNGEST value object constructed with parameters `p`: the metric object a call reaches holds the
value objects its own `_metric_init` created — after `remove()` + `labels()` those of the re-created child, not the
stale ones of the dropped child (which stay in the closure's `values` list) -/
def pidx (p : Params) : List Params → Nat
  | [] => 0
  | _ :: r => if p ∈ r then pidx p r + 1 else 0

def toVop (ps cells : List Params) : CellUpd V → List (Values.Op V)
  | .inc pos a => match cells[pos]? with | some p => [.inc (pidx p ps) a] | none => []
  | .set pos x ts => match cells[pos]? with | some p => [.set (pidx p ps) x ts] | none => []

/-- compiler state: the metric objects (control flow only — no decision of `Metrics.step` reads a cell), the parameters
of the value objects constructed so far, the step number -/
structure CSt (V : Type) where
  reg : Reg V
  ps : List Params
  n : Nat

/-- the label values of the child a call is made on, and whether `labels()` creates it now -/
def target (m : Metrics.Metric V) : Addr → Option (List Str × Bool)
  | .none => if m.single.isSome then some ([], false) else none
  | .labels args kw =>
    match Metrics.resolveLabels m.decl.labelnames args kw with
    | .ok key => some (key, (Metrics.tlookup key m.children).isNone)
    | .error _ => none

/-- value-object calls of one step, and the parameters of the objects it constructs -/
def stepVops [Val V] (ds : List (MDecl V)) (clock : Nat → V) (s : CSt V) (op : Metrics.Op V) :
    List (Values.Op V) × List Params :=
  match front ds op with
  | .call i addr act =>
    match ds[i]?, s.reg[i]? with
    | some d, some m =>
      match target m addr with
      | none => ([], [])
      | some (key, fresh) =>
        let cells := cellParams d key
        let created := if fresh then cells else []
        let ps' := s.ps ++ created
        let upd :=
          if (Metrics.step s.reg (front ds op)).2 = .ok then
            (cellUpdates d (clock s.n) act).flatMap (toVop ps' cells)
          else []
        (created.map Values.Op.construct ++ upd, created)
    | _, _ => ([], [])
  | _ => ([], [])                                             -- remove / clear: only a warning in multiprocess mode

def stepC [Val V] (ds : List (MDecl V)) (clock : Nat → V) (s : CSt V) (op : Metrics.Op V) : CSt V :=
  ⟨(Metrics.step s.reg (front ds op)).1, s.ps ++ (stepVops ds clock s op).2, s.n + 1⟩

def compileFrom [Val V] (ds : List (MDecl V)) (clock : Nat → V) : CSt V → List (Metrics.Op V) → List (Values.Op V)
  | _, [] => []
  | s, op :: ops => (stepVops ds clock s op).1 ++ compileFrom ds clock (stepC ds clock s op) ops

/-- the value objects the constructors of the unlabelled metrics create (`if self._is_observable(): self._metric_init()`) -/
def initParams (ds : List (MDecl V)) : List Params :=
  ds.flatMap (fun d => if d.decl.labelnames.isEmpty then cellParams d [] else [])

def initCSt [Val V] (ds : List (MDecl V)) : CSt V := ⟨regFresh ds, initParams ds, 0⟩

/-- the whole history as value-object calls -/
def compile [Val V] (ds : List (MDecl V)) (clock : Nat → V) (h : List (Metrics.Op V)) : List (Values.Op V) :=
  (initParams ds).map Values.Op.construct ++ compileFrom ds clock (initCSt ds) h

/-- the closure state and the directory after the history, process identity `pid` throughout -/
def runMmap [Val V] (ds : List (MDecl V)) (pid : Str) (clock : Nat → V) (h : List (Metrics.Op V)) : Values.St V :=
  Values.run (voOf V) (Values.St.init pid) (compile ds clock h)

/-- the directory listing (`glob('*.db')`, here in creation order; the result does not depend on it for one process) -/
def files (st : Values.St V) : List (MpFile V) := st.disk.map (fun f => ⟨f.1, f.2⟩)

/-- `MultiProcessCollector(registry, path).collect()` -/
def mpCollect [Val V] {B : Type} [DecidableEq B] (bo : BOps B) (st : Values.St V) : PyM (List (OutMetric V)) :=
  Multiprocess.merge (voOf V) bo (files st)

end PromVerif.Model.Backends
