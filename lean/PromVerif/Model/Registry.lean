/-
Model of prometheus_client/registry.py (CollectorRegistry, RestrictedRegistry) and of
`Metric._restricted_metric` (metrics_core.py), written statement by statement after the Python.

* a Python `dict` is an insertion-ordered association list; `d[k] = v` on an existing key keeps its position
* a call that raises may already have changed the registry (`unregister` deletes name by name), so every
  operation returns the new state *and* the raised class: `State × Option PyErr`
* a collector is a value: an identity tag, what `describe()` returns (`none` = no such attribute) and the
  families `collect()` returns.  Two Python objects are the same collector iff the values are equal (the
  harness gives every object its own `id`)
* what a sample carries besides its name (labels, value, timestamp, exemplar) is an opaque payload: the
  registry never looks at it
* the DECISION STRUCTURE of `register`, `unregister`, `set_target_info`, `collect`, `_get_names` and
  `RestrictedRegistry.collect` (which test guards which store, statement order, operator polarity) is read from the
  AST of registry.py on every run (`Generated/Registry.lean`, `extract/sites/registry.py`) and CONSULTED here: under
  the reference flags each function is the reference body (`Lemmas/Registry.lean`, section "the code has the
  reference shape", proves this by `decide` on the flags — every theorem of C06/C07 goes through those lemmas); on a
  tree whose code has one of the recognised other shapes the function does what THAT code does
  (`registerIncremental`, `setTargetInfoWith false`, …), the `decide`s fail and the theorems stop checking
-/
import PromVerif.Py.Err
import PromVerif.Generated.Registry

namespace PromVerif.Model.Registry
open PromVerif.Py

abbrev Name := List Char

/-- `metrics_core.METRIC_TYPES` -/
inductive MType
  | counter | gauge | summary | histogram | gaugehistogram | unknown | info | stateset
deriving DecidableEq, Repr, Inhabited

/-- the Python string of a type -/
def MType.name : MType → List Char
  | .counter => ['c', 'o', 'u', 'n', 't', 'e', 'r']
  | .gauge => ['g', 'a', 'u', 'g', 'e']
  | .summary => ['s', 'u', 'm', 'm', 'a', 'r', 'y']
  | .histogram => ['h', 'i', 's', 't', 'o', 'g', 'r', 'a', 'm']
  | .gaugehistogram => ['g', 'a', 'u', 'g', 'e', 'h', 'i', 's', 't', 'o', 'g', 'r', 'a', 'm']
  | .unknown => ['u', 'n', 'k', 'n', 'o', 'w', 'n']
  | .info => ['i', 'n', 'f', 'o']
  | .stateset => ['s', 't', 'a', 't', 'e', 's', 'e', 't']

def MType.all : List MType :=
  [.counter, .gauge, .summary, .histogram, .gaugehistogram, .unknown, .info, .stateset]

abbrev Labels := List (Name × Name)

/-- everything of a sample but its name -/
inductive Payload
  | idx (n : Nat)                 -- labels, value, timestamp, exemplar: opaque, identified by a number
  | targetInfo (labels : Labels)  -- the sample of `_target_info_metric`: the labels, value 1
deriving DecidableEq, Repr

structure Sample where
  name : Name
  payload : Payload
deriving DecidableEq, Repr

structure Family where
  name : Name
  typ : MType
  help : List Char
  unit : List Char
  samples : List Sample
deriving DecidableEq, Repr

structure Collector where
  id : Nat
  describe : Option (List (Name × MType))
  families : List Family
deriving DecidableEq, Repr

/-- a value of `_names_to_collectors`: a registered collector or the `_EmptyCollector()` of target info -/
inductive Owner
  | coll (c : Collector)
  | empty
deriving DecidableEq, Repr

/-! ### dict operations on association lists -/

section Dict
variable {κ : Type} {ν : Type} [DecidableEq κ]

/-- `k in d` -/
def dHas (k : κ) (d : List (κ × ν)) : Bool := d.any (fun p => decide (p.1 = k))

/-- `d.get(k)` -/
def dGet (k : κ) : List (κ × ν) → Option ν
  | [] => none
  | p :: r => if p.1 = k then some p.2 else dGet k r

/-- `d[k] = v`: an existing key keeps its position -/
def dSet (k : κ) (v : ν) (d : List (κ × ν)) : List (κ × ν) :=
  if dHas k d then d.map (fun p => if p.1 = k then (p.1, v) else p) else d ++ [(k, v)]

/-- `del d[k]` for a present key / `d.pop(k, None)` -/
def dDel (k : κ) (d : List (κ × ν)) : List (κ × ν) := d.filter (fun p => decide (p.1 ≠ k))

end Dict

/-! ### the registry -/

structure State where
  collectorToNames : List (Collector × List Name)
  namesToCollectors : List (Name × Owner)
  autoDescribe : Bool
  targetInfo : Option Labels
deriving DecidableEq, Repr

def tiName : Name := ['t', 'a', 'r', 'g', 'e', 't', '_', 'i', 'n', 'f', 'o']

/-- Python truthiness of `Optional[Dict]`: `None` and `{}` are falsy -/
def truthy : Option Labels → Bool
  | some (_ :: _) => true
  | _ => false

/-- `type_suffixes.get(metric.type, [])` -/
def suffixesOf (t : MType) : List (List Char) :=
  (dGet t.name PromVerif.Generated.Registry.registrySuffixes).getD []

/-- the `desc_func` chosen in `_get_names`, applied: `describe()` if the attribute exists, else `collect()`
under auto-describe, else nothing -/
def described (autoDescribe : Bool) (c : Collector) : Option (List (Name × MType)) :=
  match c.describe with
  | some d => some d
  | none => if autoDescribe then some (c.families.map fun f => (f.name, f.typ)) else none

/-- `if x not in result: result.append(x)` -/
def appendNew (result : List Name) (n : Name) : List Name := if n ∈ result then result else result ++ [n]

def addAll (result : List Name) (ns : List Name) : List Name := ns.foldl appendNew result

/-- `metric.name + suffix for suffix in [''] + type_suffixes.get(metric.type, [])` -/
def familyNames (m : Name × MType) : List Name := ([] :: suffixesOf m.2).map (fun suf => m.1 ++ suf)

/-- the loop of `_get_names` over what `desc_func()` returned (`none`: no `desc_func`, `return []`) -/
def namesOfDescribed : Option (List (Name × MType)) → List Name
  | none => []
  | some ms => ms.foldl (fun result m => addAll result (familyNames m)) []

/-- `CollectorRegistry._get_names`: every name is recorded once, in order of first occurrence.  The fall-back to
`collect()` exists only if the code has it (T1 `getNamesAutoDescribeFallback`). -/
def getNames (autoDescribe : Bool) (c : Collector) : List Name :=
  namesOfDescribed (described (autoDescribe && PromVerif.Generated.Registry.getNamesAutoDescribeFallback) c)

/-- `for name in names: self._names_to_collectors[name] = collector` -/
def setAll (o : Owner) (names : List Name) (d : List (Name × Owner)) : List (Name × Owner) :=
  names.foldl (fun d n => dSet n o d) d

/-- `CollectorRegistry.register` as written: `duplicates = set(_names_to_collectors).intersection(names)`; `if duplicates:
raise` — before any store — then the stores -/
def registerAtomic (s : State) (c : Collector) : State × Option PyErr :=
  let names := getNames s.autoDescribe c
  if names.any (fun n => dHas n s.namesToCollectors) then (s, some .valueError)
  else ({ s with namesToCollectors := setAll (.coll c) names s.namesToCollectors
                 collectorToNames := dSet c names s.collectorToNames }, none)

/-- `for name in names: if name in self._names_to_collectors: raise ValueError(…); self._names_to_collectors[name] = collector`
— returns the dict reached and whether the loop completed -/
def insertChecking (o : Owner) : List Name → List (Name × Owner) → List (Name × Owner) × Bool
  | [], d => (d, true)
  | n :: ns, d => if dHas n d then (d, false) else insertChecking o ns (dSet n o d)

/-- `register` of a tree that tests and stores the names ONE BY ONE: a clash at the k-th name raises with the first k-1
names already inserted (and the collector not recorded, so `unregister` cannot release them) -/
def registerIncremental (s : State) (c : Collector) : State × Option PyErr :=
  let names := getNames s.autoDescribe c
  match insertChecking (.coll c) names s.namesToCollectors with
  | (d, true) => ({ s with namesToCollectors := d, collectorToNames := dSet c names s.collectorToNames }, none)
  | (d, false) => ({ s with namesToCollectors := d }, some .valueError)

/-- `CollectorRegistry.register`, in the statement order the code has (T1 `registerChecksAllBeforeStore`) -/
def register (s : State) (c : Collector) : State × Option PyErr :=
  if PromVerif.Generated.Registry.registerChecksAllBeforeStore then registerAtomic s c else registerIncremental s c

/-- the `collect()` calls `register` itself makes: `_get_names` runs `desc_func()` once, and `desc_func` is
`collector.collect` exactly when the collector has no `describe` attribute and auto-describe is on (a separate log:
the property speaks only about the calls of `RestrictedRegistry.collect`) -/
def registerCalls (s : State) (c : Collector) : List Owner :=
  match c.describe with
  | some _ => []
  | none => if s.autoDescribe then [.coll c] else []

/-- `for name in …: del self._names_to_collectors[name]` — stops at the first missing key (`KeyError`);
returns the dict reached and whether the loop completed -/
def delNames : List (Name × Owner) → List Name → List (Name × Owner) × Bool
  | d, [] => (d, true)
  | d, n :: ns => if dHas n d then delNames (dDel n d) ns else (d, false)

/-- the names `unregister` releases: `self._collector_to_names[collector]` (T1 `unregisterTakesRecordedNames`; `none` =
`KeyError`), or — on a tree that does not read the record — `self._get_names(collector)` computed afresh -/
def releasedNames (s : State) (c : Collector) : Option (List Name) :=
  if PromVerif.Generated.Registry.unregisterTakesRecordedNames then dGet c s.collectorToNames
  else some (getNames s.autoDescribe c)

/-- `CollectorRegistry.unregister`, given the names it sets out to release -/
def unregisterOf (released : Option (List Name)) (s : State) (c : Collector) : State × Option PyErr :=
  match released with
  | none => (s, some .keyError)
  | some names =>
    match delNames s.namesToCollectors names with
    | (d, true) => ({ s with namesToCollectors := d, collectorToNames := dDel c s.collectorToNames }, none)
    | (d, false) => ({ s with namesToCollectors := d }, some .keyError)

/-- `CollectorRegistry.unregister` -/
def unregister (s : State) (c : Collector) : State × Option PyErr := unregisterOf (releasedNames s c) s c

/-- the clash test of `set_target_info`, `not self._target_info and 'target_info' in self._names_to_collectors`, with the
polarity and the connective the code has (T1) -/
def tiClashTest (previous : Option Labels) (n2c : List (Name × Owner)) : Bool :=
  let a := if PromVerif.Generated.Registry.setTargetInfoClashNegatesPrevious then !truthy previous else truthy previous
  let b := dHas tiName n2c
  if PromVerif.Generated.Registry.setTargetInfoClashIsConjunction then a && b else a || b

/-- `CollectorRegistry.set_target_info` with the assignment `self._target_info = …` placed after the `if` (as written:
`storeAfterCheck`) or before it, the tests reading the saved previous value (then a raise leaves the NEW labels stored).
`elif previous:` guards the pop iff the code has the guard. -/
def setTargetInfoWith (storeAfterCheck : Bool) (s : State) (labels : Option Labels) : State × Option PyErr :=
  let rejected : State := if storeAfterCheck then s else { s with targetInfo := labels }
  if truthy labels then
    if tiClashTest s.targetInfo s.namesToCollectors then (rejected, some .valueError)
    else ({ s with namesToCollectors := dSet tiName .empty s.namesToCollectors, targetInfo := labels }, none)
  else if truthy s.targetInfo || !PromVerif.Generated.Registry.setTargetInfoClearsOnlyWhenPreviouslySet then
    ({ s with namesToCollectors := dDel tiName s.namesToCollectors, targetInfo := labels }, none)
  else ({ s with targetInfo := labels }, none)

/-- `CollectorRegistry.set_target_info`, in the statement order the code has (T1 `setTargetInfoStoresAfterCheck`) -/
def setTargetInfo (s : State) (labels : Option Labels) : State × Option PyErr :=
  setTargetInfoWith PromVerif.Generated.Registry.setTargetInfoStoresAfterCheck s labels

/-- `CollectorRegistry.__init__` -/
def init (autoDescribe : Bool) (targetInfo : Option Labels) : State :=
  (setTargetInfo ⟨[], [], autoDescribe, some []⟩ targetInfo).1

/-- `CollectorRegistry._target_info_metric` -/
def targetInfoMetric (labels : Labels) : Family :=
  { name := ['t', 'a', 'r', 'g', 'e', 't']
    typ := .info
    help := ['T', 'a', 'r', 'g', 'e', 't', ' ', 'm', 'e', 't', 'a', 'd', 'a', 't', 'a']
    unit := []
    samples := [⟨tiName, .targetInfo labels⟩] }

/-- the `ti` of `collect`: the target-info family when target info is truthy -/
def tiFamily (ti : Option Labels) : List Family :=
  match ti with
  | some (l :: ls) => [targetInfoMetric (l :: ls)]
  | _ => []

/-- what `collect()` of a `_names_to_collectors` value returns -/
def Owner.families : Owner → List Family
  | .coll c => c.families
  | .empty => []

/-- what a collect call yields, and on which collectors `collect()` was invoked, in call order -/
structure Collected where
  families : List Family
  calls : List Owner
deriving DecidableEq, Repr

/-- `CollectorRegistry.collect`: the snapshot of `_collector_to_names` in dict order; the target-info family before the
collectors' families iff the code yields it first (T1 `collectTargetInfoFirst`) -/
def collect (s : State) : Collected :=
  let ti := tiFamily s.targetInfo
  let rest := s.collectorToNames.flatMap (fun e => e.1.families)
  { families := if PromVerif.Generated.Registry.collectTargetInfoFirst then ti ++ rest else rest ++ ti
    calls := s.collectorToNames.map (fun e => Owner.coll e.1) }

/-- `Metric._restricted_metric`: `Metric(self.name, self.documentation, self.type, self.unit)` with the kept samples
(the name already ends in `_unit`, so the constructor does not alter it) -/
def restrictedMetric (names : List Name) (f : Family) : Option Family :=
  let samples := f.samples.filter (fun smp => decide (smp.name ∈ names))
  if samples.isEmpty then none
  else some { name := f.name, help := f.help, typ := f.typ, unit := f.unit, samples := samples }

/-- `collectors.add(x)` on a set kept as a list -/
def setAdd (o : Owner) (acc : List Owner) : List Owner := if o ∈ acc then acc else acc ++ [o]

/-- `collectors.add(x)` when `collectors` is the set the code builds (T1 `restrictedCollectorsIsSet`), `collectors.append(x)`
on a tree that gathers them in a list -/
def collAdd (o : Owner) (acc : List Owner) : List Owner :=
  if PromVerif.Generated.Registry.restrictedCollectorsIsSet then setAdd o acc else acc ++ [o]

/-- the collector set built by the `for name in self._name_set` loop of `RestrictedRegistry.collect`
(iteration order of a Python set is unspecified; theorems are stated up to permutation) -/
def selectCollectors (n2c : List (Name × Owner)) : List Name → List Owner → List Owner
  | [], acc => acc
  | n :: ns, acc =>
    match dGet n n2c with
    | some o => selectCollectors n2c ns (collAdd o acc)
    | none => selectCollectors n2c ns acc

/-- `RestrictedRegistry.collect` of `registry.restricted_registry(names)` -/
def restrictedCollect (names : List Name) (s : State) : Collected :=
  let requested := decide (tiName ∈ names) || !PromVerif.Generated.Registry.restrictedTargetInfoNeedsRequested
  let configured := truthy s.targetInfo || !PromVerif.Generated.Registry.restrictedTargetInfoNeedsConfigured
  let ti := if requested && configured then tiFamily s.targetInfo else []
  let collectors := selectCollectors s.namesToCollectors names []
  { families := ti ++ collectors.flatMap (fun o => o.families.filterMap (restrictedMetric names))
    calls := collectors }

/-- a `RestrictedRegistry` object: the name set and a *reference* to the registry — it holds no registry data of its
own, the names are resolved against the registry at every `collect()` -/
structure RestrictedRegistry where
  nameSet : List Name
deriving DecidableEq, Repr

/-- `registry.restricted_registry(names)` -/
def restrictedRegistry (names : List Name) : RestrictedRegistry := ⟨names⟩

/-- `RestrictedRegistry.collect()` when the registry it refers to is in state `s` NOW (whenever the object was made) -/
def RestrictedRegistry.collect (r : RestrictedRegistry) (s : State) : Collected := restrictedCollect r.nameSet s

/-! ### histories -/

inductive Op
  | register (c : Collector)
  | unregister (c : Collector)
  | setTargetInfo (labels : Option Labels)
deriving DecidableEq, Repr

def step (s : State) : Op → State × Option PyErr
  | .register c => register s c
  | .unregister c => unregister s c
  | .setTargetInfo l => setTargetInfo s l

/-- run a history; the raised class (or `none`) of every call is recorded -/
def run (s : State) : List Op → State × List (Option PyErr)
  | [] => (s, [])
  | op :: ops =>
    let r := step s op
    let rest := run r.1 ops
    (rest.1, r.2 :: rest.2)

/-- the states after each call of a history (for the driver) -/
def trace (s : State) : List Op → List (State × Option PyErr)
  | [] => []
  | op :: ops => let r := step s op; r :: trace r.1 ops

/-- the `collect()` calls each call of a history makes on collectors (only `register` makes any) -/
def stepCalls (s : State) : Op → List Owner
  | .register c => registerCalls s c
  | _ => []

def traceCalls (s : State) : List Op → List (List Owner)
  | [] => []
  | op :: ops => stepCalls s op :: traceCalls (step s op).1 ops

/-! ### two more ways a call can fail to leave the registry as it was (frame clause of C06) -/

/-- A built-in metric class constructed with `registry=r`.  `rejects` stands for the class's own argument checks (opaque:
no states / overlapping label for Enum, unsorted buckets, reserved label names, bad multiprocess mode …); `c` is what the
finished object describes.  With the extracted flag `ctorsRegisterLast` (T1: in `metrics.py` no built-in constructor can raise
after `MetricWrapperBase.__init__` ran `registry.register(self)`) every check precedes the registration.  On a tree where a
class validates AFTER its base constructor registered it, the model does what that code does: the call raises AND the
half-built collector stays registered. -/
def construct (s : State) (c : Collector) (rejects : Bool) : State × Option PyErr :=
  if PromVerif.Generated.Registry.ctorsRegisterLast then
    if rejects then (s, some .valueError) else register s c
  else
    let r := register s c
    if rejects then (r.1, some .valueError) else r

/-- who holds a dict that is (or was) the registry's target info -/
inductive DictHolder
  | callerArgument   -- the dict the caller passed to `set_target_info`
  | gotten           -- what `get_target_info()` returned
  | collectedSample  -- the labels of a collected `target_info` sample
deriving DecidableEq, Repr

/-- does the registry hold / hand out a private copy there?  (T1 flags read from `registry.py`) -/
def dictIsPrivate : DictHolder → Bool
  | .callerArgument => PromVerif.Generated.Registry.targetInfoStoredCopied
  | .gotten => PromVerif.Generated.Registry.targetInfoHandedOutCopied
  | .collectedSample => PromVerif.Generated.Registry.targetInfoHandedOutCopied

/-- the registry after code OUTSIDE it mutated such a dict: unchanged when the dict is a private copy; `none` — the model has
no answer — when the registry shares the object (then `_target_info` changes behind the name map's back: emptied, it leaves
`target_info` reserved with nothing configured). -/
def afterCallerDictMutation (s : State) (h : DictHolder) : Option State :=
  if dictIsPrivate h then some s else none

end PromVerif.Model.Registry
