/-
Model of `exposition.generate_latest` (Prometheus text format 0.0.4), statement by statement.
-/
import PromVerif.Model.Sample
import PromVerif.Model.Escape
import PromVerif.Model.Utils

namespace PromVerif.Model.TextExpo
open PromVerif.Py PromVerif.Model PromVerif.Model.Escape PromVerif.Model.Validation
open PromVerif.Generated.Expo

/-- one `k="v"` item -/
def labelItem (kv : Str × Str) : Str := escapeLabelName kv.1 ++ ['=', '"'] ++ escape kv.2 ++ ['"']

/-- `','.join('{}="{}"'… for k, v in sorted(labels.items()))` -/
def labelStr (labels : List (Str × Str)) : Str :=
  joinStr [','] ((sortByKey labels).map labelItem)

/-- `sample_line` -/
def sampleLine (s : Sample) : Str :=
  let labelstr := if s.labels.isEmpty then [] else labelStr s.labels
  let timestamp := match s.ts with
    | none => []
    | some t => ' ' :: intStr t.millis
  let value := Utils.floatToGoString s.value
  if isValidLegacyMetricName s.name then
    let labelstr := if labelstr.isEmpty then [] else ['{'] ++ labelstr ++ ['}']
    s.name ++ labelstr ++ [' '] ++ value ++ timestamp ++ ['\n']
  else
    let maybeComma := if labelstr.isEmpty then [] else [',']
    ['{'] ++ escapeMetricName s.name ++ maybeComma ++ labelstr ++ ['}', ' '] ++ value ++ timestamp ++ ['\n']

/-- the if/elif munging chain: (written family name, written type) -/
def munge (name typ : Str) : Str × Str :=
  match textMunge.find? (fun m => m.1 == typ) with
  | some m => (name ++ m.2.1, m.2.2)
  | none => (name, typ)

def helpLine (name doc : Str) (trailing : Bool) : Str :=
  "# HELP ".toList ++ escapeMetricName name ++ [' '] ++ (if trailing then escapeHelpTrailing doc else escapeHelp doc) ++ ['\n']

def typeLine (name typ : Str) : Str :=
  "# TYPE ".toList ++ escapeMetricName name ++ [' '] ++ typ ++ ['\n']

/-- which trailing suffix (if any) a sample belongs to: first suffix in list order with `s.name == metric.name + suffix` -/
def trailingOf (fam : Family) (s : Sample) : Option Str :=
  trailingSuffixes.find? (fun suf => s.name == fam.name ++ suf)

/-- `om_samples.setdefault(suffix, []).append(line)` on an insertion-ordered dict -/
def addTrailing (d : List (Str × List Str)) (suffix line : Str) : List (Str × List Str) :=
  if d.any (fun e => e.1 == suffix) then d.map (fun e => if e.1 == suffix then (e.1, e.2 ++ [line]) else e)
  else d ++ [(suffix, [line])]

/-- the lines one family contributes -/
def familyLines (fam : Family) : List Str :=
  let (mname, mtype) := munge fam.name fam.typ
  let main := fam.samples.filter (fun s => (trailingOf fam s).isNone)
  let om := fam.samples.foldl (fun d s => match trailingOf fam s with
    | some suf => addTrailing d suf (sampleLine s)
    | none => d) []
  [helpLine mname fam.doc false, typeLine mname mtype] ++ main.map sampleLine ++
    (sortByKey om).flatMap (fun e =>
      [helpLine (fam.name ++ e.1) fam.doc true, typeLine (fam.name ++ e.1) "gauge".toList] ++ e.2)

/-- `generate_latest(registry)` as text (the `.encode('utf-8')` is the identity on well-formed text) -/
def generateLatest (fams : List Family) : Str :=
  (fams.flatMap familyLines).flatten

end PromVerif.Model.TextExpo
