/-
Model of the HTTP exposition glue of `prometheus_client/exposition.py` and `prometheus_client/asgi.py` (property C17):

  choose_encoder, gzip_accepted, _bake_output,
  make_wsgi_app.prometheus_app, make_asgi_app.prometheus_app, MetricsHandler.do_GET

written function by function after the Python.  Literals, comparison operators, the call chains applied to a list item
before it is compared, the encoder/content-type pairing, the compression condition and the WSGI dispatch table come from
`Generated/Http.lean` (re-extracted from the source on every run).

Parameters (not modelled, see DESIGN.md §3/§4): `parse_qs` (on `str` and on `bytes`), the two
expositions and `RestrictedRegistry` (`Env.expo` — an opaque function of the format and of the optional list of names),
`gzip.compress` (`Env.gzip`).  What IS modelled about `parse_qs` is its typing: `str` in → `str` keys, `bytes` in →
`bytes` keys, and `'name[]' in params` is a lookup of a `str` key (`PyKey`).

`urlparse(target).query` is modelled for origin-form request targets (`urlQuery`).  Header bytes: the ASGI app decodes
them itself (modelled, codec extracted); for WSGI and MetricsHandler the server decodes them as latin-1 (PEP 3333;
http.client.parse_headers) before the modelled code runs — trusted, see `Props.C17.Req`.

The servers around the three entry points (wsgiref, an ASGI server, `http.server`) are outside the model; the inputs
of the model are what those servers hand over: the `environ` dict, the `scope` dict, the parsed `headers`/`path`.
-/
import PromVerif.Py.Str
import PromVerif.Py.Err
import PromVerif.Generated.Http

namespace PromVerif.Model.Http
open PromVerif.Py (stripSet lstripSet rstripSet PyM PyErr)
open PromVerif.Generated.Http

abbrev Str := List Char
abbrev Bytes := List UInt8

/-! ### Python `str` primitives used by the two matching loops -/

/-- the code points `c` with `chr(c).isspace()`, i.e. exactly what `str.strip()` without argument removes
(CPython 3.12, Unicode 15; the harness re-checks the table against the running interpreter on every run). -/
def pyWhitespaceCodes : List Nat :=
  [0x9, 0xa, 0xb, 0xc, 0xd, 0x1c, 0x1d, 0x1e, 0x1f, 0x20, 0x85, 0xa0, 0x1680,
   0x2000, 0x2001, 0x2002, 0x2003, 0x2004, 0x2005, 0x2006, 0x2007, 0x2008, 0x2009, 0x200a,
   0x2028, 0x2029, 0x202f, 0x205f, 0x3000]

def isPyWhitespace (c : Char) : Bool := pyWhitespaceCodes.contains c.toNat

/-- `s.strip()` -/
def strip (s : Str) : Str := stripSet isPyWhitespace s

/-- `s.split(c)` for a one-character separator: never empty, `''.split(',') == ['']`. -/
def splitOn (c : Char) : Str → List Str
  | [] => [[]]
  | x :: xs =>
    if x = c then [] :: splitOn c xs
    else
      match splitOn c xs with
      | [] => [[x]]            -- unreachable (`splitOn_ne_nil`)
      | h :: t => (x :: h) :: t

/-- `l[0]` on the result of `split`, which always has an element (`Lemmas.Http.splitOn_ne_nil`), so no `IndexError`. -/
def firstOf : List Str → Str
  | [] => []
  | h :: _ => h

/-- `str.lower()` of one character, restricted to what can matter for a comparison with an ASCII literal.

CPython lower-cases per character (the only context-sensitive rule is final sigma, which stays non-ASCII either way).
ASCII `A`–`Z` map to `a`–`z`.  Exactly two non-ASCII characters have a lower-case form containing an ASCII character
(the harness re-checks this over all code points on every run):
  U+0130 LATIN CAPITAL LETTER I WITH DOT ABOVE ↦ `i` U+0307,   U+212A KELVIN SIGN ↦ `k`.
Every other non-ASCII character maps to non-ASCII text; the model keeps such a character unchanged, which stands for
"some non-ASCII text" — it can never take part in an equality with an ASCII literal. -/
def lowerChar (c : Char) : List Char :=
  if 'A' ≤ c ∧ c ≤ 'Z' then [Char.ofNat (c.toNat + 32)]
  else if c = Char.ofNat 0x130 then ['i', Char.ofNat 0x307]
  else if c = Char.ofNat 0x212A then ['k']
  else [c]

/-- `s.lower()` (see `lowerChar`) -/
def lower (s : Str) : Str := s.flatMap lowerChar

/-- `a in b` for strings -/
def isInfixOf (a : Str) : Str → Bool
  | [] => a.isEmpty
  | b@(_ :: t) => a.isPrefixOf b || isInfixOf a t

/-- one step of the method chain applied to a list item (codes of `Generated/Http.lean`) -/
def applyStep (sep : Char) (step : Nat) (s : Str) : Str :=
  match step with
  | 0 => firstOf (splitOn sep s)     -- `.split(sep)[0]`
  | 1 => strip s                      -- `.strip()`
  | 2 => lower s                      -- `.lower()`
  | _ => s

def applyChain (sep : Char) (chain : List Nat) (s : Str) : Str :=
  chain.foldl (fun acc st => applyStep sep st acc) s

/-- the comparison at a matching site (codes of `Generated/Http.lean`) -/
def applyOp (op : Nat) (x lit : Str) : Bool :=
  match op with
  | 0 => x == lit
  | 1 => lit.isPrefixOf x
  | 2 => isInfixOf lit x
  | 3 => lit.isSuffixOf x
  | 4 => isInfixOf x lit
  | _ => false

/-! ### choose_encoder / gzip_accepted -/

inductive Fmt | text | om
  deriving DecidableEq, Repr

def fmtOf (isOM : Bool) : Fmt := if isOM then .om else .text
def ctString (isOM : Bool) : Str := if isOM then contentTypeOM else contentTypeText

/-- the loop of `choose_encoder`: does some item of `accept_header.split(',')` match? (`accept_header or ''` first) -/
def omListed (accept : Option Str) : Bool :=
  (splitOn acceptSplitChar (accept.getD [])).any fun a =>
    applyOp omMatchOp (applyChain omParamSep omChain a) omMediaType

/-- `choose_encoder(accept_header)`: (which encoder function is returned, the content-type string returned with it) -/
def chooseEncoder (accept : Option Str) : Fmt × Str :=
  if omListed accept then (fmtOf matchEncoderOM, ctString matchContentTypeOM)
  else (fmtOf elseEncoderOM, ctString elseContentTypeOM)

def gzipListed (acceptEnc : Option Str) : Bool :=
  (splitOn codingSplitChar (acceptEnc.getD [])).any fun a =>
    applyOp gzipMatchOp (applyChain gzipParamSep gzipChain a) gzipCoding

/-- `gzip_accepted(accept_encoding_header)` -/
def gzipAccepted (acceptEnc : Option Str) : Bool :=
  if gzipListed acceptEnc then gzipMatchReturns else gzipElseReturns

/-! ### `_bake_output` -/

/-- a key or value of the dict returned by `parse_qs`: `str` when it parsed a `str`, `bytes` when it parsed `bytes`.
`'name[]' == b'name[]'` is `False` in Python 3, so a `str` key never finds a `bytes` entry. -/
inductive PyKey
  | str (s : Str)
  | bytes (b : Bytes)
  deriving DecidableEq

abbrev Params := List (PyKey × List PyKey)

def strParams (l : List (Str × List Str)) : Params := l.map fun kv => (PyKey.str kv.1, kv.2.map PyKey.str)
def bytesParams (l : List (Bytes × List Bytes)) : Params := l.map fun kv => (PyKey.bytes kv.1, kv.2.map PyKey.bytes)

/-- the opaque parts: `expo f none` = `encoder_f(registry)`, `expo f (some names)` =
`encoder_f(registry.restricted_registry(names))`; `gzip` = `gzip.compress`; `empty` = `b''`;
`errBody status method` = the text of the 405 answer. -/
structure Env (B : Type) where
  expo : Fmt → Option (List PyKey) → B
  gzip : B → B
  empty : B
  errBody : Str → Str → B

/-- what a front-end hands to its server; `collected` is a ghost flag: an encoder ran, i.e. `registry.collect()` ran -/
structure Resp (B : Type) where
  status : Str
  headers : List (Str × Str)
  body : B
  collected : Bool

/-- what is handed to `restricted_registry`: the values of `params['name[]']` as they are (`nameValueSplit = []`, the
source as it is), or — a variant the extractor recognises — every `str` value first split on a separator, empty pieces
dropped when `nameValueDropEmpty` -/
def restrictionNames (vs : List PyKey) : List PyKey :=
  match nameValueSplit with
  | [c] => vs.flatMap fun
      | .str s => ((splitOn c s).filter fun p => !(nameValueDropEmpty && p.isEmpty)).map PyKey.str
      | .bytes b => [.bytes b]
  | _ => vs

/-- `_bake_output(registry, accept_header, accept_encoding_header, params, disable_compression)`.
`'name[]' in params` and `params['name[]']` use the same literal (checked by the extractor), so both are one lookup. -/
def bakeOutput {B : Type} (env : Env B) (accept acceptEnc : Option Str) (params : Params) (disable : Bool) : Resp B :=
  let ec := chooseEncoder accept
  let restr := (params.lookup (PyKey.str nameKey)).map restrictionNames
  let output := env.expo ec.1 restr
  let headers := [(contentTypeHeader, ec.2)]
  if (!compressNeedsEnabled || !disable) && (!compressNeedsAccepted || gzipAccepted acceptEnc) then
    ⟨bakeStatus, headers ++ [contentEncodingHeader], env.gzip output, true⟩
  else
    ⟨bakeStatus, headers, output, true⟩

/-! ### WSGI: `make_wsgi_app(registry, disable_compression).prometheus_app(environ, start_response)` -/

/-- the keys of `environ` the app reads; `none` = key absent.  `REQUEST_METHOD` is required by PEP 3333. -/
structure Environ where
  httpAccept : Option Str            -- environ.get('HTTP_ACCEPT')
  httpAcceptEncoding : Option Str    -- environ.get('HTTP_ACCEPT_ENCODING')
  queryString : Option Str           -- environ.get('QUERY_STRING', '')
  requestMethod : Str                -- environ['REQUEST_METHOD']
  pathInfo : Option Str              -- environ['PATH_INFO'] (KeyError when absent and the GET branch is reached)

def wsgiApp {B : Type} (env : Env B) (parseQs : Str → List (Str × List Str)) (disable : Bool) (e : Environ) :
    PyM (Resp B) :=
  let params := strParams (parseQs (e.queryString.getD []))
  if e.requestMethod = wsgiOptionsMethod then
    .ok ⟨wsgiOptionsStatus, wsgiOptionsHeaders, env.empty, false⟩
  else if !(wsgiGetMethods.contains e.requestMethod) then
    .ok ⟨wsgi405Status, wsgi405Headers, env.errBody wsgi405Status e.requestMethod, false⟩
  else
    match e.pathInfo with
    | none => .error .keyError
    | some p =>
      if p = faviconPath then .ok ⟨faviconStatus, faviconHeaders, env.empty, false⟩
      else .ok (bakeOutput env e.httpAccept e.httpAcceptEncoding params disable)

/-! ### ASGI: `make_asgi_app(registry, disable_compression).prometheus_app(scope, receive, send)` -/

/-- `b.decode('latin-1')`: total, byte `n` ↦ U+00nn -/
def latin1 (b : Bytes) : Str := b.map fun x => Char.ofNat x.toNat

/-- `b.decode(codec)` for the two codecs the extractor knows (`Generated.Http.asgiHeaderCodec/asgiQueryCodec`):
latin-1 never raises; UTF-8 raises `UnicodeDecodeError` on ill-formed input. -/
def decodeWith (codec : Str) (b : Bytes) : PyM Str :=
  if codec = ['l', 'a', 't', 'i', 'n', '-', '1'] then .ok (latin1 b)
  else if codec = ['u', 't', 'f', '-', '8'] then
    match String.fromUTF8? (ByteArray.mk b.toArray) with
    | some t => .ok t.toList
    | none => .error .unicodeError
  else .error .unicodeError

/-- `scope['headers']` — (name, value) pairs of BYTES, as the server read them from the wire — and
`scope.get('query_string', b'')` -/
structure Scope where
  headers : List (Bytes × Bytes)
  queryString : Option Bytes

/-- `sep.join(parts)` -/
def joinWith (sep : Str) : List Str → Str
  | [] => []
  | [p] => p
  | p :: q :: r => p ++ sep ++ joinWith sep (q :: r)

/-- `[value.decode(C) for (name, value) in headers if name.decode(C).lower() == lit]`: every NAME is decoded, the value
only of a matching field; the first decoding error leaves the comprehension -/
def asgiCollect (lit : Str) : List (Bytes × Bytes) → PyM (List Str)
  | [] => .ok []
  | (n, v) :: rest =>
    match decodeWith asgiHeaderCodec n with
    | .error e => .error e
    | .ok name =>
      if (if asgiNameLowered then lower name else name) == lit then
        match decodeWith asgiHeaderCodec v with
        | .error e => .error e
        | .ok value => (asgiCollect lit rest).map (value :: ·)
      else asgiCollect lit rest

/-- `",".join([...])` -/
def asgiHeader (lit : Str) (hs : List (Bytes × Bytes)) : PyM Str :=
  (asgiCollect lit hs).map (joinWith asgiJoin)

/-- `parse_qs(scope.get('query_string', b'').decode(C))` (`asgiQueryDecoded = true`).  The other branch is what the
source did before commit 14bb0ad: `parse_qs` on the `bytes` query string, which yields `bytes` keys (so
`'name[]' in params` is never true) and raises `UnicodeEncodeError` / `UnicodeDecodeError` on non-ASCII escapes or
bytes (`parseQsB q = .error .unicodeError`); it is kept so that a regression changes the model's behaviour rather than
breaking the extraction.

`parseQs` is `parse_qs` with its default percent-decoding (`encoding='utf-8', errors='replace'`), which is what the WSGI
app and MetricsHandler call.  When asgi.py passes other `encoding=` / `errors=` arguments (`asgiParseDefault = false`;
the arguments are extracted as `asgiParseEncoding` / `asgiParseErrors`) it calls a DIFFERENT function, `parseQsAlt`. -/
def asgiParams (parseQs parseQsAlt : Str → List (Str × List Str))
    (parseQsB : Bytes → PyM (List (Bytes × List Bytes))) (q : Bytes) : PyM Params :=
  if asgiQueryDecoded then
    (decodeWith asgiQueryCodec q).map fun s => strParams ((if asgiParseDefault then parseQs else parseQsAlt) s)
  else (parseQsB q).map bytesParams

/-- No method or path dispatch.  Evaluation order of the source: params, Accept join, Accept-Encoding join, then
`_bake_output`; an exception in any of them leaves the coroutine.  The answer is sent when `receive()` yields an
`http.request` message, which is what the model assumes.  All headers of `_bake_output` are forwarded. -/
def asgiApp {B : Type} (env : Env B) (parseQs parseQsAlt : Str → List (Str × List Str))
    (parseQsB : Bytes → PyM (List (Bytes × List Bytes))) (disable : Bool) (s : Scope) : PyM (Resp B) :=
  match asgiParams parseQs parseQsAlt parseQsB (s.queryString.getD []) with
  | .error e => .error e
  | .ok params =>
    match asgiHeader asgiAcceptName s.headers with
    | .error e => .error e
    | .ok accept =>
      match asgiHeader asgiAcceptEncodingName s.headers with
      | .error e => .error e
      | .ok acceptEnc => .ok (bakeOutput env (some accept) (some acceptEnc) params disable)

/-! ### `MetricsHandler.do_GET` -/

/-- `self.headers` (all field lines in order) and `self.path` (the request target) -/
structure HandlerReq where
  headers : List (Str × Str)
  path : Str

/-- `email.message.Message.get(name)`: value of the FIRST field whose name equals `name` case-insensitively -/
def headersGet (name : Str) (hs : List (Str × Str)) : Option Str :=
  (hs.find? fun h => lower h.1 == lower name).map (·.2)

/-- `urlparse(target).query` for an origin-form request target: starts with '/', not with '//', contains no TAB / CR /
LF (a request line cannot).  `urlsplit` first cuts the fragment at the first '#', then the query at the first '?' of
what is left; `urlparse` only splits `;params` off the path afterwards.  Compared with the real function at function
level by the harness. -/
def urlQuery (target : Str) : Str :=
  ((target.takeWhile (· ≠ '#')).dropWhile (· ≠ '?')).drop 1

/-- `do_GET`.  Header names and values are text: http.server decoded the header bytes as latin-1 (outside the model,
see `Props.C17.Req.handler`).  Compression cannot be switched off here. -/
def handlerGet {B : Type} (env : Env B) (parseQs : Str → List (Str × List Str)) (h : HandlerReq) : Resp B :=
  bakeOutput env (headersGet handlerAcceptName h.headers) (headersGet handlerAcceptEncodingName h.headers)
    (strParams (parseQs (urlQuery h.path))) handlerDisableCompression

end PromVerif.Model.Http
