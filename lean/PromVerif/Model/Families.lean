/-
Model of the custom-collector API of prometheus_client/metrics_core.py: `Metric.__init__`, `Metric.add_sample` and the
eight `*MetricFamily` classes (`__init__` and `add_metric`), written function by function after the Python.

* a family object is `Fam α`: the `Metric` attributes plus `_labelnames` and the class it is an instance of
* `α` is the type of opaque Python objects handed in by the caller (values, timestamps, exemplars): the code only
  stores them and tests `is None` (an `Option α` argument) — except the bound of the FIRST histogram bucket, which goes
  through `float(...) >= 0`; that test is the parameter `Env.floatGe0` (`none` = `float()` raises `ValueError`)
* a `dict` is an insertion-ordered association list, `dict(pairs)` is `mkDict` (a repeated key keeps its first position
  and takes the last value), `zip` is `List.zip` (truncates to the shorter argument — the code never checks the number
  of label values)
* `add_metric` may raise AFTER having appended samples (histogram: `float()` of a malformed first bound is evaluated
  after the bucket loop), so every `add_metric` returns the samples it appended and the raised class
* the sample-name suffixes, type strings, the `le` label name and the `_total` stripping of `CounterMetricFamily` are
  the literals extracted from the source (`Generated/Families.lean`)
* not modelled: `native_histogram` (never set by these classes), label values that are not `str`, `buckets` entries
  that are not 2/3-tuples (`TypeError`/`ValueError` from unpacking), `value` dicts with non-`str` keys
-/
import PromVerif.Py.Err
import PromVerif.Model.Registry
import PromVerif.Model.Validation
import PromVerif.Generated.Families

namespace PromVerif.Model.Families
open PromVerif.Py
open PromVerif.Model.Registry (Name MType dSet)
open PromVerif.Generated.Families

/-- what the model needs from the interpreter state: the legacy-validation switch and `float(s) >= 0` on `str` -/
structure Env where
  legacy : Bool
  floatGe0 : Name → Option Bool

/-- the value slot of a `Sample`: an object given by the caller, `None` (gauge histogram `gsum_value`), or an `int`
literal of the code (`1` for info, `1`/`0` for state sets) -/
inductive Value (α : Type)
  | obj (a : α)
  | pyNone
  | int (n : Nat)
deriving DecidableEq, Repr

def Value.ofOpt {α : Type} : Option α → Value α
  | some a => .obj a
  | none => .pyNone

/-- `Sample(name, labels, value, timestamp, exemplar)` -/
structure Sample (α : Type) where
  name : Name
  labels : List (Name × Name)
  value : Value α
  timestamp : Option α
  exemplar : Option α
deriving DecidableEq, Repr

/-- one element of `buckets`: `(le, value)` or `(le, value, exemplar)` -/
structure Bucket (α : Type) where
  le : Name
  value : α
  exemplar : Option α
deriving DecidableEq, Repr

inductive Cls
  | unknown | counter | gauge | summary | histogram | gaugehistogram | info | stateset
deriving DecidableEq, Repr

/-- a `Metric` object of one of the eight subclasses -/
structure Fam (α : Type) where
  cls : Cls
  name : Name
  documentation : List Char
  typ : MType
  unit : List Char
  samples : List (Sample α)
  labelnames : List Name
deriving DecidableEq, Repr

variable {α : Type}

/-! ### Python helpers -/

/-- `dict(pairs)` -/
def mkDict (pairs : List (Name × Name)) : List (Name × Name) := pairs.foldl (fun d p => dSet p.1 p.2 d) []

/-- `dict(zip(self._labelnames, labels))` -/
def zipDict (labelnames labels : List Name) : List (Name × Name) := mkDict (labelnames.zip labels)

/-- `s.endswith(suf)` -/
def pyEndsWith (s suf : List Char) : Bool := suf.isSuffixOf s

/-- `s[:-k]` for a literal `k > 0` -/
def pySliceNeg (s : List Char) (k : Nat) : List Char := s.take (s.length - k)

/-- `if typ == 'untyped': typ = 'unknown'` then `typ in METRIC_TYPES` -/
def resolveType (typ : List Char) : Option MType :=
  let typ := if typ = ['u', 'n', 't', 'y', 'p', 'e', 'd'] then MType.unknown.name else typ
  MType.all.find? (fun t => decide (t.name = typ))

/-! ### `Metric` -/

/-- `Metric.__init__(self, name, documentation, typ, unit)` (for an instance of class `cls`) -/
def Metric.init (env : Env) (cls : Cls) (name documentation typ unit : List Char) : PyM (Fam α) :=
  let name := if !unit.isEmpty && !pyEndsWith name ('_' :: unit) then name ++ '_' :: unit else name
  match Validation.validateMetricName env.legacy name with
  | .error e => .error e
  | .ok () =>
    match resolveType typ with
    | none => .error .valueError
    | some t => .ok { cls := cls, name := name, documentation := documentation, typ := t, unit := unit, samples := [],
                      labelnames := [] }

/-- `Metric.add_sample(name, labels, value, timestamp, exemplar)`: appends exactly that sample, any name -/
def Metric.addSample (self : Fam α) (name : Name) (labels : List (Name × Name)) (value : Value α)
    (timestamp exemplar : Option α) : Fam α :=
  { self with samples := self.samples ++ [⟨name, labels, value, timestamp, exemplar⟩] }

/-- `self.samples.append(...)` / `.extend(...)` of what an `add_metric` call produced -/
def Fam.extend (self : Fam α) (r : List (Sample α) × Option PyErr) : Fam α × Option PyErr :=
  ({ self with samples := self.samples ++ r.1 }, r.2)

/-- the body all eight `__init__` share after the name handling:
`Metric.__init__(self, name, documentation, <type>, unit)`; `raise ValueError` when the class's argument check fails
(`labels is not None and value is not None`, …; every check raises `ValueError`); `if labels is None: labels = []`;
`self._labelnames = tuple(labels)`; `if value is not None: self.add_metric([], value, …)` (`first`) — an exception of
that call leaves the constructor -/
def familyInit (env : Env) (cls : Cls) (name documentation typ unit : List Char) (badArgs : Bool)
    (labels : Option (List Name)) (first : Fam α → Option (List (Sample α) × Option PyErr)) : PyM (Fam α) :=
  match Metric.init env cls name documentation typ unit with
  | .error e => .error e
  | .ok self =>
    if badArgs then .error .valueError
    else
      let self := { self with labelnames := labels.getD [] }
      match first self with
      | none => .ok self
      | some r =>
        match r.2 with
        | some e => .error e
        | none => .ok (self.extend r).1

/-! ### the eight classes -/

/-- `UnknownMetricFamily.add_metric(labels, value, timestamp=None)` -/
def UnknownMetricFamily.addMetric (self : Fam α) (labels : List Name) (value : α) (timestamp : Option α) :
    List (Sample α) × Option PyErr :=
  ([⟨self.name ++ unknownSample, zipDict self.labelnames labels, .obj value, timestamp, none⟩], none)

/-- `UnknownMetricFamily.__init__(name, documentation, value=None, labels=None, unit='')` -/
def UnknownMetricFamily.init (env : Env) (name documentation : List Char) (value : Option α)
    (labels : Option (List Name)) (unit : List Char) : PyM (Fam α) :=
  familyInit env .unknown name documentation unknownType unit (labels.isSome && value.isSome) labels
    (fun self => value.map fun v => UnknownMetricFamily.addMetric self [] v none)

/-- `CounterMetricFamily.add_metric(labels, value, created=None, timestamp=None, exemplar=None)` -/
def CounterMetricFamily.addMetric (self : Fam α) (labels : List Name) (value : α) (created timestamp exemplar : Option α) :
    List (Sample α) × Option PyErr :=
  (⟨self.name ++ counterTotal, zipDict self.labelnames labels, .obj value, timestamp, exemplar⟩ ::
    (match created with
     | some c => [⟨self.name ++ counterCreated, zipDict self.labelnames labels, .obj c, timestamp, none⟩]
     | none => []), none)

/-- `CounterMetricFamily.__init__(name, documentation, value=None, labels=None, created=None, unit='', exemplar=None)`:
`if name.endswith('_total'): name = name[:-6]` first -/
def CounterMetricFamily.init (env : Env) (name documentation : List Char) (value : Option α)
    (labels : Option (List Name)) (created : Option α) (unit : List Char) (exemplar : Option α) : PyM (Fam α) :=
  let name := if counterStrips && pyEndsWith name counterStrip then pySliceNeg name counterStripLen else name
  familyInit env .counter name documentation counterType unit (labels.isSome && value.isSome) labels
    (fun self => value.map fun v => CounterMetricFamily.addMetric self [] v created none exemplar)

/-- `GaugeMetricFamily.add_metric(labels, value, timestamp=None)` -/
def GaugeMetricFamily.addMetric (self : Fam α) (labels : List Name) (value : α) (timestamp : Option α) :
    List (Sample α) × Option PyErr :=
  ([⟨self.name ++ gaugeSample, zipDict self.labelnames labels, .obj value, timestamp, none⟩], none)

/-- `GaugeMetricFamily.__init__(name, documentation, value=None, labels=None, unit='')` -/
def GaugeMetricFamily.init (env : Env) (name documentation : List Char) (value : Option α)
    (labels : Option (List Name)) (unit : List Char) : PyM (Fam α) :=
  familyInit env .gauge name documentation gaugeType unit (labels.isSome && value.isSome) labels
    (fun self => value.map fun v => GaugeMetricFamily.addMetric self [] v none)

/-- `SummaryMetricFamily.add_metric(labels, count_value, sum_value, timestamp=None)` -/
def SummaryMetricFamily.addMetric (self : Fam α) (labels : List Name) (countValue sumValue : α) (timestamp : Option α) :
    List (Sample α) × Option PyErr :=
  ([⟨self.name ++ summaryCount, zipDict self.labelnames labels, .obj countValue, timestamp, none⟩,
    ⟨self.name ++ summarySum, zipDict self.labelnames labels, .obj sumValue, timestamp, none⟩], none)

/-- `SummaryMetricFamily.__init__(name, documentation, count_value=None, sum_value=None, labels=None, unit='')` -/
def SummaryMetricFamily.init (env : Env) (name documentation : List Char) (countValue sumValue : Option α)
    (labels : Option (List Name)) (unit : List Char) : PyM (Fam α) :=
  familyInit env .summary name documentation summaryType unit
    ((sumValue.isNone != countValue.isNone) || (labels.isSome && countValue.isSome)) labels
    (fun self => match countValue, sumValue with
      | some c, some s => some (SummaryMetricFamily.addMetric self [] c s none)
      | _, _ => none)

/-- `HistogramMetricFamily.add_metric(labels, buckets, sum_value, timestamp=None)`: one `_bucket` sample per bucket;
then `float(buckets[0][0]) >= 0` (`IndexError` on no buckets, `ValueError` on a malformed bound — the bucket samples are
already appended) and, when that holds and `sum_value is not None`, `_count` = `buckets[-1][1]` and `_sum` -/
def HistogramMetricFamily.addMetric (env : Env) (self : Fam α) (labels : List Name) (buckets : List (Bucket α))
    (sumValue : Option α) (timestamp : Option α) : List (Sample α) × Option PyErr :=
  let bs : List (Sample α) := buckets.map fun b =>
    ⟨self.name ++ histogramBucket, mkDict (self.labelnames.zip labels ++ [(histogramLe, b.le)]), .obj b.value, timestamp,
      b.exemplar⟩
  match buckets.head?, buckets.getLast? with
  | some b0, some bl =>
    match env.floatGe0 b0.le with
    | none => (bs, some .valueError)
    | some ge =>
      match ge, sumValue with
      | true, some sv =>
        (bs ++ [⟨self.name ++ histogramCount, zipDict self.labelnames labels, .obj bl.value, timestamp, none⟩,
                ⟨self.name ++ histogramSum, zipDict self.labelnames labels, .obj sv, timestamp, none⟩], none)
      | _, _ => (bs, none)
  | _, _ => (bs, some .indexError)

/-- `HistogramMetricFamily.__init__(name, documentation, buckets=None, sum_value=None, labels=None, unit='')` -/
def HistogramMetricFamily.init (env : Env) (name documentation : List Char) (buckets : Option (List (Bucket α)))
    (sumValue : Option α) (labels : Option (List Name)) (unit : List Char) : PyM (Fam α) :=
  familyInit env .histogram name documentation histogramType unit
    ((sumValue.isSome && buckets.isNone) || (labels.isSome && buckets.isSome)) labels
    (fun self => buckets.map fun bs => HistogramMetricFamily.addMetric env self [] bs sumValue none)

/-- `GaugeHistogramMetricFamily.add_metric(labels, buckets, gsum_value, timestamp=None)`: buckets are pairs;
`buckets[-1][1]` raises `IndexError` on no buckets (nothing appended); `gsum_value` may be `None` and is stored as is -/
def GaugeHistogramMetricFamily.addMetric (self : Fam α) (labels : List Name) (buckets : List (Name × α))
    (gsumValue : Option α) (timestamp : Option α) : List (Sample α) × Option PyErr :=
  let bs : List (Sample α) := buckets.map fun b =>
    ⟨self.name ++ gaugehistogramBucket, mkDict (self.labelnames.zip labels ++ [(gaugehistogramLe, b.1)]), .obj b.2,
      timestamp, none⟩
  match buckets.getLast? with
  | none => (bs, some .indexError)
  | some bl =>
    (bs ++ [⟨self.name ++ gaugehistogramGcount, zipDict self.labelnames labels, .obj bl.2, timestamp, none⟩,
            ⟨self.name ++ gaugehistogramGsum, zipDict self.labelnames labels, Value.ofOpt gsumValue, timestamp, none⟩], none)

/-- `GaugeHistogramMetricFamily.__init__(name, documentation, buckets=None, gsum_value=None, labels=None, unit='')` -/
def GaugeHistogramMetricFamily.init (env : Env) (name documentation : List Char) (buckets : Option (List (Name × α)))
    (gsumValue : Option α) (labels : Option (List Name)) (unit : List Char) : PyM (Fam α) :=
  familyInit env .gaugehistogram name documentation gaugehistogramType unit (labels.isSome && buckets.isSome) labels
    (fun self => buckets.map fun bs => GaugeHistogramMetricFamily.addMetric self [] bs gsumValue none)

/-- `InfoMetricFamily.add_metric(labels, value, timestamp=None)`: `dict(dict(zip(self._labelnames, labels)), **value)` -/
def InfoMetricFamily.addMetric (self : Fam α) (labels : List Name) (value : List (Name × Name)) (timestamp : Option α) :
    List (Sample α) × Option PyErr :=
  ([⟨self.name ++ infoInfo, mkDict (self.labelnames.zip labels ++ value), .int 1, timestamp, none⟩], none)

/-- `InfoMetricFamily.__init__(name, documentation, value=None, labels=None)` -/
def InfoMetricFamily.init (env : Env) (name documentation : List Char) (value : Option (List (Name × Name)))
    (labels : Option (List Name)) : PyM (Fam α) :=
  familyInit env .info name documentation infoType [] (labels.isSome && value.isSome) labels
    (fun self => value.map fun v => InfoMetricFamily.addMetric self [] v none)

/-- insertion into a list sorted by state name (the keys of a `dict` are distinct, so the order of `sorted(value.items())`
is the order of the keys: `str` comparison by code point = lexicographic order on `List Char`) -/
def insertItem (x : Name × Bool) : List (Name × Bool) → List (Name × Bool)
  | [] => [x]
  | y :: ys => if x.1 ≤ y.1 then x :: y :: ys else y :: insertItem x ys

/-- `sorted(value.items())` -/
def sortedItems (value : List (Name × Bool)) : List (Name × Bool) := value.foldr insertItem []

/-- `StateSetMetricFamily.add_metric(labels, value, timestamp=None)`: one sample per state in `sorted(value.items())`,
labels `dict(zip(self._labelnames + (self.name,), labels + (state,)))` -/
def StateSetMetricFamily.addMetric (self : Fam α) (labels : List Name) (value : List (Name × Bool)) (timestamp : Option α) :
    List (Sample α) × Option PyErr :=
  ((sortedItems value).map fun st =>
    ⟨self.name ++ statesetSample, mkDict ((self.labelnames ++ [self.name]).zip (labels ++ [st.1])),
      .int (if st.2 then 1 else 0), timestamp, none⟩, none)

/-- `StateSetMetricFamily.__init__(name, documentation, value=None, labels=None)` -/
def StateSetMetricFamily.init (env : Env) (name documentation : List Char) (value : Option (List (Name × Bool)))
    (labels : Option (List Name)) : PyM (Fam α) :=
  familyInit env .stateset name documentation statesetType [] (labels.isSome && value.isSome) labels
    (fun self => value.map fun v => StateSetMetricFamily.addMetric self [] v none)

/-! ### any class, any history -/

/-- a constructor call -/
inductive Ctor (α : Type)
  | unknown (name documentation : List Char) (value : Option α) (labels : Option (List Name)) (unit : List Char)
  | counter (name documentation : List Char) (value : Option α) (labels : Option (List Name)) (created : Option α)
      (unit : List Char) (exemplar : Option α)
  | gauge (name documentation : List Char) (value : Option α) (labels : Option (List Name)) (unit : List Char)
  | summary (name documentation : List Char) (countValue sumValue : Option α) (labels : Option (List Name))
      (unit : List Char)
  | histogram (name documentation : List Char) (buckets : Option (List (Bucket α))) (sumValue : Option α)
      (labels : Option (List Name)) (unit : List Char)
  | gaugehistogram (name documentation : List Char) (buckets : Option (List (Name × α))) (gsumValue : Option α)
      (labels : Option (List Name)) (unit : List Char)
  | info (name documentation : List Char) (value : Option (List (Name × Name))) (labels : Option (List Name))
  | stateset (name documentation : List Char) (value : Option (List (Name × Bool))) (labels : Option (List Name))

def Ctor.run (env : Env) : Ctor α → PyM (Fam α)
  | .unknown n d v l u => UnknownMetricFamily.init env n d v l u
  | .counter n d v l c u e => CounterMetricFamily.init env n d v l c u e
  | .gauge n d v l u => GaugeMetricFamily.init env n d v l u
  | .summary n d c s l u => SummaryMetricFamily.init env n d c s l u
  | .histogram n d b s l u => HistogramMetricFamily.init env n d b s l u
  | .gaugehistogram n d b s l u => GaugeHistogramMetricFamily.init env n d b s l u
  | .info n d v l => InfoMetricFamily.init env n d v l
  | .stateset n d v l => StateSetMetricFamily.init env n d v l

/-- an `add_metric` call, with the arguments of the class it is a method of -/
inductive AddCall (α : Type)
  | unknown (labels : List Name) (value : α) (timestamp : Option α)
  | counter (labels : List Name) (value : α) (created timestamp exemplar : Option α)
  | gauge (labels : List Name) (value : α) (timestamp : Option α)
  | summary (labels : List Name) (countValue sumValue : α) (timestamp : Option α)
  | histogram (labels : List Name) (buckets : List (Bucket α)) (sumValue : Option α) (timestamp : Option α)
  | gaugehistogram (labels : List Name) (buckets : List (Name × α)) (gsumValue : Option α) (timestamp : Option α)
  | info (labels : List Name) (value : List (Name × Name)) (timestamp : Option α)
  | stateset (labels : List Name) (value : List (Name × Bool)) (timestamp : Option α)

/-- the samples `self.add_metric(...)` appends and what it raises; the method is the one of the object's class (calling
with the argument shape of another class is a `TypeError` in Python and appends nothing) -/
def newSamples (env : Env) (self : Fam α) : AddCall α → List (Sample α) × Option PyErr
  | .unknown l v t => if self.cls = .unknown then UnknownMetricFamily.addMetric self l v t else ([], some .typeError)
  | .counter l v c t e => if self.cls = .counter then CounterMetricFamily.addMetric self l v c t e else ([], some .typeError)
  | .gauge l v t => if self.cls = .gauge then GaugeMetricFamily.addMetric self l v t else ([], some .typeError)
  | .summary l c s t => if self.cls = .summary then SummaryMetricFamily.addMetric self l c s t else ([], some .typeError)
  | .histogram l b s t =>
    if self.cls = .histogram then HistogramMetricFamily.addMetric env self l b s t else ([], some .typeError)
  | .gaugehistogram l b s t =>
    if self.cls = .gaugehistogram then GaugeHistogramMetricFamily.addMetric self l b s t else ([], some .typeError)
  | .info l v t => if self.cls = .info then InfoMetricFamily.addMetric self l v t else ([], some .typeError)
  | .stateset l v t => if self.cls = .stateset then StateSetMetricFamily.addMetric self l v t else ([], some .typeError)

/-- `self.add_metric(...)` -/
def addMetric (env : Env) (self : Fam α) (c : AddCall α) : Fam α × Option PyErr := self.extend (newSamples env self c)

/-- a sequence of `add_metric` calls on one object; the raised class (or `none`) of every call is recorded -/
def runAdds (env : Env) (self : Fam α) : List (AddCall α) → Fam α × List (Option PyErr)
  | [] => (self, [])
  | c :: cs =>
    let r := addMetric env self c
    let rest := runAdds env r.1 cs
    (rest.1, r.2 :: rest.2)

/-- the family objects a custom collector can hold: built by one of the eight constructors (which did not raise), then
any `add_metric` calls (raising or not) -/
def Built (env : Env) (f : Fam α) : Prop :=
  ∃ (ctor : Ctor α) (f0 : Fam α) (adds : List (AddCall α)), ctor.run env = .ok f0 ∧ f = (runAdds env f0 adds).1

/-! ### per class: the literals used -/

/-- the type string the class passes to `Metric.__init__` -/
def Cls.typeLit : Cls → List Char
  | .unknown => unknownType | .counter => counterType | .gauge => gaugeType | .summary => summaryType
  | .histogram => histogramType | .gaugehistogram => gaugehistogramType | .info => infoType | .stateset => statesetType

/-- the sample-name suffixes `add_metric` of the class uses -/
def Cls.suffixes : Cls → List (List Char)
  | .unknown => [unknownSample]
  | .counter => [counterTotal, counterCreated]
  | .gauge => [gaugeSample]
  | .summary => [summaryCount, summarySum]
  | .histogram => [histogramBucket, histogramCount, histogramSum]
  | .gaugehistogram => [gaugehistogramBucket, gaugehistogramGcount, gaugehistogramGsum]
  | .info => [infoInfo]
  | .stateset => [statesetSample]

end PromVerif.Model.Families
