/-
Model of `prometheus_client.exposition.write_to_textfile` (C18).

The function's effect skeleton is `Generated.Textfile` (re-extracted from the source on every run).  This file gives
it a semantics:

* a file system is an association list `path ↦ content`; a writer additionally has a private buffered handle
  (`Local.buf` = bytes accepted by `f.write` that have not reached the file yet) and the result of its last
  `os.path.exists` (`Local.seen`);
* `compile` turns the skeleton into the list of atomic effects of one call: `openTrunc tmp`, one `collect i` per
  collector of the registry (`generate_latest` runs them in order; each may raise) followed by `encode` (the final
  `.encode('utf-8')` of the joined text; may raise), one `write` per piece the OS / the
  buffered writer splits `f.write(data)` into — every piece carries a flag saying whether it reaches the file at
  `write()` time or stays buffered until `close()`; all-true is an unbuffered writer, all-false a fully deferred one —
  `close`, `rename tmp target`; every effect is annotated with the handle the `with` statement closes when an exception
  unwinds through it;
* `faultedRun` is the effect list of a call in which effect `pos` raises exception `exc` (after `part` of its bytes /
  of its work reached the disk): the effects before it, the faulted effect, the `with` exit (close) when the fault is
  inside the block, and — only when the `except` clause catches the class — the handler's effects;
* a crash (kill) is a prefix (`List.take`) of such a list; two concurrent writers are an `Interleave`-ing of two lists.
-/
import PromVerif.Generated.Textfile

namespace PromVerif.Model.Textfile
open PromVerif.Generated.Textfile

abbrev Path := List Char
abbrev Content := List UInt8

/-! ### file system -/

abbrev Fs := List (Path × Content)

def Fs.get : Fs → Path → Option Content
  | [], _ => none
  | (q, c) :: r, p => if q = p then some c else Fs.get r p

def Fs.del : Fs → Path → Fs
  | [], _ => []
  | (q, c) :: r, p => if q = p then Fs.del r p else (q, c) :: Fs.del r p

def Fs.set (fs : Fs) (p : Path) (c : Content) : Fs := (p, c) :: fs.del p

/-- append bytes to the file at `p` (creating it if absent) -/
def Fs.append (fs : Fs) (p : Path) (x : Content) : Fs := fs.set p ((fs.get p).getD [] ++ x)

/-! ### exceptions -/

/-- exception classes the model distinguishes; the last three derive from `BaseException` only -/
inductive ExcClass
  | osError | unicodeEncodeError | valueError | memoryError | runtimeError
  | keyboardInterrupt | systemExit | generatorExit
deriving DecidableEq, Repr

/-- `issubclass(c, Exception)` -/
def ExcClass.isException : ExcClass → Bool
  | .keyboardInterrupt | .systemExit | .generatorExit => false
  | _ => true

/-- an exception object: its class and its identity -/
structure Exc where
  cls : ExcClass
  ident : Nat
deriving DecidableEq, Repr

/-- does `except <name>:` catch an exception of class `c` -/
def catches (name : List Char) (c : ExcClass) : Bool :=
  if name = "BaseException".toList then true
  else if name = "Exception".toList then c.isException
  else if name = "OSError".toList ∨ name = "IOError".toList ∨ name = "EnvironmentError".toList then c = .osError
  else if name = "ValueError".toList then c = .valueError ∨ c = .unicodeEncodeError
  else if name = "UnicodeError".toList ∨ name = "UnicodeEncodeError".toList then c = .unicodeEncodeError
  else if name = "MemoryError".toList then c = .memoryError
  else if name = "RuntimeError".toList then c = .runtimeError
  else if name = "KeyboardInterrupt".toList then c = .keyboardInterrupt
  else false

/-! ### atomic effects -/

inductive Eff
  | openTrunc (p : Path)                        -- `open(p, 'wb')`: p exists and is empty afterwards
  | collect (i : Nat)                           -- collector `i` runs and its families are rendered (no file effect; may raise)
  | encode                                      -- `''.join(output).encode('utf-8')` at the end of generate_latest (may raise)
  | write (p : Path) (c : Content) (flush : Bool) -- one piece of `f.write(data)` on the handle opened at `p`
  | close (p : Path)                            -- flush what is buffered, close the handle
  | rename (src dst : Path)                     -- atomic: `dst` switches to the full content of `src`, `src` disappears
  | pathExists (p : Path)
  | removeIfSeen (p : Path)                     -- `os.remove(p)` in the body of the `exists` test
  | remove (p : Path)
  | reraise
deriving DecidableEq, Repr

/-- an executed effect: `none` = it completed, `some n` = it raised after `n` units of its work reached the disk -/
abbrev Step := Eff × Option Nat

structure Local where
  buf : Content := []
  seen : Bool := false
deriving DecidableEq, Repr

structure Cfg where
  fs : Fs
  loc : Local

def applyNormal : Eff → Cfg → Cfg
  | .openTrunc p, c => { fs := c.fs.set p [], loc := { c.loc with buf := [] } }
  | .collect _, c => c
  | .encode, c => c
  | .write p x fl, c =>
      if fl then { fs := c.fs.append p (c.loc.buf ++ x), loc := { c.loc with buf := [] } }
      else { c with loc := { c.loc with buf := c.loc.buf ++ x } }
  | .close p, c => { fs := c.fs.append p c.loc.buf, loc := { c.loc with buf := [] } }
  | .rename s d, c =>
      match c.fs.get s with
      | some x => { c with fs := (c.fs.del s).set d x }
      | none => c
  | .pathExists p, c => { c with loc := { c.loc with seen := (c.fs.get p).isSome } }
  | .removeIfSeen p, c => if c.loc.seen then { c with fs := c.fs.del p } else c
  | .remove p, c => { c with fs := c.fs.del p }
  | .reraise, c => c

/-- the effect raises; `n` says how much of it happened first: a failing `open` may or may not have created the file,
a failing `write`/`close` may have put any prefix of the pending bytes into the file; a failing rename changes nothing -/
def applyFaulted : Eff → Nat → Cfg → Cfg
  | .openTrunc p, n, c => if n = 0 then c else { c with fs := c.fs.set p [] }
  | .write p x _, n, c =>
      { fs := c.fs.append p ((c.loc.buf ++ x).take n), loc := { c.loc with buf := (c.loc.buf ++ x).drop n } }
  | .close p, n, c => { fs := c.fs.append p (c.loc.buf.take n), loc := { c.loc with buf := [] } }
  | _, _, c => c

def applyStep (s : Step) (c : Cfg) : Cfg :=
  match s.2 with
  | none => applyNormal s.1 c
  | some n => applyFaulted s.1 n c

def exec (ss : List Step) (c : Cfg) : Cfg := ss.foldl (fun c s => applyStep s c) c

/-! ### one call -/

/-- how the OS / buffered writer splits `f.write(data)`: piece sizes with their flush-at-write flag; what is left after
the listed pieces forms the last piece -/
def chunksOf : List (Nat × Bool) → Bool → Content → List (Content × Bool)
  | [], fin, d => [(d, fin)]
  | (n, fl) :: r, fin, d => (d.take n, fl) :: chunksOf r fin (d.drop n)

structure Params where
  target : Path
  tmp : Path
  /-- the rendered output of each collector of the registry, in registration order -/
  collectors : List Content
  cuts : List (Nat × Bool) := []
  lastFlush : Bool := false

/-- `generate_latest(registry)` when no collector raises -/
def Params.new (P : Params) : Content := P.collectors.flatten

def Params.chunks (P : Params) : List (Content × Bool) := chunksOf P.cuts P.lastFlush P.new

def Params.res (P : Params) : PathRef → Path
  | .tmp => P.tmp
  | .target => P.target
  | .other => []

/-- skeleton → effects, each with the handle that the `with` statement closes if the effect raises -/
def compile (P : Params) : Option Path → List Sk → List (Eff × Option Path)
  | _, [] => []
  | _, .openWith p _ :: r => (.openTrunc (P.res p), none) :: compile P (some (P.res p)) r
  | w, .generate :: r =>
      ((List.range P.collectors.length).map fun i => (Eff.collect i, w)) ++ (Eff.encode, w) :: compile P w r
  | some h, .writeData :: r => (P.chunks.map fun c => (Eff.write h c.1 c.2, some h)) ++ compile P (some h) r
  | none, .writeData :: r => compile P none r
  | some h, .endWith :: r => (.close h, none) :: compile P none r
  | none, .endWith :: r => compile P none r
  | w, .rename s d :: r => (.rename (P.res s) (P.res d), w) :: compile P w r
  | w, .removeIfExists t q :: r => (.pathExists (P.res t), w) :: (.removeIfSeen (P.res q), w) :: compile P w r
  | w, .remove q :: r => (.remove (P.res q), w) :: compile P w r
  | w, .reraise :: r => (.reraise, w) :: compile P w r

def body (P : Params) : List (Eff × Option Path) := compile P none tryBody

/-- statements after a bare `raise` do not run -/
def upToReraise : List Sk → List Sk
  | [] => []
  | .reraise :: _ => [.reraise]
  | s :: r => s :: upToReraise r

def handlerEffs (P : Params) : List Eff := (compile P none (upToReraise handler)).map (·.1)

def normal (e : Eff) : Step := (e, none)

/-- the call completes: every effect of the `try` body, none of the handler -/
def normalRun (P : Params) : List Step := (body P).map fun x => normal x.1

structure Fault where
  pos : Nat
  exc : Exc
  part : Nat := 0

/-- effect list of a call whose effect number `pos` raises `exc` (a position past the end = no fault) -/
def faultedRun (P : Params) (f : Fault) : List Step :=
  match (body P)[f.pos]? with
  | none => normalRun P
  | some (e, w) =>
      ((body P).take f.pos).map (fun x => normal x.1) ++ [(e, some f.part)]
        ++ (match w with | some h => [normal (.close h)] | none => [])
        ++ (if catches caughtClass f.exc.cls then (handlerEffs P).map normal else [])

/-- what the caller of `write_to_textfile` sees -/
def outcome (P : Params) (f : Fault) : Except Exc Unit :=
  match (body P)[f.pos]? with
  | none => .ok ()
  | some _ =>
      if catches caughtClass f.exc.cls then
        (if Sk.reraise ∈ handler then .error f.exc else .ok ())
      else .error f.exc

/-! ### two concurrent writers -/

structure Cfg2 where
  fs : Fs
  l1 : Local
  l2 : Local

/-- `(true, s)`: writer 1 executes `s`; `(false, s)`: writer 2 does -/
def apply2 (ws : Bool × Step) (c : Cfg2) : Cfg2 :=
  if ws.1 then
    let r := applyStep ws.2 ⟨c.fs, c.l1⟩
    { c with fs := r.fs, l1 := r.loc }
  else
    let r := applyStep ws.2 ⟨c.fs, c.l2⟩
    { c with fs := r.fs, l2 := r.loc }

def exec2 (zs : List (Bool × Step)) (c : Cfg2) : Cfg2 := zs.foldl (fun c s => apply2 s c) c

/-- all ways of merging two effect lists, each kept in its own order -/
inductive Interleave : List Step → List Step → List (Bool × Step) → Prop
  | nil : Interleave [] [] []
  | left {x xs ys zs} : Interleave xs ys zs → Interleave (x :: xs) ys ((true, x) :: zs)
  | right {y xs ys zs} : Interleave xs ys zs → Interleave xs (y :: ys) ((false, y) :: zs)

/-- the interleaving chosen by a schedule (`true` = writer 1 moves); an entry naming a writer that has finished is
skipped; when the schedule is exhausted writer 1 runs to its end, then writer 2 -/
def merge : List Bool → List Step → List Step → List (Bool × Step)
  | [], xs, ys => xs.map (fun x => (true, x)) ++ ys.map (fun y => (false, y))
  | true :: sch, x :: xs, ys => (true, x) :: merge sch xs ys
  | true :: sch, [], ys => merge sch [] ys
  | false :: sch, xs, y :: ys => (false, y) :: merge sch xs ys
  | false :: sch, xs, [] => merge sch xs []

/-! ### any number of concurrent writers -/

/-- a writer: the parameters of its call and the (at most one) fault it meets; a fault position past the end of the
body means "no fault" -/
abbrev Writer := Params × Fault

/-- the effect list of a writer's call -/
def runOf (w : Writer) : List Step := faultedRun w.1 w.2

/-- shared file system, and per writer (by index) its local handle state and the effects it has still to execute -/
structure CfgN where
  fs : Fs
  locs : List Local
  rem : List (List Step)

def initN (fs : Fs) (ws : List Writer) : CfgN := ⟨fs, ws.map fun _ => {}, ws.map runOf⟩

/-- writer `i` executes its next effect (nothing happens when it has finished or does not exist) -/
def stepN (i : Nat) (c : CfgN) : CfgN :=
  match c.rem[i]?, c.locs[i]? with
  | some (s :: r), some l =>
      let x := applyStep s ⟨c.fs, l⟩
      { fs := x.fs, locs := c.locs.set i x.loc, rem := c.rem.set i r }
  | _, _ => c

/-- a schedule is any list of writer indices: who moves next.  Every prefix of a schedule is a schedule, so "at every
instant" is "for every schedule"; a writer that is never scheduled again has been killed; the whole system being
killed is the schedule ending. -/
def runSched (sch : List Nat) (c : CfgN) : CfgN := sch.foldl (fun c i => stepN i c) c

/-! ### the temporary name -/

def natDigits (n : Nat) : List Char := (Nat.repr n).toList

/-- the name `write_to_textfile` builds, from the extracted parts: `pid` is the pid of the calling process NOW,
`importPid` the pid that was current when `prometheus_client.exposition` was imported (the two differ in a forked
child), `tid` the calling thread's ident -/
def tmpName (parts : List TmpPart) (path : Path) (pid importPid tid : Nat) : Path :=
  parts.flatMap fun
    | .path => path
    | .lit s => s
    | .pid => natDigits pid
    | .cachedPid => natDigits importPid
    | .threadIdent => natDigits tid
    | .other _ => []

end PromVerif.Model.Textfile
