/-
Model of the Pushgateway client in prometheus_client/exposition.py:
`push_to_gateway`, `pushadd_to_gateway`, `delete_from_gateway`, `_use_gateway`, `_escape_grouping_key`,
together with the three standard-library pieces the property is about: `urllib.parse.quote_plus`,
`base64.urlsafe_b64encode` and the scheme test of `urllib.parse.urlparse`.

All literals (method names, content type, format strings, `@base64`, `=`, `http://`, the scheme list, the strip
set, whether the grouping key is `sorted(…)`) come from `Generated.Gateway`, re-extracted from the source on
every run.  The exposition bytes and the time-out are opaque parameters (`β`, `τ`).

Outside the model (stated, not hidden): `urlparse` raising `ValueError` on a malformed bracketed host or an
NFKC-confusable netloc; keys of a grouping key that are not `str` (Python sorts the original keys, the model
sorts their `str()`); lone surrogates (not encodable, `quote_plus` raises).
-/
import PromVerif.Py.Str
import PromVerif.Generated.Gateway

namespace PromVerif.Model.Gateway
open PromVerif.Py
open PromVerif.Generated.Gateway

abbrev Bytes := List UInt8

/-- `s.encode('utf-8')` (the list form of core's `List.utf8Encode`) -/
def utf8 (s : Str) : Bytes := s.flatMap String.utf8EncodeChar

/-! ### `base64.urlsafe_b64encode` -/

/-- the URL-safe alphabet `A–Z a–z 0–9 - _` -/
def b64Char (n : Nat) : Char :=
  if n < 26 then Char.ofNat (65 + n)
  else if n < 52 then Char.ofNat (97 + (n - 26))
  else if n < 62 then Char.ofNat (48 + (n - 52))
  else if n = 62 then '-' else '_'

/-- three bytes → four sextets; a tail of one or two bytes is zero-filled and padded with `=` -/
def b64encode : Bytes → List Char
  | [] => []
  | [a] => [b64Char (a.toNat / 4), b64Char (a.toNat % 4 * 16), '=', '=']
  | [a, b] => [b64Char (a.toNat / 4), b64Char (a.toNat % 4 * 16 + b.toNat / 16), b64Char (b.toNat % 16 * 4), '=']
  | a :: b :: c :: rest =>
    b64Char (a.toNat / 4) :: b64Char (a.toNat % 4 * 16 + b.toNat / 16) ::
    b64Char (b.toNat % 16 * 4 + c.toNat / 64) :: b64Char (c.toNat % 64) :: b64encode rest

/-! ### `urllib.parse.quote_plus(v)` and `urllib.parse.quote(v, safe='')` (UTF-8, strict) -/

/-- `_ALWAYS_SAFE`: ASCII letters, digits and `_.-~` -/
def isSafeChar (c : Char) : Bool :=
  ('a' ≤ c && c ≤ 'z') || ('A' ≤ c && c ≤ 'Z') || ('0' ≤ c && c ≤ '9') ||
  c = '_' || c = '.' || c = '-' || c = '~'

/-- upper-case hex digit, as in `'%{:02X}'` -/
def hexUpper (n : Nat) : Char := if n < 10 then Char.ofNat (48 + n) else Char.ofNat (55 + n)

/-- one byte of the UTF-8 encoding: kept when safe, `%XX` otherwise — except that `quote_plus` (`plus = true`)
writes a space as `+` -/
def quoteByte (plus : Bool) (b : UInt8) : List Char :=
  let c := Char.ofNat b.toNat
  if b.toNat < 128 && isSafeChar c then [c]
  else if plus && b.toNat = 32 then ['+']
  else ['%', hexUpper (b.toNat / 16), hexUpper (b.toNat % 16)]

def quoteBytes (plus : Bool) (bs : Bytes) : List Char := bs.flatMap (quoteByte plus)

/-- the two encoders, by flag -/
def quoteWith (plus : Bool) (s : Str) : Str := quoteBytes plus (utf8 s)

/-- `urllib.parse.quote_plus(s)` -/
def quotePlus (s : Str) : Str := quoteWith true s

/-- `urllib.parse.quote(s, safe='')` -/
def quote (s : Str) : Str := quoteWith false s

/-! ### `_escape_grouping_key(k, v)` -/

/-- `_escape_grouping_key` with the plain branch's encoder named by `plus`
(`quote_plus(v)` when true, `quote(v, safe='')` when false) -/
def escapeGroupingKeyWith (plus : Bool) (k v : Str) : Str × Str :=
  if v = [] then (k ++ base64Suffix, emptyMarker)
  else if isInfix slashLit v then (k ++ base64Suffix, b64encode (utf8 v))
  else (k, quoteWith plus v)

/-- `_escape_grouping_key(k, v)` as the source has it now (`Generated.Gateway.spaceAsPlus`) -/
def escapeGroupingKey (k v : Str) : Str × Str := escapeGroupingKeyWith spaceAsPlus k v

/-! ### the scheme test of `urlparse` -/

/-- `scheme_chars` -/
def isSchemeChar (c : Char) : Bool :=
  ('a' ≤ c && c ≤ 'z') || ('A' ≤ c && c ≤ 'Z') || ('0' ≤ c && c ≤ '9') || c = '+' || c = '-' || c = '.'

def isAsciiAlpha (c : Char) : Bool := ('a' ≤ c && c ≤ 'z') || ('A' ≤ c && c ≤ 'Z')

def asciiLower (c : Char) : Char := if 'A' ≤ c && c ≤ 'Z' then Char.ofNat (c.toNat + 32) else c

/-- `urlparse(url).scheme` (CPython 3.12 `urlsplit`): leading C0 controls and spaces are stripped, tab/CR/LF are
removed; the text before the first `:` is a scheme when it is non-empty, starts with an ASCII letter and consists
of `scheme_chars`; it is lower-cased.  `host:9091` therefore has scheme `host`. -/
def urlScheme (url : Str) : Str :=
  let u := (url.dropWhile (fun c => c.toNat ≤ 32)).filter (fun c => c ≠ '\t' && c ≠ '\r' && c ≠ '\n')
  match findChar ':' u with
  | none => []
  | some i =>
    if 0 < i && (u.head?.map isAsciiAlpha).getD false && (u.take i).all isSchemeChar
    then (u.take i).map asciiLower else []

/-- `not gateway_url.scheme or gateway_url.scheme not in ['http', 'https']` -/
def needsPrefix (gateway : Str) : Bool :=
  let s := urlScheme gateway
  s.isEmpty || !(allowedSchemes.contains s)

/-- the gateway after scheme defaulting and `rstrip('/')` -/
def gatewayBase (gateway : Str) : Str :=
  rstripSet (fun c => rstripChars.contains c) (if needsPrefix gateway then httpPrefix ++ gateway else gateway)

/-! ### `_use_gateway` -/

/-- `'…{}…{}…'.format(*args)` for a format string split at its `{}` fields -/
def fmt : List Str → List Str → Str
  | [], _ => []
  | [p], _ => p
  | p :: ps, [] => p ++ fmt ps []
  | p :: ps, a :: as => p ++ a ++ fmt ps as

/-- `sorted(grouping_key.items())`, or the dict order when the source does not sort -/
def orderedItems (gk : List (Str × Str)) : List (Str × Str) :=
  if sortsGroupingKey then sortByKey gk else gk

/-- one `/name/value` piece -/
def pairPiece (kv : Str × Str) : Str :=
  let e := escapeGroupingKey kv.1 kv.2
  fmt pairFmt [e.1, e.2]

/-- the URL handed to the handler; `gk` holds `(str(k), str(v))` in dict order -/
def buildUrl (gateway job : Str) (gk : List (Str × Str)) : Str :=
  let e := escapeGroupingKey jobLit job
  fmt urlFmt [gatewayBase gateway, e.1, e.2] ++ (orderedItems gk).flatMap pairPiece

/-- the escaped segments `name, value, name, value, …` of a list of labels -/
def segments (l : List (Str × Str)) : List Str :=
  l.flatMap (fun kv => [(escapeGroupingKey kv.1 kv.2).1, (escapeGroupingKey kv.1 kv.2).2])

/-- the part of the URL after `/metrics/`, as a `/`-join of the segments
(`Props.C19.buildUrl_eq`: `buildUrl g job gk = gatewayBase g ++ "/metrics/" ++ buildPath job gk`) -/
def buildPath (job : Str) (gk : List (Str × Str)) : Str :=
  joinStr ['/'] (segments ((jobLit, job) :: orderedItems gk))

/-- what the injected handler receives -/
structure Request (β τ : Type) where
  url : Str
  method : Str
  timeout : τ
  headers : List (Str × Str)
  data : β

/-- `_use_gateway(method, gateway, job, registry, grouping_key, timeout, handler)`;
`expo` stands for `generate_latest(registry)`, `empty` for `b''` -/
def useGateway {β τ : Type} (method gateway job : Str) (expo empty : β) (gk : List (Str × Str)) (timeout : τ) :
    Request β τ :=
  { url := buildUrl gateway job gk
    method := method
    timeout := timeout
    headers := [(headerName, contentTypeLatest)]
    data := if method ≠ deleteLit then expo else empty }

def pushToGateway {β τ : Type} (gateway job : Str) (expo empty : β) (gk : List (Str × Str)) (timeout : τ) :=
  useGateway methodPut gateway job expo empty gk timeout

def pushaddToGateway {β τ : Type} (gateway job : Str) (expo empty : β) (gk : List (Str × Str)) (timeout : τ) :=
  useGateway methodPost gateway job expo empty gk timeout

def deleteFromGateway {β τ : Type} (gateway job : Str) (expo empty : β) (gk : List (Str × Str)) (timeout : τ) :=
  useGateway methodDelete gateway job expo empty gk timeout

end PromVerif.Model.Gateway
