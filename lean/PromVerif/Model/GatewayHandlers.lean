/-
Model of the Pushgateway client's OWN handlers in prometheus_client/exposition.py:
`_make_handler` (and its inner `handle`), `default_handler`, `passthrough_redirect_handler`,
`basic_auth_handler` (and its inner `handle`), `_PrometheusRedirectHandler.redirect_request`, and the
`registry is None -> REGISTRY` defaulting of `_use_gateway`.

A handler receives what `_use_gateway` built (`Model.Gateway.Request`) and hands a `Wire` to urllib's opener:
the `Request(url, data=data)` object with the installed `get_method`, the `add_header` calls in order, and the
`timeout=` keyword of `OpenerDirector.open`.  The opener itself (urllib.request / http.client: sockets, the
capitalisation of header names in `Request.add_header`, `Content-Length`, the stock redirect / error processors
that `build_opener` always adds) is an opaque, trusted parameter `opener : Wire β τ → Except PyErr Nat` giving the
status code of the final response or raising.

Flags and literals come from `Generated.Gateway` (re-extracted on every run): whether `request.get_method` is
installed, whether `open` gets `timeout=timeout`, the least status that raises and the class raised, the base
handler classes, the Basic-auth literals, the code / method tables and the space escape of `redirect_request`.
-/
import PromVerif.Py.Err
import PromVerif.Model.Gateway

set_option autoImplicit false

namespace PromVerif.Model.GatewayHandlers
open PromVerif.Py PromVerif.Model.Gateway
open PromVerif.Generated.Gateway

/-- the `timeout` argument of `OpenerDirector.open`: the caller's value, or (keyword absent) urllib's
`socket._GLOBAL_DEFAULT_TIMEOUT` sentinel -/
inductive WTimeout (τ : Type) where
  | given (t : τ)
  | globalDefault
deriving DecidableEq, Repr

/-- what reaches urllib's opener -/
structure Wire (β τ : Type) where
  url : Str
  method : Str
  headers : List (Str × Str)
  body : β
  timeout : WTimeout τ
  /-- the handler class given to `build_opener` -/
  base : Str
deriving DecidableEq, Repr

/-- `urllib.request.Request.get_method()` when nothing is installed and `data is not None`
(`data` is `bytes` here, never `None`; `b''` is not `None`) -/
def urllibDefaultMethod : Str := ['P', 'O', 'S', 'T']

/-- `for k, v in headers: request.add_header(k, v)`: the calls, in order -/
def addHeaders (hs : List (Str × Str)) : List (Str × Str) :=
  hs.foldl (fun acc kv => acc ++ [(kv.1, kv.2)]) []

/-- the exception class of `raise OSError(…)` (anything else is kept distinct from `OSError`) -/
def errOfClass (cls : Str) : PyErr :=
  if cls = ['O', 'S', 'E', 'r', 'r', 'o', 'r'] then .osError
  -- `urllib.error.HTTPError` ⊂ `URLError` ⊂ `OSError`
  else if cls = ['H', 'T', 'T', 'P', 'E', 'r', 'r', 'o', 'r'] then .osError
  else .runtimeError

section
variable {β τ : Type}

/-- the first four statements of `_make_handler.handle`: what is handed to `build_opener(base).open` -/
def makeRequest (r : Request β τ) (base : Str) : Wire β τ :=
  { url := r.url
    method := if mhMethodInstalled then r.method else urllibDefaultMethod
    headers := addHeaders r.headers
    body := r.data
    timeout := if mhTimeoutPassed then .given r.timeout else .globalDefault
    base := base }

/-- `if resp.code >= 400: raise OSError(…)` -/
def checkStatus (code : Nat) : Except PyErr Unit :=
  if code ≥ mhErrorFrom then .error (errOfClass mhErrorClass) else .ok ()

/-- what `handle` makes of the opener's answer: an exception inside urllib reaches the caller; a response is
checked for its status -/
def statusOf : Except PyErr Nat → Except PyErr Unit
  | .error e => .error e
  | .ok code => checkStatus code

/-- `_make_handler(url, method, timeout, headers, data, base_handler)()` -/
def makeHandler (r : Request β τ) (base : Str) (opener : Wire β τ → Except PyErr Nat) : Except PyErr Unit :=
  statusOf (opener (makeRequest r base))

/-- `default_handler(…)()` -/
def defaultHandler (r : Request β τ) (opener : Wire β τ → Except PyErr Nat) : Except PyErr Unit :=
  makeHandler r defaultBase opener

/-- `passthrough_redirect_handler(…)()` -/
def passthroughRedirectHandler (r : Request β τ) (opener : Wire β τ → Except PyErr Nat) : Except PyErr Unit :=
  makeHandler r redirectBase opener

/-! ### `basic_auth_handler` -/

/-- standard alphabet: `urlsafe_b64encode` is `b64encode` with `+/` translated to `-_` -/
def stdChar (c : Char) : Char := if c = '-' then '+' else if c = '_' then '/' else c

/-- `base64.b64encode` -/
def b64encodeStd (bs : Bytes) : List Char := (b64encode bs).map stdChar

/-- `b'Basic ' + base64.b64encode(f'{username}:{password}'.encode())` (ASCII, shown as text) -/
def authValue (user password : Str) : Str :=
  authPrefix ++ b64encodeStd (utf8 (user ++ authSep ++ password))

/-- the `headers` list after the `if username is not None and password is not None:` block -/
def authHeaders (hs : List (Str × Str)) : Option Str → Option Str → List (Str × Str)
  | some u, some p => hs ++ [(authHeaderName, authValue u p)]
  | _, _ => hs

/-- what `basic_auth_handler.handle` passes to `default_handler`: the same arguments, `headers` after the append -/
def basicAuthRequest (r : Request β τ) (user password : Option Str) : Request β τ :=
  ⟨r.url, r.method, r.timeout, authHeaders r.headers user password, r.data⟩

/-- `basic_auth_handler(url, method, timeout, headers, data, username, password)()` -/
def basicAuthHandler (r : Request β τ) (user password : Option Str) (opener : Wire β τ → Except PyErr Nat) :
    Except PyErr Unit :=
  defaultHandler (basicAuthRequest r user password) opener

/-! ### `_PrometheusRedirectHandler.redirect_request` -/

/-- the test `code in (…) and m in (…) or code in (…) and m in (…)` -/
def redirectAllowed (code : Nat) (m : Str) : Bool :=
  (redirSafeCodes.contains code && redirSafeMethods.contains m) ||
  (redirUnsafeCodes.contains code && redirUnsafeMethods.contains m)

/-- `newurl.replace(' ', '%20')` -/
def escapeNewUrl (newurl : Str) : Str :=
  match redirSpaceFrom with
  | [c] => replaceChar c redirSpaceTo newurl
  | _ => newurl

/-- `redirect_request(req, fp, code, msg, headers, newurl)`: the request that is sent next, or `HTTPError`.
`m` is the installed `get_method()`; headers, data are copied; the time-out is re-used by urllib
(`self.parent.open(new, timeout=req.timeout)`) -/
def redirectRequest (w : Wire β τ) (code : Nat) (newurl : Str) : Except PyErr (Wire β τ) :=
  if redirectAllowed code w.method then
    .ok { url := escapeNewUrl newurl, method := w.method, headers := w.headers, body := w.body,
          timeout := w.timeout, base := w.base }
  else .error (errOfClass redirErrorClass)

/-! ### `registry is None -> REGISTRY` in `_use_gateway` -/

/-- the body `_use_gateway` builds from an optional registry: `generate_latest(registry or REGISTRY)` unless the
method is `DELETE` -/
def bodyOf {ρ : Type} (method : Str) (registry : Option ρ) (dflt : ρ) (gen : ρ → β) (empty : β) : β :=
  if method ≠ deleteLit then
    gen (match registry with
         | some r => r
         | none => dflt)
  else empty

end

end PromVerif.Model.GatewayHandlers
