/-
Shared data types of the exposition / parser models (DESIGN.md appendix A).
Numbers cross as the text CPython's `repr` gives for `float(value)`; the library's own rendering of them is
`Model.Utils.floatToGoString`.
-/
import PromVerif.Py.Str

namespace PromVerif.Model
open PromVerif.Py

/-- a sample or exemplar timestamp as the exposition sees it -/
inductive Ts
  | int (n : Int)                 -- a Python int
  | flt (repr : Str)              -- a Python float, by its repr
  | stamp (sec nsec : Int)        -- samples.Timestamp
deriving Repr, DecidableEq

/-- timestamp plus `int(float(ts) * 1000)` as CPython computes it (a parameter of the text exposition model) -/
structure TsIn where
  ts : Ts
  millis : Int
deriving Repr, DecidableEq

structure Exemplar where
  labels : List (Str × Str)
  value : Str
  ts : Option Ts
deriving Repr, DecidableEq

structure Sample where
  name : Str
  labels : List (Str × Str)       -- dict, insertion order, unique keys
  value : Str                      -- repr(float(value))
  ts : Option TsIn
  exemplar : Option Exemplar
deriving Repr, DecidableEq

structure Family where
  name : Str
  doc : Str
  typ : Str
  unit : Str
  samples : List Sample
deriving Repr, DecidableEq

end PromVerif.Model
