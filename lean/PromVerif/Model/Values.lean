/-
Model of the closure `values.MultiProcessValue(process_identifier)` (writer side of multiprocess mode).

Closure state: the remembered identity `pid['value']`, the dict `files` (file prefix → open store), the list `values`
of every value object ever constructed, and — outside the closure — the directory (`disk`: file name → store) and what
`process_identifier()` returns now (`actual`, changed only by the environment, op `setPid`).
One store file is an insertion-ordered map `key → (value, timestamp)` (the abstraction C10 justifies):
`MmapedDict(filename)` opens or creates the file, `read_value(key)` CREATES the key at `(0.0, 0.0)` when absent,
`write_value` creates it when absent and then stores.  `f.close()` has no effect at this level.
An open store is identified with its file name, so `self._file` is the name the object was bound to by `__reset`.
The JSON text of `mmap_key` is abstracted to the tuple `Key` (labels `dict(zip(names, values))`, keys sorted).
Every public method is `with lock: self.__check_for_pid_change(); …` (shape checked by the extractor).
-/
import PromVerif.Model.Multiprocess

namespace PromVerif.Model.Values
open PromVerif.Py
open PromVerif.Generated.Multiprocess
open PromVerif.Model.Multiprocess
set_option autoImplicit false

/-- `self._params` -/
structure Params where
  typ : Str
  metric : Str
  name : Str
  labelnames : List Str
  labelvalues : List Str
  help : Str
  mode : Str
deriving DecidableEq, Repr

/-- one `MmapedValue` instance -/
structure ValueObj (V : Type) where
  params : Params
  value : V
  ts : V
  /-- `self._file`, identified by the name of the file it maps -/
  file : Str
  key : Key

abbrev Store (V : Type) := List (Key × V × V)

structure St (V : Type) where
  /-- `pid['value']` -/
  pid : Str
  /-- `files` : prefix → open store (its file name) -/
  files : List (Str × Str)
  values : List (ValueObj V)
  disk : List (Str × Store V)
  /-- what `process_identifier()` returns now, formatted by `'{}'.format` -/
  actual : Str

def St.init {V : Type} (actual : Str) : St V := ⟨actual, [], [], [], actual⟩

/-- `'{}_{}.db'.format(file_prefix, pid)` -/
def fileName (filePrefix pid : Str) : Str :=
  fileNameParts.headD [] ++ filePrefix ++ (fileNameParts.drop 1).headD [] ++ pid ++ (fileNameParts.drop 2).headD []

/-- `file_prefix` chosen in `__reset` -/
def filePrefix (p : Params) : Str :=
  if p.typ = gaugeType then p.typ ++ gaugePrefixSep ++ p.mode else p.typ

/-- `mmap_key(metric_name, name, labelnames, labelvalues, help_text)` as the tuple its JSON text denotes -/
def mmapKey (p : Params) : Key :=
  ⟨p.metric, p.name, sortByKey (pyDict (p.labelnames.zip p.labelvalues)), p.help⟩

/-- `MmapedDict(filename)`: the file exists afterwards -/
def openFile {V : Type} (disk : List (Str × Store V)) (fn : Str) : List (Str × Store V) :=
  match AL.get? disk fn with
  | some _ => disk
  | none => AL.set disk fn []

/-- `read_value(key)` on the store of file `fn`: returns the pair and the directory (key created at zero if absent) -/
def readValue {V : Type} (vo : VOps V) (disk : List (Str × Store V)) (fn : Str) (k : Key) : (V × V) × List (Str × Store V) :=
  let store := AL.getD disk fn []
  match AL.get? store k with
  | some vt => (vt, disk)
  | none => ((vo.zero, vo.zero), AL.set disk fn (AL.set store k (vo.zero, vo.zero)))

/-- `write_value(key, value, timestamp)` -/
def writeValue {V : Type} (disk : List (Str × Store V)) (fn : Str) (k : Key) (v t : V) : List (Str × Store V) :=
  AL.set disk fn (AL.set (AL.getD disk fn []) k (v, t))

/-- `__reset` of an object with parameters `p` under the remembered identity; returns the re-bound object -/
def reset {V : Type} (vo : VOps V) (pid : Str) (files : List (Str × Str)) (disk : List (Str × Store V)) (p : Params) :
    ValueObj V × List (Str × Str) × List (Str × Store V) :=
  let pre := filePrefix p
  let (files', disk') := match AL.get? files pre with
    | some _ => (files, disk)
    | none => let fn := fileName pre pid; (AL.set files pre fn, openFile disk fn)
  let fn := AL.getD files' pre []
  let k := mmapKey p
  let (vt, disk'') := readValue vo disk' fn k
  (⟨p, vt.1, vt.2, fn, k⟩, files', disk'')

/-- `for value in values: value.__reset()` -/
def resetAll {V : Type} (vo : VOps V) (pid : Str) :
    List (ValueObj V) → List (Str × Str) → List (Str × Store V) → List (ValueObj V) × List (Str × Str) × List (Str × Store V)
  | [], files, disk => ([], files, disk)
  | v :: vs, files, disk =>
    let (v', files', disk') := reset vo pid files disk v.params
    let (vs', files'', disk'') := resetAll vo pid vs files' disk'
    (v' :: vs', files'', disk'')

/-- `__check_for_pid_change` -/
def checkPid {V : Type} (vo : VOps V) (st : St V) : St V :=
  if st.pid ≠ st.actual then
    let (vs, files, disk) := resetAll vo st.actual st.values [] st.disk
    { st with pid := st.actual, files := files, values := vs, disk := disk }
  else st

inductive Op (V : Type)
  | construct (p : Params)
  | inc (i : Nat) (amount : V)
  | set (i : Nat) (value : V) (ts : Option V)
  | get (i : Nat)
  | setPid (p : Str)

/-- `timestamp or 0.0` -/
def tsOr0 {V : Type} (vo : VOps V) : Option V → V
  | none => vo.zero
  | some t => if vo.truthy t then t else vo.zero

/-- one public call (or an identity change); the second component is what `get` returns -/
def step {V : Type} (vo : VOps V) (st : St V) : Op V → St V × Option V
  | .setPid p => ({ st with actual := p }, none)
  | .construct p =>
    let st1 := checkPid vo st
    let (v, files, disk) := reset vo st1.pid st1.files st1.disk p
    ({ st1 with files := files, disk := disk, values := st1.values ++ [v] }, none)
  | .inc i a =>
    let st1 := checkPid vo st
    match st1.values[i]? with
    | none => (st1, none)
    | some v =>
      let v' := { v with value := vo.add v.value a, ts := vo.zero }
      ({ st1 with values := st1.values.set i v', disk := writeValue st1.disk v.file v.key v'.value v'.ts }, none)
  | .set i x t =>
    let st1 := checkPid vo st
    match st1.values[i]? with
    | none => (st1, none)
    | some v =>
      let v' := { v with value := x, ts := tsOr0 vo t }
      ({ st1 with values := st1.values.set i v', disk := writeValue st1.disk v.file v.key v'.value v'.ts }, none)
  | .get i =>
    let st1 := checkPid vo st
    (st1, st1.values[i]?.map (·.value))

def run {V : Type} (vo : VOps V) (st : St V) (ops : List (Op V)) : St V :=
  ops.foldl (fun s op => (step vo s op).1) st

/-! ### several workers, one directory: processes die, `mark_process_dead` runs, pids are reused

A *world history* is a sequence of events on ONE directory.  At any time one closure (one worker process) is acting;
`spawn p` starts a NEW worker — a fresh `MultiProcessValue` closure with no open files and no value objects — whose
`process_identifier()` returns `p`, on the directory as it is (this is also how a reused pid comes about);
`dead p` is `multiprocess.mark_process_dead(p)`: every `gauge_<live mode>_<p>.db` is removed, and if `p` is an identity of
the acting closure that closure is gone (its process is dead, it will not act again).
Workers that run simultaneously have distinct identities, touch disjoint files (`writes_only_own_files`) and therefore
commute; a world history lists each worker's calls contiguously. -/

/-- `f'gauge_{mode}_{pid}.db'` for some live mode -/
def isLiveFileOf (pid : Str) (fn : Str) : Bool :=
  liveModes.any (fun m => decide (fn = Multiprocess.deadName m pid))

/-- the directory after `mark_process_dead(pid)` -/
def deadDisk {V : Type} (pid : Str) (disk : List (Str × Store V)) : List (Str × Store V) :=
  disk.filter (fun f => !isLiveFileOf pid f.1)

inductive Ev (V : Type)
  | op (o : Op V)
  | spawn (p : Str)
  | dead (p : Str)

def wstep {V : Type} (vo : VOps V) (st : St V) : Ev V → St V × Option V
  | .op o => step vo st o
  | .spawn p => (⟨p, [], [], st.disk, p⟩, none)
  | .dead p =>
    if p = st.pid ∨ p = st.actual then (⟨st.pid, [], [], deadDisk p st.disk, st.actual⟩, none)
    else ({ st with disk := deadDisk p st.disk }, none)

def wrun {V : Type} (vo : VOps V) (st : St V) (evs : List (Ev V)) : St V :=
  evs.foldl (fun s e => (wstep vo s e).1) st

end PromVerif.Model.Values
