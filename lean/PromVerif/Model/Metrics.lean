/-
Model of prometheus_client/metrics.py (MetricWrapperBase.labels/remove/clear/_samples/_multi_samples, Counter, Gauge,
Summary, Histogram incl. `_prepare_buckets`, Info, Enum) over prometheus_client/values.py `MutexValue`, for property C01.

Sample values are an ABSTRACT type `V` with the operations of the class `Val` and no laws: every theorem holds for
every such structure; the driver instantiates `V := Float`.  Comparison operators, operand orders, the order of the
guards in `labels()` and the source of the keyword label values are re-extracted from the Python source on every run
(`Generated.Metrics`).

Every method returns the new state AND the outcome (`Out`), written in the statement order of the Python: that a
raising call leaves the state alone is a theorem (Props/C01 `rejected_is_frame`), not a convention of the encoding.
-/
import PromVerif.Py.Str
import PromVerif.Py.Err
import PromVerif.Model.Utils
import PromVerif.Model.Validation
import PromVerif.Generated.Metrics

namespace PromVerif.Model.Metrics
open PromVerif.Py
open PromVerif.Generated.Metrics

/-- the operations the code performs on sample values; no laws are assumed -/
class Val (V : Type) where
  zero : V
  one : V
  add : V → V → V
  neg : V → V
  le : V → V → Bool
  lt : V → V → Bool
  ofNat : Nat → V
  /-- `INF` (only `_prepare_buckets` uses it, with `beq`) -/
  inf : V
  /-- `==` -/
  beq : V → V → Bool

/-- an int literal of the source as a value -/
def constV {V : Type} [Val V] (n : Int) : V :=
  if n = 0 then Val.zero
  else if n < 0 then Val.neg (Val.ofNat n.natAbs) else Val.ofNat n.natAbs

/-- `a op b` -/
def evalCmp {V : Type} [Val V] (op : CmpOp) (a b : V) : Bool :=
  match op with
  | .lt => Val.lt a b
  | .le => Val.le a b
  | .gt => Val.lt b a
  | .ge => Val.le b a
  | .eq => Val.beq a b
  | .ne => !Val.beq a b

def evalCmpConst {V : Type} [Val V] (c : CmpConst) (x : V) : Bool :=
  if c.varLeft then evalCmp c.op x (constV c.const) else evalCmp c.op (constV c.const) x

def evalCmpNat (op : CmpOp) (a b : Nat) : Bool :=
  match op with
  | .lt => a < b | .le => a ≤ b | .gt => b < a | .ge => b ≤ a | .eq => a = b | .ne => a ≠ b

/-- `a op b` for two lists of str where only `==`/`!=` are meaningful -/
def evalCmpEq (op : CmpOp) (same : Bool) : Bool :=
  match op with
  | .eq => same
  | .ne => !same
  | _ => false

/-- `if amount < 0` in `Counter.inc` -/
def counterRejects {V : Type} [Val V] (amount : V) : Bool := evalCmpConst counterIncGuard amount

/-- `if amount <= bound` in `Histogram.observe` -/
def bucketTakes {V : Type} [Val V] (amount bound : V) : Bool :=
  if histObserveTest.amountLeft then evalCmp histObserveTest.op amount bound else evalCmp histObserveTest.op bound amount

/-- `if self._upper_bounds[0] >= 0` in `Histogram._child_samples` -/
def sumExposed {V : Type} [Val V] (bounds : List V) : Bool :=
  match bounds[histSumIndex]? with
  | some b => evalCmpConst histSumTest b
  | none => false

/-! ### label values -/

/-- a Python object passed as a label value; floats and sequences are passed as their `str()` text -/
inductive PyVal
  | str (s : Str)
  | int (n : Int)
  | bool (b : Bool)
  | none
  | float (repr : Str)
  /-- a tuple / a list passed as ONE label value, by its `str()` text ("('a',)", "['a', 'b']"): `labels()` and `remove()`
  stringify it like any other object, they do not unpack it -/
  | tuple (text : Str)
  | list (text : Str)
deriving Repr, DecidableEq

def intStr (n : Int) : Str :=
  if n < 0 then '-' :: decDigits n.natAbs else decDigits n.natAbs

/-- `str(x)` -/
def pyStr : PyVal → Str
  | .str s => s
  | .int n => intStr n
  | .bool true => ['T', 'r', 'u', 'e']
  | .bool false => ['F', 'a', 'l', 's', 'e']
  | .none => ['N', 'o', 'n', 'e']
  | .float r => r
  | .tuple t => t
  | .list t => t

/-- `a <= b` for str -/
def strLe (a b : Str) : Bool := !strLt b a

/-- `sorted(xs)` for a list of str -/
def sortedStrs (xs : List Str) : List Str := xs.mergeSort strLe

/-! ### declarations and state -/

inductive Kind (V : Type)
  | counter
  | gauge
  | summary
  /-- upper bounds with the `repr` text of each (the `le` label is `floatToGoString` of it) -/
  | histogram (bounds : List (V × Str))
  | info
  | enum (states : List Str)

/-- the constructor arguments that matter: full name, type (+ buckets / states), label names -/
structure Decl (V : Type) where
  name : Str
  kind : Kind V
  labelnames : List Str

/-- the state `_metric_init` creates; each type uses its own fields -/
structure Child (V : Type) where
  /-- Counter / Gauge `_value` -/
  value : V
  /-- Summary `_count` -/
  count : V
  /-- Summary / Histogram `_sum` -/
  sum : V
  /-- Histogram `_buckets` (NON-cumulative) -/
  buckets : List V
  /-- Info `_value` -/
  info : List (Str × Str)
  /-- Enum `_value` (index into the states) -/
  state : Nat

def Kind.bounds {V : Type} : Kind V → List V
  | .histogram bs => bs.map (·.1)
  | _ => []

/-- `_metric_init` -/
def metricInit {V : Type} [Val V] (k : Kind V) : Child V :=
  { value := Val.zero, count := Val.zero, sum := Val.zero, buckets := k.bounds.map (fun _ => Val.zero),
    info := [], state := 0 }

/-- a metric object: a labelled parent owns `_metrics` (insertion-ordered, keyed by the tuple of stringified label
values); an unlabelled metric owns the `_metric_init` state itself -/
structure Metric (V : Type) where
  decl : Decl V
  single : Option (Child V)
  children : List (List Str × Child V)

abbrev Reg (V : Type) := List (Metric V)

inductive Out
  | ok
  | raised (e : PyErr)
deriving Repr, DecidableEq

/-! ### constructors -/

def reservedLabelnames {V : Type} : Kind V → List Str
  | .summary => [['q', 'u', 'a', 'n', 't', 'i', 'l', 'e']]
  | .histogram _ => [['l', 'e']]
  | _ => []

/-- `_validate_labelnames(cls, labelnames)` -/
def validateLabelnames {V : Type} (legacy : Bool) (k : Kind V) : List Str → PyM Unit
  | [] => .ok ()
  | l :: ls =>
    match Validation.validateLabelname legacy l with
    | .error e => .error e
    | .ok () =>
      if (reservedLabelnames k).contains l then .error .valueError
      else validateLabelnames legacy k ls

def sortedAdjacent {V : Type} [Val V] : List V → Bool
  | a :: b :: rest => Val.le a b && sortedAdjacent (b :: rest)
  | _ => true

/-- `Histogram._prepare_buckets` (bounds are non-NaN floats: `buckets != sorted(buckets)` is then "some adjacent pair is
out of order") -/
def prepareBuckets {V : Type} [Val V] (bs : List (V × Str)) : PyM (List (V × Str)) :=
  if !sortedAdjacent (bs.map (·.1)) then .error .valueError
  else
    let bs' := match bs.getLast? with
      | some l => if !Val.beq l.1 Val.inf then bs ++ [(Val.inf, ['i', 'n', 'f'])] else bs
      | none => bs
    if bs'.length < 2 then .error .valueError else .ok bs'

/-- the metric constructors (`MetricWrapperBase.__init__`, `Histogram.__init__`, `Enum.__init__`), no namespace /
subsystem / unit: returns the declaration with prepared buckets -/
def construct {V : Type} [Val V] (legacy : Bool) (d : Decl V) : PyM (Decl V) := do
  let kind ← match d.kind with
    | .histogram bs => (prepareBuckets bs).map Kind.histogram
    | k => pure k
  if d.name.isEmpty then throw .valueError
  validateLabelnames legacy d.kind d.labelnames
  Validation.validateMetricName legacy d.name
  match d.kind with
  | .enum states =>
    if d.labelnames.contains d.name then throw .valueError
    if states.isEmpty then throw .valueError
  | _ => pure ()
  pure { d with kind := kind }

/-- the object right after construction -/
def Metric.fresh {V : Type} [Val V] (d : Decl V) : Metric V :=
  { decl := d, single := if d.labelnames.isEmpty then some (metricInit d.kind) else none, children := [] }

def Reg.fresh {V : Type} [Val V] (ds : List (Decl V)) : Reg V := ds.map Metric.fresh

/-! ### the instrumentation methods -/

inductive Action (V : Type)
  /-- no method: the call is `labels(...)` alone -/
  | touch
  | inc (amount : V)
  | dec (amount : V)
  | set (value : V)
  | observe (amount : V)
  | reset
  /-- `info(val)`; a value `none` is Python's `None` -/
  | info (val : List (Str × Option Str))
  | state (s : Str)

/-- `Histogram.observe`'s loop: the first bound that takes the amount gets `inc(1)`, then `break` -/
def observeBuckets {V : Type} [Val V] (amount : V) : List V → List V → List V
  | b :: bs, c :: cs => if bucketTakes amount b then Val.add c Val.one :: cs else c :: observeBuckets amount bs cs
  | _, cs => cs

/-- `states.index(s)` -/
def indexOf (s : Str) : List Str → Option Nat
  | [] => none
  | x :: xs => if x = s then some 0 else (indexOf s xs).map (· + 1)

/-- One method call on a metric object.  `obs` is `_is_observable()`; `st` is the `_metric_init` state, absent on a
labelled parent (attribute access then raises AttributeError).  Statement order as in the Python. -/
def callMethod {V : Type} [Val V] (d : Decl V) (obs : Bool) (act : Action V) (st : Option (Child V)) :
    Option (Child V) × Out :=
  match act with
  | .touch => (st, .ok)
  | _ =>
  match d.kind, act with
  -- Counter
  | .counter, .inc amount =>
    if !obs then (st, .raised .valueError)                          -- self._raise_if_not_observable()
    else if counterRejects amount then (st, .raised .valueError)    -- if amount < 0: raise ValueError
    else match st with
      | some c => (some { c with value := Val.add c.value amount }, .ok)    -- self._value.inc(amount)
      | none => (st, .raised .attributeError)
  | .counter, .reset =>
    -- `self._raise_if_not_observable()` when the source has it as first statement (the repair of finding F7)
    if counterResetChecksObservable && !obs then (st, .raised .valueError)
    else match st with
      -- self._value.set(0.0): the FLOAT zero.  T1 extracts the literal (`Generated.Metrics.resetStoresFloat`); were it the
      -- int `0`, the cell would hold a Python int and later int amounts would be added exactly, which this float-sum
      -- model cannot express: every value theorem about counters carries the hypothesis `resetStoresFloat = true`
      -- (Lemmas.Metrics.counter_value), discharged from the extracted flag in Props.C01.
      | some c => (some { c with value := Val.zero }, .ok)
      | none => (st, .raised .attributeError)
  -- Gauge (multiprocess_mode 'all': `_is_most_recent` is False)
  | .gauge, .inc amount =>
    if !obs then (st, .raised .valueError)
    else match st with
      | some c => (some { c with value := Val.add c.value amount }, .ok)
      | none => (st, .raised .attributeError)
  | .gauge, .dec amount =>
    if !obs then (st, .raised .valueError)
    else match st with
      | some c => (some { c with value := Val.add c.value (Val.neg amount) }, .ok)   -- self._value.inc(-amount)
      | none => (st, .raised .attributeError)
  | .gauge, .set value =>
    if !obs then (st, .raised .valueError)
    else match st with
      | some c => (some { c with value := value }, .ok)
      | none => (st, .raised .attributeError)
  -- Summary
  | .summary, .observe amount =>
    if !obs then (st, .raised .valueError)
    else match st with
      | some c => (some { c with count := Val.add c.count Val.one, sum := Val.add c.sum amount }, .ok)
      | none => (st, .raised .attributeError)
  -- Histogram
  | .histogram _, .observe amount =>
    if !obs then (st, .raised .valueError)
    else match st with
      | some c => (some { c with sum := Val.add c.sum amount,
                                 buckets := observeBuckets amount d.kind.bounds c.buckets }, .ok)
      | none => (st, .raised .attributeError)
  -- Info
  | .info, .info val =>
    if infoChecksObservable && !obs then (st, .raised .valueError)  -- see Counter.reset
    else match st with
      | none => (st, .raised .attributeError)                        -- self._labelname_set
      | some c =>
        if val.any (fun kv => d.labelnames.contains kv.1) then (st, .raised .valueError)
        else if val.any (fun kv => kv.2.isNone) then (st, .raised .valueError)
        else (some { c with info := val.filterMap (fun kv => kv.2.map (fun v => (kv.1, v))) }, .ok)
  -- Enum
  | .enum states, .state s =>
    if !obs then (st, .raised .valueError)
    else match indexOf s states with
      | none => (st, .raised .valueError)                          -- self._states.index(state)
      | some i =>
        match st with
        | some c => (some { c with state := i }, .ok)
        | none => (st, .raised .attributeError)
  -- a method the class does not have
  | _, _ => (st, .raised .attributeError)

/-! ### labels / remove / clear -/

inductive Addr
  /-- the method is called on the metric object itself -/
  | none
  /-- `.labels(*args, **kw)` first -/
  | labels (args : List PyVal) (kw : List (Str × PyVal))
deriving Repr

def Addr.positional (vs : List PyVal) : Addr := .labels vs []
def Addr.keyword (kw : List (Str × PyVal)) : Addr := .labels [] kw

def tlookup {β : Type} (k : List Str) : List (List Str × β) → Option β
  | [] => none
  | kv :: t => if kv.1 = k then some kv.2 else tlookup k t

def treplace {β : Type} (k : List Str) (v : β) : List (List Str × β) → List (List Str × β)
  | [] => []
  | kv :: t => if kv.1 = k then (kv.1, v) :: t else kv :: treplace k v t

def terase {β : Type} (k : List Str) (t : List (List Str × β)) : List (List Str × β) :=
  t.filter (fun kv => kv.1 ≠ k)

def kwLookup (l : Str) : List (Str × PyVal) → Option PyVal
  | [] => none
  | kv :: t => if kv.1 = l then some kv.2 else kwLookup l t

/-- does a guard of `labels()` fire?  (a registered metric never has label values of its own) -/
def labelsCheckFails (labelnames : List Str) (args : List PyVal) (kw : List (Str × PyVal)) : LabelsCheck → Bool
  | .noLabelnames => labelnames.isEmpty
  | .hasLabelvalues => false
  | .bothArgsKwargs => !args.isEmpty && !kw.isEmpty

/-- `tuple(str(labelkwargs[l]) for l in self._labelnames)` -/
def kwValues (labelnames : List Str) (kw : List (Str × PyVal)) : PyM (List Str) :=
  match kwargsValueOrder with
  | .declaration => labelnames.mapM (fun l => match kwLookup l kw with
      | some v => .ok (pyStr v)
      | none => .error .keyError)
  | .call => .ok (kw.map (fun kv => pyStr kv.2))

/-- the argument checks of `labels()` and the tuple of stringified label values -/
def resolveLabels (labelnames : List Str) (args : List PyVal) (kw : List (Str × PyVal)) : PyM (List Str) :=
  if labelsCheckOrder.any (labelsCheckFails labelnames args kw) then .error .valueError
  else if !kw.isEmpty then
    if evalCmpEq kwNamesCmp (sortedStrs (kw.map (·.1)) == sortedStrs labelnames) then .error .valueError
    else kwValues labelnames kw
  else
    if evalCmpNat posCountCmp args.length labelnames.length then .error .valueError
    else .ok (args.map pyStr)

/-- `if labelvalues not in self._metrics: self._metrics[labelvalues] = self.__class__(…)`; `return self._metrics[labelvalues]` -/
def getChild {V : Type} [Val V] (m : Metric V) (key : List Str) : Metric V × Child V :=
  match tlookup key m.children with
  | some c => (m, c)
  | none =>
    let c := metricInit m.decl.kind
    ({ m with children := m.children ++ [(key, c)] }, c)

/-- `m.<method>(…)` or `m.labels(…).<method>(…)` -/
def stepCall {V : Type} [Val V] (m : Metric V) (addr : Addr) (act : Action V) : Metric V × Out :=
  match addr with
  | .none =>
    let r := callMethod m.decl m.decl.labelnames.isEmpty act m.single
    ({ m with single := r.1 }, r.2)
  | .labels args kw =>
    match resolveLabels m.decl.labelnames args kw with
    | .error e => (m, .raised e)
    | .ok key =>
      let mc := getChild m key
      let r := callMethod m.decl true act (some mc.2)
      match r.1 with
      | some c' => ({ mc.1 with children := treplace key c' mc.1.children }, r.2)
      | none => (mc.1, r.2)

/-- `m.remove(*labelvalues)` -/
def stepRemove {V : Type} (m : Metric V) (vs : List PyVal) : Metric V × Out :=
  if m.decl.labelnames.isEmpty then (m, .raised .valueError)
  else if vs.length ≠ m.decl.labelnames.length then (m, .raised .valueError)
  else ({ m with children := terase (vs.map pyStr) m.children }, .ok)

/-- `m.clear()`: `with self._lock: self._metrics = {}`.  `_lock` exists on a labelled parent and — from their
`_metric_init` — on an unlabelled Info or Enum (whose new `_metrics` attribute is never read); elsewhere the attribute
access raises AttributeError -/
def hasLock {V : Type} (d : Decl V) : Bool :=
  !d.labelnames.isEmpty || (match d.kind with
    | .info => true
    | .enum _ => true
    | _ => false)

def stepClear {V : Type} (m : Metric V) : Metric V × Out :=
  if hasLock m.decl then ({ m with children := [] }, .ok)
  else (m, .raised .attributeError)

inductive Op (V : Type)
  | call (m : Nat) (addr : Addr) (act : Action V)
  | remove (m : Nat) (vs : List PyVal)
  | clear (m : Nat)

def Op.metric {V : Type} : Op V → Nat
  | .call i _ _ => i
  | .remove i _ => i
  | .clear i => i

/-- one call on the metric object it names -/
def stepM {V : Type} [Val V] (m : Metric V) : Op V → Metric V × Out
  | .call _ addr act => stepCall m addr act
  | .remove _ vs => stepRemove m vs
  | .clear _ => stepClear m

def modifyAt {V : Type} (r : Reg V) (i : Nat) (f : Metric V → Metric V × Out) : Reg V × Out :=
  match r[i]? with
  | none => (r, .raised .keyError)
  | some m => let x := f m; (r.set i x.1, x.2)

def step {V : Type} [Val V] (r : Reg V) (op : Op V) : Reg V × Out :=
  modifyAt r op.metric (fun m => stepM m op)

def run {V : Type} [Val V] (r : Reg V) : List (Op V) → Reg V × List Out
  | [] => (r, [])
  | op :: ops =>
    let x := step r op
    let y := run x.1 ops
    (y.1, x.2 :: y.2)

/-- the `labels(...)` call alone of an addressed call -/
def Op.touchOf {V : Type} : Op V → Option (Op V)
  | .call i (.labels a k) _ => some (.call i (.labels a k) .touch)
  | _ => none

/-- what a step contributes to the history of ACCEPTED calls: the call itself when it returned; the `labels(...)` call
alone when that returned and the method raised; nothing otherwise -/
def acceptedOp {V : Type} [Val V] (r : Reg V) (op : Op V) : Option (Op V) :=
  match (step r op).2 with
  | .ok => some op
  | .raised _ =>
    match op.touchOf with
    | some t => if (step r t).2 = .ok then some t else none
    | none => none

def accepted {V : Type} [Val V] (r : Reg V) : List (Op V) → List (Op V)
  | [] => []
  | op :: ops => (acceptedOp r op).toList ++ accepted (step r op).1 ops

/-! ### objects the caller keeps -/

/-- an object the caller handed to the library and may go on mutating: the dict given to `info()`, the `states`
sequence given to `Enum(...)`, the `buckets` sequence given to `Histogram(...)` -/
inductive CallerObject
  | infoDict
  | states
  | buckets
deriving Repr, DecidableEq

/-- does the library store a COPY (extracted from the source on every run)? -/
def copiedOnEntry : CallerObject → Bool
  | .infoDict => infoCopiesDict
  | .states => enumCopiesStates
  | .buckets => histogramCopiesBuckets

/-- The registry after the CALLER mutated such an object (no call on any metric): unchanged when the library stored a
copy.  When it stored the caller's object itself the exposed samples follow the caller's mutation, which this model —
whose states hold values, not references — cannot express: `none`. -/
def afterCallerMutation {V : Type} (r : Reg V) (o : CallerObject) : Option (Reg V) :=
  if copiedOnEntry o then some r else none

/-! ### collect -/

structure Sample (V : Type) where
  name : Str
  labels : List (Str × Str)
  value : V

/-- `acc += self._buckets[i].get()` -/
def cumulate {V : Type} [Val V] (acc : V) : List V → List V
  | [] => []
  | c :: cs => let acc' := Val.add acc c; acc' :: cumulate acc' cs

def leLabel (r : Str) : List (Str × Str) := [(['l', 'e'], Utils.floatToGoString r)]

/-- `Enum._child_samples`: `for i, s in enumerate(self._states)`: 1 if `i == self._value` else 0 -/
def enumSamples {V : Type} [Val V] (name : Str) (cur : Nat) : Nat → List Str → List (Sample V)
  | _, [] => []
  | i, s :: ss => ⟨[], [(name, s)], if i = cur then Val.one else Val.zero⟩ :: enumSamples name cur (i + 1) ss

/-- `_child_samples` as (suffix, labels, value), without the `_created` samples -/
def childSamples {V : Type} [Val V] (d : Decl V) (c : Child V) : List (Sample V) :=
  match d.kind with
  | .counter => [⟨"_total".toList, [], c.value⟩]
  | .gauge => [⟨[], [], c.value⟩]
  | .summary => [⟨"_count".toList, [], c.count⟩, ⟨"_sum".toList, [], c.sum⟩]
  | .histogram bs =>
    let accs := cumulate Val.zero c.buckets
    (bs.zip accs).map (fun ba => ⟨"_bucket".toList, leLabel ba.1.2, ba.2⟩)
      ++ [⟨"_count".toList, [], (accs.getLast?).getD Val.zero⟩]
      ++ (if sumExposed (bs.map (·.1)) then [⟨"_sum".toList, [], c.sum⟩] else [])
  | .info => [⟨"_info".toList, c.info, Val.one⟩]
  | .enum states => enumSamples d.name c.state 0 states

/-- `_samples` with `_multi_samples`, then `collect`'s `self._name + suffix` -/
def metricSamples {V : Type} [Val V] (m : Metric V) : List (Sample V) :=
  let raw :=
    if !m.decl.labelnames.isEmpty then
      m.children.flatMap (fun kc =>
        (childSamples m.decl kc.2).map (fun s => { s with labels := m.decl.labelnames.zip kc.1 ++ s.labels }))
    else match m.single with
      | some c => childSamples m.decl c
      | none => []
  raw.map (fun s => { s with name := m.decl.name ++ s.name })

/-- `registry.collect()`: one family per metric -/
def collect {V : Type} [Val V] (r : Reg V) : List (List (Sample V)) := r.map metricSamples

end PromVerif.Model.Metrics
