/-
Model of the three built-in custom collectors registered in the default `REGISTRY` at import:
`gc_collector.GCCollector.collect`, `platform_collector.PlatformCollector` (`__init__` / `_add_metric` / `_info` /
`_java` / `collect`) and `process_collector.ProcessCollector.collect`, written after the Python.  They build their
output with the `*MetricFamily` constructors of `Model/Families.lean`; WHICH constructor, with which name / help /
label-name literals, is the data extracted from the three files (`Generated/Builtins.lean`).

* `α` is the type of opaque value objects (gc counters, `float(parts[20])`, `len(os.listdir(...))`, …); the `int`
  literal `1` of `PlatformCollector._add_metric` is injected by the parameter `ofNat`
* environment readings are parameters: `gc.get_stats()` is a list of dicts (`stat[key]`, the three keys are always there);
  the platform strings are the values `_info()` / `_java()` hold under their literal keys; every file access of
  `ProcessCollector.collect` is a `PyM` reading (`.error e` = the access raises `e`)
* `except OSError: pass` catches `OSError` and its subclass `FileNotFoundError` (the two members of `PyErr` that are
  `OSError`s); anything else — `ValueError` / `IndexError` from `float(parts[20])` on a corrupt `stat`, `ValueError` of a
  constructor on a namespace that is no metric name — leaves `collect()`.  `max_fds` is bound only when a line of
  `limits` starts with `Max open file`: otherwise `result.extend([open_fds, max_fds])` raises `UnboundLocalError`, which
  is not an `OSError` either (`BErr.unboundLocal`)
* not modelled: `self._pid()` raising, `str()` of label values (platform strings are `str`), the arithmetic that turns
  file contents into values
-/
import PromVerif.Model.Families
import PromVerif.Generated.Builtins

set_option autoImplicit false

namespace PromVerif.Model.Builtins
open PromVerif.Py PromVerif.Model.Families
open PromVerif.Model.Registry (Name dSet)
open PromVerif.Generated.Builtins

variable {α : Type}

/-! ### helpers -/

/-- decimal digits, most significant first (structural, so that closed terms evaluate in the kernel) -/
def digitsAux : Nat → Nat → List Char → List Char
  | 0, _, acc => acc
  | fuel + 1, n, acc =>
    let acc' := Char.ofNat (48 + n % 10) :: acc
    if n / 10 = 0 then acc' else digitsAux fuel (n / 10) acc'

/-- `str(n)` for an `int` `n ≥ 0` -/
def natStr (n : Nat) : List Char := digitsAux (n + 1) n []

/-- `[f(x) for x in xs]` where `f` may raise: the first exception leaves -/
def mapE {β γ ε : Type} (f : β → Except ε γ) : List β → Except ε (List γ)
  | [] => .ok []
  | b :: bs =>
    match f b with
    | .error e => .error e
    | .ok c =>
      match mapE f bs with
      | .error e => .error e
      | .ok cs => .ok (c :: cs)

/-- the class a `Site` names -/
def clsOfIdx : Nat → Option Cls
  | 0 => some .unknown | 1 => some .counter | 2 => some .gauge | 3 => some .summary | 4 => some .histogram
  | 5 => some .gaugehistogram | 6 => some .info | 7 => some .stateset | _ => none

/-- the constructor call of a site: `K(<name>, <doc>[, value=v][, labels=ls])` for the three classes with that signature
(the extractor refuses the others) -/
def siteCtor (s : Site) (pfx : Name) (labels : Option (List Name)) (value : Option α) : PyM (Ctor α) :=
  let name := if s.prefixed then pfx ++ s.name else s.name
  match clsOfIdx s.cls with
  | some .unknown => .ok (.unknown name s.doc value labels [])
  | some .counter => .ok (.counter name s.doc value labels none [] none)
  | some .gauge => .ok (.gauge name s.doc value labels [])
  | _ => .error .typeError

/-- `f.add_metric(labels, value)` / `f.add_metric(labels, value=value)` on an object of class `cls` -/
def addCall (cls : Cls) (labels : List Name) (value : α) : AddCall α :=
  match cls with
  | .unknown => .unknown labels value none
  | .counter => .counter labels value none none none
  | _ => .gauge labels value none

/-- `f = K(...)` followed by `f.add_metric(ls, v)` for every `(ls, v)`; the exception of any of the calls leaves -/
def build (env : Env) (s : Site) (pfx : Name) (labels : Option (List Name)) (value : Option α)
    (adds : List (List Name × α)) : PyM (Fam α) :=
  match siteCtor s pfx labels value with
  | .error e => .error e
  | .ok c =>
    match c.run env with
    | .error e => .error e
    | .ok f0 =>
      match (runAdds env f0 (adds.map fun a => addCall f0.cls a.1 a.2)).2.find? Option.isSome with
      | some (some e) => .error e
      | _ => .ok (runAdds env f0 (adds.map fun a => addCall f0.cls a.1 a.2)).1

/-- errors of `ProcessCollector.collect`: a Python exception class, or `UnboundLocalError` -/
inductive BErr
  | py (e : PyErr)
  | unboundLocal
deriving DecidableEq, Repr

/-- `[a, b, …]` of local variables given by index; an unbound one raises `UnboundLocalError` -/
def pick (locals : List (Option (Fam α))) (idx : List Nat) : Except BErr (List (Fam α)) :=
  mapE (fun i => match locals[i]? with
    | some (some f) => .ok f
    | _ => .error .unboundLocal) idx

/-! ### `GCCollector` -/

/-- one family of `GCCollector.collect`: the constructor call, then per generation (`enumerate(gc.get_stats())`)
`add_metric([str(gen)], value=stat[<key>])`.  (The code interleaves the `add_metric` calls of its three objects in one
loop; the objects are distinct, so per object the call sequence is this one.) -/
def gcFamily (env : Env) (stats : List (Name → α)) (s : Site) : PyM (Fam α) :=
  build env s [] s.labels none (stats.zipIdx.map fun sg => ([natStr sg.2], sg.1 s.key))

/-- `GCCollector.collect()` -/
def gcCollect (env : Env) (stats : List (Name → α)) : Except BErr (List (Fam α)) :=
  match mapE (gcFamily env stats) gcSites with
  | .error e => .error (.py e)
  | .ok fams => pick (fams.map some) gcReturn

/-! ### `PlatformCollector` -/

/-- what `self._platform` answers -/
structure PlatformEnv where
  /-- the value `_info()` stores under each key of its dict literal -/
  info : Name → Name
  /-- `some` iff `system() == "Java"`: the value `_java()` stores under each key of its dict literal -/
  java : Option (Name → Name)

/-- `info = self._info(); if system == "Java": info.update(self._java())` -/
def platformData (p : PlatformEnv) : List (Name × Name) :=
  let info := mkDict (platformInfoKeys.map fun k => (k, p.info k))
  match p.java with
  | none => info
  | some j => (platformJavaKeys.map fun k => (k, j k)).foldl (fun d kv => dSet kv.1 kv.2 d) info

/-- `self._metrics = [self._add_metric("python_info", …, info)]` with
`_add_metric`: `labels = data.keys(); values = [data[k] for k in labels]; g = K(name, documentation, labels=labels);
g.add_metric(values, 1); return g` -/
def platformInit (env : Env) (ofNat : Nat → α) (p : PlatformEnv) : PyM (List (Fam α)) :=
  match build env platformSite [] (some ((platformData p).map Prod.fst)) none
      [((platformData p).map Prod.snd, ofNat platformValue)] with
  | .error e => .error e
  | .ok g => .ok [g]

/-- `PlatformCollector.collect()`: `return self._metrics` -/
def platformCollect (metrics : List (Fam α)) : List (Fam α) := metrics

/-! ### `ProcessCollector` -/

/-- what the file system answers -/
structure ProcEnv (α : Type) where
  /-- the `namespace` argument -/
  ns : Name
  /-- `self._btime` is truthy (`<proc>/stat` was readable and had a non-zero `btime` line at construction) -/
  btime : Bool
  /-- opening / reading `<pid>/stat` and converting its fields: the value of each family, by the local variable name -/
  stat : PyM (Name → α)
  /-- opening `<pid>/limits` and scanning it: `some v` = a `Max open file` line with value `v`, `none` = no such line -/
  limits : PyM (Option α)
  /-- `len(os.listdir(<pid>/fd))` -/
  fds : PyM α

/-- `self._prefix` -/
def prefixOf (ns : Name) : Name := if ns.isEmpty then processPrefixPlain else ns ++ processPrefixNs

/-- is the exception class caught by `except OSError` -/
def caught (e : PyErr) : Bool := e = .osError || e = .fileNotFound

/-- `try: <body> except OSError: pass`, where the body ends with the only `result.extend(...)` -/
def tryOSError (body : Except BErr (List (Fam α))) : Except BErr (List (Fam α)) :=
  match body with
  | .error (.py e) => if caught e then .ok [] else .error (.py e)
  | r => r

/-- body of the first `try`: read `stat`, build the families in source order, `result.extend([...])` -/
def statBody (env : Env) (pfx : Name) (stat : PyM (Name → α)) : Except BErr (List (Fam α)) :=
  match stat with
  | .error e => .error (.py e)
  | .ok vals =>
    match mapE (fun s => build env s pfx none (some (vals s.key)) []) processStatSites with
    | .error e => .error (.py e)
    | .ok fams => pick (fams.map some) processStatExtend

/-- body of the second `try`: scan `limits` (binding `max_fds` when a line matches), list `fd`, build `open_fds`,
`result.extend([...])` -/
def fdBody (env : Env) (pfx : Name) (limits : PyM (Option α)) (fds : PyM α) : Except BErr (List (Fam α)) :=
  match limits with
  | .error e => .error (.py e)
  | .ok lim =>
    match (match lim with
           | none => (.ok none : PyM (Option (Fam α)))
           | some v =>
             match build env (processFdSites.getD 0 default) pfx none (some v) [] with
             | .error e => .error e
             | .ok f => .ok (some f)) with
    | .error e => .error (.py e)
    | .ok maxFds =>
      match fds with
      | .error e => .error (.py e)
      | .ok n =>
        match build env (processFdSites.getD 1 default) pfx none (some n) [] with
        | .error e => .error (.py e)
        | .ok openFds => pick [maxFds, some openFds] processFdExtend

/-- `ProcessCollector.collect()` -/
def processCollect (env : Env) (p : ProcEnv α) : Except BErr (List (Fam α)) :=
  if !p.btime then .ok []
  else
    match tryOSError (statBody env (prefixOf p.ns) p.stat) with
    | .error e => .error e
    | .ok r1 =>
      match tryOSError (fdBody env (prefixOf p.ns) p.limits p.fds) with
      | .error e => .error e
      | .ok r2 => .ok (r1 ++ r2)

end PromVerif.Model.Builtins
