/-
Model of prometheus_client/utils.py `floatToGoString`.

The library does not round: it rewrites the text CPython's `repr` produced.  The model's input is
that text (`s = repr(float(d))`); `d > 0` is read off the text (`isPos`).  The literal pieces of the
rewriting (threshold, strip set, exponent literal and width, special spellings) are extracted from
the source on every run (`Generated.Utils`).
-/
import PromVerif.Py.Str
import PromVerif.Generated.Utils

namespace PromVerif.Model.Utils
open PromVerif.Py
open PromVerif.Generated.Utils

/-- `d > 0` on the repr text: no leading `-` and some non-zero digit before any exponent marker. -/
def isPos (s : List Char) : Bool :=
  match s with
  | '-' :: _ => false
  | _ => (s.takeWhile (· ≠ 'e')).any (fun c => '1' ≤ c && c ≤ '9')

/-- `f'{dot - 1}'` with the extracted format width -/
def fmtExp (n : Nat) : List Char := zpad expMinWidth (decDigits n)

/-- the `else` branch of `floatToGoString`: `s = repr(d)` for finite `d` -/
def goFinite (pos : Bool) (s : List Char) : List Char :=
  match findChar '.' s with
  | some dot =>
    if pos && decide (dot > dotThreshold) then
      let mantissa := rstripSet (fun c => stripChars.contains c)
        (s.take 1 ++ ['.'] ++ (s.drop 1).take (dot - 1) ++ s.drop (dot + 1))
      mantissa ++ expLit ++ fmtExp (dot - 1)
    else s
  | none => s

/-- `floatToGoString(d)` as a function of `repr(float(d))` -/
def floatToGoString (s : List Char) : List Char :=
  if s = ['i', 'n', 'f'] then posInfText
  else if s = ['-', 'i', 'n', 'f'] then negInfText
  else if s = ['n', 'a', 'n'] then nanText
  else goFinite (isPos s) s

end PromVerif.Model.Utils
