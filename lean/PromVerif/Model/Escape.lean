/-
Escaping in the expositions: ordered chains of single-character `.replace()` calls, taken from the source.
-/
import PromVerif.Py.Str
import PromVerif.Generated.Expo
import PromVerif.Model.Validation

namespace PromVerif.Model.Escape
open PromVerif.Py
open PromVerif.Generated.Expo
open PromVerif.Model.Validation

/-- `s.replace(a1, b1).replace(a2, b2)…` -/
def applyChain (chain : List (Char × Str)) (s : Str) : Str :=
  chain.foldl (fun acc p => replaceChar p.1 p.2 acc) s

/-- `openmetrics.exposition._escape` -/
def escape (s : Str) : Str := applyChain escapeChain s

/-- exemplar label value escaping in the OpenMetrics exposition -/
def escapeExemplarValue (s : Str) : Str := applyChain exemplarChain s

/-- HELP text escaping of the text exposition -/
def escapeHelp (s : Str) : Str := applyChain helpChain s
def escapeHelpTrailing (s : Str) : Str := applyChain helpChainTrailing s

/-- `escape_metric_name` -/
def escapeMetricName (s : Str) : Str :=
  if isValidLegacyMetricName s then s else ['"'] ++ escape s ++ ['"']

/-- `escape_label_name` -/
def escapeLabelName (s : Str) : Str :=
  if isValidLegacyLabelname s then s else ['"'] ++ escape s ++ ['"']

end PromVerif.Model.Escape
