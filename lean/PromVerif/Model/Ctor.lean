/-
Constructor-time validation: `metrics._build_full_name`, `validation._validate_labelnames` (+ the per-class reserved
names), the validation part of `MetricWrapperBase.__init__` / `Enum.__init__`, and `metrics_core.Metric.__init__`
(which runs again at every `collect()` through `_get_metric`).  Literals come from `Generated.Ctor`.
-/
import PromVerif.Py.Str
import PromVerif.Py.Err
import PromVerif.Model.Validation
import PromVerif.Generated.Ctor

namespace PromVerif.Model.Ctor
open PromVerif.Py
open PromVerif.Generated.Ctor
open PromVerif.Model.Validation

/-- `name += '_' + unit` unless the unit is empty or already the suffix -/
def appendUnit (name unit : Str) : Str :=
  if !unit.isEmpty && !endsWith (sep ++ unit) name then name ++ sep ++ unit else name

/-- `_build_full_name(metric_type, name, namespace, subsystem, unit)` -/
def buildFullName (typ name ns ss unit : Str) : PyM Str :=
  if name.isEmpty then .error .valueError
  else
    let f0 := (if ns.isEmpty then [] else ns ++ sep) ++ (if ss.isEmpty then [] else ss ++ sep) ++ name
    let f1 := if typ == counterType && endsWith totalSuffix f0 then f0.take (f0.length - sliceLen) else f0
    let f2 := appendUnit f1 unit
    if !unit.isEmpty && noUnitTypes.contains typ then .error .valueError else .ok f2

/-- `_validate_labelnames(cls, labelnames)` -/
def validateLabelnames (legacy : Bool) (reserved : List Str) : List Str → PyM Unit
  | [] => .ok ()
  | l :: ls =>
    match validateLabelname legacy l with
    | .error e => .error e
    | .ok _ => if reserved.contains l then .error .valueError else validateLabelnames legacy reserved ls

/-- `cls._reserved_labelnames` of the instrumentation class with this `_type` -/
def reservedOf (typ : Str) : List Str :=
  match reservedLabelnames.find? (fun p => p.1 == typ) with
  | some p => p.2
  | none => []

/-- the validating part of `MetricWrapperBase.__init__`; returns `self._name` -/
def wrapperInit (legacy : Bool) (typ name ns ss unit : Str) (labelnames : List Str) : PyM Str :=
  match buildFullName typ name ns ss unit with
  | .error e => .error e
  | .ok full =>
    match validateLabelnames legacy (reservedOf typ) labelnames with
    | .error e => .error e
    | .ok _ =>
      match validateMetricName legacy full with
      | .error e => .error e
      | .ok _ => .ok full

/-- `Enum.__init__`: the base constructor, then `name in labelnames` and `not states` -/
def enumInit (legacy : Bool) (name ns ss unit : Str) (labelnames : List Str) (states : List Str) : PyM Str :=
  match wrapperInit legacy "stateset".toList name ns ss unit labelnames with
  | .error e => .error e
  | .ok full =>
    if labelnames.contains name then .error .valueError
    else if states.isEmpty then .error .valueError
    else .ok full

/-- `Metric.__init__(name, documentation, typ, unit)`: the stored name and type -/
def metricInit (legacy : Bool) (name typ unit : Str) : PyM (Str × Str) :=
  let name' := appendUnit name unit
  match validateMetricName legacy name' with
  | .error e => .error e
  | .ok _ =>
    let typ' := if typ == untypedFrom then untypedTo else typ
    if metricTypes.contains typ' then .ok (name', typ') else .error .valueError

end PromVerif.Model.Ctor
