/-
Model of prometheus_client/openmetrics/parser.py (and `samples.Timestamp`), function by function.

* Every raising site is explicit (`PyM`), with the class CPython raises: `dict[k]` / `del d[k]` → KeyError,
  `parts[1]` → IndexError, attribute access on `None` or on a `float` timestamp → AttributeError, `None < 0`,
  `math.isnan(None)`, `None + str` → TypeError, `math.isnan(<huge int>)` → OverflowError.
* Numbers are parameters (`Params`): `int()`, `float()`, the comparisons on parsed values, `math.isnan/isinf`,
  `float.is_integer`, and the regular-expression classes `\w \s \d` of `_parse_nh_struct`.  Theorems hold for every
  choice; the driver instantiates them with CPython's behaviour (`Drv/C14.lean`).
* The declarative pieces (suffix tables, comparison operators, limits, keywords) come from `Generated.OMParse`.
* The parser is `assemble ∘ map parseLine ∘ docLines`; `stepLine` is the body of the `for line in fd` loop on an
  already tokenised line, so that `omParse_eq_mono` (the fold that parses each line when it reaches it) is a
  two-line induction: line parsing is pure and reads no parser state except "is the current type histogram", and
  for that the line AST carries both readings.
-/
import PromVerif.Py.Str
import PromVerif.Py.Err
import PromVerif.Model.Validation
import PromVerif.Model.ParseCore
import PromVerif.Generated.OMParse
import PromVerif.Generated.Utils

/-- `cs!"abc"` is the list literal `['a', 'b', 'c']` (a `Str` constant that proofs can compute with cheaply) -/
macro:max "cs!" s:str : term => do
  let elems ← s.getString.toList.mapM (fun c => `($(Lean.Syntax.mkCharLit c)))
  `([$(elems.toArray),*])

namespace PromVerif.Model.OMParse
open PromVerif.Py PromVerif.Model.Validation PromVerif.Model.ParseCore PromVerif.Generated.OMParse

/-! ## parameters -/

/-- the number operations and regex classes the parser uses; nothing is assumed about them -/
structure Params where
  /-- `int(s)`; `none` = ValueError -/
  pyInt : Str → Option Int
  /-- `float(s)` as a bit pattern; `none` = ValueError -/
  pyFloat : Str → Option Nat
  /-- Python `<`, `<=`, `==` on int/float values -/
  lt : Num → Num → Bool
  le : Num → Num → Bool
  eq : Num → Num → Bool
  /-- `math.isnan`, `math.isinf`, `== float('inf')`, `float.is_integer` on a float -/
  isNaN : Nat → Bool
  isInf : Nat → Bool
  isPosInf : Nat → Bool
  isInteger : Nat → Bool
  /-- `float(n)` overflows (so `math.isnan(n)` raises OverflowError) -/
  intTooBig : Int → Bool
  /-- `Timestamp.__float__`: `float(sec) + float(nsec) / 1e9`; `none` = OverflowError from `float(sec)` -/
  tsFloat : Int → Int → Option Nat
  /-- `re` classes for str patterns -/
  reW : Char → Bool
  reS : Char → Bool
  reD : Char → Bool
  /-- the global legacy-validation switch of validation.py -/
  legacy : Bool

def Params.cmp (P : Params) : CmpOp → Num → Num → Bool
  | .lt, a, b => P.lt a b
  | .le, a, b => P.le a b
  | .gt, a, b => P.lt b a
  | .ge, a, b => P.le b a
  | .eq, a, b => P.eq a b
  | .ne, a, b => !P.eq a b

def natCmp : CmpOp → Nat → Nat → Bool
  | .lt, a, b => a < b
  | .le, a, b => a ≤ b
  | .gt, a, b => a > b
  | .ge, a, b => a ≥ b
  | .eq, a, b => a == b
  | .ne, a, b => a != b

/-- a comparison where either side may be Python `None`: ordering with `None` is a TypeError, `==`/`!=` is not -/
def Params.cmpOpt (P : Params) (op : CmpOp) (a b : Option Num) : PyM Bool :=
  match a, b with
  | some x, some y => .ok (P.cmp op x y)
  | _, _ =>
    match op with
    | .eq => .ok (a.isNone && b.isNone)
    | .ne => .ok !(a.isNone && b.isNone)
    | _ => .error .typeError

/-! ## data -/

abbrev Labels := List (Str × Str)

/-- what `_parse_timestamp` returns: a `Timestamp` or a `float` -/
inductive OTs
  | stamp (sec nsec : Int)
  | flt (bits : Nat)
deriving Repr, DecidableEq

structure OExemplar where
  labels : Labels
  value : Num
  ts : Option OTs
deriving Repr, DecidableEq

structure NatHist where
  count : Int
  sum : Int
  schema : Int
  zeroThreshold : Nat
  zeroCount : Int
  posSpans : Option (List (Int × Int))
  negSpans : Option (List (Int × Int))
  posDeltas : Option (List Int)
  negDeltas : Option (List Int)
deriving Repr, DecidableEq

/-- `samples.Sample`; `labels` and `value` are `None` for native-histogram samples -/
structure OSample where
  name : Str
  labels : Option Labels
  value : Option Num
  ts : Option OTs
  exemplar : Option OExemplar
  nh : Option NatHist
deriving Repr, DecidableEq

structure OFamily where
  name : Str
  doc : Str
  typ : Str
  unit : Str
  samples : List OSample
deriving Repr, DecidableEq

/-! ## small Python helpers -/

def sName : Str := cs!"__name__"
def sBucket : Str := cs!"_bucket"
def sCount : Str := cs!"_count"
def sGcount : Str := cs!"_gcount"
def sSum : Str := cs!"_sum"
def sGsum : Str := cs!"_gsum"
def sLe : Str := cs!"le"
def sQuantile : Str := cs!"quantile"
def sNaN : Str := cs!"NaN"
def tHistogram : Str := cs!"histogram"
def tGaugeHistogram : Str := cs!"gaugehistogram"
def tInfo : Str := cs!"info"
def tSummary : Str := cs!"summary"
def tStateset : Str := cs!"stateset"
def tCounter : Str := cs!"counter"
def tUnknown : Str := cs!"unknown"
def sTotal : Str := cs!"_total"
def sEOF : Str := cs!"# EOF"

/-- `-1` for "not found" -/
def optIdx : Option Nat → Int
  | some n => Int.ofNat n
  | none => -1

/-- a Python slice bound: negative counts from the end, then clamp to `[0, len]` -/
def pyBound (len : Nat) (i : Int) : Nat :=
  if i < 0 then (Int.ofNat len + i).toNat else min i.toNat len

/-- `s[a:b]` -/
def pySlice (s : Str) (a b : Int) : Str :=
  (s.take (pyBound s.length b)).drop (pyBound s.length a)

/-- `s[a:]` -/
def pyFrom (s : Str) (a : Int) : Str := s.drop (pyBound s.length a)

/-- `d.get(k)` on an insertion-ordered dict -/
def dictGet (d : Labels) (k : Str) : Option Str := (d.find? (fun kv => kv.1 == k)).map (·.2)

def dictHas (d : Labels) (k : Str) : Bool := d.any (fun kv => kv.1 == k)

/-- `del d[k]`: KeyError when absent -/
def dictDel (d : Labels) (k : Str) : PyM Labels :=
  if dictHas d k then .ok (d.filter (fun kv => kv.1 != k)) else .error .keyError

/-- dict `==` (order-insensitive; keys are unique) -/
def dictEq (a b : Labels) : Bool := sortByKey a == sortByKey b

/-- `==` on values that are a dict or `None` -/
def optDictEq : Option Labels → Option Labels → Bool
  | some a, some b => dictEq a b
  | none, none => true
  | _, _ => false

/-- `s.split(sep)` for a one-character separator -/
def splitOn (c : Char) : Str → List Str
  | [] => [[]]
  | x :: xs =>
    if x == c then [] :: splitOn c xs
    else match splitOn c xs with
      | [] => [[x]]          -- unreachable: splitOn never returns []
      | h :: t => (x :: h) :: t

/-- last binding wins, as in `dict(list_of_pairs)` -/
def lookupLast {β : Type} (k : Str) (l : List (Str × β)) : Option β :=
  (l.reverse.find? (fun kv => kv.1 == k)).map (·.2)

def lookupTable (k : Str) (l : List (Str × List Str)) : Option (List Str) :=
  (l.find? (fun kv => kv.1 == k)).map (·.2)

/-- `try: x  except ValueError: h()` -/
def catchValueError {α : Type} (x : PyM α) (h : Unit → PyM α) : PyM α :=
  match x with
  | .error .valueError => h ()
  | r => r

def Params.intE (P : Params) (s : Str) : PyM Int :=
  match P.pyInt s with
  | some n => .ok n
  | none => .error .valueError

def Params.floatE (P : Params) (s : Str) : PyM Nat :=
  match P.pyFloat s with
  | some b => .ok b
  | none => .error .valueError

def Params.parseValue (P : Params) (s : Str) : PyM Num := ParseCore.parseValue P.pyInt P.pyFloat s

/-- a sequence of independent checks, run in order -/
def runChecks : List (PyM Unit) → PyM Unit
  | [] => .ok ()
  | c :: cs =>
    match c with
    | .ok _ => runChecks cs
    | .error e => .error e

/-- `if cond: raise ValueError` -/
def raiseIf (cond : Bool) : PyM Unit := if cond then .error .valueError else .ok ()

/-- `if (← cond): raise ValueError` where evaluating the condition may itself raise -/
def raiseIfM (cond : PyM Bool) : PyM Unit :=
  match cond with
  | .ok true => .error .valueError
  | .ok false => .ok ()
  | .error e => .error e

/-! ## `_unescape_help` -/

def unescapeHelpAux : Str → Bool → Str
  | [], slash => if slash then ['\\'] else []
  | c :: cs, true =>
    (if c == '\\' then ['\\'] else if c == '"' then ['"'] else if c == 'n' then ['\n'] else ['\\', c])
      ++ unescapeHelpAux cs false
  | c :: cs, false => if c == '\\' then unescapeHelpAux cs true else c :: unescapeHelpAux cs false

def unescapeHelp (text : Str) : Str := unescapeHelpAux text false

/-! ## `_isUncanonicalNumber` -/

def posInfGo : Str := PromVerif.Generated.Utils.posInfText

/-- `float(s)` (ValueError), then: only `inf` must be spelled canonically, i.e. as `floatToGoString(inf)` -/
def isUncanonicalNumber (P : Params) (s : Str) : PyM Bool := do
  let f ← P.floatE s
  if !P.isPosInf f then pure false else pure (s != posInfGo)

/-! ## `Timestamp.__init__` and `_parse_timestamp` -/

/-- `Timestamp(sec, nsec)` -/
def mkTimestamp (sec nsec : Int) : PyM OTs :=
  if nsec < 0 || nsec ≥ 1000000000 then .error .valueError
  else .ok (.stamp sec (if sec < 0 then -nsec else nsec))

/-- `s.ljust(n, c)` -/
def ljust (n : Nat) (c : Char) (s : Str) : Str := s ++ List.replicate (n - s.length) c

/-- the tests 64745db added to the `aaaa.bbbb` form (when they are in the source, `tsFracStrict`): `int(parts[1])` —
the whole fraction must be an integer literal, so `1.234567891e-05` falls to the float form — and
`sec == 0 and parts[0].startswith('-')` — `-0.5` stays a float, a `Timestamp` cannot carry its sign -/
def fracStrictChecks (P : Params) (sec : Int) (p0 p1 : Str) : PyM Unit :=
  if tsFracStrict then
    match P.intE p1 with
    | .error e => .error e
    | .ok _ => if sec == 0 && p0.head? == some '-' then .error .valueError else .ok ()
  else .ok ()

/-- the second form `aaaa.bbbb`; `parts[1]` is an explicit IndexError site -/
def parseTimestampFrac (P : Params) (ts : Str) : PyM OTs :=
  let parts := splitFirst '.' ts
  match P.intE parts.1 with
  | .error e => .error e
  | .ok a =>
    match parts.2 with
    | none => .error .indexError
    | some p1 =>
      match fracStrictChecks P a parts.1 p1 with
      | .error e => .error e
      | .ok _ =>
        match P.intE (ljust 9 '0' (p1.take 9)) with
        | .error e => .error e
        | .ok b => mkTimestamp a b

/-- the third form: `float(timestamp)`, NaN and infinities rejected -/
def parseTimestampFloat (P : Params) (ts : Str) : PyM OTs := do
  let f ← P.floatE ts
  if P.isNaN f || P.isInf f then throw .valueError
  pure (.flt f)

/-- `_parse_timestamp(timestamp)` (the argument already joined) -/
def parseTimestamp (P : Params) (ts : Str) : PyM (Option OTs) :=
  if ts.isEmpty then .ok none
  else if ts != strip ts || ts.contains '_' then .error .valueError
  else
    (catchValueError (do let n ← P.intE ts; mkTimestamp n 0) fun _ =>
      catchValueError (parseTimestampFrac P ts) fun _ => parseTimestampFloat P ts).map some

/-! ## `_parse_remaining_text` -/

inductive RState
  | timestamp | exemplarhash | exemplarspace | exemplarstartoflabels | exemplarparsedlabels
  | exemplarvaluespace | exemplarvalue | exemplartimestamp
deriving Repr, DecidableEq

/-- loop variables; the three character lists are kept reversed -/
structure RAcc where
  state : RState := .timestamp
  inQuotes : Bool := false
  /-- the previous character was an unescaped backslash (maintained always, consulted only with `remEscapeAware`) -/
  escaped : Bool := false
  timestamp : Str := []
  exValue : Str := []
  exTs : Str := []
  exLabels : Option Labels := none
deriving Repr, DecidableEq

/-- the labels of an exemplar: computed from the WHOLE remaining text when the state machine meets `{` -/
def exemplarLabels (P : Params) (text : Str) : PyM Labels :=
  let labelStart := optIdx (nextUnquotedChar text (· == '{'))
  let labelEnd := optIdx (lastUnquotedChar text (· == '}'))
  parseLabels P.legacy (pySlice text (labelStart + 1) labelEnd) true

/-- one iteration of `for char in it:` — the in-quotes flag flips on every double quote that is not preceded by an
unescaped backslash (bc8d08a, `remEscapeAware`); before that repair it flipped on EVERY double quote (F18) -/
def remStep (P : Params) (text : Str) (a : RAcc) (char : Char) : PyM RAcc :=
  let inQ := if char == '"' && !(remEscapeAware && a.escaped) then !a.inQuotes else a.inQuotes
  let a := { a with inQuotes := inQ, escaped := char == '\\' && !a.escaped }
  if inQ then .ok a
  else match a.state with
    | .timestamp =>
      if char == '#' && a.timestamp.isEmpty then .ok { a with state := .exemplarspace }
      else if char == ' ' then .ok { a with state := .exemplarhash }
      else .ok { a with timestamp := char :: a.timestamp }
    | .exemplarhash =>
      if char == '#' then .ok { a with state := .exemplarspace } else .error .valueError
    | .exemplarspace =>
      if char == ' ' then .ok { a with state := .exemplarstartoflabels } else .error .valueError
    | .exemplarstartoflabels =>
      if char == '{' then
        match exemplarLabels P text with
        | .ok ls => .ok { a with exLabels := some ls, state := .exemplarparsedlabels }
        | .error e => .error e
      else .error .valueError
    | .exemplarparsedlabels =>
      if char == '}' then .ok { a with state := .exemplarvaluespace } else .ok a
    | .exemplarvaluespace =>
      if char == ' ' then .ok { a with state := .exemplarvalue } else .error .valueError
    | .exemplarvalue =>
      if char == ' ' && a.exValue.isEmpty then .error .valueError
      else if char == ' ' then .ok { a with state := .exemplartimestamp }
      else .ok { a with exValue := char :: a.exValue }
    | .exemplartimestamp => .ok { a with exTs := char :: a.exTs }

def remLoop (P : Params) (text : Str) : RAcc → Str → PyM RAcc
  | a, [] => .ok a
  | a, c :: cs =>
    match remStep P text a c with
    | .ok a' => remLoop P text a' cs
    | .error e => .error e

/-- the exemplar, once its labels are known: the length limit, then value and timestamp -/
def remExemplar (P : Params) (a : RAcc) (ls : Labels) : PyM OExemplar :=
  let len := (ls.map (fun kv => kv.1.length + kv.2.length)).sum
  if natCmp exemplarLenCmp len exemplarMaxLen then .error .valueError
  else
    match P.parseValue a.exValue.reverse with
    | .error e => .error e
    | .ok ev =>
      match parseTimestamp P a.exTs.reverse with
      | .error e => .error e
      | .ok ets => .ok ⟨ls, ev, ets⟩

/-- what follows the loop -/
def remFinish (P : Params) (val : Num) (a : RAcc) : PyM (Num × Option OTs × Option OExemplar) :=
  match runChecks [
      raiseIf (a.state == .timestamp && a.timestamp.isEmpty),
      raiseIf (a.state == .exemplartimestamp && a.exTs.isEmpty),
      raiseIf (a.state == .exemplarhash || a.state == .exemplarspace || a.state == .exemplarstartoflabels
                || a.state == .exemplarparsedlabels)] with
  | .error e => .error e
  | .ok _ =>
    match parseTimestamp P a.timestamp.reverse with
    | .error e => .error e
    | .ok ts =>
      match a.exLabels with
      | none => .ok (val, ts, none)
      | some ls =>
        match remExemplar P a ls with
        | .error e => .error e
        | .ok ex => .ok (val, ts, some ex)

/-- `_parse_remaining_text(text)` → (value, timestamp, exemplar) -/
def parseRemainingText (P : Params) (text : Str) : PyM (Num × Option OTs × Option OExemplar) := do
  let parts := splitFirst ' ' text
  let val ← P.parseValue parts.1
  match parts.2 with
  | none => pure (val, none, none)
  | some rest =>
    let a ← remLoop P rest {} rest
    remFinish P val a

/-! ## `_parse_sample` -/

def sepHash : Str := cs!" # "

/-- name taken out of the labels when the text before `{` is empty -/
def nameFromLabels (name : Str) (labels : Labels) : PyM (Str × Labels) :=
  if name.isEmpty then
    match dictGet labels sName with
    | none => .error .valueError
    | some n => .ok (n, labels.filter (fun kv => kv.1 != sName))
  else if dictHas labels sName then .error .valueError
  else .ok (name, labels)

def parseSample (P : Params) (text : Str) : PyM OSample :=
  let labelStart := nextUnquotedChar text (· == '{')
  let noLabels := match labelStart with
    | none => true
    | some ls => isInfix sepHash (text.take ls)
  if noLabels then do
    let nameEnd := optIdx (nextUnquotedChar text (· == ' '))
    let name := pySlice text 0 nameEnd
    if !isValidLegacyMetricName name then throw .valueError
    let (v, ts, ex) ← parseRemainingText P (pyFrom text (nameEnd + 1))
    pure ⟨name, some [], some v, ts, ex, none⟩
  else do
    let ls := optIdx labelStart
    let name := pySlice text 0 ls
    let labelEnd := optIdx (nextUnquotedChar text (· == '}'))
    let labels ← parseLabels P.legacy (pySlice text (ls + 1) labelEnd) true
    let (name, labels) ← nameFromLabels name labels
    let (v, ts, ex) ← parseRemainingText P (pyFrom text (labelEnd + 2))
    pure ⟨name, some labels, some v, ts, ex, none⟩

/-! ## `_parse_nh_struct`: the three regular expressions as hand-written matchers

Exact for the leftmost/greedy/backtracking semantics of `re` whenever `:` is not a `\w` character and none of
`: , ] -` is a `\d` character (true of the interpreter's classes: `Props/C14OM.lean` checks it on the generated
tables). -/

def notSep (c : Char) : Bool := c != ',' && c != '}'

/-- `[^,}]+` at offset `k` of `r` -/
def valueAt (r : Str) (k : Nat) : Option (Str × Str) :=
  let here := r.drop k
  match here.head? with
  | some c => if notSep c then some (here.takeWhile notSep, here.dropWhile notSep) else none
  | none => none

/-- `\s*([^,}]+)` at the head of `r`, where the greedy `\s*` took `k` characters and gives them back one by one -/
def matchValueFrom (r : Str) : Nat → Option (Str × Str)
  | 0 => valueAt r 0
  | k + 1 =>
    match valueAt r (k + 1) with
    | some x => some x
    | none => matchValueFrom r k

def matchValue (P : Params) (r : Str) : Option (Str × Str) :=
  matchValueFrom r (r.takeWhile P.reS).length

/-- `re.findall(r'(\w+):\s*([^,}]+)', text)` -/
def findItems (P : Params) : Nat → Str → List (Str × Str)
  | 0, _ => []
  | _ + 1, [] => []
  | fuel + 1, c :: cs =>
    if P.reW c then
      let key := (c :: cs).takeWhile P.reW
      match (c :: cs).dropWhile P.reW with
      | ':' :: r1 =>
        match matchValue P r1 with
        | some (val, rest) => (key, val) :: findItems P fuel rest
        | none => findItems P fuel r1
      | r => findItems P fuel r
    else findItems P fuel cs

/-- `\d+:\d+` → (matched text, rest) -/
def matchPair (P : Params) (s : Str) : Option (Str × Str) :=
  let a := s.takeWhile P.reD
  if a.isEmpty then none
  else match s.dropWhile P.reD with
    | ':' :: r =>
      let b := r.takeWhile P.reD
      if b.isEmpty then none else some (a ++ ':' :: b, r.dropWhile P.reD)
    | _ => none

/-- `-?\d+` → (matched text, rest) -/
def matchSigned (P : Params) (s : Str) : Option (Str × Str) :=
  let (sign, body) := match s with
    | '-' :: t => (['-'], t)
    | _ => ([], s)
  let a := body.takeWhile P.reD
  if a.isEmpty then none else some (sign ++ a, body.dropWhile P.reD)

/-- `ITEM(,ITEM)*\]` → (text of the list, rest after `]`) -/
def matchListTail (item : Str → Option (Str × Str)) : Nat → Str → Str → Option (Str × Str)
  | 0, _, _ => none
  | fuel + 1, acc, s =>
    match s with
    | ',' :: t =>
      match item t with
      | some (m, rest) => matchListTail item fuel (acc ++ ',' :: m) rest
      | none => none                 -- `]` expected, `,` found
    | ']' :: rest => some (acc, rest)
    | _ => none

def matchList (item : Str → Option (Str × Str)) (s : Str) : Option (Str × Str) :=
  match item s with
  | some (m, rest) => matchListTail item (rest.length + 1) m rest
  | none => none

/-- `(K1|K2):\[LIST\]` at the head of `s` → (key, list text, rest) -/
def matchKeyedList (keys : List Str) (item : Str → Option (Str × Str)) (s : Str) : Option (Str × Str × Str) :=
  match keys.find? (fun k => k.isPrefixOf s) with
  | none => none
  | some k =>
    match s.drop k.length with
    | ':' :: '[' :: r =>
      match matchList item r with
      | some (body, rest) => some (k, body, rest)
      | none => none
    | _ => none

/-- `findall` of a keyed-list pattern: leftmost, non-overlapping -/
def findKeyedLists (keys : List Str) (item : Str → Option (Str × Str)) : Nat → Str → List (Str × Str)
  | 0, _ => []
  | _ + 1, [] => []
  | fuel + 1, c :: cs =>
    match matchKeyedList keys item (c :: cs) with
    | some (k, body, rest) => (k, body) :: findKeyedLists keys item fuel rest
    | none => findKeyedLists keys item fuel cs

def spanKeys : List Str := [cs!"positive_spans", cs!"negative_spans"]
def deltaKeys : List Str := [cs!"positive_deltas", cs!"negative_deltas"]

/-- `_compose_spans(span_matches, spans_name)`: EVERY match is converted (each may raise), then one is looked up -/
def composeSpans (P : Params) (ms : List (Str × Str)) (name : Str) : PyM (Option (List (Int × Int))) := do
  let spans ← ms.mapM (fun (kv : Str × Str) => do
    let pairs ← (splitOn ',' kv.2).mapM (fun pair => (splitOn ':' pair).mapM P.intE)
    pure (kv.1, pairs))
  match lookupLast name spans with
  | none => pure none
  | some pairs =>
    -- `for start, end in …`: unpacking anything but two values is a ValueError
    let out ← pairs.mapM (fun (p : List Int) => match p with
      | [a, b] => (pure (a, b) : PyM (Int × Int))
      | _ => throw .valueError)
    pure (some out)

/-- `_compose_deltas(deltas, deltas_name)`; `elems` stays unbound when the matched text is blank (UnboundLocalError,
reported as `runtimeError` — `PyErr` has no constructor for it; unreachable when no `\d` character is whitespace) -/
def composeDeltas (P : Params) (deltas : List (Str × Str)) (name : Str) : PyM (Option (List Int)) :=
  match lookupLast name deltas with
  | none => .ok none
  | some out =>
    if (strip out).isEmpty then .error .runtimeError
    else do
      let xs ← (splitOn ',' out).mapM (fun x => P.intE (strip x))
      pure (some xs)

/-- `items[k]`: KeyError when the first regex found no such key — turned into ValueError by the `try … except
KeyError` around the five look-ups when that guard is in the source (`nhStructCatchesKeyError`) -/
def itemGet (items : List (Str × Str)) (k : Str) : PyM Str :=
  match lookupLast k items with
  | some v => .ok v
  | none => .error (if nhStructCatchesKeyError then .valueError else .keyError)

/-- `_parse_nh_struct(text)` -/
def parseNhStruct (P : Params) (text : Str) : PyM NatHist := do
  let items := findItems P (text.length + 1) text
  let spanMatches := findKeyedLists spanKeys (matchPair P) (text.length + 1) text
  let deltas := findKeyedLists deltaKeys (matchSigned P) (text.length + 1) text
  let count ← P.intE (← itemGet items cs!"count")
  let sum ← P.intE (← itemGet items cs!"sum")
  let schema ← P.intE (← itemGet items cs!"schema")
  let zt ← P.floatE (← itemGet items cs!"zero_threshold")
  let zc ← P.intE (← itemGet items cs!"zero_count")
  let ps ← composeSpans P spanMatches cs!"positive_spans"
  let ns ← composeSpans P spanMatches cs!"negative_spans"
  let pd ← composeDeltas P deltas cs!"positive_deltas"
  let nd ← composeDeltas P deltas cs!"negative_deltas"
  pure ⟨count, sum, schema, zt, zc, ps, ns, pd, nd⟩

/-! ## `_parse_nh_sample` -/

/-- where the detector found the pieces of a native-histogram line -/
structure NhPos where
  labelsStart : Int         -- first unquoted `{` of the line (or -1)
  labelsEnd : Int
  hasMetricLabels : Bool
  valueStart : Nat
deriving Repr, DecidableEq

/-- the detector: `none` = "not a native histogram" (`return`), ValueError for an unclosed brace -/
def nhDetect (text : Str) : PyM (Option NhPos) :=
  let labelsStart := optIdx (nextUnquotedChar text (· == '{'))
  match nextUnquotedChar text (fun c => c == ' ' || c == '{') with
  | none => .ok none
  | some i0 =>
    let r : PyM (Nat × Bool × Int) :=
      if text[i0]? == some '{' then
        match nextUnquotedChar text (· == '}') i0 with
        | none => .error .valueError
        | some e => .ok (e, true, Int.ofNat e)
      else .ok (i0, false, -1)
    match r with
    | .error e => .error e
    | .ok (i, hasLabels, labelsEnd) =>
      match nextUnquotedChar text (· == '{') (i + 1) with
      | none => .ok none
      | some vs =>
        let isExemplar := match nextUnquotedChar text (· == '#') (i + 1) with
          | some ex => decide (ex < vs)
          | none => false
        if isExemplar then .ok none
        else match nextUnquotedChar text (· == '}') vs with
          | none => .error .valueError
          | some _ => .ok (some ⟨labelsStart, labelsEnd, hasLabels, vs⟩)

def endsWithAny (suffixes : List Str) (s : Str) : Bool := suffixes.any (fun suf => endsWith suf s)

/-- name and labels of a native-histogram line that has metric labels: the suffix rule on the text before the
braces; an empty name is taken from the labels (`__name__`), the suffix rule then applies to it too when that test is
in the source (`nhSuffixRecheck`); a label set left empty becomes `None` -/
def nhNameLabels (suffixes : List Str) (name : Str) (labels : Labels) : PyM (Str × Option Labels) :=
  if endsWithAny suffixes name then .error .valueError
  else if name.isEmpty then
    match dictGet labels sName with
    | none => .error .valueError
    | some n =>
      let rest := labels.filter (fun kv => kv.1 != sName)
      if nhSuffixRecheck && endsWithAny suffixes n then .error .valueError
      else .ok (n, if rest.isEmpty then none else some rest)
  else .ok (name, some labels)

/-- `_parse_nh_sample(text, suffixes)` -/
def parseNhSample (P : Params) (text : Str) (suffixes : List Str) : PyM (Option OSample) :=
  match nhDetect text with
  | .error e => .error e
  | .ok none => .ok none
  | .ok (some pos) =>
    if pos.hasMetricLabels then
      match parseLabels P.legacy (pySlice text (pos.labelsStart + 1) pos.labelsEnd) true with
      | .error e => .error e
      | .ok labels =>
        match nhNameLabels suffixes (pySlice text 0 pos.labelsStart) labels with
        | .error e => .error e
        | .ok (name, labels?) =>
          match parseNhStruct P (text.drop pos.valueStart) with
          | .error e => .error e
          | .ok nh => .ok (some ⟨name, labels?, none, none, none, some nh⟩)
    else
      let name := pySlice text 0 (Int.ofNat pos.valueStart - 1)
      if endsWithAny suffixes name then .error .valueError
      else
        match parseNhStruct P (text.drop pos.valueStart) with
        | .error e => .error e
        | .ok nh => .ok (some ⟨name, none, none, none, none, some nh⟩)

/-! ## `_group_for_sample` -/

/-- `sample.labels.copy()` — AttributeError on `None` -/
def labelsCopy (s : OSample) : PyM Labels :=
  match s.labels with
  | some l => .ok l
  | none => .error .attributeError

/-- returns the dict (or `None` for a label-less native histogram sample) -/
def groupForSample (s : OSample) (name typ : Str) : PyM (Option Labels) :=
  if typ == tInfo then .ok (some [])
  else if typ == tSummary && s.name == name then do
    let d ← labelsCopy s
    pure (some (← dictDel d sQuantile))
  else if typ == tStateset then do
    let d ← labelsCopy s
    pure (some (← dictDel d name))
  else if (typ == tHistogram || typ == tGaugeHistogram) && s.name == name ++ sBucket then do
    let d ← labelsCopy s
    pure (some (← dictDel d sLe))
  else .ok s.labels

/-! ## timestamps as Python compares them -/

/-- `float(ts)` for a `Timestamp` -/
def stampFloat (P : Params) (s n : Int) : PyM Nat :=
  match P.tsFloat s n with
  | some f => .ok f
  | none => .error .overflowError

/-- `a > b` between two non-`None` timestamps.  `Timestamp.__gt__(ts, x)` and the reflected `Timestamp.__lt__(ts, x)`
(for `x > ts`) compare `float(ts)` with a non-Timestamp `x` when the `isinstance` guard is in the source (`tsCoerce`);
without it they read `x.sec`, which a float does not have.  When `float(ts)` overflows, the `except OverflowError`
fallback (`tsOverflowFallback`) compares `ts.sec` with `x` (int against float: exact, never raises) -/
def tsGt (P : Params) : OTs → OTs → PyM Bool
  | .stamp s1 n1, .stamp s2 n2 =>
    if tsCompareViaFloat then
      -- variant `float(self) > float(other)`: nanoseconds beyond float precision are lost; when a conversion
      -- overflows, the fallback `self.sec > other` ends (through the reflected method) in comparing the seconds
      match P.tsFloat s1 n1, P.tsFloat s2 n2 with
      | some f1, some f2 => .ok (P.lt (.flt f2) (.flt f1))
      | _, _ => .ok (decide (s2 < s1))
    else .ok (if s1 = s2 then decide (n1 > n2) else decide (s1 > s2))
  | .stamp s n, .flt b =>
    if tsCoerce then
      match P.tsFloat s n with
      | some f => .ok (P.lt (.flt b) (.flt f))
      | none => if tsOverflowFallback then .ok (P.lt (.flt b) (.int s)) else .error .overflowError
    else .error .attributeError
  | .flt a, .stamp s n =>
    if tsCoerce then
      match P.tsFloat s n with
      | some f => .ok (P.lt (.flt f) (.flt a))
      | none => if tsOverflowFallback then .ok (P.lt (.int s) (.flt a)) else .error .overflowError
    else .error .attributeError
  | .flt a, .flt b => .ok (P.lt (.flt b) (.flt a))

/-- `a == b` on timestamps that may be `None` (`Timestamp.__eq__` checks `isinstance`; never raises) -/
def tsEq (P : Params) : Option OTs → Option OTs → Bool
  | none, none => true
  | some (.stamp s1 n1), some (.stamp s2 n2) => s1 == s2 && n1 == n2
  | some (.flt a), some (.flt b) => P.eq (.flt a) (.flt b)
  | _, _ => false

/-! ## `_check_histogram` -/

structure HSt where
  group : Option Labels := none
  ts : Option OTs := none
  count : Option Num := none
  bucket : Option Nat := none
  hasNegBuckets : Bool := false
  hasSum : Bool := false
  hasGsum : Bool := false
  hasNegGsum : Bool := false
  value : Option Num := some (.int 0)
deriving Repr, DecidableEq

/-- the nested `do_checks()`, test by test in source order -/
def doChecks (P : Params) (h : HSt) : PyM Unit :=
  runChecks [
    raiseIf (match h.bucket with | none => true | some b => !P.isPosInf b),
    (if h.count.isSome then raiseIfM (P.cmpOpt countCmp h.value h.count) else .ok ()),
    raiseIf (h.hasSum && h.count.isNone),
    raiseIf (h.hasGsum && h.count.isNone),
    raiseIf (!(h.hasSum || h.hasGsum) && h.count.isSome),
    raiseIf (h.hasNegBuckets && h.hasSum),
    raiseIf (!h.hasNegBuckets && h.hasNegGsum)]

/-- `s.labels['le']`: TypeError on `None`, KeyError when absent -/
def leOf (s : OSample) : PyM Str :=
  match s.labels with
  | none => .error .typeError
  | some l => match dictGet l sLe with
    | some v => .ok v
    | none => .error .keyError

/-- `if g != group or s.timestamp != timestamp:` — close the previous group (`do_checks()`), reset the locals -/
def histReset (P : Params) (h : HSt) (g : Option Labels) (ts : Option OTs) : PyM HSt :=
  if !optDictEq g h.group || !tsEq P ts h.ts then
    match (if h.group.isSome then doChecks P h else .ok ()) with
    | .error e => .error e
    | .ok _ => .ok { h with count := none, bucket := none, hasNegBuckets := false, hasSum := false, hasGsum := false,
                            hasNegGsum := false, value := some (.int 0) }
  else .ok h

/-- the `_bucket` branch -/
def histBucket (P : Params) (h : HSt) (s : OSample) : PyM HSt :=
  match leOf s with
  | .error e => .error e
  | .ok le =>
    match P.floatE le with
    | .error e => .error e
    | .ok b =>
      match raiseIf (match h.bucket with
          | some prev => P.cmp bucketOrderCmp (.flt b) (.flt prev)
          | none => false) with
      | .error e => .error e
      | .ok _ =>
        match raiseIfM (P.cmpOpt bucketValueCmp s.value h.value) with
        | .error e => .error e
        | .ok _ =>
          .ok { h with hasNegBuckets := h.hasNegBuckets || P.cmp negBucketCmp (.flt b) (.int 0), bucket := some b, value := s.value }

/-- one iteration of `for s in samples:` for a sample that is not skipped -/
def histStepBody (P : Params) (name : Str) (h : HSt) (s : OSample) : PyM HSt :=
  let suffix := s.name.drop name.length
  match groupForSample s name tHistogram with
  | .error e => .error e
  | .ok g =>
    if suffix.isEmpty then .ok h
    else
      match histReset P h g s.ts with
      | .error e => .error e
      | .ok h =>
        let h := { h with group := g, ts := s.ts }
        if suffix == sBucket then histBucket P h s
        else if suffix == sCount || suffix == sGcount then .ok { h with count := s.value }
        else if suffix == sSum then .ok { h with hasSum := true }
        else if suffix == sGsum then
          match P.cmpOpt gsumNegCmp s.value (some (.int 0)) with
          | .error e => .error e
          | .ok neg => .ok { h with hasGsum := true, hasNegGsum := h.hasNegGsum || neg }
        else .ok h

/-- one iteration of `for s in samples:` — `if s.native_histogram is not None: continue` first, when that statement
is in the source (`histSkipsNh`) -/
def histStep (P : Params) (name : Str) (h : HSt) (s : OSample) : PyM HSt :=
  if histSkipsNh && s.nh.isSome then .ok h else histStepBody P name h s

def histLoop (P : Params) (name : Str) : HSt → List OSample → PyM HSt
  | h, [] => .ok h
  | h, s :: ss =>
    match histStep P name h s with
    | .ok h' => histLoop P name h' ss
    | .error e => .error e

/-- `_check_histogram(samples, name)` (the locals of `do_checks` initialised from the start: the only reads before
the first reset are guarded by `group is not None`, which a reset always precedes) -/
def checkHistogram (P : Params) (samples : List OSample) (name : Str) : PyM Unit :=
  match histLoop P name {} samples with
  | .error e => .error e
  | .ok h => if h.group.isSome then doChecks P h else .ok ()

/-! ## the line / family state machine `text_fd_to_metric_families` -/

/-- a tokenised line -/
inductive Line
  | blank
  | eof
  /-- the line's own parsing raises `e` (metadata with fewer than four parts, bad quoting, invalid name) -/
  | bad (e : PyErr)
  /-- `# KIND name rest`, the name unquoted and checked -/
  | metadata (kind name rest : Str)
  /-- a sample line, read as a native histogram (used when the current type is `histogram`) and as a plain sample -/
  | sample (nh : PyM (Option OSample)) (plain : PyM OSample)

/-- the family header variables: `name, documentation, typ, unit, allowed_names` -/
structure Hdr where
  name : Option Str := none
  doc : Option Str := none
  typ : Option Str := none
  unit : Option Str := none
  allowed : List Str := []
deriving Repr, DecidableEq

/-- the per-family sample variables: `samples, group, seen_groups, group_timestamp, group_timestamp_samples` -/
structure Grp where
  samples : List OSample := []
  group : Option Labels := none                -- tuple(sorted(items)), or None
  seenGroups : List Labels := []
  groupTs : Option OTs := none
  gtsSamples : List (Str × Labels) := []
deriving Repr, DecidableEq

/-- what outlives a family: `seen_names` and the families yielded so far -/
structure Glob where
  seenNames : List Str := []
  out : List OFamily := []
deriving Repr, DecidableEq

structure St where
  hdr : Hdr := {}
  grp : Grp := {}
  glob : Glob := {}
  eof : Bool := false
deriving Repr, DecidableEq

/-- `for line in fd` of a StringIO: pieces end after each `\n`; the trailing `\n` of a piece is then cut off -/
def docLinesAux : Str → Str → List Str
  | [], acc => if acc.isEmpty then [] else [acc.reverse]
  | c :: cs, acc => if c == '\n' then acc.reverse :: docLinesAux cs [] else docLinesAux cs (c :: acc)

def docLines (text : Str) : List Str := docLinesAux text []

/-- `type_suffixes['histogram']` (KeyError if the table lost the key), then `_parse_nh_sample` -/
def parseNhLine (P : Params) (line : Str) : PyM (Option OSample) :=
  match lookupTable tHistogram typeSuffixes with
  | none => .error .keyError
  | some suff => parseNhSample P line suff

def parseLine (P : Params) (line : Str) : Line :=
  if line.isEmpty then .blank
  else if line == sEOF then .eof
  else if line.head? == some '#' then
    match splitQuoted line (· == ' ') 3 with
    | _ :: kind :: rawName :: rest :: _ =>
      match unquoteUnescape rawName with
      | .error e => .bad e
      | .ok (cand, quoted) =>
        if !quoted && !isValidLegacyMetricName cand then .bad .valueError else .metadata kind cand rest
    | _ => .bad .valueError
  else .sample (parseNhLine P line) (parseSample P line)

/-- `type_suffixes.get(typ, []) + [""]` as a set -/
def familySuffixes (typ : Str) : List Str := (((lookupTable typ typeSuffixes).getD []) ++ [[]]).eraseDups

/-- the tests of `build_metric` (and of `Metric.__init__`, called last), in source order; they are independent -/
def buildChecks (P : Params) (seen : List Str) (name typ unit : Str) (samples : List OSample) : List (PyM Unit) :=
  [ raiseIf (((familySuffixes typ).map (name ++ ·)).any (seen.contains ·)),
    raiseIf (!unit.isEmpty && !endsWith ('_' :: unit) name),
    raiseIf (!unit.isEmpty && unitForbidden.contains typ),
    (if histTypes.contains typ then checkHistogram P samples name else .ok ()),
    validateMetricName P.legacy name,
    raiseIf (!metricTypes.contains typ) ]

/-- `build_metric(name, documentation, typ, unit, samples)`; returns the updated globals -/
def buildMetric (P : Params) (g : Glob) (name : Str) (doc typ unit : Option Str) (samples : List OSample) : PyM Glob :=
  let typ := typ.getD tUnknown
  let unit := unit.getD []
  match runChecks (buildChecks P g.seenNames name typ unit samples) with
  | .error e => .error e
  | .ok _ =>
    .ok { seenNames := g.seenNames ++ (familySuffixes typ).map (name ++ ·),
          out := g.out ++ [⟨name, doc.getD [], typ, unit, samples⟩] }

/-- `if name is not None: yield build_metric(...)` -/
def flush (P : Params) (g : Glob) (h : Hdr) (samples : List OSample) : PyM Glob :=
  match h.name with
  | none => .ok g
  | some n => buildMetric P g n h.doc h.typ h.unit samples

/-- `allowed_names = [name + n for n in type_suffixes.get(typ, [''])]` -/
def allowedNames (name typ : Str) : List Str := ((lookupTable typ typeSuffixes).getD [[]]).map (name ++ ·)

/-- the `if parts[1] == 'HELP' … elif 'TYPE' … elif 'UNIT' … else raise` chain -/
def applyMeta (h : Hdr) (kind cand rest : Str) : PyM Hdr :=
  if kind == kwHelp then
    if h.doc.isSome then .error .valueError else .ok { h with doc := some (unescapeHelp rest) }
  else if kind == kwType then
    if h.typ.isSome then .error .valueError
    else if rest == untypedName then .error .valueError
    else .ok { h with typ := some rest, allowed := allowedNames cand rest }
  else if kind == kwUnit then
    -- `if unit is not None: raise`; the variant `if unit:` (`unitDupByNone = false`) does not see an EMPTY unit
    match h.unit with
    | none => .ok { h with unit := some rest }
    | some u => if unitDupByNone || !u.isEmpty then .error .valueError else .ok { h with unit := some rest }
  else .error .valueError

/-- the `#`-line branch -/
def stepMeta (P : Params) (st : St) (kind cand rest : Str) : PyM St :=
  if st.hdr.name == some cand && !st.grp.samples.isEmpty then .error .valueError
  else if st.hdr.name != some cand then
    match flush P st.glob st.hdr st.grp.samples with
    | .error e => .error e
    | .ok g =>
      match applyMeta { name := some cand, allowed := [cand] } kind cand rest with
      | .error e => .error e
      | .ok h => .ok { st with hdr := h, grp := {}, glob := g }
  else
    match applyMeta st.hdr kind cand rest with
    | .error e => .error e
    | .ok h => .ok { st with hdr := h }

/-- `sample.labels` used as a container: TypeError / AttributeError on `None` -/
def labelsOrType (s : OSample) : PyM Labels :=
  match s.labels with | some l => .ok l | none => .error .typeError

def labelsOrAttr (s : OSample) : PyM Labels :=
  match s.labels with | some l => .ok l | none => .error .attributeError

/-- `not isinstance(v, int) and not v.is_integer()` — AttributeError on `None` -/
def notIntegral (P : Params) : Option Num → PyM Bool
  | some (.int _) => .ok false
  | some (.flt b) => .ok (!P.isInteger b)
  | none => .error .attributeError

/-- `math.isnan(v)`: TypeError on `None`, OverflowError on an int too large for a float -/
def mathIsNaN (P : Params) : Option Num → PyM Bool
  | some (.int n) => if P.intTooBig n then .error .overflowError else .ok false
  | some (.flt b) => .ok (P.isNaN b)
  | none => .error .typeError

/-- the NaN test of the counter-like check: `isinstance(v, float) and math.isnan(v)` when the `isinstance` guard is
in the source (`nanGuardsFloat`), plain `math.isnan(v)` otherwise -/
def nanTest (P : Params) (v : Option Num) : PyM Bool :=
  if nanGuardsFloat then
    match v with
    | some (.flt b) => .ok (P.isNaN b)
    | _ => .ok false
  else mathIsNaN P v

/-- line 592: `typ == 'stateset' and name not in sample.labels` -/
def chkStatesetLabel (name : Str) (typ : Option Str) (s : OSample) : PyM Unit :=
  if typ == some tStateset then
    match labelsOrType s with
    | .ok ls => raiseIf (!dictHas ls name)
    | .error e => .error e
  else .ok ()

/-- lines 594–597: the `le` label of a bucket -/
def chkLe (P : Params) (name : Str) (s : OSample) : PyM Unit :=
  if name ++ sBucket == s.name then
    match labelsOrAttr s with
    | .error e => .error e
    | .ok ls =>
      match dictGet ls sLe with
      | none =>
        if leNaNNumeric then
          -- math.isnan(float("NaN")): `float` of the default text, then `sample.labels['le']` would be a KeyError
          match P.floatE sNaN with
          | .error e => .error e
          | .ok f => if P.isNaN f then .error .valueError else .error .keyError
        else .error .valueError                       -- .get('le', "NaN") == "NaN"
      | some le =>
        if leNaNNumeric then
          match P.floatE le with
          | .error e => .error e
          | .ok f => if P.isNaN f then .error .valueError else raiseIfM (isUncanonicalNumber P le)
        else if le == sNaN then .error .valueError else raiseIfM (isUncanonicalNumber P le)
  else .ok ()

/-- lines 598–600 -/
def chkBucketIntegral (P : Params) (name : Str) (s : OSample) : PyM Unit :=
  if name ++ sBucket == s.name then raiseIfM (notIntegral P s.value) else .ok ()

/-- lines 601–603 -/
def chkCountIntegral (P : Params) (name : Str) (s : OSample) : PyM Unit :=
  if name ++ sCount == s.name || name ++ sGcount == s.name then raiseIfM (notIntegral P s.value) else .ok ()

/-- lines 604–607: the `quantile` label of a summary sample -/
def chkQuantile (P : Params) (name : Str) (typ : Option Str) (s : OSample) : PyM Unit :=
  if typ == some tSummary && name == s.name then
    match labelsOrAttr s with
    | .error e => .error e
    | .ok ls =>
      match dictGet ls sQuantile with
      | none => .error .valueError                    -- float(-1) is outside [0, 1]
      | some q =>
        match P.floatE q with
        | .error e => .error e
        | .ok f =>
          if !(P.le (.int 0) (.flt f) && P.le (.flt f) (.int 1)) then .error .valueError
          else raiseIfM (isUncanonicalNumber P q)
  else .ok ()

/-- the label / value checks that precede grouping (lines 592–607), in source order -/
def preChecks (P : Params) (name : Str) (typ : Option Str) (s : OSample) : PyM Unit :=
  runChecks [chkStatesetLabel name typ s, chkLe P name s, chkBucketIntegral P name s, chkCountIntegral P name s,
             chkQuantile P name typ s]

/-- lines 613–617: the timestamp tests on a sample of the current group -/
def chkGroupTs (P : Params) (typ : Str) (groupTs ts : Option OTs) : PyM Unit :=
  if ts.isNone != groupTs.isNone then .error .valueError
  else match groupTs, ts with
    | some a, some b =>
      -- `group_timestamp > sample.timestamp and typ != 'info'`: the comparison is evaluated first
      match tsGt P a b with
      | .error e => .error e
      | .ok gt => raiseIf (gt && !tsOrderExempt.contains typ)
    | _, _ => .ok ()

/-- `g = tuple(sorted(_group_for_sample(sample, name, typ).items()))` — `None.items()` is an AttributeError -/
def groupOf (s : OSample) (name typ : Str) : PyM Labels :=
  match groupForSample s name typ with
  | .error e => .error e
  | .ok none => .error .attributeError
  | .ok (some d) => .ok (sortByKey d)

/-- grouping, timestamp and duplicate handling of a non-native-histogram sample (lines 610–629) -/
def groupStep (P : Params) (gr : Grp) (name : Str) (typ : Str) (s : OSample) : PyM Grp :=
  match groupOf s name typ with
  | .error e => .error e
  | .ok g =>
    let same := gr.group == some g
    match raiseIf (gr.group.isSome && !same && gr.seenGroups.contains g) with
    | .error e => .error e
    | .ok _ =>
      match (if gr.group.isSome && same then chkGroupTs P typ gr.groupTs s.ts else .ok ()) with
      | .error e => .error e
      | .ok _ =>
        let gts := if gr.group.isSome && same then gr.gtsSamples else []
        match labelsOrAttr s with
        | .error e => .error e
        | .ok ls =>
          let sid := (s.name, sortByKey ls)
          .ok { samples := if !tsEq P s.ts gr.groupTs || !gts.contains sid then gr.samples ++ [s] else gr.samples,
                gtsSamples := if gts.contains sid then gts else gts ++ [sid],
                group := some g, groupTs := s.ts,
                seenGroups := if gr.seenGroups.contains g then gr.seenGroups else gr.seenGroups ++ [g] }

/-- `x in [0, 1]`-style membership of a value that may be `None` -/
def valueIn (P : Params) (v : Option Num) (xs : List Int) : Bool :=
  match v with
  | some x => xs.any (fun k => P.eq x (.int k))
  | none => false

def chkStatesetValue (P : Params) (typ : Option Str) (s : OSample) : PyM Unit :=
  raiseIf (typ == some tStateset && !valueIn P s.value statesetValues)

def chkInfoValue (P : Params) (typ : Option Str) (s : OSample) : PyM Unit :=
  if typ == some tInfo then raiseIfM (P.cmpOpt infoCmp s.value (some (.int infoValue))) else .ok ()

def chkSummaryNeg (P : Params) (name : Str) (typ : Option Str) (s : OSample) : PyM Unit :=
  if typ == some tSummary && name == s.name then raiseIfM (P.cmpOpt summaryNegCmp s.value (some (.int 0))) else .ok ()

def chkNaN (P : Params) (name : Str) (s : OSample) : PyM Unit :=
  if nanSuffixes.contains (s.name.drop name.length) then raiseIfM (nanTest P s.value) else .ok ()

def chkNeg (P : Params) (name : Str) (s : OSample) : PyM Unit :=
  if negSuffixes.contains (s.name.drop name.length) then raiseIfM (P.cmpOpt .lt s.value (some (.int 0))) else .ok ()

/-- `sample.exemplar and not (bucket of a histogram / gaugehistogram, or _total of a counter)` -/
def chkExemplar (typ : Option Str) (s : OSample) : PyM Unit :=
  raiseIf (s.exemplar.isSome &&
    !(((typ == some tHistogram || typ == some tGaugeHistogram) && endsWith sBucket s.name)
      || (typ == some tCounter && endsWith sTotal s.name)))

/-- the value checks after grouping (lines 633–647), in source order -/
def postChecks (P : Params) (name : Str) (typ : Option Str) (s : OSample) : PyM Unit :=
  runChecks [chkStatesetValue P typ s, chkInfoValue P typ s, chkSummaryNeg P name typ s, chkNaN P name s, chkNeg P name s,
             chkExemplar typ s]

/-- the part of the sample branch after "which family does this sample belong to" is settled: header `h` (its
`name` always set at this point — `None + '_bucket'` would be a TypeError) -/
def sampleChecks (P : Params) (h : Hdr) (gr : Grp) (s : OSample) (isNh : Bool) : PyM Grp :=
  -- `if is_nh: samples.append(sample); continue` (when that statement is in the source)
  if isNh && nhSkipsChecks then .ok { gr with samples := gr.samples ++ [s] }
  else match h.name with
  | none => .error .typeError
  | some name =>
    match preChecks P name h.typ s with
    | .error e => .error e
    | .ok _ =>
      match (if !isNh then groupStep P gr name (h.typ.getD []) s else .ok { gr with samples := gr.samples ++ [s] }) with
      | .error e => .error e
      | .ok gr' =>
        match postChecks P name h.typ s with
        | .error e => .error e
        | .ok _ => .ok gr'

/-- "Start an unknown metric": the header of the family a stray sample opens -/
def unknownHdr (s : OSample) : PyM Hdr :=
  match unquoteUnescape s.name with
  | .error e => .error e
  | .ok (cand, quoted) =>
    if !quoted && !isValidLegacyMetricName cand then .error .valueError
    else .ok { name := some cand, typ := some tUnknown, allowed := [s.name] }

/-- the sample-line branch, given the sample and whether it was read as a native histogram -/
def stepSample (P : Params) (st : St) (s : OSample) (isNh : Bool) : PyM St :=
  if !st.hdr.allowed.contains s.name && !isNh then
    match flush P st.glob st.hdr st.grp.samples with
    | .error e => .error e
    | .ok g =>
      match unknownHdr s with
      | .error e => .error e
      | .ok h =>
        match sampleChecks P h {} s isNh with
        | .error e => .error e
        | .ok gr => .ok { st with hdr := h, grp := gr, glob := g }
  else
    match sampleChecks P st.hdr st.grp s isNh with
    | .error e => .error e
    | .ok gr => .ok { st with grp := gr }

/-- which reading of a sample line the loop uses -/
def pickSample (typ : Option Str) (nh : PyM (Option OSample)) (plain : PyM OSample) : PyM (OSample × Bool) :=
  if typ == some tHistogram then
    match nh with
    | .error e => .error e
    | .ok (some s) => .ok (s, true)
    | .ok none => plain.map (·, false)
  else plain.map (·, false)

/-- the body of `for line in fd:` on a tokenised line -/
def stepLine (P : Params) (st : St) (l : Line) : PyM St :=
  if st.eof then .error .valueError
  else match l with
    | .blank => .error .valueError
    | .eof => .ok { st with eof := true }
    | .bad e => .error e
    | .metadata kind cand rest => stepMeta P st kind cand rest
    | .sample nh plain =>
      match pickSample st.hdr.typ nh plain with
      | .error e => .error e
      | .ok (s, isNh) => stepSample P st s isNh

def run (P : Params) : St → List Line → PyM St
  | st, [] => .ok st
  | st, l :: ls =>
    match stepLine P st l with
    | .ok st' => run P st' ls
    | .error e => .error e

/-- what follows the loop: the last family, then the EOF test -/
def finish (P : Params) (st : St) : PyM (List OFamily) :=
  match flush P st.glob st.hdr st.grp.samples with
  | .error e => .error e
  | .ok g => if !st.eof then .error .valueError else .ok g.out

/-- the family state machine on tokenised lines -/
def assemble (P : Params) (ls : List Line) : PyM (List OFamily) :=
  match run P {} ls with
  | .ok st => finish P st
  | .error e => .error e

/-- `list(text_string_to_metric_families(text))` -/
def omParse (P : Params) (text : Str) : PyM (List OFamily) :=
  assemble P ((docLines text).map (parseLine P))

/-- the loop as the Python text has it: each line is tokenised when the loop reaches it -/
def runMono (P : Params) : St → List Str → PyM St
  | st, [] => .ok st
  | st, l :: ls =>
    match stepLine P st (parseLine P l) with
    | .ok st' => runMono P st' ls
    | .error e => .error e

def omParseMono (P : Params) (text : Str) : PyM (List OFamily) :=
  match runMono P {} (docLines text) with
  | .ok st => finish P st
  | .error e => .error e

theorem runMono_eq (P : Params) (st : St) (ls : List Str) : runMono P st ls = run P st (ls.map (parseLine P)) := by
  induction ls generalizing st with
  | nil => rfl
  | cons l ls ih =>
    simp only [runMono, List.map_cons, run]
    cases stepLine P st (parseLine P l) with
    | error e => rfl
    | ok st' => exact ih st'

/-- the factorisation `assemble ∘ map parseLine ∘ docLines` equals the monolithic fold -/
theorem omParse_eq_mono (P : Params) (text : Str) : omParse P text = omParseMono P text := by
  simp only [omParse, omParseMono, assemble, runMono_eq]

end PromVerif.Model.OMParse
