/-
Model of prometheus_client/bridge/graphite.py: `_sanitize` and the line construction of `GraphiteBridge.push`.
The character class, the replacement, the separators and the line f-string are re-extracted from the source
(`Generated.Graphite`).
-/
import PromVerif.Py.Str
import PromVerif.Py.Err
import PromVerif.Model.Sample
import PromVerif.Model.Validation
import PromVerif.Generated.Graphite

namespace PromVerif.Model.Graphite
open PromVerif.Py PromVerif.Model
open PromVerif.Generated.Graphite
open PromVerif.Model.Validation (inClass)

/-- `_sanitize(s)` = `_INVALID_GRAPHITE_CHARS.sub('_', s)`: the class is negated, so every character outside
`allowedClass` is replaced -/
def sanitize (s : Str) : Str :=
  s.flatMap (fun c => if inClass allowedClass c then [c] else replacement)

/-- `fmt.format(_sanitize(k), _sanitize(v))` -/
def labelItem (tags : Bool) (kv : Str × Str) : Str :=
  (if sanitizesLabelName then sanitize kv.1 else kv.1) ++ (if tags then tagsMid else plainMid) ++
    (if sanitizesLabelValue then sanitize kv.2 else kv.2)

/-- `sep + sep.join([... for k, v in sorted(s.labels.items())])` -/
def labelStr (tags : Bool) (labels : List (Str × Str)) : Str :=
  let sep := if tags then tagsSep else plainSep
  sep ++ joinStr sep ((sortByKey labels).map (labelItem tags))

/-- the value of one interpolated expression of the line f-string (unknown expressions are an extraction failure) -/
def evalExpr (prefixstr name labelstr value now : Str) (e : Str) : Str :=
  if e = "prefixstr".toList then prefixstr
  else if e = "_sanitize(s.name)".toList then name
  else if e = "labelstr".toList then labelstr
  else if e = "float(s.value)".toList then value
  else if e = "now".toList then now
  else []

/-- one `output.append(f'…')`; `s.value` carries `repr(float(value))`, which is what the f-string prints -/
def line (tags : Bool) (prefixstr : Str) (now : Int) (s : Sample) : Str :=
  let labelstr := if s.labels.isEmpty then [] else labelStr tags s.labels
  lineFormat.flatMap (fun p =>
    if p.1 then p.2 else evalExpr prefixstr (sanitize s.name) labelstr s.value (intStr now) p.2)

def lines (tags : Bool) (pfx : Str) (now : Int) (fams : List Family) : List Str :=
  let prefixstr := if pfx.isEmpty then [] else pfx ++ prefixSep
  fams.flatMap (fun f => f.samples.map (line tags prefixstr now))

/-- the bytes `push(prefix)` sends; `.encode('ascii')` raises UnicodeEncodeError on any non-ASCII character -/
def push (tags : Bool) (pfx : Str) (now : Int) (fams : List Family) : PyM Str :=
  let out := (lines tags pfx now fams).flatten
  if out.all (fun c => decide (c.toNat < 128)) then .ok out else .error .unicodeError

end PromVerif.Model.Graphite
