/-
Model of the scanning core of prometheus_client/parser.py, shared by both parsers:
`_is_character_escaped`, `_next_unquoted_char`, `_last_unquoted_char`, `_split_quoted`, `_unquote_unescape`,
`_replace_escaping`, `_replace_help_escaping`, `_next_term`, `parse_labels`, `_parse_value`.

Index-based `while` loops are written as structural recursions carrying the scanner state (index, in-quotes
flag, parity of the backslash run that precedes the current character); the harness compares every function
with the real one at function level.  Every raising site is explicit (`PyM`); `IndexError` sites included.
-/
import PromVerif.Py.Str
import PromVerif.Py.Err
import PromVerif.Model.Validation
import PromVerif.Generated.ParseCore

namespace PromVerif.Model.ParseCore
open PromVerif.Py PromVerif.Model.Validation

/-- `_is_character_escaped(s, charpos)`: is the run of backslashes ending just before `charpos` odd? -/
def isCharacterEscaped (s : Str) (charpos : Nat) : Bool :=
  ((s.take charpos).reverse.takeWhile (· == '\\')).length % 2 == 1

/-- parity update of the backslash run when passing over `c` -/
@[inline] def bsStep (odd : Bool) (c : Char) : Bool := if c == '\\' then !odd else false

/-- `_next_unquoted_char(text, chs, startidx)`; `none` is `-1`.  `odd` = the run of backslashes just before the
current character has odd length (the whole text counts, also before `startidx`). -/
def nextUnquotedAux (chs : Char → Bool) (start : Nat) : Str → Nat → Bool → Bool → Option Nat
  | [], _, _, _ => none
  | c :: cs, i, inQ, odd =>
    if i < start then nextUnquotedAux chs start cs (i + 1) inQ (bsStep odd c)
    else
      let inQ' := if c == '"' && !odd then !inQ else inQ
      if !inQ' && chs c then some i
      else nextUnquotedAux chs start cs (i + 1) inQ' (bsStep odd c)

def nextUnquotedChar (text : Str) (chs : Char → Bool) (start : Nat := 0) : Option Nat :=
  nextUnquotedAux chs start text 0 false false

/-- characters with their index and "is escaped" flag, left to right -/
def escFlags : Str → Nat → Bool → List (Nat × Char × Bool)
  | [], _, _ => []
  | c :: cs, i, odd => (i, c, odd) :: escFlags cs (i + 1) (bsStep odd c)

/-- `_last_unquoted_char(text, chs)`: scans from the end down to index 1 (index 0 is never examined) -/
def lastUnquotedChar (text : Str) (chs : Char → Bool) : Option Nat :=
  let rec go : List (Nat × Char × Bool) → Bool → Option Nat
    | [], _ => none
    | (i, c, esc) :: rest, inQ =>
      if i == 0 then none
      else
        let inQ' := if c == '"' && !esc then !inQ else inQ
        if !inQ' && chs c then some i else go rest inQ'
  go (escFlags text 0 false).reverse false

/-- `_split_quoted(text, separator, maxsplit)`; `fuel` ≥ len(text) + 1 always suffices (x strictly increases) -/
def splitQuotedAux (text : Str) (sep : Char → Bool) (maxsplit : Nat) : Nat → Nat → List Str → List Str
  | 0, _, done => done            -- unreachable with enough fuel
  | fuel + 1, x, done =>
    -- `done` holds the finished tokens; the open last token is implicit
    if x < text.length then
      match nextUnquotedChar text sep x with
      | none => done ++ [text.drop x]
      | some p =>
        if maxsplit > 0 && done.length + 1 > maxsplit then done ++ [text.drop x]
        else splitQuotedAux text sep maxsplit fuel (p + 1) (done ++ [(text.drop x).take (p - x)])
    else done ++ [[]]

def splitQuoted (text : Str) (sep : Char → Bool) (maxsplit : Nat := 0) : List Str :=
  splitQuotedAux text sep maxsplit (text.length + 1) 0 []

/-- `re.sub(r'\\[\\n"]', …)` with the given set of escapable characters: leftmost, non-overlapping -/
def replaceEscapingWith (tbl : List (Char × Char)) : Str → Str
  | [] => []
  | '\\' :: c :: rest =>
    match tbl.find? (fun p => p.1 == c) with
    | some p => p.2 :: replaceEscapingWith tbl rest
    | none => '\\' :: replaceEscapingWith tbl (c :: rest)
  | c :: rest => c :: replaceEscapingWith tbl rest

/-- `_replace_escaping` (ESCAPING_RE) -/
def replaceEscaping : Str → Str := replaceEscapingWith [('\\', '\\'), ('n', '\n'), ('"', '"')]

/-- `_replace_help_escaping` (HELP_ESCAPING_RE) -/
def replaceHelpEscaping : Str → Str := replaceEscapingWith [('\\', '\\'), ('n', '\n')]

/-- `_unquote_unescape(text)` → (text, quoted).  The text is stripped first and an empty result is returned as it is
(before commit e804336 the emptiness test came before the strip and `text[0]` raised IndexError on an all-whitespace
argument). -/
def unquoteUnescape (text : Str) : PyM (Str × Bool) :=
  let t := strip text
  if t.isEmpty then
    -- repaired order (T1 flag): stripped-empty text is returned; with the old order only a literally empty argument
    -- was, and an all-whitespace one reached `text[0]`
    (if Generated.ParseCore.unquoteStripsFirst || text.isEmpty then .ok (t, false) else .error .indexError)
  else
    match t with
    | [] => .ok (t, false)
    | '"' :: _ =>
      if t.length == 1 || t.getLast? != some '"' then .error .valueError
      else
        let inner := (t.drop 1).dropLast
        .ok (if inner.contains '\\' then replaceEscaping inner else inner, true)
    | _ => .ok (if t.contains '\\' then replaceEscaping t else t, false)

/-- `_next_term(text, openmetrics)`; `text` is non-empty at every call site (else `text[0]` is an IndexError) -/
def nextTerm (text : Str) (openmetrics : Bool) : PyM (Str × Str) :=
  match text with
  | [] => .error .indexError
  | c :: rest =>
    let t? : PyM (Option Str) :=
      if c == ',' then
        match rest with
        | [] => .ok none
        | ',' :: _ => .error .valueError
        | _ => .ok (some rest)
      else .ok (some text)
    match t? with
    | .error e => .error e
    | .ok none => .ok ([], [])
    | .ok (some t) =>
      let splitpos := match nextUnquotedChar t (fun ch => ch == ',' || ch == '}') with
        | some p => p
        | none => t.length
      let term := t.take splitpos
      if term.isEmpty && openmetrics then .error .valueError
      else .ok (strip term, strip (t.drop splitpos))

/-- `term.index('"', i)` loop of `parse_labels`: position of the first quote at or after `i` that is not escaped
within `term[:pos]`; `none` = `str.index` raised ValueError -/
def findClosingQuote (term : Str) : Nat → Nat → Option Nat
  | 0, _ => none
  | fuel + 1, i =>
    if i < term.length then
      match findChar '"' (term.drop i) with
      | none => none
      | some off =>
        let p := i + off
        if !isCharacterEscaped (term.take p) p then some p
        else findClosingQuote term fuel (p + 1)
    else some i       -- loop condition failed: `i` stays

/-- the body of the `while sub_labels:` loop for one term; returns the new label (if any) and the rest -/
def parseOneLabel (legacy openmetrics : Bool) (subLabels : Str) (labels : List (Str × Str)) :
    PyM (List (Str × Str) × Str) := do
  let (term, rest) ← nextTerm subLabels openmetrics
  if term.isEmpty then
    if openmetrics then throw .valueError else pure (labels, rest)
  else
    let opPos := nextUnquotedChar term (· == '=')
    let (labelName, quotedName, term1) ← (match opPos with
      | none => (pure (("__name__".toList, true, term)) : PyM (Str × Bool × Str))
      | some vs => do
        let (ln, q) ← unquoteUnescape (term.take vs)
        pure (ln, q, term.drop (vs + 1)))
    if !quotedName && !isValidLegacyMetricName labelName then throw .valueError
    let term2 := strip term1
    match term2 with
    | '"' :: _ =>
      -- `i = 1; while i < len(term): i = term.index('"', i); if not escaped: break; i += 1`
      match findClosingQuote term2 (term2.length + 1) 1 with
      | none => throw .valueError
      | some i =>
        let quoteEnd := i + 1
        if quoteEnd != term2.length then throw .valueError
        let (labelValue, _) ← unquoteUnescape (term2.take quoteEnd)
        if labelName == "__name__".toList then validateMetricName legacy labelName
        else validateLabelname legacy labelName
        if labels.any (fun kv => kv.1 == labelName) then throw .valueError
        pure (labels ++ [(labelName, labelValue)], rest)
    | _ => throw .valueError

/-- the `while sub_labels:` loop; every iteration consumes at least one character of a non-empty `sub_labels`
or raises, so `fuel = len + 1` suffices (running out is reported as `timeout`, shown unreachable in C14) -/
def parseLabelsLoop (legacy openmetrics : Bool) : Nat → Str → List (Str × Str) → PyM (List (Str × Str))
  | 0, sub, labels => if sub.isEmpty then .ok labels else .error .timeout
  | fuel + 1, sub, labels =>
    if sub.isEmpty then .ok labels
    else do
      let (labels', rest) ← parseOneLabel legacy openmetrics sub labels
      parseLabelsLoop legacy openmetrics fuel rest labels'

/-- `parse_labels(labels_string, openmetrics)`: `except ValueError: raise ValueError(...)`; other classes escape -/
def parseLabels (legacy : Bool) (labelsString : Str) (openmetrics : Bool := false) : PyM (List (Str × Str)) :=
  let sub := strip labelsString
  if openmetrics && sub.head? == some ',' then .error .valueError
  else parseLabelsLoop legacy openmetrics (sub.length + 1) sub []

/-- a parsed number: Python `int` or `float` (as its bit pattern) -/
inductive Num
  | int (n : Int)
  | flt (bits : Nat)
deriving Repr, DecidableEq

/-- `_parse_value(value)` with `int()` / `float()` as parameters -/
def parseValue (pyInt : Str → Option Int) (pyFloat : Str → Option Nat) (value : Str) : PyM Num :=
  if value != strip value || value.contains '_' then .error .valueError
  else match pyInt value with
    | some n => .ok (.int n)
    | none => match pyFloat value with
      | some b => .ok (.flt b)
      | none => .error .valueError

end PromVerif.Model.ParseCore
