/-
Model of prometheus_client/context_managers.py (Timer, InprogressTracker, ExceptionCounter) and of the
wrapper that the vendored decorator.py (4.0.10) generates for `decorate(f, wrapped)`.

Part (a), protocol.  A *call tree* is what a program does with wrapped callables: a `Call` is a callable
with its stack of wrappers (outermost first) and a scripted body; the body returns or raises
(`out`), calls other wrapped callables in sequence and then returns or raises (`nest`; with
`swallow := true` it swallows what the nested calls raise), or calls the decorated callable itself
`n` levels deep before producing the outcome (`recurse n`).  `exec` follows `__enter__`/`__exit__`
of the three classes statement by statement; every place where the source has a choice the theorems
care about (the clamp, when `dec()` runs, the `isinstance` test, what `__exit__` returns, fresh Timer
per call) is read from `Generated/Wrappers.lean`, i.e. from the current source.

A `Timer` keeps `_start` on the object.  As a decorator `Timer.__call__` enters `self._new_timer()`, a
fresh object per call (mode `decorator`; the flag `timerCallFresh` says whether the source still does
so); `with metric.time():` creates a Timer per block (mode `withNew`); one Timer object entered again
while it is active (`t = metric.time()`, `with t:` nested, or recursion through a closure) shares
`_start` (mode `withShared tid`) and the inner `__enter__` overwrites it.  The property's "nesting" is
about the first two; the third is modelled so that the theorems can say where exactness stops.

Exceptions raised by the bookkeeping itself (`inc()` on a labelled parent, a non-float amount) are out
of scope: metric ids stand for observable metrics (a metric without labels or a labelled child).

Part (b), signature forwarding: `ArgSpec`, `bind` (CPython's argument binding, every error is
`TypeError`), `signatureItems`/`shortItems` as `FunctionMaker.__init__` builds them, `parseItems`
(what `def name(<signature>)` declares), `wrapperSpec`, `forward` (evaluation of
`_call_(_func_, <shortsignature>)` in the wrapper's frame), `decorate` with the reserved-name check
and `FunctionMaker.update`'s metadata copy.
-/
import PromVerif.Py.Err
import PromVerif.Generated.Wrappers

namespace PromVerif.Model.Wrappers
open PromVerif.Py
open PromVerif.Generated.Wrappers

/-! ### exceptions -/

inductive ExcClass
  | baseException | exception | valueError | lookupError | keyError
  | keyboardInterrupt | systemExit | generatorExit
  -- Python 3.11+ exception groups: `isinstance` looks at the group object, never at its leaves
  | baseExceptionGroup | exceptionGroup
  -- `class ValueGroup(ExceptionGroup, ValueError)`: a group that IS an instance of a leaf-like class
  | valueGroup
deriving DecidableEq, Repr

/-- `__mro__` without `object` -/
def ExcClass.mro : ExcClass → List ExcClass
  | .baseException => [.baseException]
  | .exception => [.exception, .baseException]
  | .valueError => [.valueError, .exception, .baseException]
  | .lookupError => [.lookupError, .exception, .baseException]
  | .keyError => [.keyError, .lookupError, .exception, .baseException]
  | .keyboardInterrupt => [.keyboardInterrupt, .baseException]
  | .systemExit => [.systemExit, .baseException]
  | .generatorExit => [.generatorExit, .baseException]
  | .baseExceptionGroup => [.baseExceptionGroup, .baseException]
  | .exceptionGroup => [.exceptionGroup, .baseExceptionGroup, .exception, .baseException]
  | .valueGroup => [.valueGroup, .exceptionGroup, .baseExceptionGroup, .valueError, .exception, .baseException]

def isSubclass (c d : ExcClass) : Bool := c.mro.contains d

abbrev Val := Nat
/-- the object `None` -/
def noneVal : Val := 0

/-- an exception object: identity and class -/
structure Exc where
  id : Nat
  cls : ExcClass
deriving DecidableEq, Repr

/-- `isinstance(e, classes)` with `classes` a class or a tuple of classes -/
def isinstanceOf (e : Exc) (classes : List ExcClass) : Bool := classes.any (isSubclass e.cls)

inductive Outcome
  | ret (v : Val)
  | raise (e : Exc)
deriving DecidableEq, Repr

def Outcome.raised : Outcome → Bool
  | .ret _ => false
  | .raise _ => true

/-! ### wrappers and call trees -/

inductive TimeKind | set | observe
deriving DecidableEq, Repr

inductive TimerMode
  | decorator (tid : Nat)     -- `@metric.time()`: Timer object `tid` decorates the function
  | withNew                   -- `with metric.time():`
  | withShared (tid : Nat)    -- `with t:` on an existing Timer object `tid`
deriving DecidableEq, Repr

inductive Wrapper
  | time (m : Nat) (kind : TimeKind) (mode : TimerMode)
  | inprogress (g : Nat)
  | countExc (c : Nat) (classes : List ExcClass)
deriving DecidableEq, Repr

mutual
  inductive Call
    | mk (ws : List Wrapper) (b : Body)
  inductive Body
    | out (o : Outcome)
    | nest (cs : Calls) (swallow : Bool) (o : Outcome)
    | recurse (n : Nat) (o : Outcome)
  inductive Calls
    | nil
    | cons (c : Call) (cs : Calls)
end

/-! ### state -/

structure Obs where
  metric : Nat
  kind : TimeKind
  dur : Int
deriving DecidableEq, Repr

/-- scripted clock: every `default_timer()` consumes one reading; an exhausted script repeats the last one -/
structure Clock where
  rest : List Int
  last : Int
deriving DecidableEq, Repr

def Clock.tick (c : Clock) : Int × Clock :=
  match c.rest with
  | [] => (c.last, c)
  | r :: rs => (r, ⟨rs, r⟩)

def upd {α : Type} (f : Nat → α) (k : Nat) (v : α) : Nat → α := fun i => if i = k then v else f i

structure St where
  clock : Clock
  /-- callback invocations `metric.observe(d)` / `gauge.set(d)`, newest first -/
  obs : List Obs
  gauge : Nat → Int
  counter : Nat → Nat
  /-- `_start` of Timer objects that are entered more than once -/
  tstart : Nat → Int

/-! ### `__enter__` / `__exit__` -/

def whenHolds (w : When) (raised : Bool) : Bool :=
  match w with
  | .always => true
  | .ifNoExc => !raised
  | .ifExc => raised
  | .never => false

/-- `duration = max(default_timer() - self._start, 0)` as the source spells it now -/
def duration (now start : Int) : Int :=
  let diff := if timerNowMinusStart then now - start else start - now
  match timerClampFn with
  | .max => max diff timerClampLit
  | .min => min diff timerClampLit
  | .none => diff

/-- `getattr(self._metric, self._callback_name)(duration)` -/
def callback (s : St) (m : Nat) (k : TimeKind) (d : Int) : St :=
  match k with
  | .observe => { s with obs := ⟨m, k, d⟩ :: s.obs }
  | .set => { s with obs := ⟨m, k, d⟩ :: s.obs, gauge := upd s.gauge m d }

/-- does `Timer.__call__` / the `with` statement use a Timer object nobody else holds? -/
def TimerMode.fresh : TimerMode → Bool
  | .decorator _ => timerCallFresh && newTimerIsNew   -- `with self._new_timer():` and `_new_timer` builds a new Timer
  | .withNew => true
  | .withShared _ => false

def TimerMode.tid : TimerMode → Nat
  | .decorator t => t
  | .withNew => 0
  | .withShared t => t

/-- the `with` statement: a truthy `__exit__` result swallows the exception; the wrapped function then falls
off its end and returns `None` -/
def suppress (truthy : Bool) (o : Outcome) : Outcome :=
  if truthy && o.raised then .ret noneVal else o

/-- the test guarding `self._counter.inc()` in `ExceptionCounter.__exit__(typ, value, traceback)` -/
def counts (classes : List ExcClass) (o : Outcome) : Bool :=
  match excTest with
  | .isinstanceValue => (match o with | .raise e => isinstanceOf e classes | .ret _ => false)
  | .anyExc => o.raised
  | .always => true
  | .never => false

/-- `Timer.__enter__`: `self._start = default_timer()` — on a Timer object nobody else holds the start time is
as good as a local; on a shared object it is an attribute that a nested `__enter__` overwrites -/
def timerEnter (mode : TimerMode) (s : St) : St :=
  if mode.fresh then { s with clock := s.clock.tick.2 }
  else { s with clock := s.clock.tick.2, tstart := upd s.tstart mode.tid s.clock.tick.1 }

/-- `self._start` as `__exit__` reads it; `s0` is the state in which `__enter__` ran -/
def timerStart (mode : TimerMode) (s0 s2 : St) : Int :=
  if mode.fresh then s0.clock.tick.1 else s2.tstart mode.tid

/-- `Timer.__exit__`: `duration = max(default_timer() - self._start, 0)`; `callback(duration)` -/
def timerExit (m : Nat) (k : TimeKind) (mode : TimerMode) (s0 : St) (r : Outcome × St) : Outcome × St :=
  let s3 : St := { r.2 with clock := r.2.clock.tick.2 }
  let d := duration r.2.clock.tick.1 (timerStart mode s0 r.2)
  (suppress timerExitSuppresses r.1, if whenHolds timerCallbackWhen r.1.raised then callback s3 m k d else s3)

/-- `InprogressTracker.__enter__`: `self._gauge.inc()` -/
def inprogressEnter (g : Nat) (s : St) : St :=
  if whenHolds inprogressIncWhen false then { s with gauge := upd s.gauge g (s.gauge g + 1) } else s

/-- `InprogressTracker.__exit__`: `self._gauge.dec()` -/
def inprogressExit (g : Nat) (r : Outcome × St) : Outcome × St :=
  (suppress inprogressExitSuppresses r.1,
   if whenHolds inprogressDecWhen r.1.raised then { r.2 with gauge := upd r.2.gauge g (r.2.gauge g - 1) } else r.2)

/-- `ExceptionCounter.__exit__`: `if isinstance(value, self._exception): self._counter.inc()`; `return False` -/
def excExit (c : Nat) (classes : List ExcClass) (r : Outcome × St) : Outcome × St :=
  (suppress (if counts classes r.1 then excSuppressWhenCounted else excSuppressOtherwise) r.1,
   if counts classes r.1 then { r.2 with counter := upd r.2.counter c (r.2.counter c + 1) } else r.2)

/-- `with <wrapper>: <body>` — body given as a state transformer -/
def wrapOne (w : Wrapper) (body : St → Outcome × St) (s : St) : Outcome × St :=
  match w with
  | .time m k mode => timerExit m k mode s (body (timerEnter mode s))
  | .inprogress g => inprogressExit g (body (inprogressEnter g s))
  | .countExc c classes => excExit c classes (body s)

/-- the stack of wrappers around one callable, outermost first -/
def wrapAll : List Wrapper → (St → Outcome × St) → St → Outcome × St
  | [], body => body
  | w :: ws, body => wrapOne w (wrapAll ws body)

/-- does the body of a `nest` go on after a nested call with this outcome? -/
def continues (o : Outcome) (swallow : Bool) : Bool :=
  match o with
  | .ret _ => true
  | .raise _ => swallow

/-- `n` further levels of the decorated callable calling itself, then the outcome -/
def recN (ws : List Wrapper) (o : Outcome) : Nat → St → Outcome × St
  | 0 => fun s => (o, s)
  | n + 1 => wrapAll ws (recN ws o n)

mutual
  def execCall : Call → St → Outcome × St
    | .mk ws b => wrapAll ws (execBody ws b)
  def execBody (ws : List Wrapper) : Body → St → Outcome × St
    | .out o => fun s => (o, s)
    | .nest cs swallow o => execSeq cs swallow o
    | .recurse n o => recN ws o n
  def execSeq : Calls → Bool → Outcome → St → Outcome × St
    | .nil, _, o => fun s => (o, s)
    | .cons c cs, swallow, o => fun s =>
      let r := execCall c s
      if continues r.1 swallow then execSeq cs swallow o r.2 else r
end

/-- `exec : Call → Clock → Metrics → Outcome × Metrics × Clock` (clock and metrics travel together in `St`) -/
abbrev exec := execCall

/-! the undecorated program -/
mutual
  def stripCall : Call → Call
    | .mk _ b => .mk [] (stripBody b)
  def stripBody : Body → Body
    | .out o => .out o
    | .nest cs swallow o => .nest (stripCalls cs) swallow o
    | .recurse n o => .recurse n o
  def stripCalls : Calls → Calls
    | .nil => .nil
    | .cons c cs => .cons (stripCall c) (stripCalls cs)
end

abbrev strip := stripCall

/-! ### part (b): signatures -/

abbrev Name := List Char
abbrev Kw := List (Name × Val)

structure ArgSpec where
  name : Name
  posonly : List Name
  pos : List Name
  /-- `__defaults__`: for the last `defaults.length` of `posonly ++ pos` -/
  defaults : List Val
  varargs : Option Name
  kwonly : List Name
  /-- `__kwdefaults__` -/
  kwdefaults : Kw
  varkw : Option Name
  /-- `__annotations__` (values are objects, e.g. strings) -/
  annotations : Kw
  doc : Option Val
  qualname : Name
  module : Name
  /-- `__dict__` -/
  dict : Kw
  /-- `__wrapped__`: identity of the function this one wraps -/
  wrapped : Option Nat
  /-- identity of this function object -/
  fid : Nat
deriving DecidableEq, Repr

structure CallArgs where
  pos : List Val
  kw : Kw
deriving DecidableEq, Repr

/-- what a call binds: named parameters in declaration order, the `*args` tuple, the `**kw` dict -/
structure Env where
  args : Kw
  varargs : List Val
  kw : Kw
deriving DecidableEq, Repr

def lookup (kw : Kw) (n : Name) : Option Val :=
  match kw with
  | [] => none
  | (k, v) :: r => if k = n then some v else lookup r n

def hasKey (kw : Kw) (n : Name) : Bool := (lookup kw n).isSome

structure Param where
  name : Name
  /-- may be passed by keyword -/
  kwable : Bool
  dflt : Option Val
deriving DecidableEq, Repr

/-- per positional parameter its default: the last `|defaults|` have one -/
def defaultsFor (n : Nat) (defaults : List Val) : List (Option Val) :=
  List.replicate (n - defaults.length) none ++ defaults.map some

def flags (s : ArgSpec) : List (Name × Bool) :=
  s.posonly.map (fun n => (n, false)) ++ s.pos.map (fun n => (n, true))

def params (s : ArgSpec) : List Param :=
  List.zipWith (fun nk d => ⟨nk.1, nk.2, d⟩) (flags s) (defaultsFor (s.posonly.length + s.pos.length) s.defaults)

/-- positional parameters against positional arguments, then keywords, then defaults -/
def bindPos (kw : Kw) : List Param → List Val → Except PyErr Kw
  | [], _ => .ok []
  | p :: ps, v :: vs =>
    -- "got multiple values for argument"
    if p.kwable && hasKey kw p.name then .error .typeError
    else match bindPos kw ps vs with
      | .ok r => .ok ((p.name, v) :: r)
      | .error e => .error e
  | p :: ps, [] =>
    match (if p.kwable then lookup kw p.name else none) with
    | some v =>
      match bindPos kw ps [] with
      | .ok r => .ok ((p.name, v) :: r)
      | .error e => .error e
    | none =>
      match p.dflt with
      | some d =>
        match bindPos kw ps [] with
        | .ok r => .ok ((p.name, d) :: r)
        | .error e => .error e
      -- "missing required positional argument"
      | none => .error .typeError

def bindKwonly (kw kwdefaults : Kw) : List Name → Except PyErr Kw
  | [] => .ok []
  | k :: ks =>
    match (lookup kw k).or (lookup kwdefaults k) with
    | some v =>
      match bindKwonly kw kwdefaults ks with
      | .ok r => .ok ((k, v) :: r)
      | .error e => .error e
    -- "missing required keyword-only argument"
    | none => .error .typeError

/-- keywords that name no positional-or-keyword and no keyword-only parameter; they go to `**kw`.  A keyword
naming a positional-only parameter is among them (PEP 570). -/
def leftover (s : ArgSpec) (kw : Kw) : Kw :=
  kw.filter (fun kv => !(s.pos.contains kv.1 || s.kwonly.contains kv.1))

/-- CPython's argument binding; every failure is `TypeError` -/
def bind (s : ArgSpec) (ca : CallArgs) : Except PyErr Env :=
  let extra := ca.pos.drop (params s).length
  -- "takes n positional arguments but m were given"
  if s.varargs.isNone && !extra.isEmpty then .error .typeError
  -- "got an unexpected keyword argument" / "got some positional-only arguments passed as keyword arguments"
  else if s.varkw.isNone && !(leftover s ca.kw).isEmpty then .error .typeError
  else match bindPos ca.kw (params s) ca.pos with
    | .error e => .error e
    | .ok a =>
      match bindKwonly ca.kw s.kwdefaults s.kwonly with
      | .error e => .error e
      | .ok b => .ok ⟨a ++ b, extra, leftover s ca.kw⟩

/-- items of `FunctionMaker.signature` -/
inductive SigItem
  | plain (n : Name)     -- `a`
  | star (n : Name)      -- `*args`
  | bareStar             -- `*`
  | kwNone (n : Name)    -- `k=None`   (template `kwonlySigFmt`)
  | dstar (n : Name)     -- `**kw`
deriving DecidableEq, Repr

/-- items of `FunctionMaker.shortsignature` -/
inductive ShortItem
  | plain (n : Name)     -- `a`
  | star (n : Name)      -- `*args`
  | kwEq (n : Name)      -- `k=k`      (template `kwonlyShortFmt`)
  | dstar (n : Name)     -- `**kw`
deriving DecidableEq, Repr

/-- `getfullargspec(func).args`: positional-only and positional-or-keyword names, undistinguished -/
def fullArgs (s : ArgSpec) : List Name := s.posonly ++ s.pos

/-- `allargs` of `FunctionMaker.__init__` (Python-3 branch) -/
def signatureItems (s : ArgSpec) : List SigItem :=
  (fullArgs s).map .plain
    ++ (match s.varargs with
        | some v => [.star v]
        | none => if s.kwonly.isEmpty then [] else [.bareStar])
    ++ s.kwonly.map .kwNone
    ++ (match s.varkw with | some k => [.dstar k] | none => [])

/-- `allshortargs` -/
def shortItems (s : ArgSpec) : List ShortItem :=
  (fullArgs s).map .plain
    ++ (match s.varargs with | some v => [.star v] | none => [])
    ++ s.kwonly.map .kwEq
    ++ (match s.varkw with | some k => [.dstar k] | none => [])

structure Parsed where
  pos : List Name
  varargs : Option Name
  kwonly : List Name
  varkw : Option Name
deriving DecidableEq, Repr

/-- what the compiler makes of `def name(<items>)`: no `/` is ever emitted, names before the star are
positional-or-keyword, names after it keyword-only -/
def parseItems : List SigItem → Bool → Parsed
  | [], _ => ⟨[], none, [], none⟩
  | .plain n :: r, false => let p := parseItems r false; { p with pos := n :: p.pos }
  | .plain n :: r, true => let p := parseItems r true; { p with kwonly := n :: p.kwonly }
  | .kwNone n :: r, false => let p := parseItems r false; { p with pos := n :: p.pos }
  | .kwNone n :: r, true => let p := parseItems r true; { p with kwonly := n :: p.kwonly }
  | .star v :: r, _ => let p := parseItems r true; { p with varargs := some v }
  | .bareStar :: r, _ => parseItems r true
  | .dstar k :: r, a => let p := parseItems r a; { p with varkw := some k }

/-- `self.name`: lambdas are renamed -/
def makerName (s : ArgSpec) : Name := if s.name = lambdaName then lambdaRename else s.name

/-- the function object `FunctionMaker.make` returns for `decorate(func, caller)`: compiled from the generated
source, then `update` overwrites `__name__`, `__doc__`, `__dict__`, `__defaults__`, `__kwdefaults__`,
`__annotations__`, `__module__`, and `decorate` copies `__qualname__`; `__wrapped__ = func` -/
def wrapperSpec (s : ArgSpec) (wid : Nat := 0) : ArgSpec :=
  let p := parseItems (signatureItems s) false
  { name := makerName s, posonly := [], pos := p.pos, defaults := s.defaults, varargs := p.varargs,
    kwonly := p.kwonly, kwdefaults := s.kwdefaults, varkw := p.varkw, annotations := s.annotations,
    doc := s.doc, qualname := s.qualname, module := s.module, dict := s.dict, wrapped := some s.fid, fid := wid }

inductive DecoErr | nameError | attributeError | typeError
deriving DecidableEq, Repr

/-- names `make()` refuses: the function name and every entry of `shortsignature.split(',')` stripped of
blanks and stars — a keyword-only entry is `k=k` and never equal to a reserved name -/
def checkedNames (s : ArgSpec) : List Name :=
  makerName s :: (shortItems s).filterMap (fun i =>
    match i with
    | .plain n => some n
    | .star n => some n
    | .dstar n => some n
    | .kwEq _ => none)

def decorate (s : ArgSpec) (wid : Nat := 0) : Except DecoErr ArgSpec :=
  if (checkedNames s).any (fun n => reservedNames.contains n) then .error .nameError
  else .ok (wrapperSpec s wid)

/-- what `time()(x)`, `count_exceptions()(x)`, `track_inprogress()(x)` can be handed.  **Domain of the model**: an
`ArgSpec` describes a Python *function* (`def` or `lambda`, also when it is later bound as method / classmethod /
staticmethod by its class).  Every other callable is refused by `FunctionMaker.__init__` before anything is wrapped,
so no theorem about wrappers speaks about it. -/
inductive CallableKind
  | function            -- def / lambda
  | callableInstance    -- object with __call__
  | partialObject       -- functools.partial
  | builtin             -- e.g. len
  | boundMethod         -- obj.method
  | cls                 -- a class
  | staticmethodObject  -- staticmethod(f) / classmethod(f) taken from the class dict
deriving DecidableEq, Repr

/-- has a `__name__` attribute (CPython 3.10+: staticmethod objects copy it) -/
def CallableKind.hasName : CallableKind → Bool
  | .callableInstance => false
  | .partialObject => false
  | _ => true

/-- `decorate(x, caller)` for any callable: `FunctionMaker.__init__` reads `x.__name__` (AttributeError), builds a
signature only `if inspect.isfunction(x)` and raises `TypeError('You are decorating a non function')` without one -/
def decorateCallable (k : CallableKind) (s : ArgSpec) (wid : Nat := 0) : Except DecoErr ArgSpec :=
  if k = .function then decorate s wid
  else if makerReadsDunderName && !k.hasName then .error .attributeError
  else if makerRefusesNonFunctions then .error .typeError
  else decorate s wid

/-- the callback `Timer` is given by `Gauge.time()`, `Summary.time()`, `Histogram.time()` -/
def kindOfCallback (name : List Char) : Option TimeKind :=
  if name = "set".toList then some .set else if name = "observe".toList then some .observe else none

def classOfName (name : List Char) : Option ExcClass :=
  if name = "BaseException".toList then some .baseException else if name = "Exception".toList then some .exception
  else if name = "ValueError".toList then some .valueError else if name = "LookupError".toList then some .lookupError
  else if name = "KeyError".toList then some .keyError else if name = "KeyboardInterrupt".toList then some .keyboardInterrupt
  else if name = "SystemExit".toList then some .systemExit else if name = "GeneratorExit".toList then some .generatorExit
  else if name = "BaseExceptionGroup".toList then some .baseExceptionGroup
  else if name = "ExceptionGroup".toList then some .exceptionGroup
  else none

/-- `counter.count_exceptions()` without argument -/
def defaultClasses : List ExcClass := (classOfName countExcDefault).toList

/-- a keyword-only parameter called `_call_` or `_func_` passes `make()`'s check and then hides the global the
generated body needs -/
def shadows (s : ArgSpec) : Bool := s.kwonly.any (fun n => reservedNames.contains n)

def look (kw : Kw) (n : Name) : Val := (lookup kw n).getD noneVal

/-- evaluation of the argument list `<shortsignature>` in the wrapper's frame -/
def evalShort (env : Env) : List ShortItem → CallArgs
  | [] => ⟨[], []⟩
  | .plain n :: r => let c := evalShort env r; ⟨look env.args n :: c.pos, c.kw⟩
  | .star _ :: r => let c := evalShort env r; ⟨env.varargs ++ c.pos, c.kw⟩
  | .kwEq n :: r => let c := evalShort env r; ⟨c.pos, (n, look env.args n) :: c.kw⟩
  | .dstar _ :: r => let c := evalShort env r; ⟨c.pos, env.kw ++ c.kw⟩

/-- the arguments `_func_` receives from the generated wrapper -/
def forward (s : ArgSpec) (env : Env) : CallArgs := evalShort env (shortItems s)

/-- `_call_` is `wrapped(func, /, *args, **kwargs)` of context_managers.py: were `func` not positional-only there
(it was not before /repo 85bde09), a forwarded keyword called `func` would collide with it ("got multiple values
for argument 'func'"); whether it is, is read from the source -/
def callerClash (fa : CallArgs) : Bool := !callerFuncPosOnly && hasKey fa.kw callerFuncParam

/-- a call of the generated wrapper: bind by the copied signature; `_call_(_func_, …)` — hidden by a parameter
of that name the callee is an argument value, modelled as not callable — binds the caller's own
`(func, *args, **kwargs)` and forwards to the original, which binds again -/
def callThrough (s : ArgSpec) (ca : CallArgs) : Except PyErr Env :=
  match bind (wrapperSpec s) ca with
  | .error e => .error e
  | .ok env =>
    if shadows s then .error .typeError
    else if callerClash (forward s env) then .error .typeError
    else bind s (forward s env)

/-! ### rendering of the generated source (compared with `__source__` of the real wrapper) -/

def joinWith (sep : List Char) : List (List Char) → List Char
  | [] => []
  | [x] => x
  | x :: y :: r => x ++ sep ++ joinWith sep (y :: r)

/-- `fmt % (a, a, …)` for a template whose only directives are `%s` -/
def fmtS (fmt : List Char) (a : List Char) : List Char :=
  match fmt with
  | '%' :: 's' :: r => a ++ fmtS r a
  | c :: r => c :: fmtS r a
  | [] => []

def SigItem.render : SigItem → List Char
  | .plain n => n
  | .star n => '*' :: n
  | .bareStar => ['*']
  | .kwNone n => fmtS kwonlySigFmt n
  | .dstar n => '*' :: '*' :: n

def ShortItem.render : ShortItem → List Char
  | .plain n => n
  | .star n => '*' :: n
  | .kwEq n => fmtS kwonlyShortFmt n
  | .dstar n => '*' :: '*' :: n

def signatureStr (s : ArgSpec) : List Char := joinWith sigJoin ((signatureItems s).map SigItem.render)
def shortSignatureStr (s : ArgSpec) : List Char := joinWith sigJoin ((shortItems s).map ShortItem.render)

/-- `tmpl % {'name': …, 'signature': …, 'shortsignature': …}` (fuel = template length) -/
def fmtNamedAux (name sig short : List Char) : Nat → List Char → List Char
  | 0, _ => []
  | _, [] => []
  | fuel + 1, '%' :: '(' :: r =>
    let key := r.takeWhile (· ≠ ')')
    let rest := (r.dropWhile (· ≠ ')')).drop 2
    let v := if key = "name".toList then name else if key = "signature".toList then sig
             else if key = "shortsignature".toList then short else []
    v ++ fmtNamedAux name sig short fuel rest
  | fuel + 1, c :: r => c :: fmtNamedAux name sig short fuel r

def fmtNamed (name sig short tmpl : List Char) : List Char := fmtNamedAux name sig short (tmpl.length + 1) tmpl

/-- `__source__` of the generated wrapper -/
def sourceStr (s : ArgSpec) : List Char :=
  fmtNamed (makerName s) (signatureStr s) (shortSignatureStr s) (defTemplate ++ "    ".toList ++ bodyTemplate) ++ ['\n']

/-! ### part (c): `Timer.labels` — late labelling of a timer on a labelled parent

`with HISTOGRAM.time() as t: …; t.labels('a')`: a Timer object is `(_metric, _callback_name)` (plus `_start`, which
for the Timers of this part — one per `with` block, one per decorated call — is written once by `__enter__` and read
once by `__exit__`, hence kept local as in mode `fresh` of part (a)).  `Timer.labels(*args, **kw)` re-binds `_metric`
of THAT object to `self._metric.labels(*args, **kw)` and returns `None`; `__exit__` calls
`getattr(self._metric, self._callback_name)(duration)` on whatever `_metric` is then: `observe`/`set` start with
`_raise_if_not_observable()`, so on a labelled parent that was never labelled the `with` statement raises `ValueError`
out of `__exit__` — after the body ran: a value the body returned is lost, an exception the body raised is replaced
(it survives only as `__context__`).  `Timer.__call__` enters `self._new_timer()`, a NEW object built from the
decorator-level Timer's `_metric` as it is at call time; the decorated function cannot reach that object (the `with`
has no `as`), but anyone can call `labels()` on the decorator-level Timer: it re-binds all LATER calls.

`MetricWrapperBase.labels` is modelled as far as Timer needs it (which child, which calls raise `ValueError`); label
names and values are numbers (`str()` of the real values is applied by the harness). -/

/-- what `Timer._metric` can refer to -/
inductive MRef
  | plain (m : Nat)                        -- a metric without label names: observable
  | parent (m : Nat) (names : List Nat)    -- a labelled parent: not observable (`names ≠ []`)
  | child (m : Nat) (vals : List Nat)      -- a labelled child: observable
deriving DecidableEq, Repr

/-- `_is_observable()`: `not self._labelnames or (self._labelnames and self._labelvalues)` -/
def MRef.observable : MRef → Bool
  | .plain _ => true
  | .parent _ names => names.isEmpty
  | .child _ _ => true

/-- arguments of a `labels(*args, **kw)` call -/
structure LArgs where
  pos : List Nat
  kw : List (Nat × Nat)
deriving DecidableEq, Repr

def lookN (kw : List (Nat × Nat)) (n : Nat) : Nat :=
  match kw with
  | [] => 0
  | (k, v) :: r => if k = n then v else lookN r n

/-- `metric.labels(*labelvalues, **labelkwargs)`: every refusal is `ValueError` — no label names; already a child
("can not chain calls to .labels()"); both kinds of arguments; wrong names; wrong count -/
def metricLabels : MRef → LArgs → Except PyErr MRef
  | .plain _, _ => .error .valueError
  | .child _ _, _ => .error .valueError
  | .parent m names, a =>
    if names.isEmpty then .error .valueError
    else if !a.pos.isEmpty && !a.kw.isEmpty then .error .valueError
    else if !a.kw.isEmpty then
      -- `sorted(labelkwargs) != sorted(self._labelnames)`; keyword names of one call are distinct
      if a.kw.length = names.length && names.all (fun n => (a.kw.map (·.1)).contains n)
      then .ok (.child m (names.map (lookN a.kw))) else .error .valueError
    else if a.pos.length = names.length then .ok (.child m a.pos) else .error .valueError

structure TimerObj where
  metric : MRef
  cb : TimeKind
deriving DecidableEq, Repr

structure LObs where
  ref : MRef
  kind : TimeKind
  dur : Int
deriving DecidableEq, Repr

structure LSt where
  clock : Clock
  /-- callback invocations that went through, newest first -/
  obs : List LObs
  /-- the heap of Timer objects -/
  timers : Nat → TimerObj
  /-- next unused Timer object id -/
  next : Nat
  /-- what each block / decorated call handed its caller, newest first -/
  log : List Outcome

/-- an exception object the library creates (scripted exceptions have ids ≥ 1) -/
def libValueError : Exc := ⟨0, .valueError⟩

/-- `Timer.labels(self, *args, **kw)`: `self._metric = self._metric.labels(*args, **kw)` as the source spells it now
(which arguments are forwarded, whether the result is stored on `self`, what is returned) -/
def timerLabels (tid : Nat) (a : LArgs) (s : LSt) : Outcome × LSt :=
  let fwd : LArgs := ⟨if timerLabelsForwardsArgs then a.pos else [], if timerLabelsForwardsKw then a.kw else []⟩
  match metricLabels (s.timers tid).metric fwd with
  | .error _ => (.raise libValueError, s)
  | .ok c =>
    (.ret noneVal,
     if timerLabelsRebindsSelf then { s with timers := upd s.timers tid { s.timers tid with metric := c } } else s)

/-- `Timer.__exit__` of a Timer nobody else enters: `callback = getattr(self._metric, self._callback_name)`;
`callback(duration)` — raising `ValueError` when `_metric` is not observable -/
def labelledExit (tid : Nat) (start : Int) (rb : Outcome × LSt) : Outcome × LSt :=
  let s3 : LSt := { rb.2 with clock := rb.2.clock.tick.2 }
  let d := duration rb.2.clock.tick.1 start
  let t := rb.2.timers tid
  if whenHolds timerCallbackWhen rb.1.raised then
    if t.metric.observable then (suppress timerExitSuppresses rb.1, { s3 with obs := ⟨t.metric, t.cb, d⟩ :: s3.obs })
    else (.raise libValueError, s3)
  else (suppress timerExitSuppresses rb.1, s3)

/-- `with r.time() as t: body(t)`: `Timer(r, cb)` is a new object, `__enter__` returns it -/
def withTime (r : MRef) (k : TimeKind) (body : Nat → LSt → Outcome × LSt) (s : LSt) : Outcome × LSt :=
  let s1 : LSt := { s with next := s.next + 1, timers := upd s.timers s.next ⟨r, k⟩, clock := s.clock.tick.2 }
  labelledExit s.next s.clock.tick.1 (body s.next s1)

/-- a call of a function decorated with Timer object `d`: `with self._new_timer(): return func(…)` -/
def callDeco (d : Nat) (body : LSt → Outcome × LSt) (s : LSt) : Outcome × LSt :=
  if timerCallFresh && newTimerIsNew then
    let s1 : LSt := { s with next := s.next + 1, timers := upd s.timers s.next (s.timers d), clock := s.clock.tick.2 }
    labelledExit s.next s.clock.tick.1 (body s1)
  else labelledExit d s.clock.tick.1 (body { s with clock := s.clock.tick.2 })

inductive LHead
  | withTime (r : MRef) (k : TimeKind)    -- `with r.time() as t:`
  | callDeco (d : Nat)                    -- `f()` with `f` decorated by Timer object `d`
deriving DecidableEq, Repr

mutual
  inductive LStmt
    /-- `t.labels(…)` on the Timer bound by the `up`-th enclosing `with … as t` (0 = innermost) -/
    | labels (up : Nat) (a : LArgs)
    /-- `T.labels(…)` on the decorator-level Timer object `d` -/
    | labelsDeco (d : Nat) (a : LArgs)
    /-- a timed block / decorated call whose body runs `body` and then returns or raises `o`;
    `swallow`: wrapped in `try: … except BaseException: pass` -/
    | block (hd : LHead) (body : LProg) (o : Outcome) (swallow : Bool)
  inductive LProg
    | nil
    | cons (s : LStmt) (p : LProg)
end

mutual
  /-- `env`: Timer objects bound by the enclosing `with … as t` blocks, innermost first -/
  def execStmt (env : List Nat) : LStmt → LSt → Outcome × LSt
    | .labels up a, s =>
      match env[up]? with
      | some tid => timerLabels tid a s
      | none => (.raise ⟨0, .exception⟩, s)     -- NameError: not generated
    | .labelsDeco d a, s => timerLabels d a s
    | .block hd body o sw, s =>
      let r := match hd with
        | .withTime r k => withTime r k (fun tid => execProg (tid :: env) body o) s
        | .callDeco d => callDeco d (execProg env body o) s
      let s' : LSt := { r.2 with log := r.1 :: r.2.log }
      if sw then (.ret noneVal, s') else (r.1, s')
  /-- statements in sequence, then return / raise `o`; a statement that raises ends the sequence -/
  def execProg (env : List Nat) : LProg → Outcome → LSt → Outcome × LSt
    | .nil, o, s => (o, s)
    | .cons st p, o, s =>
      let r := execStmt env st s
      if r.1.raised then r else execProg env p o r.2
end

end PromVerif.Model.Wrappers
