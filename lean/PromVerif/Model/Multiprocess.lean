/-
Model of prometheus_client/multiprocess.py (collector side): `_read_metrics`, `_accumulate_metrics`,
`MultiProcessCollector.merge/collect` on a directory listing, `mark_process_dead`.

Abstractions (each justified elsewhere or in the trusted base):
* one `*.db` file is an insertion-ordered list of `(key, value, timestamp)` — what C10 proves about the byte-level store;
* the JSON key `[metric_name, name, {labels}, help]` is the tuple `Key`, labels already in `sorted(labels.items())`
  order (json round trip of `[str, str, {str:str}, str]` is trusted; the harness validates it on every key);
* sample values are an abstract type `V` (`VOps`), histogram bounds an abstract type `B` with decidable equality
  (`BOps`: `float(text)`, `<`, `floatToGoString`); the driver instantiates `V := Float`, `B := ` bit patterns;
* `metric._multiprocess_mode` is read once per sample in the code and once per metric here (only the error class
  `AttributeError` and whether it is raised are observable, and both agree);
* `float(l[1])` is applied to every histogram sample before the merge loop instead of inside it (again only
  "raises ValueError or not" is observable);
* only `accumulate=True` (what `collect()` passes) is modelled.
The mode tuples, comparison operators, label/suffix literals and file-name pieces come from `Generated.Multiprocess`.
-/
import PromVerif.Py.Str
import PromVerif.Py.Err
import PromVerif.Generated.Multiprocess

namespace PromVerif.Model.Multiprocess
open PromVerif.Py
open PromVerif.Generated.Multiprocess

set_option autoImplicit false

abbrev Labels := List (Str × Str)

/-! ### insertion-ordered dict as association list -/
namespace AL
variable {κ β : Type} [DecidableEq κ]

/-- `d.get(k)` -/
def get? : List (κ × β) → κ → Option β
  | [], _ => none
  | (k', v) :: r, k => if k' = k then some v else get? r k

/-- `d[k] = v` (existing key keeps its position, a new key goes last) -/
def set : List (κ × β) → κ → β → List (κ × β)
  | [], k, v => [(k, v)]
  | (k', v') :: r, k, v => if k' = k then (k', v) :: r else (k', v') :: set r k v

def keys (d : List (κ × β)) : List κ := d.map (·.1)

/-- `defaultdict` read: `d[k]` (the inserted default is visible only through `set` below) -/
def getD (d : List (κ × β)) (k : κ) (dflt : β) : β := (get? d k).getD dflt

end AL

/-- `dict(pairs)`: later duplicates overwrite, first position kept -/
def pyDict (ls : Labels) : Labels := ls.foldl (fun d kv => AL.set d kv.1 kv.2) []

/-! ### values and bounds -/

/-- the operations on sample values the collector uses -/
structure VOps (V : Type) where
  zero : V
  add : V → V → V
  lt : V → V → Bool
  le : V → V → Bool
  /-- `bool(x)`: `x != 0` -/
  truthy : V → Bool

/-- histogram bounds: `float(text)` (none = ValueError), `<`, `floatToGoString` -/
structure BOps (B : Type) where
  parse : Str → Option B
  lt : B → B → Bool
  fmt : B → Str

/-- `a OP b` for the source operator `OP` -/
def cmpWith {α : Type} (lt le : α → α → Bool) : Cmp → α → α → Bool
  | .lt, a, b => lt a b
  | .gt, a, b => lt b a
  | .le, a, b => le a b
  | .ge, a, b => le b a

/-! ### input -/

/-- the parsed JSON key: metric (family) name, sample name, `sorted(labels.items())`, help text -/
structure Key where
  metric : Str
  name : Str
  labels : Labels
  help : Str
deriving DecidableEq, Repr

/-- one `*.db` file of the directory listing -/
structure MpFile (V : Type) where
  basename : Str
  entries : List (Key × V × V)

/-- `s.split(sep)` for a one-character separator -/
def splitChar (sep : Char) : Str → List Str
  | [] => [[]]
  | c :: cs =>
    if c = sep then [] :: splitChar sep cs
    else match splitChar sep cs with
      | [] => [[c]]
      | p :: ps => (c :: p) :: ps

/-- `s[:-n]` -/
def dropLastN (n : Nat) (s : Str) : Str := s.take (s.length - n)

/-! ### `_read_metrics` -/

/-- a `Sample` as `add_sample` stores it (exemplar fields are never set here) -/
structure RSample (V : Type) where
  name : Str
  labels : Labels
  value : V
  ts : Option V

/-- `Metric` plus the `_multiprocess_mode` attribute the reader attaches (`none` = attribute not set) -/
structure Metric (V : Type) where
  name : Str
  doc : Str
  typ : Str
  mode : Option Str
  samples : List (RSample V)

/-- `Metric.__init__`'s type handling: `untyped` → `unknown`, anything outside `METRIC_TYPES` raises ValueError -/
def newMetric {V : Type} (name doc typ : Str) : PyM (Metric V) :=
  let typ' := if typ = "untyped".toList then "unknown".toList else typ
  if metricTypes.contains typ' then .ok ⟨name, doc, typ', none, []⟩ else .error .valueError

/-- body of the inner `for key, value, timestamp, _ in file_values` loop -/
def readEntry {V : Type} (parts : List Str) (typ : Str)
    (ms : List (Str × Metric V)) (e : Key × V × V) : PyM (List (Str × Metric V)) := do
  let k := e.1
  let m ← match AL.get? ms k.metric with
    | some m => pure m
    | none => newMetric k.metric k.help typ
  if typ = gaugeType then
    match parts[2]? with
    | none => .error .indexError
    | some p2 =>
      let pid := dropLastN extLen p2
      match parts[1]? with
      | none => .error .indexError
      | some mode =>
        pure (AL.set ms k.metric
          { m with mode := some mode,
                   samples := m.samples ++ [⟨k.name, k.labels ++ [(pidLabel, pid)], e.2.1, some e.2.2⟩] })
  else
    pure (AL.set ms k.metric { m with samples := m.samples ++ [⟨k.name, k.labels, e.2.1, none⟩] })

/-- body of `for f in files` -/
def readFile {V : Type} (ms : List (Str × Metric V)) (f : MpFile V) : PyM (List (Str × Metric V)) :=
  let parts := splitChar splitSep f.basename
  let typ := parts.headD []
  f.entries.foldlM (readEntry parts typ) ms

/-- `_read_metrics(files)`: the `metrics` dict in insertion order -/
def readMetrics {V : Type} (files : List (MpFile V)) : PyM (List (Str × Metric V)) :=
  files.foldlM readFile []

/-! ### `_accumulate_metrics` -/

abbrev SKey := Str × Labels

/-- the three dicts of one iteration of the outer loop -/
structure Acc (V B : Type) where
  samples : List (SKey × V)
  tstamps : List (SKey × V)
  buckets : List (Labels × List (B × V))

def Acc.empty {V B : Type} : Acc V B := ⟨[], [], []⟩

/-- the branch taken for a mode: first matching tuple of the if/elif chain, `none` = the final `else` (all/liveall) -/
def ruleOf (mode : Str) : Option GaugeRule :=
  (gaugeRules.find? (fun r => r.1.contains mode)).map (·.2)

/-- `float(timestamp or 0)` / `float(timestamp)` as extracted -/
def tsValue {V : Type} (vo : VOps V) : Option V → PyM V
  | none => if tsOrZero then .ok vo.zero else .error .typeError
  | some t => .ok (if tsOrZero then (if vo.truthy t then t else vo.zero) else t)

/-- gauge branch of the sample loop -/
def gaugeStep {V B : Type} (vo : VOps V) (rule : Option GaugeRule) (acc : Acc V B) (s : RSample V) : PyM (Acc V B) :=
  let wk : SKey := (s.name, s.labels.filter (fun l => l.1 ≠ pidLabel))
  match rule with
  | some (.setdefaultCmp op) =>
    -- current = samples.setdefault(without_pid_key, value)
    let (current, smp) := match AL.get? acc.samples wk with
      | some c => (c, acc.samples)
      | none => (s.value, AL.set acc.samples wk s.value)
    if cmpWith vo.lt vo.le op s.value current then .ok { acc with samples := AL.set smp wk s.value }
    else .ok { acc with samples := smp }
  | some .plusEq =>
    .ok { acc with samples := AL.set acc.samples wk (vo.add (AL.getD acc.samples wk vo.zero) s.value) }
  | some (.tsCmp op) => do
    let cur := AL.getD acc.tstamps wk vo.zero
    let ts0 := AL.set acc.tstamps wk cur                -- defaultdict read inserts the default
    let t ← tsValue vo s.ts
    if cmpWith vo.lt vo.le op cur t then
      pure { acc with samples := AL.set acc.samples wk s.value, tstamps := AL.set ts0 wk t }
    else pure { acc with tstamps := ts0 }
  | none => .ok { acc with samples := AL.set acc.samples (s.name, s.labels) s.value }

/-- `samples[(name, labels)] += value` -/
def plainStep {V B : Type} (vo : VOps V) (acc : Acc V B) (name : Str) (labels : Labels) (v : V) : Acc V B :=
  { acc with samples := AL.set acc.samples (name, labels) (vo.add (AL.getD acc.samples (name, labels) vo.zero) v) }

/-- a histogram sample after the `for l in labels` scan -/
inductive HItem (V B : Type)
  | bucket (withoutLe : Labels) (bound : B) (v : V)
  | plain (name : Str) (labels : Labels) (v : V)

/-- the scan for the first `le` label and `float(l[1])` -/
def classifyHist {V B : Type} (bo : BOps B) (s : RSample V) : PyM (HItem V B) :=
  match s.labels.find? (fun l => l.1 = leLabel) with
  | some l =>
    match bo.parse l.2 with
    | some b => .ok (.bucket (s.labels.filter (fun l => l.1 ≠ leLabel)) b s.value)
    | none => .error .valueError
  | none => .ok (.plain s.name s.labels s.value)

/-- `buckets[without_le][bucket_value] += value` (two nested defaultdicts) -/
def bucketAdd {V B : Type} [DecidableEq B] (vo : VOps V) (bk : List (Labels × List (B × V)))
    (L : Labels) (b : B) (v : V) : List (Labels × List (B × V)) :=
  let inner := AL.getD bk L []
  AL.set bk L (AL.set inner b (vo.add (AL.getD inner b vo.zero) v))

def histStep {V B : Type} [DecidableEq B] (vo : VOps V) (acc : Acc V B) : HItem V B → Acc V B
  | .bucket L b v => { acc with buckets := bucketAdd vo acc.buckets L b v }
  | .plain n ls v => plainStep vo acc n ls v

/-- insertion into a list sorted by `lt` on the first component -/
def insertSorted {B β : Type} (lt : B → B → Bool) (x : B × β) : List (B × β) → List (B × β)
  | [] => [x]
  | y :: ys => if lt y.1 x.1 then y :: insertSorted lt x ys else x :: y :: ys

/-- `sorted(values.items())` (keys are distinct, so the values never take part in a comparison) -/
def sortItems {B β : Type} (lt : B → B → Bool) (l : List (B × β)) : List (B × β) :=
  l.foldr (insertSorted lt) []

/-- body of `for labels, values in buckets.items()`: cumulate in bound order, then store `_count` -/
def emitBuckets {V B : Type} (vo : VOps V) (bo : BOps B) (mname : Str)
    (samples : List (SKey × V)) (lv : Labels × List (B × V)) : List (SKey × V) :=
  let r := (sortItems bo.lt lv.2).foldl
    (fun (st : V × List (SKey × V)) bv =>
      let acc := vo.add st.1 bv.2
      (acc, AL.set st.2 (mname ++ bucketSuffix, lv.1 ++ [(leLabel, bo.fmt bv.1)]) acc))
    (vo.zero, samples)
  AL.set r.2 (mname ++ countSuffix, lv.1) r.1

/-- one converted output sample: `Sample(name_, dict(labels), value)` -/
structure OutSample (V : Type) where
  name : Str
  labels : Labels
  value : V

structure OutMetric (V : Type) where
  name : Str
  doc : Str
  typ : Str
  samples : List (OutSample V)

def convert {V : Type} (samples : List (SKey × V)) : List (OutSample V) :=
  samples.map (fun kv => ⟨kv.1.1, pyDict kv.1.2, kv.2⟩)

/-- the `samples` dict at the end of one iteration of the outer loop of `_accumulate_metrics` -/
def accumulateSamples {V B : Type} [DecidableEq B] (vo : VOps V) (bo : BOps B) (m : Metric V) :
    PyM (List (SKey × V)) :=
  if m.typ = gaugeType then
    match m.samples with
    | [] => .ok []
    | _ :: _ =>
      match m.mode with
      | none => .error .attributeError
      | some mode => do
        let acc ← m.samples.foldlM (gaugeStep (B := B) vo (ruleOf mode)) Acc.empty
        pure acc.samples
  else if m.typ = histogramType then do
    let items ← m.samples.mapM (classifyHist bo)
    let acc := items.foldl (histStep vo) (Acc.empty (V := V) (B := B))
    pure (acc.buckets.foldl (emitBuckets vo bo m.name) acc.samples)
  else
    .ok (m.samples.foldl (fun (acc : Acc V B) s => plainStep vo acc s.name s.labels s.value) Acc.empty).samples

def accumulateMetric {V B : Type} [DecidableEq B] (vo : VOps V) (bo : BOps B) (m : Metric V) : PyM (OutMetric V) := do
  let ss ← accumulateSamples vo bo m
  pure ⟨m.name, m.doc, m.typ, convert ss⟩

/-- `MultiProcessCollector.merge(files, accumulate=True)` -/
def merge {V B : Type} [DecidableEq B] (vo : VOps V) (bo : BOps B) (files : List (MpFile V)) : PyM (List (OutMetric V)) := do
  let ms ← readMetrics files
  ms.mapM (fun nm => accumulateMetric vo bo nm.2)

/-! ### `mark_process_dead` -/

/-- `f'gauge_{mode}_{pid}.db'` -/
def deadName (mode pid : Str) : Str :=
  deadNameParts.headD [] ++ mode ++ (deadNameParts.drop 1).headD [] ++ pid ++ (deadNameParts.drop 2).headD []

/-- the directory listing after `mark_process_dead(pid)`: every `gauge_<live mode>_<pid>.db` is removed -/
def markProcessDead {V : Type} (pid : Str) (files : List (MpFile V)) : List (MpFile V) :=
  files.filter (fun f => !(liveModes.any (fun m => decide (f.basename = deadName m pid))))

end PromVerif.Model.Multiprocess
