/-
Model of prometheus_client/validation.py.  The regular expressions are re-extracted from the source
(`Generated.Validation`): first class, rest class, and whether the end anchor is Python's `$` (which also
matches just before a final newline) or exact.
-/
import PromVerif.Py.Str
import PromVerif.Py.Err
import PromVerif.Generated.Validation

namespace PromVerif.Model.Validation
open PromVerif.Py
open PromVerif.Generated.Validation

def inClass (cls : List (Char × Char)) (c : Char) : Bool :=
  cls.any (fun r => r.1.toNat ≤ c.toNat && c.toNat ≤ r.2.toNat)

/-- `[first][rest]*` consumed exactly -/
def matchExact (re : NameRe) : Str → Bool
  | [] => false
  | c :: cs => inClass re.first c && cs.all (inClass re.rest)

/-- `re.match(s) is not None` for `^[first][rest]*$`; `full` = applied with `fullmatch` -/
def matchName (re : NameRe) (full : Bool) (s : Str) : Bool :=
  matchExact re s ||
    (re.dollar && !full && (match s.getLast? with | some '\n' => matchExact re s.dropLast | _ => false))

/-- `^__.*$` : prefix, then any characters but newline, then `$` -/
def matchReserved (s : Str) : Bool :=
  reservedPrefix.isPrefixOf s &&
    (let rest := s.drop reservedPrefix.length
     !rest.contains '\n' ||
       (reservedDollar && (match rest.getLast? with | some '\n' => !rest.dropLast.contains '\n' | _ => false)))

def isValidLegacyMetricName (s : Str) : Bool := matchName metricNameRe full_is_valid_legacy_metric_name s

def isValidLegacyLabelname (s : Str) : Bool :=
  matchName labelNameRe full_is_valid_legacy_labelname s && !matchReserved s

/-- `_validate_metric_name(name)` under the given legacy setting (well-formed text always encodes) -/
def validateMetricName (legacy : Bool) (name : Str) : PyM Unit :=
  if name.isEmpty then .error .valueError
  else if legacy && !matchName metricNameRe full_validate_metric_name name then .error .valueError
  else .ok ()

/-- `_validate_labelname(l)` -/
def validateLabelname (legacy : Bool) (l : Str) : PyM Unit :=
  if legacy then
    if !matchName labelNameRe full_validate_labelname l then .error .valueError
    else if matchReserved l then .error .valueError
    else .ok ()
  else
    if matchReserved l then .error .valueError else .ok ()

end PromVerif.Model.Validation
