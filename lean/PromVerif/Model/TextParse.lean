/-
Model of the text-format parser of prometheus_client/parser.py on top of the scanning core (`Model/ParseCore.lean`):
`_parse_value_and_timestamp`, `_parse_sample`, `build_metric` and the family state machine
`text_fd_to_metric_families` (consumed with `list(...)`: an exception anywhere discards the families yielded so far).

Every raising site is explicit with its Python class.  `int()` / `float()` are parameters (`pyInt`, `pyFloat`, the
latter returning the bit pattern of the double); the timestamp `_parse_value(values[-1]) / 1000` is kept symbolic
(`TsMs num` means `num / 1000`, Python true division) — the only thing modelled about the division is where it raises
(`OverflowError` for an int too large for a double, which `_parse_value_and_timestamp` catches and re-raises as ValueError).
-/
import PromVerif.Model.ParseCore
import PromVerif.Generated.TextParse

namespace PromVerif.Model.TextParse
open PromVerif.Py PromVerif.Model.Validation PromVerif.Model.ParseCore

/-- the timestamp `num / 1000` (Python true division: int/int or float/int, both giving a float) -/
structure TsMs where
  num : Num
deriving Repr, DecidableEq

/-- `samples.Sample(name, labels, value, timestamp)` as the text parser builds it -/
structure PSample where
  name : Str
  labels : List (Str × Str)          -- dict in insertion order
  value : Num
  ts : Option TsMs
deriving Repr, DecidableEq

/-- `metrics_core.Metric` as the text parser builds it (unit is always '') -/
structure PFamily where
  name : Str
  doc : Str
  typ : Str
  samples : List PSample
deriving Repr, DecidableEq

/-- `text[:e]` where `e` is the result of `_next_unquoted_char` (`none` = -1: everything but the last character) -/
def sliceTo (text : Str) : Option Nat → Str
  | none => text.dropLast
  | some p => text.take p

/-- `text[e + 1:]` (`none` = -1: `text[0:]`) -/
def sliceAfter (text : Str) : Option Nat → Str
  | none => text
  | some p => text.drop (p + 1)

/-- `s.split(sep)` for a one-character separator -/
def splitOnChar (sep : Char) : Str → List Str
  | [] => [[]]
  | c :: cs =>
    if c = sep then [] :: splitOnChar sep cs
    else match splitOnChar sep cs with
      | [] => [[c]]             -- unreachable: the result is never empty
      | t :: ts => (c :: t) :: ts

/-- CPython `int / 1000`: `OverflowError: integer division result too large for a float` exactly when the correctly
rounded quotient is not a finite double, i.e. `|n| / 1000 ≥ 2^1024 − 2^970` -/
def intDivOverflows (n : Int) : Bool := decide (n.natAbs ≥ (2 ^ 1024 - 2 ^ 970) * 1000)

/-- `x / 1000` for the result of `_parse_value`; float / int never raises; the OverflowError of int / int is turned into
ValueError when the source has the `try … except OverflowError: raise ValueError` around it (re-extracted on every run) -/
def divThousand : Num → PyM TsMs
  | .int n =>
    if intDivOverflows n then
      .error (if PromVerif.Generated.TextParse.tsOverflowToValueError then .valueError else .overflowError)
    else .ok ⟨.int n⟩
  | .flt b => .ok ⟨.flt b⟩

/-- `_parse_value_and_timestamp(s)` -/
def parseValueAndTimestamp (pyInt : Str → Option Int) (pyFloat : Str → Option Nat) (s0 : Str) :
    PyM (Num × Option TsMs) :=
  let s := lstrip s0
  let separator : Char := if s.contains ' ' then ' ' else '\t'
  let values := ((splitOnChar separator s).map strip).filter (fun v => !v.isEmpty)
  match values with
  | [] =>
    -- `return float(s), None`
    match pyFloat s with
    | some b => .ok (.flt b, none)
    | none => .error .valueError
  | v0 :: rest => do
    let value ← parseValue pyInt pyFloat v0
    match rest.getLast? with
    | none => pure (value, none)
    | some vl => do
      let t ← parseValue pyInt pyFloat vl
      let ts ← divThousand t
      pure (value, some ts)

def nameLabel : Str := "__name__".toList
def sepHash : Str := " # ".toList

/-- `_parse_sample(text)`; `text` is a stripped non-empty line -/
def parseSample (legacy : Bool) (pyInt : Str → Option Int) (pyFloat : Str → Option Nat) (text : Str) :
    PyM PSample :=
  let labelStart := nextUnquotedChar text (· == '{')
  let noLabels : Bool := match labelStart with
    | none => true
    | some ls => isInfix sepHash (text.take ls)
  if noLabels then
    let nameEnd := nextUnquotedChar text (fun c => c == ' ' || c == '\t')
    let name := strip (sliceTo text nameEnd)
    if !isValidLegacyMetricName name then .error .valueError
    else do
      let (value, ts) ← parseValueAndTimestamp pyInt pyFloat (sliceAfter text nameEnd)
      pure ⟨name, [], value, ts⟩
  else
    let ls := labelStart.getD 0
    let name := strip (text.take ls)
    let labelEnd := nextUnquotedChar text (· == '}')
    do
      let labels ← parseLabels legacy ((sliceTo text labelEnd).drop (ls + 1)) false
      let (name', labels') ← (
        if name.isEmpty then
          match labels.find? (fun kv => kv.1 == nameLabel) with
          | none => (throw .valueError : PyM (Str × List (Str × Str)))
          | some kv => pure (kv.2, labels.filter (fun kv => !(kv.1 == nameLabel)))
        else if labels.any (fun kv => kv.1 == nameLabel) then throw .valueError
        else pure (name, labels))
      let (value, ts) ← parseValueAndTimestamp pyInt pyFloat (sliceAfter text labelEnd)
      pure ⟨name', labels', value, ts⟩

def metricTypes : List Str :=
  ["counter", "gauge", "summary", "histogram", "gaugehistogram", "unknown", "info", "stateset"].map String.toList

def totalSuffix : Str := "_total".toList

/-- `build_metric(name, documentation, typ, samples)` including `Metric.__init__` (raises ValueError on an empty or,
under legacy validation, non-legacy name and on an unknown type) -/
def buildMetric (legacy : Bool) (name doc typ : Str) (samples : List PSample) : PyM PFamily :=
  let (name', samples') :=
    if typ == "counter".toList then
      if endsWith totalSuffix name then (name.take (name.length - 6), samples)
      else (name, samples.map (fun s => { s with name := s.name ++ totalSuffix }))
    else (name, samples)
  do
    validateMetricName legacy name'
    let typ' := if typ == "untyped".toList then "unknown".toList else typ
    if !metricTypes.contains typ' then throw .valueError
    pure ⟨name', doc, typ', samples'⟩

/-- the local variables of `text_fd_to_metric_families` -/
structure St where
  name : Str := []
  doc : Str := []
  typ : Str := "untyped".toList
  samples : List PSample := []
  allowed : List Str := []
deriving Repr, DecidableEq

def St.init : St := {}

/-- the dict literal of allowed sample-name suffixes per type, `.get(typ, [''])` -/
def allowedSuffixes (typ : Str) : List Str :=
  if typ == "counter".toList then [[]]
  else if typ == "gauge".toList then [[]]
  else if typ == "summary".toList then ["_count".toList, "_sum".toList, []]
  else if typ == "histogram".toList then ["_count".toList, "_sum".toList, "_bucket".toList]
  else [[]]

/-- `if name != '': yield build_metric(name, documentation, typ, samples)` -/
def flush (legacy : Bool) (st : St) : PyM (List PFamily) :=
  if st.name.isEmpty then pure [] else do
    let m ← buildMetric legacy st.name st.doc st.typ st.samples
    pure [m]

/-- the body of `for line in fd:` for one line (already without its '\n'); returns the new state and the families
yielded while processing the line -/
def stepLine (legacy : Bool) (pyInt : Str → Option Int) (pyFloat : Str → Option Nat) (st : St) (rawLine : Str) :
    PyM (St × List PFamily) :=
  let line := strip rawLine
  if line.head? == some '#' then
    let parts := splitQuoted line isAsciiSpace 3
    if parts.length < 2 then pure (st, [])
    else do
      let (candidate, _) ← (
        match parts[2]? with
        | some p2 => do
          let (c, quoted) ← unquoteUnescape p2
          if !quoted && !isValidLegacyMetricName c then throw .valueError
          pure (c, quoted)
        | none => (pure ([], false) : PyM (Str × Bool)))
      let p1 := parts[1]?.getD []
      if p1 == "HELP".toList then do
        let (st1, out) ← (
          if candidate != st.name then do
            let out ← flush legacy st
            pure ({ st with name := candidate, typ := "untyped".toList, samples := [], allowed := [candidate] }, out)
          else (pure (st, []) : PyM (St × List PFamily)))
        let doc := match parts with
          | [_, _, _, p3] => replaceHelpEscaping p3
          | _ => []
        pure ({ st1 with doc := doc }, out)
      else if p1 == "TYPE".toList then
        if parts.length < 4 then throw .valueError
        else do
          let (st1, out) ← (
            if candidate != st.name then do
              let out ← flush legacy st
              pure ({ st with name := candidate, doc := [], samples := [] }, out)
            else (pure (st, []) : PyM (St × List PFamily)))
          let typ := parts[3]?.getD []
          pure ({ st1 with typ := typ, allowed := (allowedSuffixes typ).map (st1.name ++ ·) }, out)
      else pure (st, [])
  else if line.isEmpty then pure (st, [])
  else do
    let sample ← parseSample legacy pyInt pyFloat line
    if !st.allowed.contains sample.name then do
      let out ← flush legacy st
      let single ← buildMetric legacy sample.name [] "untyped".toList [sample]
      pure (St.init, out ++ [single])
    else pure ({ st with samples := st.samples ++ [sample] }, [])

/-- `for line in io.StringIO(text)`: lines end at '\n' only; the terminator is dropped here (the first thing done
with a line is `line.strip()`, which removes it) -/
def splitLines : Str → List Str
  | [] => []
  | c :: cs =>
    if c = '\n' then [] :: splitLines cs
    else match splitLines cs with
      | [] => [[c]]
      | l :: ls => (c :: l) :: ls

/-- the `for` loop over the lines -/
def runLines (legacy : Bool) (pyInt : Str → Option Int) (pyFloat : Str → Option Nat) :
    List Str → St → List PFamily → PyM (St × List PFamily)
  | [], st, acc => pure (st, acc)
  | l :: ls, st, acc => do
    let (st', out) ← stepLine legacy pyInt pyFloat st l
    runLines legacy pyInt pyFloat ls st' (acc ++ out)

/-- `list(text_string_to_metric_families(text))` -/
def textParse (legacy : Bool) (pyInt : Str → Option Int) (pyFloat : Str → Option Nat) (text : Str) :
    PyM (List PFamily) := do
  let (st, acc) ← runLines legacy pyInt pyFloat (splitLines text) St.init []
  let last ← flush legacy st
  pure (acc ++ last)

/-- the samples of a parse result, in order -/
def flatten (fs : List PFamily) : List PSample := fs.flatMap (·.samples)

end PromVerif.Model.TextParse
