/-
`sorted(d.items())` for a dict with `str` keys, modelled by `Py.sortByKey` (insertion sort on the key, code-point
order): the result is a permutation of the input and is sorted.
-/
import PromVerif.Py.Str

namespace PromVerif.Lemmas.GatewaySort
open PromVerif.Py

theorem strLt_irrefl (a : Str) : strLt a a = false := by
  induction a with
  | nil => rfl
  | cons x xs ih => simp [strLt, ih]

theorem strLt_trans : ∀ (a b c : Str), strLt a b = true → strLt b c = true → strLt a c = true
  | [], [], _, h, _ => by simp [strLt] at h
  | [], _ :: _, [], _, h => by simp [strLt] at h
  | [], _ :: _, _ :: _, _, _ => by simp [strLt]
  | _ :: _, [], _, h, _ => by simp [strLt] at h
  | _ :: _, _ :: _, [], _, h => by simp [strLt] at h
  | x :: xs, y :: ys, z :: zs, h1, h2 => by
    have ih := strLt_trans xs ys zs
    simp only [strLt] at h1 h2 ⊢
    by_cases hxy : x.toNat < y.toNat
    · by_cases hyz : y.toNat < z.toNat
      · have : x.toNat < z.toNat := by omega
        simp [this]
      · simp only [hyz, if_false] at h2
        by_cases hzy : z.toNat < y.toNat
        · simp [hzy] at h2
        · have : x.toNat < z.toNat := by omega
          simp [this]
    · simp only [hxy, if_false] at h1
      by_cases hyx : y.toNat < x.toNat
      · simp [hyx] at h1
      · simp only [hyx, if_false] at h1
        by_cases hyz : y.toNat < z.toNat
        · have : x.toNat < z.toNat := by omega
          simp [this]
        · simp only [hyz, if_false] at h2
          by_cases hzy : z.toNat < y.toNat
          · simp [hzy] at h2
          · simp only [hzy, if_false] at h2
            have e1 : ¬ x.toNat < z.toNat := by omega
            have e2 : ¬ z.toNat < x.toNat := by omega
            simp only [e1, e2, if_false]
            exact ih h1 h2

theorem strLt_asymm (a b : Str) (h : strLt a b = true) : strLt b a = false := by
  cases hba : strLt b a with
  | false => rfl
  | true =>
    have := strLt_trans a b a h hba
    rw [strLt_irrefl] at this
    exact absurd this (by simp)

/-- `a` does not come after `b` -/
def KeyLe {β : Type} (a b : Str × β) : Prop := strLt b.1 a.1 = false

theorem insertByKey_perm {β : Type} (kv : Str × β) (l : List (Str × β)) : (insertByKey kv l).Perm (kv :: l) := by
  induction l with
  | nil => exact List.Perm.refl _
  | cons x xs ih =>
    unfold insertByKey
    split
    · exact List.Perm.refl _
    · exact (List.Perm.cons x ih).trans (List.Perm.swap kv x xs)

theorem foldl_insert_perm {β : Type} (l acc : List (Str × β)) :
    (l.foldl (fun acc kv => insertByKey kv acc) acc).Perm (l ++ acc) := by
  induction l generalizing acc with
  | nil => exact List.Perm.refl _
  | cons x xs ih =>
    refine (ih (insertByKey x acc)).trans ?_
    refine (List.Perm.append_left xs (insertByKey_perm x acc)).trans ?_
    exact List.perm_middle

/-- the sorted list is a permutation of the items -/
theorem sortByKey_perm {β : Type} (l : List (Str × β)) : (sortByKey l).Perm l := by
  have := foldl_insert_perm l ([] : List (Str × β))
  simpa [sortByKey] using this

theorem mem_sortByKey {β : Type} (l : List (Str × β)) (x : Str × β) : x ∈ sortByKey l ↔ x ∈ l :=
  (sortByKey_perm l).mem_iff

theorem insertByKey_sorted {β : Type} (kv : Str × β) (l : List (Str × β)) (h : l.Pairwise KeyLe) :
    (insertByKey kv l).Pairwise KeyLe := by
  induction l with
  | nil => simp [insertByKey]
  | cons x xs ih =>
    have hx := List.pairwise_cons.mp h
    unfold insertByKey
    split
    · next hlt =>
      refine List.pairwise_cons.mpr ⟨?_, h⟩
      intro y hy
      rcases List.mem_cons.mp hy with rfl | hy
      · exact strLt_asymm _ _ hlt
      · have hxy : strLt y.1 x.1 = false := hx.1 y hy
        show strLt y.1 kv.1 = false
        cases hyk : strLt y.1 kv.1 with
        | false => rfl
        | true =>
          have := strLt_trans _ _ _ hyk hlt
          rw [hxy] at this
          exact absurd this (by simp)
    · next hnlt =>
      refine List.pairwise_cons.mpr ⟨?_, ih hx.2⟩
      intro y hy
      rcases List.mem_cons.mp ((insertByKey_perm kv xs).mem_iff.mp hy) with rfl | hy
      · show strLt y.1 x.1 = false
        simpa using hnlt
      · exact hx.1 y hy

theorem foldl_insert_sorted {β : Type} (l acc : List (Str × β)) (h : acc.Pairwise KeyLe) :
    (l.foldl (fun acc kv => insertByKey kv acc) acc).Pairwise KeyLe := by
  induction l generalizing acc with
  | nil => exact h
  | cons x xs ih => exact ih _ (insertByKey_sorted x acc h)

/-- the sorted list is in non-decreasing key order (code-point order) -/
theorem sortByKey_sorted {β : Type} (l : List (Str × β)) : (sortByKey l).Pairwise KeyLe :=
  foldl_insert_sorted l [] List.Pairwise.nil

end PromVerif.Lemmas.GatewaySort
