/-
C05 lemmas, part 11: constructor-time validation — what `MetricWrapperBase.__init__` accepts, `Metric.__init__`
(run again by every `collect()`) accepts unchanged.
-/
import PromVerif.Model.Ctor
import PromVerif.Lemmas.LinesOMDoc

namespace PromVerif.Lemmas.Lines
open PromVerif.Py PromVerif.Model PromVerif.Model.Validation PromVerif.Model.Ctor
open PromVerif.Generated.Ctor

theorem endsWith_append (suf a : Str) : endsWith suf (a ++ suf) = true := by
  simp only [endsWith, List.reverse_append]
  exact List.isPrefixOf_iff_prefix.mpr (List.prefix_append _ _)

theorem appendUnit_idem (n u : Str) : appendUnit (appendUnit n u) u = appendUnit n u := by
  unfold appendUnit
  by_cases h : (!u.isEmpty && !endsWith (sep ++ u) n) = true
  · rw [if_pos h]
    have : endsWith (sep ++ u) (n ++ sep ++ u) = true := by
      rw [List.append_assoc]; exact endsWith_append _ _
    have h2 : ¬ ((!u.isEmpty && !endsWith (sep ++ u) (n ++ sep ++ u)) = true) := by rw [this]; simp
    rw [if_neg h2]
  · rw [if_neg h, if_neg h]

theorem buildFullName_unit (typ name ns ss unit full : Str) (h : buildFullName typ name ns ss unit = .ok full) :
    appendUnit full unit = full := by
  unfold buildFullName at h
  split at h
  · simp at h
  · dsimp only at h
    split at h
    · simp at h
    · injection h with h
      rw [← h, appendUnit_idem]

/-- the `_type` of every instrumentation class is a `METRIC_TYPES` member and is not rewritten by `Metric.__init__` -/
theorem class_types_ok : ∀ p ∈ reservedLabelnames,
    metricTypes.contains p.1 = true ∧ (p.1 == untypedFrom) = false := by decide

/-- what the constructor of an instrumentation class accepted, `Metric.__init__` accepts at collect time, with the
same name and type -/
theorem ctor_then_metricInit (legacy : Bool) (typ name ns ss unit full : Str) (lns : List Str)
    (hcls : typ ∈ reservedLabelnames.map (·.1))
    (h : wrapperInit legacy typ name ns ss unit lns = .ok full) :
    metricInit legacy full typ unit = .ok (full, typ) := by
  unfold wrapperInit at h
  cases h1 : buildFullName typ name ns ss unit with
  | error e => simp [h1] at h
  | ok f =>
    simp only [h1] at h
    cases h2 : validateLabelnames legacy (reservedOf typ) lns with
    | error e => simp [h2] at h
    | ok u =>
      simp only [h2] at h
      cases h3 : validateMetricName legacy f with
      | error e => simp [h3] at h
      | ok u' =>
        simp only [h3] at h
        injection h with h
        subst h
        simp only [List.mem_map] at hcls
        obtain ⟨p, hp, rfl⟩ := hcls
        have hc := class_types_ok p hp
        unfold metricInit
        simp only [buildFullName_unit _ _ _ _ _ _ h1, h3, hc.1, hc.2, Bool.false_eq_true, if_false, if_true]

end PromVerif.Lemmas.Lines
