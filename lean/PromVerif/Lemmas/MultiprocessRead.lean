/-
`_read_metrics` on well-formed file names: the file name written by values.py (`'{}_{}.db'`) is split back into
type, mode and pid, and the `metrics` dict groups all contributions of a family in listing order.
-/
import PromVerif.Lemmas.MultiprocessDict
import PromVerif.Spec.Multiprocess
import PromVerif.Model.Values

namespace PromVerif.Model.Multiprocess
open PromVerif.Py PromVerif.Generated.Multiprocess
open PromVerif.Spec.Multiprocess (SFile Contrib contribsOf allContribs contribs)
set_option autoImplicit false

variable {V : Type}

/-! ### splitting a file name -/

theorem splitChar_no_sep (sep : Char) (a : Str) (h : sep ∉ a) : splitChar sep a = [a] := by
  induction a with
  | nil => rfl
  | cons c r ih =>
    have hc : c ≠ sep := fun e => h (e ▸ List.mem_cons_self)
    have hr : sep ∉ r := fun e => h (List.mem_cons_of_mem _ e)
    simp [splitChar, hc, ih hr]

theorem splitChar_append (sep : Char) (a rest : Str) (h : sep ∉ a) :
    splitChar sep (a ++ sep :: rest) = a :: splitChar sep rest := by
  induction a with
  | nil => simp [splitChar]
  | cons c r ih =>
    have hc : c ≠ sep := fun e => h (e ▸ List.mem_cons_self)
    have hr : sep ∉ r := fun e => h (List.mem_cons_of_mem _ e)
    simp [splitChar, hc, ih hr]

/-- the base name values.py gives the file of `(typ, mode, pid)` -/
def baseName (typ mode pid : Str) : Str :=
  Values.fileName (if typ = gaugeType then typ ++ gaugePrefixSep ++ mode else typ) pid

theorem baseName_gauge (mode pid : Str) :
    baseName gaugeType mode pid = gaugeType ++ '_' :: (mode ++ '_' :: (pid ++ ['.', 'd', 'b'])) := by
  simp [baseName, Values.fileName, fileNameParts, gaugePrefixSep]

theorem baseName_other (typ mode pid : Str) (h : typ ≠ gaugeType) :
    baseName typ mode pid = typ ++ '_' :: (pid ++ ['.', 'd', 'b']) := by
  simp [baseName, Values.fileName, fileNameParts, h]

theorem dot_db_no_sep : '_' ∉ ['.', 'd', 'b'] := by decide

theorem split_gauge (mode pid : Str) (hm : '_' ∉ mode) (hp : '_' ∉ pid) :
    splitChar splitSep (baseName gaugeType mode pid) = [gaugeType, mode, pid ++ ['.', 'd', 'b']] := by
  rw [baseName_gauge]
  have hg : '_' ∉ gaugeType := by decide
  have hpd : '_' ∉ pid ++ ['.', 'd', 'b'] := by
    intro h; rcases List.mem_append.mp h with h | h
    · exact hp h
    · exact dot_db_no_sep h
  show splitChar '_' _ = _
  rw [splitChar_append _ _ _ hg, splitChar_append _ _ _ hm, splitChar_no_sep _ _ hpd]

theorem split_other (typ mode pid : Str) (h : typ ≠ gaugeType) (ht : '_' ∉ typ) (hp : '_' ∉ pid) :
    splitChar splitSep (baseName typ mode pid) = [typ, pid ++ ['.', 'd', 'b']] := by
  rw [baseName_other _ _ _ h]
  have hpd : '_' ∉ pid ++ ['.', 'd', 'b'] := by
    intro h; rcases List.mem_append.mp h with h | h
    · exact hp h
    · exact dot_db_no_sep h
  show splitChar '_' _ = _
  rw [splitChar_append _ _ _ ht, splitChar_no_sep _ _ hpd]

theorem dropLastN_ext (pid : Str) : dropLastN extLen (pid ++ ['.', 'd', 'b']) = pid := by
  simp [dropLastN, extLen]

/-! ### the reader on contributions -/

/-- the sample `_read_metrics` stores for a contribution -/
def toRSample (c : Contrib V) : RSample V :=
  if c.typ = gaugeType then ⟨c.key.name, c.key.labels ++ [(pidLabel, c.pid)], c.value, some c.ts⟩
  else ⟨c.key.name, c.key.labels, c.value, none⟩

/-- one entry of a well-formed file, without the error plumbing -/
def readStep (ms : List (Str × Metric V)) (c : Contrib V) : List (Str × Metric V) :=
  let m : Metric V := (AL.get? ms c.key.metric).getD ⟨c.key.metric, c.key.help, c.typ, none, []⟩
  AL.set ms c.key.metric
    { m with mode := if c.typ = gaugeType then some c.mode else m.mode, samples := m.samples ++ [toRSample c] }

/-- file identities the writer can produce: a known type other than `untyped`, no `_` inside type, mode or pid -/
structure WFFile (f : SFile V) : Prop where
  typ_known : metricTypes.contains f.typ = true
  typ_sep : '_' ∉ f.typ
  mode_sep : '_' ∉ f.mode
  pid_sep : '_' ∉ f.pid

def toFile (f : SFile V) : MpFile V := ⟨baseName f.typ f.mode f.pid, f.entries⟩

theorem known_not_untyped (t : Str) (h : metricTypes.contains t = true) : t ≠ "untyped".toList := by
  intro e; subst e; revert h; decide

theorem newMetric_ok (name doc typ : Str) (h : metricTypes.contains typ = true) :
    newMetric (V := V) name doc typ = .ok ⟨name, doc, typ, none, []⟩ := by
  unfold newMetric
  simp only [if_neg (known_not_untyped typ h), h, if_true]

theorem readEntry_gauge (parts : List Str) (mode pid : Str) (h1 : parts[1]? = some mode)
    (h2 : parts[2]? = some (pid ++ ['.', 'd', 'b'])) (ms : List (Str × Metric V)) (e : Key × V × V) :
    readEntry parts gaugeType ms e = .ok (readStep ms ⟨gaugeType, mode, pid, e.1, e.2.1, e.2.2⟩) := by
  have hnew := newMetric_ok (V := V) e.1.metric e.1.help gaugeType (by decide)
  unfold readEntry readStep toRSample
  simp only [hnew, h1, h2]
  cases hget : AL.get? ms e.1.metric with
  | some m =>
    simp only [bind, Except.bind, pure, Except.pure, if_true, Option.getD_some, dropLastN_ext]
  | none =>
    simp only [bind, Except.bind, pure, Except.pure, if_true, Option.getD_none, dropLastN_ext]

theorem readEntry_other (parts : List Str) (typ mode pid : Str) (hg : typ ≠ gaugeType)
    (hk : metricTypes.contains typ = true) (ms : List (Str × Metric V)) (e : Key × V × V) :
    readEntry parts typ ms e = .ok (readStep ms ⟨typ, mode, pid, e.1, e.2.1, e.2.2⟩) := by
  have hnew := newMetric_ok (V := V) e.1.metric e.1.help typ hk
  unfold readEntry readStep toRSample
  simp only [hnew]
  cases hget : AL.get? ms e.1.metric with
  | some m =>
    simp only [bind, Except.bind, pure, Except.pure, if_neg hg, Option.getD_some]
  | none =>
    simp only [bind, Except.bind, pure, Except.pure, if_neg hg, Option.getD_none]

theorem readEntry_ok (f : SFile V) (hf : WFFile f) (ms : List (Str × Metric V)) (e : Key × V × V) :
    readEntry (splitChar splitSep (baseName f.typ f.mode f.pid))
        ((splitChar splitSep (baseName f.typ f.mode f.pid)).headD []) ms e
      = .ok (readStep ms ⟨f.typ, f.mode, f.pid, e.1, e.2.1, e.2.2⟩) := by
  obtain ⟨typ, mode, pid, entries⟩ := f
  by_cases hg : typ = gaugeType
  · subst hg
    show readEntry (splitChar splitSep (baseName gaugeType mode pid))
      ((splitChar splitSep (baseName gaugeType mode pid)).headD []) ms e = _
    rw [split_gauge mode pid hf.mode_sep hf.pid_sep]
    exact readEntry_gauge _ mode pid rfl rfl ms e
  · show readEntry (splitChar splitSep (baseName typ mode pid))
      ((splitChar splitSep (baseName typ mode pid)).headD []) ms e = _
    rw [split_other typ mode pid hg hf.typ_sep hf.pid_sep]
    exact readEntry_other _ typ mode pid hg hf.typ_known ms e

theorem readFile_ok (f : SFile V) (hf : WFFile f) (ms : List (Str × Metric V)) :
    readFile ms (toFile f) = .ok ((contribsOf f).foldl readStep ms) := by
  unfold readFile toFile contribsOf
  simp only
  rw [foldlM_ok _ (fun ms (e : Key × V × V) => readStep ms ⟨f.typ, f.mode, f.pid, e.1, e.2.1, e.2.2⟩) f.entries ms
    (fun s' x _ => readEntry_ok f hf s' x)]
  rw [List.foldl_map]

theorem readMetrics_fold (fs : List (SFile V)) (hf : ∀ f ∈ fs, WFFile f) (ms : List (Str × Metric V)) :
    (fs.map toFile).foldlM readFile ms = .ok ((allContribs fs).foldl readStep ms) := by
  induction fs generalizing ms with
  | nil => rfl
  | cons f r ih =>
    simp only [List.map_cons, List.foldlM_cons, allContribs, List.flatMap_cons, List.foldl_append]
    rw [readFile_ok f (hf f List.mem_cons_self)]
    exact ih (fun g hg => hf g (List.mem_cons_of_mem _ hg)) _

/-- `_read_metrics` on a listing of well-formed files -/
theorem readMetrics_ok (fs : List (SFile V)) (hf : ∀ f ∈ fs, WFFile f) :
    readMetrics (fs.map toFile) = .ok ((allContribs fs).foldl readStep []) :=
  readMetrics_fold fs hf []

/-! ### what the dict holds per family -/

/-- folding the contributions of one family into its `Metric` -/
def famStep (o : Option (Metric V)) (c : Contrib V) : Option (Metric V) :=
  let m : Metric V := o.getD ⟨c.key.metric, c.key.help, c.typ, none, []⟩
  some { m with mode := if c.typ = gaugeType then some c.mode else m.mode, samples := m.samples ++ [toRSample c] }

theorem readStep_get? (ms : List (Str × Metric V)) (c : Contrib V) (mn : Str) :
    AL.get? (readStep ms c) mn = if c.key.metric = mn then famStep (AL.get? ms mn) c else AL.get? ms mn := by
  unfold readStep famStep
  simp only [AL.get?_set]
  split
  · next h => subst h; rfl
  · rfl

theorem read_get? (cs : List (Contrib V)) (mn : Str) :
    AL.get? (cs.foldl readStep []) mn = (cs.filter (fun c => c.key.metric = mn)).foldl famStep none := by
  have := foldl_proj readStep (fun (c : Contrib V) => c.key.metric) (fun ms mn => AL.get? ms mn) famStep
    (fun s x k => readStep_get? s x k) cs [] mn
  simpa using this

theorem read_keys (cs : List (Contrib V)) :
    AL.keys (cs.foldl readStep []) = Spec.Multiprocess.distinct (cs.map (·.key.metric)) := by
  unfold Spec.Multiprocess.distinct readStep
  exact keys_foldl_set' (fun (c : Contrib V) => c.key.metric) _ cs []

/-- after the first contribution, the family record keeps name, help and type and appends samples -/
theorem famStep_fold_some (cs : List (Contrib V)) (m : Metric V) :
    ∃ mode, cs.foldl famStep (some m) = some ⟨m.name, m.doc, m.typ, mode, m.samples ++ cs.map toRSample⟩ ∧
      (∀ md, (∀ c ∈ cs, c.typ = gaugeType ∧ c.mode = md) → m.mode = some md → mode = some md) ∧
      ((∀ c ∈ cs, c.typ ≠ gaugeType) → mode = m.mode) := by
  induction cs generalizing m with
  | nil => exact ⟨m.mode, by simp, fun _ _ h => h, fun _ => rfl⟩
  | cons c r ih =>
    simp only [List.foldl_cons, famStep, Option.getD_some]
    obtain ⟨mode, h1, h2, h3⟩ := ih
      (⟨m.name, m.doc, m.typ, if c.typ = gaugeType then some c.mode else m.mode, m.samples ++ [toRSample c]⟩ : Metric V)
    refine ⟨mode, ?_, ?_, ?_⟩
    · rw [h1]; simp
    · intro md hall hm
      apply h2 md (fun c' hc' => hall c' (List.mem_cons_of_mem _ hc'))
      have := hall c List.mem_cons_self
      simp [this.1, this.2]
    · intro hall
      rw [h3 (fun c' hc' => hall c' (List.mem_cons_of_mem _ hc'))]
      simp [hall c List.mem_cons_self]

/-- the record of a family with at least one contribution, all of one type (and one mode for gauges) -/
theorem famStep_fold (c : Contrib V) (cs : List (Contrib V))
    (hty : ∀ c' ∈ cs, c'.typ = c.typ) (hmo : c.typ = gaugeType → ∀ c' ∈ cs, c'.mode = c.mode) :
    (c :: cs).foldl famStep none
      = some ⟨c.key.metric, c.key.help, c.typ, if c.typ = gaugeType then some c.mode else none,
              (c :: cs).map toRSample⟩ := by
  simp only [List.foldl_cons, famStep, Option.getD_none, List.nil_append]
  obtain ⟨mode, h1, h2, h3⟩ := famStep_fold_some cs
    (⟨c.key.metric, c.key.help, c.typ, if c.typ = gaugeType then some c.mode else none, [toRSample c]⟩ : Metric V)
  rw [h1]
  by_cases hg : c.typ = gaugeType
  · have := h2 c.mode (fun c' hc' => ⟨(hty c' hc').trans hg, hmo hg c' hc'⟩) (by simp [hg])
    simp [this, hg]
  · have := h3 (fun c' hc' => by rw [hty c' hc']; exact hg)
    simp [this, hg]

end PromVerif.Model.Multiprocess
