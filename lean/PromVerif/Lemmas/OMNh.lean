/-
`_parse_nh_struct` / `_parse_nh_sample`: nothing but ValueError escapes (once the field look-ups are wrapped,
979e8ea), and what a successful result looks like.
-/
import PromVerif.Lemmas.OMTotal

namespace PromVerif.Lemmas.OM
open PromVerif.Py PromVerif.Model.ParseCore PromVerif.Model.Validation PromVerif.Model.OMParse PromVerif.Generated.OMParse

/-- interpreter fact: no `\d` character is whitespace (so a matched delta list never strips to nothing) -/
def DigitsNotSpace (P : Params) : Prop := ∀ c, P.reD c = true → isPySpace c = false

theorem safe_mapM {α β : Type} (f : α → PyM β) (h : ∀ a, Safe (f a)) : ∀ l : List α, Safe (l.mapM f) := by
  intro l
  induction l with
  | nil => rw [List.mapM_nil]; exact safe_pure _
  | cons a l ih =>
    rw [List.mapM_cons]
    apply safe_bind (h a); intro b _
    apply safe_bind ih; intro bs _
    exact safe_pure _

theorem safe_itemGet (items : List (Str × Str)) (k : Str) : Safe (itemGet items k) := by
  have hflag : nhStructCatchesKeyError = true := by decide
  intro e he
  unfold itemGet at he
  split at he
  · cases he
  · rw [hflag] at he; cases he; rfl

theorem safe_composeSpans (P : Params) (ms : List (Str × Str)) (name : Str) : Safe (composeSpans P ms name) := by
  unfold composeSpans
  apply safe_bind
  · apply safe_mapM
    intro kv
    apply safe_bind
    · apply safe_mapM; intro pair
      apply safe_mapM; intro x
      exact safe_intE P x
    · intro _ _; exact safe_pure _
  · intro spans _
    split
    · exact safe_pure _
    · apply safe_bind
      · apply safe_mapM
        intro p
        split
        · exact safe_pure _
        · exact safe_throw
      · intro _ _; exact safe_pure _

/-- a matched list text starts with `-` or a digit -/
def HeadOK (P : Params) (body : Str) : Prop := ∃ c t, body = c :: t ∧ (c = '-' ∨ P.reD c = true)

theorem takeWhile_head (p : Char → Bool) (s a : Str) (h : s.takeWhile p = a) (hne : a ≠ []) : ∃ c t, a = c :: t ∧ p c = true := by
  cases s with
  | nil => simp at h; exact absurd h.symm hne.symm |> False.elim
  | cons x xs =>
    rw [List.takeWhile_cons] at h
    split at h
    · rename_i hx; exact ⟨x, _, h.symm, hx⟩
    · exact absurd h.symm hne

theorem matchSigned_head (P : Params) (s m r : Str) (h : matchSigned P s = some (m, r)) : HeadOK P m := by
  unfold matchSigned at h
  split at h
  rename_i sign body hsb
  dsimp only at h
  split at h
  · cases h
  · rename_i hne
    obtain ⟨rfl, _⟩ := Prod.mk.inj (Option.some.inj h)
    have hne' : body.takeWhile P.reD ≠ [] := by intro e; rw [e] at hne; exact hne rfl
    split at hsb
    · obtain ⟨rfl, _⟩ := Prod.mk.inj hsb
      exact ⟨'-', _, rfl, Or.inl rfl⟩
    · obtain ⟨rfl, _⟩ := Prod.mk.inj hsb
      obtain ⟨c, t, ht, hc⟩ := takeWhile_head P.reD body _ rfl hne'
      exact ⟨c, t, by simpa using ht, Or.inr hc⟩

theorem matchListTail_prefix (item : Str → Option (Str × Str)) : ∀ (fuel : Nat) (acc s body r : Str),
    matchListTail item fuel acc s = some (body, r) → ∃ t, body = acc ++ t := by
  intro fuel
  induction fuel with
  | zero => intro acc s body r h; cases h
  | succ f ih =>
    intro acc s body r h
    unfold matchListTail at h
    split at h
    · split at h
      · rename_i m rest _
        obtain ⟨t, ht⟩ := ih _ _ _ _ h
        exact ⟨',' :: m ++ t, by rw [ht]; simp⟩
      · cases h
    · obtain ⟨rfl, _⟩ := Prod.mk.inj (Option.some.inj h)
      exact ⟨[], by simp⟩
    · cases h

theorem matchList_head (P : Params) (item : Str → Option (Str × Str)) (hitem : ∀ s m r, item s = some (m, r) → HeadOK P m)
    (s body r : Str) (h : matchList item s = some (body, r)) : HeadOK P body := by
  unfold matchList at h
  split at h
  · rename_i m rest hm
    obtain ⟨c, t, rfl, hc⟩ := hitem _ _ _ hm
    obtain ⟨t', ht'⟩ := matchListTail_prefix item _ _ _ _ _ h
    exact ⟨c, t ++ t', by rw [ht']; rfl, hc⟩
  · cases h

theorem findKeyedLists_head (P : Params) (keys : List Str) (item : Str → Option (Str × Str))
    (hitem : ∀ s m r, item s = some (m, r) → HeadOK P m) : ∀ (fuel : Nat) (s : Str),
    ∀ kv ∈ findKeyedLists keys item fuel s, HeadOK P kv.2 := by
  intro fuel
  induction fuel with
  | zero => intro s kv h; simp [findKeyedLists] at h
  | succ f ih =>
    intro s kv h
    cases s with
    | nil => simp [findKeyedLists] at h
    | cons c cs =>
      unfold findKeyedLists at h
      split at h
      · rename_i k body rest hm
        rcases List.mem_cons.mp h with rfl | h'
        · unfold matchKeyedList at hm
          split at hm
          · cases hm
          · split at hm
            · split at hm
              · rename_i body' rest' hl
                simp only [Option.some.injEq, Prod.mk.injEq] at hm
                obtain ⟨_, rfl, _⟩ := hm
                exact matchList_head P item hitem _ _ _ hl
              · cases hm
            · cases hm
        · exact ih _ kv h'
      · exact ih _ kv h

theorem lookupLast_mem {β : Type} (k : Str) (l : List (Str × β)) (v : β) (h : lookupLast k l = some v) : ∃ kv ∈ l, kv.2 = v := by
  unfold lookupLast at h
  cases hf : l.reverse.find? (fun kv => kv.1 == k) with
  | none => rw [hf] at h; cases h
  | some kv =>
    rw [hf] at h
    exact ⟨kv, List.mem_reverse.mp (List.mem_of_find?_eq_some hf), Option.some.inj h⟩

theorem safe_composeDeltas (P : Params) (hd : DigitsNotSpace P) (deltas : List (Str × Str)) (name : Str)
    (hh : ∀ kv ∈ deltas, HeadOK P kv.2) : Safe (composeDeltas P deltas name) := by
  unfold composeDeltas
  split
  · exact safe_ok _
  · rename_i out hl
    obtain ⟨kv, hkv, rfl⟩ := lookupLast_mem _ _ _ hl
    obtain ⟨c, t, hct, hc⟩ := hh kv hkv
    have hns : isPySpace c = false := by
      rcases hc with rfl | hc
      · decide
      · exact hd c hc
    have hne : (strip kv.2).isEmpty = false := by
      have := take_safe_of_head (term := kv.2) (fun a ha => by rw [hct] at ha; cases ha; exact hns) kv.2.length
      rw [List.take_length] at this
      rcases this with h1 | h1
      · rw [hct] at h1; cases h1
      · cases hs : strip kv.2 with
        | nil => exact absurd hs h1
        | cons a b => rfl
    rw [hne]
    simp only [Bool.false_eq_true, if_false]
    apply safe_bind
    · apply safe_mapM; intro x; exact safe_intE P _
    · intro _ _; exact safe_pure _

/-- `_parse_nh_struct` raises nothing but ValueError -/
theorem safe_parseNhStruct (P : Params) (hd : DigitsNotSpace P) (text : Str) : Safe (parseNhStruct P text) := by
  unfold parseNhStruct
  dsimp only
  have hdel : ∀ kv ∈ findKeyedLists deltaKeys (matchSigned P) (text.length + 1) text, HeadOK P kv.2 :=
    findKeyedLists_head P deltaKeys (matchSigned P) (matchSigned_head P) _ _
  apply safe_bind (safe_itemGet _ _); intro _ _
  apply safe_bind (safe_intE P _); intro _ _
  apply safe_bind (safe_itemGet _ _); intro _ _
  apply safe_bind (safe_intE P _); intro _ _
  apply safe_bind (safe_itemGet _ _); intro _ _
  apply safe_bind (safe_intE P _); intro _ _
  apply safe_bind (safe_itemGet _ _); intro _ _
  apply safe_bind (safe_floatE P _); intro _ _
  apply safe_bind (safe_itemGet _ _); intro _ _
  apply safe_bind (safe_intE P _); intro _ _
  apply safe_bind (safe_composeSpans P _ _); intro _ _
  apply safe_bind (safe_composeSpans P _ _); intro _ _
  apply safe_bind (safe_composeDeltas P hd _ _ hdel); intro _ _
  apply safe_bind (safe_composeDeltas P hd _ _ hdel); intro _ _
  exact safe_pure _

/-- every successful result satisfies `Q` -/
def Post {α : Type} (Q : α → Prop) (x : PyM α) : Prop := ∀ a, x = .ok a → Q a

theorem post_bind {α β : Type} {Q : β → Prop} (x : PyM α) (f : α → PyM β) (h : ∀ a, Post Q (f a)) : Post Q (x >>= f) := by
  intro b hb
  cases x with
  | error e => cases hb
  | ok a => exact h a b hb

theorem post_pure {α : Type} {Q : α → Prop} (a : α) (h : Q a) : Post Q (pure a : PyM α) := by
  intro b hb; cases hb; exact h

theorem post_throw_bind {α β : Type} {Q : β → Prop} (e : PyErr) (f : α → PyM β) : Post Q ((throw e : PyM α) >>= f) := by
  intro b hb; cases hb

theorem post_ite {α : Type} {Q : α → Prop} {c : Prop} [Decidable c] {a b : PyM α} (ha : Post Q a) (hb : Post Q b) :
    Post Q (if c then a else b) := by
  split <;> assumption

theorem nhNameLabels_spec (suffixes : List Str) (name : Str) (labels : Labels) :
    Safe (nhNameLabels suffixes name labels) ∧
    ∀ n l, nhNameLabels suffixes name labels = .ok (n, l) → endsWithAny suffixes n = false := by
  have hflag : nhSuffixRecheck = true := by decide
  unfold nhNameLabels
  by_cases c1 : endsWithAny suffixes name = true
  · rw [if_pos c1]; exact ⟨safe_valueError, fun n l h => by cases h⟩
  · rw [if_neg c1]
    by_cases c2 : name.isEmpty = true
    · rw [if_pos c2]
      cases dictGet labels sName with
      | none => exact ⟨safe_valueError, fun n l h => by cases h⟩
      | some x =>
        dsimp only
        rw [hflag, Bool.true_and]
        by_cases c3 : endsWithAny suffixes x = true
        · rw [if_pos c3]; exact ⟨safe_valueError, fun n l h => by cases h⟩
        · rw [if_neg c3]
          refine ⟨safe_ok _, fun n l h => ?_⟩
          obtain ⟨rfl, _⟩ := Prod.mk.inj (Except.ok.inj h)
          simpa using c3
    · rw [if_neg c2]
      refine ⟨safe_ok _, fun n l h => ?_⟩
      obtain ⟨rfl, _⟩ := Prod.mk.inj (Except.ok.inj h)
      simpa using c1

/-- what `_parse_nh_sample` returns: `None`, or a sample carrying a native histogram whose name carries none of the suffixes
(the test is made on the name before the braces and — 6c551bc — again on a name taken from the braces) -/
def NhResult (suffixes : List Str) (o : Option OSample) : Prop :=
  ∀ s, o = some s → s.nh.isSome = true ∧ endsWithAny suffixes s.name = false

/-- `_parse_nh_sample` raises nothing but ValueError, and its result is as described -/
theorem parseNhSample_spec (P : Params) (hd : DigitsNotSpace P) (text : Str) (suffixes : List Str) :
    Safe (parseNhSample P text suffixes) ∧ Post (NhResult suffixes) (parseNhSample P text suffixes) := by
  unfold parseNhSample
  cases hdet : nhDetect text with
  | error e => exact ⟨fun e' he' => by cases he'; exact nhDetect_safe text e hdet, fun a h => by cases h⟩
  | ok o =>
    cases o with
    | none => exact ⟨safe_ok _, fun a h => by cases h; intro s hs; cases hs⟩
    | some pos =>
      dsimp only
      by_cases c : pos.hasMetricLabels = true
      · rw [if_pos c]
        cases hl : parseLabels P.legacy (pySlice text (pos.labelsStart + 1) pos.labelsEnd) true with
        | error e => exact ⟨fun e' he' => by cases he'; exact parseLabels_om_safe _ _ e hl, fun a h => by cases h⟩
        | ok labels =>
          dsimp only
          obtain ⟨hns, hnp⟩ := nhNameLabels_spec suffixes (pySlice text 0 pos.labelsStart) labels
          cases hn : nhNameLabels suffixes (pySlice text 0 pos.labelsStart) labels with
          | error e => exact ⟨fun e' he' => by cases he'; exact hns e hn, fun a h => by cases h⟩
          | ok nl =>
            obtain ⟨name, labels?⟩ := nl
            dsimp only
            cases hst : parseNhStruct P (text.drop pos.valueStart) with
            | error e => exact ⟨fun e' he' => by cases he'; exact safe_parseNhStruct P hd _ e hst, fun a h => by cases h⟩
            | ok nh =>
              refine ⟨safe_ok _, fun a h => ?_⟩
              cases h
              intro s hs; cases hs
              exact ⟨rfl, hnp name labels? hn⟩
      · rw [if_neg c]
        by_cases c2 : endsWithAny suffixes (pySlice text 0 (Int.ofNat pos.valueStart - 1)) = true
        · rw [if_pos c2]; exact ⟨safe_valueError, fun a h => by cases h⟩
        · rw [if_neg c2]
          cases hst : parseNhStruct P (text.drop pos.valueStart) with
          | error e => exact ⟨fun e' he' => by cases he'; exact safe_parseNhStruct P hd _ e hst, fun a h => by cases h⟩
          | ok nh =>
            refine ⟨safe_ok _, fun a h => ?_⟩
            cases h
            intro s hs; cases hs
            exact ⟨rfl, by simpa using c2⟩

end PromVerif.Lemmas.OM
