/-
Building blocks for the C03 round trip: `strip` on text with non-blank ends, what the legacy name alphabets cannot
contain, backslash-run parity, the closing-quote search of `parse_labels`, `_unquote_unescape` on rendered tokens.
-/
import PromVerif.Lemmas.Str
import PromVerif.Lemmas.Scanner

namespace PromVerif.Lemmas.TextParse
open PromVerif.Py PromVerif.Model.Escape PromVerif.Model.ParseCore PromVerif.Model.Validation
open PromVerif.Generated.Validation PromVerif.Lemmas.Escape PromVerif.Lemmas.Scanner

-- strip -------------------------------------------------------------------------------------------------------

theorem lstrip_of_head {s : Str} {a : Char} (h : s.head? = some a) (ha : isPySpace a = false) : lstrip s = s := by
  cases s with
  | nil => rfl
  | cons c cs =>
    simp at h; subst h
    simp [lstrip, lstripSet, List.dropWhile, ha]

theorem rstrip_of_last {s : Str} {b : Char} (h : s.getLast? = some b) (hb : isPySpace b = false) : rstrip s = s := by
  obtain ⟨ys, hs⟩ := List.getLast?_eq_some_iff.mp h
  rw [hs]
  exact rstripSet_append_singleton_of_not _ _ _ hb

/-- `s.strip() == s` when `s` begins and ends with non-blank characters -/
theorem strip_eq_self {s : Str} {a b : Char} (h1 : s.head? = some a) (ha : isPySpace a = false)
    (h2 : s.getLast? = some b) (hb : isPySpace b = false) : strip s = s := by
  have e1 : lstripSet isPySpace s = s := lstrip_of_head h1 ha
  unfold strip stripSet
  rw [e1]
  exact rstrip_of_last h2 hb

theorem strip_nil : strip [] = [] := rfl

/-- only trailing blanks are removed when the head is not blank -/
theorem strip_of_head {s : Str} {a : Char} (h : s.head? = some a) (ha : isPySpace a = false) : strip s = rstrip s := by
  have e1 : lstripSet isPySpace s = s := lstrip_of_head h ha
  unfold strip stripSet rstrip
  rw [e1]

-- the legacy alphabets ------------------------------------------------------------------------------------------

/-- a character of the legacy metric-name alphabet `[a-zA-Z0-9_:]` -/
def isLegacyChar (c : Char) : Bool := inClass metricNameRe.rest c

theorem legacyChar_range {c : Char} (h : isLegacyChar c = true) :
    (97 ≤ c.toNat ∧ c.toNat ≤ 122) ∨ (65 ≤ c.toNat ∧ c.toNat ≤ 90) ∨ (48 ≤ c.toNat ∧ c.toNat ≤ 57) ∨
      c.toNat = 95 ∨ c.toNat = 58 := by
  simp only [isLegacyChar, inClass, metricNameRe, List.any_cons, List.any_nil, Bool.or_false, Bool.or_eq_true,
    Bool.and_eq_true, decide_eq_true_eq] at h
  have e1 : ('a' : Char).toNat = 97 := rfl
  have e2 : ('z' : Char).toNat = 122 := rfl
  have e3 : ('A' : Char).toNat = 65 := rfl
  have e4 : ('Z' : Char).toNat = 90 := rfl
  have e5 : ('0' : Char).toNat = 48 := rfl
  have e6 : ('9' : Char).toNat = 57 := rfl
  have e7 : ('_' : Char).toNat = 95 := rfl
  have e8 : (':' : Char).toNat = 58 := rfl
  rw [e1, e2, e3, e4, e5, e6, e7, e8] at h
  omega

theorem legacyChar_not_space {c : Char} (h : isLegacyChar c = true) : isPySpace c = false := by
  have := legacyChar_range h
  unfold isPySpace
  simp only [Bool.or_eq_false_iff, Bool.and_eq_false_iff, decide_eq_false_iff_not]
  omega

theorem legacyChar_ne {c d : Char} (h : isLegacyChar c = true) (hd : isLegacyChar d = false) : c ≠ d := by
  intro e; subst e; rw [h] at hd; exact absurd hd (by decide)

theorem legacy_first_rest_metric {c : Char} (h : inClass metricNameRe.first c = true) : isLegacyChar c = true := by
  simp only [isLegacyChar, inClass, metricNameRe, List.any_cons, List.any_nil, Bool.or_false, Bool.or_eq_true,
    Bool.and_eq_true, decide_eq_true_eq] at h ⊢
  omega

theorem legacy_first_label {c : Char} (h : inClass labelNameRe.first c = true) : inClass metricNameRe.first c = true := by
  simp only [inClass, metricNameRe, labelNameRe, List.any_cons, List.any_nil, Bool.or_false, Bool.or_eq_true,
    Bool.and_eq_true, decide_eq_true_eq] at h ⊢
  omega

theorem legacy_rest_label {c : Char} (h : inClass labelNameRe.rest c = true) : isLegacyChar c = true := by
  simp only [isLegacyChar, inClass, metricNameRe, labelNameRe, List.any_cons, List.any_nil, Bool.or_false, Bool.or_eq_true,
    Bool.and_eq_true, decide_eq_true_eq] at h ⊢
  omega

/-- a string matched exactly by the legacy metric-name pattern: non-empty, every character in the alphabet -/
theorem matchExact_metric_chars {s : Str} (h : matchExact metricNameRe s = true) :
    s ≠ [] ∧ ∀ c ∈ s, isLegacyChar c = true := by
  cases s with
  | nil => simp [matchExact] at h
  | cons c cs =>
    simp only [matchExact, Bool.and_eq_true, List.all_eq_true] at h
    refine ⟨by simp, ?_⟩
    intro d hd
    rcases List.mem_cons.mp hd with e | e
    · subst e; exact legacy_first_rest_metric h.1
    · exact h.2 d e

theorem matchExact_label_metric {s : Str} (h : matchExact labelNameRe s = true) : matchExact metricNameRe s = true := by
  cases s with
  | nil => simp [matchExact] at h
  | cons c cs =>
    simp only [matchExact, Bool.and_eq_true, List.all_eq_true] at h ⊢
    exact ⟨legacy_first_label h.1, fun d hd => legacy_rest_label (h.2 d hd)⟩

/-- without a trailing line feed, `re.match` with `$` is an exact match (this is where F2 is excluded) -/
theorem matchName_exact {re : NameRe} {full : Bool} {s : Str} (h : matchName re full s = true)
    (hn : s.getLast? ≠ some '\n') : matchExact re s = true := by
  unfold matchName at h
  rw [Bool.or_eq_true] at h
  rcases h with h | h
  · exact h
  · rw [Bool.and_eq_true] at h
    have h2 := h.2
    split at h2
    · next e => exact absurd e hn
    · exact absurd h2 (by decide)

/-- with the end anchor `\\Z` (F2 repaired) `re.match` is an exact match -/
theorem matchName_exact_of_fixed {re : NameRe} {full : Bool} {s : Str} (hd : re.dollar = false)
    (h : matchName re full s = true) : matchExact re s = true := by
  unfold matchName at h
  simpa [hd] using h

/-- **F2 is repaired in the tree the proofs are checked against**: a name the legacy metric pattern accepts does not end
in a line feed (this proof breaks if the pattern goes back to `$`) -/
theorem legacyMetric_no_newline {n : Str} (hv : isValidLegacyMetricName n = true) : n.getLast? ≠ some '\n' := by
  have hm : matchExact metricNameRe n = true := matchName_exact_of_fixed rfl hv
  have hc := (matchExact_metric_chars hm).2
  intro hl
  exact legacyChar_ne (hc _ (List.mem_of_getLast? hl)) (by decide) rfl

theorem legacyLabel_no_newline {k : Str} (hv : isValidLegacyLabelname k = true) : k.getLast? ≠ some '\n' := by
  unfold isValidLegacyLabelname at hv
  simp only [Bool.and_eq_true] at hv
  have hm : matchExact labelNameRe k = true := matchName_exact_of_fixed rfl hv.1
  have hc := (matchExact_metric_chars (matchExact_label_metric hm)).2
  intro hl
  exact legacyChar_ne (hc _ (List.mem_of_getLast? hl)) (by decide) rfl

theorem matchExact_matchName {re : NameRe} {full : Bool} {s : Str} (h : matchExact re s = true) :
    matchName re full s = true := by
  unfold matchName; simp [h]

-- backslash parity -------------------------------------------------------------------------------------------------

/-- parity of the run of backslashes at the end of `s` -/
def trailOdd (s : Str) : Bool := s.foldl bsStep false

theorem trailOdd_append_singleton (s : Str) (c : Char) : trailOdd (s ++ [c]) = bsStep (trailOdd s) c := by
  simp [trailOdd, List.foldl_append]

theorem isCharacterEscaped_eq (s : Str) : isCharacterEscaped s s.length = trailOdd s := by
  unfold isCharacterEscaped
  rw [List.take_length]
  suffices h : ∀ r : Str, ((r.takeWhile (· == '\\')).length % 2 == 1) = trailOdd r.reverse by
    have := h s.reverse
    rwa [List.reverse_reverse] at this
  intro r
  induction r with
  | nil => rfl
  | cons c cs ih =>
    rw [List.reverse_cons, trailOdd_append_singleton, ← ih]
    simp only [List.takeWhile_cons, bsStep]
    by_cases hc : (c == '\\') = true
    · simp only [hc, ↓reduceIte, List.length_cons]
      generalize (List.takeWhile (fun x => x == '\\') cs).length = n
      cases h : n % 2 == 1 <;> simp at h ⊢ <;> omega
    · simp [hc]

theorem foldl_bsStep_eq (pre : Str) : pre.foldl bsStep false = trailOdd pre := rfl

-- every quote escaped -------------------------------------------------------------------------------------------------

/-- every double quote in the string is preceded by an odd run of backslashes (counting from parity `odd`) -/
def quotesEscaped : Bool → Str → Bool
  | _, [] => true
  | odd, c :: cs => (c != '"' || odd) && quotesEscaped (bsStep odd c) cs

theorem quotesEscaped_append (a b : Str) : ∀ odd,
    quotesEscaped odd (a ++ b) = (quotesEscaped odd a && quotesEscaped (a.foldl bsStep odd) b) := by
  induction a with
  | nil => intro odd; simp [quotesEscaped]
  | cons c cs ih => intro odd; simp only [List.cons_append, quotesEscaped, ih, List.foldl_cons, Bool.and_assoc]

theorem quotesEscaped_escChar (c : Char) :
    quotesEscaped false (escChar c) = true ∧ (escChar c).foldl bsStep false = false := by
  unfold escChar
  by_cases h1 : c = '\\'
  · subst h1; simp only [↓reduceIte]; exact ⟨by decide, by decide⟩
  · by_cases h2 : c = '\n'
    · subst h2; simp only [h1, ↓reduceIte]; exact ⟨by decide, by decide⟩
    · by_cases h3 : c = '"'
      · subst h3; simp only [h1, h2, ↓reduceIte]; exact ⟨by decide, by decide⟩
      · simp only [h1, h2, h3, ↓reduceIte]
        have e1 : (c != '"') = true := by simpa using h3
        have e2 : (c == '\\') = false := by simpa using h1
        exact ⟨by simp [quotesEscaped, e1], by simp [bsStep, e2]⟩

/-- in `escape v` every quote is escaped and the text ends with an even backslash run -/
theorem quotesEscaped_escape (v : Str) :
    quotesEscaped false (escape v) = true ∧ (escape v).foldl bsStep false = false := by
  induction v with
  | nil => rw [escape_nil]; exact ⟨rfl, rfl⟩
  | cons c cs ih =>
    have h := quotesEscaped_escChar c
    rw [escape_cons, quotesEscaped_append, List.foldl_append, h.1, h.2]
    simpa using ih


-- the closing-quote search of parse_labels ---------------------------------------------------------------------------

theorem split_first {c : Char} {a : Str} (h : c ∈ a) : ∃ x y, a = x ++ c :: y ∧ c ∉ x := by
  induction a with
  | nil => simp at h
  | cons d ds ih =>
    by_cases e : d = c
    · exact ⟨[], ds, by simp [e], by simp⟩
    · have : c ∈ ds := by
        rcases List.mem_cons.mp h with h | h
        · exact absurd h.symm e
        · exact h
      obtain ⟨x, y, hxy, hx⟩ := ih this
      refine ⟨d :: x, y, by simp [hxy], ?_⟩
      intro hm
      rcases List.mem_cons.mp hm with h | h
      · exact e h.symm
      · exact hx h

theorem trailOdd_append (a b : Str) : trailOdd (a ++ b) = b.foldl bsStep (trailOdd a) := by
  simp [trailOdd, List.foldl_append]

theorem isCharacterEscaped_take (term : Str) (p : Nat) (hp : p ≤ term.length) :
    isCharacterEscaped (term.take p) p = trailOdd (term.take p) := by
  have := isCharacterEscaped_eq (term.take p)
  rwa [List.length_take, Nat.min_eq_left hp] at this

/-- the `term.index('"', i)` loop finds the first quote that is not escaped: if every quote of `a` is escaped and
`pre ++ a` ends with an even backslash run, the loop started after `pre` stops at the quote following `a` -/
theorem findClosingQuote_spec (b : Str) : ∀ (fuel : Nat) (pre a : Str),
    quotesEscaped (trailOdd pre) a = true → trailOdd (pre ++ a) = false → a.length < fuel →
    findClosingQuote (pre ++ a ++ '"' :: b) fuel pre.length = some (pre.length + a.length) := by
  intro fuel
  induction fuel with
  | zero => intro pre a _ _ h; omega
  | succ f ih =>
    intro pre a hq hodd hf
    rw [findClosingQuote]
    have hlt : pre.length < (pre ++ a ++ '"' :: b).length := by simp; omega
    simp only [hlt, ↓reduceIte]
    have hdrop : (pre ++ a ++ '"' :: b).drop pre.length = a ++ '"' :: b := by
      rw [List.append_assoc, List.drop_left]
    rw [hdrop]
    by_cases hmem : '"' ∈ a
    · obtain ⟨x, y, hxy, hx⟩ := split_first hmem
      subst hxy
      have hfc : findChar '"' (x ++ '"' :: y ++ '"' :: b) = some x.length := by
        rw [List.append_assoc]; exact findChar_append_of_not_mem hx
      rw [hfc]
      simp only []
      have htake : (pre ++ (x ++ '"' :: y) ++ '"' :: b).take (pre.length + x.length) = pre ++ x := by
        rw [show pre ++ (x ++ '"' :: y) ++ '"' :: b = (pre ++ x) ++ ('"' :: y ++ '"' :: b) by simp]
        rw [show pre.length + x.length = (pre ++ x).length by simp]
        exact List.take_left
      rw [isCharacterEscaped_take _ _ (by simp), htake]
      rw [quotesEscaped_append] at hq
      simp only [Bool.and_eq_true] at hq
      have hq2 := hq.2
      rw [quotesEscaped] at hq2
      simp only [bne_self_eq_false, Bool.false_or, Bool.and_eq_true] at hq2
      have hodd1 : trailOdd (pre ++ x) = true := by rw [trailOdd_append]; exact hq2.1
      rw [hodd1]
      simp only [Bool.not_true, Bool.false_eq_true, ↓reduceIte]
      have hterm : pre ++ (x ++ '"' :: y) ++ '"' :: b = (pre ++ x ++ ['"']) ++ y ++ '"' :: b := by simp
      have hlen : pre.length + x.length + 1 = (pre ++ x ++ ['"']).length := by simp; omega
      have hodd2 : List.foldl bsStep (trailOdd pre) x = true := hq2.1
      rw [hterm, hlen, ih (pre ++ x ++ ['"']) y]
      · simp; omega
      · rw [trailOdd_append_singleton, hodd1]; rw [hodd2] at hq2; exact hq2.2
      · rw [← hodd]; congr 1; simp
      · simp at hf; omega
    · rw [findChar_append_of_not_mem hmem]
      simp only []
      have htake : (pre ++ a ++ '"' :: b).take (pre.length + a.length) = pre ++ a := by
        rw [show pre.length + a.length = (pre ++ a).length by simp]
        exact List.take_left
      rw [isCharacterEscaped_take _ _ (by simp), htake, hodd]
      simp

-- _unquote_unescape on rendered tokens ------------------------------------------------------------------------------

theorem getLast?_cons_concat (m : List Char) (c d : Char) : (c :: (m ++ [d])).getLast? = some d := by
  rw [List.getLast?_eq_some_iff]
  exact ⟨c :: m, rfl⟩

theorem quote_not_space : isPySpace '"' = false := by decide

theorem strip_quoted (m : Str) : strip ('"' :: (m ++ ['"'])) = '"' :: (m ++ ['"']) :=
  strip_eq_self (a := '"') (b := '"') rfl quote_not_space (getLast?_cons_concat _ _ _) quote_not_space

/-- `_unquote_unescape('"' + _escape(v) + '"') == (v, True)` -/
theorem unquoteUnescape_quoted (v : Str) : unquoteUnescape ('"' :: (escape v ++ ['"'])) = .ok (v, true) := by
  unfold unquoteUnescape
  simp only [List.isEmpty_cons, Bool.false_eq_true, ↓reduceIte, strip_quoted]
  have h1 : (('"' :: (escape v ++ ['"'])).length == 1) = false := by simp
  have h2 : (('"' :: (escape v ++ ['"'])).getLast? != some '"') = false := by rw [getLast?_cons_concat]; rfl
  simp only [h1, h2, Bool.or_self, Bool.false_eq_true, ↓reduceIte]
  have h3 : (List.drop 1 ('"' :: (escape v ++ ['"']))).dropLast = escape v := by simp
  rw [h3]
  by_cases hc : (escape v).contains '\\' = true
  · simp only [hc, ↓reduceIte, unescape_escape]
  · simp only [hc, Bool.false_eq_true, ↓reduceIte]
    have : '\\' ∉ escape v := by simpa using hc
    have u := unescape_escape v
    unfold replaceEscaping at u
    rw [replaceEscapingWith_of_no_bs _ _ this] at u
    rw [u]

theorem strip_legacy {k : Str} (h : ∀ c ∈ k, isLegacyChar c = true) : strip k = k := by
  cases k with
  | nil => rfl
  | cons c cs =>
    obtain ⟨b, hb⟩ : ∃ b, (c :: cs).getLast? = some b := by
      cases hl : (c :: cs).getLast? with
      | none => simp at hl
      | some b => exact ⟨b, rfl⟩
    have hbm : b ∈ c :: cs := List.mem_of_getLast? hb
    exact strip_eq_self (a := c) (b := b) rfl (legacyChar_not_space (h c (by simp))) hb (legacyChar_not_space (h b hbm))

/-- `_unquote_unescape(k) == (k, False)` for a bare legacy name -/
theorem unquoteUnescape_bare {k : Str} (hne : k ≠ []) (h : ∀ c ∈ k, isLegacyChar c = true) :
    unquoteUnescape k = .ok (k, false) := by
  unfold unquoteUnescape
  have he : k.isEmpty = false := by cases k <;> simp at hne ⊢
  simp only [he, Bool.false_eq_true, ↓reduceIte, strip_legacy h]
  cases k with
  | nil => exact absurd rfl hne
  | cons c cs =>
    have hq : c ≠ '"' := legacyChar_ne (h c (by simp)) (by decide)
    have hb : (c :: cs).contains '\\' = false := by
      apply Bool.eq_false_iff.mpr
      intro hm
      have : '\\' ∈ c :: cs := by simpa using hm
      exact legacyChar_ne (h _ this) (by decide) rfl
    split
    · rename_i e; simp at e
    · rename_i e; simp at e; exact absurd e.1 hq
    · simp only [hb, Bool.false_eq_true, ↓reduceIte]
end PromVerif.Lemmas.TextParse
