/-
The sample line: `_parse_sample` applied to what `sample_line` renders gives back name, label dict, value token and
timestamp, for bare and quoted metric names, with and without labels.
-/
import PromVerif.Lemmas.TextParseLabels
import PromVerif.Model.TextParse
namespace PromVerif.Lemmas.TextParse
open PromVerif.Py PromVerif.Model.Escape PromVerif.Model.ParseCore PromVerif.Model.Validation PromVerif.Model.TextExpo
open PromVerif.Model.TextParse
open PromVerif.Generated.Validation PromVerif.Lemmas.Escape PromVerif.Lemmas.Scanner

/-- a quoted metric name inside the braces -/
def qname (n : Str) : Str := '"' :: (escape n ++ ['"'])

theorem validateMetricName_nameLabel (legacy : Bool) : validateMetricName legacy "__name__".toList = .ok () := by
  cases legacy <;> rfl

theorem parseOneLabel_qname (legacy : Bool) (n : Str) (r : List (Str × Str)) :
    parseOneLabel legacy false (qname n ++ tailStr r) [] = .ok ([("__name__".toList, n)], tailStr r) := by
  unfold parseOneLabel
  have hnt := nextTerm_term (tm := qname n) (quoted_pass termChs termChs_safe.quote n) ⟨'"', _, rfl, by decide, by decide⟩
    (strip_quoted _) r false
  simp only [Bool.false_eq_true, ↓reduceIte, List.nil_append] at hnt
  rw [hnt]
  have hne : (qname n).isEmpty = false := rfl
  have hop : nextUnquotedChar (qname n) (· == '=') 0 = none := by
    rw [nextUnquotedChar_zero]
    exact scan_none_of_noHit eqChs _ _ _ (quoted_pass eqChs eqChs_safe.quote n).1
  have hlen : ((escape n).length + 1 + 1 != (qname n).length) = false := by simp [qname]
  have htk : List.take ((escape n).length + 1 + 1) (qname n) = qname n := by
    apply List.take_of_length_le; simp [qname]
  have hq : qname n = '"' :: (escape n ++ ['"']) := rfl
  have hsq : strip (qname n) = qname n := strip_quoted _
  have hfc := findClosingQuote_quoted n
  rw [← hq] at hfc
  have huu := unquoteUnescape_quoted n
  rw [← hq] at huu
  simp only [bind, Except.bind, pure, Except.pure, hne, Bool.false_eq_true, ↓reduceIte, hop, hsq]
  rw [hq]
  simp only [← hq, hfc, hlen, htk, huu, Bool.false_eq_true, ↓reduceIte]
  simp only [Bool.not_true, Bool.false_and, Bool.false_eq_true, ↓reduceIte, beq_self_eq_true,
    validateMetricName_nameLabel, List.any_nil, List.nil_append]
  rw [hq]
  rfl

theorem parseLabels_named {legacy : Bool} (n : Str) (L : List (Str × Str))
    (hok : ∀ x ∈ L, labelNameOK legacy x.1 = true) (hnd : (L.map (·.1)).Nodup) :
    parseLabels legacy (qname n ++ tailStr L) false = .ok (("__name__".toList, n) :: L) := by
  have hlast : (qname n ++ tailStr L).getLast? = some '"' := by
    rw [List.getLast?_append]
    by_cases hr : L = []
    · subst hr; simp [tailStr, qname, getLast?_cons_concat]
    · rw [tail_last L hr]; rfl
  have hstrip : strip (qname n ++ tailStr L) = qname n ++ tailStr L :=
    strip_eq_self (a := '"') (b := '"') rfl (by decide) hlast (by decide)
  unfold parseLabels
  simp only [hstrip, Bool.false_and, Bool.false_eq_true, ↓reduceIte]
  rw [parseLabelsLoop]
  have hne : (qname n ++ tailStr L).isEmpty = false := rfl
  simp only [hne, Bool.false_eq_true, ↓reduceIte, bind, Except.bind, parseOneLabel_qname]
  have hnd' : (([("__name__".toList, n)] ++ L).map (·.1)).Nodup := by
    simp only [List.singleton_append, List.map_cons, List.nodup_cons]
    refine ⟨?_, hnd⟩
    intro hm
    obtain ⟨x, hx, he⟩ := List.mem_map.mp hm
    exact labelNameOK_ne_name (hok x hx) he
  rw [loop_tail L [("__name__".toList, n)] _ (by have := tailStr_length L; simp; omega) hok hnd']
  rfl
/-- characters of a rendered number: digits, `e . + -` and the letters of `+Inf`, `-Inf`, `NaN` -/
def isNumChar (c : Char) : Bool :=
  isDigit c || c == 'e' || c == '.' || c == '+' || c == '-' || c == 'I' || c == 'n' || c == 'f' || c == 'N' || c == 'a'

/-- a rendered number token: non-empty, number characters only -/
def NumTok (t : Str) : Prop := t ≠ [] ∧ ∀ c ∈ t, isNumChar c = true

instance (t : Str) : Decidable (NumTok t) := by unfold NumTok; infer_instance

theorem isDigit_range {c : Char} (h : isDigit c = true) : 48 ≤ c.toNat ∧ c.toNat ≤ 57 := by
  simp only [isDigit, Bool.and_eq_true, decide_eq_true_eq] at h
  have h1 := h.1; have h2 := h.2
  rw [Char.le_def, UInt32.le_iff_toNat_le] at h1 h2
  exact ⟨h1, h2⟩

theorem numChar_ne {c d : Char} (h : isNumChar c = true) (hd : isNumChar d = false) : c ≠ d := by
  intro e; subst e; rw [h] at hd; exact absurd hd (by decide)

theorem numChar_not_space {c : Char} (h : isNumChar c = true) : isPySpace c = false := by
  unfold isNumChar at h
  simp only [Bool.or_eq_true, beq_iff_eq] at h
  rcases h with ((((((((h | h) | h) | h) | h) | h) | h) | h) | h) | h
  · have := isDigit_range h
    unfold isPySpace
    simp only [Bool.or_eq_false_iff, Bool.and_eq_false_iff, decide_eq_false_iff_not]
    omega
  all_goals (subst h; decide)

theorem strip_numTok {t : Str} (h : NumTok t) : strip t = t := by
  obtain ⟨hne, hc⟩ := h
  cases t with
  | nil => rfl
  | cons c cs =>
    obtain ⟨b, hb⟩ : ∃ b, (c :: cs).getLast? = some b := by
      cases hl : (c :: cs).getLast? with
      | none => simp at hl
      | some b => exact ⟨b, rfl⟩
    exact strip_eq_self (a := c) (b := b) rfl (numChar_not_space (hc c (by simp))) hb
      (numChar_not_space (hc b (List.mem_of_getLast? hb)))

theorem numTok_not_mem {t : Str} (h : NumTok t) {d : Char} (hd : isNumChar d = false) : d ∉ t :=
  fun hm => numChar_ne (h.2 d hm) hd rfl

theorem parseValue_numTok (pyInt : Str → Option Int) (pyFloat : Str → Option Nat) {t : Str} (h : NumTok t) :
    parseValue pyInt pyFloat t = match pyInt t with
      | some n => .ok (.int n)
      | none => match pyFloat t with
        | some b => .ok (.flt b)
        | none => .error .valueError := by
  unfold parseValue
  have h1 : (t != strip t) = false := by rw [strip_numTok h]; simp
  have h2 : t.contains '_' = false := by
    apply Bool.eq_false_iff.mpr; intro hm
    exact numTok_not_mem h (d := '_') (by decide) (by simpa using hm)
  simp only [h1, h2, Bool.or_self, Bool.false_eq_true, ↓reduceIte]
  rfl

theorem intStr_numTok (n : Int) : NumTok (intStr n) := by
  unfold intStr
  cases n with
  | ofNat k =>
    simp only []
    refine ⟨?_, ?_⟩
    · have := decDigits_length_pos k; intro e; rw [e] at this; simp at this
    · intro c hc
      have := List.all_eq_true.mp (allDigits_decDigits k) c hc
      simp [isNumChar, this]
  | negSucc k =>
    simp only []
    refine ⟨by simp, ?_⟩
    intro c hc
    rcases List.mem_cons.mp hc with e | e
    · subst e; decide
    · have := List.all_eq_true.mp (allDigits_decDigits (k + 1)) c e
      simp [isNumChar, this]

-- str.split -----------------------------------------------------------------------------------------------------------

theorem splitOnChar_of_not_mem {c : Char} {s : Str} (h : c ∉ s) : splitOnChar c s = [s] := by
  induction s with
  | nil => rfl
  | cons x xs ih =>
    have hx : x ≠ c := fun e => h (by simp [e])
    have hxs : c ∉ xs := fun e => h (by simp [e])
    rw [splitOnChar]; simp only [hx, ↓reduceIte, ih hxs]

theorem splitOnChar_append {c : Char} {a : Str} (b : Str) (h : c ∉ a) :
    splitOnChar c (a ++ c :: b) = a :: splitOnChar c b := by
  induction a with
  | nil => simp [splitOnChar]
  | cons x xs ih =>
    have hx : x ≠ c := fun e => h (by simp [e])
    have hxs : c ∉ xs := fun e => h (by simp [e])
    rw [List.cons_append, splitOnChar]; simp only [hx, ↓reduceIte, ih hxs]

/-- the text after the name / label block: ` value[ millis]`, with or without the leading blank -/
def valTs (tok : Str) (ms : Option Int) : Str :=
  tok ++ (match ms with | none => [] | some m => ' ' :: intStr m)

theorem lstrip_space_numTok {t r : Str} (h : NumTok t) (lead : Bool) :
    lstrip ((if lead then [' '] else []) ++ (t ++ r)) = t ++ r := by
  obtain ⟨hne, hc⟩ := h
  cases t with
  | nil => exact absurd rfl hne
  | cons c cs =>
    have hs := numChar_not_space (hc c (by simp))
    have h0 : lstrip (c :: cs ++ r) = c :: cs ++ r := lstrip_of_head (a := c) rfl hs
    cases lead with
    | false => simpa using h0
    | true =>
      have hsp : isPySpace ' ' = true := by decide
      simp only [↓reduceIte, List.singleton_append]
      unfold lstrip lstripSet at h0 ⊢
      rw [List.dropWhile_cons, hsp]
      exact h0

theorem pvt_valTs (pyInt : Str → Option Int) (pyFloat : Str → Option Nat) {tok : Str} (h : NumTok tok) (ms : Option Int)
    (lead : Bool) :
    parseValueAndTimestamp pyInt pyFloat ((if lead then [' '] else []) ++ valTs tok ms) =
      (do let v ← parseValue pyInt pyFloat tok
          match ms with
          | none => pure (v, none)
          | some m => do
            let t ← parseValue pyInt pyFloat (intStr m)
            let ts ← divThousand t
            pure (v, some ts)) := by
  unfold parseValueAndTimestamp valTs
  rw [lstrip_space_numTok h lead]
  have hsp : ' ' ∉ tok := numTok_not_mem h (d := ' ') (by decide)
  have htb : '\t' ∉ tok := numTok_not_mem h (d := '\t') (by decide)
  have hne : tok.isEmpty = false := by cases tok <;> simp [h.1] ; exact absurd rfl h.1
  cases ms with
  | none =>
    have hc : tok.contains ' ' = false := by
      apply Bool.eq_false_iff.mpr; intro hm; exact hsp (by simpa using hm)
    simp only [hc, Bool.false_eq_true, ↓reduceIte, List.append_nil, splitOnChar_of_not_mem htb, List.map_cons, List.map_nil,
      strip_numTok h, List.filter_cons, hne, Bool.not_false, List.filter_nil, List.getLast?_nil]
  | some m =>
    have hm := intStr_numTok m
    have hsp' : ' ' ∉ intStr m := numTok_not_mem hm (d := ' ') (by decide)
    have hne' : (intStr m).isEmpty = false := by
      cases hh : intStr m with
      | nil => exact absurd hh hm.1
      | cons _ _ => rfl
    have hc : (tok ++ ' ' :: intStr m).contains ' ' = true := by simp
    simp only [hc, ↓reduceIte, splitOnChar_append _ hsp, splitOnChar_of_not_mem hsp', List.map_cons, List.map_nil,
      strip_numTok h, strip_numTok hm, List.filter_cons, hne, hne', Bool.not_false, List.filter_nil]
    rfl

end PromVerif.Lemmas.TextParse
