/-
The sample line: `_parse_sample` applied to what `sample_line` renders gives back name, label dict, value token and
timestamp, for bare and quoted metric names, with and without labels.
-/
import PromVerif.Lemmas.TextParseLabels
import PromVerif.Model.TextParse
namespace PromVerif.Lemmas.TextParse
open PromVerif.Py PromVerif.Model PromVerif.Model.Escape PromVerif.Model.ParseCore PromVerif.Model.Validation PromVerif.Model.TextExpo
open PromVerif.Model.TextParse
open PromVerif.Generated.Validation PromVerif.Lemmas.Escape PromVerif.Lemmas.Scanner

/-- a quoted metric name inside the braces -/
def qname (n : Str) : Str := '"' :: (escape n ++ ['"'])

theorem validateMetricName_nameLabel (legacy : Bool) : validateMetricName legacy "__name__".toList = .ok () := by
  cases legacy <;> rfl

theorem parseOneLabel_qname (legacy : Bool) (n : Str) (r : List (Str × Str)) :
    parseOneLabel legacy false (qname n ++ tailStr r) [] = .ok ([("__name__".toList, n)], tailStr r) := by
  unfold parseOneLabel
  have hnt := nextTerm_term (tm := qname n) (quoted_pass termChs termChs_safe.quote n) ⟨'"', _, rfl, by decide, by decide⟩
    (strip_quoted _) r false
  simp only [Bool.false_eq_true, ↓reduceIte, List.nil_append] at hnt
  rw [hnt]
  have hne : (qname n).isEmpty = false := rfl
  have hop : nextUnquotedChar (qname n) (· == '=') 0 = none := by
    rw [nextUnquotedChar_zero]
    exact scan_none_of_noHit eqChs _ _ _ (quoted_pass eqChs eqChs_safe.quote n).1
  have hlen : ((escape n).length + 1 + 1 != (qname n).length) = false := by simp [qname]
  have htk : List.take ((escape n).length + 1 + 1) (qname n) = qname n := by
    apply List.take_of_length_le; simp [qname]
  have hq : qname n = '"' :: (escape n ++ ['"']) := rfl
  have hsq : strip (qname n) = qname n := strip_quoted _
  have hfc := findClosingQuote_quoted n
  rw [← hq] at hfc
  have huu := unquoteUnescape_quoted n
  rw [← hq] at huu
  simp only [bind, Except.bind, pure, Except.pure, hne, Bool.false_eq_true, ↓reduceIte, hop, hsq]
  rw [hq]
  simp only [← hq, hfc, hlen, htk, huu, Bool.false_eq_true, ↓reduceIte]
  simp only [Bool.not_true, Bool.false_and, Bool.false_eq_true, ↓reduceIte, beq_self_eq_true,
    validateMetricName_nameLabel, List.any_nil, List.nil_append]
  rw [hq]
  rfl

theorem parseLabels_named {legacy : Bool} (n : Str) (L : List (Str × Str))
    (hok : ∀ x ∈ L, labelNameOK legacy x.1 = true) (hnd : (L.map (·.1)).Nodup) :
    parseLabels legacy (qname n ++ tailStr L) false = .ok (("__name__".toList, n) :: L) := by
  have hlast : (qname n ++ tailStr L).getLast? = some '"' := by
    rw [List.getLast?_append]
    by_cases hr : L = []
    · subst hr; simp [tailStr, qname, getLast?_cons_concat]
    · rw [tail_last L hr]; rfl
  have hstrip : strip (qname n ++ tailStr L) = qname n ++ tailStr L :=
    strip_eq_self (a := '"') (b := '"') rfl (by decide) hlast (by decide)
  unfold parseLabels
  simp only [hstrip, Bool.false_and, Bool.false_eq_true, ↓reduceIte]
  rw [parseLabelsLoop]
  have hne : (qname n ++ tailStr L).isEmpty = false := rfl
  simp only [hne, Bool.false_eq_true, ↓reduceIte, bind, Except.bind, parseOneLabel_qname]
  have hnd' : (([("__name__".toList, n)] ++ L).map (·.1)).Nodup := by
    simp only [List.singleton_append, List.map_cons, List.nodup_cons]
    refine ⟨?_, hnd⟩
    intro hm
    obtain ⟨x, hx, he⟩ := List.mem_map.mp hm
    exact labelNameOK_ne_name (hok x hx) he
  rw [loop_tail L [("__name__".toList, n)] _ (by have := tailStr_length L; simp; omega) hok hnd']
  rfl
/-- characters of a rendered number: digits, `e . + -` and the letters of `+Inf`, `-Inf`, `NaN` -/
def isNumChar (c : Char) : Bool :=
  isDigit c || c == 'e' || c == '.' || c == '+' || c == '-' || c == 'I' || c == 'n' || c == 'f' || c == 'N' || c == 'a'

/-- a rendered number token: non-empty, number characters only -/
def NumTok (t : Str) : Prop := t ≠ [] ∧ ∀ c ∈ t, isNumChar c = true

instance (t : Str) : Decidable (NumTok t) := by unfold NumTok; infer_instance

theorem isDigit_range {c : Char} (h : isDigit c = true) : 48 ≤ c.toNat ∧ c.toNat ≤ 57 := by
  simp only [isDigit, Bool.and_eq_true, decide_eq_true_eq] at h
  have h1 := h.1; have h2 := h.2
  rw [Char.le_def, UInt32.le_iff_toNat_le] at h1 h2
  exact ⟨h1, h2⟩

theorem numChar_ne {c d : Char} (h : isNumChar c = true) (hd : isNumChar d = false) : c ≠ d := by
  intro e; subst e; rw [h] at hd; exact absurd hd (by decide)

theorem numChar_not_space {c : Char} (h : isNumChar c = true) : isPySpace c = false := by
  unfold isNumChar at h
  simp only [Bool.or_eq_true, beq_iff_eq] at h
  rcases h with ((((((((h | h) | h) | h) | h) | h) | h) | h) | h) | h
  · have := isDigit_range h
    unfold isPySpace
    simp only [Bool.or_eq_false_iff, Bool.and_eq_false_iff, decide_eq_false_iff_not]
    omega
  all_goals (subst h; decide)

theorem strip_numTok {t : Str} (h : NumTok t) : strip t = t := by
  obtain ⟨hne, hc⟩ := h
  cases t with
  | nil => rfl
  | cons c cs =>
    obtain ⟨b, hb⟩ : ∃ b, (c :: cs).getLast? = some b := by
      cases hl : (c :: cs).getLast? with
      | none => simp at hl
      | some b => exact ⟨b, rfl⟩
    exact strip_eq_self (a := c) (b := b) rfl (numChar_not_space (hc c (by simp))) hb
      (numChar_not_space (hc b (List.mem_of_getLast? hb)))

theorem numTok_not_mem {t : Str} (h : NumTok t) {d : Char} (hd : isNumChar d = false) : d ∉ t :=
  fun hm => numChar_ne (h.2 d hm) hd rfl

theorem parseValue_numTok (pyInt : Str → Option Int) (pyFloat : Str → Option Nat) {t : Str} (h : NumTok t) :
    parseValue pyInt pyFloat t = match pyInt t with
      | some n => .ok (.int n)
      | none => match pyFloat t with
        | some b => .ok (.flt b)
        | none => .error .valueError := by
  unfold parseValue
  have h1 : (t != strip t) = false := by rw [strip_numTok h]; simp
  have h2 : t.contains '_' = false := by
    apply Bool.eq_false_iff.mpr; intro hm
    exact numTok_not_mem h (d := '_') (by decide) (by simpa using hm)
  simp only [h1, h2, Bool.or_self, Bool.false_eq_true, ↓reduceIte]
  rfl

theorem intStr_numTok (n : Int) : NumTok (intStr n) := by
  unfold intStr
  cases n with
  | ofNat k =>
    simp only []
    refine ⟨?_, ?_⟩
    · have := decDigits_length_pos k; intro e; rw [e] at this; simp at this
    · intro c hc
      have := List.all_eq_true.mp (allDigits_decDigits k) c hc
      simp [isNumChar, this]
  | negSucc k =>
    simp only []
    refine ⟨by simp, ?_⟩
    intro c hc
    rcases List.mem_cons.mp hc with e | e
    · subst e; decide
    · have := List.all_eq_true.mp (allDigits_decDigits (k + 1)) c e
      simp [isNumChar, this]

-- str.split -----------------------------------------------------------------------------------------------------------

theorem splitOnChar_of_not_mem {c : Char} {s : Str} (h : c ∉ s) : splitOnChar c s = [s] := by
  induction s with
  | nil => rfl
  | cons x xs ih =>
    have hx : x ≠ c := fun e => h (by simp [e])
    have hxs : c ∉ xs := fun e => h (by simp [e])
    rw [splitOnChar]; simp only [hx, ↓reduceIte, ih hxs]

theorem splitOnChar_append {c : Char} {a : Str} (b : Str) (h : c ∉ a) :
    splitOnChar c (a ++ c :: b) = a :: splitOnChar c b := by
  induction a with
  | nil => simp [splitOnChar]
  | cons x xs ih =>
    have hx : x ≠ c := fun e => h (by simp [e])
    have hxs : c ∉ xs := fun e => h (by simp [e])
    rw [List.cons_append, splitOnChar]; simp only [hx, ↓reduceIte, ih hxs]

/-- the text after the name / label block: ` value[ millis]`, with or without the leading blank -/
def valTs (tok : Str) (ms : Option Int) : Str :=
  tok ++ (match ms with | none => [] | some m => ' ' :: intStr m)

theorem lstrip_space_numTok {t r : Str} (h : NumTok t) (lead : Bool) :
    lstrip ((if lead then [' '] else []) ++ (t ++ r)) = t ++ r := by
  obtain ⟨hne, hc⟩ := h
  cases t with
  | nil => exact absurd rfl hne
  | cons c cs =>
    have hs := numChar_not_space (hc c (by simp))
    have h0 : lstrip (c :: cs ++ r) = c :: cs ++ r := lstrip_of_head (a := c) rfl hs
    cases lead with
    | false => simpa using h0
    | true =>
      have hsp : isPySpace ' ' = true := by decide
      simp only [↓reduceIte, List.singleton_append]
      unfold lstrip lstripSet at h0 ⊢
      rw [List.dropWhile_cons, hsp]
      exact h0

theorem pvt_valTs (pyInt : Str → Option Int) (pyFloat : Str → Option Nat) {tok : Str} (h : NumTok tok) (ms : Option Int)
    (lead : Bool) :
    parseValueAndTimestamp pyInt pyFloat ((if lead then [' '] else []) ++ valTs tok ms) =
      (do let v ← parseValue pyInt pyFloat tok
          match ms with
          | none => pure (v, none)
          | some m => do
            let t ← parseValue pyInt pyFloat (intStr m)
            let ts ← divThousand t
            pure (v, some ts)) := by
  unfold parseValueAndTimestamp valTs
  rw [lstrip_space_numTok h lead]
  have hsp : ' ' ∉ tok := numTok_not_mem h (d := ' ') (by decide)
  have htb : '\t' ∉ tok := numTok_not_mem h (d := '\t') (by decide)
  have hne : tok.isEmpty = false := by cases tok <;> simp [h.1] ; exact absurd rfl h.1
  cases ms with
  | none =>
    have hc : tok.contains ' ' = false := by
      apply Bool.eq_false_iff.mpr; intro hm; exact hsp (by simpa using hm)
    simp only [hc, Bool.false_eq_true, ↓reduceIte, List.append_nil, splitOnChar_of_not_mem htb, List.map_cons, List.map_nil,
      strip_numTok h, List.filter_cons, hne, Bool.not_false, List.filter_nil, List.getLast?_nil]
  | some m =>
    have hm := intStr_numTok m
    have hsp' : ' ' ∉ intStr m := numTok_not_mem hm (d := ' ') (by decide)
    have hne' : (intStr m).isEmpty = false := by
      cases hh : intStr m with
      | nil => exact absurd hh hm.1
      | cons _ _ => rfl
    have hc : (tok ++ ' ' :: intStr m).contains ' ' = true := by simp
    simp only [hc, ↓reduceIte, splitOnChar_append _ hsp, splitOnChar_of_not_mem hsp', List.map_cons, List.map_nil,
      strip_numTok h, strip_numTok hm, List.filter_cons, hne, hne', Bool.not_false, List.filter_nil]
    rfl

-- the sample line ------------------------------------------------------------------------------------------------

theorem rstripSet_append_singleton_of (p : Char → Bool) (a : Str) (c : Char) (h : p c = true) :
    rstripSet p (a ++ [c]) = rstripSet p a := by
  induction a with
  | nil => simp [rstripSet, h]
  | cons x xs ih => simp only [List.cons_append, rstripSet, ih]

theorem valTs_last {tok : Str} (h : NumTok tok) (ms : Option Int) :
    ∃ b, (valTs tok ms).getLast? = some b ∧ isPySpace b = false := by
  unfold valTs
  cases ms with
  | none =>
    simp only [List.append_nil]
    cases hl : tok.getLast? with
    | none => exact absurd (List.getLast?_eq_none_iff.mp hl) h.1
    | some b => exact ⟨b, rfl, numChar_not_space (h.2 b (List.mem_of_getLast? hl))⟩
  | some m =>
    have hm := intStr_numTok m
    cases hl : (intStr m).getLast? with
    | none => exact absurd (List.getLast?_eq_none_iff.mp hl) hm.1
    | some b =>
      refine ⟨b, ?_, numChar_not_space (hm.2 b (List.mem_of_getLast? hl))⟩
      simp only []
      rw [List.getLast?_append, List.getLast?_cons, hl]
      rfl

/-- stripping a rendered line removes exactly the final line feed -/
theorem strip_line {hd : Str} {a : Char} (hh : hd.head? = some a) (ha : isPySpace a = false) {tok : Str} (h : NumTok tok)
    (ms : Option Int) :
    strip (hd ++ ' ' :: valTs tok ms ++ ['\n']) = hd ++ ' ' :: valTs tok ms := by
  obtain ⟨b, hb, hbs⟩ := valTs_last h ms
  have hhead : (hd ++ ' ' :: valTs tok ms ++ ['\n']).head? = some a := by
    cases hd with
    | nil => simp at hh
    | cons x xs => simpa using hh
  rw [strip_of_head hhead ha]
  unfold rstrip
  rw [show hd ++ ' ' :: valTs tok ms ++ ['\n'] = (hd ++ ' ' :: valTs tok ms) ++ ['\n'] by simp]
  rw [rstripSet_append_singleton_of _ _ _ (by decide)]
  apply rstrip_of_last (b := b) _ hbs
  rw [List.getLast?_append, List.getLast?_cons, hb]
  rfl

/-- text the scanner passes because it has no quote, no backslash and no wanted character -/
def PlainFor (chs : Char → Bool) (s : Str) : Prop := ∀ c ∈ s, c ≠ '"' ∧ c ≠ '\\' ∧ chs c = false

theorem plainFor_append {chs : Char → Bool} {a b : Str} (ha : PlainFor chs a) (hb : PlainFor chs b) : PlainFor chs (a ++ b) := by
  intro c hc
  rcases List.mem_append.mp hc with h | h
  · exact ha c h
  · exact hb c h

theorem plainFor_valTs {chs : Char → Bool} (hsp : chs ' ' = false) (hn : ∀ c, isNumChar c = true → chs c = false) {tok : Str}
    (h : NumTok tok) (ms : Option Int) : PlainFor chs (' ' :: valTs tok ms) := by
  have hnum : ∀ t, NumTok t → PlainFor chs t := fun t ht c hc =>
    ⟨numChar_ne (ht.2 c hc) (by decide), numChar_ne (ht.2 c hc) (by decide), hn c (ht.2 c hc)⟩
  have hs : PlainFor chs [' '] := by
    intro c hc; simp at hc; subst hc; exact ⟨by decide, by decide, hsp⟩
  unfold valTs
  cases ms with
  | none => simpa using plainFor_append hs (hnum tok h)
  | some m =>
    have := plainFor_append hs (plainFor_append (hnum tok h) (plainFor_append hs (hnum _ (intStr_numTok m))))
    simpa using this

theorem plainFor_legacy {chs : Char → Bool} (hl : ∀ c, isLegacyChar c = true → chs c = false) {n : Str}
    (hc : ∀ c ∈ n, isLegacyChar c = true) : PlainFor chs n :=
  fun c hm => ⟨legacyChar_ne (hc c hm) (by decide), legacyChar_ne (hc c hm) (by decide), hl c (hc c hm)⟩

theorem numChar_eq_false {c d : Char} (h : isNumChar c = true) (hd : isNumChar d = false) : (c == d) = false := by
  simpa using numChar_ne h hd
theorem legacyChar_eq_false {c d : Char} (h : isLegacyChar c = true) (hd : isLegacyChar d = false) : (c == d) = false := by
  simpa using legacyChar_ne h hd

/-- a legacy metric name that is not an F2 name: exact match, legacy characters only -/
theorem legacyName_chars {n : Str} (hv : isValidLegacyMetricName n = true) (hn : n.getLast? ≠ some '\n') :
    n ≠ [] ∧ ∀ c ∈ n, isLegacyChar c = true :=
  matchExact_metric_chars (matchName_exact hv hn)

theorem isInfix_nil_sep : isInfix sepHash [] = false := by decide

theorem isInfix_of_not_mem {sub s : Str} {c : Char} (hc : c ∈ sub) (hs : c ∉ s) : isInfix sub s = false := by
  induction s with
  | nil =>
    cases sub with
    | nil => simp at hc
    | cons _ _ => rfl
  | cons x xs ih =>
    have hxs : c ∉ xs := fun e => hs (by simp [e])
    rw [isInfix, ih hxs, Bool.or_false]
    apply Bool.eq_false_iff.mpr
    intro hp
    have := List.isPrefixOf_iff_prefix.mp hp
    exact hs (this.subset hc)

/-- case 1: legacy name, no labels -/
theorem parseSample_bare (legacy : Bool) (pyInt : Str → Option Int) (pyFloat : Str → Option Nat) {n tok : Str}
    (hv : isValidLegacyMetricName n = true) (hn : n.getLast? ≠ some '\n') (ht : NumTok tok) (ms : Option Int) :
    parseSample legacy pyInt pyFloat (n ++ ' ' :: valTs tok ms) =
      (do let (value, ts) ← parseValueAndTimestamp pyInt pyFloat (valTs tok ms)
          pure ⟨n, [], value, ts⟩) := by
  obtain ⟨hne, hc⟩ := legacyName_chars hv hn
  have hplain1 : PlainFor (· == '{') (n ++ ' ' :: valTs tok ms) :=
    plainFor_append (plainFor_legacy (fun c h => legacyChar_eq_false h (by decide)) hc)
      (plainFor_valTs (by decide) (fun c h => numChar_eq_false h (by decide)) ht ms)
  have hls : nextUnquotedChar (n ++ ' ' :: valTs tok ms) (· == '{') = none := by
    rw [nextUnquotedChar_zero]
    exact scan_none_of_noHit _ _ _ _ (plain_pass _ _ hplain1).1
  have hne' : nextUnquotedChar (n ++ ' ' :: valTs tok ms) (fun c => c == ' ' || c == '\t') = some n.length := by
    rw [nextUnquotedChar_zero]
    have hp := plain_pass (fun c => c == ' ' || c == '\t') n
      (plainFor_legacy (fun c h => by simp [legacyChar_ne h (d := ' ') (by decide), legacyChar_ne h (d := '\t') (by decide)]) hc)
    rw [scan_append_of_noHit _ _ _ _ _ hp.1, hp.2, scan_hit _ ' ' _ false (by decide) (by decide)]
    simp
  unfold parseSample
  simp only [hls, hne', ↓reduceIte, sliceTo, sliceAfter, List.take_left, strip_legacy hc, hv, Bool.not_true, Bool.false_eq_true]
  rw [← List.drop_drop, List.drop_left]
  rfl


/-- the scanner passes the string from the unquoted state back to the unquoted state without reporting -/
def Pass (chs : Char → Bool) (s : Str) : Prop := noHit chs s false false = true ∧ run s false false = (false, false)

theorem pass_append {chs : Char → Bool} {a b : Str} (ha : Pass chs a) (hb : Pass chs b) : Pass chs (a ++ b) := by
  refine ⟨?_, ?_⟩
  · rw [noHit_append, ha.1, ha.2]; simpa using hb.1
  · rw [run_append, ha.2]; exact hb.2

theorem pass_plain {chs : Char → Bool} {s : Str} (h : PlainFor chs s) : Pass chs s := plain_pass chs s h

theorem scan_pass_hit {chs : Char → Bool} {p : Str} (hp : Pass chs p) (c : Char) (t : Str) (hq : c ≠ '"') (hc : chs c = true) :
    nextUnquotedChar (p ++ c :: t) chs = some p.length := by
  rw [nextUnquotedChar_zero, scan_append_of_noHit _ _ _ _ _ hp.1, hp.2, scan_hit chs c t false hq hc]
  simp

def rbChs : Char → Bool := (· == '}')
theorem rbChs_safe : NameSafe rbChs := nameSafe_eq '}' (by decide) (by decide)

theorem keys_ne_name {legacy : Bool} {L : List (Str × Str)} (hok : ∀ x ∈ L, labelNameOK legacy x.1 = true) :
    L.any (fun kv => kv.1 == nameLabel) = false ∧ L.filter (fun kv => !(kv.1 == nameLabel)) = L := by
  have hne : ∀ x ∈ L, (x.1 == nameLabel) = false := fun x hx => by
    have := labelNameOK_ne_name (hok x hx)
    exact beq_eq_false_iff_ne.mpr this
  refine ⟨?_, ?_⟩
  · apply Bool.eq_false_iff.mpr
    intro h
    obtain ⟨x, hx, he⟩ := List.any_eq_true.mp h
    rw [hne x hx] at he; exact absurd he (by decide)
  · apply List.filter_eq_self.mpr
    intro x hx; simp [hne x hx]

/-- case 2: legacy name with a label block -/
theorem parseSample_labels (legacy : Bool) (pyInt : Str → Option Int) (pyFloat : Str → Option Nat) {n tok : Str}
    (hv : isValidLegacyMetricName n = true) (hn : n.getLast? ≠ some '\n') (ht : NumTok tok) (ms : Option Int)
    (kv : Str × Str) (r : List (Str × Str)) (hok : ∀ x ∈ kv :: r, labelNameOK legacy x.1 = true)
    (hnd : ((kv :: r).map (·.1)).Nodup) :
    parseSample legacy pyInt pyFloat (n ++ '{' :: (labelItem kv ++ tailStr r ++ '}' :: ' ' :: valTs tok ms)) =
      (do let (value, ts) ← parseValueAndTimestamp pyInt pyFloat (' ' :: valTs tok ms)
          pure ⟨n, kv :: r, value, ts⟩) := by
  obtain ⟨hne, hc⟩ := legacyName_chars hv hn
  have hls : nextUnquotedChar (n ++ '{' :: (labelItem kv ++ tailStr r ++ '}' :: ' ' :: valTs tok ms)) (· == '{') = some n.length :=
    scan_pass_hit (pass_plain (plainFor_legacy (fun c h => legacyChar_eq_false h (by decide)) hc)) '{' _ (by decide) (by decide)
  have hpre : Pass rbChs (n ++ '{' :: (labelItem kv ++ tailStr r)) := by
    have h1 : Pass rbChs n := pass_plain (plainFor_legacy (fun c h => legacyChar_eq_false h (by decide)) hc)
    have h2 : Pass rbChs ['{'] := pass_plain (by intro c hc; simp at hc; subst hc; exact ⟨by decide, by decide, by decide⟩)
    have h3 : Pass rbChs (labelItem kv) := item_pass rbChs_safe (by decide) (hok kv (by simp))
    have h4 : Pass rbChs (tailStr r) := tail_pass rbChs_safe (by decide) (by decide) r (fun x hx => hok x (by simp [hx]))
    have := pass_append h1 (pass_append h2 (pass_append h3 h4))
    simpa using this
  have hle : nextUnquotedChar (n ++ '{' :: (labelItem kv ++ tailStr r ++ '}' :: ' ' :: valTs tok ms)) (· == '}') =
      some (n ++ '{' :: (labelItem kv ++ tailStr r)).length := by
    have := scan_pass_hit hpre '}' (' ' :: valTs tok ms) (by decide) (by decide)
    rw [← this]; congr 1; simp
  have hinf : isInfix sepHash n = false :=
    isInfix_of_not_mem (c := ' ') (by decide) (fun hm => legacyChar_ne (hc _ hm) (by decide) rfl)
  have hnem : n.isEmpty = false := by cases n <;> simp at hne ⊢
  have htake : ((n ++ '{' :: (labelItem kv ++ tailStr r ++ '}' :: ' ' :: valTs tok ms)).take
      (n ++ '{' :: (labelItem kv ++ tailStr r)).length).drop (n.length + 1) = labelItem kv ++ tailStr r := by
    rw [show n ++ '{' :: (labelItem kv ++ tailStr r ++ '}' :: ' ' :: valTs tok ms) =
      (n ++ '{' :: (labelItem kv ++ tailStr r)) ++ ('}' :: ' ' :: valTs tok ms) by simp]
    rw [List.take_left]
    rw [show n ++ '{' :: (labelItem kv ++ tailStr r) = (n ++ ['{']) ++ (labelItem kv ++ tailStr r) by simp]
    rw [show n.length + 1 = (n ++ ['{']).length by simp]
    exact List.drop_left
  have hdrop : (n ++ '{' :: (labelItem kv ++ tailStr r ++ '}' :: ' ' :: valTs tok ms)).drop
      ((n ++ '{' :: (labelItem kv ++ tailStr r)).length + 1) = ' ' :: valTs tok ms := by
    rw [show n ++ '{' :: (labelItem kv ++ tailStr r ++ '}' :: ' ' :: valTs tok ms) =
      (n ++ '{' :: (labelItem kv ++ tailStr r) ++ ['}']) ++ (' ' :: valTs tok ms) by simp]
    rw [show (n ++ '{' :: (labelItem kv ++ tailStr r)).length + 1 = (n ++ '{' :: (labelItem kv ++ tailStr r) ++ ['}']).length by simp; omega]
    exact List.drop_left
  have hkeys := keys_ne_name hok
  unfold parseSample
  simp only [hls, hle, List.take_left, hinf, Bool.false_eq_true, ↓reduceIte, Option.getD_some, sliceTo, sliceAfter, htake, hdrop,
    strip_legacy hc, hnem, parseLabels_items kv r hok hnd, bind, Except.bind, hkeys.1, pure, Except.pure]

/-- case 3: quoted (non-legacy) name inside the braces, with or without further labels -/
theorem parseSample_quoted (legacy : Bool) (pyInt : Str → Option Int) (pyFloat : Str → Option Nat) {tok : Str} (n : Str)
    (ht : NumTok tok) (ms : Option Int)
    (L : List (Str × Str)) (hok : ∀ x ∈ L, labelNameOK legacy x.1 = true) (hnd : (L.map (·.1)).Nodup) :
    parseSample legacy pyInt pyFloat ('{' :: (qname n ++ tailStr L ++ '}' :: ' ' :: valTs tok ms)) =
      (do let (value, ts) ← parseValueAndTimestamp pyInt pyFloat (' ' :: valTs tok ms)
          pure ⟨n, L, value, ts⟩) := by
  have hls : nextUnquotedChar ('{' :: (qname n ++ tailStr L ++ '}' :: ' ' :: valTs tok ms)) (· == '{') = some 0 := by
    rw [nextUnquotedChar_zero]; exact scan_hit _ '{' _ false (by decide) (by decide)
  have hpre : Pass rbChs ('{' :: (qname n ++ tailStr L)) := by
    have h2 : Pass rbChs ['{'] := pass_plain (by intro c hc; simp at hc; subst hc; exact ⟨by decide, by decide, by decide⟩)
    have h3 : Pass rbChs (qname n) := quoted_pass rbChs rbChs_safe.quote n
    have h4 : Pass rbChs (tailStr L) := tail_pass rbChs_safe (by decide) (by decide) L hok
    have := pass_append h2 (pass_append h3 h4)
    simpa using this
  have hle : nextUnquotedChar ('{' :: (qname n ++ tailStr L ++ '}' :: ' ' :: valTs tok ms)) (· == '}') =
      some ('{' :: (qname n ++ tailStr L)).length := by
    have := scan_pass_hit hpre '}' (' ' :: valTs tok ms) (by decide) (by decide)
    rw [← this]; congr 1
  have htake : (('{' :: (qname n ++ tailStr L ++ '}' :: ' ' :: valTs tok ms)).take
      ('{' :: (qname n ++ tailStr L)).length).drop (0 + 1) = qname n ++ tailStr L := by
    rw [show '{' :: (qname n ++ tailStr L ++ '}' :: ' ' :: valTs tok ms) =
      ('{' :: (qname n ++ tailStr L)) ++ ('}' :: ' ' :: valTs tok ms) by simp]
    rw [List.take_left]; rfl
  have hdrop : ('{' :: (qname n ++ tailStr L ++ '}' :: ' ' :: valTs tok ms)).drop
      (('{' :: (qname n ++ tailStr L)).length + 1) = ' ' :: valTs tok ms := by
    rw [show '{' :: (qname n ++ tailStr L ++ '}' :: ' ' :: valTs tok ms) =
      ('{' :: (qname n ++ tailStr L) ++ ['}']) ++ (' ' :: valTs tok ms) by simp]
    rw [show ('{' :: (qname n ++ tailStr L)).length + 1 = ('{' :: (qname n ++ tailStr L) ++ ['}']).length by simp; omega]
    exact List.drop_left
  have hkeys := keys_ne_name hok
  have hfind : List.find? (fun kv => kv.1 == nameLabel) (("__name__".toList, n) :: L) = some ("__name__".toList, n) := by
    rw [List.find?_cons]; rfl
  have hfilter : List.filter (fun kv => !(kv.1 == nameLabel)) (("__name__".toList, n) :: L) = L := by
    rw [List.filter_cons]
    have : (!(("__name__".toList, n).1 == nameLabel)) = false := by
      show (!("__name__".toList == nameLabel)) = false
      decide
    simp only [this, Bool.false_eq_true, ↓reduceIte]
    exact hkeys.2
  unfold parseSample
  simp only [hls, hle, List.take_zero, isInfix_nil_sep, Bool.false_eq_true, ↓reduceIte, Option.getD_some, sliceTo, sliceAfter,
    htake, hdrop, strip_nil, List.isEmpty_nil, parseLabels_named n L hok hnd, bind, Except.bind, hfind, hfilter, pure, Except.pure]


/-- the samples the line-level round trip is stated for -/
structure SampleOK (legacy : Bool) (s : Sample) : Prop where
  /-- label names accepted by `_validate_labelname`, unique keys -/
  labels : LabelsOK legacy s.labels
  /-- the rendered value is a number token (digits, `e . + -`, `Inf`, `NaN`) -/
  tok : NumTok (Utils.floatToGoString s.value)

/-- the millisecond count written on the line -/
def millisOf (s : Sample) : Option Int := s.ts.map (·.millis)

theorem labels_isEmpty_iff (ls : List (Str × Str)) : ls.isEmpty = (sortByKey ls).isEmpty := by
  have := (sortByKey_perm ls).length_eq
  cases ls <;> cases h : sortByKey _ <;> simp_all

theorem labelStr_nonempty {ls : List (Str × Str)} {kv : Str × Str} {r : List (Str × Str)} (h : sortByKey ls = kv :: r) :
    (labelStr ls).isEmpty = false := by
  rw [labelStr_of_sorted h]
  have := item_nonempty kv
  cases hh : labelItem kv with
  | nil => rw [hh] at this; simp at this
  | cons _ _ => rfl

/-- the three shapes of a rendered sample line -/
theorem sampleLine_shape (s : Sample) :
    sampleLine s =
      (if isValidLegacyMetricName s.name then
        match sortByKey s.labels with
        | [] => s.name
        | kv :: r => s.name ++ '{' :: (labelItem kv ++ tailStr r ++ ['}'])
       else '{' :: (qname s.name ++ tailStr (sortByKey s.labels) ++ ['}'])) ++
      ' ' :: valTs (Utils.floatToGoString s.value) (millisOf s) ++ ['\n'] := by
  unfold sampleLine valTs millisOf
  cases hs : sortByKey s.labels with
  | nil =>
    have he : s.labels.isEmpty = true := by rw [labels_isEmpty_iff, hs]; rfl
    by_cases hv : isValidLegacyMetricName s.name = true
    · cases hT : s.ts <;> simp [he, hv]
    · cases hT : s.ts <;> simp [he, hv, escapeMetricName, qname, tailStr]
  | cons kv r =>
    have he : s.labels.isEmpty = false := by rw [labels_isEmpty_iff, hs]; rfl
    have hne := labelStr_nonempty hs
    rw [labelStr_of_sorted hs] at hne
    by_cases hv : isValidLegacyMetricName s.name = true
    · cases hT : s.ts <;>
        simp only [he, hv, Bool.false_eq_true, ↓reduceIte, hne, labelStr_of_sorted hs, Option.map] <;> simp
    · cases hT : s.ts <;>
        simp only [he, hv, Bool.false_eq_true, ↓reduceIte, hne, labelStr_of_sorted hs, escapeMetricName, qname, tailStr_cons,
          Option.map] <;> simp

/-- **a rendered sample line parses back to the sample**: same name, the label dict (sorted by key), the value token
read by the number parameters, the millisecond count (to be divided by 1000) -/
theorem sample_line_roundtrip (legacy : Bool) (pyInt : Str → Option Int) (pyFloat : Str → Option Nat) (s : Sample) (b : Nat)
    (h : SampleOK legacy s)
    (hi : pyInt (Utils.floatToGoString s.value) = none) (hf : pyFloat (Utils.floatToGoString s.value) = some b)
    (hms : ∀ m, millisOf s = some m → pyInt (intStr m) = some m ∧ intDivOverflows m = false) :
    parseSample legacy pyInt pyFloat (strip (sampleLine s)) =
      .ok ⟨s.name, sortByKey s.labels, .flt b, (millisOf s).map (fun m => ⟨.int m⟩)⟩ := by
  have hp := sortByKey_perm s.labels
  have hok : ∀ x ∈ sortByKey s.labels, labelNameOK legacy x.1 = true := fun x hx => h.labels.1 x (hp.mem_iff.mp hx)
  have hnd : ((sortByKey s.labels).map (·.1)).Nodup := (hp.map _).nodup_iff.mpr h.labels.2
  have hpv : parseValue pyInt pyFloat (Utils.floatToGoString s.value) = .ok (.flt b) := by
    rw [parseValue_numTok _ _ h.tok, hi, hf]
  have hpvt : ∀ lead : Bool, parseValueAndTimestamp pyInt pyFloat ((if lead then [' '] else []) ++ valTs (Utils.floatToGoString s.value) (millisOf s)) =
      .ok (.flt b, (millisOf s).map (fun m => ⟨.int m⟩)) := by
    intro lead
    rw [pvt_valTs _ _ h.tok]
    cases hm : millisOf s with
    | none => simp only [hpv, bind, Except.bind]; rfl
    | some m =>
      obtain ⟨h1, h2⟩ := hms m hm
      have : parseValue pyInt pyFloat (intStr m) = .ok (.int m) := by
        rw [parseValue_numTok _ _ (intStr_numTok m), h1]
      simp only [hpv, this, bind, Except.bind, divThousand, h2, Bool.false_eq_true, ↓reduceIte]
      rfl
  have hpvt0 := hpvt false
  have hpvt1 := hpvt true
  simp only [Bool.false_eq_true, ↓reduceIte, List.nil_append, List.singleton_append] at hpvt0 hpvt1
  rw [sampleLine_shape]
  by_cases hv : isValidLegacyMetricName s.name = true
  · obtain ⟨hne, hc⟩ := legacyName_chars hv (legacyMetric_no_newline hv)
    obtain ⟨a, t, ea⟩ : ∃ a t, s.name = a :: t := by
      cases hn : s.name with
      | nil => exact absurd hn hne
      | cons a t => exact ⟨a, t, rfl⟩
    have has : isPySpace a = false := legacyChar_not_space (hc a (by rw [ea]; simp))
    simp only [hv, ↓reduceIte]
    cases hs : sortByKey s.labels with
    | nil =>
      simp only []
      rw [strip_line (a := a) (by rw [ea]; rfl) has h.tok, parseSample_bare legacy pyInt pyFloat hv (legacyMetric_no_newline hv) h.tok, hpvt0]
      rfl
    | cons kv r =>
      simp only []
      rw [hs] at hok hnd
      rw [strip_line (a := a) (by rw [ea]; rfl) has h.tok]
      rw [show s.name ++ '{' :: (labelItem kv ++ tailStr r ++ ['}']) ++ ' ' :: valTs (Utils.floatToGoString s.value) (millisOf s) =
        s.name ++ '{' :: (labelItem kv ++ tailStr r ++ '}' :: ' ' :: valTs (Utils.floatToGoString s.value) (millisOf s)) by simp]
      rw [parseSample_labels legacy pyInt pyFloat hv (legacyMetric_no_newline hv) h.tok _ kv r hok hnd, hpvt1]
      rfl
  · simp only [hv, Bool.false_eq_true, ↓reduceIte]
    rw [strip_line (a := '{') rfl (by decide) h.tok]
    rw [show '{' :: (qname s.name ++ tailStr (sortByKey s.labels) ++ ['}']) ++ ' ' :: valTs (Utils.floatToGoString s.value) (millisOf s) =
      '{' :: (qname s.name ++ tailStr (sortByKey s.labels) ++ '}' :: ' ' :: valTs (Utils.floatToGoString s.value) (millisOf s)) by simp]
    rw [parseSample_quoted legacy pyInt pyFloat s.name h.tok _ _ hok hnd, hpvt1]
    rfl

end PromVerif.Lemmas.TextParse
