/-
From the sample lines of a histogram family to the list `_check_histogram` receives: a pair of consecutive bucket
lines that are not repeats of an earlier series reaches the list in order, and a list on which the loop of
`_check_histogram` already fails dooms the document.
-/
import PromVerif.Lemmas.OMHist
import PromVerif.Lemmas.OMGroup

namespace PromVerif.Lemmas.OM
open PromVerif.Py PromVerif.Model.ParseCore PromVerif.Model.OMParse PromVerif.Generated.OMParse
open PromVerif.Spec.OMRules

theorem histLoop_error_append (P : Params) (n : Str) (h : HSt) (a b : List OSample)
    (he : isError (histLoop P n h a) = true) : isError (histLoop P n h (a ++ b)) = true := by
  rw [histLoop_append]
  cases hl : histLoop P n h a with
  | error e => rfl
  | ok h' => rw [hl] at he; cases he

theorem checkHistogram_of_loop (P : Params) (n : Str) (samples : List OSample)
    (he : isError (histLoop P n {} samples) = true) : isError (checkHistogram P samples n) = true := by
  unfold checkHistogram
  cases hl : histLoop P n {} samples with
  | error e => rfl
  | ok h' => rw [hl] at he; cases he

/-- the family `n` of histogram type `t` is current and the loop of `_check_histogram` already fails on its samples -/
def HistDoomed (P : Params) (n t : Str) (st : St) : Prop :=
  st.hdr.name = some n ∧ st.hdr.typ = some t ∧ isError (histLoop P n {} st.grp.samples) = true

theorem histDoomed_flush (P : Params) (n t : Str) (ht : t = cs!"histogram" ∨ t = cs!"gaugehistogram") (st : St)
    (hd : HistDoomed P n t st) : isError (flush P st.glob st.hdr st.grp.samples) = true := by
  obtain ⟨hn, hty, he⟩ := hd
  refine flush_fails P st.glob st.hdr st.grp.samples n hn
    (if histTypes.contains (st.hdr.typ.getD tUnknown) then checkHistogram P st.grp.samples n else .ok ()) (by simp [buildChecks]) ?_
  have : histTypes.contains (st.hdr.typ.getD tUnknown) = true := by
    rw [hty]; rcases ht with rfl | rfl <;> decide
  rw [if_pos this]
  exact checkHistogram_of_loop P n _ he

/-- once doomed, every continuation of the document fails -/
theorem hist_doom (P : Params) (n t : Str) (ht : t = cs!"histogram" ∨ t = cs!"gaugehistogram") :
    ∀ (ls : List Line) (st : St), HistDoomed P n t st → isError (finishRun P st ls) = true := by
  intro ls
  induction ls with
  | nil =>
    intro st hd
    rw [finishRun_nil]
    unfold finish
    have := histDoomed_flush P n t ht st hd
    cases hf : flush P st.glob st.hdr st.grp.samples with
    | error e => rfl
    | ok g => rw [hf] at this; cases this
  | cons l ls ih =>
    intro st hd
    rw [finishRun_cons]
    cases hs : stepLine P st l with
    | error e => rfl
    | ok st' =>
      dsimp only
      apply ih
      have hfl := histDoomed_flush P n t ht st hd
      obtain ⟨hn, hty, he⟩ := hd
      have hne : st.grp.samples ≠ [] := by
        intro e; rw [e] at he; cases he
      obtain ⟨_, hc⟩ := stepLine_ok P st st' _ hs
      rcases hc with ⟨_, rfl⟩ | ⟨kind, cand, rest, _, hm⟩ | ⟨nh, plain, s, isNh, _, _, hss⟩
      · exact ⟨hn, hty, he⟩
      · rcases stepMeta_ok P st st' _ _ _ hm with ⟨_, g, _, hf, _, _⟩ | ⟨hn', hd', ha, rfl⟩
        · rw [hf] at hfl; cases hfl
        · rw [stepMeta_late P st kind cand rest hn' hne] at hm; cases hm
      · rcases stepSample_ok P st st' s isNh hss with ⟨_, g, _, _, hf, _, _, _⟩ | ⟨_, gr, hsc, rfl⟩
        · rw [hf] at hfl; cases hfl
        · refine ⟨hn, hty, ?_⟩
          show isError (histLoop P n {} gr.samples) = true
          cases isNh with
          | true =>
            unfold sampleChecks at hsc
            by_cases c : (true && nhSkipsChecks) = true
            · rw [if_pos c] at hsc
              obtain rfl := Except.ok.inj hsc
              exact histLoop_error_append P n {} _ _ he
            · exfalso; exact c (by decide)
          | false =>
            have hg := sampleChecks_ok P st.hdr st.grp gr s n hn hsc
            obtain ⟨g, ls', _, _, _, _, hsm⟩ := groupStep_ok P st.grp gr n _ s hg
            dsimp only at hsm
            rw [hsm]
            generalize (if st.grp.group.isSome && st.grp.group == some g then st.grp.gtsSamples else []) = gts
            split
            · exact histLoop_error_append P n {} _ _ he
            · exact he

/-- the series id the parser uses for duplicate suppression -/
def sidOf (s : OSample) : Str × Labels := (s.name, sortByKey (s.labels.getD []))

theorem groupStep_gts (P : Params) (gr gr' : Grp) (n t : Str) (s : OSample) (h : groupStep P gr n t s = .ok gr') :
    (∀ x ∈ gr'.gtsSamples, x ∈ gr.gtsSamples ∨ x = sidOf s) ∧
    (sidOf s ∉ gr.gtsSamples → gr'.samples = gr.samples ++ [s]) := by
  unfold groupStep at h
  cases hg : groupOf s n t with
  | error e => rw [hg] at h; dsimp only at h; cases h
  | ok g =>
    rw [hg] at h; dsimp only at h
    cases h1 : raiseIf (gr.group.isSome && !(gr.group == some g) && gr.seenGroups.contains g) with
    | error e => rw [h1] at h; dsimp only at h; cases h
    | ok u1 =>
      rw [h1] at h; dsimp only at h
      cases h2 : (if gr.group.isSome && gr.group == some g then chkGroupTs P t gr.groupTs s.ts else .ok ()) with
      | error e => rw [h2] at h; dsimp only at h; cases h
      | ok u2 =>
        rw [h2] at h; dsimp only at h
        cases hl : s.labels with
        | none => simp only [labelsOrAttr, hl] at h; cases h
        | some ls =>
          simp only [labelsOrAttr, hl] at h
          obtain rfl := Except.ok.inj h
          have hsid : sidOf s = (s.name, sortByKey ls) := by unfold sidOf; rw [hl]; rfl
          have hsub : ∀ x ∈ (if gr.group.isSome && gr.group == some g then gr.gtsSamples else []), x ∈ gr.gtsSamples := by
            intro x hx
            split at hx
            · exact hx
            · cases hx
          dsimp only
          generalize (if gr.group.isSome && gr.group == some g then gr.gtsSamples else []) = gts at hsub ⊢
          constructor
          · intro x hx
            by_cases c : gts.contains (s.name, sortByKey ls) = true
            · rw [if_pos c] at hx; exact Or.inl (hsub x hx)
            · rw [if_neg c] at hx
              rcases List.mem_append.mp hx with h3 | h3
              · exact Or.inl (hsub x h3)
              · rw [List.mem_singleton.mp h3, hsid]; exact Or.inr rfl
          · intro hnot
            have : gts.contains (s.name, sortByKey ls) = false := by
              cases hc : gts.contains (s.name, sortByKey ls)
              · rfl
              · exfalso
                apply hnot
                rw [hsid]
                exact hsub _ (by simpa using hc)
            rw [this]
            simp

theorem sidOf_eq (s : OSample) : sidOf s = seriesOf s := rfl

/-- every series the current group remembers satisfies `S` -/
def GtsIn (S : Str × Labels → Prop) (st : St) : Prop := ∀ x ∈ st.grp.gtsSamples, S x

/-- a line of the family keeps `GtsIn S`, if its own series satisfies `S` -/
theorem gtsIn_step (P : Params) (S : Str × Labels → Prop) (n t : Str) (st st' : St) (l : Line)
    (hh : HdrIs n t st.hdr ∧ st.eof = false) (hg : GtsIn S st) (hl : InFamM n t l)
    (hS : ∀ nh s, l = .sample nh (.ok s) → S (sidOf s)) (h : stepLine P st l = .ok st') : GtsIn S st' := by
  obtain ⟨hh, heof⟩ := hh
  obtain ⟨_, hc⟩ := stepLine_ok P st st' _ h
  rcases hc with ⟨h0, _⟩ | ⟨kind, cand, rest, hl', hm⟩ | ⟨nh, plain, s, isNh, hl', hp, hs⟩
  · subst h0; cases hl
  · subst hl'
    simp only [InFamM] at hl
    subst hl
    rcases stepMeta_ok P st st' _ _ _ hm with ⟨hne, _⟩ | ⟨hn, hd, ha, rfl⟩
    · exact absurd hh.1 hne
    · exact hg
  · subst hl'
    simp only [InFamM] at hl
    rcases pickSample_ok _ _ _ _ _ hp with hnh | ⟨hnh, hpl⟩
    · subst hnh
      rcases stepSample_ok P st st' s true hs with ⟨c, _⟩ | ⟨_, gr, hsc, rfl⟩
      · simp at c
      · unfold sampleChecks at hsc
        by_cases c : (true && nhSkipsChecks) = true
        · rw [if_pos c] at hsc
          obtain rfl := Except.ok.inj hsc
          exact hg
        · exfalso; exact c (by decide)
    · subst hnh
      have hall : st.hdr.allowed.contains s.name = true := by
        have := hl s hpl
        rw [hh.2.2]; exact this
      rcases stepSample_ok P st st' s false hs with ⟨c, _⟩ | ⟨_, gr, hsc, rfl⟩
      · rw [hall] at c; simp at c
      · have hgs := sampleChecks_ok P st.hdr st.grp gr s n hh.1 hsc
        obtain ⟨hsub, _⟩ := groupStep_gts P st.grp gr n _ s hgs
        intro x hx
        rcases hsub x hx with h1 | rfl
        · exact hg x h1
        · exact hS nh s (by rw [hpl])

/-- two consecutive sample lines of the family that are new series both reach the sample list, in order -/
theorem two_fresh_appended (P : Params) (n t : Str) (st st1 st2 : St) (s1 s2 : OSample) (S : Str × Labels → Prop)
    (hh : HdrIs n t st.hdr) (heof : st.eof = false) (hg : GtsIn S st)
    (hm1 : s1.name ∈ familyNames n t) (hm2 : s2.name ∈ familyNames n t)
    (hf1 : ¬ S (sidOf s1)) (hf2 : ¬ S (sidOf s2)) (hne : sidOf s1 ≠ sidOf s2)
    (h1 : stepLine P st (smp s1) = .ok st1) (h2 : stepLine P st1 (smp s2) = .ok st2) :
    st2.hdr = st.hdr ∧ st2.grp.samples = st.grp.samples ++ [s1, s2] := by
  have ha1 : st.hdr.allowed.contains s1.name = true := by rw [hh.2.2, ← familyNames_eq]; exact contains_of_mem hm1
  have ha2 : st.hdr.allowed.contains s2.name = true := by rw [hh.2.2, ← familyNames_eq]; exact contains_of_mem hm2
  rw [stepLine_smp P st s1 heof, stepSample_allowed P st s1 false ha1] at h1
  cases hc1 : sampleChecks P st.hdr st.grp s1 false with
  | error e => rw [hc1] at h1; cases h1
  | ok gr1 =>
    rw [hc1] at h1
    obtain rfl := Except.ok.inj h1
    have hg1 := sampleChecks_ok P st.hdr st.grp gr1 s1 n hh.1 hc1
    obtain ⟨hsub1, happ1⟩ := groupStep_gts P st.grp gr1 n _ s1 hg1
    have e1 : gr1.samples = st.grp.samples ++ [s1] := happ1 (fun hin => hf1 (hg _ hin))
    rw [stepLine_smp P { st with grp := gr1 } s2 heof, stepSample_allowed P { st with grp := gr1 } s2 false ha2] at h2
    dsimp only at h2
    cases hc2 : sampleChecks P st.hdr gr1 s2 false with
    | error e => rw [hc2] at h2; cases h2
    | ok gr2 =>
      rw [hc2] at h2
      obtain rfl := Except.ok.inj h2
      have hg2 := sampleChecks_ok P st.hdr gr1 gr2 s2 n hh.1 hc2
      obtain ⟨_, happ2⟩ := groupStep_gts P gr1 gr2 n _ s2 hg2
      have e2 : gr2.samples = gr1.samples ++ [s2] := by
        apply happ2
        intro hin
        rcases hsub1 _ hin with h3 | h3
        · exact hf2 (hg _ h3)
        · exact hne h3.symm
      refine ⟨rfl, ?_⟩
      show gr2.samples = st.grp.samples ++ [s1, s2]
      rw [e2, e1]; simp

/-- `# TYPE n t` (a histogram type), lines of the family, two consecutive new-series sample lines on which the loop
of `_check_histogram` fails from every state: the document fails -/
theorem hist_pair_doc (P : Params) (n t : Str) (ht : t = cs!"histogram" ∨ t = cs!"gaugehistogram")
    (mid post : List Line) (s1 s2 : OSample) (st : St) (hk : KeptInv st.grp)
    (hmid : ∀ l ∈ mid, InFamM n t l) (hm1 : s1.name ∈ familyNames n t) (hm2 : s2.name ∈ familyNames n t)
    (hne : sidOf s1 ≠ sidOf s2)
    (hfresh : ∀ nh s, Line.sample nh (.ok s) ∈ mid → sidOf s ≠ sidOf s1 ∧ sidOf s ≠ sidOf s2)
    (hloop : ∀ h0, isError (histLoop P n h0 [s1, s2]) = true) :
    isError (finishRun P st (.metadata kwType n t :: (mid ++ smp s1 :: smp s2 :: post))) = true := by
  let S : Str × Labels → Prop := fun x => ∃ nh s, Line.sample nh (.ok s) ∈ mid ∧ x = sidOf s
  rw [finishRun_cons]
  cases hs1 : stepLine P st (.metadata kwType n t) with
  | error e => rfl
  | ok st1 =>
    dsimp only
    have hh1 := stepLine_type P st st1 n t hs1
    -- the group's memory is empty after the TYPE line
    have hg1 : GtsIn S st1 := by
      obtain ⟨_, hc⟩ := stepLine_ok P st st1 _ hs1
      rcases hc with ⟨h0, _⟩ | ⟨kind, cand, rest, hl, hm⟩ | ⟨_, _, _, _, hl, _⟩
      · cases h0
      · cases hl
        rcases stepMeta_ok P st st1 _ _ _ hm with ⟨_, g, hd, _, _, rfl⟩ | ⟨hn, hd, _, rfl⟩
        · intro x hx; cases hx
        · have hemp : st.grp.samples = [] := by
            cases hsm : st.grp.samples with
            | nil => rfl
            | cons a b => rw [stepMeta_late P st _ _ _ hn (by rw [hsm]; simp)] at hm; cases hm
          have : st.grp.gtsSamples = [] := by
            cases hgt : st.grp.gtsSamples with
            | nil => rfl
            | cons a b => exact absurd hemp (hk (by rw [hgt]; simp))
          intro x hx
          show S x
          rw [show ({ st with hdr := hd } : St).grp.gtsSamples = st.grp.gtsSamples from rfl, this] at hx
          cases hx
      · cases hl
    rw [finishRun_append]
    cases hr : run P st1 mid with
    | error e => rfl
    | ok st2 =>
      dsimp only
      have hinv := run_invariant P (fun s => (HdrIs n t s.hdr ∧ s.eof = false) ∧ GtsIn S s)
        (fun l => InFamM n t l ∧ ∀ nh s, l = .sample nh (.ok s) → S (sidOf s))
        (fun s l s' hq hl hs => ⟨stepLine_inFam P s s' n t l hq.1 hl.1 hs, gtsIn_step P S n t s s' l hq.1 hq.2 hl.1 hl.2 hs⟩)
        mid (fun l hl => ⟨hmid l hl, fun nh s e => ⟨nh, s, e ▸ hl, rfl⟩⟩) st1 ⟨hh1, hg1⟩ st2 hr
      obtain ⟨⟨hh2, heof2⟩, hg2⟩ := hinv
      rw [finishRun_cons]
      cases hs3 : stepLine P st2 (smp s1) with
      | error e => rfl
      | ok st3 =>
        dsimp only
        rw [finishRun_cons]
        cases hs4 : stepLine P st3 (smp s2) with
        | error e => rfl
        | ok st4 =>
          dsimp only
          have hf1 : ¬ S (sidOf s1) := fun ⟨nh, s, hin, he⟩ => (hfresh nh s hin).1 he.symm
          have hf2 : ¬ S (sidOf s2) := fun ⟨nh, s, hin, he⟩ => (hfresh nh s hin).2 he.symm
          obtain ⟨hhdr, hsm⟩ := two_fresh_appended P n t st2 st3 st4 s1 s2 S hh2 heof2 hg2 hm1 hm2 hf1 hf2 hne hs3 hs4
          apply hist_doom P n t ht post st4
          refine ⟨by rw [hhdr]; exact hh2.1, by rw [hhdr]; exact hh2.2.1, ?_⟩
          rw [hsm, histLoop_append]
          cases histLoop P n {} st2.grp.samples with
          | error e => rfl
          | ok h0 => exact hloop h0

/-- the loop of `_check_histogram` fails on two consecutive bucket lines of one group whose bounds do not increase -/
theorem bounds_pair_loop (P : Params) (n : Str) (s1 s2 : OSample) (b1 b2 : Nat) (g1 g2 : Labels)
    (hb1 : IsBucket P n s1 b1 g1) (hb2 : IsBucket P n s2 b2 g2) (hsame : SameHistGroup P g1 g2 s1.ts s2.ts)
    (hle : P.le (.flt b2) (.flt b1) = true) (h0 : HSt) : isError (histLoop P n h0 [s1, s2]) = true := by
  obtain ⟨hsg, hst⟩ := hsame
  simp only [histLoop]
  cases hs1 : histStep P n h0 s1 with
  | error e => rfl
  | ok h1 =>
    dsimp only
    obtain ⟨e1, e2, e3, _⟩ := histStep_bucket_ok P n h0 h1 s1 b1 g1 hb1 hs1
    have := histStep_bucket_order_fails P n h1 s2 b2 b1 g2 g1 hb2 e2 hsg (by rw [e3]; exact hst) e1 hle
    cases hs2 : histStep P n h1 s2 with
    | error e => rfl
    | ok h2 => rw [hs2] at this; cases this

/-- … and on two whose counts decrease -/
theorem counts_pair_loop (P : Params) (n : Str) (s1 s2 : OSample) (b1 b2 : Nat) (g1 g2 : Labels) (v1 v2 : Num)
    (hb1 : IsBucket P n s1 b1 g1) (hb2 : IsBucket P n s2 b2 g2) (hsame : SameHistGroup P g1 g2 s1.ts s2.ts)
    (hv1 : s1.value = some v1) (hv2 : s2.value = some v2) (hlt : P.lt v2 v1 = true) (h0 : HSt) :
    isError (histLoop P n h0 [s1, s2]) = true := by
  obtain ⟨hsg, hst⟩ := hsame
  simp only [histLoop]
  cases hs1 : histStep P n h0 s1 with
  | error e => rfl
  | ok h1 =>
    dsimp only
    obtain ⟨_, e2, e3, e4⟩ := histStep_bucket_ok P n h0 h1 s1 b1 g1 hb1 hs1
    have := histStep_bucket_value_fails P n h1 s2 b2 g2 g1 v2 v1 hb2 e2 hsg (by rw [e3]; exact hst) (by rw [e4]; exact hv1) hv2 hlt
    cases hs2 : histStep P n h1 s2 with
    | error e => rfl
    | ok h2 => rw [hs2] at this; cases this

end PromVerif.Lemmas.OM
