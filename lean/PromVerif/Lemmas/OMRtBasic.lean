/-
C04 building blocks: `_unescape_help ∘ _escape = id`; the three timestamp forms through `_parse_timestamp`.
-/
import PromVerif.Spec.OMRoundtrip
import PromVerif.Lemmas.TextParseSample

set_option autoImplicit false

namespace PromVerif.Lemmas.OMRt
open PromVerif.Py PromVerif.Model PromVerif.Model.Escape PromVerif.Model.ParseCore PromVerif.Model.OMParse
open PromVerif.Model.OMExpo PromVerif.Spec.OMRoundtrip PromVerif.Lemmas.Escape PromVerif.Lemmas.TextParse

-- HELP ------------------------------------------------------------------------------------------------------------

theorem unescapeHelpAux_escChar (c : Char) (t : Str) :
    unescapeHelpAux (escChar c ++ t) false = c :: unescapeHelpAux t false := by
  unfold escChar
  by_cases h1 : c = '\\'
  · subst h1; simp [unescapeHelpAux]
  · by_cases h2 : c = '\n'
    · subst h2; simp [unescapeHelpAux]
    · by_cases h3 : c = '"'
      · subst h3; simp [unescapeHelpAux]
      · simp only [h1, h2, h3, ↓reduceIte, List.cons_append, List.nil_append]
        rw [unescapeHelpAux]
        simp [h1]

/-- **`_unescape_help(_escape(doc)) == doc`** for every string -/
theorem unescapeHelp_escape (doc : Str) : unescapeHelp (escape doc) = doc := by
  unfold unescapeHelp
  induction doc with
  | nil => rw [escape_nil]; rfl
  | cons c cs ih => rw [escape_cons, unescapeHelpAux_escChar, ih]

-- number characters -------------------------------------------------------------------------------------------------

theorem isNumChar_eq : Spec.OMRoundtrip.isNumChar = Lemmas.TextParse.isNumChar := rfl

theorem numTok_of_chars {t : Str} (hne : t ≠ []) (hc : ∀ c ∈ t, Spec.OMRoundtrip.isNumChar c = true) : NumTok t :=
  ⟨hne, fun c h => by rw [← isNumChar_eq]; exact hc c h⟩

theorem digit_numChar {c : Char} (h : isDigit c = true) : Lemmas.TextParse.isNumChar c = true := by
  simp [Lemmas.TextParse.isNumChar, h]

theorem digit_ne_dot {c : Char} (h : isDigit c = true) : c ≠ '.' := by
  intro e; subst e; exact absurd h (by decide)

theorem dot_not_mem_digits {d : Str} (h : d.all isDigit = true) : '.' ∉ d := fun hm =>
  digit_ne_dot (List.all_eq_true.mp h _ hm) rfl

-- digits ---------------------------------------------------------------------------------------------------------------

theorem digitVal_lt {c : Char} (h : isDigit c = true) : digitVal c < 10 := by
  have := isDigit_range h
  unfold digitVal; omega

theorem foldl_digits_lt (d : Str) (h : d.all isDigit = true) : ∀ acc : Nat,
    d.foldl (fun a c => a * 10 + digitVal c) acc < (acc + 1) * 10 ^ d.length := by
  induction d with
  | nil => intro acc; simp
  | cons x xs ih =>
    intro acc
    simp only [List.all_cons, Bool.and_eq_true] at h
    have h3 := digitVal_lt h.1
    have := ih h.2 (acc * 10 + digitVal x)
    simp only [List.foldl_cons, List.length_cons, Nat.pow_succ]
    calc List.foldl (fun a c => a * 10 + digitVal c) (acc * 10 + digitVal x) xs
        < (acc * 10 + digitVal x + 1) * 10 ^ xs.length := this
      _ ≤ ((acc + 1) * 10) * 10 ^ xs.length := Nat.mul_le_mul_right _ (by omega)
      _ = (acc + 1) * (10 ^ xs.length * 10) := by rw [Nat.mul_assoc, Nat.mul_comm 10]

theorem parseDigits_lt (d : Str) (h : d.all isDigit = true) : parseDigits d < 10 ^ d.length := by
  have := foldl_digits_lt d h 0
  simpa [parseDigits] using this

theorem decDigits_length_le (m : Nat) : ∀ n, n < 10 ^ (m + 1) → (decDigits n).length ≤ m + 1 := by
  induction m with
  | zero =>
    intro n h
    unfold decDigits
    have : n < 10 := by simpa using h
    simp [this]
  | succ m ih =>
    intro n h
    unfold decDigits
    split
    · simp
    · have : n / 10 < 10 ^ (m + 1) := by
        rw [Nat.pow_succ] at h
        exact Nat.div_lt_of_lt_mul (by rw [Nat.mul_comm]; exact h)
      have := ih (n / 10) this
      simp; omega

/-- the spec's "first nine digits, zero-filled" is the parser's `parts[1][:9].ljust(9, "0")` -/
theorem nineDigits_eq (b : Str) : nineDigits b = ljust 9 '0' (b.take 9) := by
  unfold nineDigits ljust
  rw [List.take_append, List.take_replicate, List.length_take]
  congr 2
  omega

end PromVerif.Lemmas.OMRt
