/-
C05 lemmas, part 7: the lines one family contributes to the text exposition — every line is a line of the grammar,
and they are counted: two metadata lines, one line per sample, two more metadata lines per trailing-gauge group.
-/
import PromVerif.Lemmas.LinesText

namespace PromVerif.Lemmas.Lines
open PromVerif.Py PromVerif.Model PromVerif.Model.Escape PromVerif.Model.Validation
open PromVerif.Generated.Expo PromVerif.Generated.Validation
open PromVerif.Spec.LineGrammar hiding Str
open PromVerif.Model.TextExpo (trailingOf addTrailing familyLines munge helpLine typeLine)

/-- preconditions on a family for the text format: the type is one of `METRIC_TYPES` (enforced by `Metric.__init__`),
every sample value is a number token.  Nothing is assumed about any name, help text or label. -/
def familyOKText (f : Family) : Bool :=
  PromVerif.Generated.Ctor.metricTypes.contains f.typ && f.samples.all sampleOKText

/-- the step of the `om_samples` dictionary loop -/
def omStep (fam : Family) (d : List (Str × List Str)) (s : Sample) : List (Str × List Str) :=
  match trailingOf fam s with
  | some suf => addTrailing d suf (TextExpo.sampleLine s)
  | none => d

def omFold (fam : Family) (d : List (Str × List Str)) (ss : List Sample) : List (Str × List Str) :=
  ss.foldl (omStep fam) d

theorem familyLines_eq (fam : Family) :
    familyLines fam =
      [helpLine (munge fam.name fam.typ).1 fam.doc false, typeLine (munge fam.name fam.typ).1 (munge fam.name fam.typ).2] ++
      (fam.samples.filter (fun s => (trailingOf fam s).isNone)).map TextExpo.sampleLine ++
      (sortByKey (omFold fam [] fam.samples)).flatMap (fun e =>
        [helpLine (fam.name ++ e.1) fam.doc true, typeLine (fam.name ++ e.1) "gauge".toList] ++ e.2) := rfl

def totLines : List (Str × List Str) → Nat
  | [] => 0
  | e :: r => e.2.length + totLines r

def keys (d : List (Str × List Str)) : List Str := d.map (·.1)

/-- add a key unless present (insertion-ordered dict keys) -/
def addKey (acc : List Str) (k : Str) : List Str := if acc.contains k then acc else acc ++ [k]

/-- the trailing-gauge groups of a family, in order of first appearance -/
def trailingKeys (fam : Family) : List Str := (fam.samples.filterMap (trailingOf fam)).foldl addKey []

/-- the number of lines the text format owes a family -/
def expectedLineCount (fam : Family) : Nat := 2 + fam.samples.length + 2 * (trailingKeys fam).length

theorem totLines_append (a b : List (Str × List Str)) : totLines (a ++ b) = totLines a + totLines b := by
  induction a with
  | nil => simp [totLines]
  | cons e r ih => simp [totLines, ih]; omega

theorem any_key_iff (d : List (Str × List Str)) (suf : Str) :
    d.any (fun e => e.1 == suf) = (keys d).contains suf := by
  induction d with
  | nil => rfl
  | cons e r ih => simp [keys, List.contains_cons] at ih ⊢; grind

theorem keys_addTrailing (d : List (Str × List Str)) (suf line : Str) :
    keys (addTrailing d suf line) = addKey (keys d) suf := by
  unfold addTrailing addKey
  rw [any_key_iff]
  split
  · simp only [keys, List.map_map]
    congr 1
    funext e
    simp only [Function.comp]
    split <;> rfl
  · simp [keys]

theorem totLines_map_hit (d : List (Str × List Str)) (suf line : Str) (hnd : (keys d).Nodup)
    (hin : (keys d).contains suf = true) :
    totLines (d.map (fun e => if e.1 == suf then (e.1, e.2 ++ [line]) else e)) = totLines d + 1 := by
  induction d with
  | nil => simp [keys] at hin
  | cons e r ih =>
    simp only [keys, List.map_cons, List.nodup_cons] at hnd
    by_cases he : (e.1 == suf) = true
    · have hes : e.1 = suf := by simpa using he
      have hnot : ∀ x ∈ r, (x.1 == suf) = false := by
        intro x hx
        have : x.1 ≠ e.1 := by
          intro e'
          exact hnd.1 (by rw [← e']; exact List.mem_map_of_mem (f := (·.1)) hx)
        simpa [← hes] using this
      have hmap : r.map (fun e => if e.1 == suf then (e.1, e.2 ++ [line]) else e) = r := by
        conv => rhs; rw [← List.map_id r]
        apply List.map_congr_left
        intro x hx
        simp [hnot x hx]
      simp only [List.map_cons, he, if_true, totLines, hmap, List.length_append, List.length_singleton]
      omega
    · have hin' : (keys r).contains suf = true := by
        simp only [keys, List.map_cons, List.contains_cons, Bool.or_eq_true] at hin
        rcases hin with h | h
        · have : (e.1 == suf) = true := by
            rw [beq_iff_eq] at h ⊢; exact h.symm
          exact absurd this he
        · exact h
      have := ih hnd.2 hin'
      simp only [List.map_cons, he, totLines]
      simp only [Bool.false_eq_true, if_false]
      omega

theorem totLines_addTrailing (d : List (Str × List Str)) (suf line : Str) (hnd : (keys d).Nodup) :
    totLines (addTrailing d suf line) = totLines d + 1 := by
  unfold addTrailing
  rw [any_key_iff]
  split
  · next h => exact totLines_map_hit d suf line hnd h
  · simp [totLines_append, totLines]

theorem nodup_addKey (acc : List Str) (k : Str) (h : acc.Nodup) : (addKey acc k).Nodup := by
  unfold addKey
  split
  · exact h
  · next hc =>
    rw [List.nodup_append]
    refine ⟨h, by simp, ?_⟩
    intro a ha b hb
    simp at hb; subst hb
    intro e; subst e
    exact hc (by simpa using ha)

theorem omFold_keys (fam : Family) (d : List (Str × List Str)) (ss : List Sample) :
    keys (omFold fam d ss) = (ss.filterMap (trailingOf fam)).foldl addKey (keys d) := by
  induction ss generalizing d with
  | nil => rfl
  | cons s r ih =>
    simp only [omFold, List.foldl_cons] at ih ⊢
    rw [ih]
    cases h : trailingOf fam s with
    | none =>
      have e : omStep fam d s = d := by simp [omStep, h]
      simp [e, h]
    | some suf =>
      have e : omStep fam d s = addTrailing d suf (TextExpo.sampleLine s) := by simp [omStep, h]
      simp [e, h, keys_addTrailing]

theorem nodup_foldl_addKey (ks : List Str) (acc : List Str) (h : acc.Nodup) : (ks.foldl addKey acc).Nodup := by
  induction ks generalizing acc with
  | nil => exact h
  | cons k r ih => exact ih _ (nodup_addKey acc k h)

theorem omFold_nodup (fam : Family) (d : List (Str × List Str)) (ss : List Sample) (h : (keys d).Nodup) :
    (keys (omFold fam d ss)).Nodup := by
  rw [omFold_keys]; exact nodup_foldl_addKey _ _ h

theorem omFold_tot (fam : Family) (d : List (Str × List Str)) (ss : List Sample) (h : (keys d).Nodup) :
    totLines (omFold fam d ss) = totLines d + (ss.filter (fun s => (trailingOf fam s).isSome)).length := by
  induction ss generalizing d with
  | nil => simp [omFold]
  | cons s r ih =>
    simp only [omFold, List.foldl_cons] at ih ⊢
    cases hs : trailingOf fam s with
    | none =>
      have e : omStep fam d s = d := by simp [omStep, hs]
      rw [e, ih d h]
      simp [List.filter_cons, hs]
    | some suf =>
      have e : omStep fam d s = addTrailing d suf (TextExpo.sampleLine s) := by simp [omStep, hs]
      have hnd : (keys (addTrailing d suf (TextExpo.sampleLine s))).Nodup := by
        rw [keys_addTrailing]; exact nodup_addKey _ _ h
      rw [e, ih _ hnd, totLines_addTrailing d suf _ h]
      simp [List.filter_cons, hs]; omega

theorem filter_split_length (ss : List Sample) (p : Sample → Bool) :
    (ss.filter (fun s => !p s)).length + (ss.filter p).length = ss.length := by
  induction ss with
  | nil => rfl
  | cons s r ih =>
    simp only [List.filter_cons]
    cases p s <;> simp <;> omega

-- sorting keeps totals -------------------------------------------------------------------------------------------
theorem totLines_insertByKey (kv : Str × List Str) (l : List (Str × List Str)) :
    totLines (insertByKey kv l) = kv.2.length + totLines l := by
  induction l with
  | nil => simp [insertByKey, totLines]
  | cons y ys ih =>
    simp only [insertByKey]
    split
    · simp [totLines]
    · simp [totLines, ih]; omega

theorem totLines_foldl_insert (l acc : List (Str × List Str)) :
    totLines (l.foldl (fun acc kv => insertByKey kv acc) acc) = totLines acc + totLines l := by
  induction l generalizing acc with
  | nil => simp [totLines]
  | cons y ys ih => simp [ih, totLines_insertByKey, totLines]; omega

theorem totLines_sortByKey (l : List (Str × List Str)) : totLines (sortByKey l) = totLines l := by
  simp [sortByKey, totLines_foldl_insert, totLines]

theorem length_groups (L : List (Str × List Str)) (f : Str × List Str → List Str)
    (hf : ∀ e, (f e).length = 2 + e.2.length) :
    (L.flatMap f).length = 2 * L.length + totLines L := by
  induction L with
  | nil => rfl
  | cons e r ih => simp [List.flatMap_cons, hf, ih, totLines]; omega

/-- the text exposition writes exactly `expectedLineCount` lines for a family -/
theorem familyLines_length (fam : Family) : (familyLines fam).length = expectedLineCount fam := by
  rw [familyLines_eq]
  simp only [List.length_append, List.length_cons, List.length_nil, List.length_map]
  rw [length_groups _ _ (fun e => by simp; omega), length_sortByKey, totLines_sortByKey]
  have hk : (omFold fam [] fam.samples).length = (trailingKeys fam).length := by
    have := omFold_keys fam [] fam.samples
    simp only [keys, List.map_nil] at this
    have h2 := congrArg List.length this
    simpa [trailingKeys] using h2
  have ht := omFold_tot fam [] fam.samples (by simp [keys])
  have hs := filter_split_length fam.samples (fun s => (trailingOf fam s).isSome)
  have hnone : (fam.samples.filter (fun s => (trailingOf fam s).isNone)) =
      (fam.samples.filter (fun s => !(trailingOf fam s).isSome)) := by
    congr 1; funext s; cases trailingOf fam s <;> rfl
  rw [hnone, hk, ht]
  simp only [totLines, expectedLineCount]
  omega

-- every line is a line of the grammar ---------------------------------------------------------------------------
theorem trailingOf_mem (fam : Family) (s : Sample) (suf : Str) (h : trailingOf fam s = some suf) :
    suf ∈ trailingSuffixes := by
  unfold trailingOf at h
  exact List.mem_of_find?_eq_some h

/-- invariant of the `om_samples` loop: keys are trailing suffixes, stored lines are sample lines of the family -/
def OmInv (fam : Family) (d : List (Str × List Str)) : Prop :=
  ∀ e ∈ d, e.1 ∈ trailingSuffixes ∧ ∀ l ∈ e.2, ∃ s ∈ fam.samples, l = TextExpo.sampleLine s

theorem omInv_addTrailing (fam : Family) (d : List (Str × List Str)) (suf : Str) (s : Sample)
    (hd : OmInv fam d) (hsuf : suf ∈ trailingSuffixes) (hs : s ∈ fam.samples) :
    OmInv fam (addTrailing d suf (TextExpo.sampleLine s)) := by
  unfold addTrailing
  split
  · intro e he
    simp only [List.mem_map] at he
    obtain ⟨e0, he0, rfl⟩ := he
    have := hd e0 he0
    split
    · refine ⟨this.1, ?_⟩
      intro l hl
      simp only [List.mem_append, List.mem_singleton] at hl
      rcases hl with hl | rfl
      · exact this.2 l hl
      · exact ⟨s, hs, rfl⟩
    · exact this
  · intro e he
    simp only [List.mem_append, List.mem_singleton] at he
    rcases he with he | rfl
    · exact hd e he
    · exact ⟨hsuf, fun l hl => by simp at hl; subst hl; exact ⟨s, hs, rfl⟩⟩

theorem omInv_fold (fam : Family) (d : List (Str × List Str)) (ss : List Sample) (hd : OmInv fam d)
    (hss : ∀ s ∈ ss, s ∈ fam.samples) : OmInv fam (omFold fam d ss) := by
  induction ss generalizing d with
  | nil => exact hd
  | cons s r ih =>
    simp only [omFold, List.foldl_cons] at ih ⊢
    apply ih _ _ (fun x hx => hss x (by simp [hx]))
    cases h : trailingOf fam s with
    | none =>
      have e : omStep fam d s = d := by simp [omStep, h]
      rw [e]; exact hd
    | some suf =>
      have e : omStep fam d s = addTrailing d suf (TextExpo.sampleLine s) := by simp [omStep, h]
      rw [e]
      exact omInv_addTrailing fam d suf s hd (trailingOf_mem fam s suf h) (hss s (by simp))

/-- under the hypotheses, every line the text exposition writes for a family is an LF-terminated line of the grammar -/
theorem familyLines_ok (fam : Family) (h : familyOKText fam = true) :
    ∀ l ∈ familyLines fam, ∃ k, LineOf false k l := by
  simp only [familyOKText, Bool.and_eq_true, List.all_eq_true] at h
  obtain ⟨ht, hs⟩ := h
  have htyp := munge_type_ok fam.typ (by simpa using ht)
  intro l hl
  rw [familyLines_eq] at hl
  simp only [List.mem_append, List.mem_cons, List.mem_map, List.mem_flatMap, List.mem_filter,
    List.not_mem_nil, or_false] at hl
  rcases hl with ((rfl | rfl) | ⟨s, ⟨hs1, _⟩, rfl⟩) | ⟨e, he, hl⟩
  · exact ⟨_, text_helpLine_ok _ _ _⟩
  · exact ⟨_, text_typeLine_ok _ _ (by rw [munge_snd]; exact htyp.1)⟩
  · exact ⟨_, text_sampleLine_lineOf s (hs s hs1)⟩
  · have hinv := omInv_fold fam [] fam.samples (by intro e he; simp at he) (fun s hs => hs)
    have hin : e ∈ omFold fam [] fam.samples := (mem_sortByKey e _).mp he
    obtain ⟨hsuf, hlines⟩ := hinv e hin
    rcases hl with (rfl | rfl) | hl
    · exact ⟨_, text_helpLine_ok _ _ _⟩
    · exact ⟨_, text_typeLine_ok _ _ (by decide)⟩
    · obtain ⟨s, hs1, rfl⟩ := hlines l hl
      exact ⟨_, text_sampleLine_lineOf s (hs s hs1)⟩

end PromVerif.Lemmas.Lines
