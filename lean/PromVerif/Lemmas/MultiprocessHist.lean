/-
The histogram branch of `_accumulate_metrics`: phase 1 (merge per label set and bound, `_sum` as a plain sample) and
phase 2 (sort, cumulate, `_count`) equal the spec's `bucketSeries` laid over the plain sums.
-/
import PromVerif.Lemmas.MultiprocessAcc

namespace PromVerif.Model.Multiprocess
open PromVerif.Py PromVerif.Generated.Multiprocess
open PromVerif.Spec.Multiprocess (aggSum distinct groups boundsOf merged sortBounds insertBound cumulate mergedSorted
  countOf groupSeries)
set_option autoImplicit false

variable {V B : Type}

/-! ### `d[k] += v` on a defaultdict(float), generically -/

def addInto {κ : Type} [DecidableEq κ] (vo : VOps V) (d : List (κ × V)) (k : κ) (v : V) : List (κ × V) :=
  AL.set d k (vo.add (AL.getD d k vo.zero) v)

def addAll {κ : Type} [DecidableEq κ] (vo : VOps V) (d : List (κ × V)) (ps : List (κ × V)) : List (κ × V) :=
  ps.foldl (fun d p => addInto vo d p.1 p.2) d

theorem addAll_get? {κ : Type} [DecidableEq κ] (vo : VOps V) (ps : List (κ × V)) (k : κ) :
    AL.get? (addAll vo [] ps) k = match (ps.filter (fun p => p.1 = k)).map (·.2) with
      | [] => none
      | v :: r => some (aggSum vo (v :: r)) := by
  have h := foldl_proj (fun (d : List (κ × V)) p => addInto vo d p.1 p.2) (fun p => p.1)
    (fun d k => AL.get? d k) (fun o p => some (vo.add (o.getD vo.zero) p.2))
    (by
      intro d x k
      unfold addInto
      simp only [AL.get?_set, AL.getD_eq]
      split
      · next h => subst h; rfl
      · rfl)
    ps [] k
  unfold addAll
  rw [h]
  exact foldl_plus_none vo (fun (p : κ × V) => p.2) _

theorem addAll_nodup {κ : Type} [DecidableEq κ] (vo : VOps V) (ps d : List (κ × V)) (h : (AL.keys d).Nodup) :
    (AL.keys (addAll vo d ps)).Nodup := by
  unfold addAll
  exact foldl_inv (fun (d : List (κ × V)) (p : κ × V) => addInto vo d p.1 p.2) (fun d => (AL.keys d).Nodup)
    (fun s x h => AL.nodup_set _ _ _ h) ps d h

/-- keys appear in first-touch order -/
theorem keys_foldl_set {κ β α : Type} [DecidableEq κ] (key : α → κ) (val : List (κ × β) → α → β) (xs : List α)
    (d : List (κ × β)) :
    AL.keys (xs.foldl (fun d x => AL.set d (key x) (val d x)) d)
      = (xs.map key).foldl (fun acc a => if a ∈ acc then acc else acc ++ [a]) (AL.keys d) := by
  induction xs generalizing d with
  | nil => rfl
  | cons x r ih =>
    simp only [List.foldl_cons, List.map_cons]
    rw [ih, AL.keys_set]

theorem addAll_keys {κ : Type} [DecidableEq κ] (vo : VOps V) (ps : List (κ × V)) :
    AL.keys (addAll vo [] ps) = distinct (ps.map (·.1)) := by
  unfold addAll addInto distinct
  exact keys_foldl_set (fun (p : κ × V) => p.1) (fun d p => vo.add (AL.getD d p.1 vo.zero) p.2) ps []

/-- a dict is the decoration of its key list by any function that agrees with it -/
theorem AL.eq_map_keys {κ β : Type} (d : List (κ × β)) (f : κ → β) (h : ∀ kv ∈ d, f kv.1 = kv.2) :
    d = (d.map (·.1)).map (fun k => (k, f k)) := by
  induction d with
  | nil => rfl
  | cons x r ih =>
    simp only [List.map_cons]
    rw [← ih (fun kv hkv => h kv (List.mem_cons_of_mem _ hkv))]
    have := h x List.mem_cons_self
    rw [this]

theorem mem_distinct {α : Type} [DecidableEq α] (l : List α) (a : α) : a ∈ distinct l ↔ a ∈ l := by
  unfold distinct
  suffices ∀ acc, a ∈ l.foldl (fun acc a => if a ∈ acc then acc else acc ++ [a]) acc ↔ a ∈ acc ∨ a ∈ l by
    simpa using this []
  induction l with
  | nil => intro acc; simp
  | cons x r ih =>
    intro acc
    simp only [List.foldl_cons]
    rw [ih]
    by_cases hx : x ∈ acc
    · simp only [hx, if_true, List.mem_cons]
      constructor
      · rintro (h | h); exact Or.inl h; exact Or.inr (Or.inr h)
      · rintro (h | h | h); exact Or.inl h; exact Or.inl (h ▸ hx); exact Or.inr h
    · simp only [hx, if_false, List.mem_append, List.mem_cons, List.not_mem_nil, or_false]
      constructor
      · rintro ((h | h) | h); exact Or.inl h; exact Or.inr (Or.inl h); exact Or.inr (Or.inr h)
      · rintro (h | h | h); exact Or.inl (Or.inl h); exact Or.inl (Or.inr h); exact Or.inr h

theorem nodup_distinct {α : Type} [DecidableEq α] (l : List α) : (distinct l).Nodup := by
  unfold distinct
  suffices ∀ acc : List α, acc.Nodup → (l.foldl (fun acc a => if a ∈ acc then acc else acc ++ [a]) acc).Nodup from
    this [] List.nodup_nil
  induction l with
  | nil => intro acc h; exact h
  | cons x r ih =>
    intro acc h
    simp only [List.foldl_cons]
    apply ih
    split
    · exact h
    · next hx =>
      rw [List.nodup_append]
      refine ⟨h, by simp, ?_⟩
      intro a ha b hb
      simp at hb; subst hb
      intro e; subst e; exact hx ha

/-- the inner dict built from the `(bound, value)` pairs of one label set -/
theorem addAll_eq (vo : VOps V) [DecidableEq B] (ps : List (B × V)) :
    addAll vo [] ps = (distinct (ps.map (·.1))).map
      (fun b => (b, aggSum vo ((ps.filter (fun p => p.1 = b)).map (·.2)))) := by
  have hk := addAll_keys vo ps
  have hnd := addAll_nodup vo ps [] (by simp [AL.keys])
  have := AL.eq_map_keys (addAll vo [] ps) (fun b => aggSum vo ((ps.filter (fun p => p.1 = b)).map (·.2)))
    (by
      intro kv hkv
      have hg := AL.get?_of_mem _ hnd kv.1 kv.2 hkv
      rw [addAll_get?] at hg
      cases hv : (ps.filter (fun p => p.1 = kv.1)).map (·.2) with
      | nil => rw [hv] at hg; cases hg
      | cons v r => rw [hv] at hg; simp only [Option.some.injEq] at hg; exact hg)
  rw [this]
  congr 1

/-! ### phase 1 -/

/-- `(labels without le, bound, value)` of a bucket item -/
def HItem.triple : HItem V B → Option (Labels × B × V)
  | .bucket L b v => some (L, b, v)
  | .plain _ _ _ => none

def HItem.pair : HItem V B → Option (SKey × V)
  | .bucket _ _ _ => none
  | .plain n ls v => some ((n, ls), v)

def bucketAll [DecidableEq B] (vo : VOps V) (bk : List (Labels × List (B × V))) (ts : List (Labels × B × V)) :
    List (Labels × List (B × V)) :=
  ts.foldl (fun bk t => bucketAdd vo bk t.1 t.2.1 t.2.2) bk

theorem histFold_split [DecidableEq B] (vo : VOps V) (items : List (HItem V B)) (acc : Acc V B) :
    items.foldl (histStep vo) acc
      = ⟨addAll vo acc.samples (items.filterMap HItem.pair), acc.tstamps,
          bucketAll vo acc.buckets (items.filterMap HItem.triple)⟩ := by
  induction items generalizing acc with
  | nil => rfl
  | cons x r ih =>
    simp only [List.foldl_cons]
    rw [ih]
    cases x with
    | bucket L b v => simp [histStep, HItem.pair, HItem.triple, bucketAll, List.filterMap_cons]
    | plain n ls v =>
      simp [histStep, HItem.pair, HItem.triple, addAll, addInto, plainStep, List.filterMap_cons]

theorem bucketAll_keys [DecidableEq B] (vo : VOps V) (ts : List (Labels × B × V)) :
    AL.keys (bucketAll vo [] ts) = groups ts := by
  unfold bucketAll bucketAdd groups distinct
  exact keys_foldl_set (fun (t : Labels × B × V) => t.1)
    (fun bk t => AL.set (AL.getD bk t.1 []) t.2.1 (vo.add (AL.getD (AL.getD bk t.1 []) t.2.1 vo.zero) t.2.2)) ts []

theorem bucketAll_nodup [DecidableEq B] (vo : VOps V) (ts : List (Labels × B × V)) :
    (AL.keys (bucketAll vo [] ts)).Nodup := by
  rw [bucketAll_keys]; exact nodup_distinct _

theorem foldl_filter_map {α β γ : Type} (p : α → Bool) (g : α → β) (f : γ → β → γ) (xs : List α) (c : γ) :
    (xs.filter p).foldl (fun acc x => f acc (g x)) c = ((xs.filter p).map g).foldl f c := by
  induction (xs.filter p) generalizing c with
  | nil => rfl
  | cons x r ih => simp [ih]

/-- the inner dict of label set `L` is built from the pairs of `L` alone -/
theorem bucketAll_inner [DecidableEq B] (vo : VOps V) (ts : List (Labels × B × V)) (L : Labels) :
    AL.getD (bucketAll vo [] ts) L [] = addAll vo [] ((ts.filter (fun t => t.1 = L)).map (·.2)) := by
  have h := foldl_proj (fun (bk : List (Labels × List (B × V))) t => bucketAdd vo bk t.1 t.2.1 t.2.2) (fun t => t.1)
    (fun bk L => AL.getD bk L []) (fun inner t => addInto vo inner t.2.1 t.2.2)
    (by
      intro bk x L
      unfold bucketAdd addInto
      simp only [AL.getD_eq, AL.get?_set]
      split
      · next h => subst h; rfl
      · rfl)
    ts [] L
  unfold bucketAll
  rw [h]
  unfold addAll
  simp only [AL.getD_eq, AL.get?_nil, Option.getD_none]
  exact foldl_filter_map (fun t => decide (t.1 = L)) (fun (t : Labels × B × V) => t.2)
    (fun d (p : B × V) => addInto vo d p.1 p.2) ts []

theorem merged_eq [DecidableEq B] (vo : VOps V) (ts : List (Labels × B × V)) (L : Labels) (b : B) :
    aggSum vo ((((ts.filter (fun t => t.1 = L)).map (·.2)).filter (fun p => p.1 = b)).map (·.2))
      = merged vo ts L b := by
  unfold merged
  congr 1
  induction ts with
  | nil => rfl
  | cons t r ih =>
    by_cases h1 : t.1 = L
    · by_cases h2 : t.2.1 = b
      · simp [h1, h2, ih]
      · simp [h1, h2, ih]
    · simp [h1, ih]

/-- phase 1, buckets: one entry per label set in first-touch order, each holding its bounds in first-touch order with
    the merged counts -/
theorem bucketAll_eq [DecidableEq B] (vo : VOps V) (ts : List (Labels × B × V)) :
    bucketAll vo [] ts = (groups ts).map (fun L => (L, (boundsOf ts L).map (fun b => (b, merged vo ts L b)))) := by
  have hnd := bucketAll_nodup vo ts
  have := AL.eq_map_keys (bucketAll vo [] ts) (fun L => (boundsOf ts L).map (fun b => (b, merged vo ts L b)))
    (by
      intro kv hkv
      have hg := AL.get?_of_mem _ hnd kv.1 kv.2 hkv
      have hi := bucketAll_inner vo ts kv.1
      rw [AL.getD_eq, hg, Option.getD_some, addAll_eq] at hi
      rw [hi]
      unfold boundsOf
      simp only [List.map_map]
      apply List.map_congr_left
      intro b _
      rw [← merged_eq])
  rw [this]
  have hk := bucketAll_keys vo ts
  unfold AL.keys at hk
  rw [hk]

/-! ### phase 2 -/

theorem insertSorted_map {β : Type} (lt : B → B → Bool) (f : B → β) (x : B) (l : List B) :
    insertSorted lt (x, f x) (l.map (fun b => (b, f b))) = (insertBound lt x l).map (fun b => (b, f b)) := by
  induction l with
  | nil => rfl
  | cons y r ih =>
    simp only [List.map_cons, insertSorted, insertBound]
    split
    · simp [ih]
    · rfl

theorem sortItems_map {β : Type} (lt : B → B → Bool) (f : B → β) (l : List B) :
    sortItems lt (l.map (fun b => (b, f b))) = (sortBounds lt l).map (fun b => (b, f b)) := by
  unfold sortItems sortBounds
  induction l with
  | nil => rfl
  | cons x r ih =>
    simp only [List.map_cons, List.foldr_cons]
    rw [ih, insertSorted_map]

/-- the cumulation loop: running total and the samples it stores -/
theorem emit_loop (vo : VOps V) (keyf : B → SKey) (l : List (B × V)) (a : V) (s : List (SKey × V)) :
    l.foldl (fun (st : V × List (SKey × V)) bv =>
        let acc := vo.add st.1 bv.2
        (acc, AL.set st.2 (keyf bv.1) acc)) (a, s)
      = ((l.map (·.2)).foldl vo.add a, AL.setAll s ((cumulate vo a l).map (fun bv => (keyf bv.1, bv.2)))) := by
  induction l generalizing a s with
  | nil => rfl
  | cons x r ih =>
    obtain ⟨b, v⟩ := x
    simp only [List.foldl_cons, List.map_cons, cumulate]
    rw [ih]
    rfl

theorem emitBuckets_eq [DecidableEq B] (vo : VOps V) (bo : BOps B) (mn : Str) (samples : List (SKey × V))
    (ts : List (Labels × B × V)) (L : Labels) :
    emitBuckets vo bo mn samples (L, (boundsOf ts L).map (fun b => (b, merged vo ts L b)))
      = AL.setAll samples (groupSeries vo bo mn ts L) := by
  unfold emitBuckets groupSeries
  simp only
  rw [sortItems_map]
  have := emit_loop vo (fun b => (mn ++ bucketSuffix, L ++ [(leLabel, bo.fmt b)]))
    ((sortBounds bo.lt (boundsOf ts L)).map (fun b => (b, merged vo ts L b))) vo.zero samples
  rw [this]
  rw [AL.setAll_append]
  simp only [AL.setAll, List.foldl_cons, List.foldl_nil]
  rfl

theorem emitAll_eq [DecidableEq B] (vo : VOps V) (bo : BOps B) (mn : Str) (ts : List (Labels × B × V))
    (gs : List Labels) (samples : List (SKey × V)) :
    (gs.map (fun L => (L, (boundsOf ts L).map (fun b => (b, merged vo ts L b))))).foldl (emitBuckets vo bo mn) samples
      = AL.setAll samples (gs.flatMap (groupSeries vo bo mn ts)) := by
  induction gs generalizing samples with
  | nil => rfl
  | cons L r ih =>
    simp only [List.map_cons, List.foldl_cons, List.flatMap_cons]
    rw [emitBuckets_eq, ih, AL.setAll_append]

/-- the histogram branch on classified items: plain sums overlaid with the spec's bucket and count series -/
theorem hist_items_eq [DecidableEq B] (vo : VOps V) (bo : BOps B) (mn : Str) (items : List (HItem V B)) :
    (items.foldl (histStep vo) (Acc.empty (V := V) (B := B))).buckets.foldl (emitBuckets vo bo mn)
        (items.foldl (histStep vo) (Acc.empty (V := V) (B := B))).samples
      = AL.setAll (addAll vo [] (items.filterMap HItem.pair))
          ((groups (items.filterMap HItem.triple)).flatMap
            (groupSeries vo bo mn (items.filterMap HItem.triple))) := by
  rw [histFold_split]
  simp only [Acc.empty]
  rw [bucketAll_eq, emitAll_eq]

end PromVerif.Model.Multiprocess
