/-
C12, static facts about the value objects of one child: their constructor parameters (`cellParams`), the file they are
bound to, and that `mmap_key` tells apart (i) the cells of one child and (ii) the cells of two children with different
label values — so no two live value objects share a (file, key), which is what C09's coherence needs (`huniq`).
-/
import PromVerif.Lemmas.BackendsSort
import PromVerif.Lemmas.BackendsCells
import PromVerif.Lemmas.MultiprocessValues

namespace PromVerif.Lemmas.Backends
open PromVerif.Py PromVerif.Generated.Multiprocess
open PromVerif.Model.Metrics (Val Decl Kind Child Action)
open PromVerif.Model.Multiprocess
open PromVerif.Model.Values (Params mmapKey filePrefix idOf)
open PromVerif.Model.Backends
set_option autoImplicit false

variable {V : Type}

def leName : Str := "le".toList

/-- the `le` texts of a declaration's buckets -/
def leTexts (d : MDecl V) : List Str :=
  match d.decl.kind with
  | .histogram bs => bs.map (fun b => Model.Utils.floatToGoString b.2)
  | _ => []

/-- what the constructors guarantee about a declaration, as far as the value objects are concerned -/
structure WFDecl (d : MDecl V) : Prop where
  sup : Supported d
  lnNodup : d.decl.labelnames.Nodup
  noLe : leName ∉ d.decl.labelnames
  /-- two bounds never render to the same `le` text -/
  leNodup : (leTexts d).Nodup

/-- the file prefix of every cell of the metric -/
def prefixOf (d : MDecl V) : Str :=
  if isGauge d then "gauge".toList ++ gaugePrefixSep ++ d.mode else typStr d.decl.kind

def plainParam (d : MDecl V) (typ suffix : Str) (mode : Str) (lv : List Str) : Params :=
  ⟨typ, d.decl.name, d.decl.name ++ suffix, d.decl.labelnames, lv, d.help, mode⟩

def sCounter : Str := "counter".toList
def sGauge : Str := "gauge".toList
def sSummary : Str := "summary".toList
def sHistogram : Str := "histogram".toList
def sTotal : Str := "_total".toList
def sCount : Str := "_count".toList
def sSum : Str := "_sum".toList
def sBucket : Str := "_bucket".toList

def bucketParam (d : MDecl V) (lv : List Str) (t : Str) : Params :=
  ⟨sHistogram, d.decl.name, d.decl.name ++ sBucket, d.decl.labelnames ++ [leName], lv ++ [t], d.help, []⟩

theorem cellParams_eq (d : MDecl V) (lv : List Str) :
    cellParams d lv = match d.decl.kind with
      | .counter => [plainParam d sCounter sTotal [] lv]
      | .gauge => [plainParam d sGauge [] d.mode lv]
      | .summary => [plainParam d sSummary sCount [] lv, plainParam d sSummary sSum [] lv]
      | .histogram _ => plainParam d sHistogram sSum [] lv :: (leTexts d).map (bucketParam d lv)
      | _ => [] := by
  unfold cellParams leTexts
  cases hk : d.decl.kind with
  | histogram bs => simp only [List.map_map]; rfl
  | gauge => simp only [plainParam, List.append_nil]; rfl
  | _ => rfl

theorem cellParams_metric (d : MDecl V) (lv : List Str) (p : Params) (h : p ∈ cellParams d lv) :
    p.metric = d.decl.name ∧ p.help = d.help ∧ filePrefix p = prefixOf d := by
  rw [cellParams_eq] at h
  unfold prefixOf isGauge
  cases hk : d.decl.kind <;> simp only [hk, List.mem_cons, List.mem_map, List.not_mem_nil, or_false] at h ⊢
  · subst h; exact ⟨rfl, rfl, rfl⟩
  · subst h; exact ⟨rfl, rfl, rfl⟩
  · rcases h with h | h <;> subst h <;> exact ⟨rfl, rfl, rfl⟩
  · rcases h with h | ⟨t, _, h⟩ <;> subst h <;> exact ⟨rfl, rfl, rfl⟩

/-! ### label dictionaries of the keys -/

theorem zip_snoc (ln lv : List Str) (l t : Str) (h : lv.length = ln.length) :
    (ln ++ [l]).zip (lv ++ [t]) = ln.zip lv ++ [(l, t)] := by
  rw [List.zip_append h.symm]
  rfl

theorem snoc_nodup (ln : List Str) (l : Str) (h : ln.Nodup) (hl : l ∉ ln) : (ln ++ [l]).Nodup := by
  rw [List.nodup_append]
  exact ⟨h, by simp, by intro a ha b hb e; simp at hb; subst hb; subst e; exact hl ha⟩

/-- the labels of a key: `sorted(dict(zip(names, values)).items())` is `sorted(zip(names, values))` for distinct names -/
theorem mmapKey_labels (p : Params) (h : p.labelnames.Nodup) :
    (mmapKey p).labels = sortByKey (p.labelnames.zip p.labelvalues) := by
  unfold mmapKey
  simp only
  rw [pyDict_of_nodup _ (zip_nodupKeys _ _ h)]

/-- `mmap_key` determines the label values (label names distinct, one value per name) -/
theorem mmapKey_inj (p q : Params) (hln : p.labelnames = q.labelnames) (hnd : p.labelnames.Nodup)
    (hp : p.labelvalues.length = p.labelnames.length) (hq : q.labelvalues.length = q.labelnames.length)
    (h : mmapKey p = mmapKey q) : p.labelvalues = q.labelvalues := by
  have hl := congrArg Key.labels h
  rw [mmapKey_labels p hnd, mmapKey_labels q (hln ▸ hnd), ← hln] at hl
  exact sorted_zip_inj _ _ _ hnd hp (by rw [hln]; exact hq) hl

theorem append_ne_of_ne (a x y : Str) (h : x ≠ y) : a ++ x ≠ a ++ y :=
  fun e => h (List.append_cancel_left e)

theorem name_of_key_eq (p q : Params) (e : mmapKey p = mmapKey q) : p.name = q.name := congrArg Key.name e

/-- every cell is a plain or a bucket parameter -/
theorem cell_shape (d : MDecl V) (lv : List Str) (p : Params) (hp : p ∈ cellParams d lv) :
    (p.labelnames = d.decl.labelnames ∧ p.labelvalues = lv ∧ p.name ≠ d.decl.name ++ sBucket) ∨
    (∃ t, p = bucketParam d lv t) := by
  rw [cellParams_eq] at hp
  cases hk : d.decl.kind <;> simp only [hk, List.mem_cons, List.mem_map, List.not_mem_nil, or_false] at hp
  · subst hp; exact Or.inl ⟨rfl, rfl, append_ne_of_ne _ _ _ (by decide)⟩
  · subst hp
    refine Or.inl ⟨rfl, rfl, ?_⟩
    intro e2
    have : d.decl.name ++ [] = d.decl.name ++ sBucket := e2
    exact absurd (List.append_cancel_left this) (by decide)
  · rcases hp with hp | hp <;> subst hp
    · exact Or.inl ⟨rfl, rfl, append_ne_of_ne _ _ _ (by decide)⟩
    · exact Or.inl ⟨rfl, rfl, append_ne_of_ne _ _ _ (by decide)⟩
  · rcases hp with hp | ⟨t, _, hp⟩
    · subst hp; exact Or.inl ⟨rfl, rfl, append_ne_of_ne _ _ _ (by decide)⟩
    · exact Or.inr ⟨t, hp.symm⟩

theorem bucketParam_key_inj (d : MDecl V) (hw : WFDecl d) (lv lv' : List Str) (t t' : Str)
    (hlen : lv.length = d.decl.labelnames.length) (hlen' : lv'.length = d.decl.labelnames.length)
    (e : mmapKey (bucketParam d lv t) = mmapKey (bucketParam d lv' t')) : lv = lv' ∧ t = t' := by
  have hnd2 : (d.decl.labelnames ++ [leName]).Nodup := snoc_nodup _ _ hw.lnNodup hw.noLe
  have := mmapKey_inj (bucketParam d lv t) (bucketParam d lv' t') rfl hnd2 (by simp [bucketParam, hlen])
    (by simp [bucketParam, hlen']) e
  simp only [bucketParam] at this
  have h1 := List.append_inj_left this (by rw [hlen, hlen'])
  subst h1
  exact ⟨rfl, List.singleton_inj.mp (List.append_cancel_left this)⟩

/-- the keys of the cells of ONE child are pairwise different -/
theorem cellKeys_nodup (d : MDecl V) (hw : WFDecl d) (lv : List Str) (hlen : lv.length = d.decl.labelnames.length) :
    ((cellParams d lv).map mmapKey).Nodup := by
  rw [cellParams_eq]
  have hle := hw.leNodup
  cases hk : d.decl.kind with
  | counter => simp
  | gauge => simp
  | info => simp
  | enum s => simp
  | summary =>
    simp only [List.map_cons, List.map_nil, List.nodup_cons, List.mem_singleton, List.not_mem_nil, not_false_eq_true,
      List.nodup_nil, and_true]
    intro e
    exact append_ne_of_ne d.decl.name sCount sSum (by decide) (name_of_key_eq _ _ e)
  | histogram bs =>
    simp only [List.map_cons, List.nodup_cons]
    constructor
    · intro hm
      obtain ⟨q, hq, e⟩ := List.mem_map.mp hm
      obtain ⟨t, _, rfl⟩ := List.mem_map.mp hq
      exact append_ne_of_ne d.decl.name sBucket sSum (by decide) (name_of_key_eq _ _ e)
    · rw [List.map_map]
      apply nodup_map_of_injOn _ _ hle
      intro a _ b _ e
      exact (bucketParam_key_inj d hw lv lv a b hlen hlen e).2

/-- cells of two children with different label values have different keys -/
theorem cellKeys_disjoint (d : MDecl V) (hw : WFDecl d) (lv lv' : List Str) (hlen : lv.length = d.decl.labelnames.length)
    (hlen' : lv'.length = d.decl.labelnames.length) (hne : lv ≠ lv') (p q : Params) (hp : p ∈ cellParams d lv)
    (hq : q ∈ cellParams d lv') : mmapKey p ≠ mmapKey q := by
  intro e
  have hnd := hw.lnNodup
  rcases cell_shape d lv p hp with ⟨a1, a2, a3⟩ | ⟨t, rfl⟩ <;> rcases cell_shape d lv' q hq with ⟨b1, b2, b3⟩ | ⟨t', rfl⟩
  · apply hne
    have := mmapKey_inj p q (a1.trans b1.symm) (a1 ▸ hnd) (by rw [a1, a2]; exact hlen) (by rw [b1, b2]; exact hlen') e
    rw [a2, b2] at this
    exact this
  · exact a3 (name_of_key_eq _ _ e)
  · exact b3 (name_of_key_eq _ _ e).symm
  · exact hne (bucketParam_key_inj d hw lv lv' t t' hlen hlen' e).1

end PromVerif.Lemmas.Backends
