/-
`quote_plus` / `unquote_plus`: the strict unescaper of `Spec.Gateway` inverts `Model.Gateway.quotePlus` on every
string; the escaped text contains no `/`.  The UTF-8 layer is Lean core's (`List.utf8Decode?_utf8Encode`).
-/
import PromVerif.Model.Gateway
import PromVerif.Spec.Gateway

namespace PromVerif.Lemmas.Quote
open PromVerif.Py PromVerif.Model.Gateway PromVerif.Spec.Gateway

theorem hexVal_hexUpper : ∀ n, n < 16 → hexVal (hexUpper n) = some n := by decide

theorem hexUpper_ne_slash : ∀ n, n < 16 → hexUpper n ≠ '/' := by decide

theorem safe_ne {c : Char} (h : isSafeChar c = true) : c ≠ '%' ∧ c ≠ '+' ∧ c ≠ '/' := by
  refine ⟨?_, ?_, ?_⟩ <;> (intro e; subst e; revert h; decide)

/-- an ASCII character is its own UTF-8 encoding -/
theorem utf8EncodeChar_ascii : ∀ n, n < 128 → String.utf8EncodeChar (Char.ofNat n) = [UInt8.ofNat n] := by
  decide

/-- strict UTF-8 decoding inverts encoding (core) -/
theorem utf8Decode_utf8 (s : Str) : utf8Decode? (utf8 s) = some s := by
  have h := List.utf8Decode?_utf8Encode (l := s)
  unfold utf8Decode? utf8
  unfold List.utf8Encode at h
  rw [h]
  simp

theorem unquoteBytes_nil (p : Bool) : unquoteBytes p [] = some [] := by
  unfold unquoteBytes; rfl

theorem unquoteBytes_pct (p : Bool) (h l : Char) (rest : List Char) (x y : Nat) (hx : hexVal h = some x)
    (hy : hexVal l = some y) :
    unquoteBytes p ('%' :: h :: l :: rest) = (unquoteBytes p rest).map (UInt8.ofNat (x * 16 + y) :: ·) := by
  rw [unquoteBytes.eq_def]
  simp only [↓reduceIte, hx, hy]
  cases unquoteBytes p rest <;> rfl

theorem unquoteBytes_plus (rest : List Char) :
    unquoteBytes true ('+' :: rest) = (unquoteBytes true rest).map (32 :: ·) := by
  rw [unquoteBytes.eq_def]; simp

theorem unquoteBytes_other (p : Bool) (c : Char) (rest : List Char) (h1 : c ≠ '%') (h2 : c ≠ '+') :
    unquoteBytes p (c :: rest) = (unquoteBytes p rest).map (String.utf8EncodeChar c ++ ·) := by
  rw [unquoteBytes.eq_def]; simp [h1, h2]

/-- one escaped byte is read back as that byte, by either decoder — provided that an encoder writing `+` for a
space (`q`) is read by the decoder that knows it (`p`) -/
theorem unquoteBytes_quoteByte (q p : Bool) (hqp : q = true → p = true) (b : UInt8) (rest : List Char) :
    unquoteBytes p (quoteByte q b ++ rest) = (unquoteBytes p rest).map (b :: ·) := by
  have hb := b.toNat_lt
  unfold quoteByte
  simp only []
  split
  · next h =>
    simp only [Bool.and_eq_true, decide_eq_true_eq] at h
    obtain ⟨h128, hs⟩ := h
    obtain ⟨n1, n2, _⟩ := safe_ne hs
    rw [List.singleton_append, unquoteBytes_other _ _ _ n1 n2, utf8EncodeChar_ascii _ h128, UInt8.ofNat_toNat]
    rfl
  · split
    · next h32 =>
      simp only [Bool.and_eq_true, decide_eq_true_eq] at h32
      have : b = 32 := UInt8.toNat_inj.mp (by simpa using h32.2)
      subst this
      rw [hqp h32.1]
      exact unquoteBytes_plus rest
    · show unquoteBytes p ('%' :: hexUpper (b.toNat / 16) :: hexUpper (b.toNat % 16) :: rest) = _
      rw [unquoteBytes_pct _ _ _ _ _ _ (hexVal_hexUpper _ (by omega)) (hexVal_hexUpper _ (by omega))]
      have : UInt8.ofNat (b.toNat / 16 * 16 + b.toNat % 16) = b := by
        rw [show b.toNat / 16 * 16 + b.toNat % 16 = b.toNat by omega]; exact UInt8.ofNat_toNat
      rw [this]

theorem unquoteBytes_quoteBytes (q p : Bool) (hqp : q = true → p = true) (bs : Bytes) :
    unquoteBytes p (quoteBytes q bs) = some bs := by
  induction bs with
  | nil => exact unquoteBytes_nil p
  | cons b bs ih =>
    show unquoteBytes p (List.flatMap (quoteByte q) (b :: bs)) = _
    rw [List.flatMap_cons, unquoteBytes_quoteByte q p hqp]
    show Option.map _ (unquoteBytes p (quoteBytes q bs)) = _
    rw [ih]; rfl

/-- decoder `p` inverts encoder `q` on every string whenever `q → p` -/
theorem unquoteWith_quoteWith (q p : Bool) (hqp : q = true → p = true) (s : Str) :
    unquoteWith p (quoteWith q s) = some s := by
  unfold unquoteWith quoteWith
  rw [unquoteBytes_quoteBytes q p hqp]
  exact utf8Decode_utf8 s

/-- **`unquote_plus(quote_plus(s)) == s`** for every string -/
theorem unquotePlus_quotePlus (s : Str) : unquotePlus (quotePlus s) = some s :=
  unquoteWith_quoteWith true true (fun h => h) s

theorem quoteByte_no_slash (q : Bool) (b : UInt8) : '/' ∉ quoteByte q b := by
  have hb := b.toNat_lt
  unfold quoteByte
  simp only []
  split
  · next h =>
    simp only [Bool.and_eq_true, decide_eq_true_eq] at h
    have := (safe_ne h.2).2.2
    simp [Ne.symm this]
  · split
    · simp
    · have h1 := hexUpper_ne_slash (b.toNat / 16) (by omega)
      have h2 := hexUpper_ne_slash (b.toNat % 16) (by omega)
      simp [Ne.symm h1, Ne.symm h2]

theorem quoteBytes_no_slash (q : Bool) (bs : Bytes) : '/' ∉ quoteBytes q bs := by
  unfold quoteBytes
  intro h
  obtain ⟨b, _, hb⟩ := List.mem_flatMap.mp h
  exact quoteByte_no_slash q b hb

end PromVerif.Lemmas.Quote
