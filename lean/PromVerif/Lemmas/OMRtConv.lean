/-
C04, the converse at line level: what an ACCEPTED sample line gives is again in the domain of the line-level round trip —
every parsed label name passed `_validate_labelname`, no name twice — and the timestamps the parser builds are fixed points
of render-then-parse except the negative fractional ones (F10).
-/
import PromVerif.Lemmas.OMRtLine
import PromVerif.Lemmas.OMLabels

set_option autoImplicit false

namespace PromVerif.Lemmas.OMRt
open PromVerif.Py PromVerif.Model PromVerif.Model.Escape PromVerif.Model.ParseCore PromVerif.Model.Validation
open PromVerif.Model.OMParse PromVerif.Spec.OMRoundtrip PromVerif.Lemmas.TextParse

/-- a parsed label name: the metric name slot, or a name `_validate_labelname` accepted -/
def NameValid (legacy : Bool) (k : Str) : Prop := k = "__name__".toList ∨ labelNameOK legacy k = true

/-- an accepted term leaves the labels as they are or appends one with a valid name -/
def Valid (legacy : Bool) (labels : List (Str × Str)) (r : PyM (List (Str × Str) × Str)) : Prop :=
  ∀ l' rest, r = .ok (l', rest) → (l' = labels ∨ ∃ k v, l' = labels ++ [(k, v)] ∧ NameValid legacy k)

theorem valid_bind {α : Type} {legacy : Bool} {labels : List (Str × Str)} (x : PyM α) (f : α → PyM (List (Str × Str) × Str))
    (h : ∀ a, x = .ok a → Valid legacy labels (f a)) : Valid legacy labels (x >>= f) := by
  intro l' rest hr
  cases x with
  | error e => cases hr
  | ok a => exact h a rfl l' rest hr

theorem valid_throw {legacy : Bool} {labels : List (Str × Str)} (e : PyErr) : Valid legacy labels (throw e) := by
  intro l' rest hr; cases hr

theorem valid_throw_bind {α : Type} {legacy : Bool} {labels : List (Str × Str)} (e : PyErr) (f : α → PyM (List (Str × Str) × Str)) :
    Valid legacy labels ((throw e : PyM α) >>= f) := by
  intro l' rest hr; cases hr

theorem parseOneLabel_valid (legacy om : Bool) (sub : Str) (labels : List (Str × Str)) :
    Valid legacy labels (parseOneLabel legacy om sub labels) := by
  unfold parseOneLabel
  apply valid_bind; rintro ⟨term, rest⟩ _
  dsimp only
  split
  · split
    · exact valid_throw _
    · intro l' r h; left; cases h; rfl
  · apply valid_bind; rintro ⟨labelName, quotedName, term1⟩ _
    dsimp only
    split
    · exact valid_throw_bind _ _
    · split
      · split
        · exact valid_throw _
        · split
          · exact valid_throw_bind _ _
          · apply valid_bind; rintro ⟨labelValue, x⟩ _
            dsimp only
            split
            · rename_i hname
              apply valid_bind; intro u _
              split
              · exact valid_throw_bind _ _
              · intro l' r h; right; cases h
                exact ⟨labelName, labelValue, rfl, Or.inl (by simpa using hname)⟩
            · apply valid_bind; intro u hu
              split
              · exact valid_throw_bind _ _
              · intro l' r h; right; cases h
                refine ⟨labelName, labelValue, rfl, Or.inr ?_⟩
                unfold labelNameOK; rw [hu]; rfl
      · exact valid_throw _

theorem parseLabelsLoop_valid (legacy om : Bool) : ∀ (fuel : Nat) (sub : Str) (acc ls : List (Str × Str)),
    (∀ kv ∈ acc, NameValid legacy kv.1) → parseLabelsLoop legacy om fuel sub acc = .ok ls → ∀ kv ∈ ls, NameValid legacy kv.1 := by
  intro fuel
  induction fuel with
  | zero =>
    intro sub acc ls hn h
    unfold parseLabelsLoop at h
    split at h
    · cases h; exact hn
    · cases h
  | succ fuel ih =>
    intro sub acc ls hn h
    unfold parseLabelsLoop at h
    split at h
    · cases h; exact hn
    · cases hp : parseOneLabel legacy om sub acc with
      | error e => rw [hp] at h; cases h
      | ok p =>
        obtain ⟨labels', rest⟩ := p
        rw [hp] at h
        have hv := parseOneLabel_valid legacy om sub acc labels' rest hp
        refine ih rest labels' ls ?_ h
        rcases hv with rfl | ⟨k, v, rfl, hk⟩
        · exact hn
        · intro kv hkv
          rcases List.mem_append.mp hkv with h1 | h1
          · exact hn kv h1
          · simp only [List.mem_cons, List.not_mem_nil, or_false] at h1
            subst h1; exact hk

/-- every name in an accepted label block is the metric-name slot or passed `_validate_labelname` -/
theorem parseLabels_valid (legacy om : Bool) (s : Str) (ls : List (Str × Str)) (h : parseLabels legacy s om = .ok ls) :
    ∀ kv ∈ ls, NameValid legacy kv.1 := by
  unfold parseLabels at h
  dsimp only at h
  split at h
  · cases h
  · exact parseLabelsLoop_valid legacy om _ _ [] ls (by simp) h

theorem nodup_filter_keys {L : List (Str × Str)} (h : (L.map (·.1)).Nodup) (p : Str × Str → Bool) : ((L.filter p).map (·.1)).Nodup :=
  (List.Sublist.map _ List.filter_sublist).nodup h

/-- name and labels as `_parse_sample` settles them: the label dict that remains is `LabelsOK` -/
theorem nameFromLabels_ok {legacy : Bool} {name : Str} {labels : List (Str × Str)} {n : Str} {L : List (Str × Str)}
    (hv : ∀ kv ∈ labels, NameValid legacy kv.1) (hnd : (labels.map (·.1)).Nodup) (h : nameFromLabels name labels = .ok (n, L)) :
    LabelsOK legacy L := by
  have hsn := sName_eq
  unfold nameFromLabels at h
  split at h
  · split at h
    · cases h
    · cases h
      refine ⟨?_, nodup_filter_keys hnd _⟩
      intro kv hkv
      obtain ⟨h1, h2⟩ := List.mem_filter.mp hkv
      rcases hv kv h1 with e | e
      · rw [hsn, e] at h2; simp at h2
      · exact e
  · split at h
    · cases h
    · rename_i hhas
      cases h
      refine ⟨?_, hnd⟩
      intro kv hkv
      rcases hv kv hkv with e | e
      · exfalso
        apply hhas
        unfold dictHas
        exact List.any_eq_true.mpr ⟨kv, hkv, by rw [hsn, e]; simp⟩
      · exact e

theorem labels_ok_of_parse {legacy : Bool} {s nm : Str} {labels : List (Str × Str)} {nl : Str × Labels}
    (hl : parseLabels legacy s true = .ok labels) (hn : nameFromLabels nm labels = .ok nl) : LabelsOK legacy nl.2 :=
  nameFromLabels_ok (n := nl.1) (L := nl.2) (parseLabels_valid _ _ _ _ hl) (OM.parseLabels_nodup _ _ _ _ hl) hn

/-- **the labels of every accepted sample line are in the domain of the round trip**: each name passed
`_validate_labelname`, no name twice -/
theorem parseSample_labels_ok (P : Params) (text : Str) (o : OSample) (h : parseSample P text = .ok o) :
    ∃ L, o.labels = some L ∧ LabelsOK P.legacy L := by
  unfold parseSample at h
  simp only [bind, Except.bind, pure, Except.pure] at h
  repeat' split at h
  all_goals first
    | (cases h; done)
    | (cases h; exact ⟨[], rfl, by simp [LabelsOK]⟩)
    | (cases h; exact ⟨_, rfl, labels_ok_of_parse (by assumption) (by assumption)⟩)

-- timestamps -------------------------------------------------------------------------------------------------------------------

/-- the `Timestamp` objects the parser builds: the nanosecond field carries the sign of the second count -/
theorem mkTimestamp_range (a b s n : Int) (h : mkTimestamp a b = .ok (.stamp s n)) :
    (0 ≤ s → 0 ≤ n ∧ n < 1000000000) ∧ (s < 0 → -1000000000 < n ∧ n ≤ 0) := by
  unfold mkTimestamp at h
  split at h
  · cases h
  · rename_i hc
    simp only [Bool.or_eq_true, decide_eq_true_eq, not_or, Int.not_lt, ge_iff_le, Int.not_le] at hc
    cases h
    refine ⟨fun h0 => ?_, fun h0 => ?_⟩
    · have hna : ¬ a < 0 := by omega
      simp only [hna, ↓reduceIte]
      exact ⟨hc.1, hc.2⟩
    · simp only [h0, ↓reduceIte]
      have h1 := hc.1
      have h2 := hc.2
      omega

/-- **render-then-parse is the identity on every `Timestamp` object the parser builds** (normalisation is idempotent; before
7b52129 the negative ones with a fraction were written with two minus signs: F10) -/
theorem stamp_fixpoint (P : Params) (hI : IntLaw P.pyInt) (s n : Int)
    (h1 : 0 ≤ s → 0 ≤ n ∧ n < 1000000000) (h2 : s < 0 → -1000000000 < n ∧ n ≤ 0) :
    parseTimestamp P (OMExpo.tsStr (.stamp s n)) = .ok (some (.stamp s n)) :=
  parseTimestamp_stamp P hI s n h1 h2

end PromVerif.Lemmas.OMRt
