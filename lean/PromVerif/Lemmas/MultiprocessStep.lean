/-
One public call of a `MmapedValue` (or an identity change): the state invariant it preserves and what it does to every
cell of the directory (`step_cell`), and which files it may touch (`step_files`).
-/
import PromVerif.Lemmas.MultiprocessValues

namespace PromVerif.Model.Values
open PromVerif.Py PromVerif.Generated.Multiprocess PromVerif.Model.Multiprocess
set_option autoImplicit false

variable {V : Type}

theorem nodup_getElem?_ne {α : Type} (l : List α) (h : l.Nodup) (i j : Nat) (a b : α)
    (hi : l[i]? = some a) (hj : l[j]? = some b) (hne : i ≠ j) : a ≠ b := by
  obtain ⟨hi', rfl⟩ := List.getElem?_eq_some_iff.mp hi
  obtain ⟨hj', rfl⟩ := List.getElem?_eq_some_iff.mp hj
  have hp := List.pairwise_iff_getElem.mp h
  rcases Nat.lt_or_gt_of_ne hne with hlt | hgt
  · exact hp i j hi' hj' hlt
  · exact fun e => hp j i hj' hi' hgt e.symm

theorem set_getElem?_self' {α : Type} (l : List α) (i : Nat) (a : α) (h : l[i]? = some a) : l.set i a = l := by
  induction l generalizing i with
  | nil => rfl
  | cons x r ih =>
    cases i with
    | zero => simp at h; simp [h]
    | succ j => simp at h; simp [ih j h]

theorem fileName_inj_prefix (pre pre' pid : Str) (h : fileName pre pid = fileName pre' pid) : pre = pre' := by
  rw [fileName_eq, fileName_eq] at h
  exact List.append_cancel_right h

/-- the state invariant: bindings, coherent caches, one value object per (prefix, key) -/
structure Inv (vo : VOps V) (st : St V) : Prop where
  bound : Bound st
  cached : Cached vo st
  uniq : (st.values.map (fun v => idOf v.params)).Nodup

theorem inv_init (vo : VOps V) (actual : Str) : Inv vo (St.init (V := V) actual) :=
  ⟨bound_init actual, cached_init vo actual, by simp [St.init]⟩

/-- parameters appended by an op -/
def newParams : Op V → List Params
  | .construct p => [p]
  | _ => []

theorem getElem?_params {st st1 : St V} (h : st1.values.map (·.params) = st.values.map (·.params)) (i : Nat) :
    st1.values[i]?.map (·.params) = st.values[i]?.map (·.params) := by
  rw [← List.getElem?_map, ← List.getElem?_map, h]

theorem step_params (vo : VOps V) (st : St V) (op : Op V) (hb : Bound st) :
    (step vo st op).1.values.map (·.params) = st.values.map (·.params) ++ newParams op := by
  have hc := checkPid_post vo st hb
  cases op with
  | setPid p => simp [step, newParams]
  | construct p =>
    simp only [step, newParams, List.map_append, hc.params, List.map_cons, List.map_nil]
    rw [(reset_post vo _ _ _ p hc.bound.files).params]
  | inc i a =>
    simp only [step, newParams, List.append_nil]
    cases hv : (checkPid vo st).values[i]? with
    | none => exact hc.params
    | some v =>
      simp only [List.map_set]
      rw [← hc.params]
      have : ((checkPid vo st).values.map (·.params))[i]? = some v.params := by rw [List.getElem?_map, hv]; rfl
      rw [set_getElem?_self' _ _ _ this]
  | set i x t =>
    simp only [step, newParams, List.append_nil]
    cases hv : (checkPid vo st).values[i]? with
    | none => exact hc.params
    | some v =>
      simp only [List.map_set]
      rw [← hc.params]
      have : ((checkPid vo st).values.map (·.params))[i]? = some v.params := by rw [List.getElem?_map, hv]; rfl
      rw [set_getElem?_self' _ _ _ this]
  | get i => simp only [step, newParams, List.append_nil]; exact hc.params

theorem step_pid (vo : VOps V) (st : St V) (op : Op V) (hb : Bound st) :
    (step vo st op).1.actual = (match op with | .setPid p => p | _ => st.actual) ∧
    (step vo st op).1.pid = (match op with | .setPid _ => st.pid | _ => st.actual) := by
  have hc := checkPid_post vo st hb
  cases op with
  | setPid p => exact ⟨rfl, rfl⟩
  | construct p => exact ⟨hc.actual, hc.pid⟩
  | inc i a =>
    simp only [step]
    cases (checkPid vo st).values[i]? <;> exact ⟨hc.actual, hc.pid⟩
  | set i x t =>
    simp only [step]
    cases (checkPid vo st).values[i]? <;> exact ⟨hc.actual, hc.pid⟩
  | get i => exact ⟨hc.actual, hc.pid⟩

/-- a write through value object `v` of a coherent state: everything about the new state -/
theorem write_post (vo : VOps V) (st1 : St V) (h1 : Inv vo st1) (i : Nat) (v : ValueObj V) (hv : st1.values[i]? = some v)
    (x t : V) :
    let st2 : St V := ⟨st1.pid, st1.files, st1.values.set i ⟨v.params, x, t, v.file, v.key⟩,
      writeValue st1.disk v.file v.key x t, st1.actual⟩
    Inv vo st2 ∧
    (∀ fn k, cellVal vo st2.disk fn k = if v.file = fn ∧ v.key = k then (x, t) else cellVal vo st1.disk fn k) ∧
    (∀ fn, fn ≠ v.file → AL.get? st2.disk fn = AL.get? st1.disk fn) := by
  intro st2
  have hcell : ∀ fn k, cellVal vo st2.disk fn k = if v.file = fn ∧ v.key = k then (x, t) else cellVal vo st1.disk fn k := by
    intro fn k
    show cellVal vo (writeValue st1.disk v.file v.key x t) fn k = _
    unfold cellVal
    rw [cellGet_writeValue]
    split <;> rfl
  have hmemv : v ∈ st1.values := List.mem_iff_getElem?.mpr ⟨i, hv⟩
  have hbv := h1.bound.bound v hmemv
  -- members of the updated list
  have hmem : ∀ w ∈ st2.values, (w = (⟨v.params, x, t, v.file, v.key⟩ : ValueObj V)) ∨
      (w ∈ st1.values ∧ idOf w.params ≠ idOf v.params) := by
    intro w hw
    obtain ⟨j, hj⟩ := List.mem_iff_getElem?.mp hw
    show w = _ ∨ _
    have hj' : (st1.values.set i (⟨v.params, x, t, v.file, v.key⟩ : ValueObj V))[j]? = some w := hj
    rw [List.getElem?_set] at hj'
    by_cases hij : i = j
    · simp only [hij, if_true] at hj'
      split at hj'
      · left; exact (Option.some.inj hj').symm
      · cases hj'
    · simp only [hij, if_false] at hj'
      right
      refine ⟨List.mem_iff_getElem?.mpr ⟨j, hj'⟩, ?_⟩
      have e1 : (st1.values.map (fun v => idOf v.params))[j]? = some (idOf w.params) := by
        rw [List.getElem?_map, hj']; rfl
      have e2 : (st1.values.map (fun v => idOf v.params))[i]? = some (idOf v.params) := by
        rw [List.getElem?_map, hv]; rfl
      exact nodup_getElem?_ne _ h1.uniq j i _ _ e1 e2 (Ne.symm hij)
  refine ⟨⟨⟨h1.bound.files, ?_, ?_⟩, ?_, ?_⟩, hcell, ?_⟩
  · intro w hw
    rcases hmem w hw with e | ⟨e, _⟩
    · subst e; exact hbv
    · exact h1.bound.bound w e
  · intro w hw
    show (cellGet (writeValue st1.disk v.file v.key x t) w.file w.key).isSome = true
    rw [cellGet_writeValue]
    split
    · rfl
    · rcases hmem w hw with e | ⟨e, _⟩
      · subst e; exact h1.bound.exist v hmemv
      · exact h1.bound.exist w e
  · intro w hw
    rw [hcell]
    rcases hmem w hw with e | ⟨e, hne⟩
    · subst e; simp
    · have hbw := h1.bound.bound w e
      have : ¬ (v.file = w.file ∧ v.key = w.key) := by
        rintro ⟨e1, e2⟩
        apply hne
        unfold idOf
        rw [hbv.2, hbw.2] at e1
        rw [hbv.1, hbw.1] at e2
        rw [fileName_inj_prefix _ _ _ e1, e2]
      rw [if_neg this]
      exact h1.cached w e
  · show ((st1.values.set i (⟨v.params, x, t, v.file, v.key⟩ : ValueObj V)).map (fun v => idOf v.params)).Nodup
    rw [List.map_set]
    have : (st1.values.map (fun v => idOf v.params))[i]? = some (idOf v.params) := by
      rw [List.getElem?_map, hv]; rfl
    rw [set_getElem?_self' _ _ _ this]
    exact h1.uniq
  · intro fn hne
    exact file_writeValue _ _ fn _ _ _ (Ne.symm hne)

/-- the state after `__check_for_pid_change` is coherent -/
theorem check_inv (vo : VOps V) (st : St V) (h : Inv vo st) : Inv vo (checkPid vo st) := by
  have hc := checkPid_post vo st h.bound
  refine ⟨hc.bound, hc.cached (Or.inr h.cached), ?_⟩
  have : (checkPid vo st).values.map (fun v => idOf v.params) = st.values.map (fun v => idOf v.params) := by
    have := congrArg (List.map idOf) hc.params
    rw [List.map_map, List.map_map] at this
    exact this
  rw [this]; exact h.uniq

/-- **invariant preservation** (the only proviso: a constructed object does not duplicate a live (prefix, key)) -/
theorem step_inv (vo : VOps V) (st : St V) (op : Op V) (h : Inv vo st)
    (hu : ((step vo st op).1.values.map (fun v => idOf v.params)).Nodup) : Inv vo (step vo st op).1 := by
  have hc := checkPid_post vo st h.bound
  have h1 := check_inv vo st h
  cases op with
  | setPid p => exact ⟨⟨h.bound.files, h.bound.bound, h.bound.exist⟩, h.cached, h.uniq⟩
  | get i => exact h1
  | inc i a =>
    simp only [step]
    cases hv : (checkPid vo st).values[i]? with
    | none => exact h1
    | some v => exact (write_post vo _ h1 i v hv _ _).1
  | set i x t =>
    simp only [step]
    cases hv : (checkPid vo st).values[i]? with
    | none => exact h1
    | some v => exact (write_post vo _ h1 i v hv _ _).1
  | construct p =>
    have hr := reset_post vo (checkPid vo st).pid (checkPid vo st).files (checkPid vo st).disk p h1.bound.files
    simp only [step] at hu ⊢
    refine ⟨⟨hr.files, ?_, ?_⟩, ?_, hu⟩
    · intro w hw
      rcases List.mem_append.mp hw with e | e
      · exact h1.bound.bound w e
      · simp only [List.mem_singleton] at e; subst e
        exact ⟨by rw [hr.key, hr.params], by rw [hr.file, hr.params]⟩
    · intro w hw
      rcases List.mem_append.mp hw with e | e
      · exact hr.persists _ _ (h1.bound.exist w e)
      · simp only [List.mem_singleton] at e; subst e
        rw [hr.cached]; rfl
    · intro w hw
      rcases List.mem_append.mp hw with e | e
      · show cellVal vo (reset vo _ _ _ p).2.2 w.file w.key = _
        rw [hr.cellval]; exact h1.cached w e
      · simp only [List.mem_singleton] at e; subst e
        show cellVal vo (reset vo _ _ _ p).2.2 _ _ = _
        unfold cellVal
        rw [hr.cached]; rfl

/-- **frame lemma**: the effect of one op on every cell.  Only `inc`/`set` move a cell, and only the cell
    `(file of the object's prefix under the CURRENT identity, the object's key)`; an increment continues from what that
    cell already holds. -/
theorem step_cell (vo : VOps V) (st : St V) (op : Op V) (h : Inv vo st) (fn : Str) (k : Key) :
    cellVal vo (step vo st op).1.disk fn k =
      match op with
      | .inc i a =>
        match st.values[i]? with
        | some v =>
          if fileName (filePrefix v.params) st.actual = fn ∧ mmapKey v.params = k
          then (vo.add (cellVal vo st.disk fn k).1 a, vo.zero) else cellVal vo st.disk fn k
        | none => cellVal vo st.disk fn k
      | .set i x t =>
        match st.values[i]? with
        | some v =>
          if fileName (filePrefix v.params) st.actual = fn ∧ mmapKey v.params = k
          then (x, tsOr0 vo t) else cellVal vo st.disk fn k
        | none => cellVal vo st.disk fn k
      | _ => cellVal vo st.disk fn k := by
  have hc := checkPid_post vo st h.bound
  have h1 := check_inv vo st h
  cases op with
  | setPid p => rfl
  | get i => exact hc.cellval fn k
  | construct p =>
    have hr := reset_post vo (checkPid vo st).pid (checkPid vo st).files (checkPid vo st).disk p h1.bound.files
    show cellVal vo (reset vo _ _ _ p).2.2 fn k = _
    rw [hr.cellval, hc.cellval]
  | inc i a =>
    simp only [step]
    have hp := getElem?_params hc.params i
    cases hv : (checkPid vo st).values[i]? with
    | none =>
      rw [hv] at hp
      cases hs : st.values[i]? with
      | none => exact hc.cellval fn k
      | some v => rw [hs] at hp; cases hp
    | some v1 =>
      rw [hv] at hp
      cases hs : st.values[i]? with
      | none => rw [hs] at hp; cases hp
      | some v =>
        rw [hs] at hp
        have hpar : v1.params = v.params := Option.some.inj hp
        have hm : v1 ∈ (checkPid vo st).values := List.mem_iff_getElem?.mpr ⟨i, hv⟩
        have hb := h1.bound.bound v1 hm
        have hcv := h1.cached v1 hm
        rw [(write_post vo _ h1 i v1 hv _ _).2.1 fn k]
        simp only
        rw [hb.1, hb.2, hc.pid, hpar]
        split
        · next e =>
          obtain ⟨e1, e2⟩ := e
          have : cellVal vo st.disk fn k = (v1.value, v1.ts) := by
            rw [← hc.cellval, ← hcv, hb.1, hb.2, hc.pid, hpar, e1, e2]
          rw [this]
        · exact hc.cellval fn k
  | set i x t =>
    simp only [step]
    have hp := getElem?_params hc.params i
    cases hv : (checkPid vo st).values[i]? with
    | none =>
      rw [hv] at hp
      cases hs : st.values[i]? with
      | none => exact hc.cellval fn k
      | some v => rw [hs] at hp; cases hp
    | some v1 =>
      rw [hv] at hp
      cases hs : st.values[i]? with
      | none => rw [hs] at hp; cases hp
      | some v =>
        rw [hs] at hp
        have hpar : v1.params = v.params := Option.some.inj hp
        have hm : v1 ∈ (checkPid vo st).values := List.mem_iff_getElem?.mpr ⟨i, hv⟩
        have hb := h1.bound.bound v1 hm
        rw [(write_post vo _ h1 i v1 hv _ _).2.1 fn k]
        simp only
        rw [hb.1, hb.2, hc.pid, hpar]
        split
        · rfl
        · exact hc.cellval fn k

/-- **which files one op may touch**: only files of the identity it runs under (`…_<pid>.db`); an identity change
    itself touches nothing.  Needs no uniqueness assumption. -/
theorem step_files (vo : VOps V) (st : St V) (op : Op V) (hb : Bound st) (fn : Str)
    (hne : ∀ pre, fn ≠ fileName pre (step vo st op).1.pid) :
    AL.get? (step vo st op).1.disk fn = AL.get? st.disk fn := by
  have hc := checkPid_post vo st hb
  have hpid := (step_pid vo st op hb).2
  cases op with
  | setPid p => rfl
  | get i =>
    simp only at hpid
    exact hc.foreign fn (fun pre => hpid ▸ hne pre)
  | construct p =>
    simp only at hpid
    have hr := reset_post vo (checkPid vo st).pid (checkPid vo st).files (checkPid vo st).disk p hc.bound.files
    show AL.get? (reset vo _ _ _ p).2.2 fn = _
    rw [hr.foreign fn (by rw [hc.pid]; exact hpid ▸ hne _), hc.foreign fn (fun pre => hpid ▸ hne pre)]
  | inc i a =>
    simp only at hpid
    have hf := hc.foreign fn (fun pre => hpid ▸ hne pre)
    simp only [step] at hne ⊢
    cases hv : (checkPid vo st).values[i]? with
    | none => exact hf
    | some v =>
      have hm : v ∈ (checkPid vo st).values := List.mem_iff_getElem?.mpr ⟨i, hv⟩
      have hbv := hc.bound.bound v hm
      simp only [hv] at hne
      show AL.get? (writeValue _ v.file v.key _ _) fn = _
      rw [file_writeValue _ _ fn _ _ _ (by rw [hbv.2]; exact Ne.symm (hne _)), hf]
  | set i x t =>
    simp only at hpid
    have hf := hc.foreign fn (fun pre => hpid ▸ hne pre)
    simp only [step] at hne ⊢
    cases hv : (checkPid vo st).values[i]? with
    | none => exact hf
    | some v =>
      have hm : v ∈ (checkPid vo st).values := List.mem_iff_getElem?.mpr ⟨i, hv⟩
      have hbv := hc.bound.bound v hm
      simp only [hv] at hne
      show AL.get? (writeValue _ v.file v.key _ _) fn = _
      rw [file_writeValue _ _ fn _ _ _ (by rw [hbv.2]; exact Ne.symm (hne _)), hf]

end PromVerif.Model.Values
