/-
One public call of a `MmapedValue` (or an identity change): the state invariant it preserves and what it does to every
cell of the directory (`step_cell`), and which files it may touch (`step_files`).
-/
import PromVerif.Lemmas.MultiprocessValues

namespace PromVerif.Model.Values
open PromVerif.Py PromVerif.Generated.Multiprocess PromVerif.Model.Multiprocess
set_option autoImplicit false

variable {V : Type}

theorem nodup_getElem?_ne {α : Type} (l : List α) (h : l.Nodup) (i j : Nat) (a b : α)
    (hi : l[i]? = some a) (hj : l[j]? = some b) (hne : i ≠ j) : a ≠ b := by
  obtain ⟨hi', rfl⟩ := List.getElem?_eq_some_iff.mp hi
  obtain ⟨hj', rfl⟩ := List.getElem?_eq_some_iff.mp hj
  have hp := List.pairwise_iff_getElem.mp h
  rcases Nat.lt_or_gt_of_ne hne with hlt | hgt
  · exact hp i j hi' hj' hlt
  · exact fun e => hp j i hj' hi' hgt e.symm

theorem set_getElem?_self' {α : Type} (l : List α) (i : Nat) (a : α) (h : l[i]? = some a) : l.set i a = l := by
  induction l generalizing i with
  | nil => rfl
  | cons x r ih =>
    cases i with
    | zero => simp at h; simp [h]
    | succ j => simp at h; simp [ih j h]

theorem fileName_inj_prefix (pre pre' pid : Str) (h : fileName pre pid = fileName pre' pid) : pre = pre' := by
  rw [fileName_eq, fileName_eq] at h
  exact List.append_cancel_right h

/-- (prefix, key) of every value object of the acting worker, in construction order -/
def idsOf (st : St V) : List (Str × Key) := st.values.map (fun v => idOf v.params)

/-- index `i` holds the YOUNGEST value object on its (prefix, key): no object constructed later shares it.
    (After `remove()`/`clear()` + `labels()` the re-created child is the youngest; the dropped one is stale.) -/
def IsLast (ids : List (Str × Key)) (i : Nat) : Prop := ∀ j a, i < j → ids[j]? = some a → ids[i]? ≠ some a

/-- the youngest object on each (prefix, key) caches what its file holds (stale objects may not) -/
def CachedL (vo : VOps V) (st : St V) : Prop :=
  ∀ i v, st.values[i]? = some v → IsLast (idsOf st) i → cellVal vo st.disk v.file v.key = (v.value, v.ts)

/-- the state invariant: bindings, and coherent caches of the youngest object on every key -/
structure Inv (vo : VOps V) (st : St V) : Prop where
  bound : Bound st
  cached : CachedL vo st

/-- what a history must respect: only the youngest value object on a (prefix, key) is ever UPDATED.  A stale object
    (dropped child, shadowed metric) may stay in `values` and is re-bound on identity changes — it re-reads, never writes. -/
def OpOK (ids : List (Str × Key)) : Op V → Prop
  | .inc i _ => IsLast ids i
  | .set i _ _ => IsLast ids i
  | _ => True

theorem isLast_of_append (l : List (Str × Key)) (a : Str × Key) (j : Nat) (hj : j < l.length)
    (h : IsLast (l ++ [a]) j) : IsLast l j := by
  intro k b hk hb
  have hk' : k < l.length := by
    have := List.getElem?_eq_some_iff.mp hb; exact this.1
  have h1 : (l ++ [a])[k]? = some b := by rw [List.getElem?_append, if_pos hk']; exact hb
  have := h k b hk h1
  rw [List.getElem?_append, if_pos hj] at this
  exact this

theorem mem_set_list' {α : Type} (l : List α) (i : Nat) (a x : α) (h : x ∈ l.set i a) : x = a ∨ x ∈ l := by
  obtain ⟨j, hj⟩ := List.mem_iff_getElem?.mp h
  rw [List.getElem?_set] at hj
  by_cases hij : i = j
  · simp only [hij, if_true] at hj
    split at hj
    · exact Or.inl (Option.some.inj hj).symm
    · cases hj
  · simp only [hij, if_false] at hj
    exact Or.inr (List.mem_iff_getElem?.mpr ⟨j, hj⟩)

theorem inv_init (vo : VOps V) (actual : Str) : Inv vo (St.init (V := V) actual) :=
  ⟨bound_init actual, fun i v hv _ => by simp [St.init] at hv⟩

/-- parameters appended by an op -/
def newParams : Op V → List Params
  | .construct p => [p]
  | _ => []

theorem getElem?_params {st st1 : St V} (h : st1.values.map (·.params) = st.values.map (·.params)) (i : Nat) :
    st1.values[i]?.map (·.params) = st.values[i]?.map (·.params) := by
  rw [← List.getElem?_map, ← List.getElem?_map, h]

theorem step_params (vo : VOps V) (st : St V) (op : Op V) (hb : Bound st) :
    (step vo st op).1.values.map (·.params) = st.values.map (·.params) ++ newParams op := by
  have hc := checkPid_post vo st hb
  cases op with
  | setPid p => simp [step, newParams]
  | construct p =>
    simp only [step, newParams, List.map_append, hc.params, List.map_cons, List.map_nil]
    rw [(reset_post vo _ _ _ p hc.bound.files).params]
  | inc i a =>
    simp only [step, newParams, List.append_nil]
    cases hv : (checkPid vo st).values[i]? with
    | none => exact hc.params
    | some v =>
      simp only [List.map_set]
      rw [← hc.params]
      have : ((checkPid vo st).values.map (·.params))[i]? = some v.params := by rw [List.getElem?_map, hv]; rfl
      rw [set_getElem?_self' _ _ _ this]
  | set i x t =>
    simp only [step, newParams, List.append_nil]
    cases hv : (checkPid vo st).values[i]? with
    | none => exact hc.params
    | some v =>
      simp only [List.map_set]
      rw [← hc.params]
      have : ((checkPid vo st).values.map (·.params))[i]? = some v.params := by rw [List.getElem?_map, hv]; rfl
      rw [set_getElem?_self' _ _ _ this]
  | get i => simp only [step, newParams, List.append_nil]; exact hc.params

theorem step_pid (vo : VOps V) (st : St V) (op : Op V) (hb : Bound st) :
    (step vo st op).1.actual = (match op with | .setPid p => p | _ => st.actual) ∧
    (step vo st op).1.pid = (match op with | .setPid _ => st.pid | _ => st.actual) := by
  have hc := checkPid_post vo st hb
  cases op with
  | setPid p => exact ⟨rfl, rfl⟩
  | construct p => exact ⟨hc.actual, hc.pid⟩
  | inc i a =>
    simp only [step]
    cases (checkPid vo st).values[i]? <;> exact ⟨hc.actual, hc.pid⟩
  | set i x t =>
    simp only [step]
    cases (checkPid vo st).values[i]? <;> exact ⟨hc.actual, hc.pid⟩
  | get i => exact ⟨hc.actual, hc.pid⟩

/-- a write through the youngest value object `v` on its key, in a coherent state: everything about the new state -/
theorem write_post (vo : VOps V) (st1 : St V) (h1 : Inv vo st1) (i : Nat) (v : ValueObj V) (hv : st1.values[i]? = some v)
    (hlast : IsLast (idsOf st1) i) (x t : V) :
    let st2 : St V := ⟨st1.pid, st1.files, st1.values.set i ⟨v.params, x, t, v.file, v.key⟩,
      writeValue st1.disk v.file v.key x t, st1.actual⟩
    Inv vo st2 ∧
    (∀ fn k, cellVal vo st2.disk fn k = if v.file = fn ∧ v.key = k then (x, t) else cellVal vo st1.disk fn k) ∧
    (∀ fn, fn ≠ v.file → AL.get? st2.disk fn = AL.get? st1.disk fn) := by
  intro st2
  have hcell : ∀ fn k, cellVal vo st2.disk fn k = if v.file = fn ∧ v.key = k then (x, t) else cellVal vo st1.disk fn k := by
    intro fn k
    show cellVal vo (writeValue st1.disk v.file v.key x t) fn k = _
    unfold cellVal
    rw [cellGet_writeValue]
    split <;> rfl
  have hmemv : v ∈ st1.values := List.mem_iff_getElem?.mpr ⟨i, hv⟩
  have hbv := h1.bound.bound v hmemv
  have hidv : (idsOf st1)[i]? = some (idOf v.params) := by
    unfold idsOf; rw [List.getElem?_map, hv]; rfl
  have hids : idsOf st2 = idsOf st1 := by
    show (st1.values.set i (⟨v.params, x, t, v.file, v.key⟩ : ValueObj V)).map (fun v => idOf v.params) = _
    rw [List.map_set]
    exact set_getElem?_self' _ _ _ hidv
  refine ⟨⟨⟨h1.bound.files, ?_, ?_⟩, ?_⟩, hcell, ?_⟩
  · intro w hw
    rcases mem_set_list' _ _ _ _ hw with e | e
    · subst e; exact hbv
    · exact h1.bound.bound w e
  · intro w hw
    show (cellGet (writeValue st1.disk v.file v.key x t) w.file w.key).isSome = true
    rw [cellGet_writeValue]
    split
    · rfl
    · rcases mem_set_list' _ _ _ _ hw with e | e
      · subst e; exact h1.bound.exist v hmemv
      · exact h1.bound.exist w e
  · intro j w hj hl
    rw [hids] at hl
    rw [hcell]
    have hj' : (st1.values.set i (⟨v.params, x, t, v.file, v.key⟩ : ValueObj V))[j]? = some w := hj
    rw [List.getElem?_set] at hj'
    by_cases hij : i = j
    · simp only [hij, if_true] at hj'
      split at hj'
      · have := (Option.some.inj hj').symm; subst this; simp
      · cases hj'
    · simp only [hij, if_false] at hj'
      have hmw : w ∈ st1.values := List.mem_iff_getElem?.mpr ⟨j, hj'⟩
      have hbw := h1.bound.bound w hmw
      have hidw : (idsOf st1)[j]? = some (idOf w.params) := by
        unfold idsOf; rw [List.getElem?_map, hj']; rfl
      have : ¬ (v.file = w.file ∧ v.key = w.key) := by
        rintro ⟨e1, e2⟩
        have hid : idOf w.params = idOf v.params := by
          unfold idOf
          rw [hbv.2, hbw.2] at e1
          rw [hbv.1, hbw.1] at e2
          rw [fileName_inj_prefix _ _ _ e1, e2]
        rcases Nat.lt_or_gt_of_ne hij with hlt | hgt
        · exact hlast j _ hlt hidw (hid ▸ hidv)
        · exact hl i _ hgt hidv (hid ▸ hidw)
      rw [if_neg this]
      exact h1.cached j w hj' hl
  · intro fn hne
    exact file_writeValue _ _ fn _ _ _ (Ne.symm hne)

theorem idsOf_check (vo : VOps V) (st : St V) (hb : Bound st) : idsOf (checkPid vo st) = idsOf st := by
  have := congrArg (List.map idOf) (checkPid_post vo st hb).params
  rw [List.map_map, List.map_map] at this
  exact this

theorem checkPid_same (vo : VOps V) (st : St V) (h : st.pid = st.actual) : checkPid vo st = st := by
  unfold checkPid; simp [h]

/-- the state after `__check_for_pid_change` is coherent -/
theorem check_inv (vo : VOps V) (st : St V) (h : Inv vo st) : Inv vo (checkPid vo st) := by
  have hc := checkPid_post vo st h.bound
  refine ⟨hc.bound, ?_⟩
  by_cases hp : st.pid = st.actual
  · rw [checkPid_same vo st hp]; exact h.cached
  · intro i v hv _
    exact hc.cached (Or.inl hp) v (List.mem_iff_getElem?.mpr ⟨i, hv⟩)

/-- **invariant preservation** (proviso: an update goes through the youngest value object on its key) -/
theorem step_inv (vo : VOps V) (st : St V) (op : Op V) (h : Inv vo st) (hok : OpOK (idsOf st) op) :
    Inv vo (step vo st op).1 := by
  have hc := checkPid_post vo st h.bound
  have h1 := check_inv vo st h
  have hids := idsOf_check vo st h.bound
  cases op with
  | setPid p => exact ⟨⟨h.bound.files, h.bound.bound, h.bound.exist⟩, h.cached⟩
  | get i => exact h1
  | inc i a =>
    simp only [step]
    cases hv : (checkPid vo st).values[i]? with
    | none => exact h1
    | some v => exact (write_post vo _ h1 i v hv (hids ▸ hok) _ _).1
  | set i x t =>
    simp only [step]
    cases hv : (checkPid vo st).values[i]? with
    | none => exact h1
    | some v => exact (write_post vo _ h1 i v hv (hids ▸ hok) _ _).1
  | construct p =>
    have hr := reset_post vo (checkPid vo st).pid (checkPid vo st).files (checkPid vo st).disk p h1.bound.files
    simp only [step]
    refine ⟨⟨hr.files, ?_, ?_⟩, ?_⟩
    · intro w hw
      rcases List.mem_append.mp hw with e | e
      · exact h1.bound.bound w e
      · simp only [List.mem_singleton] at e; subst e
        exact ⟨by rw [hr.key, hr.params], by rw [hr.file, hr.params]⟩
    · intro w hw
      rcases List.mem_append.mp hw with e | e
      · exact hr.persists _ _ (h1.bound.exist w e)
      · simp only [List.mem_singleton] at e; subst e
        rw [hr.cached]; rfl
    · intro j w hj hl
      have hj' : ((checkPid vo st).values ++ [(reset vo (checkPid vo st).pid (checkPid vo st).files (checkPid vo st).disk p).1])[j]?
          = some w := hj
      have hidsn : idsOf (⟨(checkPid vo st).pid, (reset vo (checkPid vo st).pid (checkPid vo st).files (checkPid vo st).disk p).2.1,
          (checkPid vo st).values ++ [(reset vo (checkPid vo st).pid (checkPid vo st).files (checkPid vo st).disk p).1],
          (reset vo (checkPid vo st).pid (checkPid vo st).files (checkPid vo st).disk p).2.2, (checkPid vo st).actual⟩ : St V)
          = idsOf (checkPid vo st) ++ [idOf (reset vo (checkPid vo st).pid (checkPid vo st).files (checkPid vo st).disk p).1.params] := by
        simp [idsOf]
      rw [List.getElem?_append] at hj'
      by_cases hlt : j < (checkPid vo st).values.length
      · rw [if_pos hlt] at hj'
        show cellVal vo (reset vo _ _ _ p).2.2 w.file w.key = _
        rw [hr.cellval]
        apply h1.cached j w hj'
        apply isLast_of_append _ _ j (by simpa [idsOf] using hlt)
        have := hl
        rw [show idsOf _ = _ from hidsn] at this
        exact this
      · rw [if_neg hlt] at hj'
        have : j - (checkPid vo st).values.length = 0 := by
          cases hjj : j - (checkPid vo st).values.length with
          | zero => rfl
          | succ n => rw [hjj] at hj'; simp at hj'
        rw [this] at hj'
        simp only [List.getElem?_cons_zero, Option.some.injEq] at hj'
        subst hj'
        show cellVal vo (reset vo _ _ _ p).2.2 _ _ = _
        unfold cellVal
        rw [hr.cached]; rfl

/-- **frame lemma**: the effect of one op on every cell.  Only `inc`/`set` move a cell, and only the cell
    `(file of the object's prefix under the CURRENT identity, the object's key)`; an increment continues from what that
    cell already holds. -/
theorem step_cell (vo : VOps V) (st : St V) (op : Op V) (h : Inv vo st) (hok : OpOK (idsOf st) op) (fn : Str) (k : Key) :
    cellVal vo (step vo st op).1.disk fn k =
      match op with
      | .inc i a =>
        match st.values[i]? with
        | some v =>
          if fileName (filePrefix v.params) st.actual = fn ∧ mmapKey v.params = k
          then (vo.add (cellVal vo st.disk fn k).1 a, vo.zero) else cellVal vo st.disk fn k
        | none => cellVal vo st.disk fn k
      | .set i x t =>
        match st.values[i]? with
        | some v =>
          if fileName (filePrefix v.params) st.actual = fn ∧ mmapKey v.params = k
          then (x, tsOr0 vo t) else cellVal vo st.disk fn k
        | none => cellVal vo st.disk fn k
      | _ => cellVal vo st.disk fn k := by
  have hc := checkPid_post vo st h.bound
  have h1 := check_inv vo st h
  cases op with
  | setPid p => rfl
  | get i => exact hc.cellval fn k
  | construct p =>
    have hr := reset_post vo (checkPid vo st).pid (checkPid vo st).files (checkPid vo st).disk p h1.bound.files
    show cellVal vo (reset vo _ _ _ p).2.2 fn k = _
    rw [hr.cellval, hc.cellval]
  | inc i a =>
    simp only [step]
    have hp := getElem?_params hc.params i
    cases hv : (checkPid vo st).values[i]? with
    | none =>
      rw [hv] at hp
      cases hs : st.values[i]? with
      | none => exact hc.cellval fn k
      | some v => rw [hs] at hp; cases hp
    | some v1 =>
      rw [hv] at hp
      cases hs : st.values[i]? with
      | none => rw [hs] at hp; cases hp
      | some v =>
        rw [hs] at hp
        have hpar : v1.params = v.params := Option.some.inj hp
        have hm : v1 ∈ (checkPid vo st).values := List.mem_iff_getElem?.mpr ⟨i, hv⟩
        have hb := h1.bound.bound v1 hm
        have hl1 : IsLast (idsOf (checkPid vo st)) i := (idsOf_check vo st h.bound) ▸ hok
        have hcv := h1.cached i v1 hv hl1
        rw [(write_post vo _ h1 i v1 hv hl1 _ _).2.1 fn k]
        simp only
        rw [hb.1, hb.2, hc.pid, hpar]
        split
        · next e =>
          obtain ⟨e1, e2⟩ := e
          have : cellVal vo st.disk fn k = (v1.value, v1.ts) := by
            rw [← hc.cellval, ← hcv, hb.1, hb.2, hc.pid, hpar, e1, e2]
          rw [this]
        · exact hc.cellval fn k
  | set i x t =>
    simp only [step]
    have hp := getElem?_params hc.params i
    cases hv : (checkPid vo st).values[i]? with
    | none =>
      rw [hv] at hp
      cases hs : st.values[i]? with
      | none => exact hc.cellval fn k
      | some v => rw [hs] at hp; cases hp
    | some v1 =>
      rw [hv] at hp
      cases hs : st.values[i]? with
      | none => rw [hs] at hp; cases hp
      | some v =>
        rw [hs] at hp
        have hpar : v1.params = v.params := Option.some.inj hp
        have hm : v1 ∈ (checkPid vo st).values := List.mem_iff_getElem?.mpr ⟨i, hv⟩
        have hb := h1.bound.bound v1 hm
        rw [(write_post vo _ h1 i v1 hv ((idsOf_check vo st h.bound) ▸ hok) _ _).2.1 fn k]
        simp only
        rw [hb.1, hb.2, hc.pid, hpar]
        split
        · rfl
        · exact hc.cellval fn k

/-- **which files one op may touch**: only files of the identity it runs under (`…_<pid>.db`); an identity change
    itself touches nothing.  Needs no uniqueness assumption. -/
theorem step_files (vo : VOps V) (st : St V) (op : Op V) (hb : Bound st) (fn : Str)
    (hne : ∀ pre, fn ≠ fileName pre (step vo st op).1.pid) :
    AL.get? (step vo st op).1.disk fn = AL.get? st.disk fn := by
  have hc := checkPid_post vo st hb
  have hpid := (step_pid vo st op hb).2
  cases op with
  | setPid p => rfl
  | get i =>
    simp only at hpid
    exact hc.foreign fn (fun pre => hpid ▸ hne pre)
  | construct p =>
    simp only at hpid
    have hr := reset_post vo (checkPid vo st).pid (checkPid vo st).files (checkPid vo st).disk p hc.bound.files
    show AL.get? (reset vo _ _ _ p).2.2 fn = _
    rw [hr.foreign fn (by rw [hc.pid]; exact hpid ▸ hne _), hc.foreign fn (fun pre => hpid ▸ hne pre)]
  | inc i a =>
    simp only at hpid
    have hf := hc.foreign fn (fun pre => hpid ▸ hne pre)
    simp only [step] at hne ⊢
    cases hv : (checkPid vo st).values[i]? with
    | none => exact hf
    | some v =>
      have hm : v ∈ (checkPid vo st).values := List.mem_iff_getElem?.mpr ⟨i, hv⟩
      have hbv := hc.bound.bound v hm
      simp only [hv] at hne
      show AL.get? (writeValue _ v.file v.key _ _) fn = _
      rw [file_writeValue _ _ fn _ _ _ (by rw [hbv.2]; exact Ne.symm (hne _)), hf]
  | set i x t =>
    simp only at hpid
    have hf := hc.foreign fn (fun pre => hpid ▸ hne pre)
    simp only [step] at hne ⊢
    cases hv : (checkPid vo st).values[i]? with
    | none => exact hf
    | some v =>
      have hm : v ∈ (checkPid vo st).values := List.mem_iff_getElem?.mpr ⟨i, hv⟩
      have hbv := hc.bound.bound v hm
      simp only [hv] at hne
      show AL.get? (writeValue _ v.file v.key _ _) fn = _
      rw [file_writeValue _ _ fn _ _ _ (by rw [hbv.2]; exact Ne.symm (hne _)), hf]

end PromVerif.Model.Values
