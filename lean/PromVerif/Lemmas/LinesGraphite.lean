/-
C05 lemmas, part 10: the Graphite bridge — sanitised text stays in the whitelist, a line is `path SP value SP int`.
-/
import PromVerif.Lemmas.LinesNum
import PromVerif.Model.Graphite

namespace PromVerif.Lemmas.Lines
open PromVerif.Py PromVerif.Model PromVerif.Model.Validation
open PromVerif.Generated.Graphite
open PromVerif.Spec.LineGrammar hiding Str
open PromVerif.Model.Graphite (sanitize labelItem labelStr line lines push)

/-- every character `_sanitize` lets through or substitutes is in the whitelist -/
theorem sanitize_allowed (s : Str) : ∀ c ∈ sanitize s, inClass allowedClass c = true := by
  intro c hc
  simp only [sanitize, List.mem_flatMap] at hc
  obtain ⟨x, _, hx⟩ := hc
  split at hx
  · next h => simp at hx; subst hx; exact h
  · have : ∀ r ∈ replacement, inClass allowedClass r = true := by decide
    exact this c hx

/-- the whitelist is inside the grammar's path alphabet: printable ASCII, no space, no LF, no separator characters -/
theorem allowed_pathCh (c : Char) (h : inClass allowedClass c = true) : pathCh c = true := by
  simp [inClass, allowedClass] at h
  simp [pathCh, inRange]
  omega

theorem allowed_strict (c : Char) (h : inClass allowedClass c = true) :
    c ≠ ' ' ∧ c ≠ '\n' ∧ c ≠ '.' ∧ c ≠ ';' ∧ c ≠ '=' := by
  refine ⟨?_, ?_, ?_, ?_, ?_⟩ <;> (intro e; subst e; revert h; decide)

theorem sanitize_pathCh (s : Str) : (sanitize s).all pathCh = true := by
  simp only [List.all_eq_true]
  exact fun c hc => allowed_pathCh c (sanitize_allowed s c hc)

theorem mem_joinStr (sep : Str) (l : List Str) (c : Char) (h : c ∈ joinStr sep l) : c ∈ sep ∨ ∃ x ∈ l, c ∈ x := by
  induction l with
  | nil => simp [joinStr] at h
  | cons x xs ih =>
    cases xs with
    | nil => simp [joinStr] at h; exact Or.inr ⟨x, by simp, h⟩
    | cons y ys =>
      simp only [joinStr, List.mem_append] at h
      rcases h with (h | h) | h
      · exact Or.inr ⟨x, by simp, h⟩
      · exact Or.inl h
      · rcases ih h with h | ⟨z, hz, hc⟩
        · exact Or.inl h
        · exact Or.inr ⟨z, by simp [hz], hc⟩

theorem labelItem_pathCh (tags : Bool) (kv : Str × Str) : ∀ c ∈ labelItem tags kv, pathCh c = true := by
  intro c hc
  have hs : sanitizesLabelName = true ∧ sanitizesLabelValue = true := by decide
  simp only [labelItem, hs.1, hs.2, if_true, List.mem_append] at hc
  rcases hc with (hc | hc) | hc
  · exact allowed_pathCh c (sanitize_allowed _ c hc)
  · have : ∀ x ∈ (if tags then tagsMid else plainMid), pathCh x = true := by cases tags <;> decide
    exact this c hc
  · exact allowed_pathCh c (sanitize_allowed _ c hc)

theorem labelStr_pathCh (tags : Bool) (ls : List (Str × Str)) : ∀ c ∈ labelStr tags ls, pathCh c = true := by
  intro c hc
  have hsep : ∀ x ∈ (if tags then tagsSep else plainSep), pathCh x = true := by cases tags <;> decide
  simp only [labelStr, List.mem_append] at hc
  rcases hc with hc | hc
  · exact hsep c hc
  · rcases mem_joinStr _ _ c hc with h | ⟨x, hx, hcx⟩
    · exact hsep c h
    · simp only [List.mem_map] at hx
      obtain ⟨kv, _, rfl⟩ := hx
      exact labelItem_pathCh tags kv c hcx

/-- the line the f-string builds -/
theorem line_eq (tags : Bool) (prefixstr : Str) (now : Int) (s : Sample) :
    line tags prefixstr now s =
      prefixstr ++ sanitize s.name ++ (if s.labels.isEmpty then [] else labelStr tags s.labels) ++ [' '] ++ s.value ++
        [' '] ++ intStr now ++ ['\n'] := by
  unfold line lineFormat
  simp only [List.flatMap_cons, List.flatMap_nil, List.append_nil, List.append_assoc]
  rfl

theorem pathCh_ne_space (c : Char) (h : pathCh c = true) : c ≠ ' ' := by
  intro e; subst e; revert h; decide

theorem numCh_ne_space (c : Char) (h : numCh c = true) : c ≠ ' ' := by
  intro e; subst e; revert h; decide

theorem isDig_ne_space (c : Char) (h : isDig c = true) : c ≠ ' ' := by
  intro e; subst e; revert h; decide

/-- hypotheses for one Graphite line.  Known finding G2: the path is not empty (prefix or sample name non-empty).
Preconditions, not findings: the `prefix` argument of `push` — operator configuration, outside the property's
quantifier, inserted raw — is in the path alphabet; the value is a number token; the clock is not negative -/
def graphiteOK (prefixstr : Str) (now : Int) (s : Sample) : Bool :=
  prefixstr.all pathCh && (!prefixstr.isEmpty || !s.name.isEmpty) && floatTok s.value && decide (0 ≤ now)

theorem sanitize_ne_nil (s : Str) (h : s ≠ []) : sanitize s ≠ [] := by
  cases s with
  | nil => exact absurd rfl h
  | cons c cs =>
    have hr : replacement ≠ [] := by decide
    simp only [sanitize, List.flatMap_cons]
    split <;> simp [hr]

theorem graphite_line_ok (tags : Bool) (prefixstr : Str) (now : Int) (s : Sample)
    (h : graphiteOK prefixstr now s = true) :
    ∃ b, line tags prefixstr now s = b ++ ['\n'] ∧ graphiteLine b = true ∧ '\n' ∉ b := by
  simp only [graphiteOK, Bool.and_eq_true, Bool.or_eq_true, Bool.not_eq_true', decide_eq_true_eq,
    List.all_eq_true] at h
  obtain ⟨⟨⟨hp, hne⟩, hv⟩, hnow⟩ := h
  rw [line_eq]
  refine ⟨_, rfl, ?_⟩
  let P := prefixstr ++ sanitize s.name ++ (if s.labels.isEmpty then [] else labelStr tags s.labels)
  have hP : ∀ c ∈ P, pathCh c = true := by
    intro c hc
    simp only [P, List.mem_append] at hc
    rcases hc with (hc | hc) | hc
    · exact hp c hc
    · exact allowed_pathCh c (sanitize_allowed _ c hc)
    · split at hc
      · simp at hc
      · exact labelStr_pathCh tags _ c hc
  have hPne : P ≠ [] := by
    rcases hne with hne | hne
    · have : prefixstr ≠ [] := by intro e; simp [e] at hne
      simp [P, this]
    · have : s.name ≠ [] := by intro e; simp [e] at hne
      simp [P, sanitize_ne_nil _ this]
  have hV := (floatTok_iff _).mp hv
  obtain ⟨k, rfl⟩ := Int.eq_ofNat_of_zero_le hnow
  have hT : intStr (Int.ofNat k) = decDigits k := rfl
  have hTd := decDigits_isDig k
  have hTne := decDigits_ne_nil k
  have hsp1 : ' ' ∉ P := fun hm => pathCh_ne_space _ (hP _ hm) rfl
  have hsp2 : ' ' ∉ s.value := fun hm => numCh_ne_space _ (hV.2 _ hm) rfl
  have hsp3 : ' ' ∉ decDigits k := by
    intro hm
    simp only [List.all_eq_true] at hTd
    exact isDig_ne_space _ (hTd _ hm) rfl
  have hsplit : splitOn ' ' (P ++ [' '] ++ s.value ++ [' '] ++ decDigits k) = [P, s.value, decDigits k] := by
    simp only [List.append_assoc, List.cons_append, List.nil_append]
    rw [splitOn_append_sep _ _ _ hsp1, splitOn_append_sep _ _ _ hsp2, splitOn_of_not_mem _ _ hsp3]
  have hnat : (↑k : Int) = Int.ofNat k := rfl
  refine ⟨?_, ?_⟩
  · unfold graphiteLine
    rw [hnat, hT]
    show (match splitOn ' ' (P ++ [' '] ++ s.value ++ [' '] ++ decDigits k) with
      | [p, v, t] => !p.isEmpty && p.all pathCh && floatTok v && !t.isEmpty && t.all isDig
      | _ => false) = true
    rw [hsplit]
    simp only [Bool.and_eq_true, Bool.not_eq_true', hv, hTd, and_true]
    refine ⟨⟨isEmpty_false P hPne, ?_⟩, isEmpty_false _ hTne⟩
    simpa only [List.all_eq_true] using hP
  · rw [hnat, hT]
    have lf1 : pathCh '\n' = false := by decide
    have lf2 : numCh '\n' = false := by decide
    have lf3 : isDig '\n' = false := by decide
    intro hm
    rcases List.mem_append.mp hm with hm | hm
    · rcases List.mem_append.mp hm with hm | hm
      · rcases List.mem_append.mp hm with hm | hm
        · rcases List.mem_append.mp hm with hm | hm
          · have := hP _ hm; simp [lf1] at this
          · revert hm; decide
        · have := hV.2 _ hm; simp [lf2] at this
      · revert hm; decide
    · simp only [List.all_eq_true] at hTd
      have := hTd _ hm; simp [lf3] at this
where
  isEmpty_false (x : Str) (h : x ≠ []) : x.isEmpty = false := by
    cases x with
    | nil => exact absurd rfl h
    | cons a as => rfl

theorem lines_length (tags : Bool) (pfx : Str) (now : Int) (fams : List Family) :
    (lines tags pfx now fams).length = (fams.map (fun f => f.samples.length)).sum := by
  unfold lines
  induction fams with
  | nil => rfl
  | cons f r ih => simp [List.flatMap_cons]

end PromVerif.Lemmas.Lines
