/-
Association-list dictionary lemmas for the registry model.
-/
import PromVerif.Model.Registry

namespace PromVerif.Model.Registry
variable {κ : Type} {ν : Type} [DecidableEq κ]

theorem dHas_iff (k : κ) (d : List (κ × ν)) : dHas k d = true ↔ k ∈ d.map Prod.fst := by
  simp only [dHas, List.any_eq_true, decide_eq_true_eq, List.mem_map]

theorem dHas_of_mem {k : κ} {v : ν} {d : List (κ × ν)} (h : (k, v) ∈ d) : dHas k d = true :=
  (dHas_iff k d).2 (List.mem_map.2 ⟨(k, v), h, rfl⟩)

theorem dHas_false_iff (k : κ) (d : List (κ × ν)) : dHas k d = false ↔ k ∉ d.map Prod.fst := by
  rw [← dHas_iff]; simp

theorem dGet_none_iff (k : κ) (d : List (κ × ν)) : dGet k d = none ↔ k ∉ d.map Prod.fst := by
  induction d with
  | nil => simp [dGet]
  | cons p r ih =>
    unfold dGet
    by_cases h : p.1 = k
    · simp [h]
    · simp only [h, if_false, ih, List.map_cons, List.mem_cons, not_or]
      constructor
      · intro h2; exact ⟨fun e => h e.symm, h2⟩
      · intro h2; exact h2.2

theorem dGet_mem {k : κ} {v : ν} {d : List (κ × ν)} (h : dGet k d = some v) : (k, v) ∈ d := by
  induction d with
  | nil => simp [dGet] at h
  | cons p r ih =>
    unfold dGet at h
    by_cases hk : p.1 = k
    · simp only [hk, if_true, Option.some.injEq] at h
      have : p = (k, v) := by cases p; simp_all
      simp [this]
    · simp only [hk, if_false] at h
      exact List.mem_cons_of_mem _ (ih h)

/-- in a dict (unique keys) an entry is what `get` returns -/
theorem dGet_of_mem {k : κ} {v : ν} {d : List (κ × ν)} (hn : (d.map Prod.fst).Nodup) (h : (k, v) ∈ d) :
    dGet k d = some v := by
  induction d with
  | nil => simp at h
  | cons p r ih =>
    unfold dGet
    simp only [List.map_cons, List.nodup_cons] at hn
    rcases List.mem_cons.1 h with h | h
    · subst h; simp
    · have : p.1 ≠ k := by
        intro e
        exact hn.1 (e ▸ List.mem_map.2 ⟨(k, v), h, rfl⟩)
      simp only [this, if_false]
      exact ih hn.2 h

/-- unique keys: two entries under one key are equal -/
theorem val_unique {k : κ} {v w : ν} {d : List (κ × ν)} (hn : (d.map Prod.fst).Nodup)
    (h1 : (k, v) ∈ d) (h2 : (k, w) ∈ d) : v = w := by
  have a := dGet_of_mem hn h1
  have b := dGet_of_mem hn h2
  rw [a] at b
  exact Option.some.inj b

/-! #### `dSet` -/

theorem keys_dSet (k : κ) (v : ν) (d : List (κ × ν)) :
    (dSet k v d).map Prod.fst = if dHas k d then d.map Prod.fst else d.map Prod.fst ++ [k] := by
  unfold dSet
  split
  · rw [List.map_map]
    apply List.map_congr_left
    intro p _
    by_cases h : p.1 = k <;> simp [h]
  · simp

theorem nodup_dSet (k : κ) (v : ν) {d : List (κ × ν)} (hn : (d.map Prod.fst).Nodup) :
    ((dSet k v d).map Prod.fst).Nodup := by
  rw [keys_dSet]
  split
  · exact hn
  · next h =>
    have : k ∉ d.map Prod.fst := (dHas_false_iff k d).1 (by simpa using h)
    rw [List.nodup_append]
    refine ⟨hn, by simp, ?_⟩
    intro a ha b hb
    simp at hb
    subst hb
    intro e; subst e; exact this ha

theorem mem_keys_dSet (a k : κ) (v : ν) (d : List (κ × ν)) :
    a ∈ (dSet k v d).map Prod.fst ↔ a = k ∨ a ∈ d.map Prod.fst := by
  rw [keys_dSet]
  split
  · next h =>
    have hk := (dHas_iff k d).1 h
    constructor
    · exact Or.inr
    · rintro (rfl | h') <;> assumption
  · simp [or_comm]

theorem mem_dSet (a k : κ) (b v : ν) (d : List (κ × ν)) :
    (a, b) ∈ dSet k v d ↔ (a = k ∧ b = v) ∨ (a ≠ k ∧ (a, b) ∈ d) := by
  unfold dSet
  split
  · next h =>
    obtain ⟨p, hp, hpk⟩ := List.mem_map.1 ((dHas_iff k d).1 h)
    simp only [List.mem_map]
    constructor
    · rintro ⟨q, hq, e⟩
      by_cases hqk : q.1 = k
      · simp only [hqk, if_true, Prod.mk.injEq] at e
        exact Or.inl ⟨e.1.symm, e.2.symm⟩
      · simp only [hqk, if_false] at e
        subst e
        exact Or.inr ⟨hqk, hq⟩
    · rintro (⟨rfl, rfl⟩ | ⟨hne, hm⟩)
      · exact ⟨p, hp, by simp [hpk]⟩
      · exact ⟨(a, b), hm, by simp [hne]⟩
  · next h =>
    have hk : k ∉ d.map Prod.fst := (dHas_false_iff k d).1 (by simpa using h)
    simp only [List.mem_append, List.mem_singleton, Prod.mk.injEq]
    constructor
    · rintro (hm | ⟨rfl, rfl⟩)
      · refine Or.inr ⟨?_, hm⟩
        intro e; subst e
        exact hk (List.mem_map.2 ⟨(a, b), hm, rfl⟩)
      · exact Or.inl ⟨rfl, rfl⟩
    · rintro (⟨rfl, rfl⟩ | ⟨_, hm⟩)
      · exact Or.inr ⟨rfl, rfl⟩
      · exact Or.inl hm

/-! #### `dDel` -/

theorem mem_dDel (a k : κ) (b : ν) (d : List (κ × ν)) : (a, b) ∈ dDel k d ↔ a ≠ k ∧ (a, b) ∈ d := by
  simp [dDel, and_comm]

theorem keys_dDel (k : κ) (d : List (κ × ν)) :
    (dDel k d).map Prod.fst = (d.map Prod.fst).filter (fun a => decide (a ≠ k)) := by
  simp only [dDel, List.filter_map]
  rfl

theorem nodup_dDel (k : κ) {d : List (κ × ν)} (hn : (d.map Prod.fst).Nodup) :
    ((dDel k d).map Prod.fst).Nodup := by
  rw [keys_dDel]
  exact hn.sublist List.filter_sublist

theorem mem_keys_dDel (a k : κ) (d : List (κ × ν)) :
    a ∈ (dDel k d).map Prod.fst ↔ a ≠ k ∧ a ∈ d.map Prod.fst := by
  rw [keys_dDel]; simp [and_comm]

theorem dDel_eq_self {k : κ} {d : List (κ × ν)} (h : k ∉ d.map Prod.fst) : dDel k d = d := by
  unfold dDel
  rw [List.filter_eq_self]
  intro p hp
  simp only [decide_eq_true_eq]
  intro e
  exact h (List.mem_map.2 ⟨p, hp, e⟩)

end PromVerif.Model.Registry
