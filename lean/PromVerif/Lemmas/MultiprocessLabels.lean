/-
`dict(labels)` in the final conversion of `_accumulate_metrics` is the identity on label lists with pairwise different
names, and the label lists `mmap_key` produces (a dict, keys sorted) are of that kind.
-/
import PromVerif.Lemmas.MultiprocessDict
import PromVerif.Model.Values

namespace PromVerif.Model.Multiprocess
open PromVerif.Py
set_option autoImplicit false

theorem AL.set_append_of_not_mem {κ β : Type} [DecidableEq κ] (d : List (κ × β)) (k : κ) (v : β) (h : k ∉ AL.keys d) :
    AL.set d k v = d ++ [(k, v)] := by
  induction d with
  | nil => rfl
  | cons x r ih =>
    obtain ⟨k', v'⟩ := x
    have hk : k' ≠ k := fun e => h (by simp [AL.keys, e])
    have hr : k ∉ AL.keys r := fun e => h (by simp only [AL.keys, List.map_cons, List.mem_cons]; exact Or.inr e)
    simp [AL.set, hk, ih hr]

theorem pyDict_acc (ls d : Labels) (hnd : (ls.map (·.1)).Nodup) (hdis : ∀ l ∈ ls, l.1 ∉ AL.keys d) :
    ls.foldl (fun d kv => AL.set d kv.1 kv.2) d = d ++ ls := by
  induction ls generalizing d with
  | nil => simp
  | cons x r ih =>
    simp only [List.map_cons, List.nodup_cons] at hnd
    simp only [List.foldl_cons]
    rw [AL.set_append_of_not_mem d x.1 x.2 (hdis x List.mem_cons_self)]
    rw [ih (d ++ [(x.1, x.2)]) hnd.2]
    · simp
    · intro l hl hm
      simp only [AL.keys, List.map_append, List.map_cons, List.map_nil, List.mem_append, List.mem_singleton] at hm
      rcases hm with hm | hm
      · exact hdis l (List.mem_cons_of_mem _ hl) hm
      · exact hnd.1 (List.mem_map.mpr ⟨l, hl, hm⟩)

/-- **`dict(labels)` changes nothing** when the label names are pairwise different -/
theorem pyDict_id (ls : Labels) (hnd : (ls.map (·.1)).Nodup) : pyDict ls = ls := by
  unfold pyDict
  rw [pyDict_acc ls [] hnd (fun _ _ h => by simp [AL.keys] at h)]
  rfl

theorem pyDict_keys_nodup (ls : Labels) : ((pyDict ls).map (·.1)).Nodup := by
  unfold pyDict
  exact foldl_inv (fun (d : Labels) kv => AL.set d kv.1 kv.2) (fun d => (AL.keys d).Nodup)
    (fun s x h => AL.nodup_set s x.1 x.2 h) ls [] (by simp [AL.keys])

theorem insertByKey_perm {β : Type} (kv : Str × β) (l : List (Str × β)) : (insertByKey kv l).Perm (kv :: l) := by
  induction l with
  | nil => exact List.Perm.refl _
  | cons x r ih =>
    simp only [insertByKey]
    split
    · exact List.Perm.refl _
    · exact (List.Perm.cons x ih).trans (List.Perm.swap kv x r)

theorem sortByKey_perm {β : Type} (l : List (Str × β)) : (sortByKey l).Perm l := by
  unfold sortByKey
  suffices ∀ acc : List (Str × β), (l.foldl (fun acc kv => insertByKey kv acc) acc).Perm (l ++ acc) by
    simpa using this []
  induction l with
  | nil => intro acc; exact List.Perm.refl _
  | cons x r ih =>
    intro acc
    simp only [List.foldl_cons, List.cons_append]
    exact (ih _).trans ((List.Perm.append_left r (insertByKey_perm x acc)).trans List.perm_middle)

/-- the label list inside `mmap_key`'s JSON text has pairwise different names (it is a dict) -/
theorem mmapKey_labels_nodup (q : Values.Params) : ((Values.mmapKey q).labels.map (·.1)).Nodup := by
  unfold Values.mmapKey
  simp only
  exact ((sortByKey_perm _).map (·.1)).symm.nodup (pyDict_keys_nodup _)

end PromVerif.Model.Multiprocess
