/-
C12, the in-memory side: `runMutex` is `Metrics.run` on the `front`-ed history (so every theorem of C01 applies), and an
ACCEPTED method call changes the in-memory cells of the child exactly as the value-object calls `cellUpdates` lists
(`upd_cells`) — `MutexValue.inc` is `+=`, `MutexValue.set` is `=`: both back-ends are driven through one interface.
-/
import PromVerif.Model.Backends
import PromVerif.Lemmas.MetricsBasic

namespace PromVerif.Lemmas.Backends
open PromVerif.Py
open PromVerif.Model.Metrics (Val Decl Kind Child Reg Action Addr Out callMethod observeBuckets bucketTakes metricInit)
open PromVerif.Model.Backends
open PromVerif.Lemmas.Metrics (upd)
set_option autoImplicit false

variable {V : Type} [Val V]

theorem runMutexFrom_fst (ds : List (MDecl V)) : ∀ (h : List (Model.Metrics.Op V)) (r : Reg V),
    (runMutexFrom ds r h).1 = (Model.Metrics.run r (h.map (front ds))).1
  | [], _ => rfl
  | op :: ops, r => by
    simp only [runMutexFrom, List.map_cons, Model.Metrics.run, stepMutex]
    exact runMutexFrom_fst ds ops _

/-- the in-memory run is C01's `run` on the calls that reach the metric objects -/
theorem runMutex_eq (ds : List (MDecl V)) (h : List (Model.Metrics.Op V)) :
    runMutex ds h = (Model.Metrics.run (Reg.fresh (ds.map (·.decl))) (h.map (front ds))).1 :=
  runMutexFrom_fst ds h _

/-- the four types of the property -/
def Supported (d : MDecl V) : Prop :=
  match d.decl.kind with
  | .counter => True
  | .gauge => True
  | .summary => True
  | .histogram _ => True
  | _ => False

/-- `MutexValue.inc` / `MutexValue.set` on the cell at a position -/
def applyUpd (vs : List V) : CellUpd V → List V
  | .inc pos a => match vs[pos]? with | some v => vs.set pos (Val.add v a) | none => vs
  | .set pos x _ => vs.set pos x

def applyUpds (vs : List V) (us : List (CellUpd V)) : List V := us.foldl applyUpd vs

theorem observeBuckets_eq (a : V) : ∀ (bs cs : List V),
    observeBuckets a bs cs = match firstBucket a bs with
      | some i => (match cs[i]? with | some v => cs.set i (Val.add v Val.one) | none => cs)
      | none => cs
  | [], cs => by cases cs <;> rfl
  | _ :: _, [] => by
    simp only [observeBuckets, firstBucket]
    split <;> simp
  | b :: bs, c :: cs => by
    simp only [observeBuckets, firstBucket]
    by_cases h : bucketTakes a b = true
    · simp [h]
    · simp only [h, Bool.false_eq_true, if_false]
      rw [observeBuckets_eq a bs cs]
      cases hf : firstBucket a bs with
      | none => simp
      | some i =>
        simp only [Option.map_some, List.getElem?_cons_succ]
        cases cs[i]? <;> simp

/-- **one interface**: an accepted call updates the in-memory cells exactly by the listed value-object calls -/
theorem upd_cells (d : MDecl V) (hs : Supported d) (t : V) (act : Action V) (c : Child V)
    (hok : (callMethod d.decl true act (some c)).2 = .ok) :
    cellValues d (upd d.decl act c) = applyUpds (cellValues d c) (cellUpdates d t act) := by
  unfold upd
  cases hk : d.decl.kind with
  | info => simp [Supported, hk] at hs
  | enum s => simp [Supported, hk] at hs
  | counter =>
    cases act with
    | inc a =>
      simp only [callMethod, hk, Bool.not_true, Bool.false_eq_true, if_false] at hok ⊢
      by_cases hr : Model.Metrics.counterRejects a = true
      · simp [hr] at hok
      · simp [hr, cellValues, cellUpdates, applyUpds, applyUpd, hk]
    | _ => simp [callMethod, hk] at hok ⊢ <;> simp_all [cellValues, cellUpdates, applyUpds, applyUpd]
  | gauge =>
    cases act <;> simp [callMethod, hk] at hok ⊢ <;>
      simp_all [cellValues, cellUpdates, applyUpds, applyUpd]
  | summary =>
    cases act <;> simp [callMethod, hk] at hok ⊢ <;>
      simp_all [cellValues, cellUpdates, applyUpds, applyUpd]
  | histogram bs =>
    cases act <;> simp [callMethod, hk] at hok ⊢ <;>
      simp_all [cellValues, cellUpdates, applyUpds, applyUpd]
    rename_i a
    rw [observeBuckets_eq]
    simp only [Kind.bounds]
    cases hf : firstBucket a (bs.map (·.1)) with
    | none => simp
    | some i =>
      simp only [List.foldl_cons, List.foldl_nil, applyUpd, List.getElem?_cons_succ]
      cases c.buckets[i]? <;> simp

end PromVerif.Lemmas.Backends
