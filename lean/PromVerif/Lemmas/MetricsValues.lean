/-
C01 helper lemmas, part 4: the value cells of a replayed child are what the reference reads off the history
(counter, gauge, summary, info, enum; the histogram buckets are in MetricsHist).
-/
import PromVerif.Lemmas.MetricsAbs

namespace PromVerif.Lemmas.Metrics
open PromVerif.Py PromVerif.Model.Metrics PromVerif.Generated.Metrics
open PromVerif.Spec.Metrics

variable {V : Type} [Val V]

/-- two folds over the same list preserve a relation that every step preserves -/
theorem foldl_sim {α σ τ : Type} (R : σ → τ → Prop) (f : σ → α → σ) (g : τ → α → τ) :
    ∀ (l : List α) (s : σ) (t : τ), R s t → (∀ s t a, a ∈ l → R s t → R (f s a) (g t a)) →
      R (l.foldl f s) (l.foldl g t)
  | [], _, _, h, _ => h
  | a :: l, s, t, h, hstep => by
    simp only [List.foldl]
    exact foldl_sim R f g l _ _ (hstep s t a (by simp) h) (fun s t b hb => hstep s t b (by simp [hb]))

theorem sumOf_snoc (xs : List V) (x : V) : sumOf (xs ++ [x]) = Val.add (sumOf xs) x := by
  simp [sumOf, List.foldl_append]

/-- the guard of `Counter.inc`, as extracted: `amount < 0` -/
theorem counterRejects_eq (a : V) : counterRejects a = Val.lt a Val.zero := by
  simp [counterRejects, evalCmpConst, counterIncGuard, evalCmp, constV]

/-! ### counter -/

/-- `hrf`: `Counter.reset` stores the float zero.  With the int `0` the cell is a Python int after a reset and int
amounts are then summed exactly — the statement below (a left-to-right sum in `V`) would be false of the code. -/
theorem counter_value (_hrf : resetStoresFloat = true) (d : Decl V) (hk : d.kind = .counter) (acts : List (Action V))
    (hok : ∀ a ∈ acts, okAct d a) :
    (childOf d acts).value = counterTotal acts := by
  unfold childOf counterTotal amountsSinceReset
  refine foldl_sim (fun (c : Child V) (acc : List V) => c.value = sumOf acc) _ _ acts _ _ ?_ ?_
  · simp [metricInit, sumOf]
  · intro c acc a ha hR
    have hoka := hok a ha
    obtain ⟨name, kind, ln⟩ := d
    simp only at hk; subst hk
    cases a with
    | inc x =>
      by_cases hr : counterRejects x = true
      · simp [okAct, callMethod, hr] at hoka
      · simp [upd, callMethod, hr, sumOf_snoc, hR]
    | reset => simp [upd, callMethod, sumOf]
    | _ => simpa [upd, callMethod] using hR

/-! ### gauge -/

theorem gauge_value (d : Decl V) (hk : d.kind = .gauge) (acts : List (Action V)) :
    (childOf d acts).value = gaugeValue acts := by
  unfold childOf gaugeValue
  refine foldl_sim (fun (c : Child V) (v : V) => c.value = v) _ _ acts _ _ ?_ ?_
  · simp [metricInit]
  · intro c v a _ hR
    obtain ⟨name, kind, ln⟩ := d
    simp only at hk; subst hk
    cases a <;> simp [upd, callMethod, gaugeOp, hR]

/-! ### summary and histogram sums -/

theorem observations_eq_foldl (acts : List (Action V)) :
    observations acts = acts.foldl (fun acc a => match a with
      | .observe x => acc ++ [x]
      | _ => acc) [] := by
  suffices h : ∀ (acc : List V), acc ++ observations acts = acts.foldl (fun acc a => match a with
      | .observe x => acc ++ [x]
      | _ => acc) acc by simpa using h []
  induction acts with
  | nil => intro acc; simp [observations]
  | cons a acts ih =>
    intro acc
    simp only [List.foldl]
    rw [← ih]
    cases a <;> simp [observations]

/-- `n` increments by one -/
def addOnes (c : V) : Nat → V
  | 0 => c
  | n + 1 => Val.add (addOnes c n) Val.one

theorem summary_cells (d : Decl V) (hk : d.kind = .summary) (acts : List (Action V)) :
    (childOf d acts).count = addOnes Val.zero (observations acts).length ∧
      (childOf d acts).sum = sumOf (observations acts) := by
  rw [observations_eq_foldl]
  unfold childOf
  refine foldl_sim (fun (c : Child V) (obs : List V) => c.count = addOnes Val.zero obs.length ∧ c.sum = sumOf obs)
    _ _ acts _ _ ?_ ?_
  · simp [metricInit, sumOf, addOnes]
  · intro c obs a _ hR
    obtain ⟨name, kind, ln⟩ := d
    simp only at hk; subst hk
    cases a <;> simp [upd, callMethod] <;> try exact hR
    simp [hR.1, hR.2, sumOf_snoc, addOnes]

theorem histogram_cells (d : Decl V) (bs : List (V × Str)) (hk : d.kind = .histogram bs) (acts : List (Action V)) :
    (childOf d acts).sum = sumOf (observations acts) ∧
      (childOf d acts).buckets = (observations acts).foldl (fun cs o => observeBuckets o (bs.map (·.1)) cs)
        (bs.map (fun _ => Val.zero)) := by
  rw [observations_eq_foldl]
  unfold childOf
  refine foldl_sim (fun (c : Child V) (obs : List V) => c.sum = sumOf obs ∧
      c.buckets = obs.foldl (fun cs o => observeBuckets o (bs.map (·.1)) cs) (bs.map (fun _ => Val.zero)))
    _ _ acts _ _ ?_ ?_
  · simp [metricInit, sumOf, hk, Kind.bounds]
  · intro c obs a _ hR
    obtain ⟨name, kind, ln⟩ := d
    simp only at hk; subst hk
    cases a <;> simp [upd, callMethod] <;> try exact hR
    simp [hR.1, hR.2, sumOf_snoc, Kind.bounds]

/-! ### info -/

theorem info_value (d : Decl V) (hk : d.kind = .info) (acts : List (Action V)) (hok : ∀ a ∈ acts, okAct d a) :
    (childOf d acts).info = lastInfo acts := by
  unfold childOf lastInfo
  refine foldl_sim (fun (c : Child V) (cur : List (Str × Str)) => c.info = cur) _ _ acts _ _ ?_ ?_
  · simp [metricInit]
  · intro c cur a ha hR
    have hoka := hok a ha
    obtain ⟨name, kind, ln⟩ := d
    simp only at hk; subst hk
    cases a with
    | info val =>
      simp only [okAct, callMethod, Bool.not_true, Bool.and_false, Bool.false_eq_true, if_false] at hoka
      simp only [upd, callMethod, Bool.not_true, Bool.and_false, Bool.false_eq_true, if_false]
      split at hoka
      · simp at hoka
      · next h1 =>
        split at hoka
        · simp at hoka
        · next h2 => rw [if_neg h1, if_neg h2]; simp
    | _ => simpa [upd, callMethod] using hR

/-! ### enum -/

theorem indexOf_getElem? (s : Str) : ∀ (states : List Str) (i : Nat), indexOf s states = some i → states[i]? = some s
  | [], _, h => by simp [indexOf] at h
  | x :: xs, i, h => by
    simp only [indexOf] at h
    split at h
    · next hx => simp at h; subst h; simp [hx]
    · cases hi : indexOf s xs with
      | none => simp [hi] at h
      | some j =>
        simp [hi] at h; subst h
        simpa using indexOf_getElem? s xs j hi

theorem enum_state (d : Decl V) (states : List Str) (hk : d.kind = .enum states) (acts : List (Action V))
    (hok : ∀ a ∈ acts, okAct d a) :
    states[(childOf d acts).state]? = currentState states acts := by
  unfold childOf currentState
  refine foldl_sim (fun (c : Child V) (cur : Option Str) => states[c.state]? = cur) _ _ acts _ _ ?_ ?_
  · simp [metricInit, List.head?_eq_getElem?]
  · intro c cur a ha hR
    have hoka := hok a ha
    obtain ⟨name, kind, ln⟩ := d
    simp only at hk; subst hk
    cases a <;> simp [upd, callMethod, okAct] at hoka ⊢ <;> try exact hR
    next s =>
    cases hi : indexOf s states with
    | none => simp [hi] at hoka
    | some i => simp [indexOf_getElem? s states i hi]

/-- `enumerate(states)` against the reference's "exactly the current state at 1" -/
theorem enumSamples_eq (name : Str) (cur : Nat) (t : Option Str) :
    ∀ (ss : List Str) (i : Nat), ss.Nodup → (i ≤ cur → ss[cur - i]? = t) → (cur < i → ∀ s ∈ ss, some s ≠ t) →
      (enumSamples name cur i ss : List (Sample V))
        = ss.map (fun s => ⟨[], [(name, s)], if some s = t then Val.one else Val.zero⟩)
  | [], _, _, _, _ => rfl
  | s :: ss, i, hnd, h1, h2 => by
    have hnd' := List.nodup_cons.mp hnd
    simp only [enumSamples, List.map]
    by_cases hi : i = cur
    · subst hi
      have ht : some s = t := by simpa using h1 (Nat.le_refl _)
      rw [enumSamples_eq name i t ss (i + 1) hnd'.2 (fun h => by omega)
        (fun _ s' hs' => by rw [← ht]; intro e; simp at e; subst e; exact hnd'.1 hs')]
      simp [ht]
    · by_cases hlt : i < cur
      · have hidx : (s :: ss)[cur - i]? = ss[cur - (i + 1)]? := by
          have : cur - i = (cur - (i + 1)) + 1 := by omega
          rw [this]; simp
        have ht : ss[cur - (i + 1)]? = t := by rw [← hidx]; exact h1 (by omega)
        have hne : some s ≠ t := by
          intro e
          rw [← e] at ht
          exact hnd'.1 (List.mem_of_getElem? ht)
        rw [enumSamples_eq name cur t ss (i + 1) hnd'.2 (fun _ => ht) (fun h => by omega)]
        simp [hi, hne]
      · have hgt : cur < i := by omega
        have hne : some s ≠ t := h2 hgt s (by simp)
        rw [enumSamples_eq name cur t ss (i + 1) hnd'.2 (fun h => by omega)
          (fun _ s' hs' => h2 hgt s' (by simp [hs']))]
        simp [hi, hne]

end PromVerif.Lemmas.Metrics
