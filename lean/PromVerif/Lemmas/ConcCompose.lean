/-
Lemmas/ConcCompose — the three static disciplines (`wf`, `disc`, `discIt`) are compositional and invariant under renaming:

  * predicate versions (`discP`, `discItP`) that name the guard and the cell by Boolean predicates, equal to the versions
    used by the invariants when the predicates are `· = g`, `· = x`;
  * `…_map`: the discipline of a renamed program is the discipline of the program under the pulled-back predicates — this is
    how a check `decide`d on the CANONICAL code of a generated skeleton (one object of each kind) is transported to the code
    of a call on arbitrary objects;
  * `…_append`: concatenation, through the mode / stack a prefix ends in — this is how a check on single calls extends to
    thread programs of any length.
-/
import PromVerif.Lemmas.ConcLock
import PromVerif.Lemmas.ConcData
import PromVerif.Lemmas.ConcIter

set_option linter.unusedSectionVars false

namespace PromVerif.Model.Conc
open PromVerif.Generated.Locks

section
variable {L X U L' X' U' : Type}

/-! ### data discipline -/

def discP (isG : L → Bool) (isX : X → Bool) (bl : U → Bool) : List (Micro L X U) → Mode → Bool
  | [], _ => true
  | .acquire l :: r, m => if isG l then decide (m = .out) && discP isG isX bl r .held else discP isG isX bl r m
  | .release l :: r, m => if isG l then decide (m ≠ .out) && discP isG isX bl r .out else discP isG isX bl r m
  | .load y :: r, m => if isX y then decide (m ≠ .out) && discP isG isX bl r .loaded else discP isG isX bl r m
  | .store y u :: r, m =>
    if isX y then (decide (m = .loaded) || (decide (m = .held) && bl u)) && discP isG isX bl r .loaded
    else discP isG isX bl r m
  | .iterBegin _ :: r, m => discP isG isX bl r m
  | .iterEnd _ :: r, m => discP isG isX bl r m
  | .call _ _ :: r, m => discP isG isX bl r m
  | .yield :: r, m => discP isG isX bl r m

/-- the mode a continuation ends in -/
def endModeP (isG : L → Bool) (isX : X → Bool) : List (Micro L X U) → Mode → Mode
  | [], m => m
  | .acquire l :: r, m => if isG l then endModeP isG isX r .held else endModeP isG isX r m
  | .release l :: r, m => if isG l then endModeP isG isX r .out else endModeP isG isX r m
  | .load y :: r, m => if isX y then endModeP isG isX r .loaded else endModeP isG isX r m
  | .store y _ :: r, m => if isX y then endModeP isG isX r .loaded else endModeP isG isX r m
  | .iterBegin _ :: r, m => endModeP isG isX r m
  | .iterEnd _ :: r, m => endModeP isG isX r m
  | .call _ _ :: r, m => endModeP isG isX r m
  | .yield :: r, m => endModeP isG isX r m

theorem disc_eq_discP [DecidableEq L] [DecidableEq X] (g : L) (x : X) (bl : U → Bool) (pc : List (Micro L X U)) (m : Mode) :
    disc g x bl pc m = discP (fun l => decide (l = g)) (fun y => decide (y = x)) bl pc m := by
  induction pc generalizing m with
  | nil => simp [disc, discP]
  | cons a r ih => cases a <;> simp [disc, discP, ih]

theorem discP_map (fL : L → L') (fX : X → X') (fU : U → U') (isG : L' → Bool) (isX : X' → Bool) (bl : U' → Bool)
    (pc : List (Micro L X U)) (m : Mode) :
    discP isG isX bl (pc.map (Micro.map fL fX fU)) m = discP (isG ∘ fL) (isX ∘ fX) (bl ∘ fU) pc m := by
  induction pc generalizing m with
  | nil => simp [discP]
  | cons a r ih => cases a <;> simp [discP, Micro.map, ih]

theorem endModeP_map (fL : L → L') (fX : X → X') (fU : U → U') (isG : L' → Bool) (isX : X' → Bool)
    (pc : List (Micro L X U)) (m : Mode) :
    endModeP isG isX (pc.map (Micro.map fL fX fU)) m = endModeP (isG ∘ fL) (isX ∘ fX) pc m := by
  induction pc generalizing m with
  | nil => simp [endModeP]
  | cons a r ih => cases a <;> simp [endModeP, Micro.map, ih]

theorem discP_append (isG : L → Bool) (isX : X → Bool) (bl : U → Bool) (p q : List (Micro L X U)) (m : Mode) :
    discP isG isX bl (p ++ q) m = (discP isG isX bl p m && discP isG isX bl q (endModeP isG isX p m)) := by
  induction p generalizing m with
  | nil => simp [discP, endModeP]
  | cons a r ih =>
    cases a <;> simp only [List.cons_append, discP, endModeP, ih] <;> split <;> simp [Bool.and_assoc]

theorem endModeP_append (isG : L → Bool) (isX : X → Bool) (p q : List (Micro L X U)) (m : Mode) :
    endModeP isG isX (p ++ q) m = endModeP isG isX q (endModeP isG isX p m) := by
  induction p generalizing m with
  | nil => simp [endModeP]
  | cons a r ih => cases a <;> simp only [List.cons_append, endModeP, ih] <;> split <;> rfl

theorem discP_mono (isG : L → Bool) (isX : X → Bool) (bl bl' : U → Bool) (hb : ∀ u, bl u = true → bl' u = true)
    (pc : List (Micro L X U)) (m : Mode) (h : discP isG isX bl pc m = true) : discP isG isX bl' pc m = true := by
  induction pc generalizing m with
  | nil => rfl
  | cons a r ih =>
    cases a with
    | store y u =>
      simp only [discP] at h ⊢
      split
      · next hy =>
        simp only [hy, if_true, Bool.and_eq_true, Bool.or_eq_true] at h
        simp only [Bool.and_eq_true, Bool.or_eq_true]
        refine ⟨?_, ih _ h.2⟩
        rcases h.1 with h1 | h1
        · exact Or.inl h1
        · exact Or.inr ⟨h1.1, hb u h1.2⟩
      · next hy => simp only [hy] at h; exact ih _ h
    | acquire l =>
      simp only [discP] at h ⊢
      split
      · next hl => simp only [hl, if_true, Bool.and_eq_true] at h; simp only [Bool.and_eq_true]; exact ⟨h.1, ih _ h.2⟩
      · next hl => simp only [hl] at h; exact ih _ h
    | release l =>
      simp only [discP] at h ⊢
      split
      · next hl => simp only [hl, if_true, Bool.and_eq_true] at h; simp only [Bool.and_eq_true]; exact ⟨h.1, ih _ h.2⟩
      · next hl => simp only [hl] at h; exact ih _ h
    | load y =>
      simp only [discP] at h ⊢
      split
      · next hl => simp only [hl, if_true, Bool.and_eq_true] at h; simp only [Bool.and_eq_true]; exact ⟨h.1, ih _ h.2⟩
      · next hl => simp only [hl] at h; exact ih _ h
    | iterBegin y => simp only [discP] at h ⊢; exact ih _ h
    | iterEnd y => simp only [discP] at h ⊢; exact ih _ h
    | call b c => simp only [discP] at h ⊢; exact ih _ h
    | yield => simp only [discP] at h ⊢; exact ih _ h

/-- a program that never names the guard nor the cell is transparent -/
theorem discP_untouched (bl : U → Bool) (pc : List (Micro L X U)) (m : Mode) :
    discP (fun _ => false) (fun _ => false) bl pc m = true ∧ endModeP (fun _ => false) (fun _ => false) pc m = m := by
  induction pc generalizing m with
  | nil => simp [discP, endModeP]
  | cons a r ih => cases a <;> simp [discP, endModeP, ih]

/-- a call's code is closed for `(isG, isX)`: disciplined from outside the guard and back outside at the end -/
def ClosedP (isG : L → Bool) (isX : X → Bool) (bl : U → Bool) (pc : List (Micro L X U)) : Prop :=
  discP isG isX bl pc .out = true ∧ endModeP isG isX pc .out = .out

theorem closedP_flatten (isG : L → Bool) (isX : X → Bool) (bl : U → Bool) (ps : List (List (Micro L X U)))
    (h : ∀ p ∈ ps, ClosedP isG isX bl p) : ClosedP isG isX bl ps.flatten := by
  induction ps with
  | nil => simp [ClosedP, discP, endModeP]
  | cons p rest ih =>
    have hp := h p List.mem_cons_self
    have hr := ih (fun q hq => h q (List.mem_cons_of_mem _ hq))
    simp only [List.flatten_cons, ClosedP, discP_append, endModeP_append, hp.1, hp.2, hr.1, hr.2, Bool.and_self,
      and_self]

/-! ### iteration discipline -/

def discItP (isG : L → Bool) (isX : X → Bool) : List (Micro L X U) → Bool → Bool → Bool
  | [], _, _ => true
  | .acquire l :: r, h, o => if isG l then !h && discItP isG isX r true o else discItP isG isX r h o
  | .release l :: r, h, o => if isG l then h && !o && discItP isG isX r false false else discItP isG isX r h o
  | .load _ :: r, h, o => discItP isG isX r h o
  | .store y _ :: r, h, o => if isX y then h && discItP isG isX r h o else discItP isG isX r h o
  | .iterBegin y :: r, h, o => if isX y then h && !o && discItP isG isX r h true else discItP isG isX r h o
  | .iterEnd y :: r, h, o => if isX y then o && discItP isG isX r h false else discItP isG isX r h o
  | .call _ _ :: r, h, o => discItP isG isX r h o
  | .yield :: r, h, o => discItP isG isX r h o

/-- (guard held, iteration open) at the end -/
def endItP (isG : L → Bool) (isX : X → Bool) : List (Micro L X U) → Bool → Bool → Bool × Bool
  | [], h, o => (h, o)
  | .acquire l :: r, h, o => if isG l then endItP isG isX r true o else endItP isG isX r h o
  | .release l :: r, h, o => if isG l then endItP isG isX r false false else endItP isG isX r h o
  | .load _ :: r, h, o => endItP isG isX r h o
  | .store _ _ :: r, h, o => endItP isG isX r h o
  | .iterBegin y :: r, h, o => if isX y then endItP isG isX r h true else endItP isG isX r h o
  | .iterEnd y :: r, h, o => if isX y then endItP isG isX r h false else endItP isG isX r h o
  | .call _ _ :: r, h, o => endItP isG isX r h o
  | .yield :: r, h, o => endItP isG isX r h o

theorem discIt_eq_discItP [DecidableEq L] [DecidableEq X] (g : L) (x : X) (pc : List (Micro L X U)) (h o : Bool) :
    discIt g x pc h o = discItP (fun l => decide (l = g)) (fun y => decide (y = x)) pc h o := by
  induction pc generalizing h o with
  | nil => simp [discIt, discItP]
  | cons a r ih => cases a <;> simp [discIt, discItP, ih]

theorem discItP_map (fL : L → L') (fX : X → X') (fU : U → U') (isG : L' → Bool) (isX : X' → Bool)
    (pc : List (Micro L X U)) (h o : Bool) :
    discItP isG isX (pc.map (Micro.map fL fX fU)) h o = discItP (isG ∘ fL) (isX ∘ fX) pc h o := by
  induction pc generalizing h o with
  | nil => simp [discItP]
  | cons a r ih => cases a <;> simp [discItP, Micro.map, ih]

theorem endItP_map (fL : L → L') (fX : X → X') (fU : U → U') (isG : L' → Bool) (isX : X' → Bool)
    (pc : List (Micro L X U)) (h o : Bool) :
    endItP isG isX (pc.map (Micro.map fL fX fU)) h o = endItP (isG ∘ fL) (isX ∘ fX) pc h o := by
  induction pc generalizing h o with
  | nil => simp [endItP]
  | cons a r ih => cases a <;> simp [endItP, Micro.map, ih]

theorem discItP_append (isG : L → Bool) (isX : X → Bool) (p q : List (Micro L X U)) (h o : Bool) :
    discItP isG isX (p ++ q) h o =
      (discItP isG isX p h o && discItP isG isX q (endItP isG isX p h o).1 (endItP isG isX p h o).2) := by
  induction p generalizing h o with
  | nil => simp [discItP, endItP]
  | cons a r ih =>
    cases a <;> simp only [List.cons_append, discItP, endItP, ih] <;> split <;> simp [Bool.and_assoc]

theorem endItP_append (isG : L → Bool) (isX : X → Bool) (p q : List (Micro L X U)) (h o : Bool) :
    endItP isG isX (p ++ q) h o = endItP isG isX q (endItP isG isX p h o).1 (endItP isG isX p h o).2 := by
  induction p generalizing h o with
  | nil => simp [endItP]
  | cons a r ih => cases a <;> simp only [List.cons_append, endItP, ih] <;> split <;> rfl

theorem discItP_untouched (pc : List (Micro L X U)) (h o : Bool) :
    discItP (fun _ => false) (fun _ => false) pc h o = true ∧
      endItP (fun _ => false) (fun _ => false) pc h o = (h, o) := by
  induction pc generalizing h o with
  | nil => simp [discItP, endItP]
  | cons a r ih => cases a <;> simp [discItP, endItP, ih]

def ClosedItP (isG : L → Bool) (isX : X → Bool) (pc : List (Micro L X U)) : Prop :=
  discItP isG isX pc false false = true ∧ endItP isG isX pc false false = (false, false)

theorem closedItP_flatten (isG : L → Bool) (isX : X → Bool) (ps : List (List (Micro L X U)))
    (h : ∀ p ∈ ps, ClosedItP isG isX p) : ClosedItP isG isX ps.flatten := by
  induction ps with
  | nil => simp [ClosedItP, discItP, endItP]
  | cons p rest ih =>
    have hp := h p List.mem_cons_self
    have hr := ih (fun q hq => h q (List.mem_cons_of_mem _ hq))
    simp only [List.flatten_cons, ClosedItP, discItP_append, endItP_append, hp.1, hp.2, hr.1, hr.2, Bool.and_self,
      and_self]

/-! ### lock discipline -/

/-- run the bracket/admission check; `some hs'` = passed, ending with held stack `hs'` -/
def wfRun [DecidableEq L] (ok : List L → L → Bool) : List (Micro L X U) → List L → Option (List L)
  | [], hs => some hs
  | .acquire l :: r, hs => if ok hs l then wfRun ok r (l :: hs) else none
  | .release l :: r, hs =>
    match hs with
    | h :: hs' => if h = l then wfRun ok r hs' else none
    | [] => none
  | .load _ :: r, hs => wfRun ok r hs
  | .store _ _ :: r, hs => wfRun ok r hs
  | .iterBegin _ :: r, hs => wfRun ok r hs
  | .iterEnd _ :: r, hs => wfRun ok r hs
  | .call _ _ :: r, hs => wfRun ok r hs
  | .yield :: r, hs => wfRun ok r hs

theorem wf_append [DecidableEq L] (ok : List L → L → Bool) (p q : List (Micro L X U)) (hs hs' : List L)
    (h : wfRun ok p hs = some hs') : wf ok (p ++ q) hs = wf ok q hs' := by
  induction p generalizing hs with
  | nil => simp [wfRun] at h; subst h; rfl
  | cons a r ih =>
    cases a with
    | acquire l =>
      simp only [wfRun] at h
      split at h
      · next hok => simp [wf, hok, ih _ h]
      · cases h
    | release l =>
      cases hs with
      | nil => simp [wfRun] at h
      | cons h0 hs0 =>
        simp only [wfRun] at h
        split at h
        · next he => simp [wf, he, ih _ h]
        · cases h
    | load x => simp only [wfRun] at h; simp [wf, ih _ h]
    | store x u => simp only [wfRun] at h; simp [wf, ih _ h]
    | iterBegin x => simp only [wfRun] at h; simp [wf, ih _ h]
    | iterEnd x => simp only [wfRun] at h; simp [wf, ih _ h]
    | call b c => simp only [wfRun] at h; simp [wf, ih _ h]
    | yield => simp only [wfRun] at h; simp [wf, ih _ h]

theorem wf_nil [DecidableEq L] (ok : List L → L → Bool) : wf ok ([] : List (Micro L X U)) [] = true := rfl

theorem wf_flatten [DecidableEq L] (ok : List L → L → Bool) (ps : List (List (Micro L X U)))
    (h : ∀ p ∈ ps, wfRun ok p [] = some []) : wf ok ps.flatten [] = true := by
  induction ps with
  | nil => rfl
  | cons p rest ih =>
    rw [List.flatten_cons, wf_append ok p _ [] [] (h p List.mem_cons_self)]
    exact ih (fun q hq => h q (List.mem_cons_of_mem _ hq))

/-- renaming by an injective lock map that preserves admission -/
theorem wfRun_map [DecidableEq L] [DecidableEq L'] (fL : L → L') (fX : X → X') (fU : U → U')
    (hinj : ∀ a b, fL a = fL b → a = b) (ok : List L → L → Bool) (ok' : List L' → L' → Bool)
    (hok : ∀ hs l, ok' (hs.map fL) (fL l) = ok hs l) (pc : List (Micro L X U)) (hs : List L) :
    wfRun ok' (pc.map (Micro.map fL fX fU)) (hs.map fL) = (wfRun ok pc hs).map (List.map fL) := by
  induction pc generalizing hs with
  | nil => simp [wfRun]
  | cons a r ih =>
    cases a with
    | acquire l =>
      simp only [List.map_cons, Micro.map, wfRun, hok]
      split
      · have := ih (l :: hs); simpa using this
      · rfl
    | release l =>
      cases hs with
      | nil => simp [wfRun, Micro.map]
      | cons h0 hs0 =>
        simp only [List.map_cons, Micro.map, wfRun]
        by_cases he : h0 = l
        · subst he; simp [ih]
        · have : fL h0 ≠ fL l := fun e => he (hinj _ _ e)
          simp [he, this]
    | load x => simpa [wfRun, Micro.map] using ih hs
    | store x u => simpa [wfRun, Micro.map] using ih hs
    | iterBegin x => simpa [wfRun, Micro.map] using ih hs
    | iterEnd x => simpa [wfRun, Micro.map] using ih hs
    | call b c => simpa [wfRun, Micro.map] using ih hs
    | yield => simpa [wfRun, Micro.map] using ih hs

end
end PromVerif.Model.Conc
