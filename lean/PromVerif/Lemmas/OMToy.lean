/-
A small concrete instance of the parser's number parameters, for kernel-evaluated examples (`decide`): integers,
`+Inf` and `NaN`; "floats" are the spellings `+Inf`, `NaN` and `<digits>.0`-free plain digit strings read through
`float()`.  Bit patterns are toy codes: 0 = NaN, 1 = +Inf, 3 + k = the non-negative integer k.
-/
import PromVerif.Model.OMParse

namespace PromVerif.Lemmas.OMToy
open PromVerif.Py PromVerif.Model.ParseCore PromVerif.Model.OMParse

def natOf? : Str → Option Nat
  | [] => none
  | cs => if cs.all isDigit then some (parseDigits cs) else none

def intOf? : Str → Option Int
  | '-' :: cs => (natOf? cs).map (fun n => - (n : Int))
  | '+' :: cs => (natOf? cs).map (fun n => (n : Int))
  | cs => (natOf? cs).map (fun n => (n : Int))

/-- `float(s)`: `+Inf`, `NaN`, digits with an optional `.5` (coded as an odd "half" value) or `e0` tail -/
def fltOf? (s : Str) : Option Nat :=
  if s = cs!"+Inf" then some 1
  else if s = cs!"NaN" then some 0
  else if s = cs!"0.5" then some 2
  else match natOf? s with
    | some n => some (3 + n)
    | none =>
      match s.reverse with
      | '0' :: 'e' :: r => (natOf? r.reverse).map (3 + ·)
      | _ => none

/-- extended values: NaN, one half, an integer, +Inf -/
inductive XV | nan | half | fin (k : Int) | pinf

def xv : Num → XV
  | .int n => .fin n
  | .flt 0 => .nan
  | .flt 1 => .pinf
  | .flt 2 => .half
  | .flt (b + 3) => .fin (b : Int)

def xlt : XV → XV → Bool
  | .fin a, .fin b => a < b
  | .fin a, .half => a ≤ 0
  | .half, .fin b => 1 ≤ b
  | .fin _, .pinf => true
  | .half, .pinf => true
  | _, _ => false

def xeq : XV → XV → Bool
  | .fin a, .fin b => a == b
  | .half, .half => true
  | .pinf, .pinf => true
  | _, _ => false

def toyP : Params where
  pyInt := intOf?
  pyFloat := fltOf?
  lt a b := xlt (xv a) (xv b)
  le a b := xlt (xv a) (xv b) || xeq (xv a) (xv b)
  eq a b := xeq (xv a) (xv b)
  isNaN b := b == 0
  isInf b := b == 1
  isPosInf b := b == 1
  isInteger b := b ≥ 3
  intTooBig n := n.natAbs ≥ 1000000
  tsFloat s _ := if s.natAbs ≥ 1000000 then none else some (3 + s.toNat)
  reW c := c.isAlphanum || c == '_'
  reS c := c == ' '
  reD c := c.isDigit
  legacy := false

/-- the error class, if any -/
def errOf {α : Type} : PyM α → Option PyErr
  | .ok _ => none
  | .error e => some e

/-- parse a document given as a string literal -/
def parseDoc (s : String) : PyM (List OFamily) := omParse toyP s.toList

def isOkDoc (s : String) : Bool :=
  match parseDoc s with
  | .ok _ => true
  | .error _ => false

end PromVerif.Lemmas.OMToy
