/-
Generic lemmas for C18: the file-system algebra, the *private view* of one writer (the content of its own temporary
file plus its local handle state), and the two invariants every theorem rests on:

* a step that names only the writer's own temporary path (or is `rename tmp target`) changes nothing else, changes the
  private view in a way that depends on the private view only, and changes the target only when it is a completed
  rename — to the content the temporary file has at that moment;
* `Ready new ss v`: along the effect list `ss`, started in private view `v`, every completed rename finds the complete
  new exposition in the temporary file.
-/
import PromVerif.Model.Textfile

namespace PromVerif.Model.Textfile

/-! ### file system -/

@[simp] theorem Fs.get_del_same (fs : Fs) (p : Path) : (fs.del p).get p = none := by
  induction fs with
  | nil => rfl
  | cons e r ih =>
    obtain ⟨q, c⟩ := e
    by_cases h : q = p <;> simp [Fs.del, Fs.get, h, ih]

theorem Fs.get_del_ne (fs : Fs) {p q : Path} (h : p ≠ q) : (fs.del p).get q = fs.get q := by
  induction fs with
  | nil => rfl
  | cons e r ih =>
    obtain ⟨a, c⟩ := e
    by_cases h1 : a = p
    · have : a ≠ q := by rw [h1]; exact h
      simp [Fs.del, Fs.get, h1, ih, h]
    · by_cases h2 : a = q
      · subst h2; simp [Fs.del, Fs.get, h1]
      · simp [Fs.del, Fs.get, h1, h2, ih]

@[simp] theorem Fs.get_set_same (fs : Fs) (p : Path) (c : Content) : (fs.set p c).get p = some c := by
  simp [Fs.set, Fs.get]

theorem Fs.get_set_ne (fs : Fs) {p q : Path} (c : Content) (h : p ≠ q) : (fs.set p c).get q = fs.get q := by
  simp [Fs.set, Fs.get, h, Fs.get_del_ne fs h]

@[simp] theorem Fs.get_append_same (fs : Fs) (p : Path) (x : Content) :
    (fs.append p x).get p = some ((fs.get p).getD [] ++ x) := by
  simp [Fs.append]

theorem Fs.get_append_ne (fs : Fs) {p q : Path} (x : Content) (h : p ≠ q) : (fs.append p x).get q = fs.get q := by
  simp [Fs.append, Fs.get_set_ne fs _ h]

/-! ### exec -/

@[simp] theorem exec_nil (c : Cfg) : exec [] c = c := rfl
@[simp] theorem exec_cons (s : Step) (ss : List Step) (c : Cfg) : exec (s :: ss) c = exec ss (applyStep s c) := rfl
theorem exec_append (a b : List Step) (c : Cfg) : exec (a ++ b) c = exec b (exec a c) := by
  simp [exec, List.foldl_append]

@[simp] theorem exec2_nil (c : Cfg2) : exec2 [] c = c := rfl
@[simp] theorem exec2_cons (s : Bool × Step) (ss : List (Bool × Step)) (c : Cfg2) :
    exec2 (s :: ss) c = exec2 ss (apply2 s c) := rfl

/-! ### private steps and the private view -/

/-- the effect names only the writer's own temporary path, or is `rename tmp target` -/
def isPrivate (tmp target : Path) : Eff → Bool
  | .openTrunc p => p = tmp
  | .collect _ => true
  | .encode => true
  | .write p _ _ => p = tmp
  | .close p => p = tmp
  | .rename s d => s = tmp ∧ d = target
  | .pathExists p => p = tmp
  | .removeIfSeen p => p = tmp
  | .remove p => p = tmp
  | .reraise => true

def AllPrivate (tmp target : Path) (ss : List Step) : Prop := ∀ s ∈ ss, isPrivate tmp target s.1 = true

/-- a rename that completed -/
def isRen : Step → Bool
  | (.rename _ _, none) => true
  | _ => false

/-- a completed effect that can make the temporary file disappear -/
def isRemoval : Step → Bool
  | (.rename _ _, none) => true
  | (.removeIfSeen _, none) => true
  | (.remove _, none) => true
  | _ => false

structure View where
  file : Option Content
  loc : Local

def view (tmp : Path) (c : Cfg) : View := ⟨c.fs.get tmp, c.loc⟩

/-- the effect of a private step on the private view -/
def stepV : Step → View → View
  | (.openTrunc _, none), v => ⟨some [], { v.loc with buf := [] }⟩
  | (.write _ x fl, none), v =>
      if fl then ⟨some (v.file.getD [] ++ (v.loc.buf ++ x)), { v.loc with buf := [] }⟩
      else ⟨v.file, { v.loc with buf := v.loc.buf ++ x }⟩
  | (.close _, none), v => ⟨some (v.file.getD [] ++ v.loc.buf), { v.loc with buf := [] }⟩
  | (.rename _ _, none), v => match v.file with
      | some _ => ⟨none, v.loc⟩
      | none => v
  | (.pathExists _, none), v => ⟨v.file, { v.loc with seen := v.file.isSome }⟩
  | (.removeIfSeen _, none), v => if v.loc.seen then ⟨none, v.loc⟩ else v
  | (.remove _, none), v => ⟨none, v.loc⟩
  | (.openTrunc _, some n), v => if n = 0 then v else ⟨some [], v.loc⟩
  | (.write _ x _, some n), v =>
      ⟨some (v.file.getD [] ++ (v.loc.buf ++ x).take n), { v.loc with buf := (v.loc.buf ++ x).drop n }⟩
  | (.close _, some n), v => ⟨some (v.file.getD [] ++ v.loc.buf.take n), { v.loc with buf := [] }⟩
  | _, v => v

def execV (ss : List Step) (v : View) : View := ss.foldl (fun v s => stepV s v) v

@[simp] theorem execV_nil (v : View) : execV [] v = v := rfl
@[simp] theorem execV_cons (s : Step) (ss : List Step) (v : View) : execV (s :: ss) v = execV ss (stepV s v) := rfl
theorem execV_append (a b : List Step) (v : View) : execV (a ++ b) v = execV b (execV a v) := by
  simp [execV, List.foldl_append]

/-- a private step acts on the private view as `stepV` says (in particular: independently of the rest of the fs) -/
theorem view_step {tmp target : Path} (hne : tmp ≠ target) (s : Step) (c : Cfg)
    (hp : isPrivate tmp target s.1 = true) : view tmp (applyStep s c) = stepV s (view tmp c) := by
  obtain ⟨e, o⟩ := s
  have hne' : target ≠ tmp := fun h => hne h.symm
  cases o with
  | none =>
    cases e with
    | openTrunc p => simp [isPrivate] at hp; subst hp; simp [applyStep, applyNormal, view, stepV]
    | collect i => simp [applyStep, applyNormal, view, stepV]
    | encode => simp [applyStep, applyNormal, view, stepV]
    | write p x fl =>
      simp [isPrivate] at hp; subst hp
      cases fl <;> simp [applyStep, applyNormal, view, stepV]
    | close p => simp [isPrivate] at hp; subst hp; simp [applyStep, applyNormal, view, stepV]
    | rename a b =>
      simp [isPrivate] at hp; obtain ⟨h1, h2⟩ := hp; subst h1; subst h2
      cases hg : c.fs.get a <;> simp [applyStep, applyNormal, view, stepV, hg, Fs.get_set_ne _ _ hne']
    | pathExists p => simp [isPrivate] at hp; subst hp; simp [applyStep, applyNormal, view, stepV]
    | removeIfSeen p =>
      simp [isPrivate] at hp; subst hp
      cases hs : c.loc.seen <;> simp [applyStep, applyNormal, view, stepV, hs]
    | remove p => simp [isPrivate] at hp; subst hp; simp [applyStep, applyNormal, view, stepV]
    | reraise => simp [applyStep, applyNormal, view, stepV]
  | some n =>
    cases e with
    | openTrunc p =>
      simp [isPrivate] at hp; subst hp
      by_cases hn : n = 0 <;> simp [applyStep, applyFaulted, view, stepV, hn]
    | write p x fl => simp [isPrivate] at hp; subst hp; simp [applyStep, applyFaulted, view, stepV]
    | close p => simp [isPrivate] at hp; subst hp; simp [applyStep, applyFaulted, view, stepV]
    | collect i => simp [applyStep, applyFaulted, view, stepV]
    | encode => simp [applyStep, applyFaulted, view, stepV]
    | rename a b => simp [applyStep, applyFaulted, view, stepV]
    | pathExists p => simp [applyStep, applyFaulted, view, stepV]
    | removeIfSeen p => simp [applyStep, applyFaulted, view, stepV]
    | remove p => simp [applyStep, applyFaulted, view, stepV]
    | reraise => simp [applyStep, applyFaulted, view, stepV]

/-- a private step leaves every path other than `tmp` and `target` alone -/
theorem frame_step {tmp target q : Path} (s : Step) (c : Cfg) (hp : isPrivate tmp target s.1 = true)
    (h1 : tmp ≠ q) (h2 : target ≠ q) : (applyStep s c).fs.get q = c.fs.get q := by
  obtain ⟨e, o⟩ := s
  cases o with
  | none =>
    cases e with
    | openTrunc p => simp [isPrivate] at hp; subst hp; simp [applyStep, applyNormal, Fs.get_set_ne _ _ h1]
    | collect i => simp [applyStep, applyNormal]
    | encode => simp [applyStep, applyNormal]
    | write p x fl =>
      simp [isPrivate] at hp; subst hp
      cases fl <;> simp [applyStep, applyNormal, Fs.get_append_ne _ _ h1]
    | close p => simp [isPrivate] at hp; subst hp; simp [applyStep, applyNormal, Fs.get_append_ne _ _ h1]
    | rename a b =>
      simp [isPrivate] at hp; obtain ⟨h3, h4⟩ := hp; subst h3; subst h4
      cases hg : c.fs.get a <;> simp [applyStep, applyNormal, hg, Fs.get_set_ne _ _ h2, Fs.get_del_ne _ h1]
    | pathExists p => simp [applyStep, applyNormal]
    | removeIfSeen p =>
      simp [isPrivate] at hp; subst hp
      cases hs : c.loc.seen <;> simp [applyStep, applyNormal, hs, Fs.get_del_ne _ h1]
    | remove p => simp [isPrivate] at hp; subst hp; simp [applyStep, applyNormal, Fs.get_del_ne _ h1]
    | reraise => simp [applyStep, applyNormal]
  | some n =>
    cases e with
    | openTrunc p =>
      simp [isPrivate] at hp; subst hp
      by_cases hn : n = 0 <;> simp [applyStep, applyFaulted, hn, Fs.get_set_ne _ _ h1]
    | write p x fl => simp [isPrivate] at hp; subst hp; simp [applyStep, applyFaulted, Fs.get_append_ne _ _ h1]
    | close p => simp [isPrivate] at hp; subst hp; simp [applyStep, applyFaulted, Fs.get_append_ne _ _ h1]
    | collect i => simp [applyStep, applyFaulted]
    | encode => simp [applyStep, applyFaulted]
    | rename a b => simp [applyStep, applyFaulted]
    | pathExists p => simp [applyStep, applyFaulted]
    | removeIfSeen p => simp [applyStep, applyFaulted]
    | remove p => simp [applyStep, applyFaulted]
    | reraise => simp [applyStep, applyFaulted]

/-- the target changes only at a completed rename, and then to what the temporary file holds -/
theorem target_step {tmp target : Path} (hne : tmp ≠ target) (s : Step) (c : Cfg)
    (hp : isPrivate tmp target s.1 = true) :
    (applyStep s c).fs.get target =
      (if isRen s = true then (match c.fs.get tmp with | some x => some x | none => c.fs.get target)
       else c.fs.get target) := by
  obtain ⟨e, o⟩ := s
  cases o with
  | none =>
    cases e with
    | openTrunc p => simp [isPrivate] at hp; subst hp; simp [applyStep, applyNormal, isRen, Fs.get_set_ne _ _ hne]
    | collect i => simp [applyStep, applyNormal, isRen]
    | encode => simp [applyStep, applyNormal, isRen]
    | write p x fl =>
      simp [isPrivate] at hp; subst hp
      cases fl <;> simp [applyStep, applyNormal, isRen, Fs.get_append_ne _ _ hne]
    | close p => simp [isPrivate] at hp; subst hp; simp [applyStep, applyNormal, isRen, Fs.get_append_ne _ _ hne]
    | rename a b =>
      simp [isPrivate] at hp; obtain ⟨h3, h4⟩ := hp; subst h3; subst h4
      cases hg : c.fs.get a <;> simp [applyStep, applyNormal, isRen, hg]
    | pathExists p => simp [applyStep, applyNormal, isRen]
    | removeIfSeen p =>
      simp [isPrivate] at hp; subst hp
      cases hs : c.loc.seen <;> simp [applyStep, applyNormal, isRen, hs, Fs.get_del_ne _ hne]
    | remove p => simp [isPrivate] at hp; subst hp; simp [applyStep, applyNormal, isRen, Fs.get_del_ne _ hne]
    | reraise => simp [applyStep, applyNormal, isRen]
  | some n =>
    cases e with
    | openTrunc p =>
      simp [isPrivate] at hp; subst hp
      by_cases hn : n = 0 <;> simp [applyStep, applyFaulted, isRen, hn, Fs.get_set_ne _ _ hne]
    | write p x fl => simp [isPrivate] at hp; subst hp; simp [applyStep, applyFaulted, isRen, Fs.get_append_ne _ _ hne]
    | close p => simp [isPrivate] at hp; subst hp; simp [applyStep, applyFaulted, isRen, Fs.get_append_ne _ _ hne]
    | collect i => simp [applyStep, applyFaulted, isRen]
    | encode => simp [applyStep, applyFaulted, isRen]
    | rename a b => simp [applyStep, applyFaulted, isRen]
    | pathExists p => simp [applyStep, applyFaulted, isRen]
    | removeIfSeen p => simp [applyStep, applyFaulted, isRen]
    | remove p => simp [applyStep, applyFaulted, isRen]
    | reraise => simp [applyStep, applyFaulted, isRen]

theorem AllPrivate.tail {tmp target : Path} {s : Step} {ss : List Step} (h : AllPrivate tmp target (s :: ss)) :
    AllPrivate tmp target ss := fun x hx => h x (List.mem_cons_of_mem _ hx)

theorem AllPrivate.head {tmp target : Path} {s : Step} {ss : List Step} (h : AllPrivate tmp target (s :: ss)) :
    isPrivate tmp target s.1 = true := h s List.mem_cons_self

theorem AllPrivate.append {tmp target : Path} {a b : List Step} (ha : AllPrivate tmp target a)
    (hb : AllPrivate tmp target b) : AllPrivate tmp target (a ++ b) := by
  intro s hs
  rcases List.mem_append.mp hs with h | h
  · exact ha s h
  · exact hb s h

/-- the private view after a run of private steps is computed by `execV` from the private view alone -/
theorem view_exec {tmp target : Path} (hne : tmp ≠ target) :
    ∀ (ss : List Step) (c : Cfg), AllPrivate tmp target ss → view tmp (exec ss c) = execV ss (view tmp c) := by
  intro ss
  induction ss with
  | nil => intro c _; rfl
  | cons s r ih =>
    intro c h
    rw [exec_cons, execV_cons, ih _ h.tail, view_step hne s c h.head]

theorem frame_exec {tmp target q : Path} (h1 : tmp ≠ q) (h2 : target ≠ q) :
    ∀ (ss : List Step) (c : Cfg), AllPrivate tmp target ss → (exec ss c).fs.get q = c.fs.get q := by
  intro ss
  induction ss with
  | nil => intro c _; rfl
  | cons s r ih =>
    intro c h
    rw [exec_cons, ih _ h.tail, frame_step s c h.head h1 h2]

/-! ### readiness: every completed rename finds the complete new exposition in the temporary file -/

def Ready (new : Content) : List Step → View → Prop
  | [], _ => True
  | s :: r, v => (isRen s = true → v.file = some new) ∧ Ready new r (stepV s v)

theorem Ready_append (new : Content) : ∀ (a b : List Step) (v : View),
    Ready new (a ++ b) v ↔ Ready new a v ∧ Ready new b (execV a v) := by
  intro a
  induction a with
  | nil => intro b v; simp [Ready]
  | cons s r ih => intro b v; simp [Ready, ih, and_assoc]

theorem Ready_of_noRen (new : Content) : ∀ (ss : List Step) (v : View),
    (∀ s ∈ ss, isRen s = false) → Ready new ss v := by
  intro ss
  induction ss with
  | nil => intro v _; trivial
  | cons s r ih =>
    intro v h
    refine ⟨?_, ih _ (fun x hx => h x (List.mem_cons_of_mem _ hx))⟩
    intro hr
    rw [h s List.mem_cons_self] at hr
    cases hr

/-- without a completed rename the target is never touched -/
theorem target_exec_noRen {tmp target : Path} (hne : tmp ≠ target) :
    ∀ (ss : List Step) (c : Cfg), AllPrivate tmp target ss → (∀ s ∈ ss, isRen s = false) →
      (exec ss c).fs.get target = c.fs.get target := by
  intro ss
  induction ss with
  | nil => intro c _ _; rfl
  | cons s r ih =>
    intro c h hn
    rw [exec_cons, ih _ h.tail (fun x hx => hn x (List.mem_cons_of_mem _ hx)), target_step hne s c h.head,
      hn s List.mem_cons_self]
    simp

/-- ONE WRITER, EVERY CUT POINT: after any prefix of a ready list of private steps the target holds what it held at
the start or the complete new content -/
theorem target_prefix {tmp target : Path} (new : Content) (hne : tmp ≠ target) :
    ∀ (ss : List Step) (c : Cfg), AllPrivate tmp target ss → Ready new ss (view tmp c) → ∀ m : Nat,
      (exec (ss.take m) c).fs.get target = c.fs.get target ∨ (exec (ss.take m) c).fs.get target = some new := by
  intro ss
  induction ss with
  | nil => intro c _ _ m; left; simp
  | cons s r ih =>
    intro c h hr m
    cases m with
    | zero => left; simp
    | succ m =>
      rw [List.take_succ_cons, exec_cons]
      have hr' : Ready new r (view tmp (applyStep s c)) := by rw [view_step hne s c h.head]; exact hr.2
      rcases ih (applyStep s c) h.tail hr' m with h1 | h1
      · rw [h1, target_step hne s c h.head]
        by_cases hs : isRen s = true
        · have : c.fs.get tmp = some new := hr.1 hs
          right; simp [hs, this]
        · left; simp [hs]
      · right; exact h1

/-! ### two writers -/

theorem apply2_left (x : Step) (c : Cfg2) :
    apply2 (true, x) c = { c with fs := (applyStep x ⟨c.fs, c.l1⟩).fs, l1 := (applyStep x ⟨c.fs, c.l1⟩).loc } := rfl

theorem apply2_right (y : Step) (c : Cfg2) :
    apply2 (false, y) c = { c with fs := (applyStep y ⟨c.fs, c.l2⟩).fs, l2 := (applyStep y ⟨c.fs, c.l2⟩).loc } := rfl

def view1 (t1 : Path) (c : Cfg2) : View := view t1 ⟨c.fs, c.l1⟩
def view2 (t2 : Path) (c : Cfg2) : View := view t2 ⟨c.fs, c.l2⟩

structure Distinct (t1 t2 target : Path) : Prop where
  h12 : t1 ≠ t2
  h1 : t1 ≠ target
  h2 : t2 ≠ target

theorem view1_left {t1 t2 target : Path} (d : Distinct t1 t2 target) (x : Step) (c : Cfg2)
    (hp : isPrivate t1 target x.1 = true) : view1 t1 (apply2 (true, x) c) = stepV x (view1 t1 c) := by
  have := view_step d.h1 x ⟨c.fs, c.l1⟩ hp
  simpa [view1, apply2_left, view] using this

theorem view2_left {t1 t2 target : Path} (d : Distinct t1 t2 target) (x : Step) (c : Cfg2)
    (hp : isPrivate t1 target x.1 = true) : view2 t2 (apply2 (true, x) c) = view2 t2 c := by
  have := frame_step (q := t2) x ⟨c.fs, c.l1⟩ hp d.h12 (fun h => d.h2 h.symm)
  simp [view2, apply2_left, view, this]

theorem view2_right {t1 t2 target : Path} (d : Distinct t1 t2 target) (y : Step) (c : Cfg2)
    (hp : isPrivate t2 target y.1 = true) : view2 t2 (apply2 (false, y) c) = stepV y (view2 t2 c) := by
  have := view_step d.h2 y ⟨c.fs, c.l2⟩ hp
  simpa [view2, apply2_right, view] using this

theorem view1_right {t1 t2 target : Path} (d : Distinct t1 t2 target) (y : Step) (c : Cfg2)
    (hp : isPrivate t2 target y.1 = true) : view1 t1 (apply2 (false, y) c) = view1 t1 c := by
  have := frame_step (q := t1) y ⟨c.fs, c.l2⟩ hp (fun h => d.h12 h.symm) (fun h => d.h1 h.symm)
  simp [view1, apply2_right, view, this]

theorem target_left {t1 target : Path} (h1 : t1 ≠ target) (x : Step) (c : Cfg2)
    (hp : isPrivate t1 target x.1 = true) :
    (apply2 (true, x) c).fs.get target =
      (if isRen x = true then (match (view1 t1 c).file with | some a => some a | none => c.fs.get target)
       else c.fs.get target) := by
  have := target_step h1 x ⟨c.fs, c.l1⟩ hp
  simpa [apply2_left, view1, view] using this

theorem target_right {t2 target : Path} (h2 : t2 ≠ target) (y : Step) (c : Cfg2)
    (hp : isPrivate t2 target y.1 = true) :
    (apply2 (false, y) c).fs.get target =
      (if isRen y = true then (match (view2 t2 c).file with | some a => some a | none => c.fs.get target)
       else c.fs.get target) := by
  have := target_step h2 y ⟨c.fs, c.l2⟩ hp
  simpa [apply2_right, view2, view] using this

/-- each writer's private view after ANY interleaving is what its own steps alone compute -/
theorem view_exec2 {t1 t2 target : Path} (d : Distinct t1 t2 target) {xs ys : List Step} {zs : List (Bool × Step)}
    (hi : Interleave xs ys zs) : ∀ c : Cfg2, AllPrivate t1 target xs → AllPrivate t2 target ys →
      view1 t1 (exec2 zs c) = execV xs (view1 t1 c) ∧ view2 t2 (exec2 zs c) = execV ys (view2 t2 c) := by
  induction hi with
  | nil => intro c _ _; exact ⟨rfl, rfl⟩
  | left _ ih =>
    intro c hx hy
    obtain ⟨a, b⟩ := ih (apply2 (true, _) c) hx.tail hy
    rw [exec2_cons, execV_cons, a, b, view1_left d _ c hx.head, view2_left d _ c hx.head]
    exact ⟨rfl, rfl⟩
  | right _ ih =>
    intro c hx hy
    obtain ⟨a, b⟩ := ih (apply2 (false, _) c) hx hy.tail
    rw [exec2_cons, execV_cons, a, b, view2_right d _ c hy.head, view1_right d _ c hy.head]
    exact ⟨rfl, rfl⟩

/-- a third path is never touched by either writer -/
theorem frame_exec2 {t1 t2 target q : Path} (hq1 : t1 ≠ q) (hq2 : t2 ≠ q) (hq : target ≠ q) {xs ys : List Step}
    {zs : List (Bool × Step)} (hi : Interleave xs ys zs) : ∀ c : Cfg2, AllPrivate t1 target xs →
      AllPrivate t2 target ys → (exec2 zs c).fs.get q = c.fs.get q := by
  induction hi with
  | nil => intro c _ _; rfl
  | left _ ih =>
    intro c hx hy
    rw [exec2_cons, ih _ hx.tail hy, apply2_left]
    exact frame_step _ ⟨c.fs, c.l1⟩ hx.head hq1 hq
  | right _ ih =>
    intro c hx hy
    rw [exec2_cons, ih _ hx hy.tail, apply2_right]
    exact frame_step _ ⟨c.fs, c.l2⟩ hy.head hq2 hq

/-- TWO WRITERS, EVERY INTERLEAVING, EVERY CUT POINT -/
theorem target_prefix2 {t1 t2 target : Path} (n1 n2 : Content) (d : Distinct t1 t2 target) {xs ys : List Step}
    {zs : List (Bool × Step)} (hi : Interleave xs ys zs) : ∀ c : Cfg2, AllPrivate t1 target xs →
      AllPrivate t2 target ys → Ready n1 xs (view1 t1 c) → Ready n2 ys (view2 t2 c) → ∀ m : Nat,
      (exec2 (zs.take m) c).fs.get target = c.fs.get target ∨ (exec2 (zs.take m) c).fs.get target = some n1 ∨
        (exec2 (zs.take m) c).fs.get target = some n2 := by
  induction hi with
  | nil => intro c _ _ _ _ m; left; simp
  | @left x xs ys zs _ ih =>
    intro c hx hy rx ry m
    cases m with
    | zero => left; simp
    | succ m =>
      rw [List.take_succ_cons, exec2_cons]
      have rx' : Ready n1 xs (view1 t1 (apply2 (true, x) c)) := by rw [view1_left d x c hx.head]; exact rx.2
      have ry' : Ready n2 ys (view2 t2 (apply2 (true, x) c)) := by rw [view2_left d x c hx.head]; exact ry
      rcases ih (apply2 (true, x) c) hx.tail hy rx' ry' m with h | h | h
      · rw [h, target_left d.h1 x c hx.head]
        by_cases hs : isRen x = true
        · have := rx.1 hs
          right; left; simp [hs, this]
        · left; simp [hs]
      · right; left; exact h
      · right; right; exact h
  | @right y xs ys zs _ ih =>
    intro c hx hy rx ry m
    cases m with
    | zero => left; simp
    | succ m =>
      rw [List.take_succ_cons, exec2_cons]
      have rx' : Ready n1 xs (view1 t1 (apply2 (false, y) c)) := by rw [view1_right d y c hy.head]; exact rx
      have ry' : Ready n2 ys (view2 t2 (apply2 (false, y) c)) := by rw [view2_right d y c hy.head]; exact ry.2
      rcases ih (apply2 (false, y) c) hx hy.tail rx' ry' m with h | h | h
      · rw [h, target_right d.h2 y c hy.head]
        by_cases hs : isRen y = true
        · have := ry.1 hs
          right; right; simp [hs, this]
        · left; simp [hs]
      · right; left; exact h
      · right; right; exact h

/-- once some rename has completed the target holds one of the two complete new contents, whatever follows -/
theorem target_final2 {t1 t2 target : Path} (n1 n2 : Content) (d : Distinct t1 t2 target) {xs ys : List Step}
    {zs : List (Bool × Step)} (hi : Interleave xs ys zs) : ∀ c : Cfg2, AllPrivate t1 target xs →
      AllPrivate t2 target ys → Ready n1 xs (view1 t1 c) → Ready n2 ys (view2 t2 c) →
      (∃ z ∈ zs, isRen z.2 = true) →
      (exec2 zs c).fs.get target = some n1 ∨ (exec2 zs c).fs.get target = some n2 := by
  induction hi with
  | nil => intro c _ _ _ _ h; obtain ⟨z, hz, _⟩ := h; cases hz
  | @left x xs ys zs hi' ih =>
    intro c hx hy rx ry hex
    rw [exec2_cons]
    have rx' : Ready n1 xs (view1 t1 (apply2 (true, x) c)) := by rw [view1_left d x c hx.head]; exact rx.2
    have ry' : Ready n2 ys (view2 t2 (apply2 (true, x) c)) := by rw [view2_left d x c hx.head]; exact ry
    by_cases hs : isRen x = true
    · have h0 : (apply2 (true, x) c).fs.get target = some n1 := by
        rw [target_left d.h1 x c hx.head]; simp [hs, rx.1 hs]
      have := target_prefix2 n1 n2 d hi' (apply2 (true, x) c) hx.tail hy rx' ry' zs.length
      rw [List.take_length, h0] at this
      rcases this with h | h | h
      · left; exact h
      · left; exact h
      · right; exact h
    · apply ih _ hx.tail hy rx' ry'
      obtain ⟨z, hz, hzr⟩ := hex
      rcases List.mem_cons.mp hz with h | h
      · subst h; exact absurd hzr hs
      · exact ⟨z, h, hzr⟩
  | @right y xs ys zs hi' ih =>
    intro c hx hy rx ry hex
    rw [exec2_cons]
    have rx' : Ready n1 xs (view1 t1 (apply2 (false, y) c)) := by rw [view1_right d y c hy.head]; exact rx
    have ry' : Ready n2 ys (view2 t2 (apply2 (false, y) c)) := by rw [view2_right d y c hy.head]; exact ry.2
    by_cases hs : isRen y = true
    · have h0 : (apply2 (false, y) c).fs.get target = some n2 := by
        rw [target_right d.h2 y c hy.head]; simp [hs, ry.1 hs]
      have := target_prefix2 n1 n2 d hi' (apply2 (false, y) c) hx hy.tail rx' ry' zs.length
      rw [List.take_length, h0] at this
      rcases this with h | h | h
      · right; exact h
      · left; exact h
      · right; exact h
    · apply ih _ hx hy.tail rx' ry'
      obtain ⟨z, hz, hzr⟩ := hex
      rcases List.mem_cons.mp hz with h | h
      · subst h; exact absurd hzr hs
      · exact ⟨z, h, hzr⟩

theorem interleave_seq : ∀ (xs ys : List Step),
    Interleave xs ys (xs.map (fun x => (true, x)) ++ ys.map (fun y => (false, y))) := by
  intro xs
  induction xs with
  | nil =>
    intro ys
    induction ys with
    | nil => exact .nil
    | cons y r ih => exact .right ih
  | cons x r ih => intro ys; exact .left (ih ys)

/-- every schedule yields an interleaving -/
theorem merge_interleave : ∀ (sch : List Bool) (xs ys : List Step), Interleave xs ys (merge sch xs ys) := by
  intro sch
  induction sch with
  | nil => intro xs ys; exact interleave_seq xs ys
  | cons b sch ih =>
    intro xs ys
    cases b with
    | true =>
      cases xs with
      | nil => exact ih [] ys
      | cons x xs => exact .left (ih xs ys)
    | false =>
      cases ys with
      | nil =>
        have := ih xs []
        cases xs <;> exact this
      | cons y ys =>
        have := ih xs ys
        cases xs <;> exact .right this

end PromVerif.Model.Textfile
