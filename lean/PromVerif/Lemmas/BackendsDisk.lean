/-
C12 with remove/clear: the directory of a single-identity run as a pure function of the value-object calls.

`MmapedValue(...)` on a (file, key) that EXISTS changes nothing on disk (`__reset` → `read_value` finds the entry: a
re-created child continues from what the dropped child left); an update through the YOUNGEST object on a key writes
`entry + amount` / the set value — by C09's coherence (`Values.Inv.cached`) its cache is what the file holds.  So the
directory evolves by `dConstruct` / `dUpd`, which do not mention value objects at all: two histories issuing the same
constructions (up to re-constructions of existing keys) and the same updates leave the same directory.
-/
import PromVerif.Lemmas.BackendsWrites

namespace PromVerif.Lemmas.Backends
open PromVerif.Py PromVerif.Generated.Multiprocess
open PromVerif.Model.Multiprocess
open PromVerif.Model.Values
open PromVerif.Model.Backends
set_option autoImplicit false

variable {V : Type}

/-- `MmapedValue(...)`'s effect on the directory -/
def dConstruct (vo : VOps V) (disk : List (Str × Store V)) (fn : Str) (k : Key) : List (Str × Store V) :=
  if (cellGet disk fn k).isSome then disk else AL.set disk fn (AL.set (storeOf disk fn) k (vo.zero, vo.zero))

/-- one `inc` / `set` on the cell at a position of a child -/
def dUpd (vo : VOps V) (pid : Str) (cells : List Params) (disk : List (Str × Store V)) : CellUpd V → List (Str × Store V)
  | .inc pos a =>
    match cells[pos]? with
    | some p => writeValue disk (fileOf pid p) (mmapKey p) (vo.add (cellVal vo disk (fileOf pid p) (mmapKey p)).1 a) vo.zero
    | none => disk
  | .set pos x t =>
    match cells[pos]? with
    | some p => writeValue disk (fileOf pid p) (mmapKey p) x (tsOr0 vo t)
    | none => disk

/-- a single-identity state with C09's invariant (stale objects allowed) -/
structure HInv (vo : VOps V) (pid : Str) (st : St V) : Prop where
  hpid : st.pid = pid
  hactual : st.actual = pid
  inv : Inv vo st

theorem VInv.toHInv {vo : VOps V} {pid : Str} {st : St V} (h : VInv vo pid st) : HInv vo pid st :=
  ⟨h.hpid, h.hactual, h.inv⟩

theorem file_of_cell (disk : List (Str × Store V)) (fn : Str) (k : Key) (h : (cellGet disk fn k).isSome = true) :
    (AL.get? disk fn).isSome = true := by
  unfold cellGet at h
  rw [AL.getD_eq] at h
  cases hg : AL.get? disk fn with
  | some s => rfl
  | none => rw [hg] at h; simp at h

theorem set_openFile (disk : List (Str × Store V)) (fn : Str) (s : Store V) :
    AL.set (openFile disk fn) fn s = AL.set disk fn s := by
  unfold openFile
  cases AL.get? disk fn with
  | some _ => rfl
  | none => exact set_set_same disk fn [] s

theorem construct_disk (vo : VOps V) (pid : Str) (st : St V) (h : HInv vo pid st) (p : Params) :
    HInv vo pid (step vo st (.construct p)).1 ∧
      (step vo st (.construct p)).1.values.map (·.params) = st.values.map (·.params) ++ [p] ∧
      (step vo st (.construct p)).1.disk = dConstruct vo st.disk (fileOf pid p) (mmapKey p) := by
  have hpa : st.pid = st.actual := by rw [h.hpid, h.hactual]
  have hb := h.inv.bound
  have hparams := step_params vo st (.construct p) hb
  have hinv := step_inv vo st (.construct p) h.inv trivial
  have hpid := step_pid vo st (.construct p) hb
  refine ⟨⟨by rw [hpid.2, h.hactual], by rw [hpid.1, h.hactual], hinv⟩, by simpa [newParams] using hparams, ?_⟩
  have hstep : (step vo st (.construct p)).1.disk = (reset vo st.pid st.files st.disk p).2.2 := by
    simp only [step, checkPid_same vo st hpa]
  rw [hstep, h.hpid]
  have hf : FilesOK pid st.files := h.hpid ▸ hb.files
  unfold dConstruct
  cases hg : AL.get? st.files (filePrefix p) with
  | some fn0 =>
    have hfn : fn0 = fileOf pid p := hf _ _ hg
    subst hfn
    rw [reset_some vo pid st.files st.disk p _ hg]
    simp only
    cases hc : cellGet st.disk (fileOf pid p) (mmapKey p) with
    | some vt => rw [readValue_some vo st.disk _ _ vt hc]; rfl
    | none => rw [readValue_none vo st.disk _ _ hc]; rfl
  | none =>
    rw [reset_none vo pid st.files st.disk p hg]
    simp only
    have hco : cellGet (openFile st.disk (fileName (filePrefix p) pid)) (fileName (filePrefix p) pid) (mmapKey p)
        = cellGet st.disk (fileOf pid p) (mmapKey p) := cellGet_openFile _ _ _ _
    cases hc : cellGet st.disk (fileOf pid p) (mmapKey p) with
    | some vt =>
      rw [hc] at hco
      rw [readValue_some vo _ _ _ vt hco]
      simp only [Option.isSome_some, if_true]
      have := file_of_cell st.disk (fileOf pid p) (mmapKey p) (by rw [hc]; rfl)
      unfold openFile
      cases hgg : AL.get? st.disk (fileName (filePrefix p) pid) with
      | some _ => rfl
      | none =>
        have : AL.get? st.disk (fileOf pid p) = none := hgg
        simp_all
    | none =>
      rw [hc] at hco
      rw [readValue_none vo _ _ _ hco]
      simp only [Option.isSome_none, Bool.false_eq_true, if_false]
      have hs : AL.getD (openFile st.disk (fileName (filePrefix p) pid)) (fileName (filePrefix p) pid) []
          = storeOf st.disk (fileOf pid p) := storeOf_openFile st.disk _ _
      rw [hs]
      exact set_openFile st.disk _ _

/-- an update through the youngest object on its key: `entry + amount` / the set value goes to the file -/
theorem write_disk (vo : VOps V) (pid : Str) (st : St V) (h : HInv vo pid st) (i : Nat) (v : ValueObj V)
    (hv : st.values[i]? = some v) (hlast : IsLast (idsOf st) i) :
    (∀ a, HInv vo pid (step vo st (.inc i a)).1 ∧
        (step vo st (.inc i a)).1.values.map (·.params) = st.values.map (·.params) ∧
        (step vo st (.inc i a)).1.disk = writeValue st.disk (fileOf pid v.params) (mmapKey v.params)
          (vo.add (cellVal vo st.disk (fileOf pid v.params) (mmapKey v.params)).1 a) vo.zero) ∧
    (∀ x t, HInv vo pid (step vo st (.set i x t)).1 ∧
        (step vo st (.set i x t)).1.values.map (·.params) = st.values.map (·.params) ∧
        (step vo st (.set i x t)).1.disk = writeValue st.disk (fileOf pid v.params) (mmapKey v.params) x (tsOr0 vo t)) := by
  have hpa : st.pid = st.actual := by rw [h.hpid, h.hactual]
  have hb := h.inv.bound
  have hvm : v ∈ st.values := List.mem_iff_getElem?.mpr ⟨i, hv⟩
  have hbv := hb.bound v hvm
  have hfile : v.file = fileOf pid v.params := by rw [hbv.2, h.hpid]; rfl
  have hcache := h.inv.cached i v hv hlast
  constructor
  · intro a
    have hparams := step_params vo st (.inc i a) hb
    have hinv := step_inv vo st (.inc i a) h.inv hlast
    have hpid := step_pid vo st (.inc i a) hb
    refine ⟨⟨by rw [hpid.2, h.hactual], by rw [hpid.1, h.hactual], hinv⟩, by simpa [newParams] using hparams, ?_⟩
    simp only [step, checkPid_same vo st hpa, hv]
    rw [hfile, hbv.1] at hcache ⊢
    rw [hcache]
  · intro x t
    have hparams := step_params vo st (.set i x t) hb
    have hinv := step_inv vo st (.set i x t) h.inv hlast
    have hpid := step_pid vo st (.set i x t) hb
    refine ⟨⟨by rw [hpid.2, h.hactual], by rw [hpid.1, h.hactual], hinv⟩, by simpa [newParams] using hparams, ?_⟩
    simp only [step, checkPid_same vo st hpa, hv]
    rw [hfile, hbv.1]

/-- constructing a block of objects -/
theorem block_constructs (vo : VOps V) (pid : Str) : ∀ (qs : List Params) (st : St V), HInv vo pid st →
    HInv vo pid (run vo st (qs.map Op.construct)) ∧
      (run vo st (qs.map Op.construct)).values.map (·.params) = st.values.map (·.params) ++ qs ∧
      (run vo st (qs.map Op.construct)).disk
        = qs.foldl (fun d q => dConstruct vo d (fileOf pid q) (mmapKey q)) st.disk
  | [], st, h => ⟨h, by simp [run], rfl⟩
  | q :: qs, st, h => by
    obtain ⟨h1, hp1, hd1⟩ := construct_disk vo pid st h q
    obtain ⟨h2, hp2, hd2⟩ := block_constructs vo pid qs _ h1
    simp only [List.map_cons, run_cons, List.foldl_cons]
    exact ⟨h2, by rw [hp2, hp1]; simp, by rw [hd2, hd1]⟩

/-- the value-object calls of one method call, through the youngest objects of the child's cells -/
theorem block_updates (vo : VOps V) (pid : Str) (ps cells : List Params) (hcells : ∀ p ∈ cells, p ∈ ps)
    (hinj : ∀ p ∈ cells, ∀ q ∈ ps, idOf q = idOf p → q = p) :
    ∀ (us : List (CellUpd V)) (st : St V), HInv vo pid st → st.values.map (·.params) = ps →
      HInv vo pid (run vo st (us.flatMap (toVop ps cells))) ∧
        (run vo st (us.flatMap (toVop ps cells))).values.map (·.params) = ps ∧
        (run vo st (us.flatMap (toVop ps cells))).disk = us.foldl (dUpd vo pid cells) st.disk
  | [], st, h, hps => ⟨h, hps, rfl⟩
  | u :: us, st, h, hps => by
    have key : HInv vo pid (run vo st (toVop ps cells u)) ∧
        (run vo st (toVop ps cells u)).values.map (·.params) = ps ∧
        (run vo st (toVop ps cells u)).disk = dUpd vo pid cells st.disk u := by
      -- the youngest object of a cell
      have hobj : ∀ p ∈ cells, ∃ v, st.values[pidx p ps]? = some v ∧ v.params = p ∧ IsLast (idsOf st) (pidx p ps) := by
        intro p hp
        obtain ⟨v, hv, hvp⟩ := value_at_pidx st ps hps p (hcells p hp)
        refine ⟨v, hv, hvp, ?_⟩
        intro j a hj hja hia
        have hids : idsOf st = ps.map idOf := by
          unfold idsOf; rw [← hps, List.map_map]; rfl
        rw [hids, List.getElem?_map] at hja hia
        rw [pidx_spec p ps (hcells p hp)] at hia
        cases hq : ps[j]? with
        | none => rw [hq] at hja; cases hja
        | some q =>
          rw [hq] at hja
          simp only [Option.map_some, Option.some.injEq] at hja hia
          have := hinj p hp q (List.mem_of_getElem? hq) (hja.trans hia.symm)
          subst this
          exact pidx_last q ps j hj hq
      cases u with
      | inc pos a =>
        cases hc : cells[pos]? with
        | none => simp only [toVop, hc, dUpd]; exact ⟨h, hps, rfl⟩
        | some p =>
          obtain ⟨v, hv, hvp, hl⟩ := hobj p (List.mem_of_getElem? hc)
          obtain ⟨w1, w2, w3⟩ := (write_disk vo pid st h _ v hv hl).1 a
          simp only [toVop, hc, dUpd]
          rw [hvp] at w3
          exact ⟨w1, w2.trans hps, w3⟩
      | set pos x t =>
        cases hc : cells[pos]? with
        | none => simp only [toVop, hc, dUpd]; exact ⟨h, hps, rfl⟩
        | some p =>
          obtain ⟨v, hv, hvp, hl⟩ := hobj p (List.mem_of_getElem? hc)
          obtain ⟨w1, w2, w3⟩ := (write_disk vo pid st h _ v hv hl).2 x t
          simp only [toVop, hc, dUpd]
          rw [hvp] at w3
          exact ⟨w1, w2.trans hps, w3⟩
    obtain ⟨k1, k2, k3⟩ := key
    obtain ⟨i1, i2, i3⟩ := block_updates vo pid ps cells hcells hinj us _ k1 k2
    rw [List.flatMap_cons, run_append, List.foldl_cons]
    exact ⟨i1, i2, by rw [i3, k3]⟩

/-- re-constructing objects on keys that exist leaves the directory alone -/
theorem foldl_dConstruct_existing (vo : VOps V) (pid : Str) : ∀ (qs : List Params) (disk : List (Str × Store V)),
    (∀ q ∈ qs, (cellGet disk (fileOf pid q) (mmapKey q)).isSome = true) →
    qs.foldl (fun d q => dConstruct vo d (fileOf pid q) (mmapKey q)) disk = disk
  | [], _, _ => rfl
  | q :: qs, disk, h => by
    simp only [List.foldl_cons]
    have : dConstruct vo disk (fileOf pid q) (mmapKey q) = disk := by
      unfold dConstruct; rw [if_pos (h q List.mem_cons_self)]
    rw [this]
    exact foldl_dConstruct_existing vo pid qs disk (fun q' hq' => h q' (List.mem_cons_of_mem _ hq'))

end PromVerif.Lemmas.Backends
