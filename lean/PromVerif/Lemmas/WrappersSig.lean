/-
Lemmas for C16, signature part: what `def name(<signature>)` declares, what `<shortsignature>` forwards, and
that binding the forwarded arguments gives back the environment the wrapper bound.
-/
import PromVerif.Model.Wrappers
import PromVerif.Spec.Wrappers

namespace PromVerif.Lemmas.WrappersSig
open PromVerif.Py PromVerif.Model.Wrappers PromVerif.Spec.Wrappers PromVerif.Generated.Wrappers

/-! ### the generated `def` line parsed back -/

theorem parse_plain (ns : List Name) (rest : List SigItem) :
    parseItems (ns.map .plain ++ rest) false
      = { parseItems rest false with pos := ns ++ (parseItems rest false).pos } := by
  induction ns with
  | nil => rfl
  | cons n ns ih => simp [parseItems, ih]

theorem parse_kwNone (ks : List Name) (rest : List SigItem) :
    parseItems (ks.map .kwNone ++ rest) true
      = { parseItems rest true with kwonly := ks ++ (parseItems rest true).kwonly } := by
  induction ks with
  | nil => rfl
  | cons n ns ih => simp [parseItems, ih]

theorem parse_kwNone_nil (ks : List Name) :
    parseItems (ks.map .kwNone) true = ⟨[], none, ks, none⟩ := by
  have := parse_kwNone ks []
  simpa [parseItems] using this

theorem parse_kwNone_dstar (ks : List Name) (k : Name) :
    parseItems (ks.map .kwNone ++ [.dstar k]) true = ⟨[], none, ks, some k⟩ := by
  rw [parse_kwNone]; simp [parseItems]

theorem parse_signatureItems (s : ArgSpec) :
    parseItems (signatureItems s) false = ⟨s.posonly ++ s.pos, s.varargs, s.kwonly, s.varkw⟩ := by
  unfold signatureItems fullArgs
  rw [List.append_assoc, List.append_assoc, parse_plain]
  cases hvk : s.varkw <;> cases hv : s.varargs <;> cases hk : s.kwonly <;>
    simp [parseItems, parse_kwNone_nil, parse_kwNone_dstar]

/-- the wrapper declares the same names in the same order; positional-only parameters have become
positional-or-keyword; defaults, kw-defaults, annotations, doc are the original's objects -/
theorem wrapperSpec_eq (s : ArgSpec) (wid : Nat) :
    wrapperSpec s wid = { s with name := makerName s, posonly := [], pos := s.posonly ++ s.pos,
                                 wrapped := some s.fid, fid := wid } := by
  simp [wrapperSpec, parse_signatureItems]

/-! ### `<shortsignature>` evaluated -/

theorem evalShort_plain (env : Env) (ns : List Name) (rest : List ShortItem) :
    evalShort env (ns.map .plain ++ rest)
      = ⟨ns.map (look env.args) ++ (evalShort env rest).pos, (evalShort env rest).kw⟩ := by
  induction ns with
  | nil => rfl
  | cons n ns ih => simp [evalShort, ih]

theorem evalShort_kwEq (env : Env) (ks : List Name) (rest : List ShortItem) :
    evalShort env (ks.map .kwEq ++ rest)
      = ⟨(evalShort env rest).pos, ks.map (fun k => (k, look env.args k)) ++ (evalShort env rest).kw⟩ := by
  induction ks with
  | nil => rfl
  | cons n ns ih => simp [evalShort, ih]

theorem evalShort_kwEq_nil (env : Env) (ks : List Name) :
    evalShort env (ks.map .kwEq) = ⟨[], ks.map (fun k => (k, look env.args k))⟩ := by
  have := evalShort_kwEq env ks []
  simpa [evalShort] using this

theorem forward_eq (s : ArgSpec) (env : Env) :
    forward s env = ⟨(s.posonly ++ s.pos).map (look env.args) ++ (if s.varargs.isSome then env.varargs else []),
                     s.kwonly.map (fun k => (k, look env.args k)) ++ (if s.varkw.isSome then env.kw else [])⟩ := by
  unfold forward shortItems fullArgs
  rw [List.append_assoc, List.append_assoc, evalShort_plain]
  cases s.varargs <;> cases s.varkw <;> simp [evalShort, evalShort_kwEq, evalShort_kwEq_nil]

/-! ### association lists -/

theorem lookup_none_of_not_key {kw : Kw} {n : Name} (h : ∀ kv ∈ kw, kv.1 ≠ n) : lookup kw n = none := by
  induction kw with
  | nil => rfl
  | cons kv r ih =>
    obtain ⟨k, v⟩ := kv
    have hk : k ≠ n := h (k, v) (by simp)
    simp only [lookup, hk, if_false]
    exact ih (fun kv hkv => h kv (List.mem_cons_of_mem _ hkv))

theorem lookup_append_of_not_key {a b : Kw} {n : Name} (h : ∀ kv ∈ a, kv.1 ≠ n) :
    lookup (a ++ b) n = lookup b n := by
  induction a with
  | nil => rfl
  | cons kv r ih =>
    obtain ⟨k, v⟩ := kv
    have hk : k ≠ n := h (k, v) (by simp)
    simp only [List.cons_append, lookup, hk, if_false]
    exact ih (fun kv hkv => h kv (List.mem_cons_of_mem _ hkv))

theorem lookup_mem_nodup {a : Kw} (b : Kw) (hn : (a.map (·.1)).Nodup) :
    ∀ kv ∈ a, lookup (a ++ b) kv.1 = some kv.2 := by
  induction a with
  | nil => intro kv h; cases h
  | cons x r ih =>
    obtain ⟨k, v⟩ := x
    simp only [List.map_cons, List.nodup_cons] at hn
    intro kv hkv
    rcases List.mem_cons.mp hkv with e | hm
    · subst e; simp [lookup]
    · have hne : k ≠ kv.1 := by
        intro e
        exact hn.1 (e ▸ List.mem_map_of_mem hm)
      simp only [List.cons_append, lookup, hne, if_false]
      exact ih hn.2 kv hm

theorem lookup_some_key {kw : Kw} {n : Name} {v : Val} (h : lookup kw n = some v) : n ∈ kw.map (·.1) := by
  induction kw with
  | nil => simp [lookup] at h
  | cons kv r ih =>
    obtain ⟨k, w⟩ := kv
    by_cases e : k = n
    · simp [e]
    · simp only [lookup, e, if_false] at h
      simp [ih h]

/-! ### parameters -/

theorem mem_zipWith {α β γ} (f : α → β → γ) : ∀ (l1 : List α) (l2 : List β) (c : γ),
    c ∈ List.zipWith f l1 l2 → ∃ a ∈ l1, ∃ b ∈ l2, c = f a b
  | [], _, c, h => by simp at h
  | _ :: _, [], c, h => by simp at h
  | a :: l1, b :: l2, c, h => by
    simp only [List.zipWith_cons_cons, List.mem_cons] at h
    rcases h with e | h
    · exact ⟨a, by simp, b, by simp, e⟩
    · obtain ⟨a', ha, b', hb, e⟩ := mem_zipWith f l1 l2 c h
      exact ⟨a', by simp [ha], b', by simp [hb], e⟩

theorem map_zipWith_left {α β γ δ} (f : α → β → γ) (g : γ → δ) (h : α → δ) (hf : ∀ a b, g (f a b) = h a) :
    ∀ (l1 : List α) (l2 : List β), l1.length ≤ l2.length → (List.zipWith f l1 l2).map g = l1.map h
  | [], _, _ => by simp
  | a :: l1, [], hl => by simp at hl
  | a :: l1, b :: l2, hl => by
    simp only [List.length_cons, Nat.add_le_add_iff_right] at hl
    simp [hf, map_zipWith_left f g h hf l1 l2 hl]

theorem defaultsFor_length (n : Nat) (ds : List Val) : n ≤ (defaultsFor n ds).length := by
  simp [defaultsFor]; omega

theorem flags_length (s : ArgSpec) : (flags s).length = s.posonly.length + s.pos.length := by
  simp [flags]

theorem params_names (s : ArgSpec) : (params s).map (·.name) = s.posonly ++ s.pos := by
  have h := map_zipWith_left (fun (nk : Name × Bool) (d : Option Val) => (⟨nk.1, nk.2, d⟩ : Param))
    (fun p => p.name) (fun nk => nk.1) (fun _ _ => rfl) (flags s)
    (defaultsFor (s.posonly.length + s.pos.length) s.defaults)
    (by rw [flags_length]; exact defaultsFor_length _ _)
  unfold params
  rw [h]
  simp [flags, List.map_map, Function.comp_def]

theorem params_length (s : ArgSpec) : (params s).length = (s.posonly ++ s.pos).length := by
  rw [← params_names, List.length_map]

theorem params_kwable {s : ArgSpec} {p : Param} (hp : p ∈ params s) :
    (p.kwable = true → p.name ∈ s.pos) ∧ (p.kwable = false → p.name ∈ s.posonly) := by
  obtain ⟨nk, hnk, d, _, e⟩ := mem_zipWith _ _ _ _ hp
  subst e
  simp only [flags, List.mem_append, List.mem_map] at hnk
  rcases hnk with ⟨n, hn, e⟩ | ⟨n, hn, e⟩ <;> subst e <;> simp [hn]

def setKwable (p : Param) : Param := { p with kwable := true }

theorem params_wrapper (s : ArgSpec) (wid : Nat) : params (wrapperSpec s wid) = (params s).map setKwable := by
  rw [wrapperSpec_eq]
  simp only [params, flags, List.map_nil, List.nil_append, List.length_nil, Nat.zero_add, List.length_append,
    List.map_append]
  rw [List.map_zipWith]
  generalize s.posonly.length + s.pos.length = n
  generalize defaultsFor n s.defaults = ds
  have : ∀ (l1 l2 : List Name) (ds : List (Option Val)),
      List.zipWith (fun (nk : Name × Bool) d => (⟨nk.1, nk.2, d⟩ : Param))
          (l1.map (fun n => (n, true)) ++ l2.map (fun n => (n, true))) ds
        = List.zipWith (fun (nk : Name × Bool) d => setKwable ⟨nk.1, nk.2, d⟩)
            (l1.map (fun n => (n, false)) ++ l2.map (fun n => (n, true))) ds := by
    intro l1
    induction l1 with
    | nil =>
      intro l2
      induction l2 with
      | nil => intro ds; simp
      | cons a l2 ih2 =>
        intro ds
        cases ds with
        | nil => simp
        | cons d ds =>
          simp only [List.map_nil, List.nil_append, List.map_cons, List.zipWith_cons_cons] at ih2 ⊢
          rw [ih2 ds]; rfl
    | cons a l1 ih =>
      intro l2 ds
      cases ds with
      | nil => simp
      | cons d ds =>
        simp only [List.map_cons, List.cons_append, List.zipWith_cons_cons]
        rw [ih l2 ds]; rfl
  exact this _ _ _

/-! ### binding -/

theorem bindPos_setKwable (kw : Kw) : ∀ (ps : List Param) (vs : List Val),
    (∀ p ∈ ps, p.kwable = false → lookup kw p.name = none) →
    bindPos kw (ps.map setKwable) vs = bindPos kw ps vs
  | [], _, _ => by simp [bindPos]
  | p :: ps, v :: vs, h => by
    have ih := bindPos_setKwable kw ps vs (fun q hq => h q (List.mem_cons_of_mem _ hq))
    have hp := h p (by simp)
    simp only [List.map_cons, bindPos, ih]
    cases hk : p.kwable
    · simp [setKwable, hasKey, hp hk]
    · simp [setKwable]
  | p :: ps, [], h => by
    have ih := bindPos_setKwable kw ps [] (fun q hq => h q (List.mem_cons_of_mem _ hq))
    have hp := h p (by simp)
    simp only [List.map_cons, bindPos, ih]
    cases hk : p.kwable
    · simp [setKwable, hp hk]
    · simp [setKwable]

theorem bindPos_keys (kw : Kw) : ∀ (ps : List Param) (vs : List Val) (a : Kw),
    bindPos kw ps vs = .ok a → a.map (·.1) = ps.map (·.name)
  | [], _, a, h => by simp [bindPos] at h; simp [← h]
  | p :: ps, v :: vs, a, h => by
    simp only [bindPos] at h
    split at h
    · cases h
    · split at h
      · next r hr =>
        cases h
        simp [bindPos_keys kw ps vs r hr]
      · cases h
  | p :: ps, [], a, h => by
    simp only [bindPos] at h
    split at h
    · split at h
      · next r hr => cases h; simp [bindPos_keys kw ps [] r hr]
      · cases h
    · split at h
      · split at h
        · next r hr => cases h; simp [bindPos_keys kw ps [] r hr]
        · cases h
      · cases h

theorem bindKwonly_keys (kw kd : Kw) : ∀ (ks : List Name) (b : Kw),
    bindKwonly kw kd ks = .ok b → b.map (·.1) = ks
  | [], b, h => by simp [bindKwonly] at h; simp [← h]
  | k :: ks, b, h => by
    simp only [bindKwonly] at h
    split at h
    · split at h
      · next r hr => cases h; simp [bindKwonly_keys kw kd ks r hr]
      · cases h
    · cases h

/-- every parameter supplied positionally and no keyword names a positional-or-keyword parameter -/
theorem bindPos_positional (kw : Kw) (extra : List Val) : ∀ (ps : List Param) (a : Kw),
    a.map (·.1) = ps.map (·.name) → (∀ p ∈ ps, p.kwable = true → hasKey kw p.name = false) →
    bindPos kw ps (a.map (·.2) ++ extra) = .ok a
  | [], a, h, _ => by
    simp at h; subst h; simp [bindPos]
  | p :: ps, [], h, _ => by simp at h
  | p :: ps, (k, v) :: a, h, hk => by
    simp only [List.map_cons, List.cons.injEq] at h
    obtain ⟨h1, h2⟩ := h
    subst h1
    have ih := bindPos_positional kw extra ps a h2 (fun q hq => hk q (List.mem_cons_of_mem _ hq))
    have hp := hk p (by simp)
    simp only [List.map_cons, List.cons_append, bindPos, ih]
    cases hkw : p.kwable
    · simp
    · simp [hp hkw]

theorem bindKwonly_self (kw kd : Kw) : ∀ (b : Kw), (∀ kv ∈ b, lookup kw kv.1 = some kv.2) →
    bindKwonly kw kd (b.map (·.1)) = .ok b
  | [], _ => by simp [bindKwonly]
  | (k, v) :: b, h => by
    have ih := bindKwonly_self kw kd b (fun kv hkv => h kv (List.mem_cons_of_mem _ hkv))
    have hk := h (k, v) (by simp)
    simp only at hk
    simp [bindKwonly, hk, ih]

/-- shape of an environment produced by binding against `s` -/
structure EnvShape (s : ArgSpec) (env : Env) : Prop where
  split : ∃ a b, env.args = a ++ b ∧ a.map (·.1) = s.posonly ++ s.pos ∧ b.map (·.1) = s.kwonly
  novarargs : s.varargs = none → env.varargs = []
  novarkw : s.varkw = none → env.kw = []
  kwfree : ∀ kv ∈ env.kw, kv.1 ∉ s.pos ∧ kv.1 ∉ s.kwonly

theorem bind_ok_shape {s : ArgSpec} {ca : CallArgs} {env : Env} (h : bind s ca = .ok env) : EnvShape s env := by
  unfold Model.Wrappers.bind at h
  simp only at h
  split at h
  · cases h
  · next h1 =>
    split at h
    · cases h
    · next h2 =>
      split at h
      · cases h
      · next a ha =>
        split at h
        · cases h
        · next b hb =>
          cases h
          refine ⟨⟨a, b, rfl, ?_, bindKwonly_keys _ _ _ _ hb⟩, ?_, ?_, ?_⟩
          · rw [bindPos_keys _ _ _ _ ha, params_names]
          · intro hv
            simpa [hv] using h1
          · intro hv
            simpa [hv] using h2
          · intro kv hkv
            simp only [leftover, List.mem_filter] at hkv
            simpa using hkv.2

theorem shape_of_wrapper {s : ArgSpec} {wid : Nat} {env : Env} (h : EnvShape (wrapperSpec s wid) env) :
    EnvShape s env := by
  rw [wrapperSpec_eq] at h
  obtain ⟨⟨a, b, h1, h2, h3⟩, h4, h5, h6⟩ := h
  refine ⟨⟨a, b, h1, by simpa using h2, h3⟩, h4, h5, ?_⟩
  intro kv hkv
  have := h6 kv hkv
  simp only [List.mem_append, not_or] at this
  exact ⟨this.1.2, this.2⟩

/-- the original function, called with what the wrapper forwards, binds exactly the wrapper's environment -/
theorem bind_forward_shape {s : ArgSpec} {env : Env} (wf : WF s) (h : EnvShape s env) :
    bind s (forward s env) = .ok env := by
  obtain ⟨⟨a, b, hargs, ha, hb⟩, hva, hvk, hfree⟩ := h
  obtain ⟨args, va, kw⟩ := env
  simp only at hargs hva hvk hfree
  subst hargs
  unfold WF at wf
  have hnd : ((a ++ b).map (·.1)).Nodup := by rw [List.map_append, ha, hb]; exact wf
  have hnda : (a.map (·.1)).Nodup := by
    rw [List.map_append] at hnd; exact (List.nodup_append.mp hnd).1
  have hndb : (b.map (·.1)).Nodup := by
    rw [List.map_append] at hnd; exact (List.nodup_append.mp hnd).2.1
  have hdisj : ∀ x ∈ a, ∀ y ∈ b, x.1 ≠ y.1 := by
    intro x hx y hy
    rw [List.map_append] at hnd
    exact (List.nodup_append.mp hnd).2.2 x.1 (List.mem_map_of_mem hx) y.1 (List.mem_map_of_mem hy)
  -- what the wrapper forwards
  have hlookA : ∀ kv ∈ a, look (a ++ b) kv.1 = kv.2 := by
    intro kv hkv
    simp [look, lookup_mem_nodup b hnda kv hkv]
  have hlookB : ∀ kv ∈ b, look (a ++ b) kv.1 = kv.2 := by
    intro kv hkv
    have : lookup (a ++ b) kv.1 = lookup b kv.1 :=
      lookup_append_of_not_key (fun x hx => hdisj x hx kv hkv)
    have h2 := lookup_mem_nodup [] hndb kv hkv
    simp only [List.append_nil] at h2
    simp [look, this, h2]
  have hpos : (s.posonly ++ s.pos).map (look (a ++ b)) = a.map (·.2) := by
    rw [← ha, List.map_map]
    exact List.map_congr_left (fun kv hkv => hlookA kv hkv)
  have hkwo : s.kwonly.map (fun k => (k, look (a ++ b) k)) = b := by
    rw [← hb, List.map_map]
    conv => rhs; rw [← List.map_id b]
    exact List.map_congr_left (fun kv hkv => by simp [hlookB kv hkv])
  have hva' : (if s.varargs.isSome then va else []) = va := by
    cases hv : s.varargs <;> simp [hva, hv]
  have hvk' : (if s.varkw.isSome then kw else []) = kw := by
    cases hv : s.varkw <;> simp [hvk, hv]
  rw [forward_eq, hpos, hkwo, hva', hvk']
  -- bind it against the original signature
  have hlen : (a.map (·.2)).length = (params s).length := by
    rw [params_length, ← ha]; simp
  have hextra : (a.map (·.2) ++ va).drop (params s).length = va := by
    rw [← hlen]; simp
  have hleft : leftover s (b ++ kw) = kw := by
    simp only [leftover, List.filter_append]
    have h1 : b.filter (fun kv => !(s.pos.contains kv.1 || s.kwonly.contains kv.1)) = [] := by
      rw [List.filter_eq_nil_iff]
      intro kv hkv
      have : kv.1 ∈ s.kwonly := hb ▸ List.mem_map_of_mem hkv
      simp [this]
    have h2 : kw.filter (fun kv => !(s.pos.contains kv.1 || s.kwonly.contains kv.1)) = kw := by
      rw [List.filter_eq_self]
      intro kv hkv
      have := hfree kv hkv
      simp [this.1, this.2]
    rw [h1, h2]; rfl
  have hnokw : ∀ p ∈ params s, p.kwable = true → hasKey (b ++ kw) p.name = false := by
    intro p hp hk
    have hin : p.name ∈ s.pos := (params_kwable hp).1 hk
    have : lookup (b ++ kw) p.name = none := by
      apply lookup_none_of_not_key
      intro kv hkv e
      rcases List.mem_append.mp hkv with hm | hm
      · have hkwo : kv.1 ∈ s.kwonly := hb ▸ List.mem_map_of_mem hm
        have hnd2 := (List.nodup_append.mp wf).2.2 kv.1 (by simp [e, hin]) kv.1 hkwo
        exact hnd2 rfl
      · exact (hfree kv hm).1 (e ▸ hin)
    simp [hasKey, this]
  have hbp : bindPos (b ++ kw) (params s) (a.map (·.2) ++ va) = .ok a :=
    bindPos_positional (b ++ kw) va (params s) a (by rw [ha, params_names]) hnokw
  have hbk : bindKwonly (b ++ kw) s.kwdefaults s.kwonly = .ok b := by
    rw [← hb]
    exact bindKwonly_self _ _ b (lookup_mem_nodup kw hndb)
  unfold Model.Wrappers.bind
  simp only [hextra, hleft, hbp, hbk]
  have c1 : (s.varargs.isNone && !va.isEmpty) = false := by
    cases hv : s.varargs <;> simp [hva, hv]
  have c2 : (s.varkw.isNone && !kw.isEmpty) = false := by
    cases hv : s.varkw <;> simp [hvk, hv]
  simp [c1, c2]

/-- the library's `wrapped(func, /, *args, **kwargs)` takes its first parameter positional-only (flag read from
context_managers.py), so no forwarded keyword — not even one called `func` — can collide with it -/
theorem callerClash_false (fa : CallArgs) : callerClash fa = false := by
  simp [callerClash, callerFuncPosOnly]

/-- the wrapper's own binding differs from the original's only through keywords naming positional-only
parameters -/
theorem bind_wrapper_eq (s : ArgSpec) (wid : Nat) (ca : CallArgs) (h : NoPosOnlyKwClash s ca) :
    bind (wrapperSpec s wid) ca = bind s ca := by
  have hparams := params_wrapper s wid
  have hbp : bindPos ca.kw (params (wrapperSpec s wid)) ca.pos = bindPos ca.kw (params s) ca.pos := by
    rw [hparams]
    apply bindPos_setKwable
    intro p hp hk
    have hin : p.name ∈ s.posonly := (params_kwable hp).2 hk
    apply lookup_none_of_not_key
    intro kv hkv e
    exact h kv hkv (e ▸ hin)
  have hlen : (params (wrapperSpec s wid)).length = (params s).length := by
    rw [hparams, List.length_map]
  have hleft : leftover (wrapperSpec s wid) ca.kw = leftover s ca.kw := by
    rw [wrapperSpec_eq]
    simp only [leftover]
    apply List.filter_congr
    intro kv hkv
    have := h kv hkv
    simp [this]
  unfold Model.Wrappers.bind
  simp only [hbp, hlen, hleft]
  rw [wrapperSpec_eq]

end PromVerif.Lemmas.WrappersSig
