/-
Bridges between the rule vocabulary of `Spec/OMRules.lean` and the parser model, and "this check fires" lemmas.
-/
import PromVerif.Lemmas.OMRun

namespace PromVerif.Lemmas.OM
open PromVerif.Py PromVerif.Model.ParseCore PromVerif.Model.OMParse PromVerif.Generated.OMParse
open PromVerif.Spec.OMRules

/-- the suffix table of the rules' wording is the `type_suffixes` table extracted from the source -/
theorem lookup_spec (t : Str) : (lookupTable t typeSuffixes).getD [[]] = specSuffixes t := by
  unfold specSuffixes
  split
  · next h => subst h; decide
  · split
    · next h => subst h; decide
    · split
      · next h => subst h; decide
      · split
        · next h => subst h; decide
        · split
          · next h => subst h; decide
          · next h1 h2 h3 h4 h5 =>
            have e : ∀ (a : Str), a ≠ t → (a == t) = false := fun a ha => by simpa using ha
            have e1 : (['c', 'o', 'u', 'n', 't', 'e', 'r'] == t) = false := e _ (Ne.symm h1)
            have e2 : (['s', 'u', 'm', 'm', 'a', 'r', 'y'] == t) = false := e _ (Ne.symm h2)
            have e3 : (['h', 'i', 's', 't', 'o', 'g', 'r', 'a', 'm'] == t) = false := e _ (Ne.symm h3)
            have e4 : (['g', 'a', 'u', 'g', 'e', 'h', 'i', 's', 't', 'o', 'g', 'r', 'a', 'm'] == t) = false := e _ (Ne.symm h4)
            have e5 : (['i', 'n', 'f', 'o'] == t) = false := e _ (Ne.symm h5)
            simp only [lookupTable, typeSuffixes, List.find?, e1, e2, e3, e4, e5]
            rfl

theorem familyNames_eq (n t : Str) : familyNames n t = allowedNames n t := by
  unfold familyNames allowedNames
  rw [lookup_spec]

theorem kwType_eq : kwType = cs!"TYPE" := by decide
theorem kwHelp_eq : kwHelp = cs!"HELP" := by decide
theorem kwUnit_eq : kwUnit = cs!"UNIT" := by decide

theorem inFam_bridge (n t : Str) (l : Line) (h : InFam n t l) : InFamM n t l := by
  cases l with
  | blank => exact h
  | eof => exact h
  | bad e => exact h
  | metadata k name r => exact h
  | sample nh plain =>
    intro s hs
    have := h s hs
    rw [familyNames_eq] at this
    simpa using this

theorem contains_of_mem {l : List Str} {a : Str} (h : a ∈ l) : l.contains a = true := by simpa using h

/-- a violated check makes the sample line fail, whatever state the family block is in -/
theorem smp_fails (P : Params) (st : St) (n t : Str) (s : OSample) (hh : HdrIs n t st.hdr) (heof : st.eof = false)
    (hallowed : s.name ∈ familyNames n t)
    (hchk : isError (preChecks P n (some t) s) = true ∨ isError (postChecks P n (some t) s) = true) :
    isError (stepLine P st (smp s)) = true := by
  rw [stepLine_smp P st s heof, stepSample_allowed]
  · have : isError (sampleChecks P st.hdr st.grp s false) = true := by
      rcases hchk with h | h
      · exact sampleChecks_pre P _ _ _ n hh.1 (by rw [hh.2.1]; exact h)
      · exact sampleChecks_post P _ _ _ n hh.1 (by rw [hh.2.1]; exact h)
    cases hc : sampleChecks P st.hdr st.grp s false with
    | error e => rfl
    | ok gr => rw [hc] at this; cases this
  · rw [hh.2.2, ← familyNames_eq]; exact contains_of_mem hallowed

/-- from the rule vocabulary to the state machine: a block whose offending line fails under the family's header -/
theorem block_of_InBlock (P : Params) (ls : List Line) (n t : Str) (bad : Line)
    (hb : InBlock ls n t [bad])
    (hbad : ∀ st, HdrIs n t st.hdr → st.eof = false → isError (stepLine P st bad) = true) :
    isError (assemble P ls) = true := by
  obtain ⟨pre, mid, post, rfl, hmid⟩ := hb
  apply isError_of_suffix
  intro st
  rw [← kwType_eq]
  have := block_rule P n t mid post bad st (fun l hl => inFam_bridge n t l (hmid l hl)) hbad
  simpa [List.append_assoc] using this

theorem block_of_InBlock2 (P : Params) (ls : List Line) (n t : Str) (l1 l2 : Line)
    (hb : InBlock ls n t [l1, l2])
    (hbad : ∀ st st', HdrIs n t st.hdr → st.eof = false → stepLine P st l1 = .ok st' → isError (stepLine P st' l2) = true) :
    isError (assemble P ls) = true := by
  obtain ⟨pre, mid, post, rfl, hmid⟩ := hb
  apply isError_of_suffix
  intro st
  rw [← kwType_eq]
  have := block_rule2 P n t mid post l1 l2 st (fun l hl => inFam_bridge n t l (hmid l hl)) hbad
  simpa [List.append_assoc] using this

theorem drop_append_left (n suf : Str) : (n ++ suf).drop n.length = suf := by simp

end PromVerif.Lemmas.OM
