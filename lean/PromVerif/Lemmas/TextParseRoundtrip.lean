/-
Document level of the C03 round trip, part 2: `generate_latest` as a list of rendered lines, expressible registries,
`text_roundtrip_samples`.
-/
import PromVerif.Lemmas.TextParseDoc
namespace PromVerif.Lemmas.TextParse
open PromVerif.Py PromVerif.Model PromVerif.Model.Escape PromVerif.Model.ParseCore PromVerif.Model.Validation PromVerif.Model.TextExpo
open PromVerif.Model.TextParse
open PromVerif.Generated.Validation PromVerif.Generated.Expo PromVerif.Lemmas.Escape PromVerif.Lemmas.Scanner

-- generate_latest as a list of rendered lines -----------------------------------------------------------------------------------

/-- `om_samples.setdefault(suffix, []).append(x)` for any payload -/
def addTr {β : Type} (d : List (Str × List β)) (suffix : Str) (x : β) : List (Str × List β) :=
  if d.any (fun e => e.1 == suffix) then d.map (fun e => if e.1 == suffix then (e.1, e.2 ++ [x]) else e)
  else d ++ [(suffix, [x])]

theorem addTrailing_eq (d : List (Str × List Str)) (suffix line : Str) : addTrailing d suffix line = addTr d suffix line := rfl

def mapVals {β γ : Type} (f : β → γ) (e : Str × List β) : Str × List γ := (e.1, e.2.map f)

theorem addTr_map {β γ : Type} (f : β → γ) (d : List (Str × List β)) (suffix : Str) (x : β) :
    (addTr d suffix x).map (mapVals f) = addTr (d.map (mapVals f)) suffix (f x) := by
  unfold addTr
  have hany : (d.map (mapVals f)).any (fun e => e.1 == suffix) = d.any (fun e => e.1 == suffix) := by
    simp [List.any_map, mapVals, Function.comp_def]
  rw [hany]
  by_cases h : d.any (fun e => e.1 == suffix) = true
  · simp only [h, ↓reduceIte, List.map_map]
    apply List.map_congr_left
    intro e _
    simp only [Function.comp, mapVals]
    by_cases he : (e.1 == suffix) = true <;> simp [he]
  · simp [h, mapVals]

theorem insertByKey_map {β γ : Type} (g : List β → List γ) (kv : Str × List β) (l : List (Str × List β)) :
    (insertByKey kv l).map (fun e => (e.1, g e.2)) = insertByKey (kv.1, g kv.2) (l.map (fun e => (e.1, g e.2))) := by
  induction l with
  | nil => rfl
  | cons x xs ih =>
    simp only [insertByKey, List.map_cons]
    by_cases h : strLt kv.1 x.1 = true
    · simp [h]
    · simp [h, ih]

theorem sortByKey_map {β γ : Type} (g : List β → List γ) (l : List (Str × List β)) :
    (sortByKey l).map (fun e => (e.1, g e.2)) = sortByKey (l.map (fun e => (e.1, g e.2))) := by
  unfold sortByKey
  suffices h : ∀ acc : List (Str × List β),
      (l.foldl (fun acc kv => insertByKey kv acc) acc).map (fun e => (e.1, g e.2)) =
      (l.map (fun e => (e.1, g e.2))).foldl (fun acc kv => insertByKey kv acc) (acc.map (fun e => (e.1, g e.2))) by
    simpa using h []
  induction l with
  | nil => intro acc; rfl
  | cons x xs ih =>
    intro acc
    simp only [List.foldl_cons, List.map_cons]
    rw [ih, insertByKey_map]

/-- the trailing-gauge dict with samples as payload -/
def omSamples (fam : Family) : List (Str × List Sample) :=
  fam.samples.foldl (fun d s => match trailingOf fam s with
    | some suf => addTr d suf s
    | none => d) []

/-- the lines one family contributes, as `DocLine`s -/
def famDocLines (fam : Family) : List DocLine :=
  [.help (munge fam.name fam.typ).1 fam.doc, .type (munge fam.name fam.typ).1 (munge fam.name fam.typ).2] ++
    (fam.samples.filter (fun s => (trailingOf fam s).isNone)).map .sample ++
    (sortByKey (omSamples fam)).flatMap (fun e =>
      [.help (fam.name ++ e.1) fam.doc, .type (fam.name ++ e.1) "gauge".toList] ++ e.2.map .sample)

def lineText (l : DocLine) : Str := l.content ++ ['\n']

theorem fold_om (fam : Family) (F : List (Str × List Str) → Sample → List (Str × List Str))
    (hF : ∀ d s, F d s = match trailingOf fam s with
      | some suf => addTrailing d suf (sampleLine s)
      | none => d) :
    fam.samples.foldl F [] = (omSamples fam).map (mapVals sampleLine) := by
  unfold omSamples
  suffices h : ∀ (d : List (Str × List Sample)),
      fam.samples.foldl F (d.map (mapVals sampleLine)) =
      (fam.samples.foldl (fun d s => match trailingOf fam s with
        | some suf => addTr d suf s
        | none => d) d).map (mapVals sampleLine) by
    simpa using h []
  generalize fam.samples = ss
  induction ss with
  | nil => intro d; rfl
  | cons s ss ih =>
    intro d
    simp only [List.foldl_cons]
    rw [hF]
    cases ht : trailingOf fam s with
    | none => exact ih d
    | some suf =>
      simp only []
      rw [addTrailing_eq, ← addTr_map]
      exact ih _

theorem familyLines_eq (fam : Family) : familyLines fam = (famDocLines fam).map lineText := by
  unfold familyLines famDocLines
  simp only []
  rw [fold_om fam]
  case hF => intro d s; rfl
  have hsort : sortByKey ((omSamples fam).map (mapVals sampleLine)) = (sortByKey (omSamples fam)).map (mapVals sampleLine) := by
    have := sortByKey_map (List.map sampleLine) (omSamples fam)
    exact this.symm
  rw [hsort]
  simp only [List.map_append, List.map_cons, List.map_nil, List.map_map, List.flatMap_map, List.map_flatMap]
  have hfun : sampleLine = fun x => sampleContent x ++ ['\n'] := funext sampleLine_eq
  simp only [lineText, DocLine.content, helpLine_eq, typeLine_eq, Function.comp_def, mapVals, List.map_map]
  rw [hfun]

theorem generateLatest_eq (fs : List Family) : generateLatest fs = renderLines (fs.flatMap famDocLines) := by
  unfold generateLatest renderLines
  congr 1
  rw [List.map_map, List.map_flatMap]
  congr 1
  funext fam
  rw [familyLines_eq]
  rfl


-- expressible registries -----------------------------------------------------------------------------------------------------

/-- a family for which the document-level round trip is stated -/
structure FamOK (legacy : Bool) (pyInt : Str → Option Int) (pyFloat : Str → Option Nat) (fam : Family) : Prop where
  /-- one of `METRIC_TYPES` (enforced by `Metric.__init__`) -/
  typ : metricTypes.contains fam.typ = true
  /-- accepted by `_validate_metric_name` (enforced by `Metric.__init__`) -/
  name : metricNameOK legacy fam.name = true
  samples : ∀ s ∈ fam.samples, SampleGood legacy pyInt pyFloat s

/-- a registry content for which the document-level round trip is stated -/
def Expressible (legacy : Bool) (pyInt : Str → Option Int) (pyFloat : Str → Option Nat) (fs : List Family) : Prop :=
  ∀ fam ∈ fs, FamOK legacy pyInt pyFloat fam

def LegacyWord (w : Str) : Prop := ∀ c ∈ w, isLegacyChar c = true
instance (w : Str) : Decidable (LegacyWord w) := by unfold LegacyWord; infer_instance

theorem matchExact_append {n suf : Str} (h : matchExact metricNameRe n = true) (hs : LegacyWord suf) :
    matchExact metricNameRe (n ++ suf) = true := by
  cases n with
  | nil => simp [matchExact] at h
  | cons c cs =>
    simp only [matchExact, Bool.and_eq_true, List.all_eq_true, List.cons_append] at h ⊢
    refine ⟨h.1, fun d hd => ?_⟩
    rcases List.mem_append.mp hd with hd | hd
    · exact h.2 d hd
    · exact hs d hd

theorem metricNameOK_append {legacy : Bool} {n suf : Str} (h : metricNameOK legacy n = true) (hs : LegacyWord suf) :
    metricNameOK legacy (n ++ suf) = true := by
  have hne := metricNameOK_ne_nil h
  have hval := metricNameOK_validate h
  unfold metricNameOK
  unfold validateMetricName at hval ⊢
  have hne' : (n ++ suf).isEmpty = false := by cases n <;> simp at hne ⊢
  have hne'' : n.isEmpty = false := by cases n <;> simp at hne ⊢
  simp only [hne', hne'', Bool.false_eq_true, ↓reduceIte] at hval ⊢
  by_cases hl : legacy = true
  · subst hl
    simp only [Bool.true_and] at hval ⊢
    by_cases hm : matchName metricNameRe full_validate_metric_name n = true
    · have := matchExact_matchName (full := full_validate_metric_name)
        (matchExact_append (matchName_exact_of_fixed rfl hm) hs)
      simp [this, isOk]
    · simp [hm] at hval
  · have : legacy = false := by simpa using hl
    subst this
    simp [isOk]

theorem endsWith_append (n suf : Str) : endsWith suf (n ++ suf) = true := by
  unfold endsWith
  rw [List.reverse_append]
  exact List.isPrefixOf_iff_prefix.mpr (List.prefix_append _ _)

theorem headOK_counter {legacy : Bool} {n : Str} (h : validateMetricName legacy n = .ok ()) :
    HeadOK legacy (n ++ totalSuffix) "counter".toList := by
  refine ⟨n, "counter".toList, fun doc samples => ?_⟩
  unfold buildMetric
  have h1 : ("counter".toList == "counter".toList) = true := by decide
  have h2 : (n ++ totalSuffix).take ((n ++ totalSuffix).length - 6) = n := by
    have : (n ++ totalSuffix).length - 6 = n.length := by simp [totalSuffix]
    rw [this, List.take_left]
  simp only [h1, ↓reduceIte, endsWith_append, h2, h, bind, Except.bind]
  rfl

theorem headOK_plain {legacy : Bool} {n typ : Str} (h : validateMetricName legacy n = .ok ())
    (ht : typ = "gauge".toList ∨ typ = "summary".toList ∨ typ = "histogram".toList) : HeadOK legacy n typ := by
  refine ⟨n, typ, fun doc samples => ?_⟩
  unfold buildMetric
  have h1 : (typ == "counter".toList) = false := by rcases ht with h | h | h <;> (subst h; decide)
  have h2 : (typ == "untyped".toList) = false := by rcases ht with h | h | h <;> (subst h; decide)
  have h3 : metricTypes.contains typ = true := by rcases ht with h | h | h <;> (subst h; decide)
  simp only [h1, h2, h3, Bool.false_eq_true, ↓reduceIte, h, bind, Except.bind, Bool.not_true]
  rfl

/-- the munging chain on the eight metric types -/
theorem munge_cases {n typ : Str} (h : metricTypes.contains typ = true) :
    ∃ suf mtype, munge n typ = (n ++ suf, mtype) ∧ LegacyWord suf ∧ TypWord mtype ∧
      ((mtype = "counter".toList ∧ suf = totalSuffix) ∨ mtype = "gauge".toList ∨ mtype = "summary".toList ∨
        mtype = "histogram".toList ∨ mtype = "untyped".toList) := by
  simp only [metricTypes, List.map_cons, List.map_nil, List.contains_cons, List.contains_nil, Bool.or_false, Bool.or_eq_true,
    beq_iff_eq] at h
  rcases h with h | h | h | h | h | h | h | h <;> subst h
  · exact ⟨totalSuffix, "counter".toList, rfl, by decide, by decide, Or.inl ⟨rfl, rfl⟩⟩
  · exact ⟨[], "gauge".toList, by simp [munge, textMunge], by decide, by decide, Or.inr (Or.inl rfl)⟩
  · exact ⟨[], "summary".toList, by simp [munge, textMunge], by decide, by decide, Or.inr (Or.inr (Or.inl rfl))⟩
  · exact ⟨[], "histogram".toList, by simp [munge, textMunge], by decide, by decide, Or.inr (Or.inr (Or.inr (Or.inl rfl)))⟩
  · exact ⟨[], "histogram".toList, by simp [munge, textMunge], by decide, by decide, Or.inr (Or.inr (Or.inr (Or.inl rfl)))⟩
  · exact ⟨[], "untyped".toList, by simp [munge, textMunge], by decide, by decide, Or.inr (Or.inr (Or.inr (Or.inr rfl)))⟩
  · exact ⟨"_info".toList, "gauge".toList, rfl, by decide, by decide, Or.inr (Or.inl rfl)⟩
  · exact ⟨[], "gauge".toList, by simp [munge, textMunge], by decide, by decide, Or.inr (Or.inl rfl)⟩


theorem trailingOf_mem {fam : Family} {s : Sample} {suf : Str} (h : trailingOf fam s = some suf) : suf ∈ trailingSuffixes :=
  List.mem_of_find?_eq_some h

theorem addTr_mem {β : Type} {P : Str → Prop} {Q : β → Prop} (d : List (Str × List β)) (suf : Str) (x : β)
    (hd : ∀ e ∈ d, P e.1 ∧ ∀ y ∈ e.2, Q y) (hs : P suf) (hx : Q x) :
    ∀ e ∈ addTr d suf x, P e.1 ∧ ∀ y ∈ e.2, Q y := by
  unfold addTr
  split
  · intro e he
    obtain ⟨e0, he0, rfl⟩ := List.mem_map.mp he
    have := hd e0 he0
    split
    · refine ⟨this.1, fun y hy => ?_⟩
      rcases List.mem_append.mp hy with hy | hy
      · exact this.2 y hy
      · simp at hy; subst hy; exact hx
    · exact this
  · intro e he
    rcases List.mem_append.mp he with he | he
    · exact hd e he
    · simp at he; subst he; exact ⟨hs, fun y hy => by simp at hy; subst hy; exact hx⟩

theorem omSamples_mem (fam : Family) : ∀ e ∈ omSamples fam, e.1 ∈ trailingSuffixes ∧ ∀ s ∈ e.2, s ∈ fam.samples := by
  unfold omSamples
  suffices h : ∀ (ss : List Sample) (d : List (Str × List Sample)), (∀ s ∈ ss, s ∈ fam.samples) →
      (∀ e ∈ d, e.1 ∈ trailingSuffixes ∧ ∀ s ∈ e.2, s ∈ fam.samples) →
      ∀ e ∈ ss.foldl (fun d s => match trailingOf fam s with
        | some suf => addTr d suf s
        | none => d) d, e.1 ∈ trailingSuffixes ∧ ∀ s ∈ e.2, s ∈ fam.samples by
    exact h fam.samples [] (fun s hs => hs) (by simp)
  intro ss
  induction ss with
  | nil => intro d _ hd; exact hd
  | cons s ss ih =>
    intro d hss hd
    simp only [List.foldl_cons]
    apply ih _ (fun x hx => hss x (by simp [hx]))
    cases ht : trailingOf fam s with
    | none => exact hd
    | some suf => exact addTr_mem d suf s hd (trailingOf_mem ht) (hss s (by simp))

theorem trailingSuffixes_legacy : ∀ suf ∈ trailingSuffixes, LegacyWord suf := by decide

/-- every line `generate_latest` writes for an expressible family satisfies the per-line conditions -/
theorem famDocLines_ok {legacy : Bool} {pyInt : Str → Option Int} {pyFloat : Str → Option Nat} {fam : Family}
    (h : FamOK legacy pyInt pyFloat fam) : ∀ l ∈ famDocLines fam, LineOK legacy pyInt pyFloat l := by
  obtain ⟨suf, mtype, hm, hsuf, htw, hcases⟩ := munge_cases (n := fam.name) h.typ
  have hname := metricNameOK_append h.name hsuf
  have hval := metricNameOK_validate hname
  have hhead : HeadOK legacy (fam.name ++ suf) mtype := by
    rcases hcases with ⟨h1, h2⟩ | h1 | h1 | h1 | h1
    · subst h1; subst h2; exact headOK_counter (metricNameOK_validate h.name)
    · exact headOK_plain hval (Or.inl h1)
    · exact headOK_plain hval (Or.inr (Or.inl h1))
    · exact headOK_plain hval (Or.inr (Or.inr h1))
    · subst h1; exact headOK_untyped hval
  intro l hl
  unfold famDocLines at hl
  rw [hm] at hl
  simp only [List.mem_append, List.mem_cons, List.mem_map, List.mem_filter, List.mem_flatMap, List.not_mem_nil, or_false] at hl
  rcases hl with ((hl | hl) | ⟨s, ⟨hs, _⟩, hl⟩) | ⟨e, he, hl⟩
  · subst hl; exact hname
  · subst hl; exact ⟨hname, htw, hhead⟩
  · subst hl; exact h.samples s hs
  · have hp := sortByKey_perm (omSamples fam)
    obtain ⟨hsufe, hse⟩ := omSamples_mem fam e (hp.mem_iff.mp he)
    have hne := metricNameOK_append h.name (trailingSuffixes_legacy e.1 hsufe)
    rcases hl with (hl | hl) | ⟨s, hs, hl⟩
    · subst hl; exact hne
    · subst hl; exact ⟨hne, by decide, headOK_plain (metricNameOK_validate hne) (Or.inl rfl)⟩
    · subst hl; exact h.samples s (hse s hs)

/-- the samples in the order `generate_latest` writes them: per family the non-trailing ones, then the `_created` /
`_gcount` / `_gsum` groups in sorted suffix order -/
def exposedSamples (fs : List Family) : List Sample := (fs.flatMap famDocLines).flatMap DocLine.samples

/-- **document-level round trip, samples**: the exposition of an expressible registry parses, and the parsed families
carry exactly the exposed samples, in exposition order -/
theorem text_roundtrip_samples (legacy : Bool) (pyInt : Str → Option Int) (pyFloat : Str → Option Nat) (fs : List Family)
    (h : Expressible legacy pyInt pyFloat fs) :
    ∃ fams, textParse legacy pyInt pyFloat (generateLatest fs) = .ok fams ∧
      flatten fams = (exposedSamples fs).map (expSample pyFloat) := by
  rw [generateLatest_eq]
  apply textParse_docLines
  intro l hl
  obtain ⟨fam, hf, hlf⟩ := List.mem_flatMap.mp hl
  exact famDocLines_ok (h fam hf) l hlf

-- families -----------------------------------------------------------------------------------------------------------------

/-- a HELP/TYPE block of the exposition with its sample lines -/
structure Block where
  name : Str
  typ : Str
  doc : Str
  samples : List Sample

def Block.lines (b : Block) : List DocLine := [.help b.name b.doc, .type b.name b.typ] ++ b.samples.map .sample

/-- the blocks `generate_latest` writes for one family: the munged main block, then one gauge block per trailing suffix -/
def famBlocks (fam : Family) : List Block :=
  ⟨(munge fam.name fam.typ).1, (munge fam.name fam.typ).2, fam.doc, fam.samples.filter (fun s => (trailingOf fam s).isNone)⟩ ::
    (sortByKey (omSamples fam)).map (fun e => ⟨fam.name ++ e.1, "gauge".toList, fam.doc, e.2⟩)

theorem famDocLines_blocks (fam : Family) : famDocLines fam = (famBlocks fam).flatMap Block.lines := by
  unfold famDocLines famBlocks Block.lines
  simp [List.flatMap_map]

/-- the family the parser is documented to build from a block: a counter block loses the `_total` of its name, `untyped`
reads as `unknown`, help up to trailing blanks, the samples of the block -/
def blockFamily (pyFloat : Str → Option Nat) (b : Block) : PFamily :=
  ⟨if b.typ == "counter".toList then b.name.take (b.name.length - 6) else b.name, helpDoc b.doc,
   if b.typ == "untyped".toList then "unknown".toList else b.typ, b.samples.map (expSample pyFloat)⟩

/-- the state after the lines of a block -/
def blockState (pyFloat : Str → Option Nat) (b : Block) : St :=
  { name := b.name, doc := helpDoc b.doc, typ := b.typ, samples := b.samples.map (expSample pyFloat),
    allowed := (allowedSuffixes b.typ).map (b.name ++ ·) }

structure BlockOK (legacy : Bool) (pyInt : Str → Option Int) (pyFloat : Str → Option Nat) (b : Block) : Prop where
  name : metricNameOK legacy b.name = true
  typ : TypWord b.typ
  /-- `build_metric` succeeds and gives the documented family -/
  build : ∀ doc samples, buildMetric legacy b.name doc b.typ samples =
    .ok ⟨if b.typ == "counter".toList then b.name.take (b.name.length - 6) else b.name, doc,
         if b.typ == "untyped".toList then "unknown".toList else b.typ, samples⟩
  samples : ∀ s ∈ b.samples, SampleGood legacy pyInt pyFloat s
  /-- regular: every sample name is in the allowed set of the block's type -/
  regular : ∀ s ∈ b.samples, ((allowedSuffixes b.typ).map (b.name ++ ·)).contains s.name = true

theorem flush_blockState {legacy : Bool} {pyInt : Str → Option Int} {pyFloat : Str → Option Nat} {b : Block}
    (h : BlockOK legacy pyInt pyFloat b) : flush legacy (blockState pyFloat b) = .ok [blockFamily pyFloat b] := by
  unfold flush blockState blockFamily
  have : b.name.isEmpty = false := by
    have := metricNameOK_ne_nil h.name
    cases hn : b.name <;> simp_all
  simp only [this, Bool.false_eq_true, ↓reduceIte, h.build, bind, Except.bind]
  rfl

/-- the sample lines of a regular block are appended to the open family -/
theorem run_block_samples (legacy : Bool) (pyInt : Str → Option Int) (pyFloat : Str → Option Nat) :
    ∀ (ss : List Sample) (st : St) (acc : List PFamily), (∀ s ∈ ss, SampleGood legacy pyInt pyFloat s) →
      (∀ s ∈ ss, st.allowed.contains s.name = true) →
      runLines legacy pyInt pyFloat ((ss.map DocLine.sample).map DocLine.content) st acc =
        .ok ({ st with samples := st.samples ++ ss.map (expSample pyFloat) }, acc) := by
  intro ss
  induction ss with
  | nil => intro st acc _ _; simp [runLines]; rfl
  | cons s ss ih =>
    intro st acc hg ha
    simp only [List.map_cons, runLines, DocLine.content]
    rw [stepLine_sample legacy pyInt pyFloat st (hg s (by simp))]
    have : (!st.allowed.contains s.name) = false := by rw [ha s (by simp)]; rfl
    simp only [this, Bool.false_eq_true, ↓reduceIte, bind, Except.bind, pure, Except.pure, List.append_nil]
    have := ih { st with samples := st.samples ++ [expSample pyFloat s] } acc (fun x hx => hg x (by simp [hx]))
      (fun x hx => ha x (by simp [hx]))
    rw [this]
    simp

/-- **one block**: from any flushable state with a different family name, the lines of a regular block yield the pending
family (if any) and leave the block open -/
theorem run_block (legacy : Bool) (pyInt : Str → Option Int) (pyFloat : Str → Option Nat) (b : Block)
    (hb : BlockOK legacy pyInt pyFloat b) (st : St) (acc out : List PFamily) (hflush : flush legacy st = .ok out)
    (hne : st.name ≠ b.name) :
    runLines legacy pyInt pyFloat (b.lines.map DocLine.content) st acc = .ok (blockState pyFloat b, acc ++ out) := by
  unfold Block.lines
  simp only [List.map_append, List.map_cons, List.map_nil, List.cons_append, List.nil_append, runLines, DocLine.content]
  rw [stepLine_help legacy pyInt pyFloat st hb.name b.doc]
  have h1 : (b.name != st.name) = true := by simpa using Ne.symm hne
  simp only [h1, ↓reduceIte, hflush, bind, Except.bind, pure, Except.pure]
  rw [stepLine_type legacy pyInt pyFloat _ hb.name hb.typ]
  have h2 : (b.name != b.name) = false := by simp
  simp only [h2, Bool.false_eq_true, ↓reduceIte, bind, Except.bind, pure, Except.pure, List.append_nil]
  rw [run_block_samples legacy pyInt pyFloat b.samples _ _ hb.samples hb.regular]
  simp [blockState]


theorem runLines_append (legacy : Bool) (pyInt : Str → Option Int) (pyFloat : Str → Option Nat) (l1 l2 : List Str) :
    ∀ (st : St) (acc : List PFamily), runLines legacy pyInt pyFloat (l1 ++ l2) st acc =
      (runLines legacy pyInt pyFloat l1 st acc >>= fun r => runLines legacy pyInt pyFloat l2 r.1 r.2) := by
  induction l1 with
  | nil => intro st acc; rfl
  | cons l ls ih =>
    intro st acc
    simp only [List.cons_append, runLines]
    cases stepLine legacy pyInt pyFloat st l with
    | error e => rfl
    | ok r => simp only [bind, Except.bind]; exact ih _ _

/-- the end of `text_fd_to_metric_families`: the last open family is yielded -/
def finish (legacy : Bool) (r : PyM (St × List PFamily)) : PyM (List PFamily) := do
  let (st, acc) ← r
  let last ← flush legacy st
  pure (acc ++ last)

theorem textParse_eq_finish (legacy : Bool) (pyInt : Str → Option Int) (pyFloat : Str → Option Nat) (text : Str) :
    textParse legacy pyInt pyFloat text = finish legacy (runLines legacy pyInt pyFloat (splitLines text) St.init []) := rfl

/-- consecutive blocks carry different names -/
def NamesDiffer : List Block → Prop
  | [] => True
  | [_] => True
  | b :: b' :: bs => b.name ≠ b'.name ∧ NamesDiffer (b' :: bs)

instance : (bs : List Block) → Decidable (NamesDiffer bs)
  | [] => isTrue trivial
  | [_] => isTrue trivial
  | b :: b' :: bs =>
    have : Decidable (NamesDiffer (b' :: bs)) := instDecidableNamesDiffer (b' :: bs)
    by unfold NamesDiffer; infer_instance

theorem run_blocks (legacy : Bool) (pyInt : Str → Option Int) (pyFloat : Str → Option Nat) :
    ∀ (bs : List Block) (b : Block) (st : St) (acc out : List PFamily),
      (∀ x ∈ b :: bs, BlockOK legacy pyInt pyFloat x) → NamesDiffer (b :: bs) → flush legacy st = .ok out → st.name ≠ b.name →
      finish legacy (runLines legacy pyInt pyFloat (((b :: bs).flatMap Block.lines).map DocLine.content) st acc) =
        .ok (acc ++ out ++ (b :: bs).map (blockFamily pyFloat)) := by
  intro bs
  induction bs with
  | nil =>
    intro b st acc out hok _ hfl hne
    simp only [List.flatMap_cons, List.flatMap_nil, List.append_nil]
    rw [run_block legacy pyInt pyFloat b (hok b (by simp)) st acc out hfl hne]
    simp only [finish, bind, Except.bind, flush_blockState (hok b (by simp))]
    rfl
  | cons b' bs ih =>
    intro b st acc out hok hnd hfl hne
    rw [List.flatMap_cons, List.map_append, runLines_append,
      run_block legacy pyInt pyFloat b (hok b (by simp)) st acc out hfl hne]
    simp only [bind, Except.bind]
    have := ih b' (blockState pyFloat b) (acc ++ out) [blockFamily pyFloat b] (fun x hx => hok x (by simp [hx])) hnd.2
      (flush_blockState (hok b (by simp))) hnd.1
    rw [this]
    simp


theorem build_explicit {legacy : Bool} {name typ : Str}
    (hv : validateMetricName legacy (if typ == "counter".toList then name.take (name.length - 6) else name) = .ok ())
    (hc : typ = "counter".toList → endsWith totalSuffix name = true)
    (ht : typ = "counter".toList ∨ typ = "gauge".toList ∨ typ = "summary".toList ∨ typ = "histogram".toList ∨
      typ = "untyped".toList) :
    ∀ doc samples, buildMetric legacy name doc typ samples =
      .ok ⟨if typ == "counter".toList then name.take (name.length - 6) else name, doc,
           if typ == "untyped".toList then "unknown".toList else typ, samples⟩ := by
  intro doc samples
  unfold buildMetric
  have hm : metricTypes.contains (if typ == "untyped".toList then "unknown".toList else typ) = true := by
    rcases ht with h | h | h | h | h <;> (subst h; decide)
  by_cases hcnt : typ = "counter".toList
  · subst hcnt
    have h1 : ("counter".toList == "counter".toList) = true := by decide
    simp only [h1, ↓reduceIte, hc rfl] at hv ⊢
    simp only [hv, bind, Except.bind, hm, Bool.not_true, Bool.false_eq_true, ↓reduceIte]
    rfl
  · have h1 : (typ == "counter".toList) = false := by simpa using hcnt
    simp only [h1, Bool.false_eq_true, ↓reduceIte] at hv ⊢
    simp only [hv, bind, Except.bind, hm, Bool.not_true, Bool.false_eq_true, ↓reduceIte]
    rfl

/-- regular family: every sample name lies in the allowed set of the block that carries it -/
def RegularFam (fam : Family) : Prop :=
  ∀ b ∈ famBlocks fam, ∀ s ∈ b.samples, ((allowedSuffixes b.typ).map (b.name ++ ·)).contains s.name = true

instance (fam : Family) : Decidable (RegularFam fam) := by unfold RegularFam; infer_instance

theorem famBlocks_ok {legacy : Bool} {pyInt : Str → Option Int} {pyFloat : Str → Option Nat} {fam : Family}
    (h : FamOK legacy pyInt pyFloat fam) (hr : RegularFam fam) : ∀ b ∈ famBlocks fam, BlockOK legacy pyInt pyFloat b := by
  obtain ⟨suf, mtype, hm, hsuf, htw, hcases⟩ := munge_cases (n := fam.name) h.typ
  have hname := metricNameOK_append h.name hsuf
  intro b hb
  have hreg := hr b hb
  unfold famBlocks at hb
  rw [hm] at hb
  rcases List.mem_cons.mp hb with hb | hb
  · subst hb
    refine ⟨hname, htw, ?_, fun s hs => h.samples s (List.mem_filter.mp hs).1, hreg⟩
    apply build_explicit
    · rcases hcases with ⟨h1, h2⟩ | h1 | h1 | h1 | h1
      · subst h1; subst h2
        have : (fam.name ++ totalSuffix).take ((fam.name ++ totalSuffix).length - 6) = fam.name := by
          have : (fam.name ++ totalSuffix).length - 6 = fam.name.length := by simp [totalSuffix]
          rw [this, List.take_left]
        simp only [beq_self_eq_true, ↓reduceIte, this]
        exact metricNameOK_validate h.name
      all_goals
        have hne : (mtype == "counter".toList) = false := by subst h1; decide
        simp only [hne, Bool.false_eq_true, ↓reduceIte]
        exact metricNameOK_validate hname
    · intro hc
      rcases hcases with ⟨_, h2⟩ | h1 | h1 | h1 | h1
      · subst h2; exact endsWith_append _ _
      all_goals
        have hc' : mtype = "counter".toList := hc
        rw [h1] at hc'
        exact absurd hc' (by decide)
    · rcases hcases with ⟨h1, _⟩ | h1 | h1 | h1 | h1
      · exact Or.inl h1
      · exact Or.inr (Or.inl h1)
      · exact Or.inr (Or.inr (Or.inl h1))
      · exact Or.inr (Or.inr (Or.inr (Or.inl h1)))
      · exact Or.inr (Or.inr (Or.inr (Or.inr h1)))
  · obtain ⟨e, he, rfl⟩ := List.mem_map.mp hb
    have hp := sortByKey_perm (omSamples fam)
    obtain ⟨hsufe, hse⟩ := omSamples_mem fam e (hp.mem_iff.mp he)
    have hne := metricNameOK_append h.name (trailingSuffixes_legacy e.1 hsufe)
    refine ⟨hne, (show TypWord "gauge".toList by decide), ?_, fun s hs => h.samples s (hse s hs), hreg⟩
    apply build_explicit
    · have : ("gauge".toList == "counter".toList) = false := by decide
      simp only [this, Bool.false_eq_true, ↓reduceIte]
      exact metricNameOK_validate hne
    · intro hc; exact absurd (show "gauge".toList = "counter".toList from hc) (by decide)
    · exact Or.inr (Or.inl rfl)

/-- the documented family list: per exposed family the munged main family, then the trailing gauge families -/
def mungeText (pyFloat : Str → Option Nat) (fs : List Family) : List PFamily :=
  (fs.flatMap famBlocks).map (blockFamily pyFloat)

/-- **document-level round trip, families**: for an expressible registry whose families are regular (sample names within
the suffix set of the written type) and whose consecutive written family names differ, the exposition parses to exactly
the documented families -/
theorem text_roundtrip_families (legacy : Bool) (pyInt : Str → Option Int) (pyFloat : Str → Option Nat) (fs : List Family)
    (h : Expressible legacy pyInt pyFloat fs) (hr : ∀ fam ∈ fs, RegularFam fam) (hd : NamesDiffer (fs.flatMap famBlocks)) :
    textParse legacy pyInt pyFloat (generateLatest fs) = .ok (mungeText pyFloat fs) := by
  have hlines : fs.flatMap famDocLines = (fs.flatMap famBlocks).flatMap Block.lines := by
    rw [List.flatMap_assoc]
    congr 1; funext fam; exact famDocLines_blocks fam
  have hok : ∀ b ∈ fs.flatMap famBlocks, BlockOK legacy pyInt pyFloat b := by
    intro b hb
    obtain ⟨fam, hf, hbf⟩ := List.mem_flatMap.mp hb
    exact famBlocks_ok (h fam hf) (hr fam hf) b hbf
  have hlok : ∀ l ∈ fs.flatMap famDocLines, LineOK legacy pyInt pyFloat l := by
    intro l hl
    obtain ⟨fam, hf, hlf⟩ := List.mem_flatMap.mp hl
    exact famDocLines_ok (h fam hf) l hlf
  have hsplit : splitLines (renderLines (fs.flatMap famDocLines)) = (fs.flatMap famDocLines).map DocLine.content := by
    unfold renderLines
    apply splitLines_flatten
    intro c hc
    obtain ⟨l, hl, e⟩ := List.mem_map.mp hc
    rw [← e]; exact newline_not_mem_content (hlok l hl)
  rw [generateLatest_eq, textParse_eq_finish, hsplit, hlines]
  unfold mungeText
  cases hbs : fs.flatMap famBlocks with
  | nil => rfl
  | cons b bs =>
    rw [hbs] at hok hd
    have hb := hok b (by simp)
    have := run_blocks legacy pyInt pyFloat bs b St.init [] [] hok hd rfl
      (fun e => metricNameOK_ne_nil hb.name e.symm)
    rw [this]; rfl

end PromVerif.Lemmas.TextParse
