/-
C05 lemmas, part 12: the exact KIND sequence of the text exposition — per family HELP, TYPE, the main samples, then per
trailing-gauge group (groups sorted by suffix) HELP, TYPE, that group's samples.
-/
import PromVerif.Lemmas.LinesOMDoc

namespace PromVerif.Lemmas.Lines
open PromVerif.Py PromVerif.Model PromVerif.Model.Escape PromVerif.Model.Validation
open PromVerif.Generated.Expo PromVerif.Generated.Validation
open PromVerif.Spec.LineGrammar hiding Str
open PromVerif.Model.TextExpo (trailingOf addTrailing familyLines munge helpLine typeLine)

/-- count one more occurrence of `k` in an insertion-ordered histogram -/
def bump (d : List (Str × Nat)) (k : Str) : List (Str × Nat) :=
  if d.any (fun e => e.1 == k) then d.map (fun e => if e.1 == k then (e.1, e.2 + 1) else e) else d ++ [(k, 1)]

/-- occurrences of each string, in order of first appearance -/
def histo (ks : List Str) : List (Str × Nat) := ks.foldl bump []

/-- the sizes of the trailing-gauge groups of a family, groups sorted by suffix (Python `sorted(om_samples.items())`):
how many samples are named `family name ++ suffix` for each of `_created`, `_gsum`, `_gcount` that occurs -/
def textGroups (fam : Family) : List Nat :=
  (sortByKey (histo (fam.samples.filterMap (trailingOf fam)))).map (·.2)

/-- the kinds of line the text format owes a family, in order -/
def textKinds (fam : Family) : List Kind :=
  [.help, .type] ++ List.replicate (fam.samples.filter (fun s => (trailingOf fam s).isNone)).length .sample ++
    (textGroups fam).flatMap (fun n => [Kind.help, Kind.type] ++ List.replicate n Kind.sample)

def lenMap (d : List (Str × List Str)) : List (Str × Nat) := d.map (fun e => (e.1, e.2.length))

theorem lenMap_addTrailing (d : List (Str × List Str)) (suf line : Str) :
    lenMap (addTrailing d suf line) = bump (lenMap d) suf := by
  unfold addTrailing bump
  have hany : (lenMap d).any (fun e => e.1 == suf) = d.any (fun e => e.1 == suf) := by
    simp [lenMap, List.any_map, Function.comp_def]
  rw [hany]
  split
  · simp only [lenMap, List.map_map]
    apply List.map_congr_left
    intro e _
    simp only [Function.comp]
    split <;> simp
  · simp [lenMap]

theorem lenMap_omFold (fam : Family) (d : List (Str × List Str)) (ss : List Sample) :
    lenMap (omFold fam d ss) = (ss.filterMap (trailingOf fam)).foldl bump (lenMap d) := by
  induction ss generalizing d with
  | nil => rfl
  | cons s r ih =>
    simp only [omFold, List.foldl_cons] at ih ⊢
    rw [ih]
    cases h : trailingOf fam s with
    | none =>
      have e : omStep fam d s = d := by simp [omStep, h]
      simp [e, h]
    | some suf =>
      have e : omStep fam d s = addTrailing d suf (TextExpo.sampleLine s) := by simp [omStep, h]
      simp [e, h, lenMap_addTrailing]

theorem lenMap_insertByKey (kv : Str × List Str) (l : List (Str × List Str)) :
    lenMap (insertByKey kv l) = insertByKey (kv.1, kv.2.length) (lenMap l) := by
  induction l with
  | nil => rfl
  | cons y ys ih =>
    simp only [insertByKey, lenMap, List.map_cons]
    split
    · rfl
    · simp only [List.map_cons]; exact congrArg _ ih

theorem lenMap_foldl_insert (l acc : List (Str × List Str)) :
    lenMap (l.foldl (fun acc kv => insertByKey kv acc) acc) =
      (lenMap l).foldl (fun acc kv => insertByKey kv acc) (lenMap acc) := by
  induction l generalizing acc with
  | nil => rfl
  | cons y ys ih =>
    simp only [List.foldl_cons, ih, lenMap_insertByKey]
    rfl

theorem lenMap_sortByKey (d : List (Str × List Str)) : lenMap (sortByKey d) = sortByKey (lenMap d) := by
  simp only [sortByKey]
  exact lenMap_foldl_insert d []

theorem LinesOf.replicate {om : Bool} {k : Kind} (ls : List Str) (h : ∀ l ∈ ls, LineOf om k l) :
    LinesOf om ls (List.replicate ls.length k) := by
  induction ls with
  | nil => trivial
  | cons x xs ih => exact ⟨h x (by simp), ih (fun l hl => h l (by simp [hl]))⟩

theorem LinesOf.map_replicate {om : Bool} {k : Kind} {α : Type} (xs : List α) (f : α → Str)
    (h : ∀ x ∈ xs, LineOf om k (f x)) : LinesOf om (xs.map f) (List.replicate xs.length k) := by
  have := LinesOf.replicate (om := om) (k := k) (xs.map f) (by
    intro l hl
    obtain ⟨x, hx, rfl⟩ := List.mem_map.mp hl
    exact h x hx)
  simpa using this

/-- the lines the text exposition writes for a family, with their kinds in order -/
theorem familyLines_kinds (fam : Family) (h : familyOKText fam = true) :
    LinesOf false (familyLines fam) (textKinds fam) := by
  simp only [familyOKText, Bool.and_eq_true, List.all_eq_true] at h
  obtain ⟨ht, hs⟩ := h
  have htyp := munge_type_ok fam.typ (by simpa using ht)
  rw [familyLines_eq]
  unfold textKinds
  refine LinesOf.append (LinesOf.append ?_ ?_) ?_
  · exact ⟨text_helpLine_ok _ _ _, text_typeLine_ok _ _ (by rw [munge_snd]; exact htyp.1), trivial⟩
  · apply LinesOf.map_replicate
    intro s hsm
    exact text_sampleLine_lineOf s (hs s (List.mem_filter.mp hsm).1)
  · -- trailing groups
    have hinv := omInv_fold fam [] fam.samples (by intro e he; simp at he) (fun s hs => hs)
    have hgroups : textGroups fam = (sortByKey (omFold fam [] fam.samples)).map (fun e => e.2.length) := by
      unfold textGroups histo
      have h1 := lenMap_omFold fam [] fam.samples
      have h2 := lenMap_sortByKey (omFold fam [] fam.samples)
      simp only [lenMap, List.map_nil] at h1
      rw [← h1]
      have : sortByKey (List.map (fun e => (e.1, e.2.length)) (omFold fam [] fam.samples)) =
          lenMap (sortByKey (omFold fam [] fam.samples)) := h2.symm
      rw [this]
      simp [lenMap, List.map_map, Function.comp_def]
    rw [hgroups, List.flatMap_map]
    have hall : ∀ e ∈ sortByKey (omFold fam [] fam.samples),
        LinesOf false ([helpLine (fam.name ++ e.1) fam.doc true, typeLine (fam.name ++ e.1) "gauge".toList] ++ e.2)
          ([Kind.help, Kind.type] ++ List.replicate e.2.length Kind.sample) := by
      intro e he
      have hin : e ∈ omFold fam [] fam.samples := (mem_sortByKey e _).mp he
      obtain ⟨_, hlines⟩ := hinv e hin
      refine LinesOf.append ⟨text_helpLine_ok _ _ _, text_typeLine_ok _ _ (by decide), trivial⟩ ?_
      apply LinesOf.replicate
      intro l hl
      obtain ⟨s, hs1, rfl⟩ := hlines l hl
      exact text_sampleLine_lineOf s (hs s hs1)
    have := LinesOf.flatten (om := false) (sortByKey (omFold fam [] fam.samples))
      (fun e => [helpLine (fam.name ++ e.1) fam.doc true, typeLine (fam.name ++ e.1) "gauge".toList] ++ e.2)
      (fun e => [Kind.help, Kind.type] ++ List.replicate e.2.length Kind.sample) hall
    rw [← List.flatMap_def] at this
    exact this

end PromVerif.Lemmas.Lines
