/-
`_accumulate_metrics` on one metric: the `samples` dict after the sample loop, per branch, as a finite map
(`AL.get?` of every key, and keys without duplicates).  Counter/summary branch and the gauge chain.
-/
import PromVerif.Lemmas.MultiprocessDict
import PromVerif.Spec.Multiprocess

namespace PromVerif.Model.Multiprocess
open PromVerif.Py PromVerif.Generated.Multiprocess
open PromVerif.Spec.Multiprocess (aggSum aggPick aggMostRecent normTs)
set_option autoImplicit false

variable {V B : Type}

/-! ### `+=` into a defaultdict(float) -/

/-- the fold `o ↦ some (o.getD 0 + v)` is the sum of the values, absent when there are none -/
theorem foldl_plus {α : Type} (vo : VOps V) (g : α → V) (xs : List α) (a : V) :
    xs.foldl (fun (o : Option V) x => some (vo.add (o.getD vo.zero) (g x))) (some a)
      = some ((xs.map g).foldl vo.add a) := by
  induction xs generalizing a with
  | nil => rfl
  | cons v r ih => simp only [List.foldl_cons, Option.getD_some, List.map_cons]; exact ih _

theorem foldl_plus_none {α : Type} (vo : VOps V) (g : α → V) (xs : List α) :
    xs.foldl (fun (o : Option V) x => some (vo.add (o.getD vo.zero) (g x))) none
      = match xs.map g with | [] => none | v :: r => some (aggSum vo (v :: r)) := by
  cases xs with
  | nil => rfl
  | cons v r => simp only [List.foldl_cons, Option.getD_none, aggSum, List.map_cons]; exact foldl_plus vo g r _

/-- key under which the counter/summary branch (and the `else` of the histogram scan) files a sample -/
def plainKeyOf (s : RSample V) : SKey := (s.name, s.labels)

theorem plainStep_get? (vo : VOps V) (acc : Acc V B) (s : RSample V) (k : SKey) :
    AL.get? (plainStep vo acc s.name s.labels s.value).samples k
      = if plainKeyOf s = k then some (vo.add ((AL.get? acc.samples k).getD vo.zero) s.value) else AL.get? acc.samples k := by
  unfold plainStep plainKeyOf
  simp only [AL.get?_set, AL.getD_eq]
  split
  · next h => subst h; rfl
  · rfl

theorem plainStep_nodup (vo : VOps V) (acc : Acc V B) (n : Str) (ls : Labels) (v : V)
    (h : (AL.keys acc.samples).Nodup) : (AL.keys (plainStep vo acc n ls v).samples).Nodup := by
  unfold plainStep; exact AL.nodup_set _ _ _ h

/-- counter / summary branch: every series holds the sum of its samples in order; no other series exists -/
theorem plain_fold_get? (vo : VOps V) (samples : List (RSample V)) (k : SKey) :
    AL.get? (samples.foldl (fun (acc : Acc V B) s => plainStep vo acc s.name s.labels s.value) Acc.empty).samples k
      = match (samples.filter (fun s => plainKeyOf s = k)).map (·.value) with
        | [] => none
        | v :: r => some (aggSum vo (v :: r)) := by
  have h := foldl_proj (fun (acc : Acc V B) s => plainStep vo acc s.name s.labels s.value) plainKeyOf
    (fun acc k => AL.get? acc.samples k) (fun o s => some (vo.add (o.getD vo.zero) s.value))
    (fun s x k => plainStep_get? vo s x k) samples Acc.empty k
  rw [h]
  simp only [Acc.empty, AL.get?_nil]
  exact foldl_plus_none vo (fun (s : RSample V) => s.value) _

theorem plain_fold_nodup (vo : VOps V) (samples : List (RSample V)) :
    (AL.keys (samples.foldl (fun (acc : Acc V B) s => plainStep vo acc s.name s.labels s.value) Acc.empty).samples).Nodup :=
  foldl_inv (fun (acc : Acc V B) s => plainStep vo acc s.name s.labels s.value)
    (fun acc => (AL.keys acc.samples).Nodup) (fun s x h => plainStep_nodup vo s _ _ _ h) samples Acc.empty
    (by simp [Acc.empty, AL.keys])

/-! ### the gauge chain -/

/-- `without_pid_key` -/
def wkeyOf (s : RSample V) : SKey := (s.name, s.labels.filter (fun l => l.1 ≠ pidLabel))

/-- `float(timestamp or 0)` on a gauge sample (which always carries a float) -/
def tsOf (vo : VOps V) (s : RSample V) : V :=
  match s.ts with
  | some t => if tsOrZero then (if vo.truthy t then t else vo.zero) else t
  | none => vo.zero

/-- the gauge step without the error plumbing -/
def gaugeStepP (vo : VOps V) (rule : Option GaugeRule) (acc : Acc V B) (s : RSample V) : Acc V B :=
  match rule with
  | some (.setdefaultCmp op) =>
    match AL.get? acc.samples (wkeyOf s) with
    | some c => if cmpWith vo.lt vo.le op s.value c then { acc with samples := AL.set acc.samples (wkeyOf s) s.value } else acc
    | none => { acc with samples := AL.set acc.samples (wkeyOf s) s.value }
  | some .plusEq =>
    { acc with samples := AL.set acc.samples (wkeyOf s) (vo.add (AL.getD acc.samples (wkeyOf s) vo.zero) s.value) }
  | some (.tsCmp op) =>
    let cur := AL.getD acc.tstamps (wkeyOf s) vo.zero
    if cmpWith vo.lt vo.le op cur (tsOf vo s) then
      { acc with samples := AL.set acc.samples (wkeyOf s) s.value,
                 tstamps := AL.set (AL.set acc.tstamps (wkeyOf s) cur) (wkeyOf s) (tsOf vo s) }
    else { acc with tstamps := AL.set acc.tstamps (wkeyOf s) cur }
  | none => { acc with samples := AL.set acc.samples (s.name, s.labels) s.value }

theorem set_set_same {κ β : Type} [DecidableEq κ] (d : List (κ × β)) (k : κ) (v w : β) :
    AL.set (AL.set d k v) k w = AL.set d k w := by
  induction d with
  | nil => simp [AL.set]
  | cons x r ih =>
    obtain ⟨k', v'⟩ := x
    by_cases h : k' = k
    · simp [AL.set, h]
    · simp [AL.set, h, ih]

theorem gaugeStep_eq (vo : VOps V) (rule : Option GaugeRule) (acc : Acc V B) (s : RSample V)
    (hts : s.ts.isSome = true) : gaugeStep vo rule acc s = .ok (gaugeStepP vo rule acc s) := by
  obtain ⟨t, ht⟩ := Option.isSome_iff_exists.mp hts
  unfold gaugeStep gaugeStepP wkeyOf
  cases rule with
  | none => rfl
  | some r =>
    cases r with
    | plusEq => rfl
    | setdefaultCmp op =>
      simp only
      cases hg : AL.get? acc.samples (s.name, List.filter (fun l => decide (l.fst ≠ pidLabel)) s.labels) with
      | some c => simp only; split <;> simp_all
      | none =>
        simp only
        split
        · rw [set_set_same]
        · rfl
    | tsCmp op =>
      have e : tsValue vo s.ts = .ok (tsOf vo s) := by
        simp only [tsValue, tsOf, ht]
      simp only [e, bind, Except.bind, pure, Except.pure]
      rw [apply_ite Except.ok]

/-- the gauge branch of `accumulateSamples` is the pure fold -/
theorem accumulate_gauge_ok (vo : VOps V) (bo : BOps B) [DecidableEq B] (m : Metric V) (mode : Str)
    (htyp : m.typ = gaugeType) (hmode : m.mode = some mode) (hts : ∀ s ∈ m.samples, s.ts.isSome = true) :
    accumulateSamples vo bo m = .ok (m.samples.foldl (gaugeStepP (B := B) vo (ruleOf mode)) Acc.empty).samples := by
  unfold accumulateSamples
  rw [if_pos htyp]
  cases hs : m.samples with
  | nil => rfl
  | cons s r =>
    simp only [hmode]
    have := foldlM_ok (gaugeStep (B := B) vo (ruleOf mode)) (gaugeStepP vo (ruleOf mode)) (s :: r) Acc.empty
      (fun s' x hx => gaugeStep_eq vo _ s' x (hts x (hs ▸ hx)))
    rw [this]; rfl

theorem gaugeStepP_nodup (vo : VOps V) (rule : Option GaugeRule) (acc : Acc V B) (s : RSample V)
    (h : (AL.keys acc.samples).Nodup) : (AL.keys (gaugeStepP vo rule acc s).samples).Nodup := by
  unfold gaugeStepP
  cases rule with
  | none => exact AL.nodup_set _ _ _ h
  | some r =>
    cases r with
    | plusEq => exact AL.nodup_set _ _ _ h
    | setdefaultCmp op =>
      simp only
      split
      · split
        · exact AL.nodup_set _ _ _ h
        · exact h
      · exact AL.nodup_set _ _ _ h
    | tsCmp op =>
      simp only
      split
      · exact AL.nodup_set _ _ _ h
      · exact h

theorem gauge_fold_nodup (vo : VOps V) (rule : Option GaugeRule) (samples : List (RSample V)) :
    (AL.keys (samples.foldl (gaugeStepP (B := B) vo rule) Acc.empty).samples).Nodup :=
  foldl_inv (gaugeStepP (B := B) vo rule)
    (fun acc => (AL.keys acc.samples).Nodup) (fun s x h => gaugeStepP_nodup vo rule s x h) samples Acc.empty
    (by simp [Acc.empty, AL.keys])

/-! min / max -/

theorem foldl_pick {α : Type} (better : V → V → Bool) (g : α → V) (xs : List α) (a : V) :
    xs.foldl (fun (o : Option V) x => match o with
      | some c => if better (g x) c then some (g x) else some c
      | none => some (g x)) (some a) = some ((xs.map g).foldl (fun c x => if better x c then x else c) a) := by
  induction xs generalizing a with
  | nil => rfl
  | cons v r ih =>
    simp only [List.foldl_cons, List.map_cons]
    by_cases h : better (g v) a = true
    · simp only [h, if_true]; exact ih _
    · simp only [h]; exact ih _

theorem foldl_pick_none {α : Type} (better : V → V → Bool) (g : α → V) (xs : List α) :
    xs.foldl (fun (o : Option V) x => match o with
      | some c => if better (g x) c then some (g x) else some c
      | none => some (g x)) none = aggPick better (xs.map g) := by
  cases xs with
  | nil => rfl
  | cons v r => simp only [List.foldl_cons, aggPick, List.map_cons]; exact foldl_pick better g r (g v)

theorem gauge_cmp_get? (vo : VOps V) (op : Cmp) (samples : List (RSample V)) (k : SKey) :
    AL.get? (samples.foldl (gaugeStepP (B := B) vo (some (.setdefaultCmp op))) Acc.empty).samples k
      = aggPick (fun x c => cmpWith vo.lt vo.le op x c) ((samples.filter (fun s => wkeyOf s = k)).map (·.value)) := by
  have h := foldl_proj (gaugeStepP (B := B) vo (some (.setdefaultCmp op))) wkeyOf
    (fun acc k => AL.get? acc.samples k)
    (fun o s => match o with
      | some c => if cmpWith vo.lt vo.le op s.value c then some s.value else some c
      | none => some s.value)
    (by
      intro acc x k
      unfold gaugeStepP
      simp only
      by_cases hk : wkeyOf x = k
      · subst hk
        simp only [if_true]
        cases hg : AL.get? acc.samples (wkeyOf x) with
        | some c => simp only; split <;> simp [AL.get?_set_self, hg]
        | none => simp [AL.get?_set_self]
      · simp only [hk, if_false]
        split
        · split
          · exact AL.get?_set_ne _ _ _ _ hk
          · rfl
        · exact AL.get?_set_ne _ _ _ _ hk)
    samples Acc.empty k
  rw [h]
  simp only [Acc.empty, AL.get?_nil]
  exact foldl_pick_none (fun x c => cmpWith vo.lt vo.le op x c) (fun (s : RSample V) => s.value) _

/-! sum -/

theorem gauge_sum_get? (vo : VOps V) (samples : List (RSample V)) (k : SKey) :
    AL.get? (samples.foldl (gaugeStepP (B := B) vo (some .plusEq)) Acc.empty).samples k
      = match (samples.filter (fun s => wkeyOf s = k)).map (·.value) with
        | [] => none
        | v :: r => some (aggSum vo (v :: r)) := by
  have h := foldl_proj (gaugeStepP (B := B) vo (some .plusEq)) wkeyOf
    (fun acc k => AL.get? acc.samples k) (fun o s => some (vo.add (o.getD vo.zero) s.value))
    (by
      intro acc x k
      unfold gaugeStepP
      simp only [AL.get?_set, AL.getD_eq]
      split
      · next h => subst h; rfl
      · rfl)
    samples Acc.empty k
  rw [h]
  simp only [Acc.empty, AL.get?_nil]
  exact foldl_plus_none vo (fun (s : RSample V) => s.value) _

/-! all / liveall -/

theorem foldl_last {α β : Type} (g : α → β) (xs : List α) (o : Option β) :
    xs.foldl (fun (_ : Option β) x => some (g x)) o = match (xs.map g).getLast? with | some v => some v | none => o := by
  induction xs generalizing o with
  | nil => rfl
  | cons v r ih =>
    simp only [List.foldl_cons, List.map_cons]
    rw [ih]
    cases r with
    | nil => rfl
    | cons w r' =>
      simp only [List.map_cons, List.getLast?_cons_cons]
      cases h : (g w :: List.map g r').getLast? with
      | none => simp at h
      | some x => rfl

theorem gauge_all_get? (vo : VOps V) (samples : List (RSample V)) (k : SKey) :
    AL.get? (samples.foldl (gaugeStepP (B := B) vo none) Acc.empty).samples k
      = ((samples.filter (fun s => plainKeyOf s = k)).map (·.value)).getLast? := by
  have h := foldl_proj (gaugeStepP (B := B) vo none) plainKeyOf
    (fun acc k => AL.get? acc.samples k) (fun _ s => some s.value)
    (by
      intro acc x k
      unfold gaugeStepP plainKeyOf
      simp only [AL.get?_set])
    samples Acc.empty k
  rw [h]
  simp only [Acc.empty, AL.get?_nil]
  rw [foldl_last (fun (s : RSample V) => s.value)]
  cases ((samples.filter (fun s => plainKeyOf s = k)).map (·.value)).getLast? <;> rfl

/-! mostrecent -/

theorem gauge_recent_get? (vo : VOps V) (op : Cmp) (samples : List (RSample V)) (k : SKey) :
    AL.get? (samples.foldl (gaugeStepP (B := B) vo (some (.tsCmp op))) Acc.empty).samples k
      = ((samples.filter (fun s => wkeyOf s = k)).foldl
          (fun (st : Option V × V) s =>
            if cmpWith vo.lt vo.le op st.2 (tsOf vo s) then (some s.value, tsOf vo s) else st) (none, vo.zero)).1 := by
  have h := foldl_proj (gaugeStepP (B := B) vo (some (.tsCmp op))) wkeyOf
    (fun acc k => (AL.get? acc.samples k, AL.getD acc.tstamps k vo.zero))
    (fun (st : Option V × V) s =>
      if cmpWith vo.lt vo.le op st.2 (tsOf vo s) then (some s.value, tsOf vo s) else st)
    (by
      intro acc x k
      unfold gaugeStepP
      simp only
      by_cases hk : wkeyOf x = k
      · subst hk
        simp only [if_true]
        split
        · simp [AL.get?_set_self, AL.getD_eq]
        · simp [AL.get?_set_self, AL.getD_eq]
      · simp only [hk, if_false]
        split
        · simp [AL.get?_set_ne _ _ _ _ hk, AL.getD_eq]
        · simp [AL.get?_set_ne _ _ _ _ hk, AL.getD_eq])
    samples Acc.empty k
  have h' := congrArg Prod.fst h
  simp only [Acc.empty, AL.get?_nil, AL.getD_eq, Option.getD_none] at h'
  exact h'

end PromVerif.Model.Multiprocess
