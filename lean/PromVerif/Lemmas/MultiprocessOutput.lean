/-
The final conversion `Sample(name_, dict(labels), value)` neither merges nor alters series: every key that gets a value
carries a label list with pairwise different names, on which `dict` is the identity.
-/
import PromVerif.Lemmas.MultiprocessKeys

namespace PromVerif.Props.C08
open PromVerif.Py PromVerif.Generated.Multiprocess
open PromVerif.Model.Multiprocess PromVerif.Spec.Multiprocess
set_option autoImplicit false

variable {V B : Type}

theorem nodup_filter_names (ls : Labels) (p : Str × Str → Bool) (h : (ls.map (·.1)).Nodup) :
    ((ls.filter p).map (·.1)).Nodup :=
  List.Nodup.sublist ((List.filter_sublist).map _) h

theorem withoutLe_append_nodup (c : Contrib V) (t : Str) (h : (c.key.labels.map (·.1)).Nodup) :
    ((withoutLe c ++ [("le".toList, t)]).map (·.1)).Nodup := by
  unfold withoutLe
  rw [List.map_append, List.nodup_append]
  refine ⟨nodup_filter_names _ _ h, by simp, ?_⟩
  intro a ha b hb
  simp only [List.map_cons, List.map_nil, List.mem_singleton] at hb
  subst hb
  obtain ⟨l, hl, rfl⟩ := List.mem_map.mp ha
  have := (List.mem_filter.mp hl).2
  simpa using this

theorem aggMostRecent_some_ne_nil (vo : VOps V) (xs : List (V × V)) (r : V) (h : aggMostRecent vo xs = some r) : xs ≠ [] := by
  intro e; subst e; cases h

theorem sumValue_some_key (vo : VOps V) (cs : List (Contrib V)) (k : SKey) (r : V) (h : sumValue vo cs k = some r) :
    ∃ c ∈ cs, plainKey c = k := by
  apply (valuesFor_ne_nil plainKey cs k).mp
  intro e
  unfold sumValue at h
  rw [e] at h; cases h

/-- every key of the bucket series is built from a contributed label set -/
theorem bucket_key_shape (vo : VOps V) (bo : BOps B) [DecidableEq B] (mn : Str) (cs : List (Contrib V)) (k : SKey)
    (hk : k ∈ AL.keys (bucketSeries vo bo mn cs)) :
    ∃ c ∈ cs, k.2 = withoutLe c ∨ ∃ t, k.2 = withoutLe c ++ [("le".toList, t)] := by
  unfold bucketSeries at hk
  simp only at hk
  have hk' : k ∈ (groups (bucketContribs bo cs)).flatMap
      (fun L => AL.keys (groupSeries vo bo mn (bucketContribs bo cs) L)) := by
    unfold AL.keys at hk ⊢
    rw [List.map_flatMap] at hk
    exact hk
  obtain ⟨L, hL, hkL⟩ := List.mem_flatMap.mp hk'
  have := (mem_distinct _ _).mp hL
  obtain ⟨x, hx, rfl⟩ := List.mem_map.mp this
  obtain ⟨c, hc, t, b, _, _, e⟩ := mem_bucketContribs bo cs x hx
  refine ⟨c, hc, ?_⟩
  rw [groupSeries_keys] at hkL
  rcases List.mem_append.mp hkL with h | h
  · obtain ⟨b', _, rfl⟩ := List.mem_map.mp h
    exact Or.inr ⟨bo.fmt b', by rw [e]⟩
  · simp only [List.mem_singleton] at h
    exact Or.inl (by rw [h, e])

/-- **label names of every reported series are pairwise different** -/
theorem value_key_labels_nodup (vo : VOps V) (bo : BOps B) [DecidableEq B] (fs : List (SFile V)) (hwf : WFInput bo fs)
    (mn : Str) (k : SKey) (r : V) (h : value vo bo fs mn k = some r) : (k.2.map (·.1)).Nodup := by
  have hplain : ∀ c ∈ contribs fs mn, plainKey c = k → (k.2.map (·.1)).Nodup := by
    intro c hc e
    rw [← e]; exact hwf.label_names c (mem_contribs hc).1
  unfold value at h
  simp only at h
  cases hkind : kindOf (typOf fs mn) (modeOf fs mn) with
  | plainSum =>
    rw [hkind] at h
    obtain ⟨c, hc, e⟩ := sumValue_some_key vo _ k r h
    exact hplain c hc e
  | histogram =>
    rw [hkind] at h
    unfold histValue at h
    cases hg : AL.get? (bucketSeries vo bo mn (contribs fs mn)) k with
    | some v =>
      have hk := (AL.get?_isSome_iff _ k).mp (by rw [hg]; rfl)
      obtain ⟨c, hc, e | ⟨t, e⟩⟩ := bucket_key_shape vo bo mn _ k hk
      · rw [e]; exact nodup_filter_names _ _ (hwf.label_names c (mem_contribs hc).1)
      · rw [e]; exact withoutLe_append_nodup c t (hwf.label_names c (mem_contribs hc).1)
    | none =>
      rw [hg] at h
      obtain ⟨c, hc, e⟩ := sumValue_some_key vo _ k r h
      exact hplain c (List.mem_filter.mp hc).1 e
  | gaugeMin =>
    rw [hkind] at h
    have : valuesFor plainKey (contribs fs mn) k ≠ [] := fun e => by
      simp only [gaugeValue, aggMin, e, aggPick] at h; cases h
    obtain ⟨c, hc, e⟩ := (valuesFor_ne_nil plainKey _ k).mp this
    exact hplain c hc e
  | gaugeMax =>
    rw [hkind] at h
    have : valuesFor plainKey (contribs fs mn) k ≠ [] := fun e => by
      simp only [gaugeValue, aggMax, e, aggPick] at h; cases h
    obtain ⟨c, hc, e⟩ := (valuesFor_ne_nil plainKey _ k).mp this
    exact hplain c hc e
  | gaugeSum =>
    rw [hkind] at h
    obtain ⟨c, hc, e⟩ := sumValue_some_key vo _ k r h
    exact hplain c hc e
  | gaugeMostRecent =>
    rw [hkind] at h
    have hne := aggMostRecent_some_ne_nil vo _ r h
    cases hf : (contribs fs mn).filter (fun c => plainKey c = k) with
    | nil => rw [hf] at hne; exact absurd rfl hne
    | cons c rest =>
      have hm : c ∈ (contribs fs mn).filter (fun c => plainKey c = k) := hf ▸ List.mem_cons_self
      have := List.mem_filter.mp hm
      exact hplain c this.1 (by simpa using this.2)
  | gaugeAll =>
    rw [hkind] at h
    have : valuesFor pidKey (contribs fs mn) k ≠ [] := fun e => by
      simp only [gaugeValue, aggLast, e] at h; cases h
    obtain ⟨c, hc, e⟩ := (valuesFor_ne_nil pidKey _ k).mp this
    -- the family is a gauge, hence so is c
    have hgt : typOf fs mn = gaugeType := by
      have e1 : gaugeType = "gauge".toList := by decide
      by_cases hg : typOf fs mn = "gauge".toList
      · rw [e1]; exact hg
      · unfold kindOf at hkind
        rw [if_neg hg] at hkind
        split at hkind <;> cases hkind
    have hct : c.typ = gaugeType := by
      unfold typOf at hgt
      cases hcs : contribs fs mn with
      | nil => rw [hcs] at hc; cases hc
      | cons c0 r0 =>
        rw [hcs] at hgt
        simp only [List.head?_cons, Option.map_some, Option.getD_some] at hgt
        have m0 := mem_contribs (hcs ▸ List.mem_cons_self : c0 ∈ contribs fs mn)
        have m1 := mem_contribs hc
        rw [hwf.one_type c0 m0.1 c m1.1 (m0.2.trans m1.2.symm)]; exact hgt
    rw [← e]
    unfold pidKey
    simp only
    rw [List.map_append, List.nodup_append]
    refine ⟨hwf.label_names c (mem_contribs hc).1, by simp, ?_⟩
    intro a ha b hb
    simp only [List.map_cons, List.map_nil, List.mem_singleton] at hb
    subst hb
    obtain ⟨l, hl, rfl⟩ := List.mem_map.mp ha
    have e2 : pidLabel = "pid".toList := by decide
    rw [← e2]
    exact hwf.no_pid_label c (mem_contribs hc).1 hct l hl

/-- on a dict all of whose keys carry distinct label names the conversion is a plain re-packing -/
theorem convert_id (ss : List (SKey × V)) (h : ∀ kv ∈ ss, (kv.1.2.map (·.1)).Nodup) :
    convert ss = ss.map (fun kv => (⟨kv.1.1, kv.1.2, kv.2⟩ : OutSample V)) := by
  unfold convert
  apply List.map_congr_left
  intro kv hkv
  rw [pyDict_id _ (h kv hkv)]

/-- the collector on a well-formed listing, with each family's samples as the conversion of its `samples` dict -/
theorem accumulate_eq_dict (vo : VOps V) (bo : BOps B) [DecidableEq B] (fs : List (SFile V)) (h : WFInput bo fs)
    (hk : ∀ mn, typOf fs mn = histogramType → (AL.keys (bucketSeries vo bo mn (contribs fs mn))).Nodup) :
    ∃ out, merge vo bo (fs.map toFile) = .ok out ∧
      out.map (·.name) = families fs ∧ (families fs).Nodup ∧
      ∀ om ∈ out, om.doc = helpOf fs om.name ∧ om.typ = typOf fs om.name ∧
        ∃ ss, om.samples = convert ss ∧ (AL.keys ss).Nodup ∧ ∀ k, AL.get? ss k = value vo bo fs om.name k := by
  unfold merge
  rw [readMetrics_ok fs h.files]
  simp only [bind, Except.bind]
  have hkeys := read_keys (allContribs fs)
  have hnd : (AL.keys ((allContribs fs).foldl readStep [])).Nodup := by rw [hkeys]; exact nodup_distinct _
  obtain ⟨ys, h1, h2, h3⟩ := mapM_spec (fun (nm : Str × Metric V) => accumulateMetric vo bo nm.2)
    (fun nm om => om.name = nm.1 ∧ om.doc = helpOf fs nm.1 ∧ om.typ = typOf fs nm.1 ∧
      ∃ ss, om.samples = convert ss ∧ (AL.keys ss).Nodup ∧ ∀ k, AL.get? ss k = value vo bo fs nm.1 k)
    (·.name) (·.1) ((allContribs fs).foldl readStep [])
    (by
      intro nm hnm
      have hget := AL.get?_of_mem _ hnd nm.1 nm.2 hnm
      rw [read_get?] at hget
      cases hcs : (allContribs fs).filter (fun c => c.key.metric = nm.1) with
      | nil => rw [hcs] at hget; cases hget
      | cons c cs =>
        have hc : contribs fs nm.1 = c :: cs := hcs
        have htyp : typOf fs nm.1 = c.typ := by simp [typOf, hc]
        obtain ⟨m, ss, e1, e2, e3, e4, e5, e6, e7⟩ := family_eq_spec vo bo fs h nm.1 c cs hc
          (fun hh => hk nm.1 (htyp.trans hh))
        rw [hcs, e1] at hget
        have hm : nm.2 = m := (Option.some.inj hget).symm
        refine ⟨⟨m.name, m.doc, m.typ, convert ss⟩, ?_, ⟨e2, e3, e4, ss, rfl, e6, e7⟩, e2⟩
        unfold accumulateMetric
        rw [hm, e5]
        rfl)
  refine ⟨ys, h1, ?_, nodup_distinct _, ?_⟩
  · rw [h2]
    have : ((allContribs fs).foldl readStep []).map (·.1) = AL.keys ((allContribs fs).foldl readStep []) := rfl
    rw [this, hkeys]
    rfl
  · intro om hom
    obtain ⟨nm, _, q1, q2, q3, q4⟩ := h3 om hom
    rw [q1]
    exact ⟨q2, q3, q4⟩


end PromVerif.Props.C08
