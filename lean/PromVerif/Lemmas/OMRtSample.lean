/-
C04: the sample line.  What `openmetrics.exposition` writes for a sample (`lineBody`), and `_parse_sample` on it for the
three shapes of the head: bare name, bare name with a label block, quoted name inside the braces.
-/
import PromVerif.Lemmas.OMRtRem3

set_option autoImplicit false

namespace PromVerif.Lemmas.OMRt
open PromVerif.Py PromVerif.Model PromVerif.Model.Escape PromVerif.Model.ParseCore PromVerif.Model.Validation
open PromVerif.Model.OMParse PromVerif.Spec.OMRoundtrip PromVerif.Lemmas.Escape PromVerif.Lemmas.Scanner
open PromVerif.Lemmas.TextParse PromVerif.Model.TextExpo

-- the rendered line ----------------------------------------------------------------------------------------------------------

/-- name and label block -/
def lineHead (s : Sample) : Str :=
  if isValidLegacyMetricName s.name then
    s.name ++ (match sortByKey s.labels with
      | [] => []
      | kv :: r => '{' :: (labelItem kv ++ tailStr r ++ ['}']))
  else '{' :: (qname s.name ++ spTail (sortByKey s.labels) ++ ['}'])

/-- the tokens after the head -/
def lineRem (s : Sample) : Str :=
  remText (Utils.floatToGoString s.value) (s.ts.map (fun t => OMExpo.tsStr t.ts))
    (s.exemplar.map (fun e => (sortByKey e.labels, Utils.floatToGoString e.value, e.ts.map OMExpo.tsStr)))

/-- a sample line without its line feed -/
def lineBody (s : Sample) : Str := lineHead s ++ ' ' :: lineRem s

theorem exemplarItem_eq : OMExpo.exemplarItem = labelItem := rfl

theorem join_items (L : List (Str × Str)) : joinStr [','] (L.map labelItem) = exBlock L := by
  cases L with
  | nil => rfl
  | cons kv r =>
    rw [List.map_cons, joinStr_comma]
    simp [exBlock, tailStr, List.flatMap_map]

theorem exemplarStr_eq (e : Exemplar) :
    OMExpo.exemplarStr e = ' ' :: exTail (sortByKey e.labels) (Utils.floatToGoString e.value) (e.ts.map OMExpo.tsStr) := by
  unfold OMExpo.exemplarStr
  rw [exemplarItem_eq, join_items]
  cases e.ts <;> simp [exTail, optTok]

/-- `sampleLine` = `lineBody` plus a line feed, unless the exemplar sits on an ineligible sample -/
theorem sampleLine_eq (fam : Family) (s : Sample)
    (helig : s.exemplar.isSome = true → OMExpo.isValidExemplarMetric fam.typ fam.name s.name = true) :
    OMExpo.sampleLine fam s = .ok (lineBody s ++ ['\n']) := by
  have hemp : s.labels.isEmpty = (sortByKey s.labels).isEmpty := labels_isEmpty_iff s.labels
  unfold OMExpo.sampleLine lineBody lineHead lineRem remText
  rw [labelItem_eq_text]
  cases hex : s.exemplar with
  | none =>
    simp only [Option.map_none, List.append_nil]
    by_cases hv : isValidLegacyMetricName s.name = true
    · cases hL : sortByKey s.labels with
      | nil =>
        have : s.labels.isEmpty = true := by rw [hemp, hL]; rfl
        cases hts : s.ts <;> simp [hv, this, optTok]
      | cons kv r =>
        have : s.labels.isEmpty = false := by rw [hemp, hL]; rfl
        have hj : joinStr [','] (labelItem kv :: List.map labelItem r) = labelItem kv ++ tailStr r := join_items (kv :: r)
        have hi : labelItem kv ≠ [] := by have := item_nonempty kv; intro e; rw [e] at this; simp at this
        cases hts : s.ts <;> simp [hv, this, optTok, hj, hi]
    · have hq : escapeMetricName s.name = qname s.name := by simp [escapeMetricName, hv, qname]
      have hq0 : qname s.name ≠ [] := by simp [qname]
      cases hL : sortByKey s.labels with
      | nil =>
        have : s.labels.isEmpty = true := by rw [hemp, hL]; rfl
        cases hts : s.ts <;> simp [hv, this, optTok, hq, hq0, spTail]
      | cons kv r =>
        have : s.labels.isEmpty = false := by rw [hemp, hL]; rfl
        have hj : joinStr [','] (labelItem kv :: List.map labelItem r) = labelItem kv ++ tailStr r := join_items (kv :: r)
        have hi : labelItem kv ≠ [] := by have := item_nonempty kv; intro e; rw [e] at this; simp at this
        cases hts : s.ts <;> simp [hv, this, optTok, hq, hq0, spTail, hj]
  | some e =>
    have hel := helig (by rw [hex]; rfl)
    simp only [Option.map_some, hel, Bool.not_true, Bool.false_eq_true, ↓reduceIte, exemplarStr_eq]
    by_cases hv : isValidLegacyMetricName s.name = true
    · cases hL : sortByKey s.labels with
      | nil =>
        have : s.labels.isEmpty = true := by rw [hemp, hL]; rfl
        cases hts : s.ts <;> simp [hv, this, optTok]
      | cons kv r =>
        have : s.labels.isEmpty = false := by rw [hemp, hL]; rfl
        have hj : joinStr [','] (labelItem kv :: List.map labelItem r) = labelItem kv ++ tailStr r := join_items (kv :: r)
        have hi : labelItem kv ≠ [] := by have := item_nonempty kv; intro e; rw [e] at this; simp at this
        cases hts : s.ts <;> simp [hv, this, optTok, hj, hi]
    · have hq : escapeMetricName s.name = qname s.name := by simp [escapeMetricName, hv, qname]
      have hq0 : qname s.name ≠ [] := by simp [qname]
      cases hL : sortByKey s.labels with
      | nil =>
        have : s.labels.isEmpty = true := by rw [hemp, hL]; rfl
        cases hts : s.ts <;> simp [hv, this, optTok, hq, hq0, spTail]
      | cons kv r =>
        have : s.labels.isEmpty = false := by rw [hemp, hL]; rfl
        have hj : joinStr [','] (labelItem kv :: List.map labelItem r) = labelItem kv ++ tailStr r := join_items (kv :: r)
        have hi : labelItem kv ≠ [] := by have := item_nonempty kv; intro e; rw [e] at this; simp at this
        cases hts : s.ts <;> simp [hv, this, optTok, hq, hq0, spTail, hj]

-- `_parse_sample` on the three shapes of the head ------------------------------------------------------------------------------------

/-- the result of `_parse_sample` once name and labels are known -/
def sampleOf (P : Params) (name : Str) (L : List (Str × Str)) (rem : Str) : PyM OSample :=
  match parseRemainingText P rem with
  | .ok (v, ts, ex) => .ok ⟨name, some L, some v, ts, ex, none⟩
  | .error e => .error e

theorem sName_eq : sName = "__name__".toList := by decide

theorem omSepHash_nil : isInfix OMParse.sepHash [] = false := by decide

theorem keys_ne_sName {legacy : Bool} {L : List (Str × Str)} (hok : ∀ x ∈ L, labelNameOK legacy x.1 = true) :
    dictHas L sName = false ∧ L.filter (fun kv => kv.1 != sName) = L := by
  have hne : ∀ x ∈ L, (x.1 == sName) = false := fun x hx => by
    have := labelNameOK_ne_name (hok x hx)
    rw [sName_eq]
    exact beq_eq_false_iff_ne.mpr this
  refine ⟨?_, ?_⟩
  · unfold dictHas
    apply Bool.eq_false_iff.mpr
    intro h
    obtain ⟨x, hx, he⟩ := List.any_eq_true.mp h
    rw [hne x hx] at he; exact absurd he (by decide)
  · apply List.filter_eq_self.mpr
    intro x hx; simp [bne, hne x hx]

/-- bare legacy name with a label block -/
theorem parseSample_labels (P : Params) {n : Str} (hv : isValidLegacyMetricName n = true) (kv : Str × Str) (r : List (Str × Str))
    (hok : ∀ x ∈ kv :: r, labelNameOK P.legacy x.1 = true) (hnd : ((kv :: r).map (·.1)).Nodup) (rem : Str) :
    parseSample P (n ++ '{' :: (labelItem kv ++ tailStr r ++ '}' :: ' ' :: rem)) = sampleOf P n (kv :: r) rem := by
  obtain ⟨hne, hc⟩ := legacyName_chars hv (legacyMetric_no_newline hv)
  have hls : nextUnquotedChar (n ++ '{' :: (labelItem kv ++ tailStr r ++ '}' :: ' ' :: rem)) (· == '{') = some n.length :=
    scan_pass_hit (pass_plain (plainFor_legacy (fun c h => legacyChar_eq_false h (by decide)) hc)) '{' _ (by decide) (by decide)
  have hpre : Pass rbChs (n ++ '{' :: (labelItem kv ++ tailStr r)) := by
    have h1 : Pass rbChs n := pass_plain (plainFor_legacy (fun c h => legacyChar_eq_false h (by decide)) hc)
    have h2 : Pass rbChs ['{'] := pass_plain (by intro c hc; simp at hc; subst hc; exact ⟨by decide, by decide, by decide⟩)
    have h3 : Pass rbChs (labelItem kv) := item_pass rbChs_safe (by decide) (hok kv (by simp))
    have h4 : Pass rbChs (tailStr r) := tail_pass rbChs_safe (by decide) (by decide) r (fun x hx => hok x (by simp [hx]))
    have := pass_append h1 (pass_append h2 (pass_append h3 h4))
    simpa using this
  have hle : nextUnquotedChar (n ++ '{' :: (labelItem kv ++ tailStr r ++ '}' :: ' ' :: rem)) (· == '}') =
      some (n ++ '{' :: (labelItem kv ++ tailStr r)).length := by
    have := scan_pass_hit hpre '}' (' ' :: rem) (by decide) (by decide)
    rw [← this]; congr 1; simp
  have hinf : isInfix OMParse.sepHash n = false :=
    isInfix_of_not_mem (c := ' ') (by decide) (fun hm => legacyChar_ne (hc _ hm) (by decide) rfl)
  have hnem : n.isEmpty = false := by cases n <;> simp at hne ⊢
  have hlen1 : n.length ≤ (n ++ '{' :: (labelItem kv ++ tailStr r ++ '}' :: ' ' :: rem)).length := by simp
  have hlen2 : (n ++ '{' :: (labelItem kv ++ tailStr r)).length ≤ (n ++ '{' :: (labelItem kv ++ tailStr r ++ '}' :: ' ' :: rem)).length := by
    simp
  have hname : pySlice (n ++ '{' :: (labelItem kv ++ tailStr r ++ '}' :: ' ' :: rem)) 0 (n.length : Int) = n := by
    rw [pySlice_zero_nat _ _ hlen1, List.take_left]
  have hblock : pySlice (n ++ '{' :: (labelItem kv ++ tailStr r ++ '}' :: ' ' :: rem)) ((n.length : Int) + 1)
      ((n ++ '{' :: (labelItem kv ++ tailStr r)).length : Int) = labelItem kv ++ tailStr r := by
    have := pySlice_nat (n ++ '{' :: (labelItem kv ++ tailStr r ++ '}' :: ' ' :: rem)) n.length 1 _ hlen2
    simp only [Int.cast_ofNat_Int] at this
    rw [this]
    rw [show n ++ '{' :: (labelItem kv ++ tailStr r ++ '}' :: ' ' :: rem) =
      (n ++ '{' :: (labelItem kv ++ tailStr r)) ++ ('}' :: ' ' :: rem) by simp]
    rw [List.take_left]
    rw [show n ++ '{' :: (labelItem kv ++ tailStr r) = (n ++ ['{']) ++ (labelItem kv ++ tailStr r) by simp]
    rw [show n.length + 1 = (n ++ ['{']).length by simp]
    exact List.drop_left
  have hrem : pyFrom (n ++ '{' :: (labelItem kv ++ tailStr r ++ '}' :: ' ' :: rem))
      (((n ++ '{' :: (labelItem kv ++ tailStr r)).length : Int) + 2) = rem := by
    have := pyFrom_nat (n ++ '{' :: (labelItem kv ++ tailStr r ++ '}' :: ' ' :: rem)) (n ++ '{' :: (labelItem kv ++ tailStr r)).length 2
    simp only [Int.cast_ofNat_Int] at this
    rw [this]
    rw [show n ++ '{' :: (labelItem kv ++ tailStr r ++ '}' :: ' ' :: rem) =
      (n ++ '{' :: (labelItem kv ++ tailStr r) ++ ['}', ' ']) ++ rem by simp]
    rw [show (n ++ '{' :: (labelItem kv ++ tailStr r)).length + 2 = (n ++ '{' :: (labelItem kv ++ tailStr r) ++ ['}', ' ']).length by simp; omega]
    exact List.drop_left
  have hkeys := keys_ne_sName hok
  unfold parseSample sampleOf
  simp only [hls, hle, List.take_left, hinf, Bool.false_eq_true, ↓reduceIte, optIdx, Int.ofNat_eq_natCast, hname, hblock, hrem,
    parseLabels_om_items kv r hok hnd, bind, Except.bind, nameFromLabels, hnem, hkeys.1]
  cases parseRemainingText P rem with
  | error e => rfl
  | ok x => obtain ⟨v, ts, ex⟩ := x; rfl

theorem spTail_pass {chs : Char → Bool} (hs : NameSafe chs) (he : chs '=' = false) (hc : chs ',' = false) (hsp : chs ' ' = false)
    {legacy : Bool} (L : List (Str × Str)) (h : ∀ kv ∈ L, labelNameOK legacy kv.1 = true) : Pass chs (spTail L) := by
  cases L with
  | nil => exact ⟨rfl, rfl⟩
  | cons kv r =>
    have h0 : Pass chs [',', ' '] := pass_plain (by
      intro c hm; simp at hm; rcases hm with rfl | rfl
      · exact ⟨by decide, by decide, hc⟩
      · exact ⟨by decide, by decide, hsp⟩)
    have h3 : Pass chs (labelItem kv) := item_pass hs he (h kv (by simp))
    have h4 : Pass chs (tailStr r) := tail_pass hs he hc r (fun x hx => h x (by simp [hx]))
    have := pass_append h0 (pass_append h3 h4)
    simpa [spTail] using this

/-- quoted (non-legacy) name inside the braces, with or without further labels -/
theorem parseSample_quoted (P : Params) (n : Str) (L : List (Str × Str))
    (hok : ∀ x ∈ L, labelNameOK P.legacy x.1 = true) (hnd : (L.map (·.1)).Nodup) (rem : Str) :
    parseSample P ('{' :: (qname n ++ spTail L ++ '}' :: ' ' :: rem)) = sampleOf P n L rem := by
  have hls : nextUnquotedChar ('{' :: (qname n ++ spTail L ++ '}' :: ' ' :: rem)) (· == '{') = some 0 := by
    have := scan_pass_hit (chs := (· == '{')) (p := []) ⟨rfl, rfl⟩ '{' (qname n ++ spTail L ++ '}' :: ' ' :: rem) (by decide) (by decide)
    simpa using this
  have hpre : Pass rbChs ('{' :: (qname n ++ spTail L)) := by
    have h2 : Pass rbChs ['{'] := pass_plain (by intro c hc; simp at hc; subst hc; exact ⟨by decide, by decide, by decide⟩)
    have h3 : Pass rbChs (qname n) := quoted_pass rbChs rbChs_safe.quote n
    have h4 : Pass rbChs (spTail L) := spTail_pass rbChs_safe (by decide) (by decide) (by decide) L hok
    have := pass_append h2 (pass_append h3 h4)
    simpa using this
  have hle : nextUnquotedChar ('{' :: (qname n ++ spTail L ++ '}' :: ' ' :: rem)) (· == '}') =
      some ('{' :: (qname n ++ spTail L)).length := by
    have := scan_pass_hit hpre '}' (' ' :: rem) (by decide) (by decide)
    rw [← this]; congr 1
  have hlen2 : ('{' :: (qname n ++ spTail L)).length ≤ ('{' :: (qname n ++ spTail L ++ '}' :: ' ' :: rem)).length := by
    simp
  have hname : pySlice ('{' :: (qname n ++ spTail L ++ '}' :: ' ' :: rem)) 0 ((0 : Nat) : Int) = [] := by
    rw [pySlice_zero_nat _ _ (by simp)]; rfl
  have hblock : pySlice ('{' :: (qname n ++ spTail L ++ '}' :: ' ' :: rem)) (((0 : Nat) : Int) + 1)
      (('{' :: (qname n ++ spTail L)).length : Int) = qname n ++ spTail L := by
    have := pySlice_nat ('{' :: (qname n ++ spTail L ++ '}' :: ' ' :: rem)) 0 1 _ hlen2
    rw [show ((1 : Nat) : Int) = 1 from rfl] at this
    rw [this]
    rw [show '{' :: (qname n ++ spTail L ++ '}' :: ' ' :: rem) = ('{' :: (qname n ++ spTail L)) ++ ('}' :: ' ' :: rem) by simp]
    rw [List.take_left]
    rfl
  have hrem : pyFrom ('{' :: (qname n ++ spTail L ++ '}' :: ' ' :: rem)) ((('{' :: (qname n ++ spTail L)).length : Int) + 2) = rem := by
    have := pyFrom_nat ('{' :: (qname n ++ spTail L ++ '}' :: ' ' :: rem)) ('{' :: (qname n ++ spTail L)).length 2
    simp only [Int.cast_ofNat_Int] at this
    rw [this]
    rw [show '{' :: (qname n ++ spTail L ++ '}' :: ' ' :: rem) = ('{' :: (qname n ++ spTail L) ++ ['}', ' ']) ++ rem by simp]
    rw [show ('{' :: (qname n ++ spTail L)).length + 2 = ('{' :: (qname n ++ spTail L) ++ ['}', ' ']).length by simp; omega]
    exact List.drop_left
  have hkeys := keys_ne_sName hok
  have hget : dictGet (("__name__".toList, n) :: L) sName = some n := by
    unfold dictGet; rw [sName_eq]; simp
  have hfil : (("__name__".toList, n) :: L).filter (fun kv => kv.1 != sName) = L := by
    rw [List.filter_cons]
    have : ((("__name__".toList, n) : Str × Str).1 != sName) = false := by rw [sName_eq]; simp
    simp only [this, Bool.false_eq_true, ↓reduceIte]
    exact hkeys.2
  unfold parseSample sampleOf
  simp only [hls, hle, List.take_zero, omSepHash_nil, Bool.false_eq_true, ↓reduceIte, optIdx, Int.ofNat_eq_natCast, hname, hblock,
    hrem, parseLabels_om_named n L hok hnd, bind, Except.bind, nameFromLabels, List.isEmpty_nil, hget, hfil]
  cases parseRemainingText P rem with
  | error e => rfl
  | ok x => obtain ⟨v, ts, ex⟩ := x; rfl

end PromVerif.Lemmas.OMRt
