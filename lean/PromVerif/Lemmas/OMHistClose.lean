/-
The rules `do_checks` enforces when a group is over, on the document's lines: `_check_histogram` runs when the family
is closed.  (1) a state whose samples make `_check_histogram` fail, followed by a closing line, fails; (2) a state whose
samples make it fail whatever is appended dooms every continuation; (3) consecutive new-series sample lines of the
family reach the sample list unchanged and in order.
-/
import PromVerif.Lemmas.OMHistDoc

namespace PromVerif.Lemmas.OM
open PromVerif.Py PromVerif.Model.ParseCore PromVerif.Model.OMParse PromVerif.Generated.OMParse
open PromVerif.Spec.OMRules

theorem flush_fails_hist (P : Params) (n t : Str) (ht : t = cs!"histogram" ∨ t = cs!"gaugehistogram") (st : St)
    (hn : st.hdr.name = some n) (hty : st.hdr.typ = some t) (he : isError (checkHistogram P st.grp.samples n) = true) :
    isError (flush P st.glob st.hdr st.grp.samples) = true := by
  refine flush_fails P st.glob st.hdr st.grp.samples n hn
    (if histTypes.contains (st.hdr.typ.getD tUnknown) then checkHistogram P st.grp.samples n else .ok ()) (by simp [buildChecks]) ?_
  have : histTypes.contains (st.hdr.typ.getD tUnknown) = true := by
    rw [hty]; rcases ht with rfl | rfl <;> decide
  rw [if_pos this]
  exact he

theorem checkHistogram_nil (P : Params) (n : Str) : isError (checkHistogram P [] n) = false := rfl

/-- (1) the family's samples make `_check_histogram` fail and the next line closes the family: the document fails -/
theorem closes_fails (P : Params) (n t : Str) (ht : t = cs!"histogram" ∨ t = cs!"gaugehistogram") (st : St)
    (hh : HdrIs n t st.hdr) (he : isError (checkHistogram P st.grp.samples n) = true)
    (rest : List Line) (hc : FamilyCloses n t rest) : isError (finishRun P st rest) = true := by
  have hfl := flush_fails_hist P n t ht st hh.1 hh.2.1 he
  have hfin : ∀ st' : St, st'.glob = st.glob → st'.hdr = st.hdr → st'.grp = st.grp → isError (finish P st') = true := by
    intro st' h1 h2 h3
    unfold finish
    rw [h1, h2, h3]
    cases hf : flush P st.glob st.hdr st.grp.samples with
    | error e => rfl
    | ok g => rw [hf] at hfl; cases hfl
  have hne : st.grp.samples ≠ [] := by
    intro e; rw [e, checkHistogram_nil] at he; cases he
  rcases hc with rfl | ⟨l, tl, rfl, hl⟩
  · rw [finishRun_nil]; exact hfin st rfl rfl rfl
  · rw [finishRun_cons]
    cases hs : stepLine P st l with
    | error e => rfl
    | ok st' =>
      dsimp only
      obtain ⟨_, hcs⟩ := stepLine_ok P st st' _ hs
      rcases hcs with ⟨rfl, rfl⟩ | ⟨kind, cand, r, rfl, hm⟩ | ⟨nh, plain, s, isNh, rfl, hp, hss⟩
      · cases tl with
        | nil => rw [finishRun_nil]; exact hfin _ rfl rfl rfl
        | cons l' tl' =>
          rw [finishRun_cons]
          have : stepLine P { st with eof := true } l' = .error .valueError := by simp [stepLine]
          rw [this]; rfl
      · exfalso
        rcases stepMeta_ok P st st' _ _ _ hm with ⟨_, g, _, hf, _, _⟩ | ⟨hn', hd', ha, rfl⟩
        · rw [hf] at hfl; cases hfl
        · rw [stepMeta_late P st kind cand r hn' hne] at hm; cases hm
      · exfalso
        rcases hl with hl | ⟨s0, hl, hnot⟩
        · exact hl nh plain rfl
        · unfold smp at hl
          cases hl
          rw [pickSample_smp] at hp
          cases hp
          have hnc : st.hdr.allowed.contains s.name = false := by
            rw [hh.2.2, ← familyNames_eq]
            cases hc : (familyNames n t).contains s.name
            · rfl
            · exact absurd (by simpa using hc) hnot
          rcases stepSample_ok P st st' s false hss with ⟨_, g, _, _, hf, _, _, _⟩ | ⟨c, _⟩
          · rw [hf] at hfl; cases hfl
          · rw [hnc] at c; simp at c

/-- the family `n` of histogram type `t` is current and `_check_histogram` fails on its samples whatever is appended -/
def HistStable (P : Params) (n t : Str) (st : St) : Prop :=
  st.hdr.name = some n ∧ st.hdr.typ = some t ∧ ∀ ext, isError (checkHistogram P (st.grp.samples ++ ext) n) = true

/-- (2) then every continuation of the document fails -/
theorem hist_stable_doom (P : Params) (n t : Str) (ht : t = cs!"histogram" ∨ t = cs!"gaugehistogram") :
    ∀ (ls : List Line) (st : St), HistStable P n t st → isError (finishRun P st ls) = true := by
  intro ls
  induction ls with
  | nil =>
    intro st hd
    rw [finishRun_nil]
    unfold finish
    have := flush_fails_hist P n t ht st hd.1 hd.2.1 (by have := hd.2.2 []; simpa using this)
    cases hf : flush P st.glob st.hdr st.grp.samples with
    | error e => rfl
    | ok g => rw [hf] at this; cases this
  | cons l ls ih =>
    intro st hd
    rw [finishRun_cons]
    cases hs : stepLine P st l with
    | error e => rfl
    | ok st' =>
      dsimp only
      apply ih
      obtain ⟨hn, hty, he⟩ := hd
      have he0 : isError (checkHistogram P st.grp.samples n) = true := by have := he []; simpa using this
      have hfl := flush_fails_hist P n t ht st hn hty he0
      have hne : st.grp.samples ≠ [] := by
        intro e; rw [e, checkHistogram_nil] at he0; cases he0
      obtain ⟨_, hc⟩ := stepLine_ok P st st' _ hs
      rcases hc with ⟨_, rfl⟩ | ⟨kind, cand, rest, _, hm⟩ | ⟨nh, plain, s, isNh, _, _, hss⟩
      · exact ⟨hn, hty, he⟩
      · rcases stepMeta_ok P st st' _ _ _ hm with ⟨_, g, _, hf, _, _⟩ | ⟨hn', hd', ha, rfl⟩
        · rw [hf] at hfl; cases hfl
        · rw [stepMeta_late P st kind cand rest hn' hne] at hm; cases hm
      · rcases stepSample_ok P st st' s isNh hss with ⟨_, g, _, _, hf, _, _, _⟩ | ⟨_, gr, hsc, rfl⟩
        · rw [hf] at hfl; cases hfl
        · refine ⟨hn, hty, ?_⟩
          show ∀ ext, isError (checkHistogram P (gr.samples ++ ext) n) = true
          cases isNh with
          | true =>
            unfold sampleChecks at hsc
            by_cases c : (true && nhSkipsChecks) = true
            · rw [if_pos c] at hsc
              obtain rfl := Except.ok.inj hsc
              intro ext
              show isError (checkHistogram P ((st.grp.samples ++ [s]) ++ ext) n) = true
              rw [List.append_assoc]; exact he _
            · exfalso; exact c (by decide)
          | false =>
            have hg := sampleChecks_ok P st.hdr st.grp gr s n hn hsc
            obtain ⟨g, ls', _, _, _, _, hsm⟩ := groupStep_ok P st.grp gr n _ s hg
            dsimp only at hsm
            intro ext
            rw [hsm]
            generalize (if st.grp.group.isSome && st.grp.group == some g then st.grp.gtsSamples else []) = gts
            split
            · rw [List.append_assoc]; exact he _
            · exact he _

/-- a sample line of the family that is a new series reaches the sample list -/
theorem fresh_appended (P : Params) (n t : Str) (st st1 : St) (s : OSample) (S : Str × Labels → Prop)
    (hh : HdrIs n t st.hdr) (heof : st.eof = false) (hg : GtsIn S st) (hm : s.name ∈ familyNames n t)
    (hf : ¬ S (sidOf s)) (h1 : stepLine P st (smp s) = .ok st1) :
    st1.hdr = st.hdr ∧ st1.eof = false ∧ st1.grp.samples = st.grp.samples ++ [s] ∧ GtsIn (fun x => S x ∨ x = sidOf s) st1 := by
  have ha1 : st.hdr.allowed.contains s.name = true := by rw [hh.2.2, ← familyNames_eq]; exact contains_of_mem hm
  rw [stepLine_smp P st s heof, stepSample_allowed P st s false ha1] at h1
  cases hc1 : sampleChecks P st.hdr st.grp s false with
  | error e => rw [hc1] at h1; cases h1
  | ok gr1 =>
    rw [hc1] at h1
    obtain rfl := Except.ok.inj h1
    have hg1 := sampleChecks_ok P st.hdr st.grp gr1 s n hh.1 hc1
    obtain ⟨hsub1, happ1⟩ := groupStep_gts P st.grp gr1 n _ s hg1
    refine ⟨rfl, heof, happ1 (fun hin => hf (hg _ hin)), ?_⟩
    intro x hx
    rcases hsub1 x hx with h3 | h3
    · exact Or.inl (hg _ h3)
    · exact Or.inr h3

/-- (3) consecutive new-series sample lines of the family reach the sample list, in order -/
theorem run_fresh (P : Params) (n t : Str) : ∀ (grp : List OSample) (S : Str × Labels → Prop) (st st' : St),
    HdrIs n t st.hdr → st.eof = false → GtsIn S st → (∀ s ∈ grp, s.name ∈ familyNames n t) →
    (∀ x ∈ grp, ¬ S (sidOf x)) → (grp.map sidOf).Nodup → run P st (grp.map smp) = .ok st' →
    st'.hdr = st.hdr ∧ st'.eof = false ∧ st'.grp.samples = st.grp.samples ++ grp := by
  intro grp
  induction grp with
  | nil =>
    intro S st st' _ heof _ _ _ _ h
    simp only [List.map_nil, run] at h
    cases h
    exact ⟨rfl, heof, by simp⟩
  | cons s grp ih =>
    intro S st st' hh heof hg hnames hfresh hnd h
    simp only [List.map_cons, run] at h
    cases hs : stepLine P st (smp s) with
    | error e => rw [hs] at h; cases h
    | ok st1 =>
      rw [hs] at h
      dsimp only at h
      obtain ⟨e1, e2, e3, e4⟩ := fresh_appended P n t st st1 s S hh heof hg (hnames s (by simp)) (hfresh s (by simp)) hs
      have hnd' : sidOf s ∉ grp.map sidOf ∧ (grp.map sidOf).Nodup := List.nodup_cons.mp (by rw [List.map_cons] at hnd; exact hnd)
      obtain ⟨f1, f2, f3⟩ := ih (fun x => S x ∨ x = sidOf s) st1 st' (by rw [e1]; exact hh) e2 e4
        (fun x hx => hnames x (by simp [hx]))
        (fun x hx hor => by
          rcases hor with h5 | h5
          · exact hfresh x (by simp [hx]) h5
          · exact hnd'.1 (by rw [← h5]; exact List.mem_map.mpr ⟨x, hx, rfl⟩))
        hnd'.2 h
      exact ⟨by rw [f1, e1], f2, by rw [f3, e3]; simp⟩

/-- `# TYPE n t` (a histogram type), lines of the family, new-series sample lines `grp` of the family, then `rest`: if
`_check_histogram` fails on every list that ends with `grp` and `rest` closes the family, or fails on every list that
contains `grp` as a segment, the document fails -/
theorem hist_group_doc (P : Params) (n t : Str) (ht : t = cs!"histogram" ∨ t = cs!"gaugehistogram")
    (mid rest : List Line) (grp : List OSample) (st : St) (hk : KeptInv st.grp)
    (hmid : ∀ l ∈ mid, InFamM n t l) (hnames : ∀ s ∈ grp, s.name ∈ familyNames n t) (hnd : (grp.map sidOf).Nodup)
    (hfresh : ∀ nh s, Line.sample nh (.ok s) ∈ mid → ∀ x ∈ grp, sidOf s ≠ sidOf x)
    (hbad : (FamilyCloses n t rest ∧ ∀ S0, isError (checkHistogram P (S0 ++ grp) n) = true) ∨
      (∀ S0 ext, isError (checkHistogram P (S0 ++ grp ++ ext) n) = true)) :
    isError (finishRun P st (.metadata kwType n t :: (mid ++ (grp.map smp ++ rest)))) = true := by
  let S : Str × Labels → Prop := fun x => ∃ nh s, Line.sample nh (.ok s) ∈ mid ∧ x = sidOf s
  rw [finishRun_cons]
  cases hs1 : stepLine P st (.metadata kwType n t) with
  | error e => rfl
  | ok st1 =>
    dsimp only
    have hh1 := stepLine_type P st st1 n t hs1
    have hg1 : GtsIn S st1 := by
      obtain ⟨_, hc⟩ := stepLine_ok P st st1 _ hs1
      rcases hc with ⟨h0, _⟩ | ⟨kind, cand, rest, hl, hm⟩ | ⟨_, _, _, _, hl, _⟩
      · cases h0
      · cases hl
        rcases stepMeta_ok P st st1 _ _ _ hm with ⟨_, g, hd, _, _, rfl⟩ | ⟨hn, hd, _, rfl⟩
        · intro x hx; cases hx
        · have hemp : st.grp.samples = [] := by
            cases hsm : st.grp.samples with
            | nil => rfl
            | cons a b => rw [stepMeta_late P st _ _ _ hn (by rw [hsm]; simp)] at hm; cases hm
          have : st.grp.gtsSamples = [] := by
            cases hgt : st.grp.gtsSamples with
            | nil => rfl
            | cons a b => exact absurd hemp (hk (by rw [hgt]; simp))
          intro x hx
          show S x
          rw [show ({ st with hdr := hd } : St).grp.gtsSamples = st.grp.gtsSamples from rfl, this] at hx
          cases hx
      · cases hl
    rw [finishRun_append]
    cases hr : run P st1 mid with
    | error e => rfl
    | ok st2 =>
      dsimp only
      have hinv := run_invariant P (fun s => (HdrIs n t s.hdr ∧ s.eof = false) ∧ GtsIn S s)
        (fun l => InFamM n t l ∧ ∀ nh s, l = .sample nh (.ok s) → S (sidOf s))
        (fun s l s' hq hl hs => ⟨stepLine_inFam P s s' n t l hq.1 hl.1 hs, gtsIn_step P S n t s s' l hq.1 hq.2 hl.1 hl.2 hs⟩)
        mid (fun l hl => ⟨hmid l hl, fun nh s e => ⟨nh, s, e ▸ hl, rfl⟩⟩) st1 ⟨hh1, hg1⟩ st2 hr
      obtain ⟨⟨hh2, heof2⟩, hg2⟩ := hinv
      rw [finishRun_append]
      cases hr3 : run P st2 (grp.map smp) with
      | error e => rfl
      | ok st3 =>
        dsimp only
        obtain ⟨e1, e2, e3⟩ := run_fresh P n t grp S st2 st3 hh2 heof2 hg2 hnames
          (fun x hx ⟨nh, s, hin, he⟩ => hfresh nh s hin x hx he.symm) hnd hr3
        rcases hbad with ⟨hcl, hb⟩ | hb
        · exact closes_fails P n t ht st3 (by rw [e1]; exact hh2) (by rw [e3]; exact hb _) rest hcl
        · apply hist_stable_doom P n t ht rest st3
          exact ⟨by rw [e1]; exact hh2.1, by rw [e1]; exact hh2.2.1, fun ext => by rw [e3]; exact hb _ ext⟩

end PromVerif.Lemmas.OM
