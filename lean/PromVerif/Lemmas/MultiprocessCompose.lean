/-
C08 composition lemmas: the input well-formedness predicate, one family end to end (`family_eq_spec`), and small facts
used by the property theorems in `Props/C08.lean` (kept here so that the Props file holds only property theorems).
-/
import PromVerif.Lemmas.MultiprocessFamily
import PromVerif.Lemmas.MultiprocessSpec
import PromVerif.Lemmas.MultiprocessLabels

namespace PromVerif.Props.C08
open PromVerif.Py PromVerif.Generated.Multiprocess
open PromVerif.Model.Multiprocess PromVerif.Spec.Multiprocess
set_option autoImplicit false

variable {V B : Type}

/-- what the writer side guarantees about a directory listing (see the file header for the genuine restrictions) -/
structure WFInput (bo : BOps B) (fs : List (SFile V)) : Prop where
  files : ∀ f ∈ fs, WFFile f
  one_type : ∀ c ∈ allContribs fs, ∀ c' ∈ allContribs fs, c.key.metric = c'.key.metric → c'.typ = c.typ
  one_mode : ∀ c ∈ allContribs fs, ∀ c' ∈ allContribs fs, c.key.metric = c'.key.metric → c.typ = gaugeType →
    c'.mode = c.mode
  modes : ∀ c ∈ allContribs fs, c.typ = gaugeType → c.mode ∈ gaugeModes
  no_pid_label : ∀ c ∈ allContribs fs, c.typ = gaugeType → ∀ l ∈ c.key.labels, l.1 ≠ pidLabel
  bounds_parse : ∀ c ∈ allContribs fs, c.typ = histogramType → ∀ t, leText c = some t → (bo.parse t).isSome = true
  /-- label names inside one key are pairwise different (the key's labels are a JSON object / Python dict) -/
  label_names : ∀ c ∈ allContribs fs, (c.key.labels.map (·.1)).Nodup

theorem mem_contribs {fs : List (SFile V)} {mn : Str} {c : Contrib V} (h : c ∈ contribs fs mn) :
    c ∈ allContribs fs ∧ c.key.metric = mn := by
  unfold contribs at h
  have := List.mem_filter.mp h
  exact ⟨this.1, by simpa using this.2⟩

theorem kind_gauge (mode : Str) (h : mode ∈ gaugeModes) :
    ∀ (vo : VOps V) (bo : BOps B) [DecidableEq B] (mn : Str) (cs : List (Contrib V)) (k : SKey),
      (match kindOf gaugeType mode with
        | .plainSum => sumValue vo cs k
        | .histogram => histValue vo bo mn cs k
        | kind => gaugeValue vo kind cs k) = gaugeValue vo (kindOf gaugeType mode) cs k := by
  intro vo bo _ mn cs k
  rcases rule_kind mode h with ⟨_, hk⟩ | ⟨_, hk⟩ | ⟨_, hk⟩ | ⟨_, hk⟩ | ⟨_, hk⟩ <;> rw [hk]

theorem kind_hist (mode : Str) : kindOf histogramType mode = .histogram := by
  have h1 : histogramType ≠ "gauge".toList := by decide
  have h2 : histogramType = "histogram".toList := by decide
  unfold kindOf
  rw [if_neg h1, if_pos h2]

theorem kind_plain (typ mode : Str) (hg : typ ≠ gaugeType) (hh : typ ≠ histogramType) : kindOf typ mode = .plainSum := by
  have e1 : gaugeType = "gauge".toList := by decide
  have e2 : histogramType = "histogram".toList := by decide
  unfold kindOf
  rw [if_neg (e1 ▸ hg), if_neg (e2 ▸ hh)]

/-- one family: the record built by the reader, accumulated, is the spec's value function as a finite map -/
theorem family_eq_spec (vo : VOps V) (bo : BOps B) [DecidableEq B] (fs : List (SFile V)) (h : WFInput bo fs)
    (mn : Str) (c : Contrib V) (cs : List (Contrib V)) (hc : contribs fs mn = c :: cs)
    (hk : c.typ = histogramType → (AL.keys (bucketSeries vo bo mn (contribs fs mn))).Nodup) :
    ∃ m ss, (c :: cs).foldl famStep none = some m ∧ m.name = mn ∧ m.doc = helpOf fs mn ∧ m.typ = typOf fs mn ∧
      accumulateSamples vo bo m = .ok ss ∧ (AL.keys ss).Nodup ∧ ∀ k, AL.get? ss k = value vo bo fs mn k := by
  have hmem : ∀ c' ∈ c :: cs, c' ∈ allContribs fs ∧ c'.key.metric = mn := fun c' hc' => mem_contribs (hc ▸ hc')
  have hc0 := hmem c List.mem_cons_self
  have hty : ∀ c' ∈ cs, c'.typ = c.typ := fun c' hc' =>
    h.one_type c hc0.1 c' (hmem c' (List.mem_cons_of_mem _ hc')).1 (hc0.2.trans (hmem c' (List.mem_cons_of_mem _ hc')).2.symm)
  have hmo : c.typ = gaugeType → ∀ c' ∈ cs, c'.mode = c.mode := fun hg c' hc' =>
    h.one_mode c hc0.1 c' (hmem c' (List.mem_cons_of_mem _ hc')).1
      (hc0.2.trans (hmem c' (List.mem_cons_of_mem _ hc')).2.symm) hg
  have hrec := famStep_fold c cs hty hmo
  have hhelp : helpOf fs mn = c.key.help := by simp [helpOf, hc]
  have htyp : typOf fs mn = c.typ := by simp [typOf, hc]
  have hmode : modeOf fs mn = c.mode := by simp [modeOf, hc]
  have hall : ∀ c' ∈ c :: cs, c'.typ = c.typ := by
    intro c' hc'
    rcases List.mem_cons.mp hc' with e | e
    · rw [e]
    · exact hty c' e
  have main : ∃ ss, accumulateSamples vo bo (⟨c.key.metric, c.key.help, c.typ,
        if c.typ = gaugeType then some c.mode else none, (c :: cs).map toRSample⟩ : Metric V) = .ok ss ∧
      (AL.keys ss).Nodup ∧ ∀ k, AL.get? ss k = value vo bo fs mn k := by
    by_cases hg : c.typ = gaugeType
    · -- gauge
      have hm := h.modes c hc0.1 hg
      obtain ⟨ss, h1, h2, h3⟩ := family_gauge vo bo c.key.metric c.key.help c.mode (c :: cs) hm
        (fun c' hc' => (hall c' hc').trans hg)
        (fun c' hc' => h.no_pid_label c' (hmem c' hc').1 ((hall c' hc').trans hg))
      refine ⟨ss, ?_, h2, ?_⟩
      · rw [if_pos hg, hg]; exact h1
      · intro k
        rw [h3 k]
        unfold value
        simp only [hc, htyp, hmode, hg]
        exact (kind_gauge c.mode hm vo bo mn (c :: cs) k).symm
    · by_cases hh : c.typ = histogramType
      · -- histogram
        have hkk := hk hh
        rw [hc] at hkk
        obtain ⟨ss, h1, h2, h3⟩ := family_hist_get? vo bo mn c.key.help (if c.typ = gaugeType then some c.mode else none)
          (c :: cs) (fun c' hc' => by rw [hall c' hc']; exact hg)
          (fun c' hc' => h.bounds_parse c' (hmem c' hc').1 ((hall c' hc').trans hh)) hkk
        refine ⟨ss, ?_, h2, ?_⟩
        · rw [hc0.2, hh]; exact h1
        · intro k
          rw [h3 k]
          unfold value
          simp only [hc, htyp, hmode, hh, kind_hist]
      · -- counter, summary, …
        obtain ⟨ss, h1, h2, h3⟩ := family_plain vo bo c.key.metric c.key.help c.typ
          (if c.typ = gaugeType then some c.mode else none) (c :: cs) hg hh
          (fun c' hc' => by rw [hall c' hc']; exact hg)
        refine ⟨ss, h1, h2, ?_⟩
        intro k
        rw [h3 k]
        unfold value
        simp only [hc, htyp, hmode, kind_plain c.typ c.mode hg hh]
  obtain ⟨ss, h1, h2, h3⟩ := main
  exact ⟨_, ss, hrec, hc0.2, hhelp.symm, htyp.symm, h1, h2, h3⟩

theorem mapM_spec {α β γ : Type} (fE : α → PyM β) (Q : α → β → Prop) (g : β → γ) (g' : α → γ) (xs : List α)
    (h : ∀ x ∈ xs, ∃ y, fE x = .ok y ∧ Q x y ∧ g y = g' x) :
    ∃ ys, xs.mapM fE = .ok ys ∧ ys.map g = xs.map g' ∧ ∀ y ∈ ys, ∃ x ∈ xs, Q x y := by
  induction xs with
  | nil => exact ⟨[], rfl, rfl, fun y hy => by cases hy⟩
  | cons x r ih =>
    obtain ⟨y, h1, h2, h3⟩ := h x List.mem_cons_self
    obtain ⟨ys, i1, i2, i3⟩ := ih (fun z hz => h z (List.mem_cons_of_mem _ hz))
    refine ⟨y :: ys, ?_, ?_, ?_⟩
    · rw [List.mapM_cons, h1, i1]; rfl
    · simp [h3, i2]
    · intro z hz
      rcases List.mem_cons.mp hz with e | e
      · exact ⟨x, List.mem_cons_self, e ▸ h2⟩
      · obtain ⟨w, hw, hq⟩ := i3 z e
        exact ⟨w, List.mem_cons_of_mem _ hw, hq⟩

theorem mem_bucketSeries (vo : VOps V) (bo : BOps B) [DecidableEq B] (mn : Str) (cs : List (Contrib V)) (L : Labels)
    (hL : L ∈ groups (bucketContribs bo cs)) (kv : SKey × V) (h : kv ∈ groupSeries vo bo mn (bucketContribs bo cs) L) :
    kv ∈ bucketSeries vo bo mn cs := by
  unfold bucketSeries
  exact List.mem_flatMap.mpr ⟨L, hL, h⟩

theorem valuesFor_ne_nil (kf : Contrib V → SKey) (cs : List (Contrib V)) (k : SKey) :
    valuesFor kf cs k ≠ [] ↔ ∃ c ∈ cs, kf c = k := by
  unfold valuesFor
  constructor
  · intro h
    cases hf : cs.filter (fun c => kf c = k) with
    | nil => rw [hf] at h; exact absurd rfl h
    | cons c r =>
      have : c ∈ cs.filter (fun c => kf c = k) := hf ▸ List.mem_cons_self
      have := List.mem_filter.mp this
      exact ⟨c, this.1, by simpa using this.2⟩
  · rintro ⟨c, hc, hk⟩ h
    have : c ∈ cs.filter (fun c => kf c = k) := List.mem_filter.mpr ⟨hc, by simpa using hk⟩
    have : c.value ∈ (cs.filter (fun c => kf c = k)).map (·.value) := List.mem_map.mpr ⟨c, this, rfl⟩
    rw [h] at this; cases this

theorem mem_bucketContribs (bo : BOps B) (cs : List (Contrib V)) (x : Labels × B × V) (hx : x ∈ bucketContribs bo cs) :
    ∃ c ∈ cs, ∃ t b, leText c = some t ∧ bo.parse t = some b ∧ x = (withoutLe c, b, c.value) := by
  unfold bucketContribs at hx
  obtain ⟨c, hc, hcx⟩ := List.mem_filterMap.mp hx
  cases ht : leText c with
  | none => simp only [ht] at hcx; cases hcx
  | some t =>
    simp only [ht] at hcx
    cases hb : bo.parse t with
    | none => simp only [hb, Option.map_none] at hcx; cases hcx
    | some b =>
      simp only [hb, Option.map_some, Option.some.injEq] at hcx
      exact ⟨c, hc, t, b, ht, hb, hcx.symm⟩

theorem baseName_inj_gauge (f : SFile V) (hf : WFFile f) (m pid : Str) (hm : '_' ∉ m) (hp : '_' ∉ pid) :
    baseName f.typ f.mode f.pid = baseName gaugeType m pid ↔ f.typ = gaugeType ∧ f.mode = m ∧ f.pid = pid := by
  constructor
  · intro h
    have hs := congrArg (splitChar splitSep) h
    rw [split_gauge m pid hm hp] at hs
    by_cases hg : f.typ = gaugeType
    · rw [hg, split_gauge f.mode f.pid hf.mode_sep hf.pid_sep] at hs
      simp only [List.cons.injEq, and_true, true_and] at hs
      exact ⟨hg, hs.1, List.append_cancel_right hs.2⟩
    · rw [split_other f.typ f.mode f.pid hg hf.typ_sep hf.pid_sep] at hs
      simp at hs
  · rintro ⟨h1, h2, h3⟩; rw [h1, h2, h3]

theorem deadName_eq (m pid : Str) : deadName m pid = baseName gaugeType m pid := by
  rw [baseName_gauge]
  simp [deadName, deadNameParts, gaugeType]

theorem liveModes_spec (m : Str) : m ∈ liveModes ↔ m ∈ gaugeModes ∧ "live".toList.isPrefixOf m = true := by
  unfold liveModes
  rw [List.mem_filter]
  have : livePrefix = "live".toList := by decide
  rw [this]

theorem liveModes_no_sep : ∀ m ∈ liveModes, '_' ∉ m := by decide

theorem dead_pred (f : SFile V) (hf : WFFile f) (pid : Str) (hp : '_' ∉ pid) :
    liveModes.any (fun m => decide ((toFile f).basename = deadName m pid)) = true ↔
      (f.typ = gaugeType ∧ f.mode ∈ liveModes ∧ f.pid = pid) := by
  rw [List.any_eq_true]
  constructor
  · rintro ⟨m, hml, he⟩
    have he' : baseName f.typ f.mode f.pid = deadName m pid := of_decide_eq_true he
    rw [deadName_eq] at he'
    obtain ⟨h1, h2, h3⟩ := (baseName_inj_gauge f hf m pid (liveModes_no_sep m hml) hp).mp he'
    exact ⟨h1, h2 ▸ hml, h3⟩
  · rintro ⟨h1, h2, h3⟩
    refine ⟨f.mode, h2, decide_eq_true ?_⟩
    show baseName f.typ f.mode f.pid = deadName f.mode pid
    rw [deadName_eq, h1, h3]

theorem contribs_perm (fs fs' : List (SFile V)) (h : fs.Perm fs') (mn : Str) : (contribs fs mn).Perm (contribs fs' mn) := by
  unfold contribs allContribs
  exact (List.Perm.flatMap_right _ h).filter _

theorem typOf_mem (fs : List (SFile V)) (mn t : Str) (h : typOf fs mn = t) (ht : t ≠ []) :
    ∃ c ∈ contribs fs mn, c.typ = t := by
  unfold typOf at h
  cases hc : contribs fs mn with
  | nil => rw [hc] at h; simp at h; exact absurd h ht
  | cons c r => rw [hc] at h; simp at h; exact ⟨c, List.mem_cons_self, h⟩

end PromVerif.Props.C08
