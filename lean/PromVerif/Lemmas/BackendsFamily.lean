/-
C12: the contributions of ONE metric's value objects, as the collector's spec sees them: pairwise different series keys
(so every series has one contribution), and for a histogram the `le` text / label set without `le` of every bucket
contribution — the bucket contributions are the blocks of `Lemmas/BackendsHist`.
-/
import PromVerif.Lemmas.BackendsHist

namespace PromVerif.Lemmas.Backends
open PromVerif.Py PromVerif.Generated.Multiprocess
open PromVerif.Model.Metrics (Val Decl Kind Child Action)
open PromVerif.Model.Multiprocess
open PromVerif.Model.Values
open PromVerif.Model.Backends
open PromVerif.Spec.Metrics (Hist)
open PromVerif.Spec.Multiprocess
set_option autoImplicit false
set_option linter.unusedSectionVars false

variable {V : Type} [Val V] {B : Type} [DecidableEq B]

/-- (value, set-time) of the entry owned by the value object with parameters `p` -/
def cv (pid : Str) (disk : List (Str × Store V)) (p : Params) : V × V :=
  cellVal (voOf V) disk (fileOf pid p) (mmapKey p)

def contribOf (d : MDecl V) (pid : Str) (disk : List (Str × Store V)) (p : Params) : Contrib V :=
  ⟨typStr d.decl.kind, modeOfDecl d, pid, mmapKey p, (cv pid disk p).1, (cv pid disk p).2⟩

theorem expContribs_eq (d : MDecl V) (pid : Str) (disk : List (Str × Store V)) (h : Hist V) :
    expContribs d pid disk h = (childList d h).flatMap (fun ka => (cellParams d ka.1).map (contribOf d pid disk)) := rfl

/-- the label set of the series of a child: `sorted(zip(labelnames, labelvalues))` -/
def plainLabels (d : MDecl V) (key : List Str) : Labels := sortByKey (d.decl.labelnames.zip key)

/-! ### every series key once -/

theorem allKeys_nodup (d : MDecl V) (hw : WFDecl d) : ∀ (cl : List (List Str × List (Action V))), (cl.map (·.1)).Nodup →
    (∀ ka ∈ cl, ka.1.length = d.decl.labelnames.length) → ((cl.flatMap (fun ka => cellParams d ka.1)).map mmapKey).Nodup
  | [], _, _ => by simp
  | ka :: cl, hnd, hlen => by
    simp only [List.map_cons, List.nodup_cons] at hnd
    rw [List.flatMap_cons, List.map_append, List.nodup_append]
    refine ⟨cellKeys_nodup d hw ka.1 (hlen ka List.mem_cons_self),
      allKeys_nodup d hw cl hnd.2 (fun x hx => hlen x (List.mem_cons_of_mem _ hx)), ?_⟩
    intro a ha b hb e
    obtain ⟨p, hp, rfl⟩ := List.mem_map.mp ha
    obtain ⟨q, hq, rfl⟩ := List.mem_map.mp hb
    obtain ⟨ka', hka', hq'⟩ := List.mem_flatMap.mp hq
    have hne : ka.1 ≠ ka'.1 := fun e' => hnd.1 (e' ▸ List.mem_map.mpr ⟨ka', hka', rfl⟩)
    exact cellKeys_disjoint d hw ka.1 ka'.1 (hlen ka List.mem_cons_self) (hlen ka' (List.mem_cons_of_mem _ hka')) hne p q hp hq' e

theorem mmapKey_fields (d : MDecl V) (key : List Str) (p : Params) (hp : p ∈ cellParams d key) :
    (mmapKey p).metric = d.decl.name ∧ (mmapKey p).help = d.help := by
  have := cellParams_metric d key p hp
  exact ⟨this.1, this.2.1⟩

theorem contribs_keys (d : MDecl V) (pid : Str) (disk : List (Str × Store V)) (cl : List (List Str × List (Action V)))
    (f : Key → SKey) (kf : Contrib V → SKey) (hkf : ∀ p, kf (contribOf d pid disk p) = f (mmapKey p)) :
    (cl.flatMap (fun ka => (cellParams d ka.1).map (contribOf d pid disk))).map kf
      = ((cl.flatMap (fun ka => cellParams d ka.1)).map mmapKey).map f := by
  rw [List.map_map, List.map_flatMap, List.map_flatMap]
  apply flatMap_congr_mem
  intro ka _
  rw [List.map_map]
  apply List.map_congr_left
  intro p _
  exact hkf p

theorem keys_inj_on (d : MDecl V) (cl : List (List Str × List (Action V))) (f : Key → SKey)
    (hf : ∀ a b : Key, a.metric = b.metric → a.help = b.help → f a = f b → a = b) :
    ∀ a ∈ (cl.flatMap (fun ka => cellParams d ka.1)).map mmapKey,
      ∀ b ∈ (cl.flatMap (fun ka => cellParams d ka.1)).map mmapKey, f a = f b → a = b := by
  intro a ha b hb e
  obtain ⟨p, hp, rfl⟩ := List.mem_map.mp ha
  obtain ⟨q, hq, rfl⟩ := List.mem_map.mp hb
  obtain ⟨ka, _, hp'⟩ := List.mem_flatMap.mp hp
  obtain ⟨kb, _, hq'⟩ := List.mem_flatMap.mp hq
  have h1 := mmapKey_fields d ka.1 p hp'
  have h2 := mmapKey_fields d kb.1 q hq'
  exact hf _ _ (h1.1.trans h2.1.symm) (h1.2.trans h2.2.symm) e

/-- no two contributions of the metric share `(sample name, labels)` -/
theorem plainKeys_nodup (d : MDecl V) (hw : WFDecl d) (pid : Str) (disk : List (Str × Store V)) (h : Hist V)
    (hnd : ((childList d h).map (·.1)).Nodup) (hlen : ∀ ka ∈ childList d h, ka.1.length = d.decl.labelnames.length) :
    ((expContribs d pid disk h).map plainKey).Nodup := by
  rw [expContribs_eq, contribs_keys d pid disk _ (fun k => (k.name, k.labels)) plainKey (fun _ => rfl)]
  apply nodup_map_of_injOn _ _ (allKeys_nodup d hw _ hnd hlen)
  apply keys_inj_on
  intro a b h1 h2 e
  cases a; cases b
  simp only [Prod.mk.injEq] at e
  simp_all

/-- … nor `(sample name, labels + pid)` -/
theorem pidKeys_nodup (d : MDecl V) (hw : WFDecl d) (pid : Str) (disk : List (Str × Store V)) (h : Hist V)
    (hnd : ((childList d h).map (·.1)).Nodup) (hlen : ∀ ka ∈ childList d h, ka.1.length = d.decl.labelnames.length) :
    ((expContribs d pid disk h).map pidKey).Nodup := by
  rw [expContribs_eq, contribs_keys d pid disk _ (fun k => (k.name, k.labels ++ [("pid".toList, pid)])) pidKey
    (fun _ => rfl)]
  apply nodup_map_of_injOn _ _ (allKeys_nodup d hw _ hnd hlen)
  apply keys_inj_on
  intro a b h1 h2 e
  cases a; cases b
  simp only [Prod.mk.injEq] at e
  have := List.append_cancel_right e.2
  simp_all

/-! ### histogram cells: `le` text and the label set without `le` -/

theorem plain_labels (d : MDecl V) (hw : WFDecl d) (typ suffix mode : Str) (key : List Str) :
    (mmapKey (plainParam d typ suffix mode key)).labels = plainLabels d key :=
  mmapKey_labels _ hw.lnNodup

theorem bucket_labels (d : MDecl V) (hw : WFDecl d) (key : List Str) (hlen : key.length = d.decl.labelnames.length) (t : Str) :
    (mmapKey (bucketParam d key t)).labels = sortByKey (d.decl.labelnames.zip key ++ [(leName, t)]) := by
  rw [mmapKey_labels _ (snoc_nodup _ _ hw.lnNodup hw.noLe)]
  simp only [bucketParam]
  rw [zip_snoc _ _ _ _ hlen]

theorem zip_keys_mem (ln key : List Str) (kv : Str × Str) (h : kv ∈ ln.zip key) : kv.1 ∈ ln := (List.of_mem_zip h).1

theorem bucket_pairs_nodup (d : MDecl V) (hw : WFDecl d) (key : List Str) (t : Str) :
    ((d.decl.labelnames.zip key ++ [(leName, t)]).map (·.1)).Nodup := by
  rw [List.map_append, List.nodup_append]
  refine ⟨zip_nodupKeys _ _ hw.lnNodup, by simp, ?_⟩
  intro a ha b hb e
  simp only [List.map_cons, List.map_nil, List.mem_singleton] at hb
  subst hb; subst e
  obtain ⟨kv, hkv, e'⟩ := List.mem_map.mp ha
  exact hw.noLe (e' ▸ zip_keys_mem _ _ kv hkv)

theorem leText_plain (d : MDecl V) (hw : WFDecl d) (pid : Str) (disk : List (Str × Store V)) (typ suffix mode : Str)
    (key : List Str) : leText (contribOf d pid disk (plainParam d typ suffix mode key)) = none := by
  unfold leText
  simp only [contribOf]
  rw [plain_labels d hw]
  show Option.map (fun x : Str × Str => x.2) (List.find? (fun l : Str × Str => decide (l.1 = leName)) _) = none
  rw [find?_key_none]
  · rfl
  · intro hm
    obtain ⟨kv, hkv, e⟩ := List.mem_map.mp hm
    have := (PromVerif.Lemmas.GatewaySort.mem_sortByKey _ kv).mp hkv
    have e' : kv.1 = leName := e
    exact hw.noLe (e' ▸ zip_keys_mem _ _ kv this)

theorem leText_bucket (d : MDecl V) (hw : WFDecl d) (pid : Str) (disk : List (Str × Store V)) (key : List Str)
    (hlen : key.length = d.decl.labelnames.length) (t : Str) :
    leText (contribOf d pid disk (bucketParam d key t)) = some t := by
  unfold leText
  simp only [contribOf]
  rw [bucket_labels d hw key hlen t]
  show Option.map (fun x : Str × Str => x.2) (List.find? (fun l : Str × Str => decide (l.1 = leName)) _) = some t
  rw [find?_key_of_mem _ leName t (sortByKey_nodupKeys _ (bucket_pairs_nodup d hw key t))
      ((PromVerif.Lemmas.GatewaySort.mem_sortByKey _ _).mpr (by simp))]
  rfl

theorem withoutLe_bucket (d : MDecl V) (hw : WFDecl d) (pid : Str) (disk : List (Str × Store V)) (key : List Str)
    (hlen : key.length = d.decl.labelnames.length) (t : Str) :
    withoutLe (contribOf d pid disk (bucketParam d key t)) = plainLabels d key := by
  unfold withoutLe plainLabels
  simp only [contribOf]
  rw [bucket_labels d hw key hlen t]
  have : (fun l : Str × Str => decide (l.1 ≠ "le".toList)) = (fun l => decide (l.1 ≠ leName)) := rfl
  rw [this, filter_sortByKey _ _ (bucket_pairs_nodup d hw key t), List.filter_append]
  congr 1
  rw [filter_eq_self_of _ _ (fun kv hkv => by
    simp only [ne_eq, decide_not, Bool.not_eq_eq_eq_not, Bool.not_true, decide_eq_false_iff_not]
    intro e
    exact hw.noLe (e ▸ zip_keys_mem _ _ kv hkv))]
  simp

/-- what the declaration's bounds must satisfy for the two paths to print the same `le` labels: each rendered bound
reads back (`float(text)`) as a bound that renders to the same text — `floatToGoString` is a fixpoint on rendered
bounds (validated on every generated bound by the harness) — and the bounds read back are strictly increasing -/
structure BoundsOK (bo : BOps B) (d : MDecl V) (Bs : List B) : Prop where
  texts : leTexts d = Bs.map bo.fmt
  parse : ∀ b ∈ Bs, bo.parse (bo.fmt b) = some b
  nodup : Bs.Nodup
  sorted : Bs.Pairwise (fun a b => bo.lt b a = false)

/-- the bucket values of a child in bound order -/
def bucketVals (bo : BOps B) (d : MDecl V) (pid : Str) (disk : List (Str × Store V)) (Bs : List B)
    (ka : List Str × List (Action V)) : List V :=
  Bs.map (fun b => (cv pid disk (bucketParam d ka.1 (bo.fmt b))).1)

theorem zip_map_self_right {α β : Type} (l : List α) (g : α → β) : l.zip (l.map g) = l.map (fun a => (a, g a)) := by
  induction l with
  | nil => rfl
  | cons x xs ih => simp [ih]

/-- the bucket contributions of a histogram metric: one block per child -/
theorem bucketContribs_hist (bo : BOps B) (d : MDecl V) (hw : WFDecl d) (pid : Str) (disk : List (Str × Store V))
    (h : Hist V) (bs : List (V × Str)) (hk : d.decl.kind = .histogram bs) (Bs : List B) (hb : BoundsOK bo d Bs)
    (hlen : ∀ ka ∈ childList d h, ka.1.length = d.decl.labelnames.length) :
    bucketContribs bo (expContribs d pid disk h)
      = (childList d h).flatMap (bblock Bs (fun ka => plainLabels d ka.1) (bucketVals bo d pid disk Bs)) := by
  rw [expContribs_eq]
  unfold bucketContribs
  rw [List.filterMap_flatMap]
  apply flatMap_congr_mem
  intro ka hka
  rw [cellParams_eq]
  simp only [hk, List.map_cons, List.filterMap_cons, leText_plain d hw]
  rw [hb.texts, List.map_map, List.map_map, List.filterMap_map]
  unfold bblock bucketVals
  rw [zip_map_self_right, List.map_map]
  -- every bucket contribution survives the filter
  have : ∀ l : List B, (∀ b ∈ l, bo.parse (bo.fmt b) = some b) →
      l.filterMap ((fun c : Contrib V => match leText c with
          | some t => (bo.parse t).map (fun b => (withoutLe c, b, c.value))
          | none => none) ∘ (contribOf d pid disk ∘ bucketParam d ka.1 ∘ bo.fmt))
        = l.map ((fun p : B × V => (plainLabels d ka.1, p.1, p.2)) ∘
            fun a => (a, (cv pid disk (bucketParam d ka.1 (bo.fmt a))).1)) := by
    intro l hl
    induction l with
    | nil => rfl
    | cons b l ih =>
      rw [List.filterMap_cons, List.map_cons, ← ih (fun b' hb' => hl b' (List.mem_cons_of_mem _ hb'))]
      simp only [Function.comp, leText_bucket d hw pid disk ka.1 (hlen ka hka), hl b List.mem_cons_self, Option.map_some,
        withoutLe_bucket d hw pid disk ka.1 (hlen ka hka)]
      rfl
  exact this Bs hb.parse

/-- … and the contributions without `le`: the `_sum` cells -/
theorem plainContribs_hist (d : MDecl V) (hw : WFDecl d) (pid : Str) (disk : List (Str × Store V))
    (h : Hist V) (bs : List (V × Str)) (hk : d.decl.kind = .histogram bs)
    (hlen : ∀ ka ∈ childList d h, ka.1.length = d.decl.labelnames.length) :
    plainContribs (expContribs d pid disk h)
      = (childList d h).map (fun ka => contribOf d pid disk (plainParam d sHistogram sSum [] ka.1)) := by
  rw [expContribs_eq]
  unfold plainContribs
  rw [List.filter_flatMap]
  have : ∀ cl : List (List Str × List (Action V)), (∀ ka ∈ cl, ka.1.length = d.decl.labelnames.length) →
      cl.flatMap (fun ka => ((cellParams d ka.1).map (contribOf d pid disk)).filter (fun c => (leText c).isNone))
        = cl.map (fun ka => contribOf d pid disk (plainParam d sHistogram sSum [] ka.1)) := by
    intro cl hcl
    induction cl with
    | nil => rfl
    | cons ka cl ih =>
      rw [List.flatMap_cons, List.map_cons, ih (fun x hx => hcl x (List.mem_cons_of_mem _ hx)), cellParams_eq]
      simp only [hk, List.map_cons, List.map_map]
      rw [List.filter_cons_of_pos (by rw [leText_plain d hw]; rfl)]
      rw [filter_eq_nil_of _ _ (fun c hc => by
        obtain ⟨t, _, rfl⟩ := List.mem_map.mp hc
        simp only [Function.comp, leText_bucket d hw pid disk ka.1 (hcl ka List.mem_cons_self)]
        rfl)]
      rfl
  exact this _ hlen

end PromVerif.Lemmas.Backends
