/-
C05 lemmas, part 1: the escape chains character by character; escaped text against the grammar's quoted-string
scanner and automaton; the extracted name classes against the grammar's classes.
-/
import PromVerif.Model.Escape
import PromVerif.Spec.LineGrammar

namespace PromVerif.Lemmas.Lines
open PromVerif.Py PromVerif.Model.Escape PromVerif.Model.Validation
open PromVerif.Generated.Expo PromVerif.Generated.Validation
open PromVerif.Spec.LineGrammar hiding Str

-- chains ------------------------------------------------------------------------------------------------------
theorem replaceChar_append (a : Char) (x l1 l2 : Str) :
    replaceChar a x (l1 ++ l2) = replaceChar a x l1 ++ replaceChar a x l2 := by
  simp [replaceChar]

theorem applyChain_cons (p : Char × Str) (ps : List (Char × Str)) (s : Str) :
    applyChain (p :: ps) s = applyChain ps (replaceChar p.1 p.2 s) := rfl

theorem applyChain_append (ch : List (Char × Str)) (a b : Str) :
    applyChain ch (a ++ b) = applyChain ch a ++ applyChain ch b := by
  induction ch generalizing a b with
  | nil => rfl
  | cons p ps ih => simp only [applyChain_cons, replaceChar_append, ih]

theorem applyChain_nil (ch : List (Char × Str)) : applyChain ch [] = [] := by
  induction ch with
  | nil => rfl
  | cons p ps ih => simpa [applyChain_cons, replaceChar] using ih

/-- what `_escape` does to one character -/
def esc1 (c : Char) : Str :=
  if c = '\\' then ['\\', '\\'] else if c = '\n' then ['\\', 'n'] else if c = '"' then ['\\', '"'] else [c]

/-- what the HELP escaping of the text format does to one character -/
def hesc1 (c : Char) : Str :=
  if c = '\\' then ['\\', '\\'] else if c = '\n' then ['\\', 'n'] else [c]

theorem escape_single (c : Char) : escape [c] = esc1 c := by
  by_cases h1 : c = '\\'
  · subst h1; decide
  by_cases h2 : c = '\n'
  · subst h2; decide
  by_cases h3 : c = '"'
  · subst h3; decide
  simp [escape, applyChain, escapeChain, replaceChar, esc1, h1, h2, h3]

theorem escapeHelp_single (c : Char) : escapeHelp [c] = hesc1 c := by
  by_cases h1 : c = '\\'
  · subst h1; decide
  by_cases h2 : c = '\n'
  · subst h2; decide
  simp [escapeHelp, applyChain, helpChain, replaceChar, hesc1, h1, h2]

theorem escapeHelpTrailing_eq (s : Str) : escapeHelpTrailing s = escapeHelp s := by
  unfold escapeHelpTrailing escapeHelp; rfl

theorem escapeExemplarValue_eq (s : Str) : escapeExemplarValue s = escape s := by
  unfold escapeExemplarValue escape; rfl

@[simp] theorem escape_nil : escape [] = [] := applyChain_nil _
@[simp] theorem escapeHelp_nil : escapeHelp [] = [] := applyChain_nil _

theorem escape_cons (c : Char) (s : Str) : escape (c :: s) = esc1 c ++ escape s := by
  have h := applyChain_append escapeChain [c] s
  have h1 := escape_single c
  unfold escape at h1 ⊢
  rw [← h1]; exact h

theorem escapeHelp_cons (c : Char) (s : Str) : escapeHelp (c :: s) = hesc1 c ++ escapeHelp s := by
  have h := applyChain_append helpChain [c] s
  have h1 := escapeHelp_single c
  unfold escapeHelp at h1 ⊢
  rw [← h1]; exact h

-- (1) no raw LF, quotes escaped ------------------------------------------------------------------------------
theorem esc1_noLF (c : Char) : '\n' ∉ esc1 c := by
  unfold esc1; split
  · decide
  split
  · decide
  split
  · decide
  · next h1 h2 h3 => simp; exact fun e => h2 e.symm

theorem hesc1_noLF (c : Char) : '\n' ∉ hesc1 c := by
  unfold hesc1; split
  · decide
  split
  · decide
  · next h1 h2 => simp; exact fun e => h2 e.symm

theorem escape_noLF (s : Str) : '\n' ∉ escape s := by
  induction s with
  | nil => simp
  | cons c cs ih =>
    rw [escape_cons]; intro h
    rcases List.mem_append.mp h with h | h
    · exact esc1_noLF c h
    · exact ih h

theorem escapeHelp_noLF (s : Str) : '\n' ∉ escapeHelp s := by
  induction s with
  | nil => simp
  | cons c cs ih =>
    rw [escapeHelp_cons]; intro h
    rcases List.mem_append.mp h with h | h
    · exact hesc1_noLF c h
    · exact ih h

/-- the grammar's quoted-string scanner, started just after an opening quote, walks over `escape s` and stops at
the quote that follows it: every `"` inside `escape s` is escaped, and `escape s` never ends in an open escape -/
theorem qscan_escape (s rest : Str) : qscan false (escape s ++ '"' :: rest) = some rest := by
  induction s with
  | nil => simp [qscan]
  | cons c cs ih =>
    rw [escape_cons]
    by_cases h1 : c = '\\'
    · subst h1; simpa [esc1, qscan] using ih
    by_cases h2 : c = '\n'
    · subst h2; simpa [esc1, qscan] using ih
    by_cases h3 : c = '"'
    · subst h3; simpa [esc1, qscan] using ih
    simpa [esc1, qscan, h1, h2, h3] using ih

/-- the HELP escaping of the text format produces a docstring of the text format: every backslash it writes is half of
`\\\\` or starts `\\n`, and it writes no other backslash and no raw LF -/
theorem hscan_escapeHelp (s : Str) : hscan false (escapeHelp s) = true := by
  induction s with
  | nil => simp [hscan]
  | cons c cs ih =>
    rw [escapeHelp_cons]
    by_cases h1 : c = '\\'
    · subst h1; simpa [hesc1, hscan] using ih
    by_cases h2 : c = '\n'
    · subst h2; simpa [hesc1, hscan] using ih
    simpa [hesc1, hscan, h1, h2] using ih

/-- the same statement for the sample-line automaton -/
theorem run_escape (om : Bool) (k : Q) (s : Str) : run om (.q k false) (escape s) = .q k false := by
  induction s with
  | nil => simp [run]
  | cons c cs ih =>
    rw [escape_cons]
    unfold run at ih ⊢
    rw [List.foldl_append]
    by_cases h1 : c = '\\'
    · subst h1; simpa [esc1, step] using ih
    by_cases h2 : c = '\n'
    · subst h2; simpa [esc1, step] using ih
    by_cases h3 : c = '"'
    · subst h3; simpa [esc1, step] using ih
    simpa [esc1, step, h1, h2, h3] using ih

-- name classes ------------------------------------------------------------------------------------------------
theorem inClass_nameFirst (c : Char) (h : inClass metricNameRe.first c = true) : nameFirst c = true := by
  simp [inClass, metricNameRe] at h
  simp [nameFirst, labelFirst, isLower, isUpper, inRange]
  omega

theorem inClass_nameRest (c : Char) (h : inClass metricNameRe.rest c = true) : nameRest c = true := by
  simp [inClass, metricNameRe] at h
  simp [nameRest, nameFirst, labelFirst, isLower, isUpper, isDig, inRange]
  omega

theorem inClass_labelFirst (c : Char) (h : inClass labelNameRe.first c = true) : labelFirst c = true := by
  simp [inClass, labelNameRe] at h
  simp [labelFirst, isLower, isUpper, inRange]
  omega

theorem inClass_labelRest (c : Char) (h : inClass labelNameRe.rest c = true) : labelRest c = true := by
  simp [inClass, labelNameRe] at h
  simp [labelRest, labelFirst, isLower, isUpper, isDig, inRange]
  omega

/-- with an exact end anchor (`\\Z` in the pattern, or `fullmatch` at the call site) `matchName` is `matchExact` -/
theorem matchName_exact (re : NameRe) (full : Bool) (s : Str) (hd : (re.dollar && !full) = false)
    (hm : matchName re full s = true) : matchExact re s = true := by
  unfold matchName at hm
  rw [Bool.or_eq_true] at hm
  rcases hm with hm | hm
  · exact hm
  · rw [hd] at hm; simp at hm

/-- T1 facts (repaired F2): the legacy-name tests of the expositions use an exact end anchor -/
theorem metric_anchor_exact : (metricNameRe.dollar && !full_is_valid_legacy_metric_name) = false := by decide
theorem label_anchor_exact : (labelNameRe.dollar && !full_is_valid_legacy_labelname) = false := by decide

end PromVerif.Lemmas.Lines
