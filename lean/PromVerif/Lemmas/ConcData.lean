/-
Lemmas/ConcData — the data invariant of one cell `x` guarded by one lock `g`.

`disc g x blind pc m`: along continuation `pc`, started in mode `m`
   out    — `g` not held,
   held   — `g` held, the thread's register for `x` not known to be current,
   loaded — `g` held and the register equals the cell,
every `load x` / `store x` happens with `g` held, every `store x u` either follows a `load x` of the same critical section
or is blind (`ap u` ignores the REGISTER argument: a rebind, a subscript store, an `append`), and `g` is never re-acquired
while held.

Invariant (`DataInv`): per thread the `Shape` matching its mode, and for the ghost log of `x`
   * `LogOk`: every logged read returned, and every logged write was applied to, the value obtained by folding the
     earlier writes over the initial value — the log is a linearisation;
   * the cell holds the fold of the whole log;
   * applied updates ++ updates still pending in the continuations is a permutation of the updates of the programs.
-/
import PromVerif.Lemmas.ConcStep

set_option linter.unusedSectionVars false

namespace PromVerif.Model.Conc
open PromVerif.Generated.Locks

inductive Mode | out | held | loaded
deriving DecidableEq, Repr

section
variable {L X U V : Type} [DecidableEq L] [DecidableEq X]

def disc (g : L) (x : X) (blind : U → Bool) : List (Micro L X U) → Mode → Bool
  | [], _ => true
  | .acquire l :: r, m => if l = g then decide (m = .out) && disc g x blind r .held else disc g x blind r m
  | .release l :: r, m => if l = g then decide (m ≠ .out) && disc g x blind r .out else disc g x blind r m
  | .load y :: r, m => if y = x then decide (m ≠ .out) && disc g x blind r .loaded else disc g x blind r m
  | .store y u :: r, m =>
    if y = x then (decide (m = .loaded) || (decide (m = .held) && blind u)) && disc g x blind r .loaded
    else disc g x blind r m
  | .iterBegin _ :: r, m => disc g x blind r m
  | .iterEnd _ :: r, m => disc g x blind r m
  | .call _ _ :: r, m => disc g x blind r m
  | .yield :: r, m => disc g x blind r m

/-- the log is a linearisation: reads return, and writes are applied to, the fold of the earlier writes -/
def LogOk (ap : U → V → V) (v0 : V) : List (Ev U V) → Prop
  | [] => True
  | .rd _ v :: l => v = cur ap v0 l ∧ LogOk ap v0 l
  | .wr _ u v :: l => v = ap u (cur ap v0 l) ∧ LogOk ap v0 l

inductive Shape (g : L) (x : X) (blind : U → Bool) (cellx : V) (own : Option Tid) (i : Tid)
    (t : Thread L X U V) : Prop
  | out (d : disc g x blind t.pc .out = true) (o : own ≠ some i)
  | held (d : disc g x blind t.pc .held = true) (o : own = some i)
  | loaded (d : disc g x blind t.pc .loaded = true) (o : own = some i) (e : t.reg x = cellx)

structure DataInv (g : L) (x : X) (blind : U → Bool) (ap : U → V → V → V) (v0 : V) (all : List U)
    (s : St L X U V) : Prop where
  shape : ∀ i t, s.threads[i]? = some t → Shape g x blind (s.cell x) (s.owner g) i t
  cellEq : s.cell x = cur (lin ap) v0 (s.log x)
  logOk : LogOk (lin ap) v0 (s.log x)
  perm : (applied (s.log x) ++ pending x s.threads).Perm all

/-! ### `pending` under replacement of one thread record -/

theorem pending_split {ts : List (Thread L X U V)} {i : Nat} {t : Thread L X U V} (x : X)
    (h : ts[i]? = some t) (t' : Thread L X U V) :
    pending x ts = pending x (ts.take i) ++ stores x t.pc ++ pending x (ts.drop (i + 1)) ∧
    pending x (ts.set i t') = pending x (ts.take i) ++ stores x t'.pc ++ pending x (ts.drop (i + 1)) := by
  obtain ⟨hi, hget⟩ := List.getElem?_eq_some_iff.mp h
  have e1 : ts = ts.take i ++ t :: ts.drop (i + 1) := by
    have := List.set_eq_take_append_cons_drop (l := ts) (i := i) (a := t)
    rw [if_pos hi] at this
    rw [← this, ← hget, List.set_getElem_self]
  have e2 : ts.set i t' = ts.take i ++ t' :: ts.drop (i + 1) := by
    rw [List.set_eq_take_append_cons_drop, if_pos hi]
  constructor
  · conv => lhs; rw [e1]
    simp [pending]
  · rw [e2]; simp [pending]

theorem pending_set_same {ts : List (Thread L X U V)} {i : Nat} {t t' : Thread L X U V} (x : X)
    (h : ts[i]? = some t) (hs : stores x t'.pc = stores x t.pc) : pending x (ts.set i t') = pending x ts := by
  obtain ⟨a, b⟩ := pending_split x h t'
  rw [a, b, hs]

theorem pending_set_cons {ts : List (Thread L X U V)} {i : Nat} {t t' : Thread L X U V} (x : X) (u : U)
    (h : ts[i]? = some t) (hs : stores x t.pc = u :: stores x t'.pc) :
    (pending x ts).Perm (u :: pending x (ts.set i t')) := by
  obtain ⟨a, b⟩ := pending_split x h t'
  rw [a, b, hs]
  simp only [List.append_assoc, List.cons_append]
  exact List.perm_middle

/-! ### frame lemmas for the other threads -/

theorem Shape.of_owner_other {g : L} {x : X} {blind : U → Bool} {c c' : V} {own own' : Option Tid} {i j : Tid}
    {t : Thread L X U V} (h : Shape g x blind c own j t) (ho : own = some i) (hne : j ≠ i) (ho' : own' ≠ some j) :
    Shape g x blind c' own' j t := by
  cases h with
  | out d o => exact .out d ho'
  | held d o => rw [ho] at o; exact absurd (Option.some.inj o).symm hne
  | loaded d o e => rw [ho] at o; exact absurd (Option.some.inj o).symm hne

theorem Shape.of_owner_none {g : L} {x : X} {blind : U → Bool} {c c' : V} {own own' : Option Tid} {j : Tid}
    {t : Thread L X U V} (h : Shape g x blind c own j t) (ho : own = none) (ho' : own' ≠ some j) :
    Shape g x blind c' own' j t := by
  cases h with
  | out d o => exact .out d ho'
  | held d o => rw [ho] at o; cases o
  | loaded d o e => rw [ho] at o; cases o

/-- a step that leaves the cell, its log and the guard's owner alone and keeps thread `i`'s shape -/
theorem dataInv_local {g : L} {x : X} {blind : U → Bool} {ap : U → V → V → V} {v0 : V} {all : List U}
    {s s' : St L X U V} {i : Tid} {t t' : Thread L X U V}
    (inv : DataInv g x blind ap v0 all s) (ht : s.threads[i]? = some t)
    (hc : s'.cell x = s.cell x) (ho : s'.owner g = s.owner g) (hl : s'.log x = s.log x)
    (hthr : s'.threads = s.threads.set i t')
    (hsh : Shape g x blind (s.cell x) (s.owner g) i t')
    (hst : stores x t'.pc = stores x t.pc) : DataInv g x blind ap v0 all s' := by
  constructor
  · intro j tj hj
    rw [hthr] at hj
    rw [hc, ho]
    rcases getElem?_set_cases hj with ⟨rfl, rfl, _⟩ | ⟨hne, hj'⟩
    · exact hsh
    · exact inv.shape j tj hj'
  · rw [hc, hl]; exact inv.cellEq
  · rw [hl]; exact inv.logOk
  · rw [hl, hthr, pending_set_same x ht hst]; exact inv.perm

/-- moving past a micro-step that `disc` ignores keeps the shape -/
theorem Shape.advance {g : L} {x : X} {blind : U → Bool} {c : V} {own : Option Tid} {i : Tid}
    {t t' : Thread L X U V} (h : Shape g x blind c own i t)
    (hd : ∀ m, disc g x blind t.pc m = true → disc g x blind t'.pc m = true)
    (hr : t'.reg x = t.reg x) : Shape g x blind c own i t' := by
  cases h with
  | out d o => exact .out (hd _ d) o
  | held d o => exact .held (hd _ d) o
  | loaded d o e => exact .loaded (hd _ d) o (hr ▸ e)

theorem dataInv_init {g : L} {x : X} {blind : U → Bool} {ap : U → V → V → V} (c0 : X → V)
    (progs : List (List (Micro L X U))) (h : ∀ p ∈ progs, disc g x blind p .out = true) :
    DataInv g x blind ap (c0 x) (pending x (init c0 progs).threads) (init c0 progs) := by
  constructor
  · intro i t ht
    simp only [init, List.getElem?_map] at ht
    cases hp : progs[i]? with
    | none => simp [hp] at ht
    | some p =>
      simp [hp] at ht
      subst ht
      exact .out (h p (List.mem_of_getElem? hp)) (by simp [init])
  · simp [init, cur, applied]
  · simp [init, LogOk]
  · simp [init, applied]

theorem dataInv_step {g : L} {x : X} {blind : U → Bool} {ap : U → V → V → V} {v0 : V} {all : List U}
    (hblind : ∀ u, blind u = true → ∀ a b c, ap u a c = ap u b c)
    {s s' : St L X U V} {i : Tid}
    (inv : DataInv g x blind ap v0 all s) (h : step ap s i = some s') : DataInv g x blind ap v0 all s' := by
  obtain ⟨t, m, r, ht, hpc, he⟩ := step_some h
  have hsh := inv.shape i t ht
  cases he with
  | acquire l r ho =>
    by_cases hlg : l = g
    · subst hlg
      -- thread i was outside; now holds the guard
      have hnew : Shape l x blind (s.cell x) (some i) i { t with pc := r, held := l :: t.held } := by
        cases hsh with
        | out d o => rw [hpc] at d; simp [disc] at d; exact .held d (rfl)
        | held d o => rw [ho] at o; cases o
        | loaded d o e => rw [ho] at o; cases o
      constructor
      · intro j tj hj
        simp only at hj
        simp only [upd_same]
        rcases getElem?_set_cases hj with ⟨rfl, rfl, _⟩ | ⟨hne, hj'⟩
        · exact hnew
        · exact (inv.shape j tj hj').of_owner_none ho (fun e => hne (Option.some.inj e).symm)
      · exact inv.cellEq
      · exact inv.logOk
      · simp only; rw [pending_set_same x ht (by simp [hpc, stores])]; exact inv.perm
    · refine dataInv_local inv ht rfl (by simp [upd_ne _ _ (Ne.symm hlg)]) rfl rfl ?_ (by simp [hpc, stores])
      exact hsh.advance (fun m d => by rw [hpc] at d; simpa [disc, hlg] using d) rfl
  | release l r ho =>
    by_cases hlg : l = g
    · subst hlg
      have hnew : Shape l x blind (s.cell x) none i { t with pc := r, held := t.held.erase l } := by
        cases hsh with
        | out d o => exact absurd ho o
        | held d o => rw [hpc] at d; simp [disc] at d; exact .out d (by simp)
        | loaded d o e => rw [hpc] at d; simp [disc] at d; exact .out d (by simp)
      constructor
      · intro j tj hj
        simp only at hj
        simp only [upd_same]
        rcases getElem?_set_cases hj with ⟨rfl, rfl, _⟩ | ⟨hne, hj'⟩
        · exact hnew
        · exact (inv.shape j tj hj').of_owner_other ho hne (by simp)
      · exact inv.cellEq
      · exact inv.logOk
      · simp only; rw [pending_set_same x ht (by simp [hpc, stores])]; exact inv.perm
    · refine dataInv_local inv ht rfl (by simp [upd_ne _ _ (Ne.symm hlg)]) rfl rfl ?_ (by simp [hpc, stores])
      exact hsh.advance (fun m d => by rw [hpc] at d; simpa [disc, hlg] using d) rfl
  | load y r =>
    by_cases hyx : y = x
    · subst hyx
      have hnew : Shape g y blind (s.cell y) (s.owner g) i { t with pc := r, reg := upd t.reg y (s.cell y) } := by
        cases hsh with
        | out d o => rw [hpc] at d; simp [disc] at d
        | held d o => rw [hpc] at d; simp [disc] at d; exact .loaded d o (by simp)
        | loaded d o e => rw [hpc] at d; simp [disc] at d; exact .loaded d o (by simp)
      constructor
      · intro j tj hj
        simp only at hj
        rcases getElem?_set_cases hj with ⟨rfl, rfl, _⟩ | ⟨hne, hj'⟩
        · exact hnew
        · exact inv.shape j tj hj'
      · simp only [upd_same, cur, applied]; exact inv.cellEq
      · simp only [upd_same, LogOk]; exact ⟨inv.cellEq, inv.logOk⟩
      · simp only [upd_same, applied]; rw [pending_set_same y ht (by simp [hpc, stores])]; exact inv.perm
    · refine dataInv_local inv ht rfl rfl (by simp [upd_ne _ _ (Ne.symm hyx)]) rfl ?_ (by simp [hpc, stores])
      exact hsh.advance (fun m d => by rw [hpc] at d; simpa [disc, hyx] using d) (by simp [upd_ne _ _ (Ne.symm hyx)])
  | store y u r =>
    by_cases hyx : y = x
    · subst hyx
      -- the stored value is `ap u` of the current cell
      have hval : ap u (t.reg y) (s.cell y) = lin ap u (s.cell y) ∧ s.owner g = some i ∧ disc g y blind r .loaded = true := by
        cases hsh with
        | out d o => rw [hpc] at d; simp [disc] at d
        | held d o =>
          rw [hpc] at d; simp [disc] at d
          exact ⟨hblind u d.1 _ _ _, o, d.2⟩
        | loaded d o e => rw [hpc] at d; simp [disc] at d; exact ⟨by rw [e]; rfl, o, d⟩
      obtain ⟨hv, hown, hd⟩ := hval
      constructor
      · intro j tj hj
        simp only at hj
        simp only [upd_same]
        rcases getElem?_set_cases hj with ⟨rfl, rfl, _⟩ | ⟨hne, hj'⟩
        · exact .loaded hd hown (by simp)
        · exact (inv.shape j tj hj').of_owner_other hown hne
            (by rw [hown]; exact fun e => hne (Option.some.inj e).symm)
      · simp only [upd_same, cur, applied, List.foldr_cons]
        rw [hv, inv.cellEq]; rfl
      · simp only [upd_same, LogOk]
        exact ⟨by rw [hv, inv.cellEq], inv.logOk⟩
      · simp only [upd_same, applied]
        have hp := pending_set_cons (t' := { t with pc := r, reg := upd t.reg y (ap u (t.reg y) (s.cell y)) }) y u ht
          (by simp [hpc, stores])
        refine List.Perm.trans ?_ inv.perm
        simp only [List.cons_append]
        refine List.Perm.trans ?_ (List.Perm.append_left _ hp.symm)
        exact List.perm_middle.symm
    · refine dataInv_local inv ht (by simp [upd_ne _ _ (Ne.symm hyx)]) rfl (by simp [upd_ne _ _ (Ne.symm hyx)]) rfl ?_
        (by simp [hpc, stores, hyx])
      exact hsh.advance (fun m d => by rw [hpc] at d; simpa [disc, hyx] using d) (by simp [upd_ne _ _ (Ne.symm hyx)])
  | iterBegin y r =>
    refine dataInv_local inv ht rfl rfl rfl rfl ?_ (by simp [hpc, stores])
    exact hsh.advance (fun m d => by rw [hpc] at d; simpa [disc] using d) rfl
  | iterEnd y r =>
    refine dataInv_local inv ht rfl rfl rfl rfl ?_ (by simp [hpc, stores])
    exact hsh.advance (fun m d => by rw [hpc] at d; simpa [disc] using d) rfl
  | call b c r =>
    refine dataInv_local inv ht rfl rfl rfl rfl ?_ (by simp [hpc, stores])
    exact hsh.advance (fun m d => by rw [hpc] at d; simpa [disc] using d) rfl
  | yield r =>
    refine dataInv_local inv ht rfl rfl rfl rfl ?_ (by simp [hpc, stores])
    exact hsh.advance (fun m d => by rw [hpc] at d; simpa [disc] using d) rfl

theorem dataInv_run {g : L} {x : X} {blind : U → Bool} {ap : U → V → V → V}
    (hblind : ∀ u, blind u = true → ∀ a b c, ap u a c = ap u b c) (c0 : X → V)
    (progs : List (List (Micro L X U))) (h : ∀ p ∈ progs, disc g x blind p .out = true) (sched : List Tid) :
    DataInv g x blind ap (c0 x) (pending x (init c0 progs).threads) (run ap (init c0 progs) sched) :=
  run_induction _ (fun _ _ _ inv hs => dataInv_step hblind inv hs) sched _ (dataInv_init c0 progs h)

theorem pending_finished {s : St L X U V} (x : X) (h : finished s) : pending x s.threads = [] := by
  unfold pending
  unfold finished at h
  generalize s.threads = ts at h
  induction ts with
  | nil => rfl
  | cons t rest ih =>
    have ht : t.pc = [] := h t List.mem_cons_self
    have := ih (fun t' hm => h t' (List.mem_cons_of_mem _ hm))
    simp only [List.map_cons, List.flatten_cons, ht, stores, List.nil_append]
    exact this

end
end PromVerif.Model.Conc
