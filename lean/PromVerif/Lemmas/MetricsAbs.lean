/-
C01 helper lemmas, part 2: the model state is an abstraction of the history of accepted calls.
`metricOf d h` is the metric object whose every child is the replay, from `_metric_init`, of the calls accepted since
the child was created; `stepM_abs`: one model step on `metricOf d h` lands on `metricOf d h'` where `h'` records what
the step accepted.
-/
import PromVerif.Lemmas.MetricsBasic
import PromVerif.Spec.Metrics

namespace PromVerif.Lemmas.Metrics
open PromVerif.Py PromVerif.Model.Metrics PromVerif.Generated.Metrics
open PromVerif.Spec.Metrics (Hist keyOf appendAt recordOn modifyNth record history)

variable {V : Type} [Val V]

/-- replay of accepted calls on a fresh child -/
def childOf (d : Decl V) (acts : List (Action V)) : Child V :=
  acts.foldl (fun c a => upd d a c) (metricInit d.kind)

theorem childOf_nil (d : Decl V) : childOf d [] = metricInit d.kind := rfl

theorem childOf_snoc (d : Decl V) (acts : List (Action V)) (a : Action V) :
    childOf d (acts ++ [a]) = upd d a (childOf d acts) := by
  simp [childOf, List.foldl_append]

def metricOf (d : Decl V) (h : Hist V) : Metric V :=
  { decl := d
    single := if d.labelnames.isEmpty then some (childOf d h.single) else none
    children := h.table.map (fun kh => (kh.1, childOf d kh.2)) }

theorem fresh_eq_metricOf (d : Decl V) : Metric.fresh d = metricOf d Hist.empty := by
  simp [Metric.fresh, metricOf, Hist.empty, childOf_nil]

/-- every recorded call was accepted -/
def AllOk (d : Decl V) (h : Hist V) : Prop :=
  (d.labelnames.isEmpty = true → ∀ a ∈ h.single, okAct d a) ∧ ∀ kh ∈ h.table, ∀ a ∈ kh.2, okAct d a

theorem allOk_empty (d : Decl V) : AllOk d Hist.empty := by
  simp [AllOk, Hist.empty]

/-- what one step on a metric object contributes to its history of accepted calls -/
def acceptedM (m : Metric V) (op : Op V) : Option (Op V) :=
  match (stepM m op).2 with
  | .ok => some op
  | .raised _ =>
    match op.touchOf with
    | some t => if (stepM m t).2 = .ok then some t else none
    | none => none

/-! ### key resolution -/

theorem kwLookup_eq_find (l : Str) (kw : List (Str × PyVal)) :
    kwLookup l kw = (kw.find? (fun kv => kv.1 = l)).map (·.2) := by
  induction kw with
  | nil => rfl
  | cons kv t ih =>
    simp only [kwLookup, List.find?]
    by_cases hk : kv.1 = l <;> simp [hk, ih]

theorem mapM_kw_ok (kw : List (Str × PyVal)) (ls : List Str) (ys : List Str)
    (h : ls.mapM (fun l => match kwLookup l kw with
      | some v => (Except.ok (pyStr v) : PyM Str)
      | none => .error .keyError) = .ok ys) :
    ys = ls.map (Spec.Metrics.kwValue kw) := by
  induction ls generalizing ys with
  | nil => simp [pure, Except.pure] at h; simp [h]
  | cons l ls ih =>
    rw [List.mapM_cons] at h
    rw [kwLookup_eq_find] at h
    cases hf : kw.find? (fun kv => kv.1 = l) with
    | none => simp [hf, bind, Except.bind] at h
    | some kv =>
      simp only [hf, Option.map, bind, Except.bind] at h
      cases hr : ls.mapM (fun l => match kwLookup l kw with
          | some v => (Except.ok (pyStr v) : PyM Str)
          | none => .error .keyError) with
      | error e => simp [hr] at h
      | ok zs =>
        simp [hr, pure, Except.pure] at h
        subst h
        simp [ih zs hr, Spec.Metrics.kwValue, hf]

/-- a `labels()` call that passes the model's checks addresses the child the reference names -/
theorem resolve_keyOf (ln : List Str) (args : List PyVal) (kw : List (Str × PyVal)) (key : List Str)
    (h : resolveLabels ln args kw = .ok key) : keyOf ln (.labels args kw) = some key := by
  unfold resolveLabels at h
  split at h
  · simp at h
  · split at h
    · next hkw =>
      split at h
      · simp at h
      · simp only [kwValues, kwargsValueOrder] at h
        have := mapM_kw_ok kw ln key h
        have hkw' : kw.isEmpty = false := by simpa using hkw
        simp [keyOf, hkw', this]
    · next hkw =>
      split at h
      · simp at h
      · have hkw' : kw.isEmpty = true := by simpa using hkw
        simp at h
        simp [keyOf, hkw', h]

/-! ### the child table against the history table -/

theorem treplace_map_appendAt (d : Decl V) (k : List Str) (a : Action V) (t : List (List Str × List (Action V)))
    (acts : List (Action V)) (h : tlookup k t = some acts) :
    treplace k (childOf d (acts ++ [a])) (t.map (fun kh => (kh.1, childOf d kh.2)))
      = (appendAt k a t).map (fun kh => (kh.1, childOf d kh.2)) := by
  induction t with
  | nil => simp [tlookup] at h
  | cons kh t ih =>
    simp only [tlookup] at h
    by_cases hk : kh.1 = k
    · simp [hk] at h
      simp [treplace, appendAt, hk, h]
    · simp [hk] at h
      simp [treplace, appendAt, hk, ih h]

theorem appendAt_new (k : List Str) (a : Action V) (t : List (List Str × List (Action V))) (h : tlookup k t = none) :
    appendAt k a t = t ++ [(k, [a])] := by
  induction t with
  | nil => rfl
  | cons kh t ih =>
    simp only [tlookup] at h
    by_cases hk : kh.1 = k
    · simp [hk] at h
    · simp [hk] at h
      simp [appendAt, hk, ih h]

theorem mem_appendAt (k : List Str) (a : Action V) (t : List (List Str × List (Action V))) (kh : List Str × List (Action V))
    (hm : kh ∈ appendAt k a t) : ∀ b ∈ kh.2, b = a ∨ ∃ kh' ∈ t, b ∈ kh'.2 := by
  induction t with
  | nil =>
    simp [appendAt] at hm
    subst hm
    intro b hb
    simp at hb
    exact Or.inl hb
  | cons x t ih =>
    simp only [appendAt] at hm
    split at hm
    · rcases List.mem_cons.mp hm with hm | hm
      · subst hm
        intro b hb
        simp at hb
        rcases hb with hb | hb
        · exact Or.inr ⟨x, by simp, hb⟩
        · exact Or.inl hb
      · intro b hb
        exact Or.inr ⟨kh, by simp [hm], hb⟩
    · rcases List.mem_cons.mp hm with hm | hm
      · subst hm
        intro b hb
        exact Or.inr ⟨kh, by simp, hb⟩
      · intro b hb
        rcases ih hm b hb with h | ⟨kh', hk', hb'⟩
        · exact Or.inl h
        · exact Or.inr ⟨kh', by simp [hk'], hb'⟩


def recOpt (d : Decl V) (h : Hist V) : Option (Op V) → Hist V
  | some o => recordOn d.labelnames h o
  | none => h

theorem stepM_none_abs (d : Decl V) (h : Hist V) (i : Nat) (act : Action V) (hok : AllOk d h) :
    (stepM (metricOf d h) (.call i .none act)).1
        = metricOf d (recOpt d h (acceptedM (metricOf d h) (.call i .none act)))
      ∧ AllOk d (recOpt d h (acceptedM (metricOf d h) (.call i .none act))) := by
  cases hl : d.labelnames.isEmpty with
  | true =>
    have hs : (metricOf d h).single = some (childOf d h.single) := by simp [metricOf, hl]
    cases hout : (callMethod d true act (some (childOf d h.single))).2 with
    | ok =>
      have hacc : acceptedM (metricOf d h) (.call i .none act) = some (.call i .none act) := by
        simp [acceptedM, stepM, stepCall, hl, metricOf, hout]
      rw [hacc]
      refine ⟨?_, ?_⟩
      · simp [stepM, stepCall, metricOf, hl, recOpt, recordOn, keyOf, callMethod_some, childOf_snoc]
      · refine ⟨fun _ a ha => ?_, hok.2⟩
        simp [recOpt, recordOn, keyOf] at ha
        rcases ha with ha | ha
        · exact hok.1 hl a ha
        · subst ha; exact okAct_of_ok d _ _ hout
    | raised e =>
      have hacc : acceptedM (metricOf d h) (.call i .none act) = none := by
        simp [acceptedM, stepM, stepCall, hl, metricOf, hout, Op.touchOf]
      rw [hacc]
      refine ⟨?_, hok⟩
      simp [stepM, stepCall, metricOf, hl, recOpt, callMethod_some, upd_of_raised d act _ e hout]
  | false =>
    have hs : (metricOf d h).single = none := by simp [metricOf, hl]
    have h1 : (stepM (metricOf d h) (.call i .none act)).1 = metricOf d h := by
      simp [stepM, stepCall, metricOf, hl, callMethod_none]
    rw [h1]
    cases hacc : acceptedM (metricOf d h) (.call i .none act) with
    | none => exact ⟨rfl, hok⟩
    | some o =>
      have ho : o = .call i .none act := by
        unfold acceptedM at hacc
        split at hacc
        · simpa using hacc.symm
        · simp [Op.touchOf] at hacc
      subst ho
      refine ⟨?_, ?_⟩
      · simp [metricOf, hl, recOpt, recordOn, keyOf]
      · exact ⟨fun hh => by simp [hl] at hh, by simpa [recOpt, recordOn, keyOf] using hok.2⟩

theorem stepCall_labels_ok (m : Metric V) (args : List PyVal) (kw : List (Str × PyVal)) (key : List Str) (act : Action V)
    (hres : resolveLabels m.decl.labelnames args kw = .ok key) :
    stepCall m (.labels args kw) act
      = ({ (getChild m key).1 with
            children := treplace key (upd m.decl act (getChild m key).2) (getChild m key).1.children },
         (callMethod m.decl true act (some (getChild m key).2)).2) := by
  simp [stepCall, hres, callMethod_some]

theorem stepCall_labels_err (m : Metric V) (args : List PyVal) (kw : List (Str × PyVal)) (e : PyErr) (act : Action V)
    (hres : resolveLabels m.decl.labelnames args kw = .error e) :
    stepCall m (.labels args kw) act = (m, .raised e) := by
  simp [stepCall, hres]

/-- the call an addressed step contributes: the method call when it returned, else `labels()` alone -/
theorem acceptedM_labels_ok (m : Metric V) (i : Nat) (args : List PyVal) (kw : List (Str × PyVal)) (key : List Str)
    (act : Action V) (hres : resolveLabels m.decl.labelnames args kw = .ok key) :
    ∃ a', acceptedM m (.call i (.labels args kw) act) = some (.call i (.labels args kw) a')
      ∧ upd m.decl act (getChild m key).2 = upd m.decl a' (getChild m key).2 ∧ okAct m.decl a' := by
  cases hout : (callMethod m.decl true act (some (getChild m key).2)).2 with
  | ok =>
    refine ⟨act, ?_, rfl, okAct_of_ok _ _ _ hout⟩
    simp [acceptedM, stepM, stepCall_labels_ok m args kw key act hres, hout]
  | raised e =>
    refine ⟨.touch, ?_, ?_, okAct_touch _⟩
    · simp [acceptedM, stepM, stepCall_labels_ok m args kw key _ hres, hout, Op.touchOf, callMethod_touch]
    · rw [upd_of_raised _ _ _ e hout, upd_touch]

theorem stepM_labels_abs (d : Decl V) (h : Hist V) (i : Nat) (args : List PyVal) (kw : List (Str × PyVal))
    (act : Action V) (hok : AllOk d h) :
    (stepM (metricOf d h) (.call i (.labels args kw) act)).1
        = metricOf d (recOpt d h (acceptedM (metricOf d h) (.call i (.labels args kw) act)))
      ∧ AllOk d (recOpt d h (acceptedM (metricOf d h) (.call i (.labels args kw) act))) := by
  have hd : (metricOf d h).decl = d := rfl
  cases hres : resolveLabels d.labelnames args kw with
  | error e =>
    have hacc : acceptedM (metricOf d h) (.call i (.labels args kw) act) = none := by
      simp [acceptedM, stepM, stepCall_labels_err (metricOf d h) args kw e _ (by rw [hd]; exact hres), Op.touchOf]
    rw [hacc]
    exact ⟨by simp [stepM, stepCall_labels_err (metricOf d h) args kw e _ (by rw [hd]; exact hres), recOpt], hok⟩
  | ok key =>
    have hres' : resolveLabels (metricOf d h).decl.labelnames args kw = .ok key := by rw [hd]; exact hres
    obtain ⟨a', hacc, hupd, hoka⟩ := acceptedM_labels_ok (metricOf d h) i args kw key act hres'
    have hkey := resolve_keyOf d.labelnames args kw key hres
    rw [hacc]
    simp only [stepM, stepCall_labels_ok (metricOf d h) args kw key act hres', hupd, recOpt, recordOn, hkey]
    rw [hd] at hoka ⊢
    cases hlk : tlookup key h.table with
    | some acts0 =>
      have hg : getChild (metricOf d h) key = (metricOf d h, childOf d acts0) := by
        simp [getChild, metricOf, tlookup_map, hlk]
      refine ⟨?_, hok.1, ?_⟩
      · rw [hg]
        simp only [metricOf]
        rw [← childOf_snoc, treplace_map_appendAt d key a' h.table acts0 hlk]
      · intro kh hm b hb
        rcases mem_appendAt key a' h.table kh hm b hb with hb | ⟨kh', hk', hb'⟩
        · subst hb; exact hoka
        · exact hok.2 kh' hk' b hb'
    | none =>
      have hg : getChild (metricOf d h) key
          = ({ metricOf d h with children := (metricOf d h).children ++ [(key, metricInit d.kind)] }, metricInit d.kind) := by
        simp [getChild, metricOf, tlookup_map, hlk]
      refine ⟨?_, hok.1, ?_⟩
      · rw [hg, appendAt_new key a' h.table hlk]
        simp only [metricOf]
        rw [treplace_append_new key _ _ _ (by simp [tlookup_map, hlk])]
        simp [childOf]
      · intro kh hm b hb
        rcases mem_appendAt key a' h.table kh hm b hb with hb | ⟨kh', hk', hb'⟩
        · subst hb; exact hoka
        · exact hok.2 kh' hk' b hb'
theorem stepM_remove_abs (d : Decl V) (h : Hist V) (i : Nat) (vs : List PyVal) (hok : AllOk d h) :
    (stepM (metricOf d h) (.remove i vs)).1 = metricOf d (recOpt d h (acceptedM (metricOf d h) (.remove i vs)))
      ∧ AllOk d (recOpt d h (acceptedM (metricOf d h) (.remove i vs))) := by
  cases hout : (stepRemove (metricOf d h) vs).2 with
  | ok =>
    have hacc : acceptedM (metricOf d h) (.remove i vs) = some (.remove i vs) := by
      simp [acceptedM, stepM, hout]
    rw [hacc]
    unfold stepRemove at hout
    split at hout
    · simp at hout
    · split at hout
      · simp at hout
      · next h1 h2 =>
        refine ⟨?_, hok.1, ?_⟩
        · simp only [stepM, stepRemove, h1, h2, recOpt, recordOn]
          simp [metricOf, terase, List.filter_map, Function.comp_def]
        · intro kh hm
          simp only [recOpt, recordOn] at hm
          exact hok.2 kh (List.mem_filter.mp hm).1
  | raised e =>
    have hacc : acceptedM (metricOf d h) (.remove i vs) = none := by
      simp [acceptedM, stepM, hout, Op.touchOf]
    rw [hacc]
    refine ⟨?_, hok⟩
    unfold stepRemove at hout
    simp only [stepM, stepRemove, recOpt]
    split
    · rfl
    · next h1 =>
      split
      · rfl
      · next h2 => simp [h1, h2] at hout

theorem stepM_clear_abs (d : Decl V) (h : Hist V) (i : Nat) (hok : AllOk d h) :
    (stepM (metricOf d h) (.clear i)).1 = metricOf d (recOpt d h (acceptedM (metricOf d h) (.clear i)))
      ∧ AllOk d (recOpt d h (acceptedM (metricOf d h) (.clear i))) := by
  by_cases hl : hasLock d = true
  · have hacc : acceptedM (metricOf d h) (.clear i) = some (.clear i) := by
      simp [acceptedM, stepM, stepClear, metricOf, hl]
    rw [hacc]
    refine ⟨?_, hok.1, ?_⟩
    · simp [stepM, stepClear, metricOf, hl, recOpt, recordOn]
    · simp [recOpt, recordOn]
  · have hacc : acceptedM (metricOf d h) (.clear i) = none := by
      simp [acceptedM, stepM, stepClear, metricOf, hl, Op.touchOf]
    rw [hacc]
    exact ⟨by simp [stepM, stepClear, metricOf, hl, recOpt], hok⟩

/-- **Abstraction step.**  One model step on the metric that replays the history `h` lands on the metric that replays
`h` extended by what the step accepted; every recorded call was accepted. -/
theorem stepM_abs (d : Decl V) (h : Hist V) (op : Op V) (hok : AllOk d h) :
    (stepM (metricOf d h) op).1 = metricOf d (recOpt d h (acceptedM (metricOf d h) op))
      ∧ AllOk d (recOpt d h (acceptedM (metricOf d h) op)) := by
  cases op with
  | call i addr act =>
    cases addr with
    | none => exact stepM_none_abs d h i act hok
    | labels args kw => exact stepM_labels_abs d h i args kw act hok
  | remove i vs => exact stepM_remove_abs d h i vs hok
  | clear i => exact stepM_clear_abs d h i hok

end PromVerif.Lemmas.Metrics
