/-
C12: from the directory of the file-backed run to the collector's input.  The directory is the listing of `SFile`s
(type, mode, pid, entries) the C08 theorems speak about (`files_eq`), and the contributions to the family of metric `d`
are exactly the entries of its value objects, child by child in creation order (`contribs_eq`).
-/
import PromVerif.Lemmas.BackendsRun
import PromVerif.Lemmas.MultiprocessCompose

namespace PromVerif.Lemmas.Backends
open PromVerif.Py PromVerif.Generated.Multiprocess
open PromVerif.Model.Metrics (Val Decl Kind Child Action)
open PromVerif.Model.Multiprocess
open PromVerif.Model.Values
open PromVerif.Model.Backends
open PromVerif.Spec.Metrics (Hist)
open PromVerif.Spec.Multiprocess
set_option autoImplicit false
set_option linter.unusedSectionVars false

variable {V : Type} [Val V]

/-- `multiprocess_mode` as the value objects of the metric see it -/
def modeOfDecl (d : MDecl V) : Str := if isGauge d then d.mode else []

theorem cellParams_typ (d : MDecl V) (lv : List Str) (p : Params) (h : p ∈ cellParams d lv) :
    p.typ = typStr d.decl.kind ∧ p.mode = modeOfDecl d := by
  rw [cellParams_eq] at h
  unfold modeOfDecl isGauge
  cases hk : d.decl.kind <;> simp only [hk, List.mem_cons, List.mem_map, List.not_mem_nil, or_false] at h ⊢
  · subst h; exact ⟨rfl, rfl⟩
  · subst h; exact ⟨rfl, rfl⟩
  · rcases h with h | h <;> subst h <;> exact ⟨rfl, rfl⟩
  · rcases h with h | ⟨t, _, h⟩ <;> subst h <;> exact ⟨rfl, rfl⟩

theorem gauge_prefix_head (m : Str) : ("gauge".toList ++ gaugePrefixSep ++ m).head? = some 'g' := by
  have : "gauge".toList = ['g', 'a', 'u', 'g', 'e'] := by rfl
  simp [this]

theorem nongauge_head (k : Kind V) (hs : match k with | .counter => True | .summary => True | .histogram _ => True | _ => False) :
    (typStr k).head? ≠ some 'g' := by
  cases k with
  | counter =>
    have : ("counter".toList).head? = some 'c' := by rfl
    show ("counter".toList).head? ≠ some 'g'
    rw [this]; decide
  | summary =>
    have : ("summary".toList).head? = some 's' := by rfl
    show ("summary".toList).head? ≠ some 'g'
    rw [this]; decide
  | histogram bs =>
    have : ("histogram".toList).head? = some 'h' := by rfl
    show ("histogram".toList).head? ≠ some 'g'
    rw [this]; decide
  | gauge => exact absurd hs id
  | info => exact absurd hs id
  | enum s => exact absurd hs id

theorem flatMap_congr_mem {α β : Type} (l : List α) (f g : α → List β) (h : ∀ x ∈ l, f x = g x) :
    l.flatMap f = l.flatMap g := by
  induction l with
  | nil => rfl
  | cons x xs ih =>
    rw [List.flatMap_cons, List.flatMap_cons, h x List.mem_cons_self,
      ih (fun y hy => h y (List.mem_cons_of_mem _ hy))]

/-- the file prefix determines type and (for gauges) mode -/
theorem prefix_inj (d d' : MDecl V) (hs : Supported d) (hs' : Supported d') (h : prefixOf d = prefixOf d') :
    typStr d.decl.kind = typStr d'.decl.kind ∧ modeOfDecl d = modeOfDecl d' := by
  unfold prefixOf modeOfDecl at *
  cases hg : isGauge d <;> cases hg' : isGauge d' <;> simp only [hg, hg', Bool.false_eq_true, if_false, if_true] at h ⊢
  · exact ⟨h, trivial⟩
  · exfalso
    have := congrArg List.head? h
    rw [gauge_prefix_head] at this
    refine nongauge_head d.decl.kind ?_ this
    unfold Supported at hs; unfold isGauge at hg
    cases hk : d.decl.kind <;> simp_all
  · exfalso
    have := congrArg List.head? h
    rw [gauge_prefix_head] at this
    refine nongauge_head d'.decl.kind ?_ this.symm
    unfold Supported at hs'; unfold isGauge at hg'
    cases hk : d'.decl.kind <;> simp_all
  · refine ⟨?_, List.append_cancel_left h⟩
    unfold isGauge at hg hg'
    cases hk : d.decl.kind <;> cases hk' : d'.decl.kind <;> simp_all

/-- the `(type, mode, pid, entries)` view of one file of the directory -/
def sfileOf (ps : List Params) (pid : Str) (f : Str × Store V) : SFile V :=
  match ps.find? (fun p => decide (fileOf pid p = f.1)) with
  | some p => ⟨p.typ, p.mode, pid, f.2⟩
  | none => ⟨[], [], pid, f.2⟩

def sfilesOf (ps : List Params) (pid : Str) (st : St V) : List (SFile V) := st.disk.map (sfileOf ps pid)

theorem sfileOf_found (ps : List Params) (pid : Str) (f : Str × Store V) (h : ∃ p ∈ ps, fileOf pid p = f.1) :
    ∃ p ∈ ps, fileOf pid p = f.1 ∧ sfileOf ps pid f = ⟨p.typ, p.mode, pid, f.2⟩ := by
  unfold sfileOf
  cases hf : ps.find? (fun p => decide (fileOf pid p = f.1)) with
  | none =>
    obtain ⟨p, hp, e⟩ := h
    have := List.find?_eq_none.mp hf p hp
    simp [e] at this
  | some p =>
    have h1 := List.find?_some hf
    exact ⟨p, List.mem_of_find?_eq_some hf, by simpa using h1, rfl⟩

/-- the directory IS a listing of well-identified files -/
theorem files_eq (pid : Str) (ps : List Params) (st : St V) (hv : VInv (voOf V) pid st)
    (hps : st.values.map (·.params) = ps) : files st = (sfilesOf ps pid st).map toFile := by
  unfold files sfilesOf
  rw [List.map_map]
  apply List.map_congr_left
  intro f hf
  have hk : f.1 ∈ AL.keys st.disk := List.mem_map.mpr ⟨f, hf, rfl⟩
  obtain ⟨p, hp, e⟩ := hv.origin f.1 hk
  obtain ⟨q, _, e1, e2⟩ := sfileOf_found ps pid f ⟨p, hps ▸ hp, e⟩
  simp only [Function.comp, e2, toFile]
  congr 1
  exact e1.symm

/-- the entries the value objects of metric `d` own, as contributions -/
def expContribs (d : MDecl V) (pid : Str) (disk : List (Str × Store V)) (h : Hist V) : List (Contrib V) :=
  (childList d h).flatMap (fun ka => (cellParams d ka.1).map (fun p =>
    ⟨typStr d.decl.kind, modeOfDecl d, pid, mmapKey p,
      (cellVal (voOf V) disk (fileOf pid p) (mmapKey p)).1, (cellVal (voOf V) disk (fileOf pid p) (mmapKey p)).2⟩))

theorem flatMap_single {α β : Type} (l : List α) (g : α → List β) (x0 : α) (hx : x0 ∈ l) (hnd : l.Nodup)
    (h : ∀ x ∈ l, x ≠ x0 → g x = []) : l.flatMap g = g x0 := by
  induction l with
  | nil => cases hx
  | cons y ys ih =>
    have hnd' := List.nodup_cons.mp hnd
    rw [List.flatMap_cons]
    rcases List.mem_cons.mp hx with e | e
    · subst e
      have : ys.flatMap g = [] := by
        rw [List.flatMap_eq_nil_iff]
        intro x hx'
        exact h x (List.mem_cons_of_mem _ hx') (fun e' => hnd'.1 (e' ▸ hx'))
      rw [this, List.append_nil]
    · have hy : g y = [] := h y List.mem_cons_self (fun e' => hnd'.1 (e' ▸ e))
      rw [hy, List.nil_append]
      exact ih e hnd'.2 (fun x hx' hne => h x (List.mem_cons_of_mem _ hx') hne)

theorem flatMap_none {α β : Type} (l : List α) (g : α → List β) (h : ∀ x ∈ l, g x = []) : l.flatMap g = [] := by
  rw [List.flatMap_eq_nil_iff]; exact h

theorem nodup_of_keys_nodup {κ β : Type} (l : List (κ × β)) (h : (l.map (·.1)).Nodup) : l.Nodup :=
  nodup_of_nodup_map _ l h

/-- **the contributions to a family are the entries of the metric's value objects, in creation order** -/
theorem contribs_eq (ds : List (MDecl V)) (hwf : WFAll ds) (pid : Str) (hs : List (Hist V)) (ps : List Params) (st : St V)
    (hc : Core ds pid hs ps st) (hlen : hs.length = ds.length) (i : Nat) (d : MDecl V) (h : Hist V)
    (hd : ds[i]? = some d) (hh : hs[i]? = some h) :
    contribs (sfilesOf ps pid st) d.decl.name = expContribs d pid st.disk h := by
  have hv := hc.vinv
  have hdm : d ∈ ds := List.mem_of_getElem? hd
  -- parameters of this metric
  have hmine : ∀ p ∈ ps, p.metric = d.decl.name →
      fileOf pid p = fileName (prefixOf d) pid ∧ p.typ = typStr d.decl.kind ∧ p.mode = modeOfDecl d := by
    intro p hp hm
    have : p ∈ ps.filter (fun p => decide (p.metric = d.decl.name)) := List.mem_filter.mpr ⟨hp, by simpa using hm⟩
    rw [hc.order i d h hd hh] at this
    obtain ⟨ka, _, hpc⟩ := List.mem_flatMap.mp this
    have h1 := cellParams_metric d ka.1 p hpc
    have h2 := cellParams_typ d ka.1 p hpc
    exact ⟨by unfold fileOf; rw [h1.2.2], h2.1, h2.2⟩
  -- contributions of one file
  have hfile : ∀ f ∈ st.disk, (contribsOf (sfileOf ps pid f)).filter (fun c => decide (c.key.metric = d.decl.name))
      = if f.1 = fileName (prefixOf d) pid then expContribs d pid st.disk h else [] := by
    intro f hf
    have hk : f.1 ∈ AL.keys st.disk := List.mem_map.mpr ⟨f, hf, rfl⟩
    obtain ⟨p0, hp0, e0⟩ := hv.origin f.1 hk
    obtain ⟨q, hq, e1, e2⟩ := sfileOf_found ps pid f ⟨p0, hc.psEq ▸ hp0, e0⟩
    have hstore : f.2 = storeOf st.disk f.1 := by
      unfold storeOf
      rw [AL.getD_eq, AL.get?_of_mem _ hv.nodupFiles f.1 f.2 hf]
      rfl
    have hse := store_eq (voOf V) pid st hv f.1
    rw [hv.keys f.1, hc.psEq, List.map_map] at hse
    rw [e2]
    simp only [contribsOf]
    rw [hstore, hse, List.map_map, List.filter_map]
    simp only [Function.comp_def]
    have hfilt : (ps.filter (fun p => decide (fileOf pid p = f.1))).filter
          (fun p => decide ((mmapKey p).metric = d.decl.name))
        = if f.1 = fileName (prefixOf d) pid then ps.filter (fun p => decide (p.metric = d.decl.name)) else [] := by
      rw [List.filter_filter]
      split
      · next efn =>
        apply List.filter_congr
        intro p hp
        simp only [mmapKey, Bool.and_eq_true, decide_eq_true_eq]
        by_cases hm : p.metric = d.decl.name
        · simp [hm, (hmine p hp hm).1, efn]
        · simp [hm]
      · next efn =>
        apply filter_eq_nil_of
        intro p hp
        show (decide (p.metric = d.decl.name) && decide (fileOf pid p = f.1)) = false
        by_cases hm : p.metric = d.decl.name
        · have : fileOf pid p ≠ f.1 := by rw [(hmine p hp hm).1]; exact fun e => efn e.symm
          simp [this]
        · simp [hm]
    rw [hfilt]
    split
    · next efn =>
      rw [hc.order i d h hd hh]
      unfold expContribs
      rw [List.map_flatMap]
      -- the representative parameter of the file has the metric's type and mode
      have hq' : q.typ = typStr d.decl.kind ∧ q.mode = modeOfDecl d := by
        obtain ⟨d', hd', hqm⟩ := hc.known q hq
        obtain ⟨j, hj⟩ := List.mem_iff_getElem?.mp hd'
        obtain ⟨h', hh'⟩ : ∃ h', hs[j]? = some h' := by
          have hj' := (List.getElem?_eq_some_iff.mp hj).1
          exact ⟨hs[j]'(by omega), List.getElem?_eq_getElem (by omega)⟩
        have hq2 : q ∈ ps.filter (fun p => decide (p.metric = d'.decl.name)) :=
          List.mem_filter.mpr ⟨hq, by simpa using hqm⟩
        rw [hc.order j d' h' hj hh'] at hq2
        obtain ⟨ka, _, hqc⟩ := List.mem_flatMap.mp hq2
        have g1 := cellParams_metric d' ka.1 q hqc
        have g2 := cellParams_typ d' ka.1 q hqc
        have hpre : prefixOf d' = prefixOf d := by
          have : fileOf pid q = fileName (prefixOf d) pid := e1.trans efn
          unfold fileOf at this
          rw [g1.2.2] at this
          exact fileName_inj_prefix _ _ _ this
        have := prefix_inj d' d (hwf.decls d' hd').sup (hwf.decls d hdm).sup hpre
        exact ⟨g2.1.trans this.1, g2.2.trans this.2⟩
      apply flatMap_congr_mem
      intro ka hka
      apply List.map_congr_left
      intro p hp
      have hpf : fileOf pid p = f.1 := by
        unfold fileOf
        rw [(cellParams_metric d ka.1 p hp).2.2, efn]
      rw [hq'.1, hq'.2, hpf]
    · rfl
  -- all files
  unfold contribs allContribs sfilesOf
  rw [List.filter_flatMap, List.flatMap_map]
  have hdisk_nodup : st.disk.Nodup := nodup_of_keys_nodup _ hv.nodupFiles
  by_cases hex : ∃ f ∈ st.disk, f.1 = fileName (prefixOf d) pid
  · obtain ⟨f0, hf0, ef0⟩ := hex
    rw [flatMap_single st.disk _ f0 hf0 hdisk_nodup]
    · rw [hfile f0 hf0, if_pos ef0]
    · intro f hf hne
      rw [hfile f hf, if_neg]
      intro e
      apply hne
      have := hv.nodupFiles
      exact Prod.ext (e.trans ef0.symm) (by
        have a1 := AL.get?_of_mem _ this f.1 f.2 hf
        have a2 := AL.get?_of_mem _ this f0.1 f0.2 hf0
        rw [e, ← ef0, a2] at a1
        exact (Option.some.inj a1).symm)
  · rw [flatMap_none]
    · -- no such file: the metric has no value object
      unfold expContribs
      symm
      rw [List.flatMap_eq_nil_iff]
      intro ka hka
      rw [List.map_eq_nil_iff]
      cases hcp : cellParams d ka.1 with
      | nil => rfl
      | cons p rest =>
        exfalso
        have hp : p ∈ cellParams d ka.1 := by rw [hcp]; exact List.mem_cons_self
        have hpps : p ∈ ps := by
          have : p ∈ (childList d h).flatMap (fun ka => cellParams d ka.1) := List.mem_flatMap.mpr ⟨ka, hka, hp⟩
          rw [← hc.order i d h hd hh] at this
          exact (List.mem_filter.mp this).1
        have hkeys := hv.keys (fileOf pid p)
        have hmem : mmapKey p ∈ AL.keys (storeOf st.disk (fileOf pid p)) := by
          rw [hkeys, hc.psEq]
          exact List.mem_map.mpr ⟨p, List.mem_filter.mpr ⟨hpps, by simp⟩, rfl⟩
        have hne : storeOf st.disk (fileOf pid p) ≠ [] := by
          intro e; rw [e] at hmem; simp [AL.keys] at hmem
        unfold storeOf at hne
        rw [AL.getD_eq] at hne
        cases hg : AL.get? st.disk (fileOf pid p) with
        | none => rw [hg] at hne; exact hne rfl
        | some s =>
          have := AL.mem_of_get? _ _ _ hg
          apply hex
          refine ⟨(fileOf pid p, s), this, ?_⟩
          show fileOf pid p = _
          unfold fileOf
          rw [(cellParams_metric d ka.1 p hp).2.2]
    · intro f hf
      rw [hfile f hf, if_neg]
      intro e
      exact hex ⟨f, hf, e⟩

end PromVerif.Lemmas.Backends
