/-
C12 with remove/clear, part 2: the simulation.  `Sim` couples the file-backed run of a history (metric objects with
removals, value objects possibly stale) with the file-backed run of the ERASED history (for which the full coupling
invariant `Core` holds): same directory, every value object of the former is one of the latter, every live child's
cells have value objects.  Each call preserves it (`sim_call`), a remove/clear touches only the metric objects
(`sim_removal`); hence `erase_same_disk`.
-/
import PromVerif.Lemmas.BackendsErase
import PromVerif.Lemmas.BackendsFiles

namespace PromVerif.Lemmas.Backends
open PromVerif.Py PromVerif.Generated.Multiprocess
open PromVerif.Model.Metrics (Val Decl Kind Child Action Addr Reg Out callMethod tlookup stepCall resolveLabels)
open PromVerif.Model.Multiprocess
open PromVerif.Model.Values
open PromVerif.Model.Backends
open PromVerif.Spec.Metrics (Hist)
open PromVerif.Lemmas.Metrics (childOf metricOf RegAbs recAll)
set_option autoImplicit false
set_option linter.unusedSectionVars false

variable {V : Type} [Val V]

def isCall : Model.Metrics.Op V → Bool
  | .call _ _ _ => true
  | _ => false

/-- the history with every `remove()` / `clear()` erased -/
def erase (h : List (Model.Metrics.Op V)) : List (Model.Metrics.Op V) := h.filter isCall

/-- the clock of the erased run shows, at each kept call, what the clock of the full run shows at that call -/
def ClockRel (clock clockE : Nat → V) : List (Model.Metrics.Op V) → Nat → Nat → Prop
  | [], _, _ => True
  | op :: r, nh, ne =>
    if isCall op then clockE ne = clock nh ∧ ClockRel clock clockE r (nh + 1) (ne + 1)
    else ClockRel clock clockE r (nh + 1) ne

/-! ### `target` against the children -/

theorem target_sub (mh me : Model.Metrics.Metric V) (h : MetricSub mh me) (addr : Addr) :
    (target me addr = none → target mh addr = none) ∧
      ∀ key fe, target me addr = some (key, fe) → ∃ fh, target mh addr = some (key, fh) ∧ (fe = true → fh = true) := by
  cases addr with
  | none =>
    simp only [target, h.single]
    cases me.single.isSome <;> simp
  | labels a kw =>
    simp only [target, h.decl]
    cases resolveLabels me.decl.labelnames a kw with
    | error e => simp
    | ok key =>
      simp only [reduceCtorEq, false_implies, Option.some.injEq, Prod.mk.injEq, true_and]
      rintro key' fe ⟨rfl, rfl⟩
      refine ⟨_, ⟨rfl, rfl⟩, ?_⟩
      intro hn
      cases hl : tlookup key mh.children with
      | none => rfl
      | some c =>
        have := h.keys key (by rw [hl]; rfl)
        cases hm : tlookup key me.children <;> simp_all

/-- an existing child of the smaller table exists in the larger one -/
theorem target_false_sub (mh me : Model.Metrics.Metric V) (h : MetricSub mh me) (addr : Addr) (key : List Str)
    (ht : target mh addr = some (key, false)) : target me addr = some (key, false) := by
  cases addr with
  | none =>
    simp only [target, h.single] at ht
    simp only [target]
    exact ht
  | labels a kw =>
    simp only [target, h.decl] at ht
    simp only [target]
    cases hres : resolveLabels me.decl.labelnames a kw with
    | error e => rw [hres] at ht; cases ht
    | ok k =>
      rw [hres] at ht
      simp only [Option.some.injEq, Prod.mk.injEq] at ht ⊢
      obtain ⟨rfl, hn⟩ := ht
      refine ⟨rfl, ?_⟩
      have hs : (tlookup k mh.children).isSome = true := by cases hx : tlookup k mh.children <;> simp_all
      have := h.keys k hs
      cases hx : tlookup k me.children <;> simp_all

theorem metricSub_self_of (mh me : Model.Metrics.Metric V) (h : MetricSub mh me) : MetricSub mh mh :=
  ⟨rfl, rfl, by rw [h.single, h.decl]; exact h.wf, fun _ hk => hk⟩

/-- a child that exists after a call existed before, or is the one `labels()` addressed -/
theorem target_after_call (m : Model.Metrics.Metric V) (addr addr' : Addr) (act : Action V) (key' : List Str)
    (h : target (stepCall m addr act).1 addr' = some (key', false)) :
    target m addr' = some (key', false) ∨ ∃ f, target m addr = some (key', f) := by
  cases addr' with
  | none =>
    left
    simp only [target, stepCall_single] at h ⊢
    exact h
  | labels a' kw' =>
    simp only [target, stepCall_decl] at h ⊢
    cases hres' : resolveLabels m.decl.labelnames a' kw' with
    | error e => rw [hres'] at h; cases h
    | ok k' =>
      rw [hres'] at h
      simp only [Option.some.injEq, Prod.mk.injEq] at h ⊢
      obtain ⟨rfl, hn⟩ := h
      have hs : (tlookup k' (stepCall m addr act).1.children).isSome = true := by
        cases hx : tlookup k' (stepCall m addr act).1.children <;> simp_all
      rw [stepCall_children] at hs
      rcases Bool.or_eq_true_iff.mp hs with hs | hs
      · left
        refine ⟨rfl, ?_⟩
        cases hx : tlookup k' m.children <;> simp_all
      · right
        cases addr with
        | none => simp at hs
        | labels a kw =>
          simp only at hs
          cases hres : resolveLabels m.decl.labelnames a kw with
          | error e => rw [hres] at hs; simp at hs
          | ok key =>
            rw [hres] at hs
            have : key = k' := by simpa using hs
            subst this
            exact ⟨(tlookup key m.children).isNone, by simp only [hres]⟩

/-! ### the coupling of the two runs -/

structure Sim (ds : List (MDecl V)) (pid : Str) (sh : CSt V) (sth : St V) (se : CSt V) (hse : List (Hist V)) (ste : St V) : Prop where
  absE : RegAbs (ds.map (·.decl)) se.reg hse
  coreE : Core ds pid hse se.ps ste
  disk : sth.disk = ste.disk
  invH : HInv (voOf V) pid sth
  psH : sth.values.map (·.params) = sh.ps
  sub : ∀ p ∈ sh.ps, p ∈ se.ps
  regs : RegSub sh.reg se.reg
  live : ∀ (i : Nat) (d : MDecl V) (mh : Model.Metrics.Metric V), ds[i]? = some d → sh.reg[i]? = some mh →
    ∀ addr key, target mh addr = some (key, false) → ∀ q ∈ cellParams d key, q ∈ sh.ps

/-- the erased run's metric object and its existing children's cells -/
theorem e_side (ds : List (MDecl V)) (pid : Str) (se : CSt V) (hse : List (Hist V)) (ste : St V)
    (habs : RegAbs (ds.map (·.decl)) se.reg hse) (hc : Core ds pid hse se.ps ste) (i : Nat) (d : MDecl V)
    (hd : ds[i]? = some d) :
    ∃ h, hse[i]? = some h ∧ se.reg[i]? = some (metricOf d.decl h) ∧
      ∀ addr key, target (metricOf d.decl h) addr = some (key, false) → ∀ q ∈ cellParams d key, q ∈ se.ps := by
  have hd' : (ds.map (·.decl))[i]? = some d.decl := by rw [List.getElem?_map, hd]; rfl
  obtain ⟨h, hh, _⟩ := Lemmas.Metrics.forall2_getElem? Lemmas.Metrics.AllOk _ hse i d.decl habs.ok hd'
  have hr : se.reg[i]? = some (metricOf d.decl h) := by
    rw [habs.eq]; exact Lemmas.Metrics.zipWith_getElem? _ _ _ _ d.decl h hd' hh
  refine ⟨h, hh, hr, ?_⟩
  intro addr key ht q hq
  have hin : q ∈ (childList d h).flatMap (fun ka => cellParams d ka.1) := by
    cases addr with
    | none =>
      simp only [target, metricOf] at ht
      cases hl : d.decl.labelnames.isEmpty with
      | false => simp [hl] at ht
      | true =>
        simp only [hl, if_true, Option.isSome_some, Option.some.injEq, Prod.mk.injEq, and_true] at ht
        subst ht
        exact List.mem_flatMap.mpr ⟨([], h.single), by simp [childList, hl], hq⟩
    | labels a kw =>
      simp only [target] at ht
      cases hres : resolveLabels (metricOf d.decl h).decl.labelnames a kw with
      | error e => rw [hres] at ht; cases ht
      | ok k =>
        rw [hres] at ht
        simp only [Option.some.injEq, Prod.mk.injEq] at ht
        obtain ⟨rfl, hn⟩ := ht
        have hl := (resolve_len _ _ _ _ hres).2
        have hl' : d.decl.labelnames.isEmpty = false := hl
        have hlook : tlookup k (metricOf d.decl h).children = (tlookup k h.table).map (childOf d.decl) := by
          simp [metricOf, Lemmas.Metrics.tlookup_map]
        rw [hlook] at hn
        cases hlk : tlookup k h.table with
        | none => rw [hlk] at hn; simp at hn
        | some acts =>
          exact List.mem_flatMap.mpr ⟨(k, acts), by
            simp only [childList, hl', Bool.false_eq_true, if_false]
            exact tlookup_some_mem k h.table acts hlk, hq⟩
  rw [← hc.order i d h hd hh] at hin
  exact (List.mem_filter.mp hin).1

theorem inj_of_nodup_map {α β : Type} (f : α → β) : ∀ (l : List α), (l.map f).Nodup → ∀ a ∈ l, ∀ b ∈ l, f a = f b → a = b
  | [], _, a, ha, _, _, _ => by cases ha
  | x :: xs, h, a, ha, b, hb, e => by
    simp only [List.map_cons, List.nodup_cons] at h
    rcases List.mem_cons.mp ha with ha1 | ha1 <;> rcases List.mem_cons.mp hb with hb1 | hb1
    · rw [ha1, hb1]
    · subst ha1; exact absurd (e ▸ List.mem_map.mpr ⟨b, hb1, rfl⟩) h.1
    · subst hb1; exact absurd (e ▸ List.mem_map.mpr ⟨a, ha1, rfl⟩) h.1
    · exact inj_of_nodup_map f xs h.2 a ha1 b hb1 e

theorem core_ids_inj (ds : List (MDecl V)) (pid : Str) (hs : List (Hist V)) (ps : List Params) (st : St V)
    (hc : Core ds pid hs ps st) : ∀ a ∈ ps, ∀ b ∈ ps, idOf a = idOf b → a = b := by
  have hu := hc.vinv.uniq
  have : idsOf st = ps.map idOf := by unfold idsOf; rw [← hc.psEq, List.map_map]; rfl
  rw [this] at hu
  exact inj_of_nodup_map idOf ps hu

theorem stepVops_removal (ds : List (MDecl V)) (clock : Nat → V) (s : CSt V) (op : Model.Metrics.Op V)
    (hop : isCall op = false) : stepVops ds clock s op = ([], []) ∧ front ds op = op := by
  cases op with
  | call i a act => simp [isCall] at hop
  | remove i vs => exact ⟨by simp [stepVops, front, mrBlocked], by simp [front, mrBlocked]⟩
  | clear i => exact ⟨by simp [stepVops, front, mrBlocked], by simp [front, mrBlocked]⟩

/-- `remove()` / `clear()`: only the metric objects of the run with removals change -/
theorem sim_removal (ds : List (MDecl V)) (pid : Str) (clock : Nat → V) (sh : CSt V) (sth : St V) (se : CSt V)
    (hse : List (Hist V)) (ste : St V) (h : Sim ds pid sh sth se hse ste) (op : Model.Metrics.Op V)
    (hop : isCall op = false) :
    Sim ds pid (stepC ds clock sh op) (run (voOf V) sth (stepVops ds clock sh op).1) se hse ste := by
  obtain ⟨hv, hf⟩ := stepVops_removal ds clock sh op hop
  have hnc : ∀ i addr act, op ≠ .call i addr act := by
    intro i addr act e; subst e; simp [isCall] at hop
  have hps : (stepC ds clock sh op).ps = sh.ps := by simp [stepC, hv]
  have hreg : (stepC ds clock sh op).reg = (Model.Metrics.step sh.reg op).1 := by simp [stepC, hf]
  refine ⟨h.absE, h.coreE, by rw [hv]; exact h.disk, by rw [hv]; exact h.invH, by rw [hv, hps]; exact h.psH,
    by rw [hps]; exact h.sub, by rw [hreg]; exact step_removal_sub _ _ h.regs op hnc, ?_⟩
  intro i d mh' hd hmh' addr key ht q hq
  rw [hps]
  rw [hreg, Lemmas.Metrics.step_eq] at hmh'
  cases hr : sh.reg[op.metric]? with
  | none => rw [hr] at hmh'; exact h.live i d mh' hd hmh' addr key ht q hq
  | some m0 =>
    rw [hr] at hmh'
    simp only [List.getElem?_set] at hmh'
    by_cases e : op.metric = i
    · subst e
      simp only [if_true] at hmh'
      split at hmh'
      · cases hmh'
        -- a child of the shrunk table is a child of the old one
        have hrefl : MetricSub m0 m0 := by
          rcases regSub_getElem? _ _ h.regs op.metric with ⟨h1, _⟩ | ⟨mh0, me0, h1, _, hs⟩
          · rw [hr] at h1; cases h1
          · rw [hr] at h1; cases h1; exact metricSub_self_of _ _ hs
        have hsub : MetricSub (Model.Metrics.stepM m0 op).1 m0 := by
          cases op with
          | call i addr act => exact absurd rfl (hnc i addr act)
          | remove i vs => exact stepRemove_sub m0 m0 hrefl vs
          | clear i => exact stepClear_sub m0 m0 hrefl
        exact h.live _ d m0 hd hr addr key (target_false_sub _ _ hsub addr key ht) q hq
      · cases hmh'
    · simp only [e, if_false] at hmh'
      exact h.live i d mh' hd hmh' addr key ht q hq

theorem stepC_reg (ds : List (MDecl V)) (clock : Nat → V) (s : CSt V) (op : Model.Metrics.Op V) :
    (stepC ds clock s op).reg = (Model.Metrics.step s.reg (front ds op)).1 ∧
      (stepC ds clock s op).ps = s.ps ++ (stepVops ds clock s op).2 ∧ (stepC ds clock s op).n = s.n + 1 := ⟨rfl, rfl, rfl⟩

/-- the value-object calls of one call, spelled out -/
theorem stepVops_call (ds : List (MDecl V)) (clock : Nat → V) (s : CSt V) (i : Nat) (addr : Addr) (act0 : Action V)
    (d : MDecl V) (m : Model.Metrics.Metric V) (hd : ds[i]? = some d) (hm : s.reg[i]? = some m) :
    stepVops ds clock s (.call i addr act0) =
      match target m addr with
      | none => ([], [])
      | some (key, fresh) =>
        ((if fresh then cellParams d key else []).map Op.construct ++
          (if (Model.Metrics.step s.reg (.call i addr (frontAct ds i act0))).2 = .ok then
            (cellUpdates d (clock s.n) (frontAct ds i act0)).flatMap
              (toVop (s.ps ++ (if fresh then cellParams d key else [])) (cellParams d key))
           else []),
         if fresh then cellParams d key else []) := by
  simp only [stepVops, front_call, hd, hm]
  cases target m addr with
  | none => rfl
  | some kf => rfl

theorem stepVops_nodecl (ds : List (MDecl V)) (clock : Nat → V) (s : CSt V) (i : Nat) (addr : Addr) (act0 : Action V)
    (h : ds[i]? = none ∨ s.reg[i]? = none) : stepVops ds clock s (.call i addr act0) = ([], []) := by
  simp only [stepVops, front_call]
  rcases h with h | h
  · rw [h]
  · rw [h]; cases ds[i]? <;> rfl

/-- **a call preserves the coupling of the two runs** -/
theorem sim_call (ds : List (MDecl V)) (hwf : WFAll ds) (pid : Str) (clock clockE : Nat → V)
    (hclkE : ∀ n, (voOf V).truthy (clockE n) = true ∧ Val.lt (Val.zero : V) (clockE n) = true)
    (sh : CSt V) (sth : St V) (se : CSt V) (hse : List (Hist V)) (ste : St V) (h : Sim ds pid sh sth se hse ste)
    (i : Nat) (addr : Addr) (act0 : Action V) (hck : clockE se.n = clock sh.n) :
    Sim ds pid (stepC ds clock sh (.call i addr act0)) (run (voOf V) sth (stepVops ds clock sh (.call i addr act0)).1)
      (stepC ds clockE se (.call i addr act0))
      (recAll (ds.map (·.decl)) hse (Model.Metrics.acceptedOp se.reg (front ds (.call i addr act0))))
      (run (voOf V) ste (stepVops ds clockE se (.call i addr act0)).1) := by
  have absE' := Lemmas.Metrics.step_abs (ds.map (·.decl)) se.reg hse (front ds (.call i addr act0)) h.absE
  have coreE' := step_core ds hwf pid clockE hclkE se hse ste h.absE h.coreE i addr act0
  have hfc := front_call ds i addr act0
  obtain ⟨regs', hout⟩ := step_call_sub sh.reg se.reg h.regs i addr (frontAct ds i act0)
  -- the `live` clause after the call, given where the cells of the addressed child are
  have live' : ∀ (psh' : List Params), (∀ p ∈ sh.ps, p ∈ psh') →
      (∀ (d : MDecl V) (mh : Model.Metrics.Metric V), ds[i]? = some d → sh.reg[i]? = some mh → ∀ key f,
        target mh addr = some (key, f) → ∀ q ∈ cellParams d key, q ∈ psh') →
      ∀ (j : Nat) (d : MDecl V) (mh' : Model.Metrics.Metric V), ds[j]? = some d →
        (Model.Metrics.step sh.reg (.call i addr (frontAct ds i act0))).1[j]? = some mh' →
        ∀ addr' key, target mh' addr' = some (key, false) → ∀ q ∈ cellParams d key, q ∈ psh' := by
    intro psh' hmono hnew j d mh' hdj hmh' addr' key ht q hq
    rw [Lemmas.Metrics.step_eq] at hmh'
    simp only [Model.Metrics.Op.metric] at hmh'
    cases hr : sh.reg[i]? with
    | none => rw [hr] at hmh'; exact hmono q (h.live j d mh' hdj hmh' addr' key ht q hq)
    | some m0 =>
      rw [hr] at hmh'
      simp only [List.getElem?_set, Model.Metrics.stepM] at hmh'
      by_cases e : i = j
      · subst e
        simp only [if_true] at hmh'
        split at hmh'
        · cases hmh'
          rcases target_after_call m0 addr addr' (frontAct ds i act0) key ht with h1 | ⟨f, h1⟩
          · exact hmono q (h.live i d m0 hdj hr addr' key h1 q hq)
          · exact hnew d m0 hdj hr key f h1 q hq
        · cases hmh'
      · simp only [e, if_false] at hmh'
        exact hmono q (h.live j d mh' hdj hmh' addr' key ht q hq)
  cases hd : ds[i]? with
  | none =>
    have hvh := stepVops_nodecl ds clock sh i addr act0 (Or.inl hd)
    have hve := stepVops_nodecl ds clockE se i addr act0 (Or.inl hd)
    refine ⟨absE', coreE', by rw [hvh, hve]; exact h.disk, by rw [hvh]; exact h.invH, ?_, ?_, ?_, ?_⟩
    · rw [hvh, (stepC_reg ds clock sh _).2.1, hvh]; simpa [run] using h.psH
    · intro p hp
      rw [(stepC_reg ds clock sh _).2.1, hvh] at hp
      rw [(stepC_reg ds clockE se _).2.1, hve]
      simpa using h.sub p (by simpa using hp)
    · rw [(stepC_reg ds clock sh _).1, (stepC_reg ds clockE se _).1, hfc]; exact regs'
    · intro j d mh' hdj hmh'
      rw [(stepC_reg ds clock sh _).1, hfc] at hmh'
      rw [(stepC_reg ds clock sh _).2.1, hvh, List.append_nil]
      exact live' sh.ps (fun _ hp => hp) (fun d' _ hd' => by rw [hd] at hd'; cases hd') j d mh' hdj hmh'
  | some d =>
    obtain ⟨he, hhe, hre, ecells⟩ := e_side ds pid se hse ste h.absE h.coreE i d hd
    rcases regSub_getElem? _ _ h.regs i with ⟨_, h2⟩ | ⟨mh, me, hrh, hre', hsub⟩
    · rw [hre] at h2; cases h2
    · rw [hre] at hre'; cases hre'
      have hvh := stepVops_call ds clock sh i addr act0 d mh hd hrh
      have hve := stepVops_call ds clockE se i addr act0 d _ hd hre
      obtain ⟨tnone, tsome⟩ := target_sub mh _ hsub addr
      cases hte : target (metricOf d.decl he) addr with
      | none =>
        have hth := tnone hte
        rw [hth] at hvh
        rw [hte] at hve
        refine ⟨absE', coreE', by rw [hvh, hve]; exact h.disk, by rw [hvh]; exact h.invH, ?_, ?_, ?_, ?_⟩
        · rw [hvh, (stepC_reg ds clock sh _).2.1, hvh]; simpa [run] using h.psH
        · intro p hp
          rw [(stepC_reg ds clock sh _).2.1, hvh] at hp
          rw [(stepC_reg ds clockE se _).2.1, hve]
          simpa using h.sub p (by simpa using hp)
        · rw [(stepC_reg ds clock sh _).1, (stepC_reg ds clockE se _).1, hfc]; exact regs'
        · intro j d' mh' hdj hmh'
          rw [(stepC_reg ds clock sh _).1, hfc] at hmh'
          rw [(stepC_reg ds clock sh _).2.1, hvh, List.append_nil]
          exact live' sh.ps (fun _ hp => hp) (fun d'' m'' hd'' hm'' key f ht => by
            rw [hrh] at hm''; cases hm''; rw [hth] at ht; cases ht) j d' mh' hdj hmh'
      | some kf =>
        obtain ⟨key, fe⟩ := kf
        obtain ⟨fh, hth, hfimp⟩ := tsome key fe hte
        rw [hth] at hvh
        rw [hte] at hve
        simp only at hvh hve
        -- abbreviations
        have hcells_e : ∀ q ∈ cellParams d key, q ∈ se.ps ++ (if fe then cellParams d key else []) := by
          intro q hq
          cases fe with
          | true => exact List.mem_append_right _ hq
          | false => exact List.mem_append_left _ (ecells addr key hte q hq)
        have hcells_h : ∀ q ∈ cellParams d key, q ∈ sh.ps ++ (if fh then cellParams d key else []) := by
          intro q hq
          cases fh with
          | true => exact List.mem_append_right _ hq
          | false => exact List.mem_append_left _ (h.live i d mh hd hrh addr key hth q hq)
        have hsub' : ∀ p ∈ sh.ps ++ (if fh then cellParams d key else []),
            p ∈ se.ps ++ (if fe then cellParams d key else []) := by
          intro p hp
          rcases List.mem_append.mp hp with hp | hp
          · exact List.mem_append_left _ (h.sub p hp)
          · cases fh with
            | true => exact hcells_e p hp
            | false => cases hp
        have hpse' : (stepC ds clockE se (.call i addr act0)).ps = se.ps ++ (if fe then cellParams d key else []) := by
          rw [(stepC_reg ds clockE se _).2.1, hve]
        have hpsh' : (stepC ds clock sh (.call i addr act0)).ps = sh.ps ++ (if fh then cellParams d key else []) := by
          rw [(stepC_reg ds clock sh _).2.1, hvh]
        have hinjE := core_ids_inj ds pid _ _ _ coreE'
        rw [hve] at hinjE
        simp only at hinjE
        -- constructions
        obtain ⟨bh1, bh2, bh3⟩ := block_constructs (voOf V) pid (if fh then cellParams d key else []) sth h.invH
        obtain ⟨be1, be2, be3⟩ := block_constructs (voOf V) pid (if fe then cellParams d key else []) ste h.coreE.vinv.toHInv
        have hdisk1 : (run (voOf V) sth ((if fh then cellParams d key else []).map Op.construct)).disk
            = (run (voOf V) ste ((if fe then cellParams d key else []).map Op.construct)).disk := by
          rw [bh3, be3, h.disk]
          cases fe with
          | true => rw [hfimp rfl]
          | false =>
            simp only [Bool.false_eq_true, if_false, List.foldl_nil]
            cases fh with
            | false => rfl
            | true =>
              simp only [if_true]
              apply foldl_dConstruct_existing
              intro q hq
              have hqe := ecells addr key hte q hq
              have hk := h.coreE.vinv.keys (fileOf pid q)
              have hmem : mmapKey q ∈ AL.keys (storeOf ste.disk (fileOf pid q)) := by
                rw [hk, h.coreE.psEq]
                exact List.mem_map.mpr ⟨q, List.mem_filter.mpr ⟨hqe, by simp⟩, rfl⟩
              exact (AL.get?_isSome_iff _ _).mpr hmem
        rw [bh2, h.psH] at bh2
        have bh2' : (run (voOf V) sth ((if fh then cellParams d key else []).map Op.construct)).values.map (·.params)
            = sh.ps ++ (if fh then cellParams d key else []) := by
          obtain ⟨_, x, _⟩ := block_constructs (voOf V) pid (if fh then cellParams d key else []) sth h.invH
          rw [x, h.psH]
        have be2' : (run (voOf V) ste ((if fe then cellParams d key else []).map Op.construct)).values.map (·.params)
            = se.ps ++ (if fe then cellParams d key else []) := by rw [be2, h.coreE.psEq]
        -- the updates
        have hus : cellUpdates d (clockE se.n) (frontAct ds i act0) = cellUpdates d (clock sh.n) (frontAct ds i act0) := by
          rw [hck]
        obtain ⟨uh1, uh2, uh3⟩ := block_updates (voOf V) pid _ (cellParams d key) hcells_h
          (fun p hp q hq e => hinjE q (hsub' q hq) p (hcells_e p hp) e)
          (cellUpdates d (clock sh.n) (frontAct ds i act0)) _ bh1 bh2'
        obtain ⟨ue1, ue2, ue3⟩ := block_updates (voOf V) pid _ (cellParams d key) hcells_e
          (fun p hp q hq e => hinjE q hq p (hcells_e p hp) e)
          (cellUpdates d (clock sh.n) (frontAct ds i act0)) _ be1 be2'
        rw [hus] at hve
        have houtE : (Model.Metrics.step se.reg (.call i addr (frontAct ds i act0))).2
            = (Model.Metrics.step sh.reg (.call i addr (frontAct ds i act0))).2 := hout.symm
        rw [houtE] at hve
        refine ⟨absE', coreE', ?_, ?_, ?_, ?_, ?_, ?_⟩
        · rw [hvh, hve]
          simp only [run_append]
          by_cases hok : (Model.Metrics.step sh.reg (.call i addr (frontAct ds i act0))).2 = .ok
          · simp only [hok, if_true]; rw [uh3, ue3, hdisk1]
          · simp only [hok, if_false]; exact hdisk1
        · rw [hvh]
          simp only [run_append]
          by_cases hok : (Model.Metrics.step sh.reg (.call i addr (frontAct ds i act0))).2 = .ok
          · simp only [hok, if_true]; exact uh1
          · simp only [hok, if_false]; exact bh1
        · rw [hvh, hpsh']
          simp only [run_append]
          by_cases hok : (Model.Metrics.step sh.reg (.call i addr (frontAct ds i act0))).2 = .ok
          · simp only [hok, if_true]; exact uh2
          · simp only [hok, if_false]; exact bh2'
        · rw [hpsh', hpse']; exact hsub'
        · rw [(stepC_reg ds clock sh _).1, (stepC_reg ds clockE se _).1, hfc]; exact regs'
        · intro j d' mh' hdj hmh'
          rw [(stepC_reg ds clock sh _).1, hfc] at hmh'
          rw [hpsh']
          exact live' _ (fun _ hp => List.mem_append_left _ hp) (fun d'' m'' hd'' hm'' key' f ht => by
            rw [hrh] at hm''; cases hm''
            rw [hd] at hd''; cases hd''
            rw [hth] at ht
            simp only [Option.some.injEq, Prod.mk.injEq] at ht
            rw [← ht.1]; exact hcells_h) j d' mh' hdj hmh'

/-! ### the whole history -/

theorem sim_run (ds : List (MDecl V)) (hwf : WFAll ds) (pid : Str) (clock clockE : Nat → V)
    (hclkE : ∀ n, (voOf V).truthy (clockE n) = true ∧ Val.lt (Val.zero : V) (clockE n) = true) :
    ∀ (h : List (Model.Metrics.Op V)) (sh : CSt V) (sth : St V) (se : CSt V) (hse : List (Hist V)) (ste : St V),
      Sim ds pid sh sth se hse ste → ClockRel clock clockE h sh.n se.n →
      (run (voOf V) sth (compileFrom ds clock sh h)).disk = (run (voOf V) ste (compileFrom ds clockE se (erase h))).disk
  | [], sh, sth, se, hse, ste, hs, _ => by simpa [compileFrom, erase, run] using hs.disk
  | op :: r, sh, sth, se, hse, ste, hs, hck => by
    cases hc : isCall op with
    | true =>
      have he : erase (op :: r) = op :: erase r := by simp [erase, List.filter, hc]
      simp only [ClockRel, hc, if_true] at hck
      cases op with
      | call i addr act =>
        have h1 := sim_call ds hwf pid clock clockE hclkE sh sth se hse ste hs i addr act hck.1
        rw [he]
        simp only [compileFrom, run_append]
        exact sim_run ds hwf pid clock clockE hclkE r _ _ _ _ _ h1 hck.2
      | remove i vs => simp [isCall] at hc
      | clear i => simp [isCall] at hc
    | false =>
      have he : erase (op :: r) = erase r := by simp [erase, List.filter, hc]
      simp only [ClockRel, hc, Bool.false_eq_true, if_false] at hck
      have h1 := sim_removal ds pid clock sh sth se hse ste hs op hc
      rw [he]
      simp only [compileFrom, run_append]
      exact sim_run ds hwf pid clock clockE hclkE r _ _ _ _ _ h1 hck

/-- what the clock shows at the kept calls -/
def keptTimes (clock : Nat → V) : List (Model.Metrics.Op V) → Nat → List V
  | [], _ => []
  | op :: r, n => if isCall op then clock n :: keptTimes clock r (n + 1) else keptTimes clock r (n + 1)

def clockOfList (l : List V) (dflt : V) : Nat → V := fun k => l.getD k dflt

theorem clockRel_kept (clock : Nat → V) (dflt : V) : ∀ (h : List (Model.Metrics.Op V)) (nh : Nat) (pre : List V),
    ClockRel clock (clockOfList (pre ++ keptTimes clock h nh) dflt) h nh pre.length
  | [], _, _ => trivial
  | op :: r, nh, pre => by
    simp only [ClockRel, keptTimes]
    cases hc : isCall op with
    | true =>
      simp only [if_true]
      refine ⟨by simp [clockOfList], ?_⟩
      have := clockRel_kept clock dflt r (nh + 1) (pre ++ [clock nh])
      simpa [List.append_assoc] using this
    | false =>
      simp only [Bool.false_eq_true, if_false]
      exact clockRel_kept clock dflt r (nh + 1) pre

theorem keptTimes_mem (clock : Nat → V) : ∀ (h : List (Model.Metrics.Op V)) (n : Nat) (t : V),
    t ∈ keptTimes clock h n → ∃ k, t = clock k
  | [], _, _, ht => by cases ht
  | op :: r, n, t, ht => by
    simp only [keptTimes] at ht
    split at ht
    · rcases List.mem_cons.mp ht with e | e
      · exact ⟨n, e⟩
      · exact keptTimes_mem clock r (n + 1) t e
    · exact keptTimes_mem clock r (n + 1) t ht

/-- the clock of the erased run -/
def eraseClock (clock : Nat → V) (h : List (Model.Metrics.Op V)) : Nat → V :=
  clockOfList (keptTimes clock h 0) (clock 0)

theorem eraseClock_pos (clock : Nat → V)
    (hclk : ∀ n, (voOf V).truthy (clock n) = true ∧ Val.lt (Val.zero : V) (clock n) = true)
    (h : List (Model.Metrics.Op V)) (n : Nat) :
    (voOf V).truthy (eraseClock clock h n) = true ∧ Val.lt (Val.zero : V) (eraseClock clock h n) = true := by
  unfold eraseClock clockOfList
  rw [List.getD_eq_getElem?_getD]
  cases hg : (keptTimes clock h 0)[n]? with
  | none => exact hclk 0
  | some t =>
    obtain ⟨k, rfl⟩ := keptTimes_mem clock h 0 t (List.mem_of_getElem? hg)
    exact hclk k

theorem erase_noRemoval (h : List (Model.Metrics.Op V)) : NoRemoval (erase h) := by
  intro op hop
  have := (List.mem_filter.mp hop).2
  cases op with
  | call i addr act => exact ⟨i, addr, act, rfl⟩
  | remove i vs => simp [isCall] at this
  | clear i => simp [isCall] at this

/-- **the file-backed store behaves as if removals never happened**: the run of a history and the run of the history
with every `remove()` / `clear()` erased leave the same directory -/
theorem erase_same_disk (ds : List (MDecl V)) (hwf : WFAll ds) (pid : Str) (clock : Nat → V)
    (hclk : ∀ n, (voOf V).truthy (clock n) = true ∧ Val.lt (Val.zero : V) (clock n) = true)
    (h : List (Model.Metrics.Op V)) :
    (runMmap ds pid clock h).disk = (runMmap ds pid (eraseClock clock h) (erase h)).disk := by
  have h0 := core_init ds hwf pid
  have habs := Lemmas.Metrics.regAbs_fresh (ds.map (·.decl))
  have e : (ds.map (·.decl)).map (fun _ => (Hist.empty : Hist V)) = ds.map (fun _ => (Hist.empty : Hist V)) := by
    rw [List.map_map]; rfl
  rw [e] at habs
  have hsim : Sim ds pid (initCSt ds) (run (voOf V) (St.init pid) ((initParams ds).map Op.construct)) (initCSt ds)
      (ds.map (fun _ => (Hist.empty : Hist V))) (run (voOf V) (St.init pid) ((initParams ds).map Op.construct)) := by
    refine ⟨habs, h0, rfl, h0.vinv.toHInv, h0.psEq, fun _ hp => hp, ?_, ?_⟩
    · apply regSub_refl_of
      intro m hm
      simp only [initCSt, regFresh, Model.Metrics.Reg.fresh, List.mem_map] at hm
      obtain ⟨d', _, rfl⟩ := hm
      unfold Model.Metrics.Metric.fresh
      cases d'.labelnames.isEmpty <;> rfl
    · intro i d mh hd hmh addr key ht q hq
      obtain ⟨he, _, hre, ecells⟩ := e_side ds pid (initCSt ds) _ _ habs h0 i d hd
      rw [hre] at hmh; cases hmh
      exact ecells addr key ht q hq
  have hck := clockRel_kept clock (clock 0) h 0 []
  simp only [List.nil_append, List.length_nil] at hck
  have := sim_run ds hwf pid clock (eraseClock clock h) (eraseClock_pos clock hclk h) h _ _ _ _ _ hsim hck
  unfold runMmap compile
  rw [run_append, run_append]
  exact this

end PromVerif.Lemmas.Backends
