/-
C04: the three timestamp forms the exposition writes (`str(int)`, `Timestamp.__str__`, `repr(float)`) through
`_parse_timestamp`, and the denoted values.
-/
import PromVerif.Lemmas.OMRtBasic

set_option autoImplicit false

namespace PromVerif.Lemmas.OMRt
open PromVerif.Py PromVerif.Model PromVerif.Model.Escape PromVerif.Model.ParseCore PromVerif.Model.OMParse
open PromVerif.Model.OMExpo PromVerif.Spec.OMRoundtrip PromVerif.Lemmas.Escape PromVerif.Lemmas.TextParse

theorem catch_ok {α : Type} (a : α) (h : Unit → PyM α) : catchValueError (.ok a) h = .ok a := rfl
theorem catch_ve {α : Type} (h : Unit → PyM α) : catchValueError (.error .valueError) h = h () := rfl

theorem intE_some {P : Params} {s : Str} {n : Int} (h : P.pyInt s = some n) : P.intE s = .ok n := by
  unfold Params.intE; rw [h]
theorem intE_none {P : Params} {s : Str} (h : P.pyInt s = none) : P.intE s = .error .valueError := by
  unfold Params.intE; rw [h]
theorem floatE_some {P : Params} {s : Str} {b : Nat} (h : P.pyFloat s = some b) : P.floatE s = .ok b := by
  unfold Params.floatE; rw [h]

/-- `int(str(n)) == n` -/
theorem pyInt_intStr {pyInt : Str → Option Int} (hI : IntLaw pyInt) (n : Int) : pyInt (intStr n) = some n := by
  unfold intStr
  cases n with
  | ofNat k =>
    simp only []
    have hne : decDigits k ≠ [] := by
      have := decDigits_length_pos k; intro e; rw [e] at this; simp at this
    rw [hI.digits _ hne (allDigits_decDigits k), parseDigits_decDigits]
    rfl
  | negSucc k =>
    simp only []
    have hne : decDigits (k + 1) ≠ [] := by
      have := decDigits_length_pos (k + 1); intro e; rw [e] at this; simp at this
    rw [hI.neg _ hne (allDigits_decDigits (k + 1)), parseDigits_decDigits]
    rfl

/-- a number token passes the two guards of `_parse_timestamp` -/
theorem parseTimestamp_numTok (P : Params) {ts : Str} (h : NumTok ts) :
    parseTimestamp P ts =
      (catchValueError (do let n ← P.intE ts; mkTimestamp n 0) fun _ =>
        catchValueError (parseTimestampFrac P ts) fun _ => parseTimestampFloat P ts).map some := by
  unfold parseTimestamp
  have h0 : ts.isEmpty = false := by cases ts with | nil => exact absurd rfl h.1 | cons _ _ => rfl
  have h1 : (ts != strip ts) = false := by rw [strip_numTok h]; simp
  have h2 : ts.contains '_' = false := by
    apply Bool.eq_false_iff.mpr; intro hm
    exact numTok_not_mem h (d := '_') (by decide) (by simpa using hm)
  simp only [h0, h1, h2, Bool.or_self, Bool.false_eq_true, ↓reduceIte]

theorem mkTimestamp_zero (n : Int) : mkTimestamp n 0 = .ok (.stamp n 0) := by
  unfold mkTimestamp
  by_cases h : n < 0 <;> simp [h]

/-- first form: `str(int)` -/
theorem parseTimestamp_int (P : Params) (hI : IntLaw P.pyInt) (n : Int) :
    parseTimestamp P (intStr n) = .ok (some (.stamp n 0)) := by
  rw [parseTimestamp_numTok P (intStr_numTok n), intE_some (pyInt_intStr hI n)]
  simp only [bind, Except.bind, mkTimestamp_zero, catch_ok]
  rfl

theorem splitFirst_dot {a b : Str} (h : '.' ∉ a) : splitFirst '.' (a ++ '.' :: b) = (a, some b) :=
  splitFirst_append_of_not_mem h

theorem mem_dot_reject {pyInt : Str → Option Int} (hI : IntLaw pyInt) (a b : Str) : pyInt (a ++ '.' :: b) = none :=
  hI.reject _ ⟨'.', by simp, Or.inl rfl⟩

theorem tsFracStrict_on : Generated.OMParse.tsFracStrict = true := by decide

/-- the strictness tests pass: the fraction is an integer literal and the text is not `-0.…` -/
theorem fracStrict_ok (P : Params) {sec : Int} {p0 p1 : Str} {m : Int} (h1 : P.pyInt p1 = some m)
    (h2 : (sec == 0 && p0.head? == some '-') = false) : fracStrictChecks P sec p0 p1 = .ok () := by
  unfold fracStrictChecks
  simp only [tsFracStrict_on, ↓reduceIte, intE_some h1, h2, Bool.false_eq_true]

theorem fracStrict_reject (P : Params) (sec : Int) (p0 : Str) {p1 : Str} (h1 : P.pyInt p1 = none) :
    fracStrictChecks P sec p0 p1 = .error .valueError := by
  unfold fracStrictChecks
  simp only [tsFracStrict_on, ↓reduceIte, intE_none h1]

theorem fracStrict_sign (P : Params) {sec : Int} {p0 p1 : Str} {m : Int} (h1 : P.pyInt p1 = some m)
    (h2 : (sec == 0 && p0.head? == some '-') = true) : fracStrictChecks P sec p0 p1 = .error .valueError := by
  unfold fracStrictChecks
  simp only [tsFracStrict_on, ↓reduceIte, intE_some h1, h2]

theorem nine_facts {b : Str} (hbd : b.all isDigit = true) :
    (nineDigits b).all isDigit = true ∧ nineDigits b ≠ [] ∧ parseDigits (nineDigits b) < 1000000000 := by
  have hnine : (nineDigits b).all isDigit = true := by
    unfold nineDigits
    apply List.all_eq_true.mpr
    intro c hc
    have := List.mem_of_mem_take hc
    rcases List.mem_append.mp this with h | h
    · exact List.all_eq_true.mp hbd c h
    · rw [List.mem_replicate] at h; rw [h.2]; decide
  have hlen : (nineDigits b).length = 9 := by unfold nineDigits; simp
  have hne : nineDigits b ≠ [] := by intro e; rw [e] at hlen; simp at hlen
  have hlt : parseDigits (nineDigits b) < 1000000000 := by
    have := parseDigits_lt _ hnine; rw [hlen] at this; simpa using this
  exact ⟨hnine, hne, hlt⟩

/-- the `aaaa.bbbb` form on `A.B` with `A` read by `int()` as `sa` and `B` a digit string, not of the shape `-0.…` -/
theorem parseTimestamp_frac (P : Params) (hI : IntLaw P.pyInt) (a b : Str) (sa : Int)
    (hts : NumTok (a ++ '.' :: b)) (hdot : '.' ∉ a) (ha : P.pyInt a = some sa)
    (hb : b ≠ []) (hbd : b.all isDigit = true) (hsign : (sa == 0 && a.head? == some '-') = false) :
    parseTimestamp P (a ++ '.' :: b) =
      .ok (some (.stamp sa (if sa < 0 then -(((parseDigits (nineDigits b) : Nat) : Int)) else ((parseDigits (nineDigits b) : Nat) : Int)))) := by
  rw [parseTimestamp_numTok P hts, intE_none (mem_dot_reject hI a b)]
  obtain ⟨hnine, hne, hlt⟩ := nine_facts hbd
  have hfrac : parseTimestampFrac P (a ++ '.' :: b) =
      .ok (.stamp sa (if sa < 0 then -(((parseDigits (nineDigits b) : Nat) : Int)) else ((parseDigits (nineDigits b) : Nat) : Int))) := by
    unfold parseTimestampFrac
    rw [splitFirst_dot hdot]
    simp only [intE_some ha, fracStrict_ok P (hI.digits b hb hbd) hsign, ← nineDigits_eq, intE_some (hI.digits _ hne hnine)]
    unfold mkTimestamp
    have h1 : ¬ (((parseDigits (nineDigits b) : Nat) : Int) < 0) := by omega
    have h2 : ¬ (((parseDigits (nineDigits b) : Nat) : Int) ≥ 1000000000) := by omega
    simp [h1, h2]
  simp only [bind, Except.bind, catch_ve, hfrac, catch_ok]
  rfl

/-- `-0.…`: the `aaaa.bbbb` form declines, `float()` reads the text -/
theorem parseTimestamp_negzero (P : Params) (hI : IntLaw P.pyInt) (a b : Str) (bb : Nat)
    (hts : NumTok ('-' :: a ++ '.' :: b)) (ha : a ≠ []) (had : a.all isDigit = true) (hz : parseDigits a = 0)
    (hb : b ≠ []) (hbd : b.all isDigit = true)
    (hf : P.pyFloat ('-' :: a ++ '.' :: b) = some bb) (hnan : P.isNaN bb = false) (hinf : P.isInf bb = false) :
    parseTimestamp P ('-' :: a ++ '.' :: b) = .ok (some (.flt bb)) := by
  have hdot : '.' ∉ '-' :: a := by
    intro hm
    rcases List.mem_cons.mp hm with h | h
    · exact absurd h (by decide)
    · exact dot_not_mem_digits had h
  have hint : P.pyInt ('-' :: a) = some (-((parseDigits a : Nat) : Int)) := hI.neg a ha had
  rw [show '-' :: a ++ '.' :: b = ('-' :: a) ++ '.' :: b by simp] at hts hf ⊢
  rw [parseTimestamp_numTok P hts, intE_none (mem_dot_reject hI _ b)]
  have hfrac : parseTimestampFrac P (('-' :: a) ++ '.' :: b) = .error .valueError := by
    unfold parseTimestampFrac
    rw [splitFirst_dot hdot]
    simp only [intE_some hint]
    rw [fracStrict_sign P (hI.digits b hb hbd) (by simp [hz])]
  have hflt : parseTimestampFloat P (('-' :: a) ++ '.' :: b) = .ok (.flt bb) := by
    unfold parseTimestampFloat
    rw [floatE_some hf]
    simp [hnan, hinf, bind, Except.bind, pure, Except.pure]
  simp only [bind, Except.bind, catch_ve, hfrac, hflt]
  rfl

theorem decDigits_ne_nil (k : Nat) : decDigits k ≠ [] := by
  have := decDigits_length_pos k; intro e; rw [e] at this; simp at this

theorem dot_not_mem_intStr (n : Int) : '.' ∉ intStr n := by
  intro hm
  have := (intStr_numTok n)
  unfold intStr at hm
  cases n with
  | ofNat k => exact dot_not_mem_digits (allDigits_decDigits k) hm
  | negSucc k =>
    simp only [List.mem_cons] at hm
    rcases hm with h | h
    · exact absurd h (by decide)
    · exact dot_not_mem_digits (allDigits_decDigits (k + 1)) h

theorem zpad9_digits (k : Nat) (hk : k < 1000000000) :
    (zpad 9 (decDigits k)).all isDigit = true ∧ (zpad 9 (decDigits k)).length = 9 ∧
      parseDigits (zpad 9 (decDigits k)) = k := by
  have hl := decDigits_length_le 8 k (by simpa using hk)
  refine ⟨?_, ?_, ?_⟩
  · unfold zpad
    rw [List.all_append]
    simp only [Bool.and_eq_true]
    refine ⟨?_, allDigits_decDigits k⟩
    apply List.all_eq_true.mpr
    intro c hc; rw [List.mem_replicate] at hc; rw [hc.2]; decide
  · unfold zpad; simp; omega
  · unfold zpad
    rw [parseDigits_append, parseDigits_replicate_zero, parseDigits_decDigits]; simp

theorem nineDigits_of_nine {d : Str} (h : d.length = 9) : nineDigits d = d := by
  unfold nineDigits
  rw [List.take_append_of_le_length (by omega), List.take_of_length_le (by omega)]

theorem intStr_sign_false (s : Int) : (s == 0 && (intStr s).head? == some '-') = false := by
  cases s with
  | ofNat k =>
    have hd := allDigits_decDigits k
    have hne := decDigits_ne_nil k
    have : ((intStr (Int.ofNat k)).head? == some '-') = false := by
      show ((decDigits k).head? == some '-') = false
      cases hk : decDigits k with
      | nil => exact absurd hk hne
      | cons c cs =>
        rw [hk] at hd
        simp only [List.all_cons, Bool.and_eq_true] at hd
        have : c ≠ '-' := by intro e; subst e; exact absurd hd.1 (by decide)
        simpa using this
    rw [this]; simp
  | negSucc k => rfl

theorem stampAbs_on : Generated.Expo.stampAbsNsec = true := by decide

/-- `Timestamp.__str__` (with `abs(nsec)`, 7b52129): second count, a dot, nine digits of the magnitude of the nanosecond field -/
theorem stampStr_eq (s n : Int) : OMExpo.stampStr s n = intStr s ++ '.' :: zpad 9 (decDigits n.natAbs) := by
  unfold OMExpo.stampStr
  cases n with
  | ofNat k => simp
  | negSucc k => simp [stampAbs_on, Int.natAbs]

/-- second form: `Timestamp.__str__` — the magnitude `k` of the nanosecond field comes back with the sign of the seconds -/
theorem parseTimestamp_stampText (P : Params) (hI : IntLaw P.pyInt) (s : Int) (k : Nat) (hk : k < 1000000000) :
    parseTimestamp P (intStr s ++ '.' :: zpad 9 (decDigits k)) =
      .ok (some (.stamp s (if s < 0 then -((k : Nat) : Int) else ((k : Nat) : Int)))) := by
  obtain ⟨hd, hlen, hval⟩ := zpad9_digits k hk
  have hb : zpad 9 (decDigits k) ≠ [] := by intro e; rw [e] at hlen; simp at hlen
  have htok : NumTok (intStr s ++ '.' :: zpad 9 (decDigits k)) := by
    refine ⟨by simp, ?_⟩
    intro c hc
    rcases List.mem_append.mp hc with h | h
    · exact (intStr_numTok s).2 c h
    · rcases List.mem_cons.mp h with h | h
      · subst h; decide
      · exact digit_numChar (List.all_eq_true.mp hd c h)
  rw [parseTimestamp_frac P hI _ _ s htok (dot_not_mem_intStr s) (pyInt_intStr hI s) hb hd (intStr_sign_false s),
    nineDigits_of_nine hlen, hval]

/-- **every `Timestamp` object (class invariant) is a fixed point of render-then-parse** -/
theorem parseTimestamp_stamp (P : Params) (hI : IntLaw P.pyInt) (s n : Int)
    (h1 : 0 ≤ s → 0 ≤ n ∧ n < 1000000000) (h2 : s < 0 → -1000000000 < n ∧ n ≤ 0) :
    parseTimestamp P (OMExpo.stampStr s n) = .ok (some (.stamp s n)) := by
  rw [stampStr_eq, parseTimestamp_stampText P hI s n.natAbs (by omega)]
  congr 3
  by_cases hs : s < 0
  · have := h2 hs; simp only [hs, ↓reduceIte]; omega
  · have := h1 (by omega); simp only [hs, ↓reduceIte]; omega

theorem splitFirst_some_eq (c : Char) : ∀ (s a p : Str), splitFirst c s = (a, some p) → s = a ++ c :: p := by
  intro s
  induction s with
  | nil => intro a p h; simp [splitFirst] at h
  | cons x xs ih =>
    intro a p h
    unfold splitFirst at h
    by_cases hx : x = c
    · simp only [hx, ↓reduceIte, Prod.mk.injEq, Option.some.injEq] at h
      obtain ⟨rfl, rfl⟩ := h
      simp [hx]
    · simp only [hx, ↓reduceIte] at h
      cases hr : splitFirst c xs with
      | mk a' p' =>
        rw [hr] at h
        simp only [Prod.mk.injEq] at h
        obtain ⟨rfl, rfl⟩ := h
        rw [ih a' p hr]; simp

/-- third form, exponent spelling: the first two forms refuse it (`int()` rejects an 'e'), `float()` reads it -/
theorem parseTimestamp_exp (P : Params) (hI : IntLaw P.pyInt) (r : Str) (b : Nat) (htok : NumTok r) (he : 'e' ∈ r)
    (hf : P.pyFloat r = some b) (hnan : P.isNaN b = false) (hinf : P.isInf b = false) :
    parseTimestamp P r = .ok (some (.flt b)) := by
  rw [parseTimestamp_numTok P htok, intE_none (hI.reject r ⟨'e', he, Or.inr (Or.inl rfl)⟩)]
  have hfrac : parseTimestampFrac P r = .error .valueError := by
    unfold parseTimestampFrac
    cases hsp : splitFirst '.' r with
    | mk a p? =>
      simp only []
      cases ha : P.pyInt a with
      | none => simp [intE_none ha]
      | some sa =>
        cases p? with
        | none =>
          have hr : a = r := by
            have hnm : '.' ∉ r := by
              intro hm
              obtain ⟨x, y, hxy, hx⟩ := split_first hm
              rw [hxy, splitFirst_dot hx] at hsp
              cases hsp
            rw [splitFirst_of_not_mem hnm] at hsp
            exact (Prod.mk.inj hsp).1.symm
          rw [hr, hI.reject r ⟨'e', he, Or.inr (Or.inl rfl)⟩] at ha
          cases ha
        | some p =>
          have hr := splitFirst_some_eq '.' r a p hsp
          have hep : 'e' ∈ p := by
            rw [hr] at he
            rcases List.mem_append.mp he with h | h
            · rw [hI.reject a ⟨'e', h, Or.inr (Or.inl rfl)⟩] at ha; cases ha
            · rcases List.mem_cons.mp h with h | h
              · exact absurd h (by decide)
              · exact h
          simp only [intE_some ha]
          rw [fracStrict_reject P sa a (hI.reject p ⟨'e', hep, Or.inr (Or.inl rfl)⟩)]
  have hflt : parseTimestampFloat P r = .ok (.flt b) := by
    unfold parseTimestampFloat
    simp [floatE_some hf, hnan, hinf, bind, Except.bind, pure, Except.pure]
  simp only [bind, Except.bind, catch_ve, hfrac, hflt]
  rfl

-- the denoted values ------------------------------------------------------------------------------------------------------

theorem digits_head_ne_minus {a : Str} (ha : a ≠ []) (had : a.all isDigit = true) : (a.head? == some '-') = false := by
  cases a with
  | nil => exact absurd rfl ha
  | cons c cs =>
    simp only [List.all_cons, Bool.and_eq_true] at had
    have : c ≠ '-' := by intro e; subst e; exact absurd had.1 (by decide)
    simpa using this

theorem decimalNanos_plain (neg : Bool) (a b : Str) (ha : a ≠ []) (had : a.all isDigit = true) (hb : b ≠ [])
    (hbd : b.all isDigit = true) :
    decimalNanos ((if neg then ['-'] else []) ++ a ++ '.' :: b) =
      some (if neg then -((parseDigits a * nsPerSec + parseDigits (nineDigits b) : Nat) : Int)
            else ((parseDigits a * nsPerSec + parseDigits (nineDigits b) : Nat) : Int)) := by
  have hae : a.isEmpty = false := by cases a <;> simp at ha ⊢
  have hbe : b.isEmpty = false := by cases b <;> simp at hb ⊢
  unfold decimalNanos
  cases neg with
  | true =>
    simp only [↓reduceIte, List.cons_append, List.nil_append, List.head?_cons, beq_self_eq_true, List.drop_succ_cons, List.drop_zero,
      splitFirst_dot (dot_not_mem_digits had), hae, had, hbe, hbd, Bool.not_false, Bool.and_self]
  | false =>
    have hh : ((a ++ '.' :: b).head? == some '-') = false := by
      cases a with
      | nil => exact absurd rfl ha
      | cons c cs => exact digits_head_ne_minus (a := c :: cs) (by simp) had
    simp only [Bool.false_eq_true, ↓reduceIte, List.nil_append, hh,
      splitFirst_dot (dot_not_mem_digits had), hae, had, hbe, hbd, Bool.not_false, Bool.and_self]

theorem e_not_mem_plain (neg : Bool) (a b : Str) (had : a.all isDigit = true) (hbd : b.all isDigit = true) :
    ((if neg then ['-'] else []) ++ a ++ '.' :: b).contains 'e' = false := by
  apply Bool.eq_false_iff.mpr
  intro hm
  have hm : 'e' ∈ (if neg then ['-'] else []) ++ a ++ '.' :: b := by simpa using hm
  have hd : ∀ d : Str, d.all isDigit = true → 'e' ∉ d := fun d hd h =>
    absurd (List.all_eq_true.mp hd _ h) (by decide)
  rcases List.mem_append.mp hm with h | h
  · rcases List.mem_append.mp h with h | h
    · cases neg <;> simp at h
    · exact hd a had h
  · rcases List.mem_cons.mp h with h | h
    · exact absurd h (by decide)
    · exact hd b hbd h

theorem numTok_plain (neg : Bool) (a b : Str) (had : a.all isDigit = true) (hbd : b.all isDigit = true) :
    NumTok ((if neg then ['-'] else []) ++ a ++ '.' :: b) := by
  refine ⟨by simp, ?_⟩
  intro c hc
  rcases List.mem_append.mp hc with h | h
  · rcases List.mem_append.mp h with h | h
    · cases neg
      · simp at h
      · simp at h; subst h; decide
    · exact digit_numChar (List.all_eq_true.mp had c h)
  · rcases List.mem_cons.mp h with h | h
    · subst h; decide
    · exact digit_numChar (List.all_eq_true.mp hbd c h)

/-- third form, plain decimal spelling, not `-0.…`: read by the `aaaa.bbbb` branch -/
theorem parseTimestamp_plain (P : Params) (hI : IntLaw P.pyInt) (neg : Bool) (a b : Str) (ha : a ≠ [])
    (had : a.all isDigit = true) (hb : b ≠ []) (hbd : b.all isDigit = true) (hnz : ¬ (neg = true ∧ parseDigits a = 0)) :
    parseTimestamp P ((if neg then ['-'] else []) ++ a ++ '.' :: b) =
      .ok (some (.stamp (if neg then -((parseDigits a : Nat) : Int) else ((parseDigits a : Nat) : Int))
        (if (if neg then -((parseDigits a : Nat) : Int) else ((parseDigits a : Nat) : Int)) < 0
          then -((parseDigits (nineDigits b) : Nat) : Int) else ((parseDigits (nineDigits b) : Nat) : Int)))) := by
  have hdot : '.' ∉ (if neg then ['-'] else []) ++ a := by
    intro hm
    rcases List.mem_append.mp hm with h | h
    · cases neg <;> simp at h
    · exact dot_not_mem_digits had h
  have hint : P.pyInt ((if neg then ['-'] else []) ++ a) =
      some (if neg then -((parseDigits a : Nat) : Int) else ((parseDigits a : Nat) : Int)) := by
    cases neg
    · simpa using hI.digits a ha had
    · simpa using hI.neg a ha had
  have hsign : ((if neg then -((parseDigits a : Nat) : Int) else ((parseDigits a : Nat) : Int)) == 0 &&
      ((if neg then ['-'] else []) ++ a).head? == some '-') = false := by
    cases neg with
    | false =>
      have := digits_head_ne_minus ha had
      simp only [Bool.false_eq_true, ↓reduceIte, List.nil_append, this, Bool.and_false]
    | true =>
      have hz : parseDigits a ≠ 0 := fun e => hnz ⟨rfl, e⟩
      have : ((-((parseDigits a : Nat) : Int)) == 0) = false := by
        apply beq_eq_false_iff_ne.mpr; omega
      simp only [↓reduceIte, this, Bool.false_and]
  exact parseTimestamp_frac P hI _ b _ (numTok_plain neg a b had hbd) hdot hint hb hbd hsign

/-- **the three timestamp forms read back to the same instant** -/
theorem ts_roundtrip (P : Params) (hI : IntLaw P.pyInt) (t : Ts) (h : TsOK P t) :
    ∃ o, parseTimestamp P (OMExpo.tsStr t) = .ok (some o) ∧ tsSame P t o := by
  cases t with
  | int n => exact ⟨.stamp n 0, parseTimestamp_int P hI n, Or.inl (by simp [tsDenote, otsDenote])⟩
  | stamp s n =>
    obtain ⟨h1, h2⟩ := h
    simp only [nsPerSec] at h1 h2
    exact ⟨.stamp s n, parseTimestamp_stamp P hI s n h1 (fun hs => by have := h2 hs; omega), Or.inl rfl⟩
  | flt r =>
    rcases h with ⟨neg, a, b, rfl, ha, had, hb, hbd, hzero⟩ | ⟨he, hne, hc, bb, hf, hnan, hinf⟩
    · by_cases hnz : neg = true ∧ parseDigits a = 0
      · obtain ⟨rfl, hz⟩ := hnz
        obtain ⟨bb, hf, hnan, hinf⟩ := hzero rfl hz
        have htok := numTok_plain true a b had hbd
        simp only [↓reduceIte, List.cons_append, List.nil_append] at htok hf ⊢
        refine ⟨.flt bb, ?_, Or.inr ⟨_, bb, rfl, rfl, hf⟩⟩
        exact parseTimestamp_negzero P hI a b bb htok ha had hz hb hbd hf hnan hinf
      · refine ⟨_, parseTimestamp_plain P hI neg a b ha had hb hbd hnz, Or.inl ?_⟩
        simp only [tsDenote, e_not_mem_plain neg a b had hbd, Bool.false_eq_true, ↓reduceIte,
          decimalNanos_plain neg a b ha had hb hbd, Option.map_some, otsDenote, nsPerSec]
        congr 2
        cases neg with
        | false =>
          have : ¬ (((parseDigits a : Nat) : Int) < 0) := by omega
          simp [this]
        | true =>
          have hz : parseDigits a ≠ 0 := fun e => hnz ⟨rfl, e⟩
          have : (-((parseDigits a : Nat) : Int) < 0) := by omega
          simp only [↓reduceIte, this]
          omega
    · exact ⟨.flt bb, parseTimestamp_exp P hI r bb (numTok_of_chars hne hc) he hf hnan hinf, Or.inr ⟨r, bb, rfl, rfl, hf⟩⟩

end PromVerif.Lemmas.OMRt
