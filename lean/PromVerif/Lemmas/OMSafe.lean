/-
"Only ValueError can escape" (`Safe`) for the pieces of the shared scanning core the OpenMetrics parser calls, in
OpenMetrics mode (`parse_labels(..., True)`), and termination of its label loop.

The generic part (`Safe` and its combinators, the `strip` facts, `oneLabelBody` with its two lemmas, `_parse_value`)
is copied from the text-parser half of C14 (Lemmas/TextParseBase.lean, Lemmas/TextParseTotal.lean — same statements,
same proofs) so that the two halves build independently; what is specific to OpenMetrics mode follows it.
-/
import PromVerif.Lemmas.Str
import PromVerif.Model.OMParse

namespace PromVerif.Lemmas.OM
open PromVerif.Py PromVerif.Model.ParseCore PromVerif.Model.Validation PromVerif.Model.OMParse

-- copied ------------------------------------------------------------------------------------------------------

theorem lstrip_of_head {s : Str} {a : Char} (h : s.head? = some a) (ha : isPySpace a = false) : lstrip s = s := by
  cases s with
  | nil => rfl
  | cons c cs =>
    simp at h; subst h
    simp [lstrip, lstripSet, List.dropWhile, ha]

/-- only trailing blanks are removed when the head is not blank -/
theorem strip_of_head {s : Str} {a : Char} (h : s.head? = some a) (ha : isPySpace a = false) : strip s = rstrip s := by
  have e1 : lstripSet isPySpace s = s := lstrip_of_head h ha
  unfold strip stripSet rstrip
  rw [e1]

-- the legacy alphabets ------------------------------------------------------------------------------------------

/-- only ValueError -/
def Safe {α : Type} (r : PyM α) : Prop := ∀ e, r = .error e → e = .valueError

theorem safe_ok {α : Type} (a : α) : Safe (.ok a : PyM α) := fun e he => by cases he

theorem safe_pure {α : Type} (a : α) : Safe (pure a : PyM α) := fun e he => by cases he

theorem safe_valueError {α : Type} : Safe (.error .valueError : PyM α) := fun e he => by cases he; rfl

theorem safe_throw {α : Type} : Safe (throw .valueError : PyM α) := fun e he => by cases he; rfl

theorem safe_bind {α β : Type} {m : PyM α} {f : α → PyM β} (hm : Safe m) (hf : ∀ a, m = .ok a → Safe (f a)) :
    Safe (m >>= f) := by
  intro e he
  cases hm' : m with
  | error e' =>
    rw [hm'] at he
    have : e' = e := by simpa [bind, Except.bind] using he
    subst this
    exact hm _ hm'
  | ok a =>
    rw [hm'] at he
    exact hf a hm' e (by simpa [bind, Except.bind] using he)

-- strip ---------------------------------------------------------------------------------------------------------------

theorem lstrip_head_not_space (s : Str) (a : Char) (h : (lstrip s).head? = some a) : isPySpace a = false := by
  unfold lstrip lstripSet at h
  have := List.head?_dropWhile_not isPySpace s
  rw [h] at this
  simpa using this

theorem rstripSet_head (p : Char → Bool) (s : Str) : (rstripSet p s).head? = some a → s.head? = some a := by
  intro h
  obtain ⟨j, hj, _⟩ := rstripSet_prefix p s
  cases hr : rstripSet p s with
  | nil => rw [hr] at h; simp at h
  | cons x xs => rw [hr] at h hj; rw [hj]; simpa using h

theorem strip_head_not_space (s : Str) (a : Char) (h : (strip s).head? = some a) : isPySpace a = false := by
  unfold strip stripSet at h
  exact lstrip_head_not_space s a (rstripSet_head _ _ h)

theorem strip_length_le (s : Str) : (strip s).length ≤ s.length := by
  unfold strip stripSet
  obtain ⟨j, hj, _⟩ := rstripSet_prefix isPySpace (lstripSet isPySpace s)
  have h1 : (rstripSet isPySpace (lstripSet isPySpace s)).length ≤ (lstripSet isPySpace s).length := by
    have := congrArg List.length hj; simp at this; omega
  have h2 : (lstripSet isPySpace s).length ≤ s.length := by
    unfold lstripSet
    exact (List.dropWhile_sublist _).length_le
  omega

/-- the body of one iteration of the `while sub_labels:` loop after `_next_term` (text mode) -/
def oneLabelBody (legacy : Bool) (labels : List (Str × Str)) (term rest : Str) : PyM (List (Str × Str) × Str) :=
  if term.isEmpty then pure (labels, rest)
  else do
    let opPos := nextUnquotedChar term (· == '=')
    let (labelName, quotedName, term1) ← (match opPos with
      | none => (pure (("__name__".toList, true, term)) : PyM (Str × Bool × Str))
      | some vs => do
        let (ln, q) ← unquoteUnescape (term.take vs)
        pure (ln, q, term.drop (vs + 1)))
    if !quotedName && !isValidLegacyMetricName labelName then throw .valueError
    let term2 := strip term1
    match term2 with
    | '"' :: _ =>
      match findClosingQuote term2 (term2.length + 1) 1 with
      | none => throw .valueError
      | some i =>
        let quoteEnd := i + 1
        if quoteEnd != term2.length then throw .valueError
        let (labelValue, _) ← unquoteUnescape (term2.take quoteEnd)
        if labelName == "__name__".toList then validateMetricName legacy labelName
        else validateLabelname legacy labelName
        if labels.any (fun kv => kv.1 == labelName) then throw .valueError
        pure (labels ++ [(labelName, labelValue)], rest)
    | _ => throw .valueError

theorem take_safe_of_head {term : Str} (hh : ∀ a, term.head? = some a → isPySpace a = false) (n : Nat) :
    term.take n = [] ∨ strip (term.take n) ≠ [] := by
  cases term with
  | nil => left; simp
  | cons a t =>
    cases n with
    | zero => left; rfl
    | succ k =>
      right
      have ha := hh a rfl
      simp only [List.take_succ_cons]
      rw [strip_of_head (a := a) rfl ha]
      intro e
      have := (rstripSet_eq_nil_iff isPySpace (a :: List.take k t)).mp e
      simp [ha] at this

theorem safe_validateMetricName (legacy : Bool) (n : Str) : Safe (validateMetricName legacy n) := by
  intro e he; unfold validateMetricName at he
  split at he
  · cases he; rfl
  · split at he
    · cases he; rfl
    · cases he

theorem safe_validateLabelname (legacy : Bool) (n : Str) : Safe (validateLabelname legacy n) := by
  intro e he; unfold validateLabelname at he
  split at he
  · split at he
    · cases he; rfl
    · split at he
      · cases he; rfl
      · cases he
  · split at he
    · cases he; rfl
    · cases he

theorem safe_ite {α : Type} {c : Prop} [Decidable c] {a b : PyM α} (ha : Safe a) (hb : Safe b) : Safe (if c then a else b) := by
  split <;> assumption

theorem safe_throw_bind {α β : Type} (f : α → PyM β) : Safe ((throw .valueError : PyM α) >>= f) := by
  intro e he; cases he; rfl

/-- a successful result carries the given remainder -/
def RestIs (rest : Str) (r : PyM (List (Str × Str) × Str)) : Prop := ∀ l' r', r = .ok (l', r') → r' = rest

theorem restIs_pure (rest : Str) (l : List (Str × Str)) : RestIs rest (pure (l, rest)) := by
  intro l' r' h; cases h; rfl

theorem restIs_throw (rest : Str) : RestIs rest (throw .valueError) := by
  intro l' r' h; cases h

theorem restIs_bind {α : Type} (rest : Str) (m : PyM α) (f : α → PyM (List (Str × Str) × Str)) (hf : ∀ a, RestIs rest (f a)) :
    RestIs rest (m >>= f) := by
  intro l' r' h
  cases hm : m with
  | error e => rw [hm] at h; cases h
  | ok a => rw [hm] at h; exact hf a l' r' h

theorem restIs_ite {c : Prop} [Decidable c] {rest : Str} {a b : PyM (List (Str × Str) × Str)} (ha : RestIs rest a)
    (hb : RestIs rest b) : RestIs rest (if c then a else b) := by
  split <;> assumption

theorem oneLabelBody_rest (legacy : Bool) (labels : List (Str × Str)) (term rest : Str) :
    RestIs rest (oneLabelBody legacy labels term rest) := by
  unfold oneLabelBody
  apply restIs_ite (restIs_pure _ _)
  apply restIs_bind
  intro x
  obtain ⟨labelName, quotedName, term1⟩ := x
  simp only []
  refine restIs_ite (restIs_bind _ _ _ (fun _ => ?_)) ?_
  all_goals
    split
    · split
      · exact restIs_throw _
      · refine restIs_ite (restIs_bind _ _ _ (fun _ => ?_)) ?_
        all_goals
          apply restIs_bind
          intro y
          refine restIs_ite ?_ ?_
          all_goals
            apply restIs_bind
            intro _
            exact restIs_ite (restIs_bind _ _ _ (fun _ => restIs_pure _ _)) (restIs_pure _ _)
    · exact restIs_throw _

theorem safe_parseValue (pyInt : Str → Option Int) (pyFloat : Str → Option Nat) (v : Str) : Safe (parseValue pyInt pyFloat v) := by
  intro e he; unfold parseValue at he
  split at he
  · cases he; rfl
  · split at he
    · cases he
    · split at he
      · cases he
      · cases he; rfl

/-- `_unquote_unescape` raises nothing but ValueError (since the repair of F8 it strips before it looks at `text[0]`) -/
theorem unquoteUnescape_safe' (t : Str) : Safe (unquoteUnescape t) := by
  intro e he
  unfold unquoteUnescape at he
  dsimp only at he
  split at he
  · cases he
  · split at he
    · cases he
    · split at he
      · cases he; rfl
      · cases he
    · cases he

theorem unquoteUnescape_safe (t : Str) (_h : t = [] ∨ strip t ≠ []) : Safe (unquoteUnescape t) := unquoteUnescape_safe' t

-- copied (needs `unquoteUnescape_safe`) --

theorem oneLabelBody_safe (legacy : Bool) (labels : List (Str × Str)) (term rest : Str)
    (hh : ∀ a, term.head? = some a → isPySpace a = false) : Safe (oneLabelBody legacy labels term rest) := by
  unfold oneLabelBody
  apply safe_ite (safe_pure _)
  apply safe_bind
  · split
    · exact safe_pure _
    · apply safe_bind (unquoteUnescape_safe _ (take_safe_of_head hh _))
      intro a _; exact safe_pure _
  · intro x _
    obtain ⟨labelName, quotedName, term1⟩ := x
    simp only []
    refine safe_ite (safe_throw_bind _) ?_
    split
    · rename_i tl heq
      split
      · exact safe_throw
      · refine safe_ite (safe_throw_bind _) ?_
        apply safe_bind
        · apply unquoteUnescape_safe
          right
          rw [heq]
          simp only [List.take_succ_cons]
          rw [strip_of_head (a := '"') rfl (by decide)]
          intro e
          have := (rstripSet_eq_nil_iff isPySpace _).mp e
          simp at this
          exact absurd this.1 (by decide)
        · intro y _
          refine safe_ite ?_ ?_
          · apply safe_bind (safe_validateMetricName _ _)
            intro _ _
            exact safe_ite (safe_throw_bind _) (safe_pure _)
          · apply safe_bind (safe_validateLabelname _ _)
            intro _ _
            exact safe_ite (safe_throw_bind _) (safe_pure _)
    · exact safe_throw

-- OpenMetrics mode ------------------------------------------------------------------------------------------------

theorem parseOneLabel_om_eq (legacy : Bool) (sub : Str) (labels : List (Str × Str)) :
    parseOneLabel legacy true sub labels = nextTerm sub true >>= fun tr =>
      if tr.1.isEmpty then throw .valueError else oneLabelBody legacy labels tr.1 tr.2 := by
  unfold parseOneLabel oneLabelBody
  cases nextTerm sub true with
  | error e => rfl
  | ok tr =>
    obtain ⟨term, rest⟩ := tr
    simp only [bind, Except.bind]
    by_cases c : term.isEmpty = true
    · simp only [c, if_true]
    · simp only [c, Bool.false_eq_true, if_false]
      rfl

/-- the part of `_next_term` after the optional leading comma, in OpenMetrics mode -/
def omTail (t : Str) : PyM (Str × Str) :=
  let splitpos := match nextUnquotedChar t (fun ch => ch == ',' || ch == '}') with
    | some p => p
    | none => t.length
  let term := t.take splitpos
  if term.isEmpty && true then (.error .valueError : PyM (Str × Str))
  else .ok (strip term, strip (t.drop splitpos))

theorem nextTerm_om_no_comma (c : Char) (cs : Str) (hc : c ≠ ',') : nextTerm (c :: cs) true = omTail (c :: cs) := by
  have : (c == ',') = false := by simpa using hc
  unfold nextTerm omTail
  simp only [this, Bool.false_eq_true, ↓reduceIte]
  rfl

theorem nextTerm_om_comma_nil : nextTerm [','] true = .ok ([], []) := rfl
theorem nextTerm_om_comma_comma (ds : Str) : nextTerm (',' :: ',' :: ds) true = .error .valueError := rfl

theorem nextTerm_om_comma_cons (d : Char) (ds : Str) (hd : d ≠ ',') :
    nextTerm (',' :: d :: ds) true = omTail (d :: ds) := by
  unfold nextTerm omTail
  simp only [beq_self_eq_true, ↓reduceIte]
  split
  · rename_i e1
    split at e1
    · rename_i e'; simp at e'
    · rename_i e'; simp at e'; exact absurd e'.1 hd
    · simp at e1
  · rename_i e1
    split at e1
    · rename_i e'; simp at e'
    · simp at e1
    · simp at e1
  · rename_i t1 e1
    split at e1
    · rename_i e'; simp at e'
    · simp at e1
    · simp only [Except.ok.injEq, Option.some.injEq] at e1
      subst e1
      rfl

theorem omTail_spec (t : Str) : Safe (omTail t) ∧
    ∀ term rest, omTail t = .ok (term, rest) → rest.length < t.length ∧ (∀ a, term.head? = some a → isPySpace a = false) := by
  unfold omTail
  dsimp only
  generalize (match nextUnquotedChar t (fun ch => ch == ',' || ch == '}') with
    | some p => p
    | none => t.length) = splitpos
  constructor
  · intro e he
    by_cases c : ((t.take splitpos).isEmpty && true) = true
    · rw [if_pos c] at he; cases he; rfl
    · rw [if_neg c] at he; cases he
  · intro term rest h
    by_cases c : ((t.take splitpos).isEmpty && true) = true
    · rw [if_pos c] at h; cases h
    · rw [if_neg c] at h
      obtain ⟨h1, h2⟩ := Prod.mk.inj (Except.ok.inj h)
      refine ⟨?_, fun a ha => strip_head_not_space _ a (by rw [h1]; exact ha)⟩
      have hne : t.take splitpos ≠ [] := by
        intro e; rw [e] at c; exact c rfl
      have hpos : 0 < splitpos ∧ 0 < t.length := by
        constructor
        · cases hs : splitpos with
          | zero => rw [hs] at hne; simp at hne
          | succ k => omega
        · cases t with
          | nil => simp at hne
          | cons a b => simp
      have h3 := strip_length_le (t.drop splitpos)
      have h4 : (t.drop splitpos).length = t.length - splitpos := List.length_drop
      rw [← h2]; omega

/-- `_next_term` in OpenMetrics mode on a non-empty string: only ValueError; a non-empty term leaves a strictly
shorter remainder and starts with a non-blank character -/
theorem nextTerm_om_spec (sub : Str) (hne : sub ≠ []) :
    Safe (nextTerm sub true) ∧
    ∀ term rest, nextTerm sub true = .ok (term, rest) → term ≠ [] →
      rest.length < sub.length ∧ (∀ a, term.head? = some a → isPySpace a = false) := by
  cases sub with
  | nil => exact absurd rfl hne
  | cons c rest0 =>
    by_cases hc : c = ','
    · subst hc
      cases rest0 with
      | nil =>
        rw [nextTerm_om_comma_nil]
        exact ⟨safe_ok _, fun term rest h hterm => by cases h; exact absurd rfl hterm⟩
      | cons d ds =>
        by_cases hd : d = ','
        · subst hd
          rw [nextTerm_om_comma_comma]
          exact ⟨safe_valueError, fun term rest h _ => by cases h⟩
        · rw [nextTerm_om_comma_cons d ds hd]
          obtain ⟨hs, hr⟩ := omTail_spec (d :: ds)
          refine ⟨hs, fun term rest h _ => ?_⟩
          have := hr term rest h
          exact ⟨by simp only [List.length_cons] at this ⊢; omega, this.2⟩
    · rw [nextTerm_om_no_comma c rest0 hc]
      obtain ⟨hs, hr⟩ := omTail_spec (c :: rest0)
      exact ⟨hs, fun term rest h _ => hr term rest h⟩

/-- one iteration of the label loop in OpenMetrics mode: only ValueError, and the remainder is strictly shorter -/
theorem parseOneLabel_om_spec (legacy : Bool) (sub : Str) (hne : sub ≠ []) (labels : List (Str × Str)) :
    Safe (parseOneLabel legacy true sub labels) ∧
    ∀ l' rest, parseOneLabel legacy true sub labels = .ok (l', rest) → rest.length < sub.length := by
  obtain ⟨hs, hr⟩ := nextTerm_om_spec sub hne
  rw [parseOneLabel_om_eq]
  constructor
  · apply safe_bind hs
    intro tr htr
    by_cases c : tr.1.isEmpty = true
    · rw [if_pos c]; exact safe_throw
    · rw [if_neg c]
      have hne' : tr.1 ≠ [] := by intro e; rw [e] at c; exact c rfl
      exact oneLabelBody_safe _ _ _ _ (hr tr.1 tr.2 htr hne').2
  · intro l' rest h
    cases hnt : nextTerm sub true with
    | error e => rw [hnt] at h; cases h
    | ok tr =>
      rw [hnt] at h
      simp only [bind, Except.bind] at h
      by_cases c : tr.1.isEmpty = true
      · rw [if_pos c] at h; cases h
      · rw [if_neg c] at h
        have hne' : tr.1 ≠ [] := by intro e; rw [e] at c; exact c rfl
        have := oneLabelBody_rest legacy labels tr.1 tr.2 l' rest h
        subst this
        exact (hr tr.1 tr.2 hnt hne').1

/-- **the label loop terminates** in OpenMetrics mode: `timeout` is unreachable and only ValueError can be raised -/
theorem parseLabelsLoop_om_safe (legacy : Bool) : ∀ (fuel : Nat) (sub : Str) (labels : List (Str × Str)),
    sub.length < fuel → Safe (parseLabelsLoop legacy true fuel sub labels) := by
  intro fuel
  induction fuel with
  | zero => intro sub labels h; omega
  | succ f ih =>
    intro sub labels hf
    rw [parseLabelsLoop]
    by_cases he : sub.isEmpty = true
    · rw [if_pos he]; exact safe_ok _
    · rw [if_neg he]
      have hne : sub ≠ [] := by intro e; subst e; exact he rfl
      obtain ⟨hs, hr⟩ := parseOneLabel_om_spec legacy sub hne labels
      apply safe_bind hs
      intro x hx
      obtain ⟨l', rest⟩ := x
      have := hr l' rest hx
      exact ih rest l' (by omega)

/-- `parse_labels(s, True)` raises nothing but ValueError, for every string -/
theorem parseLabels_om_safe (legacy : Bool) (s : Str) : Safe (parseLabels legacy s true) := by
  unfold parseLabels
  dsimp only
  split
  · exact safe_valueError
  · exact parseLabelsLoop_om_safe legacy _ _ _ (by omega)

end PromVerif.Lemmas.OM
