/-
C05 lemmas, part 9: the OpenMetrics exposition as a whole — the list of lines and their kinds.
-/
import PromVerif.Lemmas.LinesOM

namespace PromVerif.Lemmas.Lines
open PromVerif.Py PromVerif.Model PromVerif.Model.Escape PromVerif.Model.Validation
open PromVerif.Generated.Expo PromVerif.Generated.Validation
open PromVerif.Spec.LineGrammar hiding Str

/-- `ls` are LF-terminated lines of the grammar whose kinds are `ks`, in order -/
def LinesOf (om : Bool) : List Str → List Kind → Prop
  | [], [] => True
  | l :: ls, k :: ks => LineOf om k l ∧ LinesOf om ls ks
  | _, _ => False

theorem LinesOf.append {om : Bool} {a b : List Str} {ka kb : List Kind} (ha : LinesOf om a ka) (hb : LinesOf om b kb) :
    LinesOf om (a ++ b) (ka ++ kb) := by
  induction a generalizing ka with
  | nil => cases ka with
    | nil => simpa using hb
    | cons k ks => simp [LinesOf] at ha
  | cons l ls ih => cases ka with
    | nil => simp [LinesOf] at ha
    | cons k ks => exact ⟨ha.1, ih ha.2⟩

theorem LinesOf.isLine {om : Bool} {ls : List Str} {ks : List Kind} (h : LinesOf om ls ks) : ∀ l ∈ ls, IsLine l := by
  induction ls generalizing ks with
  | nil => intro l hl; simp at hl
  | cons x xs ih => cases ks with
    | nil => simp [LinesOf] at h
    | cons k ks =>
      intro l hl
      rcases List.mem_cons.mp hl with rfl | hl
      · exact h.1.isLine
      · exact ih h.2 l hl

theorem LinesOf.kinds {om : Bool} {ls : List Str} {ks : List Kind} (h : LinesOf om ls ks) :
    ls.map (fun l => classify om l.dropLast) = ks.map some := by
  induction ls generalizing ks with
  | nil => cases ks with
    | nil => rfl
    | cons k ks => simp [LinesOf] at h
  | cons x xs ih => cases ks with
    | nil => simp [LinesOf] at h
    | cons k ks => simp [h.1.kind, ih h.2]

theorem LinesOf.flatten {om : Bool} {α : Type} (xs : List α) (f : α → List Str) (g : α → List Kind)
    (h : ∀ x ∈ xs, LinesOf om (f x) (g x)) : LinesOf om (xs.map f).flatten (xs.flatMap g) := by
  induction xs with
  | nil => simp [LinesOf]
  | cons x r ih =>
    simp only [List.map_cons, List.flatten_cons, List.flatMap_cons]
    exact (h x (by simp)).append (ih (fun y hy => h y (by simp [hy])))

/-- hypotheses on a family for OpenMetrics: the type is one of `METRIC_TYPES`, numbers are number tokens
(preconditions), and — the one hypothesis that excludes a known finding — the unit, which is written raw (F4), is
empty or a clean token.  Nothing is assumed about any name, help text, label or exemplar label. -/
def familyOKOM (f : Family) : Bool :=
  PromVerif.Generated.Ctor.metricTypes.contains f.typ &&
    (f.unit.isEmpty || unitTok f.unit) && f.samples.all sampleOKOM

/-- the kinds of line OpenMetrics owes a family -/
def omKinds (f : Family) : List Kind :=
  [.help, .type] ++ (if f.unit.isEmpty then [] else [.unit]) ++ List.replicate f.samples.length .sample

theorem mapM_samples (fam : Family) (ss : List Sample) (out : List Str)
    (h : ss.mapM (OMExpo.sampleLine fam) = .ok out) (hok : ∀ s ∈ ss, sampleOKOM s = true) :
    LinesOf true out (List.replicate ss.length .sample) := by
  induction ss generalizing out with
  | nil =>
    simp [pure, Except.pure] at h
    subst h; simp [LinesOf]
  | cons s r ih =>
    rw [List.mapM_cons] at h
    cases h1 : OMExpo.sampleLine fam s with
    | error e => simp [h1, bind, Except.bind] at h
    | ok l =>
      cases h2 : r.mapM (OMExpo.sampleLine fam) with
      | error e => simp [h1, h2, bind, Except.bind] at h
      | ok ls =>
        simp [h1, h2, bind, Except.bind, pure, Except.pure] at h
        subst h
        exact ⟨om_sampleLine_lineOf fam s l (hok s (by simp)) h1, ih ls h2 (fun x hx => hok x (by simp [hx]))⟩

theorem om_familyLines_ok (fam : Family) (fl : List Str) (h : OMExpo.familyLines fam = .ok fl)
    (hok : familyOKOM fam = true) : LinesOf true fl (omKinds fam) := by
  simp only [familyOKOM, Bool.and_eq_true, Bool.or_eq_true, List.all_eq_true] at hok
  obtain ⟨⟨ht, hu⟩, hs⟩ := hok
  have htyp := munge_type_ok fam.typ (by simpa using ht)
  unfold OMExpo.familyLines at h
  cases h2 : fam.samples.mapM (OMExpo.sampleLine fam) with
  | error e => simp [h2, bind, Except.bind] at h
  | ok ls =>
    simp [h2, bind, Except.bind, pure, Except.pure] at h
    subst h
    have hsamp := mapM_samples fam fam.samples ls h2 hs
    have hhelp : LineOf true .help ("# HELP ".toList ++ escapeMetricName fam.name ++ [' '] ++ escape fam.doc ++ ['\n']) := by
      refine ⟨_, rfl, ?_⟩
      simp only [List.append_assoc, List.cons_append, List.nil_append]
      exact classify_help true fam.name _ (by simp [helpText, qscan_escape])
    have htype : LineOf true .type ("# TYPE ".toList ++ escapeMetricName fam.name ++ [' '] ++ fam.typ ++ ['\n']) := by
      refine ⟨_, rfl, ?_⟩
      simp only [List.append_assoc, List.cons_append, List.nil_append]
      exact classify_type true fam.name _ (by simpa using htyp.2)
    unfold omKinds
    by_cases hue : fam.unit.isEmpty = true
    · have hu0 : fam.unit = [] := by simpa using hue
      simp only [hue, if_true, List.append_nil]
      simpa [List.append_assoc, hu0] using
        (show LinesOf true ([_, _] ++ ls) ([Kind.help, Kind.type] ++ _) from
          LinesOf.append ⟨hhelp, htype, trivial⟩ hsamp)
    · have hut : unitTok fam.unit = true := by
        rcases hu with hu | hu
        · exact absurd hu hue
        · exact hu
      have hunit : LineOf true .unit ("# UNIT ".toList ++ escapeMetricName fam.name ++ [' '] ++ fam.unit ++ ['\n']) := by
        refine ⟨_, rfl, ?_⟩
        simp only [List.append_assoc, List.cons_append, List.nil_append]
        exact classify_unit fam.name _ hut
      have hu1 : fam.unit ≠ [] := by simpa using hue
      simp only [hue, Bool.false_eq_true, if_false]
      simpa [List.append_assoc, hu1] using
        (show LinesOf true ([_, _] ++ [_] ++ ls) ([Kind.help, Kind.type] ++ [Kind.unit] ++ _) from
          LinesOf.append (LinesOf.append ⟨hhelp, htype, trivial⟩ ⟨hunit, trivial⟩) hsamp)

theorem mapM_families (fs : List Family) (out : List (List Str))
    (h : fs.mapM OMExpo.familyLines = .ok out) (hok : ∀ f ∈ fs, familyOKOM f = true) :
    LinesOf true out.flatten (fs.flatMap omKinds) := by
  induction fs generalizing out with
  | nil =>
    simp [pure, Except.pure] at h
    subst h; simp [LinesOf]
  | cons f r ih =>
    rw [List.mapM_cons] at h
    cases h1 : OMExpo.familyLines f with
    | error e => simp [h1, bind, Except.bind] at h
    | ok l =>
      cases h2 : r.mapM OMExpo.familyLines with
      | error e => simp [h1, h2, bind, Except.bind] at h
      | ok ls =>
        simp [h1, h2, bind, Except.bind, pure, Except.pure] at h
        subst h
        simp only [List.flatten_cons, List.flatMap_cons]
        exact (om_familyLines_ok f l h1 (hok f (by simp))).append (ih ls h2 (fun x hx => hok x (by simp [hx])))

theorem eof_lineOf : LineOf true .eof "# EOF\n".toList := ⟨"# EOF".toList, by decide, classify_eof⟩

/-- the OpenMetrics exposition, when it does not raise, is these lines with these kinds -/
theorem om_doc (fs : List Family) (out : Str) (h : OMExpo.generateLatest fs = .ok out)
    (hok : ∀ f ∈ fs, familyOKOM f = true) :
    ∃ lines : List Str, out = lines.flatten ∧ LinesOf true lines (fs.flatMap omKinds ++ [.eof]) := by
  unfold OMExpo.generateLatest at h
  cases h2 : fs.mapM OMExpo.familyLines with
  | error e => simp [h2, bind, Except.bind] at h
  | ok ls =>
    simp [h2, bind, Except.bind, pure, Except.pure] at h
    refine ⟨ls.flatten ++ ["# EOF\n".toList], ?_, ?_⟩
    · rw [← h]; simp
    · exact (mapM_families fs ls h2 hok).append ⟨eof_lineOf, trivial⟩

/-- when does the OpenMetrics exposition raise: only for an exemplar on an ineligible sample -/
def exemplarsEligible (f : Family) : Bool :=
  f.samples.all (fun s => s.exemplar.isNone || OMExpo.isValidExemplarMetric f.typ f.name s.name)

theorem mapM_samples_total (fam : Family) (ss : List Sample)
    (h : ∀ s ∈ ss, s.exemplar.isNone = true ∨ OMExpo.isValidExemplarMetric fam.typ fam.name s.name = true) :
    ∃ out, ss.mapM (OMExpo.sampleLine fam) = .ok out := by
  induction ss with
  | nil => exact ⟨[], rfl⟩
  | cons s r ih =>
    obtain ⟨l, hl⟩ := om_sampleLine_total fam s (h s (by simp))
    obtain ⟨ls, hls⟩ := ih (fun x hx => h x (by simp [hx]))
    rw [List.mapM_cons, hl, hls]
    exact ⟨l :: ls, rfl⟩

theorem om_total (fs : List Family) (h : ∀ f ∈ fs, exemplarsEligible f = true) :
    ∃ out, OMExpo.generateLatest fs = .ok out := by
  have hf : ∀ f ∈ fs, ∃ fl, OMExpo.familyLines f = .ok fl := by
    intro f hfm
    have := h f hfm
    simp only [exemplarsEligible, List.all_eq_true, Bool.or_eq_true] at this
    obtain ⟨ls, hls⟩ := mapM_samples_total f f.samples this
    unfold OMExpo.familyLines
    rw [hls]
    exact ⟨_, rfl⟩
  have hm : ∃ ls, fs.mapM OMExpo.familyLines = .ok ls := by
    clear h
    induction fs with
    | nil => exact ⟨[], rfl⟩
    | cons f r ih =>
      obtain ⟨l, hl⟩ := hf f (by simp)
      obtain ⟨ls, hls⟩ := ih (fun x hx => hf x (by simp [hx]))
      rw [List.mapM_cons, hl, hls]
      exact ⟨l :: ls, rfl⟩
  obtain ⟨ls, hls⟩ := hm
  unfold OMExpo.generateLatest
  rw [hls]
  exact ⟨_, rfl⟩

end PromVerif.Lemmas.Lines
