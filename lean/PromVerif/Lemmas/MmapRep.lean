/-
C10/C11: `FileRep` — a file that is header + encoded entries + arbitrary tail — and what the three readers return on it.
-/
import PromVerif.Lemmas.MmapScan
namespace PromVerif.Lemmas.Mmap
open PromVerif.Py PromVerif.Model.MmapDict PromVerif.Generated.Mmap

/-! ## files that represent an entry list -/

/-- the 8 header bytes: used-bytes counter and 4 bytes of padding (never written, zero since the first truncate) -/
def hdr (used : Nat) : Bytes := le 4 used ++ [0, 0, 0, 0]

@[simp] theorem hdr_length (u : Nat) : (hdr u).length = 8 := by simp [hdr]

/-- `file` is header + the encoded entries `es` + `tail`, and the header counts exactly the entries.  Nothing is said
about `tail`: the readers never look beyond `used`. -/
structure FileRep (file : Bytes) (used : Nat) (es : List Entry) (tail : Bytes) : Prop where
  file_eq : file = hdr used ++ (encEntries es ++ tail)
  used_eq : used = 8 + (encEntries es).length
  used_lt : used < 2147483648

theorem FileRep.length {file used es tail} (h : FileRep file used es tail) : file.length = used + tail.length := by
  rw [h.file_eq, h.used_eq]; simp; omega

theorem FileRep.unpack_header {file used es tail} (h : FileRep file used es tail) :
    unpackInt file headerPos = .ok (used : Int) :=
  unpackInt_le (a := []) (c := [0, 0, 0, 0] ++ (encEntries es ++ tail)) (by simp [h.file_eq, hdr]) rfl h.used_lt

theorem FileRep.loop_ok {file used es tail} (h : FileRep file used es tail) :
    readLoop file used used scanStart = .ok (scanOut 8 es) := by
  rw [h.file_eq]
  have := length_le_encEntries es
  exact readLoop_ok es (hdr used) tail used 8 used (by simp) h.used_eq h.used_lt (by have := h.used_eq; omega)

theorem FileRep.raw_ok {file used es tail} (h : FileRep file used es tail) :
    readAllValuesRaw file (used : Int) = .ok (scanOut 8 es) := by
  have h8 : ¬ ((used : Int) ≤ 0) := by have := h.used_eq; omega
  unfold Model.MmapDict.readAllValuesRaw
  simp only [h8, if_false, bind, Except.bind, Int.toNat_natCast]
  exact h.loop_ok

/-- `_read_all_values(data)` without a `used` argument takes it from the header -/
theorem FileRep.raw_zero_ok {file used es tail} (h : FileRep file used es tail) :
    readAllValuesRaw file 0 = .ok (scanOut 8 es) := by
  have h8 : ¬ ((used : Int) ≤ 0) := by have := h.used_eq; omega
  unfold Model.MmapDict.readAllValuesRaw
  simp only [Int.le_refl, if_true, h.unpack_header, bind, Except.bind, h8, if_false, Int.toNat_natCast]
  exact h.loop_ok

theorem FileRep.take {file used es tail} (h : FileRep file used es tail) (m : Nat) (hm : used ≤ m) :
    FileRep (file.take m) used es (tail.take (m - used)) := by
  refine ⟨?_, h.used_eq, h.used_lt⟩
  have hu := h.used_eq
  rw [h.file_eq, ← List.append_assoc, List.take_append, List.take_of_length_le (by simp; omega)]
  simp only [List.append_assoc, List.length_append, hdr_length]
  rw [show m - (8 + (encEntries es).length) = m - used by omega]

/-- the short-file guard of the source (`len(data) < 4`) does not fire on a first block that holds the counter -/
theorem shortFile_false {data : Bytes} (h : 4 ≤ data.length) : shortFile data = false := by
  simp [shortFile, shortFileGuard]; omega

/-- … and fires on anything shorter (re-proved against the extracted guard on every run) -/
theorem shortFile_true {data : Bytes} (h : data.length < 4) : shortFile data = true := by
  simp [shortFile, shortFileGuard]; omega

/-- the collector's file reader (two reads: one page, then the rest up to `used`) sees exactly the entries -/
theorem FileRep.fromFile_ok {file used es tail} (h : FileRep file used es tail) (page : Nat) (hp : 4 ≤ page) :
    readAllValuesFromFile page file = .ok (scanOut 8 es) := by
  have hu := h.used_eq
  have hl := h.length
  unfold Model.MmapDict.readAllValuesFromFile
  have hsf : shortFile (file.take page) = false := shortFile_false (by rw [List.length_take]; omega)
  simp only [hsf, Bool.false_eq_true, if_false]
  -- the header is inside the first page
  have hhead : unpackInt (file.take page) headerPos = .ok (used : Int) := by
    refine unpackInt_le (a := []) (c := ([0, 0, 0, 0] ++ (encEntries es ++ tail)).take (page - 4)) ?_ rfl h.used_lt
    rw [h.file_eq, hdr, List.append_assoc, List.take_append, List.take_of_length_le (by simp; omega)]
    simp
  simp only [hhead, bind, Except.bind, Int.toNat_natCast, List.length_take]
  by_cases hc : (used : Int) > ((min page file.length : Nat) : Int)
  · have hc' : min page file.length < used := by omega
    have hpg : min page file.length = page := by omega
    have hc2 : (used : Int) > (page : Int) := by omega
    simp only [hpg]
    rw [← List.take_add, show page + (used - page) = used by omega, if_pos hc2]
    exact (h.take used (Nat.le_refl _)).raw_ok
  · have hc' : used ≤ min page file.length := by omega
    simp only [hc, if_false]
    exact (h.take page (by omega)).raw_ok

end PromVerif.Lemmas.Mmap
