/-
URL-safe base64: the decoder of `Spec.Gateway` inverts the encoder of `Model.Gateway` on every byte string,
and the encoded text stays inside `A–Z a–z 0–9 - _ =`.
-/
import PromVerif.Model.Gateway
import PromVerif.Spec.Gateway
import PromVerif.Lemmas.Str

namespace PromVerif.Lemmas.Base64
open PromVerif.Py PromVerif.Model.Gateway PromVerif.Spec.Gateway

/-- the 64 characters of the alphabet decode to their index … -/
theorem b64Val_b64Char : ∀ n, n < 64 → b64Val (b64Char n) = some n := by decide

/-- … and none of them is `/`, `+`, `%` or `=` -/
theorem b64Char_ne : ∀ n, n < 64 →
    b64Char n ≠ '/' ∧ b64Char n ≠ '+' ∧ b64Char n ≠ '%' ∧ b64Char n ≠ '=' := by decide

/-- the unpadded encoding -/
def b64raw : Bytes → List Char
  | [] => []
  | [a] => [b64Char (a.toNat / 4), b64Char (a.toNat % 4 * 16)]
  | [a, b] => [b64Char (a.toNat / 4), b64Char (a.toNat % 4 * 16 + b.toNat / 16), b64Char (b.toNat % 16 * 4)]
  | a :: b :: c :: rest =>
    b64Char (a.toNat / 4) :: b64Char (a.toNat % 4 * 16 + b.toNat / 16) ::
    b64Char (b.toNat % 16 * 4 + c.toNat / 64) :: b64Char (c.toNat % 64) :: b64raw rest

/-- number of `=` signs Python appends -/
def padLen : Bytes → Nat
  | [] => 0
  | [_] => 2
  | [_, _] => 1
  | _ :: _ :: _ :: rest => padLen rest

theorem b64encode_eq_raw_pad (bs : Bytes) : b64encode bs = b64raw bs ++ List.replicate (padLen bs) '=' := by
  fun_induction b64encode bs with
  | case1 => rfl
  | case2 a => rfl
  | case3 a b => rfl
  | case4 a b c rest ih => simp [b64raw, padLen, ih]

/-- characters of the unpadded encoding -/
def IsB64Char (c : Char) : Prop := c ≠ '/' ∧ c ≠ '+' ∧ c ≠ '%' ∧ c ≠ '='

theorem b64raw_chars (bs : Bytes) : ∀ c ∈ b64raw bs, IsB64Char c := by
  fun_induction b64raw bs with
  | case1 => simp
  | case2 a =>
    have := a.toNat_lt
    intro c hc
    simp at hc
    rcases hc with rfl | rfl <;> exact b64Char_ne _ (by omega)
  | case3 a b =>
    have := a.toNat_lt; have := b.toNat_lt
    intro c hc
    simp at hc
    rcases hc with rfl | rfl | rfl <;> exact b64Char_ne _ (by omega)
  | case4 a b c rest ih =>
    have := a.toNat_lt; have := b.toNat_lt; have := c.toNat_lt
    intro x hx
    simp only [List.mem_cons] at hx
    rcases hx with rfl | rfl | rfl | rfl | hx
    · exact b64Char_ne _ (by omega)
    · exact b64Char_ne _ (by omega)
    · exact b64Char_ne _ (by omega)
    · exact b64Char_ne _ (by omega)
    · exact ih x hx

theorem byte_of (a : UInt8) (n : Nat) (h : n = a.toNat) : UInt8.ofNat n = a := by
  subst h; exact UInt8.ofNat_toNat

/-- the unpadded decoder inverts the unpadded encoder -/
theorem b64rawDecode_b64raw (bs : Bytes) : b64rawDecode (b64raw bs) = some bs := by
  fun_induction b64raw bs with
  | case1 => rfl
  | case2 a =>
    have := a.toNat_lt
    simp only [b64rawDecode, b64Val_b64Char _ (show a.toNat / 4 < 64 by omega),
      b64Val_b64Char _ (show a.toNat % 4 * 16 < 64 by omega)]
    rw [byte_of a _ (by omega)]
  | case3 a b =>
    have := a.toNat_lt; have := b.toNat_lt
    simp only [b64rawDecode, b64Val_b64Char _ (show a.toNat / 4 < 64 by omega),
      b64Val_b64Char _ (show a.toNat % 4 * 16 + b.toNat / 16 < 64 by omega),
      b64Val_b64Char _ (show b.toNat % 16 * 4 < 64 by omega)]
    rw [byte_of a _ (by omega), byte_of b _ (by omega)]
  | case4 a b c rest ih =>
    have := a.toNat_lt; have := b.toNat_lt; have := c.toNat_lt
    simp only [b64rawDecode, b64Val_b64Char _ (show a.toNat / 4 < 64 by omega),
      b64Val_b64Char _ (show a.toNat % 4 * 16 + b.toNat / 16 < 64 by omega),
      b64Val_b64Char _ (show b.toNat % 16 * 4 + c.toNat / 64 < 64 by omega),
      b64Val_b64Char _ (show c.toNat % 64 < 64 by omega), ih]
    rw [byte_of a _ (by omega), byte_of b _ (by omega), byte_of c _ (by omega)]

theorem rstripSet_eq_self_of_all_not (p : Char → Bool) (a : List Char) (h : ∀ c ∈ a, p c = false) :
    rstripSet p a = a := by
  induction a with
  | nil => rfl
  | cons x xs ih =>
    have ihx := ih (fun c hc => h c (List.mem_cons_of_mem _ hc))
    have hx := h x (List.mem_cons_self ..)
    unfold rstripSet
    rw [ihx]
    cases xs with
    | nil => simp [hx]
    | cons y ys => rfl

theorem rstripSet_append_of_nil (p : Char → Bool) (a b : List Char) (h : rstripSet p b = []) :
    rstripSet p (a ++ b) = rstripSet p a := by
  induction a with
  | nil => simpa [rstripSet] using h
  | cons x xs ih =>
    show rstripSet p (x :: (xs ++ b)) = rstripSet p (x :: xs)
    unfold rstripSet
    rw [ih]

theorem rstripSet_replicate (p : Char → Bool) (c : Char) (n : Nat) (h : p c = true) :
    rstripSet p (List.replicate n c) = [] := by
  induction n with
  | zero => rfl
  | succ k ih =>
    rw [List.replicate_succ]
    unfold rstripSet
    rw [ih]
    simp [h]

/-- trimming the padding gives back the unpadded encoding -/
theorem rstrip_b64encode (bs : Bytes) : rstripSet (fun c => c = '=') (b64encode bs) = b64raw bs := by
  rw [b64encode_eq_raw_pad, rstripSet_append_of_nil _ _ _ (rstripSet_replicate _ _ _ (by simp))]
  apply rstripSet_eq_self_of_all_not
  intro c hc
  have := (b64raw_chars bs c hc).2.2.2
  simpa using this

end PromVerif.Lemmas.Base64
