/-
C04: the line-level round trip assembled — for every combination of {legacy / quoted name} × labels × value ×
{no / int / float / Timestamp} timestamp × {no exemplar / exemplar}.
-/
import PromVerif.Lemmas.OMRtNh

set_option autoImplicit false

namespace PromVerif.Lemmas.OMRt
open PromVerif.Py PromVerif.Model PromVerif.Model.Escape PromVerif.Model.ParseCore PromVerif.Model.Validation
open PromVerif.Model.OMParse PromVerif.Spec.OMRoundtrip PromVerif.Lemmas.Escape PromVerif.Lemmas.Scanner
open PromVerif.Lemmas.TextParse PromVerif.Model.TextExpo

/-- the exemplars the line-level theorem is stated for -/
structure ExOK (P : Params) (e : Exemplar) : Prop where
  /-- label names accepted by `_validate_labelname` (what `_validate_exemplar` checks), unique keys -/
  labels : LabelsOK P.legacy e.labels
  /-- the 128-character limit of `_validate_exemplar` -/
  len : labelsLen e.labels ≤ 128
  value : ∃ b, ValTok P (Utils.floatToGoString e.value) b
  ts : ∀ t, e.ts = some t → TsOK P t

/-- the samples the line-level theorem is stated for -/
structure SampleOKom (P : Params) (s : Sample) : Prop where
  labels : LabelsOK P.legacy s.labels
  value : ∃ b, ValTok P (Utils.floatToGoString s.value) b
  ts : ∀ t, s.ts = some t → TsOK P t.ts
  exemplar : ∀ e, s.exemplar = some e → ExOK P e

theorem numTok_valTok {P : Params} {tok : Str} {b : Nat} (h : ValTok P tok b) : NumTok tok := numTok_of_chars h.ne h.chars

theorem parseValue_valTok {P : Params} {tok : Str} {b : Nat} (h : ValTok P tok b) : P.parseValue tok = .ok (.flt b) := by
  unfold Params.parseValue
  rw [parseValue_numTok _ _ (numTok_valTok h), h.notInt, h.flt]

theorem numTok_tsStr {P : Params} {t : Ts} (h : TsOK P t) : NumTok (OMExpo.tsStr t) := by
  cases t with
  | int n => exact intStr_numTok n
  | stamp s n =>
    show NumTok (OMExpo.stampStr s n)
    rw [stampStr_eq]
    refine ⟨by simp, ?_⟩
    intro c hc
    rcases List.mem_append.mp hc with h | h
    · exact (intStr_numTok s).2 c h
    · rcases List.mem_cons.mp h with h | h
      · subst h; decide
      · unfold zpad at h
        rcases List.mem_append.mp h with h | h
        · rw [List.mem_replicate] at h; rw [h.2]; decide
        · exact digit_numChar (List.all_eq_true.mp (allDigits_decDigits _) c h)
  | flt r =>
    rcases h with ⟨neg, a, b, rfl, _, had, _, hbd, _⟩ | ⟨_, hne, hc, _⟩
    · exact numTok_plain neg a b had hbd
    · exact numTok_of_chars hne hc

theorem parseTimestamp_nil (P : Params) : parseTimestamp P [] = .ok none := rfl

/-- an optional timestamp: written as its token or not at all, read back to the denoted value -/
theorem ts_opt_roundtrip (P : Params) (hI : IntLaw P.pyInt) (ts : Option Ts) (h : ∀ t, ts = some t → TsOK P t) :
    ∃ o, parseTimestamp P ((ts.map OMExpo.tsStr).getD []) = .ok o ∧ tsMatches P ts o := by
  cases ts with
  | none => exact ⟨none, rfl, trivial⟩
  | some t =>
    obtain ⟨o, h1, h2⟩ := ts_roundtrip P hI t (h t rfl)
    exact ⟨some o, h1, h2⟩

theorem sum_perm {l1 l2 : List Nat} (h : l1.Perm l2) : l1.sum = l2.sum := by
  induction h with
  | nil => rfl
  | cons x _ ih => simp [ih]
  | swap x y l => simp; omega
  | trans _ _ ih1 ih2 => exact ih1.trans ih2

theorem labelsLen_sort (ls : List (Str × Str)) : labelsLen (sortByKey ls) = labelsLen ls :=
  sum_perm ((sortByKey_perm ls).map _)

theorem labelsOK_sorted {legacy : Bool} {ls : List (Str × Str)} (h : LabelsOK legacy ls) :
    (∀ x ∈ sortByKey ls, labelNameOK legacy x.1 = true) ∧ ((sortByKey ls).map (·.1)).Nodup :=
  ⟨fun x hx => h.1 x ((sortByKey_perm ls).mem_iff.mp hx), ((sortByKey_perm ls).map _).nodup_iff.mpr h.2⟩

/-- the token view of a sample's remainder -/
theorem remTok_of_ok {P : Params} {s : Sample} (h : SampleOKom P s) :
    RemTok (Utils.floatToGoString s.value) (s.ts.map (fun t => OMExpo.tsStr t.ts))
      (s.exemplar.map (fun e => (sortByKey e.labels, Utils.floatToGoString e.value, e.ts.map OMExpo.tsStr))) := by
  obtain ⟨vb, hv⟩ := h.value
  refine ⟨numTok_valTok hv, ?_, ?_, ?_⟩
  · intro t ht
    cases hs : s.ts with
    | none => rw [hs] at ht; cases ht
    | some t0 => rw [hs] at ht; cases ht; exact numTok_tsStr (h.ts t0 hs)
  · intro x hx
    cases he : s.exemplar with
    | none => rw [he] at hx; cases hx
    | some e =>
      rw [he] at hx; cases hx
      obtain ⟨eb, hev⟩ := (h.exemplar e he).value
      exact numTok_valTok hev
  · intro x hx t ht
    cases he : s.exemplar with
    | none => rw [he] at hx; cases hx
    | some e =>
      rw [he] at hx; cases hx
      cases hts : e.ts with
      | none => simp [hts] at ht
      | some t0 => simp [hts] at ht; subst ht; exact numTok_tsStr ((h.exemplar e he).ts t0 hts)

/-- **`_parse_remaining_text` inverts the rendering of value, timestamp and exemplar** -/
theorem rem_roundtrip_exact (P : Params) (hI : IntLaw P.pyInt) (s : Sample) (h : SampleOKom P s) :
    ∃ vb ots oex, parseRemainingText P (lineRem s) = .ok (.flt vb, ots, oex) ∧
      P.pyFloat (Utils.floatToGoString s.value) = some vb ∧
      tsMatches P (s.ts.map (·.ts)) ots ∧ exemplarMatches P s.exemplar oex ∧
      parseTimestamp P ((s.ts.map (fun t => OMExpo.tsStr t.ts)).getD []) = .ok ots ∧
      (∀ e, s.exemplar = some e → ∃ oe, oex = some oe ∧ parseTimestamp P ((e.ts.map OMExpo.tsStr).getD []) = .ok oe.ts) := by
  obtain ⟨vb, hv⟩ := h.value
  have htok := remTok_of_ok h
  have hpv := parseValue_valTok hv
  obtain ⟨ots, hts1, hts2⟩ := ts_opt_roundtrip P hI (s.ts.map (·.ts)) (by
    intro t ht
    cases hs : s.ts with
    | none => rw [hs] at ht; cases ht
    | some t0 => rw [hs] at ht; cases ht; exact h.ts t0 hs)
  have hmap : (Option.map OMExpo.tsStr (Option.map (fun x => x.ts) s.ts)) = s.ts.map (fun t => OMExpo.tsStr t.ts) := by
    cases s.ts <;> rfl
  rw [hmap] at hts1
  unfold lineRem
  cases he : s.exemplar with
  | none =>
    refine ⟨vb, ots, none, ?_, hv.flt, hts2, trivial, hts1, fun e he' => by cases he'⟩
    simp only [Option.map_none]
    cases hs : s.ts with
    | none =>
      rw [hs] at hts1 hts2
      simp only [Option.map_none, Option.getD_none, parseTimestamp_nil] at hts1
      cases hts1
      rw [Option.map_none, parseRemaining_bare P _ htok.v, hpv]
    | some t0 =>
      rw [hs] at hts1
      simp only [Option.map_some, Option.getD_some] at hts1
      have hnt := htok.ts (OMExpo.tsStr t0.ts) (by rw [hs]; rfl)
      rw [Option.map_some, parseRemaining_ts P _ _ htok.v hnt, hpv]
      simp only []
      rw [remFinish_ts P _ _ hnt.1, hts1]
  | some e =>
    have hex := h.exemplar e he
    obtain ⟨eb, hev⟩ := hex.value
    obtain ⟨hok, hnd⟩ := labelsOK_sorted hex.labels
    have hpass := exPass_block (sortByKey e.labels) hok
    have hlab := parseLabels_block (sortByKey e.labels) hok hnd
    obtain ⟨oets, hets1, hets2⟩ := ts_opt_roundtrip P hI e.ts hex.ts
    have hnts : ∀ t, s.ts.map (fun t => OMExpo.tsStr t.ts) = some t → NumTok t := htok.ts
    have hnets : ∀ t, e.ts.map OMExpo.tsStr = some t → NumTok t := fun t ht =>
      htok.ets (sortByKey e.labels, Utils.floatToGoString e.value, e.ts.map OMExpo.tsStr) (by rw [he]; rfl) t ht
    refine ⟨vb, ots, some ⟨sortByKey e.labels, .flt eb, oets⟩, ?_, hv.flt, hts2, ⟨rfl, ⟨eb, hev.flt, rfl⟩, hets2⟩, hts1,
      fun e' he' => by cases he'; exact ⟨_, rfl, hets1⟩⟩
    rw [Option.map_some, parseRemaining_ex P _ htok.v _ hnts _ _ hpass _ (numTok_valTok hev) _ hnets hlab, hpv]
    simp only []
    rw [remFinish_ex P _ _ _ _ (fun t ht => (hnets t ht).1) _ (by rw [labelsLen_sort]; exact hex.len), hts1,
      parseValue_valTok hev, hets1]

theorem rem_roundtrip (P : Params) (hI : IntLaw P.pyInt) (s : Sample) (h : SampleOKom P s) :
    ∃ vb ots oex, parseRemainingText P (lineRem s) = .ok (.flt vb, ots, oex) ∧
      P.pyFloat (Utils.floatToGoString s.value) = some vb ∧
      tsMatches P (s.ts.map (·.ts)) ots ∧ exemplarMatches P s.exemplar oex := by
  obtain ⟨vb, ots, oex, h1, h2, h3, h4, _⟩ := rem_roundtrip_exact P hI s h
  exact ⟨vb, ots, oex, h1, h2, h3, h4⟩

theorem sampleOf_ok {P : Params} {n : Str} {L : List (Str × Str)} {rem : Str} {v : Num} {ts : Option OTs}
    {ex : Option OExemplar} (h : parseRemainingText P rem = .ok (v, ts, ex)) :
    sampleOf P n L rem = .ok ⟨n, some L, some v, ts, ex, none⟩ := by
  unfold sampleOf; rw [h]

/-- the three shapes of a rendered line, by the name's alphabet and the presence of labels -/
theorem lineBody_cases (s : Sample) :
    (isValidLegacyMetricName s.name = true ∧ sortByKey s.labels = [] ∧ lineBody s = s.name ++ ' ' :: lineRem s) ∨
    (isValidLegacyMetricName s.name = true ∧ ∃ kv r, sortByKey s.labels = kv :: r ∧
      lineBody s = s.name ++ '{' :: (labelItem kv ++ tailStr r ++ '}' :: ' ' :: lineRem s)) ∨
    (isValidLegacyMetricName s.name = false ∧
      lineBody s = '{' :: (qname s.name ++ spTail (sortByKey s.labels) ++ '}' :: ' ' :: lineRem s)) := by
  unfold lineBody lineHead
  by_cases hv : isValidLegacyMetricName s.name = true
  · cases hL : sortByKey s.labels with
    | nil => left; simp [hv]
    | cons kv r => right; left; exact ⟨hv, kv, r, rfl, by simp [hv]⟩
  · right; right
    have : isValidLegacyMetricName s.name = false := by simpa using hv
    exact ⟨this, by simp [this]⟩

/-- **a rendered sample line parses back to the sample** -/
theorem line_roundtrip (P : Params) (hI : IntLaw P.pyInt) (s : Sample) (h : SampleOKom P s) :
    ∃ o, parseSample P (lineBody s) = .ok o ∧ SampleMatches P s o := by
  obtain ⟨vb, ots, oex, hrem, hvf, hts, hex⟩ := rem_roundtrip P hI s h
  obtain ⟨hok, hnd⟩ := labelsOK_sorted h.labels
  refine ⟨⟨s.name, some (sortByKey s.labels), some (.flt vb), ots, oex, none⟩, ?_, ⟨rfl, rfl, ⟨vb, hvf, rfl⟩, hts, hex, rfl⟩⟩
  rcases lineBody_cases s with ⟨hv, hL, hb⟩ | ⟨hv, kv, r, hL, hb⟩ | ⟨hv, hb⟩
  · rw [hb, hL]
    have := parseSample_bare P hv (remTok_of_ok h)
    unfold lineRem at hrem ⊢
    rw [this]; exact sampleOf_ok hrem
  · rw [hb, hL]
    rw [hL] at hok hnd
    rw [parseSample_labels P hv kv r hok hnd]; exact sampleOf_ok hrem
  · rw [hb, parseSample_quoted P s.name _ hok hnd]; exact sampleOf_ok hrem

/-- the same with the parsed timestamps pinned down: they are what `_parse_timestamp` makes of the written tokens -/
theorem line_roundtrip_exact (P : Params) (hI : IntLaw P.pyInt) (s : Sample) (h : SampleOKom P s) :
    ∃ o, parseSample P (lineBody s) = .ok o ∧ SampleMatches P s o ∧
      parseTimestamp P ((s.ts.map (fun t => OMExpo.tsStr t.ts)).getD []) = .ok o.ts ∧
      (∀ e, s.exemplar = some e → ∃ oe, o.exemplar = some oe ∧ parseTimestamp P ((e.ts.map OMExpo.tsStr).getD []) = .ok oe.ts) := by
  obtain ⟨vb, ots, oex, hrem, hvf, hts, hex, hx1, hx2⟩ := rem_roundtrip_exact P hI s h
  obtain ⟨hok, hnd⟩ := labelsOK_sorted h.labels
  refine ⟨⟨s.name, some (sortByKey s.labels), some (.flt vb), ots, oex, none⟩, ?_, ⟨rfl, rfl, ⟨vb, hvf, rfl⟩, hts, hex, rfl⟩, hx1, hx2⟩
  rcases lineBody_cases s with ⟨hv, hL, hb⟩ | ⟨hv, kv, r, hL, hb⟩ | ⟨hv, hb⟩
  · rw [hb, hL]
    have := parseSample_bare P hv (remTok_of_ok h)
    unfold lineRem at hrem ⊢
    rw [this]; exact sampleOf_ok hrem
  · rw [hb, hL]
    rw [hL] at hok hnd
    rw [parseSample_labels P hv kv r hok hnd]; exact sampleOf_ok hrem
  · rw [hb, parseSample_quoted P s.name _ hok hnd]; exact sampleOf_ok hrem

/-- **the native-histogram detector declines every rendered line** -/
theorem line_not_nh (P : Params) (s : Sample) (h : SampleOKom P s) : nhDetect (lineBody s) = .ok none := by
  obtain ⟨hok, hnd⟩ := labelsOK_sorted h.labels
  have htok := remTok_of_ok h
  rcases lineBody_cases s with ⟨hv, hL, hb⟩ | ⟨hv, kv, r, hL, hb⟩ | ⟨hv, hb⟩
  · rw [hb]; unfold lineRem; exact nhDetect_bare hv htok
  · rw [hb]
    rw [hL] at hok
    obtain ⟨_, hc⟩ := legacyName_chars hv (legacyMetric_no_newline hv)
    have hn : Pass spLbChs s.name := pass_plain (plainFor_legacy (fun c h => by
      simp [spLbChs, legacyChar_eq_false h (show isLegacyChar ' ' = false by decide),
        legacyChar_eq_false h (show isLegacyChar '{' = false by decide)]) hc)
    have hB : Pass rbChs ('{' :: (labelItem kv ++ tailStr r)) := by
      have h2 : Pass rbChs ['{'] := pass_plain (by intro c hc; simp at hc; subst hc; exact ⟨by decide, by decide, by decide⟩)
      have h3 : Pass rbChs (labelItem kv) := item_pass rbChs_safe (by decide) (hok kv (by simp))
      have h4 : Pass rbChs (tailStr r) := tail_pass rbChs_safe (by decide) (by decide) r (fun x hx => hok x (by simp [hx]))
      have := pass_append h2 (pass_append h3 h4)
      simpa using this
    have := nhDetect_braced s.name (labelItem kv ++ tailStr r) hn hB htok
    unfold lineRem
    simpa using this
  · rw [hb]
    have hB : Pass rbChs ('{' :: (qname s.name ++ spTail (sortByKey s.labels))) := by
      have h2 : Pass rbChs ['{'] := pass_plain (by intro c hc; simp at hc; subst hc; exact ⟨by decide, by decide, by decide⟩)
      have h3 : Pass rbChs (qname s.name) := quoted_pass rbChs rbChs_safe.quote s.name
      have h4 : Pass rbChs (spTail (sortByKey s.labels)) := spTail_pass rbChs_safe (by decide) (by decide) (by decide) _ hok
      have := pass_append h2 (pass_append h3 h4)
      simpa using this
    have := nhDetect_braced [] (qname s.name ++ spTail (sortByKey s.labels)) ⟨rfl, rfl⟩ hB htok
    unfold lineRem
    simpa using this

end PromVerif.Lemmas.OMRt
