/-
World histories (several worker generations on one directory, `mark_process_dead`, pid reuse): the invariant carried
across `spawn`/`dead`, and every cell of the directory as a fold over the world's log (`wrun_cell`).
-/
import PromVerif.Lemmas.MultiprocessHistory

namespace PromVerif.Model.Values
open PromVerif.Py PromVerif.Generated.Multiprocess PromVerif.Model.Multiprocess
open PromVerif.Spec.Multiprocess (Upd)
set_option autoImplicit false

variable {V : Type}

/-! ### `mark_process_dead` on the directory -/

theorem get?_filter_key {κ β : Type} [DecidableEq κ] (d : List (κ × β)) (p : κ → Bool) (k : κ) :
    AL.get? (d.filter (fun kv => p kv.1)) k = if p k = true then AL.get? d k else none := by
  induction d with
  | nil => simp
  | cons x r ih =>
    obtain ⟨k', v⟩ := x
    by_cases hp : p k' = true
    · simp only [List.filter_cons, hp, if_true, AL.get?_cons]
      by_cases hk : k' = k
      · subst hk; simp [hp]
      · simp only [hk, if_false]; exact ih
    · simp only [List.filter_cons, hp, Bool.false_eq_true, if_false, AL.get?_cons]
      by_cases hk : k' = k
      · subst hk; simp only [hp, Bool.false_eq_true, if_false]; rw [ih]; simp [hp]
      · simp only [hk, if_false]; exact ih

theorem file_deadDisk (q : Str) (disk : List (Str × Store V)) (fn : Str) :
    AL.get? (deadDisk q disk) fn = if isLiveFileOf q fn = true then none else AL.get? disk fn := by
  unfold deadDisk
  rw [get?_filter_key disk (fun fn => !isLiveFileOf q fn) fn]
  cases isLiveFileOf q fn <;> simp

theorem cellGet_deadDisk (q : Str) (disk : List (Str × Store V)) (fn : Str) (k : Key) :
    cellGet (deadDisk q disk) fn k = if isLiveFileOf q fn = true then none else cellGet disk fn k := by
  unfold cellGet
  rw [AL.getD_eq, file_deadDisk]
  split
  · rfl
  · rfl

theorem cellVal_deadDisk (vo : VOps V) (q : Str) (disk : List (Str × Store V)) (fn : Str) (k : Key) :
    cellVal vo (deadDisk q disk) fn k = if isLiveFileOf q fn = true then (vo.zero, vo.zero) else cellVal vo disk fn k := by
  unfold cellVal
  rw [cellGet_deadDisk]
  split <;> rfl

theorem deadName_fileName (m pid : Str) : Multiprocess.deadName m pid = fileName (gaugeType ++ gaugePrefixSep ++ m) pid := by
  simp [Multiprocess.deadName, deadNameParts, fileName, fileNameParts, gaugeType, gaugePrefixSep]

/-- a live-gauge file of `q` is a file of identity `q` and of no other identity -/
theorem isLiveFileOf_fileName (q pre p : Str) (hq : '_' ∉ q) (hp : '_' ∉ p)
    (h : isLiveFileOf q (fileName pre p) = true) : p = q := by
  unfold isLiveFileOf at h
  rw [List.any_eq_true] at h
  obtain ⟨m, _, hm⟩ := h
  have := of_decide_eq_true hm
  rw [deadName_fileName] at this
  exact (fileName_inj _ _ _ _ hp hq this).2

/-! ### the invariant across world events -/

/-- identities are free of `_` -/
def IdOK (st : St V) : Prop := '_' ∉ st.pid ∧ '_' ∉ st.actual

def evIdOK : Ev V → Prop
  | .spawn p => '_' ∉ p
  | .dead q => '_' ∉ q
  | .op (.setPid p) => '_' ∉ p
  | _ => True

theorem wstep_idOK (vo : VOps V) (st : St V) (e : Ev V) (hb : Bound st) (h : IdOK st) (he : evIdOK e) :
    IdOK (wstep vo st e).1 := by
  cases e with
  | spawn p => exact ⟨he, he⟩
  | dead q =>
    simp only [wstep]
    split <;> exact h
  | op o =>
    have := step_pid vo st o hb
    simp only [wstep]
    unfold IdOK
    rw [this.1, this.2]
    cases o with
    | setPid p => exact ⟨h.1, he⟩
    | _ => exact ⟨h.2, h.2⟩

/-- what a world event must respect: a call updates only through the youngest value object on its (prefix, key) -/
def EvOK (st : St V) : Ev V → Prop
  | .op o => OpOK (idsOf st) o
  | _ => True

theorem wstep_inv (vo : VOps V) (st : St V) (e : Ev V) (h : Inv vo st) (hid : IdOK st) (he : evIdOK e)
    (hu : EvOK st e) : Inv vo (wstep vo st e).1 := by
  cases e with
  | op o => exact step_inv vo st o h hu
  | spawn p =>
    exact ⟨⟨filesOK_nil _, (fun v hv => by cases hv), (fun v hv => by cases hv)⟩, (fun i v hv _ => by simp [wstep] at hv)⟩
  | dead q =>
    simp only [wstep]
    split
    · exact ⟨⟨filesOK_nil _, (fun v hv => by cases hv), (fun v hv => by cases hv)⟩, (fun i v hv _ => by simp at hv)⟩
    · next hne =>
      have hq : q ≠ st.pid := fun e => hne (Or.inl e)
      have hlive : ∀ v ∈ st.values, isLiveFileOf q v.file = false := by
        intro v hv
        cases hl : isLiveFileOf q v.file with
        | false => rfl
        | true =>
          rw [(h.bound.bound v hv).2] at hl
          exact absurd (isLiveFileOf_fileName q _ st.pid he hid.1 hl).symm hq
      refine ⟨⟨h.bound.files, h.bound.bound, ?_⟩, ?_⟩
      · intro v hv
        show (cellGet (deadDisk q st.disk) v.file v.key).isSome = true
        rw [cellGet_deadDisk, hlive v hv]
        exact h.bound.exist v hv
      · intro i v hv hl
        show cellVal vo (deadDisk q st.disk) v.file v.key = _
        rw [cellVal_deadDisk, hlive v (List.mem_iff_getElem?.mpr ⟨i, hv⟩)]
        exact h.cached i v hv hl

/-- at every point of the world history, the acting worker updates only through the youngest value object on each
    (prefix, key) — stale objects (dropped children, shadowed metrics) may exist, they must not be updated -/
def WUniq (vo : VOps V) : St V → List (Ev V) → Prop
  | _, [] => True
  | st, e :: r => EvOK st e ∧ WUniq vo (wstep vo st e).1 r

theorem wrun_cons (vo : VOps V) (st : St V) (e : Ev V) (r : List (Ev V)) :
    wrun vo st (e :: r) = wrun vo (wstep vo st e).1 r := rfl

theorem wrun_append (vo : VOps V) (st : St V) (a b : List (Ev V)) :
    wrun vo st (a ++ b) = wrun vo (wrun vo st a) b := by
  simp [wrun, List.foldl_append]

def evsIdOK (evs : List (Ev V)) : Prop := ∀ e ∈ evs, evIdOK e

/-- the invariant holds along every world history -/
theorem wrun_inv (vo : VOps V) (evs : List (Ev V)) (st : St V) (h : Inv vo st) (hid : IdOK st) (hev : evsIdOK evs)
    (hu : WUniq vo st evs) : Inv vo (wrun vo st evs) ∧ IdOK (wrun vo st evs) := by
  induction evs generalizing st with
  | nil => exact ⟨h, hid⟩
  | cons e r ih =>
    rw [wrun_cons]
    have he : evIdOK e := hev e List.mem_cons_self
    exact ih _ (wstep_inv vo st e h hid he hu.1) (wstep_idOK vo st e h.bound hid he)
      (fun x hx => hev x (List.mem_cons_of_mem _ hx)) hu.2

theorem wuniq_append (vo : VOps V) (a b : List (Ev V)) (st : St V) (h : WUniq vo st (a ++ b)) :
    WUniq vo st a ∧ WUniq vo (wrun vo st a) b := by
  induction a generalizing st with
  | nil => exact ⟨trivial, h⟩
  | cons e r ih =>
    have := ih _ h.2
    exact ⟨⟨h.1, this.1⟩, this.2⟩

/-! ### executable forms of the hypotheses (for concrete histories) -/

def isLastB (ids : List (Str × Key)) (i : Nat) : Bool := (ids.drop (i + 1)).all (fun a => decide (ids[i]? ≠ some a))

theorem isLastB_sound (ids : List (Str × Key)) (i : Nat) (h : isLastB ids i = true) : IsLast ids i := by
  intro j a hij hj
  unfold isLastB at h
  rw [List.all_eq_true] at h
  have hmem : a ∈ ids.drop (i + 1) := by
    rw [List.mem_iff_getElem?]
    refine ⟨j - (i + 1), ?_⟩
    rw [List.getElem?_drop]
    have : i + 1 + (j - (i + 1)) = j := by omega
    rw [this]; exact hj
  exact of_decide_eq_true (h a hmem)

def opOKB (ids : List (Str × Key)) : Op V → Bool
  | .inc i _ => isLastB ids i
  | .set i _ _ => isLastB ids i
  | _ => true

theorem opOKB_sound (ids : List (Str × Key)) (o : Op V) (h : opOKB ids o = true) : OpOK ids o := by
  cases o <;> first | trivial | exact isLastB_sound _ _ h

def opsOKB : List (Str × Key) → List (Op V) → Bool
  | _, [] => true
  | ids, o :: r => opOKB ids o && opsOKB (ids ++ (newParams o).map idOf) r

theorem opsOKB_sound (ops : List (Op V)) (ids : List (Str × Key)) (h : opsOKB ids ops = true) : OpsOK ids ops := by
  induction ops generalizing ids with
  | nil => trivial
  | cons o r ih =>
    simp only [opsOKB, Bool.and_eq_true] at h
    exact ⟨opOKB_sound ids o h.1, ih _ h.2⟩

def wUniqB (vo : VOps V) : St V → List (Ev V) → Bool
  | _, [] => true
  | st, e :: r => (match e with | .op o => opOKB (idsOf st) o | _ => true) && wUniqB vo (wstep vo st e).1 r

theorem wUniqB_sound (vo : VOps V) (evs : List (Ev V)) (st : St V) (h : wUniqB vo st evs = true) : WUniq vo st evs := by
  induction evs generalizing st with
  | nil => trivial
  | cons e r ih =>
    simp only [wUniqB, Bool.and_eq_true] at h
    refine ⟨?_, ih _ h.2⟩
    cases e with
    | op o => exact opOKB_sound _ o h.1
    | spawn p => trivial
    | dead q => trivial

/-! ### the world log of one series and the cell of one identity -/

/-- an entry of the world log: an update under some identity, or a death -/
inductive WUpd (V : Type)
  | upd (u : Upd V)
  | dead (q : Str)

/-- log state: remembered identity, current identity, parameters of the acting worker's value objects -/
def wLog (vo : VOps V) (pre : Str) (k : Key) : Str → Str → List Params → List (Ev V) → List (WUpd V)
  | _, _, _, [] => []
  | rem, cur, ps, .op o :: r =>
    (updLog vo pre k cur ps [o]).map WUpd.upd ++
      wLog vo pre k (match o with | .setPid _ => rem | _ => cur) (nextActual cur o) (ps ++ newParams o) r
  | _, _, _, .spawn p :: r => wLog vo pre k p p [] r
  | rem, cur, ps, .dead q :: r =>
    WUpd.dead q :: wLog vo pre k rem cur (if q = rem ∨ q = cur then [] else ps) r

/-- one log entry seen from identity `p`'s cell of a file whose prefix is (`live = true`) or is not a live-gauge prefix -/
def wOwnStep (vo : VOps V) (live : Bool) (p : Str) (cell : V × V) : WUpd V → V × V
  | .upd u => ownStep vo p cell u
  | .dead q => if q = p ∧ live = true then (vo.zero, vo.zero) else cell

theorem foldl_map_upd (vo : VOps V) (live : Bool) (p : Str) (us : List (Upd V)) (cell : V × V) :
    (us.map WUpd.upd).foldl (wOwnStep vo live p) cell = us.foldl (ownStep vo p) cell := by
  induction us generalizing cell with
  | nil => rfl
  | cons u r ih => simp only [List.map_cons, List.foldl_cons, wOwnStep]; exact ih _

/-- **every cell of the directory after a world history**: identity `p`'s entry of series `(pre, k)` is the fold,
    over the world log in order, of the updates issued under `p` (by whichever worker generation) and of the deaths of
    `p` (which wipe it exactly when the file is a live-gauge file); it continues from what the directory held. -/
theorem wrun_cell (vo : VOps V) (pre : Str) (k : Key) (p : Str) (hp : '_' ∉ p) (evs : List (Ev V)) (st : St V)
    (h : Inv vo st) (hid : IdOK st) (hev : evsIdOK evs) (hu : WUniq vo st evs) :
    cellVal vo (wrun vo st evs).disk (fileName pre p) k
      = (wLog vo pre k st.pid st.actual (st.values.map (·.params)) evs).foldl
          (wOwnStep vo (isLiveFileOf p (fileName pre p)) p) (cellVal vo st.disk (fileName pre p) k) := by
  induction evs generalizing st with
  | nil => rfl
  | cons e r ih =>
    rw [wrun_cons]
    have he : evIdOK e := hev e List.mem_cons_self
    have hev' : evsIdOK r := fun x hx => hev x (List.mem_cons_of_mem _ hx)
    have hinv1 := wstep_inv vo st e h hid he hu.1
    have hid1 := wstep_idOK vo st e h.bound hid he
    rw [ih _ hinv1 hid1 hev' hu.2]
    cases e with
    | spawn q => simp [wstep, wLog]
    | op o =>
      simp only [wstep, wLog, List.foldl_append, foldl_map_upd]
      have hids : IdsOK st.actual [o] := by
        refine ⟨hid.2, ?_⟩
        intro q hq
        simp only [List.mem_singleton] at hq
        subst hq
        exact he
      have hcell := run_cell vo pre k p hp [o] st h ⟨hu.1, trivial⟩ hids
      simp only [run, List.foldl_cons, List.foldl_nil] at hcell
      rw [hcell, step_params vo st o h.bound, step_actual vo st o h.bound, (step_pid vo st o h.bound).2]
      cases o <;> rfl
    | dead q =>
      simp only [wstep, wLog, List.foldl_cons]
      have hcv : ∀ d : St V, d.disk = deadDisk q st.disk →
          cellVal vo d.disk (fileName pre p) k
            = wOwnStep vo (isLiveFileOf p (fileName pre p)) p (cellVal vo st.disk (fileName pre p) k) (WUpd.dead q) := by
        intro d hd
        rw [hd, cellVal_deadDisk]
        simp only [wOwnStep]
        by_cases hl : isLiveFileOf q (fileName pre p) = true
        · have e := isLiveFileOf_fileName q pre p he hp hl
          subst e
          simp [hl]
        · have hl' : isLiveFileOf q (fileName pre p) = false := by
            cases h' : isLiveFileOf q (fileName pre p) <;> simp_all
          rw [hl']
          by_cases e : q = p
          · subst e; simp [hl']
          · simp [e]
      by_cases hq : q = st.pid ∨ q = st.actual
      · simp only [hq, if_true]
        rw [hcv ⟨st.pid, [], [], deadDisk q st.disk, st.actual⟩ rfl]
        rfl
      · simp only [hq, if_false]
        rw [hcv ⟨st.pid, st.files, st.values, deadDisk q st.disk, st.actual⟩ rfl]

/-- for a file that is not a live-gauge file, deaths are invisible: the cell is the fold of the updates alone -/
def wUpds : List (WUpd V) → List (Upd V)
  | [] => []
  | .upd u :: r => u :: wUpds r
  | .dead _ :: r => wUpds r

theorem foldl_wOwn_nonlive (vo : VOps V) (p : Str) (log : List (WUpd V)) (cell : V × V) :
    log.foldl (wOwnStep vo false p) cell = (wUpds log).foldl (ownStep vo p) cell := by
  induction log generalizing cell with
  | nil => rfl
  | cons x r ih =>
    cases x with
    | upd u => simp only [List.foldl_cons, wOwnStep, wUpds]; exact ih _
    | dead q => simp only [List.foldl_cons, wOwnStep, wUpds, Bool.false_eq_true, and_false, if_false]; exact ih _

end PromVerif.Model.Values
