/-
Any number of concurrent writers under an arbitrary schedule (C18): an invariant over the shared file-system state,
preserved by every step of every writer, proved by induction on the schedule.

Per writer `j` the invariant says, about the effects it has still to execute (`rem j`) and its private view (the content
of its own temporary file + its handle state):
  * they name only its own temporary path (or are `rename tmp_j target`)                         — `priv`
  * every completed rename among them will find the complete exposition `new_j` in the temporary  — `ready`
  * executing them from the present private view ends in the view `fin_j` fixed at the start      — `fin`
Distinct temporary names are what makes a step of writer `i` invisible in the private view of every `j ≠ i`.
-/
import PromVerif.Lemmas.Textfile

namespace PromVerif.Model.Textfile

/-- static data of one writer -/
structure WData where
  tmp : Path
  new : Content
  fin : View

def remOf (c : CfgN) (j : Nat) : List Step := (c.rem[j]?).getD []
def locOf (c : CfgN) (j : Nat) : Local := (c.locs[j]?).getD {}
def viewOf (c : CfgN) (t : Path) (j : Nat) : View := view t ⟨c.fs, locOf c j⟩

structure DistinctN (T : Path) (ds : List WData) : Prop where
  ne_target : ∀ j (h : j < ds.length), ds[j].tmp ≠ T
  pairwise : ∀ i j (hi : i < ds.length) (hj : j < ds.length), i ≠ j → ds[i].tmp ≠ ds[j].tmp

structure InvN (T : Path) (ds : List WData) (c : CfgN) : Prop where
  hl : c.locs.length = ds.length
  hr : c.rem.length = ds.length
  priv : ∀ j (h : j < ds.length), AllPrivate ds[j].tmp T (remOf c j)
  ready : ∀ j (h : j < ds.length), Ready ds[j].new (remOf c j) (viewOf c ds[j].tmp j)
  fin : ∀ j (h : j < ds.length), execV (remOf c j) (viewOf c ds[j].tmp j) = ds[j].fin

/-- `stepN` either does nothing or executes the head of writer `i`'s remaining effects -/
theorem stepN_cases (i : Nat) (c : CfgN) :
    stepN i c = c ∨ ∃ s r l, c.rem[i]? = some (s :: r) ∧ c.locs[i]? = some l ∧
      stepN i c = { fs := (applyStep s ⟨c.fs, l⟩).fs, locs := c.locs.set i (applyStep s ⟨c.fs, l⟩).loc,
                    rem := c.rem.set i r } := by
  unfold stepN
  cases hr : c.rem[i]? with
  | none => left; rfl
  | some q =>
    cases q with
    | nil => left; rfl
    | cons s r =>
      cases hl : c.locs[i]? with
      | none => left; rfl
      | some l => right; exact ⟨s, r, l, rfl, rfl, rfl⟩

@[simp] theorem runSched_nil (c : CfgN) : runSched [] c = c := rfl
@[simp] theorem runSched_cons (i : Nat) (sch : List Nat) (c : CfgN) : runSched (i :: sch) c = runSched sch (stepN i c) := rfl
theorem runSched_append (a b : List Nat) (c : CfgN) : runSched (a ++ b) c = runSched b (runSched a c) := by
  simp [runSched, List.foldl_append]

/-- ONE STEP OF ANY WRITER preserves the invariant, and changes the target, if at all, to that writer's complete
exposition -/
theorem InvN.step {T : Path} {ds : List WData} (d : DistinctN T ds) {c : CfgN} (inv : InvN T ds c) (i : Nat) :
    InvN T ds (stepN i c) ∧
      ((stepN i c).fs.get T = c.fs.get T ∨ ∃ h : i < ds.length, (stepN i c).fs.get T = some ds[i].new) := by
  rcases stepN_cases i c with h | ⟨s, r, l, hr, hl, h⟩
  · rw [h]; exact ⟨inv, Or.inl rfl⟩
  · have hi : i < ds.length := by
      have : i < c.rem.length := by
        rcases Nat.lt_or_ge i c.rem.length with h' | h'
        · exact h'
        · rw [List.getElem?_eq_none h'] at hr; cases hr
      rw [inv.hr] at this; exact this
    have hrem : remOf c i = s :: r := by simp [remOf, hr]
    have hloc : locOf c i = l := by simp [locOf, hl]
    have hp := inv.priv i hi
    rw [hrem] at hp
    have hrd := inv.ready i hi
    rw [hrem] at hrd
    have hne := d.ne_target i hi
    have hv : viewOf c ds[i].tmp i = view ds[i].tmp ⟨c.fs, l⟩ := by simp [viewOf, hloc]
    have hil : i < c.locs.length := by rw [inv.hl]; exact hi
    have hir : i < c.rem.length := by rw [inv.hr]; exact hi
    -- the stepped configuration
    have remS : ∀ j, remOf (stepN i c) j = if i = j then r else remOf c j := by
      intro j
      rw [h]
      by_cases e : i = j
      · subst e; simp [remOf, hir]
      · simp [remOf, e]
    have locS : ∀ j, locOf (stepN i c) j = if i = j then (applyStep s ⟨c.fs, l⟩).loc else locOf c j := by
      intro j
      rw [h]
      by_cases e : i = j
      · subst e; simp [locOf, hil]
      · simp [locOf, e]
    have fsS : (stepN i c).fs = (applyStep s ⟨c.fs, l⟩).fs := by rw [h]
    have viewSelf : viewOf (stepN i c) ds[i].tmp i = stepV s (viewOf c ds[i].tmp i) := by
      rw [hv, ← view_step hne s ⟨c.fs, l⟩ hp.head]
      simp [viewOf, view, fsS, locS]
    have viewOther : ∀ j (hj : j < ds.length), i ≠ j → viewOf (stepN i c) ds[j].tmp j = viewOf c ds[j].tmp j := by
      intro j hj e
      have := frame_step (q := ds[j].tmp) s ⟨c.fs, l⟩ hp.head (d.pairwise i j hi hj e) (fun x => d.ne_target j hj x.symm)
      simp [viewOf, view, fsS, locS, e, this]
    refine ⟨⟨?_, ?_, ?_, ?_, ?_⟩, ?_⟩
    · rw [h]; simp [inv.hl]
    · rw [h]; simp [inv.hr]
    · intro j hj
      rw [remS]
      by_cases e : i = j
      · subst e; simp; exact hp.tail
      · simp [e]; exact inv.priv j hj
    · intro j hj
      rw [remS]
      by_cases e : i = j
      · subst e; simp; rw [viewSelf]; exact hrd.2
      · simp [e]; rw [viewOther j hj e]; exact inv.ready j hj
    · intro j hj
      rw [remS]
      by_cases e : i = j
      · subst e
        simp
        rw [viewSelf]
        have := inv.fin i hi
        rw [hrem, execV_cons] at this
        exact this
      · simp [e]; rw [viewOther j hj e]; exact inv.fin j hj
    · rw [fsS, target_step hne s ⟨c.fs, l⟩ hp.head]
      by_cases hs : isRen s = true
      · right
        refine ⟨hi, ?_⟩
        have hf : (viewOf c ds[i].tmp i).file = some ds[i].new := hrd.1 hs
        rw [hv] at hf
        have hf' : c.fs.get ds[i].tmp = some ds[i].new := hf
        simp [hs, hf']
      · left; simp [hs]

/-- EVERY SCHEDULE: the invariant holds afterwards and the target is what it was or some writer's complete exposition -/
theorem InvN.run {T : Path} {ds : List WData} (d : DistinctN T ds) : ∀ (sch : List Nat) {c : CfgN}, InvN T ds c →
    InvN T ds (runSched sch c) ∧
      ((runSched sch c).fs.get T = c.fs.get T ∨ ∃ (i : Nat) (h : i < ds.length), (runSched sch c).fs.get T = some ds[i].new) := by
  intro sch
  induction sch with
  | nil => intro c inv; exact ⟨inv, Or.inl rfl⟩
  | cons i sch ih =>
    intro c inv
    obtain ⟨inv1, t1⟩ := inv.step d i
    obtain ⟨inv2, t2⟩ := ih inv1
    refine ⟨inv2, ?_⟩
    rw [runSched_cons]
    rcases t2 with t2 | ⟨k, hk, t2⟩
    · rcases t1 with t1 | ⟨hi, t1⟩
      · left; rw [t2, t1]
      · right; exact ⟨i, hi, by rw [t2, t1]⟩
    · right; exact ⟨k, hk, t2⟩

/-- a writer whose remaining effects contain no completed rename does not change the target when it moves -/
theorem InvN.step_noRen {T : Path} {ds : List WData} (d : DistinctN T ds) {c : CfgN} (inv : InvN T ds c) (i : Nat)
    (hn : ∀ s ∈ remOf c i, isRen s = false) : (stepN i c).fs.get T = c.fs.get T := by
  rcases stepN_cases i c with h | ⟨s, r, l, hr, hl, h⟩
  · rw [h]
  · have hrem : remOf c i = s :: r := by simp [remOf, hr]
    have hi : i < ds.length := by
      rcases Nat.lt_or_ge i c.rem.length with h' | h'
      · rw [inv.hr] at h'; exact h'
      · rw [List.getElem?_eq_none h'] at hr; cases hr
    have hp := inv.priv i hi
    rw [hrem] at hp
    have hs : isRen s = false := hn s (by rw [hrem]; exact List.mem_cons_self)
    have : (stepN i c).fs = (applyStep s ⟨c.fs, l⟩).fs := by rw [h]
    rw [this, target_step (d.ne_target i hi) s ⟨c.fs, l⟩ hp.head]
    simp [hs]

/-- the rename instant: when the next effect of writer `i` is a completed rename, the target holds `i`'s complete exposition
right after it -/
theorem InvN.step_ren {T : Path} {ds : List WData} (d : DistinctN T ds) {c : CfgN} (inv : InvN T ds c) (i : Nat)
    (hi : i < ds.length) {s : Step} {r : List Step} (hrem : remOf c i = s :: r) (hs : isRen s = true) :
    (stepN i c).fs.get T = some ds[i].new := by
  have hil : i < c.locs.length := by rw [inv.hl]; exact hi
  have hq : c.rem[i]? = some (s :: r) := by
    cases hq : c.rem[i]? with
    | none => simp [remOf, hq] at hrem
    | some q => simp [remOf, hq] at hrem; rw [hrem]
  have hl : c.locs[i]? = some c.locs[i] := List.getElem?_eq_getElem hil
  have h : (stepN i c).fs = (applyStep s ⟨c.fs, c.locs[i]⟩).fs := by simp [stepN, hq, hl]
  have hp := inv.priv i hi
  rw [hrem] at hp
  have hrd := inv.ready i hi
  rw [hrem] at hrd
  have hf : c.fs.get ds[i].tmp = some ds[i].new := by
    have := hrd.1 hs
    simpa [viewOf, view] using this
  rw [h, target_step (d.ne_target i hi) s ⟨c.fs, c.locs[i]⟩ hp.head]
  simp [hs, hf]

/-- the remaining effects of a writer are always a suffix of what it started with -/
theorem remOf_suffix (i : Nat) : ∀ (sch : List Nat) (c : CfgN), remOf (runSched sch c) i <:+ remOf c i := by
  intro sch
  induction sch with
  | nil => intro c; exact List.suffix_refl _
  | cons k sch ih =>
    intro c
    rw [runSched_cons]
    refine (ih (stepN k c)).trans ?_
    rcases stepN_cases k c with h | ⟨s, r, l, hr, hl, h⟩
    · rw [h]; exact List.suffix_refl _
    · by_cases e : k = i
      · subst e
        have h1 : remOf c k = s :: r := by simp [remOf, hr]
        have hk : k < c.rem.length := by
          rcases Nat.lt_or_ge k c.rem.length with h' | h'
          · exact h'
          · rw [List.getElem?_eq_none h'] at hr; cases hr
        have h2 : remOf (stepN k c) k = r := by rw [h]; simp [remOf, hk]
        rw [h1, h2]; exact List.suffix_cons s r
      · have : remOf (stepN k c) i = remOf c i := by rw [h]; simp [remOf, e]
        rw [this]; exact List.suffix_refl _

/-- who moves, as a writer index -/
def whoIdx (z : Bool × Step) : Nat := if z.1 then 0 else 1

/-- every two-writer interleaving IS a schedule of the N-writer machine with two writers: executing it there gives the
same file system and the same local states -/
theorem exec2_as_schedule {xs ys : List Step} {zs : List (Bool × Step)} (hi : Interleave xs ys zs) :
    ∀ (c : Cfg2) (xs' ys' : List Step),
      runSched (zs.map whoIdx) ⟨c.fs, [c.l1, c.l2], [xs ++ xs', ys ++ ys']⟩ =
        ⟨(exec2 zs c).fs, [(exec2 zs c).l1, (exec2 zs c).l2], [xs', ys']⟩ := by
  induction hi with
  | nil => intro c xs' ys'; rfl
  | @left x xs ys zs _ ih =>
    intro c xs' ys'
    have := ih (apply2 (true, x) c) xs' ys'
    simp only [List.map_cons, runSched_cons, exec2_cons]
    rw [← this]
    simp [whoIdx, stepN, apply2_left]
  | @right y xs ys zs _ ih =>
    intro c xs' ys'
    have := ih (apply2 (false, y) c) xs' ys'
    simp only [List.map_cons, runSched_cons, exec2_cons]
    rw [← this]
    simp [whoIdx, stepN, apply2_right]

/-- a prefix of an interleaving is an interleaving of prefixes -/
theorem interleave_take {xs ys : List Step} {zs : List (Bool × Step)} (hi : Interleave xs ys zs) :
    ∀ m : Nat, ∃ xa xb ya yb, xs = xa ++ xb ∧ ys = ya ++ yb ∧ Interleave xa ya (zs.take m) := by
  induction hi with
  | nil => intro m; exact ⟨[], [], [], [], rfl, rfl, by simpa using Interleave.nil⟩
  | @left x xs ys zs _ ih =>
    intro m
    cases m with
    | zero => exact ⟨[], x :: xs, [], ys, rfl, rfl, by simpa using Interleave.nil⟩
    | succ m =>
      obtain ⟨xa, xb, ya, yb, h1, h2, h3⟩ := ih m
      exact ⟨x :: xa, xb, ya, yb, by rw [h1]; rfl, h2, by rw [List.take_succ_cons]; exact .left h3⟩
  | @right y xs ys zs _ ih =>
    intro m
    cases m with
    | zero => exact ⟨[], xs, [], y :: ys, rfl, rfl, by simpa using Interleave.nil⟩
    | succ m =>
      obtain ⟨xa, xb, ya, yb, h1, h2, h3⟩ := ih m
      exact ⟨xa, xb, y :: ya, yb, h1, by rw [h2]; rfl, by rw [List.take_succ_cons]; exact .right h3⟩

end PromVerif.Model.Textfile
