import PromVerif.Spec.Decimal
import PromVerif.Lemmas.Str
namespace PromVerif.Spec
open PromVerif.Py

theorem isDigit_ne {c d : Char} (h : isDigit c = true) (hd : isDigit d = false) : c ≠ d := by
  intro e; subst e; simp [h] at hd

theorem not_mem_of_allDigits {s : List Char} {d : Char} (h : allDigits s = true) (hd : isDigit d = false) :
    d ∉ s := by
  intro hm
  have := (List.all_eq_true.mp h) d hm
  simp [this] at hd

theorem all_zero_eq_replicate (j : List Char) (h : j.all (· == '0') = true) : j = List.replicate j.length '0' := by
  induction j with
  | nil => rfl
  | cons x xs ih =>
    simp only [List.all_cons, Bool.and_eq_true, beq_iff_eq] at h
    rw [List.length_cons, List.replicate_succ, ← ih h.2, h.1]

theorem stripZeros_decomp (rest : List Char) :
    ∃ k, rest = stripZeros rest ++ List.replicate k '0' := by
  obtain ⟨j, hj, hall⟩ := rstripSet_prefix (· == '0') rest
  exact ⟨j.length, by rw [← all_zero_eq_replicate j hall]; exact hj⟩

theorem allDigits_stripZeros {rest : List Char} (h : allDigits rest = true) : allDigits (stripZeros rest) = true :=
  rstripSet_all _ _ rest h

theorem stripZeros_last (rest : List Char) : (stripZeros rest).getLast? ≠ some '0' := by
  intro h
  have := rstripSet_getLast (· == '0') rest '0' h
  simp at this

theorem parseNat?_of_digits {s : List Char} (hne : s ≠ []) (h : allDigits s = true) :
    parseNat? s = some (parseDigits s) := by
  simp [parseNat?, hne, h]

theorem exp2_digits (n : Nat) : allDigits (exp2 n) = true := by
  unfold exp2
  split
  · next h => simp [allDigits, isDigit_digitChar n h]; decide
  · exact allDigits_decDigits n

theorem exp2_ne_nil (n : Nat) : exp2 n ≠ [] := by
  unfold exp2
  split
  · simp
  · have := decDigits_length_pos n
    intro e; simp [e] at this

theorem exp2_value (n : Nat) : parseDigits (exp2 n) = n := by
  unfold exp2
  split
  · next h => simp [parseDigits, digitVal_digitChar n h]; decide
  · exact parseDigits_decDigits n

theorem exp2_length (n : Nat) : 2 ≤ (exp2 n).length := by
  unfold exp2
  split
  · simp
  · next h => exact decDigits_length_two n (by omega)

theorem exp2_shortest (n : Nat) : (exp2 n).length = 2 ∨ (exp2 n).head? ≠ some '0' := by
  unfold exp2
  split
  · left; simp
  · next h => right; exact decDigits_head_ne_zero n (by omega)

end PromVerif.Spec
