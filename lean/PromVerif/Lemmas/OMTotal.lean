/-
Totality of the per-line functions of the OpenMetrics parser model: only ValueError can escape from
`_parse_timestamp` (the `parts[1]` IndexError is unreachable), `_parse_remaining_text`, `_parse_sample`, the
native-histogram detector, and — once the label checks of the main loop have passed — `_group_for_sample`.
-/
import PromVerif.Lemmas.OMSafe

namespace PromVerif.Lemmas.OM
open PromVerif.Py PromVerif.Model.ParseCore PromVerif.Model.Validation PromVerif.Model.OMParse PromVerif.Generated.OMParse

theorem safe_map {α β : Type} {x : PyM α} (f : α → β) (h : Safe x) : Safe (x.map f) := by
  intro e he
  cases x with
  | error e' => cases he; exact h _ rfl
  | ok a => cases he

/-- `try: x except ValueError: h()` — the handler only needs to be safe when it runs -/
theorem safe_catch {α : Type} (x : PyM α) (h : Unit → PyM α) (hx : ∀ e, x = .error e → e = .valueError ∨ False)
    (hh : x = .error .valueError → Safe (h ())) : Safe (catchValueError x h) := by
  unfold catchValueError
  cases x with
  | ok a => exact safe_ok a
  | error e =>
    cases e <;> first
      | exact hh rfl
      | (exfalso; rcases hx _ rfl with h1 | h1 <;> first | cases h1 | exact h1)

theorem safe_intE (P : Params) (s : Str) : Safe (P.intE s) := by
  intro e he; unfold Params.intE at he
  split at he
  · cases he
  · cases he; rfl

theorem safe_floatE (P : Params) (s : Str) : Safe (P.floatE s) := by
  intro e he; unfold Params.floatE at he
  split at he
  · cases he
  · cases he; rfl

theorem safe_mkTimestamp (a b : Int) : Safe (mkTimestamp a b) := by
  intro e he; unfold mkTimestamp at he
  split at he
  · cases he; rfl
  · cases he

theorem splitFirst_none (c : Char) : ∀ (s a : Str), splitFirst c s = (a, none) → a = s := by
  intro s
  induction s with
  | nil => intro a h; simp [splitFirst] at h; exact h
  | cons x xs ih =>
    intro a h
    unfold splitFirst at h
    split at h
    · cases h
    · cases hsp : splitFirst c xs with
      | mk a' b' =>
        rw [hsp] at h
        simp only [Prod.mk.injEq] at h
        obtain ⟨h1, h2⟩ := h
        subst h2
        rw [← h1, ih a' hsp]

/-- the float form of a timestamp -/
theorem safe_parseTimestampFloat (P : Params) (ts : Str) : Safe (parseTimestampFloat P ts) := by
  unfold parseTimestampFloat
  apply safe_bind (safe_floatE P ts)
  intro f _
  exact safe_ite (safe_throw_bind _) (safe_pure _)

theorem safe_fracStrictChecks (P : Params) (sec : Int) (p0 p1 : Str) : Safe (fracStrictChecks P sec p0 p1) := by
  unfold fracStrictChecks
  split
  · cases h : P.intE p1 with
    | error e => intro e' he'; cases he'; exact safe_intE P p1 e h
    | ok b =>
      dsimp only
      split
      · exact safe_valueError
      · exact safe_ok _
  · exact safe_ok _

/-- the `aaaa.bbbb` form: the IndexError of `parts[1]` (first touched by `int(parts[1])` since 64745db) can only be
reached when `int(parts[0])` succeeded on a text without a dot — i.e. when `int(timestamp)` succeeds -/
theorem parseTimestampFrac_err (P : Params) (ts : Str) (hint : P.pyInt ts = none) : Safe (parseTimestampFrac P ts) := by
  unfold parseTimestampFrac
  dsimp only
  cases ha : P.intE (splitFirst '.' ts).1 with
  | error e => intro e' he'; cases he'; exact safe_intE P _ e ha
  | ok a =>
    dsimp only
    cases hp : (splitFirst '.' ts).2 with
    | none =>
      -- no dot: parts[0] is the whole text, on which int() has just failed
      exfalso
      have h1 : (splitFirst '.' ts).1 = ts := splitFirst_none '.' ts _ (by rw [← hp])
      rw [h1] at ha
      unfold Params.intE at ha
      rw [hint] at ha
      cases ha
    | some p1 =>
      dsimp only
      cases hc : fracStrictChecks P a (splitFirst '.' ts).1 p1 with
      | error e => intro e' he'; cases he'; exact safe_fracStrictChecks P _ _ _ e hc
      | ok u =>
        dsimp only
        cases hb : P.intE (ljust 9 '0' (p1.take 9)) with
        | error e => intro e' he'; cases he'; exact safe_intE P _ e hb
        | ok b => exact safe_mkTimestamp a b

/-- **`_parse_timestamp` raises nothing but ValueError** — for every text and every `int()` / `float()` -/
theorem parseTimestamp_safe (P : Params) (ts : Str) : Safe (parseTimestamp P ts) := by
  unfold parseTimestamp
  split
  · exact safe_ok _
  · split
    · exact safe_valueError
    · apply safe_map
      have h1 : Safe (do let n ← P.intE ts; mkTimestamp n 0 : PyM OTs) :=
        safe_bind (safe_intE P ts) (fun n _ => safe_mkTimestamp n 0)
      apply safe_catch _ _ (fun e he => Or.inl (h1 e he))
      intro hfail
      -- the first form failed with ValueError: `int(timestamp)` failed (Timestamp(n, 0) never raises)
      have hint : P.pyInt ts = none := by
        cases hp : P.pyInt ts with
        | none => rfl
        | some n =>
          exfalso
          simp only [Params.intE, hp, bind, Except.bind, mkTimestamp] at hfail
          simp at hfail
      have h2 := parseTimestampFrac_err P ts hint
      apply safe_catch _ _ (fun e he => Or.inl (h2 e he))
      intro _
      exact safe_parseTimestampFloat P ts

theorem safe_raiseIf (c : Bool) : Safe (raiseIf c) := by
  intro e he; unfold raiseIf at he
  split at he
  · cases he; rfl
  · cases he

theorem safe_runChecks (cs : List (PyM Unit)) (h : ∀ c ∈ cs, Safe c) : Safe (runChecks cs) := by
  induction cs with
  | nil => exact safe_ok _
  | cons c cs ih =>
    unfold runChecks
    cases hc : c with
    | error e =>
      intro e' he'; cases he'
      exact h c (List.mem_cons_self ..) e hc
    | ok u => exact ih (fun d hd => h d (List.mem_cons_of_mem _ hd))

theorem safe_parseValueP (P : Params) (s : Str) : Safe (P.parseValue s) := safe_parseValue _ _ _

/-- the labels of an exemplar -/
theorem safe_exemplarLabels (P : Params) (text : Str) : Safe (exemplarLabels P text) := parseLabels_om_safe _ _

theorem safe_remStep (P : Params) (text : Str) (a : RAcc) (c : Char) : Safe (remStep P text a c) := by
  intro e he
  unfold remStep at he
  dsimp only at he
  repeat' split at he
  all_goals first
    | (cases he; done)
    | (cases he; rfl; done)
    | (rename_i e1 heq; cases he; exact safe_exemplarLabels P text _ heq)

theorem safe_remLoop (P : Params) (text : Str) : ∀ (cs : Str) (a : RAcc), Safe (remLoop P text a cs) := by
  intro cs
  induction cs with
  | nil => intro a; exact safe_ok _
  | cons c cs ih =>
    intro a
    unfold remLoop
    cases h : remStep P text a c with
    | ok a' => exact ih a'
    | error e =>
      intro e' he'; cases he'
      exact safe_remStep P text a c e h

theorem safe_remExemplar (P : Params) (a : RAcc) (ls : Labels) : Safe (remExemplar P a ls) := by
  unfold remExemplar
  dsimp only
  split
  · exact safe_valueError
  · cases h1 : P.parseValue a.exValue.reverse with
    | error e => intro e' he'; cases he'; exact safe_parseValueP P _ e h1
    | ok ev =>
      dsimp only
      cases h2 : parseTimestamp P a.exTs.reverse with
      | error e => intro e' he'; cases he'; exact parseTimestamp_safe P _ e h2
      | ok ets => exact safe_ok _

theorem safe_remFinish (P : Params) (val : Num) (a : RAcc) : Safe (remFinish P val a) := by
  unfold remFinish
  cases h0 : runChecks _ with
  | error e =>
    intro e' he'; cases he'
    refine safe_runChecks _ ?_ e h0
    intro c hc
    simp only [List.mem_cons, List.not_mem_nil, or_false] at hc
    rcases hc with rfl | rfl | rfl <;> exact safe_raiseIf _
  | ok u =>
    dsimp only
    cases h1 : parseTimestamp P a.timestamp.reverse with
    | error e => intro e' he'; cases he'; exact parseTimestamp_safe P _ e h1
    | ok ts =>
      dsimp only
      cases a.exLabels with
      | none => exact safe_ok _
      | some ls =>
        dsimp only
        cases h2 : remExemplar P a ls with
        | error e => intro e' he'; cases he'; exact safe_remExemplar P a ls e h2
        | ok ex => exact safe_ok _

/-- **`_parse_remaining_text` raises nothing but ValueError** -/
theorem parseRemainingText_safe (P : Params) (text : Str) : Safe (parseRemainingText P text) := by
  unfold parseRemainingText
  apply safe_bind (safe_parseValueP P _)
  intro val _
  split
  · exact safe_pure _
  · apply safe_bind (safe_remLoop P _ _ _)
    intro a _
    exact safe_remFinish P val a

theorem safe_nameFromLabels (name : Str) (labels : Labels) : Safe (nameFromLabels name labels) := by
  unfold nameFromLabels
  split
  · split
    · exact safe_valueError
    · exact safe_ok _
  · split
    · exact safe_valueError
    · exact safe_ok _

/-- **`_parse_sample` raises nothing but ValueError** -/
theorem parseSample_safe (P : Params) (text : Str) : Safe (parseSample P text) := by
  unfold parseSample
  dsimp only
  split
  · rw [if_pos rfl]
    refine safe_ite (safe_throw_bind _) ?_
    apply safe_bind (parseRemainingText_safe P _)
    intro x _
    exact safe_pure _
  · split
    · refine safe_ite (safe_throw_bind _) ?_
      apply safe_bind (parseRemainingText_safe P _)
      intro x _
      exact safe_pure _
    · apply safe_bind (parseLabels_om_safe _ _)
      intro labels _
      apply safe_bind (safe_nameFromLabels _ _)
      intro x _
      apply safe_bind (parseRemainingText_safe P _)
      intro y _
      exact safe_pure _

/-- the native-histogram detector returns `None` or raises ValueError -/
theorem nhDetect_safe (text : Str) : Safe (nhDetect text) := by
  intro e he
  unfold nhDetect at he
  dsimp only at he
  split at he
  · cases he
  · rename_i i0 _
    split at he
    · rename_i e1 hr
      cases he
      split at hr
      · split at hr
        · cases hr; rfl
        · cases hr
      · cases hr
    · repeat' split at he
      all_goals first
        | (cases he; done)
        | (cases he; rfl; done)

/-! ## `_group_for_sample`: the `del d[...]` KeyError sites are guarded by the label checks that precede it -/

theorem dictDel_ok_of_has (d : Labels) (k : Str) (h : dictHas d k = true) : ∃ d', dictDel d k = .ok d' := by
  unfold dictDel; rw [if_pos h]; exact ⟨_, rfl⟩

theorem dictHas_of_get (d : Labels) (k v : Str) (h : dictGet d k = some v) : dictHas d k = true := by
  unfold dictGet at h
  unfold dictHas
  cases hf : d.find? (fun kv => kv.1 == k) with
  | none => rw [hf] at h; cases h
  | some kv =>
    rw [List.any_eq_true]
    have hp : (fun (x : Str × Str) => x.1 == k) kv = true := List.find?_some (p := fun (x : Str × Str) => x.1 == k) hf
    exact ⟨kv, List.mem_of_find?_eq_some hf, hp⟩

theorem runChecks_ok_mem (cs : List (PyM Unit)) (h : runChecks cs = .ok ()) : ∀ c ∈ cs, c = .ok () := by
  induction cs with
  | nil => intro c hc; cases hc
  | cons d cs ih =>
    intro c hc
    unfold runChecks at h
    cases hd : d with
    | error e => rw [hd] at h; cases h
    | ok u =>
      rw [hd] at h
      rcases List.mem_cons.mp hc with rfl | h'
      · exact hd
      · exact ih h c h'

/-- the `le` test lets a `<name>_bucket` sample through only if it carries an `le` label -/
theorem chkLe_ok_has (P : Params) (n : Str) (s : OSample) (l : Labels) (hl : s.labels = some l)
    (hname : n ++ sBucket = s.name) (hq : chkLe P n s = .ok ()) : ∃ le, dictGet l sLe = some le := by
  unfold chkLe at hq
  simp only [hname, beq_self_eq_true, if_true, labelsOrAttr, hl] at hq
  cases hg : dictGet l sLe with
  | some q => exact ⟨q, rfl⟩
  | none =>
    exfalso
    rw [hg] at hq
    dsimp only at hq
    split at hq
    · cases hf : P.floatE sNaN with
      | error e => rw [hf] at hq; cases hq
      | ok f =>
        rw [hf] at hq; dsimp only at hq
        split at hq <;> cases hq
    · cases hq

/-- after the label checks of the main loop (lines 592–607) have passed on a sample that has labels,
`_group_for_sample` cannot raise: `del d['quantile']`, `del d[name]`, `del d['le']` all find their key -/
theorem groupForSample_guarded (P : Params) (n : Str) (typ : Option Str) (s : OSample) (l : Labels)
    (hl : s.labels = some l) (hpre : preChecks P n typ s = .ok ()) :
    ∃ g, groupForSample s n (typ.getD []) = .ok g := by
  have hall := runChecks_ok_mem _ hpre
  unfold groupForSample
  by_cases c0 : (typ.getD [] == tInfo) = true
  · rw [if_pos c0]; exact ⟨_, rfl⟩
  · rw [if_neg c0]
    by_cases c1 : (typ.getD [] == tSummary && s.name == n) = true
    · rw [if_pos c1]
      have ht : typ = some tSummary ∧ s.name = n := by
        cases typ with
        | none => simp [tSummary] at c1
        | some t => simpa using c1
      have hq := hall (chkQuantile P n typ s) (by simp)
      have hhas : dictHas l sQuantile = true := by
        unfold chkQuantile at hq
        rw [ht.1, ht.2] at hq
        simp only [beq_self_eq_true, Bool.and_self, if_true, labelsOrAttr, hl] at hq
        cases hg : dictGet l sQuantile with
        | none => rw [hg] at hq; cases hq
        | some q => exact dictHas_of_get l _ q hg
      obtain ⟨d', hd'⟩ := dictDel_ok_of_has l sQuantile hhas
      exact ⟨some d', by simp [labelsCopy, hl, hd', bind, Except.bind]; rfl⟩
    · rw [if_neg c1]
      by_cases c2 : (typ.getD [] == tStateset) = true
      · rw [if_pos c2]
        have ht : typ = some tStateset := by
          cases typ with
          | none => simp [tStateset] at c2
          | some t => simpa using c2
        have hq := hall (chkStatesetLabel n typ s) (by simp)
        have hhas : dictHas l n = true := by
          unfold chkStatesetLabel at hq
          rw [ht] at hq
          simp only [beq_self_eq_true, if_true, labelsOrType, hl] at hq
          cases hh : dictHas l n with
          | true => rfl
          | false => rw [hh] at hq; cases hq
        obtain ⟨d', hd'⟩ := dictDel_ok_of_has l n hhas
        exact ⟨some d', by simp [labelsCopy, hl, hd', bind, Except.bind]; rfl⟩
      · rw [if_neg c2]
        by_cases c3 : ((typ.getD [] == tHistogram || typ.getD [] == tGaugeHistogram) && s.name == n ++ sBucket) = true
        · rw [if_pos c3]
          have hname : n ++ sBucket = s.name := by
            have := (Bool.and_eq_true _ _ ▸ c3 : _ ∧ _).2
            have e : s.name = n ++ sBucket := by simpa using this
            exact e.symm
          have hq := hall (chkLe P n s) (by simp)
          have hhas : dictHas l sLe = true := by
            obtain ⟨q, hg⟩ := chkLe_ok_has P n s l hl hname hq
            exact dictHas_of_get l _ q hg
          obtain ⟨d', hd'⟩ := dictDel_ok_of_has l sLe hhas
          exact ⟨some d', by simp [labelsCopy, hl, hd', bind, Except.bind]; rfl⟩
        · rw [if_neg c3]; exact ⟨_, rfl⟩

end PromVerif.Lemmas.OM
