/-
C12 toolbox: label dictionaries.  `sorted(d.items())` of two dicts with the same items is the same list (a strictly
sorted list is determined by its elements), `dict(pairs)` of pairs with distinct keys is the list itself, and the
`zip(labelnames, labelvalues)` dict determines the label values.
-/
import PromVerif.Lemmas.GatewaySort
import PromVerif.Lemmas.MetricsLabels
import PromVerif.Lemmas.MultiprocessDict

namespace PromVerif.Lemmas.Backends
open PromVerif.Py
open PromVerif.Model.Multiprocess
open PromVerif.Lemmas.GatewaySort (KeyLe sortByKey_perm sortByKey_sorted)
set_option autoImplicit false

variable {β : Type}

/-- strictly increasing keys -/
def StrictSorted (l : List (Str × β)) : Prop := l.Pairwise (fun a b => strLt a.1 b.1 = true)

theorem strLt_of_not_gt_ne (a b : Str) (h : strLt b a = false) (hne : a ≠ b) : strLt a b = true := by
  cases hab : strLt a b with
  | true => rfl
  | false => exact absurd (PromVerif.Lemmas.Metrics.strLt_connected a b hab h) hne

theorem strictSorted_of_keyLe_nodup (l : List (Str × β)) (h : l.Pairwise KeyLe) (hnd : (l.map (·.1)).Nodup) :
    StrictSorted l := by
  induction l with
  | nil => exact List.Pairwise.nil
  | cons x xs ih =>
    have hx := List.pairwise_cons.mp h
    simp only [List.map_cons, List.nodup_cons] at hnd
    refine List.pairwise_cons.mpr ⟨?_, ih hx.2 hnd.2⟩
    intro y hy
    apply strLt_of_not_gt_ne _ _ (hx.1 y hy)
    intro e
    exact hnd.1 (e ▸ List.mem_map.mpr ⟨y, hy, rfl⟩)

theorem strictSorted_nodupKeys (l : List (Str × β)) (h : StrictSorted l) : (l.map (·.1)).Nodup := by
  induction l with
  | nil => simp
  | cons x xs ih =>
    have hx := List.pairwise_cons.mp h
    simp only [List.map_cons, List.nodup_cons]
    refine ⟨?_, ih hx.2⟩
    intro hm
    obtain ⟨y, hy, e⟩ := List.mem_map.mp hm
    have := hx.1 y hy
    rw [e, PromVerif.Lemmas.Metrics.strLt_irrefl] at this
    cases this

/-- a strictly sorted list is determined by its elements -/
theorem perm_strictSorted_unique : ∀ (l1 l2 : List (Str × β)), l1.Perm l2 → StrictSorted l1 → StrictSorted l2 → l1 = l2
  | [], l2, hp, _, _ => (List.Perm.nil_eq hp)
  | a :: t1, [], hp, _, _ => absurd hp.symm.nil_eq (by simp)
  | a :: t1, b :: t2, hp, h1, h2 => by
    have hx1 := List.pairwise_cons.mp h1
    have hx2 := List.pairwise_cons.mp h2
    have hab : a = b := by
      have ha : a ∈ b :: t2 := hp.mem_iff.mp List.mem_cons_self
      have hb : b ∈ a :: t1 := hp.mem_iff.mpr List.mem_cons_self
      rcases List.mem_cons.mp ha with e | ha'
      · exact e
      · rcases List.mem_cons.mp hb with e | hb'
        · exact e.symm
        · have c1 := hx2.1 a ha'
          have c2 := hx1.1 b hb'
          have := PromVerif.Lemmas.GatewaySort.strLt_asymm _ _ c1
          rw [c2] at this
          cases this
    subst hab
    rw [perm_strictSorted_unique t1 t2 (List.Perm.cons_inv hp) hx1.2 hx2.2]

theorem perm_nodupKeys (l1 l2 : List (Str × β)) (hp : l1.Perm l2) (h : (l1.map (·.1)).Nodup) : (l2.map (·.1)).Nodup :=
  (hp.map (·.1)).nodup_iff.mp h

theorem sortByKey_strictSorted (l : List (Str × β)) (hnd : (l.map (·.1)).Nodup) : StrictSorted (sortByKey l) :=
  strictSorted_of_keyLe_nodup _ (sortByKey_sorted l) (perm_nodupKeys _ _ (sortByKey_perm l).symm hnd)

/-- `sorted(d1.items()) == sorted(d2.items())` when the two dicts have the same items -/
theorem sortByKey_eq_of_perm (l1 l2 : List (Str × β)) (hp : l1.Perm l2) (hnd : (l1.map (·.1)).Nodup) :
    sortByKey l1 = sortByKey l2 :=
  perm_strictSorted_unique _ _ (((sortByKey_perm l1).trans hp).trans (sortByKey_perm l2).symm)
    (sortByKey_strictSorted l1 hnd) (sortByKey_strictSorted l2 (perm_nodupKeys _ _ hp hnd))

theorem sortByKey_of_strictSorted (l : List (Str × β)) (h : StrictSorted l) : sortByKey l = l :=
  perm_strictSorted_unique _ _ (sortByKey_perm l) (sortByKey_strictSorted l (strictSorted_nodupKeys l h)) h

theorem sortByKey_idem (l : List (Str × β)) (hnd : (l.map (·.1)).Nodup) : sortByKey (sortByKey l) = sortByKey l :=
  sortByKey_of_strictSorted _ (sortByKey_strictSorted l hnd)

theorem sortByKey_nodupKeys (l : List (Str × β)) (hnd : (l.map (·.1)).Nodup) : ((sortByKey l).map (·.1)).Nodup :=
  perm_nodupKeys _ _ (sortByKey_perm l).symm hnd

/-- filtering commutes with sorting -/
theorem filter_sortByKey (p : Str × β → Bool) (l : List (Str × β)) (hnd : (l.map (·.1)).Nodup) :
    (sortByKey l).filter p = sortByKey (l.filter p) := by
  have hnd' : ((l.filter p).map (·.1)).Nodup := (List.filter_sublist.map _).nodup hnd
  apply perm_strictSorted_unique
  · exact ((sortByKey_perm l).filter p).trans (sortByKey_perm (l.filter p)).symm
  · exact List.Pairwise.sublist List.filter_sublist (sortByKey_strictSorted l hnd)
  · exact sortByKey_strictSorted _ hnd'

/-! ### `dict(pairs)` -/

theorem set_new {κ γ : Type} [DecidableEq κ] (d : List (κ × γ)) (k : κ) (v : γ) (h : k ∉ AL.keys d) :
    AL.set d k v = d ++ [(k, v)] := by
  induction d with
  | nil => rfl
  | cons x r ih =>
    obtain ⟨k', v'⟩ := x
    have hne : k' ≠ k := fun e => h (by simp [AL.keys, e])
    have hr : k ∉ AL.keys r := fun e => h (by simp only [AL.keys, List.map_cons, List.mem_cons]; exact Or.inr e)
    simp [AL.set, hne, ih hr]

theorem foldl_set_nodup (l acc : Labels) (hnd : (l.map (·.1)).Nodup) (hdis : ∀ kv ∈ l, kv.1 ∉ AL.keys acc) :
    l.foldl (fun d kv => AL.set d kv.1 kv.2) acc = acc ++ l := by
  induction l generalizing acc with
  | nil => simp
  | cons x xs ih =>
    simp only [List.map_cons, List.nodup_cons] at hnd
    simp only [List.foldl_cons]
    rw [set_new acc x.1 x.2 (hdis x List.mem_cons_self), ih _ hnd.2]
    · simp
    · intro kv hkv hm
      simp only [AL.keys, List.map_append, List.map_cons, List.map_nil, List.mem_append, List.mem_singleton] at hm
      rcases hm with hm | hm
      · exact hdis kv (List.mem_cons_of_mem _ hkv) hm
      · exact hnd.1 (hm ▸ List.mem_map.mpr ⟨kv, hkv, rfl⟩)

/-- `dict(pairs)` of pairs with pairwise different keys lists exactly the pairs, in order -/
theorem pyDict_of_nodup (l : Labels) (hnd : (l.map (·.1)).Nodup) : pyDict l = l := by
  unfold pyDict
  rw [foldl_set_nodup l [] hnd (by intro kv _ h; simp [AL.keys] at h)]
  rfl

/-! ### `zip(labelnames, labelvalues)` -/

theorem map_fst_zip_of_length {α γ : Type} (a : List α) (b : List γ) (h : b.length = a.length) : (a.zip b).map (·.1) = a :=
  List.map_fst_zip (by omega)

theorem zip_keys_sublist : ∀ (ln lv : List Str), ((ln.zip lv).map (·.1)).Sublist ln
  | [], _ => by simp
  | _ :: _, [] => by simp
  | a :: ln, x :: lv => by
    simp only [List.zip_cons_cons, List.map_cons]
    exact (zip_keys_sublist ln lv).cons_cons a

theorem zip_nodupKeys (ln lv : List Str) (hnd : ln.Nodup) : ((ln.zip lv).map (·.1)).Nodup :=
  (zip_keys_sublist ln lv).nodup hnd

/-- the label dict determines the label values -/
theorem zip_inj : ∀ (ln lv lv' : List Str), ln.Nodup → lv.length = ln.length → lv'.length = ln.length →
    (∀ e, e ∈ ln.zip lv → e ∈ ln.zip lv') → lv = lv'
  | [], [], [], _, _, _, _ => rfl
  | [], _ :: _, _, _, h, _, _ => by simp at h
  | [], [], _ :: _, _, _, h, _ => by simp at h
  | _ :: _, [], _, _, h, _, _ => by simp at h
  | _ :: _, _ :: _, [], _, _, h, _ => by simp at h
  | a :: ln, x :: lv, y :: lv', hnd, h1, h2, hsub => by
    have hnd' := List.nodup_cons.mp hnd
    have hxy : x = y := by
      have := hsub (a, x) (by simp)
      simp only [List.zip_cons_cons, List.mem_cons, Prod.mk.injEq, true_and] at this
      rcases this with e | e
      · exact e
      · exact absurd (List.of_mem_zip e).1 hnd'.1
    subst hxy
    congr 1
    apply zip_inj ln lv lv' hnd'.2 (by simpa using h1) (by simpa using h2)
    intro e he
    have := hsub e (by simp [he])
    simp only [List.zip_cons_cons, List.mem_cons] at this
    rcases this with e1 | e1
    · exact absurd (by have := (List.of_mem_zip he).1; rw [e1] at this; exact this) hnd'.1
    · exact e1

/-- … also through `sorted(items)` -/
theorem sorted_zip_inj (ln lv lv' : List Str) (hnd : ln.Nodup) (h1 : lv.length = ln.length) (h2 : lv'.length = ln.length)
    (h : sortByKey (ln.zip lv) = sortByKey (ln.zip lv')) : lv = lv' := by
  apply zip_inj ln lv lv' hnd h1 h2
  intro e he
  have := (PromVerif.Lemmas.GatewaySort.mem_sortByKey (ln.zip lv) e).mpr he
  rw [h] at this
  exact (PromVerif.Lemmas.GatewaySort.mem_sortByKey _ e).mp this

/-- the first pair with a given key, in a list with distinct keys that contains such a pair -/
theorem find?_key_of_mem (l : Labels) (k v : Str) (hnd : (l.map (·.1)).Nodup) (hm : (k, v) ∈ l) :
    l.find? (fun kv => kv.1 = k) = some (k, v) := by
  induction l with
  | nil => cases hm
  | cons x xs ih =>
    simp only [List.map_cons, List.nodup_cons] at hnd
    rcases List.mem_cons.mp hm with e | hm'
    · subst e; simp
    · have hne : x.1 ≠ k := fun e => hnd.1 (e ▸ List.mem_map.mpr ⟨(k, v), hm', rfl⟩)
      simp [List.find?, hne, ih hnd.2 hm']

theorem find?_key_none (l : Labels) (k : Str) (h : k ∉ l.map (·.1)) : l.find? (fun kv => kv.1 = k) = none := by
  rw [List.find?_eq_none]
  intro x hx
  simp only [decide_eq_true_eq]
  intro e
  exact h (e ▸ List.mem_map.mpr ⟨x, hx, rfl⟩)


/-! ### generic list facts missing from core -/

theorem nodup_map_of_injOn {α γ : Type} (f : α → γ) : ∀ (l : List α), l.Nodup →
    (∀ a ∈ l, ∀ b ∈ l, f a = f b → a = b) → (l.map f).Nodup
  | [], _, _ => by simp
  | x :: xs, hnd, hinj => by
    have hx := List.nodup_cons.mp hnd
    simp only [List.map_cons, List.nodup_cons]
    refine ⟨?_, nodup_map_of_injOn f xs hx.2 (fun a ha b hb => hinj a (List.mem_cons_of_mem _ ha) b (List.mem_cons_of_mem _ hb))⟩
    intro hm
    obtain ⟨y, hy, e⟩ := List.mem_map.mp hm
    have := hinj y (List.mem_cons_of_mem _ hy) x List.mem_cons_self e
    subst this
    exact hx.1 hy

theorem nodup_of_nodup_map {α γ : Type} (f : α → γ) : ∀ (l : List α), (l.map f).Nodup → l.Nodup
  | [], _ => by simp
  | x :: xs, h => by
    simp only [List.map_cons, List.nodup_cons] at h
    exact List.nodup_cons.mpr ⟨fun hm => h.1 (List.mem_map.mpr ⟨x, hm, rfl⟩), nodup_of_nodup_map f xs h.2⟩

end PromVerif.Lemmas.Backends
