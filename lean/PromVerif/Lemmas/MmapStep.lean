/-
C10/C11: every operation preserves the representation invariant and refines the spec step; whole histories.
-/
import PromVerif.Lemmas.MmapWhole
namespace PromVerif.Lemmas.Mmap
open PromVerif.Py PromVerif.Model.MmapDict PromVerif.Generated.Mmap
open PromVerif.Spec.MmapDict (Store)

/-! ## steps and histories -/

def toSpec : Op → Spec.MmapDict.Op
  | .write k v t => .write k v t
  | .read k => .read k
  | .reopen => .reopen

def opKey? : Op → Option Key
  | .write k _ _ => some k
  | .read k => some k
  | .reopen => none

/-- bytes an operation adds, given the keys already stored -/
def opNeed (seen : List Key) (op : Op) : Nat :=
  match opKey? op with
  | some k => if k ∈ seen then 0 else entryLen k
  | none => 0

def opSeen (seen : List Key) (op : Op) : List Key :=
  match opKey? op with
  | some k => if k ∈ seen then seen else seen ++ [k]
  | none => seen

/-- bytes a history adds: one entry per distinct new key -/
def need : List Key → List Op → Nat
  | _, [] => 0
  | seen, op :: ops => opNeed seen op + need (opSeen seen op) ops

theorem step_rep {d es tail} (h : Rep d es tail) (op : Op) (initSize : Nat)
    (hf : d.used + opNeed (keys es) op < 2147483648) :
    ∃ d' tr es' tail', step initSize d op = .ok (d', tr) ∧ Rep d' es' tail' ∧
      triples es' = Spec.MmapDict.step (triples es) (toSpec op) ∧ (ZeroTail tail → ZeroTail tail') ∧
      keys es' = opSeen (keys es) op ∧ d'.used = d.used + opNeed (keys es) op := by
  cases op with
  | write k v t =>
    by_cases hk : k ∈ keys es
    · obtain ⟨es1, e, es2, rfl, rfl, hn⟩ := split_first es k hk
      have hw := writeValue_present h hn v t
      have hr := (storeValue_ok h hn v t).2
      refine ⟨_, _, _, tail, hw, hr, ?_, id, ?_, ?_⟩
      · have := write_triples_present es1 es2 e v t hn
        simp only [Spec.MmapDict.step, toSpec]
        exact this.symm
      · simp [opSeen, opKey?]
      · simp [opNeed, opKey?]
    · have hb : d.used + entryLen k < 2147483648 := by simpa [opNeed, opKey?, hk] using hf
      obtain ⟨caps, _, _, hw, hr⟩ := writeValue_absent h k hk v t hb
      refine ⟨_, _, _, _, hw, hr, ?_, fun hz => zeroTail_grow hz _ _, ?_, ?_⟩
      · simp [Spec.MmapDict.step, toSpec, write_triples_fresh es k v t hk]
      · simp [opSeen, opKey?, hk]
      · simp [opNeed, opKey?, hk, afterInit]
  | read k =>
    by_cases hk : k ∈ keys es
    · obtain ⟨es1, e, es2, rfl, rfl, hn⟩ := split_first es k hk
      have hrd := readValue_present h hn
      refine ⟨d, [], _, tail, by simp [step, hrd, bind, Except.bind], h, ?_, id, ?_, ?_⟩
      · have : (triples (es1 ++ e :: es2)).has e.key = true := by rw [has_triples]; simp
        simp only [Spec.MmapDict.step, toSpec, Store.touch, this, if_true]
      · simp [opSeen, opKey?]
      · simp [opNeed, opKey?]
    · have hb : d.used + entryLen k < 2147483648 := by simpa [opNeed, opKey?, hk] using hf
      obtain ⟨caps, _, _, hrd, hr⟩ := readValue_absent h k hk hb
      refine ⟨_, initTrace d.used k caps, _, _, by simp [step, hrd, bind, Except.bind], hr, ?_,
        fun hz => zeroTail_grow hz _ _, ?_, ?_⟩
      · have : (triples es).has k = false := by rw [has_triples]; simpa using hk
        simp [Spec.MmapDict.step, toSpec, Store.touch, this, fresh]
      · simp [opSeen, opKey?, hk, fresh]
      · simp [opNeed, opKey?, hk, afterInit]
  | reopen =>
    exact ⟨d, [], es, tail, by simp [step, init_reopen h], h, by simp [Spec.MmapDict.step, toSpec], id,
      by simp [opSeen, opKey?], by simp [opNeed, opKey?]⟩

theorem runFrom_rep (initSize : Nat) : ∀ (ops : List Op) {d es tail}, Rep d es tail →
    d.used + need (keys es) ops < 2147483648 →
    ∃ d' tr es' tail', runFrom initSize d ops = .ok (d', tr) ∧ Rep d' es' tail' ∧
      triples es' = Spec.MmapDict.run (triples es) (ops.map toSpec) ∧ (ZeroTail tail → ZeroTail tail') := by
  intro ops
  induction ops with
  | nil => intro d es tail h _; exact ⟨d, [], es, tail, rfl, h, rfl, id⟩
  | cons op ops ih =>
    intro d es tail h hf
    simp only [need] at hf
    obtain ⟨d1, tr1, es1, tail1, hs, hr1, ht1, hz1, hk1, hu1⟩ := step_rep h op initSize (by omega)
    obtain ⟨d2, tr2, es2, tail2, hs2, hr2, ht2, hz2⟩ := ih hr1 (by rw [hk1, hu1]; omega)
    refine ⟨d2, tr1 ++ tr2, es2, tail2, by simp [runFrom, hs, hs2, bind, Except.bind], hr2, ?_, fun hz => hz2 (hz1 hz)⟩
    rw [ht2, ht1]; simp [Spec.MmapDict.run]

end PromVerif.Lemmas.Mmap

namespace PromVerif.Lemmas.Mmap
open PromVerif.Py PromVerif.Model.MmapDict PromVerif.Generated.Mmap
open PromVerif.Spec.MmapDict (Store)

theorem posOf_keys (es : List Entry) (p : Nat) : (posOf p es).map (·.1) = keys es := by
  induction es generalizing p with
  | nil => simp [posOf]
  | cons e es ih => simp [posOf, ih]

theorem Rep.keys_eq {d es tail} (h : Rep d es tail) : d.positions.map (·.1) = keys es := by
  rw [h.pos, posOf_keys]

/-- value fields are 8-aligned and inside the used region -/
theorem posOf_aligned (es : List Entry) (p : Nat) (hp : p % 8 = 0) :
    ∀ x ∈ posOf p es, x.2 % 8 = 0 ∧ x.2 + 16 ≤ p + (encEntries es).length := by
  induction es generalizing p with
  | nil => simp [posOf]
  | cons e es ih =>
    intro x hx
    simp only [posOf, List.mem_cons] at hx
    have hl := layout (klen e.key)
    rcases hx with rfl | hx
    · simp [valuePos, entryLen]; omega
    · have := ih (p + entryLen e.key) (by have := entryLen_mod e.key; omega) x hx
      simp; omega

theorem triples_keys (es : List Entry) : (triples es).map (·.1) = keys es := by
  induction es with
  | nil => rfl
  | cons e es ih => simp [ih]

end PromVerif.Lemmas.Mmap
