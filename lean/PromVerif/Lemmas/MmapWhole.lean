/-
C10/C11: `write_value` / `read_value` on a represented store, for a present and for an absent key, with explicit effect lists.
-/
import PromVerif.Lemmas.MmapOps
namespace PromVerif.Lemmas.Mmap
open PromVerif.Py PromVerif.Model.MmapDict PromVerif.Generated.Mmap
open PromVerif.Spec.MmapDict (Store)

/-! ## whole operations, with their explicit effect lists -/

/-- the effects of `_init_value(k)` on a store with `used` bytes in use, growing through `caps` -/
def initTrace (used : Nat) (k : Key) (caps : List Nat) : List Effect :=
  caps.map Effect.truncate ++ [.sliceWrite used (encEntry (fresh k)), .sliceWrite 0 (le 4 (used + entryLen k))]

def valueBytes (v t : UInt64) : Bytes := le64 v ++ le64 t

theorem writeValue_present {d es1 e es2 tail} (h : Rep d (es1 ++ e :: es2) tail) (hk : e.key ∉ keys es1) (v t : UInt64) :
    writeValue d e.key v t = .ok
      ({ d with file := sliceWrite d.file (valuePos (8 + (encEntries es1).length) e.key) (valueBytes v t) },
       [.sliceWrite (valuePos (8 + (encEntries es1).length) e.key) (valueBytes v t)]) := by
  unfold writeValue
  rw [ensure_present h e.key (by simp)]
  simp [bind, Except.bind, (storeValue_ok h hk v t).1, valueBytes]

theorem initValue_ok' {d es tail} (h : Rep d es tail) (k : Key) (hk : k ∉ keys es)
    (hb : d.used + entryLen k < 2147483648) :
    ∃ caps, List.Pairwise (· ≤ ·) (d.capacity :: caps) ∧ d.used + entryLen k ≤ lastCap d.capacity caps ∧
      initValue d k = .ok (afterInit d es tail k (lastCap d.capacity caps), initTrace d.used k caps) := by
  obtain ⟨caps, h1, h2, h3⟩ := initValue_ok h k hk hb
  exact ⟨caps, h1, h2, h3⟩

theorem writeValue_absent {d es tail} (h : Rep d es tail) (k : Key) (hk : k ∉ keys es) (v t : UInt64)
    (hb : d.used + entryLen k < 2147483648) :
    ∃ caps, List.Pairwise (· ≤ ·) (d.capacity :: caps) ∧ d.used + entryLen k ≤ lastCap d.capacity caps ∧
      writeValue d k v t = .ok
        ({ afterInit d es tail k (lastCap d.capacity caps) with
            file := sliceWrite (afterInit d es tail k (lastCap d.capacity caps)).file (valuePos d.used k) (valueBytes v t) },
         initTrace d.used k caps ++ [.sliceWrite (valuePos d.used k) (valueBytes v t)]) ∧
      Rep { afterInit d es tail k (lastCap d.capacity caps) with
            file := sliceWrite (afterInit d es tail k (lastCap d.capacity caps)).file (valuePos d.used k) (valueBytes v t) }
        (es ++ [⟨k, v, t⟩]) ((tail ++ zeros (lastCap d.capacity caps - d.capacity)).drop (entryLen k)) := by
  obtain ⟨caps, hpw, hneed, hiv⟩ := initValue_ok' h k hk hb
  have hge := le_lastCap _ _ hpw
  have hr := afterInit_rep h k hk (lastCap d.capacity caps) hb hneed hge
  have hst := storeValue_ok (es1 := es) (e := fresh k) (es2 := []) hr (by simpa [fresh] using hk) v t
  have hq : valuePos (8 + (encEntries es).length) k = valuePos d.used k := by rw [h.file.used_eq]
  simp only [fresh, hq] at hst
  refine ⟨caps, hpw, hneed, ?_, by simpa [valueBytes] using hst.2⟩
  unfold writeValue
  rw [ensure_absent h k hk, hiv]
  simp [bind, Except.bind, hst.1, valueBytes]

theorem readValue_present {d es1 e es2 tail} (h : Rep d (es1 ++ e :: es2) tail) (hk : e.key ∉ keys es1) :
    readValue d e.key = .ok ((e.v, e.t), d, []) := by
  unfold readValue
  rw [ensure_present h e.key (by simp)]
  simp [bind, Except.bind, loadValue_ok h hk]

theorem readValue_absent {d es tail} (h : Rep d es tail) (k : Key) (hk : k ∉ keys es)
    (hb : d.used + entryLen k < 2147483648) :
    ∃ caps, List.Pairwise (· ≤ ·) (d.capacity :: caps) ∧ d.used + entryLen k ≤ lastCap d.capacity caps ∧
      readValue d k = .ok ((0, 0), afterInit d es tail k (lastCap d.capacity caps), initTrace d.used k caps) ∧
      Rep (afterInit d es tail k (lastCap d.capacity caps)) (es ++ [fresh k])
        ((tail ++ zeros (lastCap d.capacity caps - d.capacity)).drop (entryLen k)) := by
  obtain ⟨caps, hpw, hneed, hiv⟩ := initValue_ok' h k hk hb
  have hge := le_lastCap _ _ hpw
  have hr := afterInit_rep h k hk (lastCap d.capacity caps) hb hneed hge
  have hl := loadValue_ok (es1 := es) (e := fresh k) (es2 := []) hr (by simpa [fresh] using hk)
  refine ⟨caps, hpw, hneed, ?_, hr⟩
  unfold readValue
  rw [ensure_absent h k hk, hiv]
  simp only [fresh] at hl
  simp [bind, Except.bind, hl]

end PromVerif.Lemmas.Mmap
