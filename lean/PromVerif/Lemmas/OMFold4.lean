/-
Totality of the OpenMetrics parser model, part 4: from the text of a line to the hypotheses of `assemble_safe`.
-/
import PromVerif.Lemmas.OMFold3
import PromVerif.Lemmas.OMNh

namespace PromVerif.Lemmas.OM
open PromVerif.Py PromVerif.Model.ParseCore PromVerif.Model.Validation PromVerif.Model.OMParse PromVerif.Generated.OMParse

/-- what `_parse_sample` returns has labels and a value -/
theorem parseSample_plain (P : Params) (text : Str) : Post Plain (parseSample P text) := by
  unfold parseSample
  dsimp only
  split
  · rw [if_pos rfl]
    refine post_ite (post_throw_bind _ _) ?_
    apply post_bind; intro x
    exact post_pure _ ⟨rfl, rfl⟩
  · split
    · refine post_ite (post_throw_bind _ _) ?_
      apply post_bind; intro x
      exact post_pure _ ⟨rfl, rfl⟩
    · apply post_bind; intro labels
      apply post_bind; intro x
      apply post_bind; intro y
      exact post_pure _ ⟨rfl, rfl⟩

theorem hist_suffixes_present : ∃ suff, lookupTable tHistogram typeSuffixes = some suff := by
  have h1 : (lookupTable tHistogram typeSuffixes).isSome = true := by decide
  exact Option.isSome_iff_exists.mp h1

/-- the native-histogram reading of a line: nothing but ValueError; a result carries a native histogram -/
theorem parseNhLine_spec (P : Params) (hd : DigitsNotSpace P) (line : Str) :
    Safe (parseNhLine P line) ∧ ∀ s, parseNhLine P line = .ok (some s) → s.nh.isSome = true := by
  obtain ⟨suff, hs⟩ := hist_suffixes_present
  unfold parseNhLine
  rw [hs]
  dsimp only
  obtain ⟨h1, h2⟩ := parseNhSample_spec P hd line suff
  exact ⟨h1, fun s h => (h2 _ h s rfl).1⟩

/-- the tokenised form of every line satisfies what the fold needs -/
theorem parseLine_ok (P : Params) (hd : DigitsNotSpace P) (line : Str) : LineOK P (parseLine P line) := by
  unfold parseLine
  split
  · trivial
  · split
    · trivial
    · split
      · split
        · split
          · rename_i e h
            exact unquoteUnescape_safe' _ e h
          · split
            · rfl
            · trivial
        · rfl
      · obtain ⟨h1, h2⟩ := parseNhLine_spec P hd line
        exact ⟨h1, h2, parseSample_safe P line, fun s h => parseSample_plain P line s h⟩

/-- **the OpenMetrics parser model is total**: on every text, for all number parameters and regex classes with
`float("NaN")` a NaN and no whitespace digit, it returns families or ValueError -/
theorem omParse_safe (P : Params) (hnan : NaNLiteral P) (hd : DigitsNotSpace P) (text : Str) : Safe (omParse P text) := by
  unfold omParse
  apply assemble_safe P hnan
  intro l hl
  obtain ⟨line, _, rfl⟩ := List.mem_map.mp hl
  exact parseLine_ok P hd line

end PromVerif.Lemmas.OM
