/-
Totality of the OpenMetrics parser model, part 4: from the text of a line to the hypotheses of `assemble_safe`.
-/
import PromVerif.Lemmas.OMFold3

namespace PromVerif.Lemmas.OM
open PromVerif.Py PromVerif.Model.ParseCore PromVerif.Model.Validation PromVerif.Model.OMParse PromVerif.Generated.OMParse

/-- every successful result satisfies `Q` -/
def Post {α : Type} (Q : α → Prop) (x : PyM α) : Prop := ∀ a, x = .ok a → Q a

theorem post_bind {α β : Type} {Q : β → Prop} (x : PyM α) (f : α → PyM β) (h : ∀ a, Post Q (f a)) : Post Q (x >>= f) := by
  intro b hb
  cases x with
  | error e => cases hb
  | ok a => exact h a b hb

theorem post_pure {α : Type} {Q : α → Prop} (a : α) (h : Q a) : Post Q (pure a : PyM α) := by
  intro b hb; cases hb; exact h

theorem post_throw_bind {α β : Type} {Q : β → Prop} (e : PyErr) (f : α → PyM β) : Post Q ((throw e : PyM α) >>= f) := by
  intro b hb; cases hb

theorem post_ite {α : Type} {Q : α → Prop} {c : Prop} [Decidable c] {a b : PyM α} (ha : Post Q a) (hb : Post Q b) :
    Post Q (if c then a else b) := by
  split <;> assumption

/-- what `_parse_sample` returns has labels and a value -/
theorem parseSample_plain (P : Params) (text : Str) : Post Plain (parseSample P text) := by
  unfold parseSample
  dsimp only
  split
  · rw [if_pos rfl]
    refine post_ite (post_throw_bind _ _) ?_
    apply post_bind; intro x
    exact post_pure _ ⟨rfl, rfl⟩
  · split
    · refine post_ite (post_throw_bind _ _) ?_
      apply post_bind; intro x
      exact post_pure _ ⟨rfl, rfl⟩
    · apply post_bind; intro labels
      apply post_bind; intro x
      apply post_bind; intro y
      exact post_pure _ ⟨rfl, rfl⟩

theorem hist_suffixes_present : ∃ suff, lookupTable tHistogram typeSuffixes = some suff := by
  have : (lookupTable tHistogram typeSuffixes).isSome = true := by decide
  exact Option.isSome_iff_exists.mp this

/-- a line that the detector does not take for a native histogram: `_parse_nh_sample` returns `None` or raises
ValueError -/
theorem parseNhLine_ok (P : Params) (line : Str) (hnh : ∀ p, nhDetect line ≠ .ok (some p)) :
    parseNhLine P line = .ok none ∨ parseNhLine P line = .error .valueError := by
  obtain ⟨suff, hs⟩ := hist_suffixes_present
  unfold parseNhLine
  rw [hs]
  dsimp only
  unfold parseNhSample
  cases hd : nhDetect line with
  | error e =>
    right
    have := nhDetect_safe line e hd
    subst this; rfl
  | ok o =>
    cases o with
    | none => left; rfl
    | some p => exact absurd hd (hnh p)

/-- the tokenised form of a line outside the finding classes -/
theorem parseLine_ok (P : Params) (k : Bool) (line : Str) (hnh : ∀ p, nhDetect line ≠ .ok (some p))
    (hs : ∀ s, parseSample P line = .ok s → NotHuge P s ∧ TsClass k s.ts) : LineOK P k (parseLine P line) := by
  unfold parseLine
  split
  · trivial
  · split
    · trivial
    · split
      · split
        · split
          · rename_i e h
            exact unquoteUnescape_safe' _ e h
          · split
            · rfl
            · trivial
        · rfl
      · exact ⟨parseNhLine_ok P line hnh, parseSample_safe P line,
          fun s h => ⟨parseSample_plain P line s h, (hs s h).1, (hs s h).2⟩⟩

/-- **the OpenMetrics parser model is total** on every text whose lines are not shaped like native histograms, whose
sample timestamps are all of one form (`k`), and whose integer values fit a float -/
theorem omParse_safe (P : Params) (k : Bool) (text : Str)
    (hnh : ∀ line ∈ docLines text, ∀ p, nhDetect line ≠ .ok (some p))
    (hs : ∀ line ∈ docLines text, ∀ s, parseSample P line = .ok s → NotHuge P s ∧ TsClass k s.ts) :
    Safe (omParse P text) := by
  unfold omParse
  apply assemble_safe P k
  intro l hl
  obtain ⟨line, hline, rfl⟩ := List.mem_map.mp hl
  exact parseLine_ok P k line (hnh line hline) (hs line hline)

end PromVerif.Lemmas.OM
