/-
Totality of the OpenMetrics parser model, part 4: from the text of a line to the hypotheses of `assemble_safe`.
-/
import PromVerif.Lemmas.OMFold3
import PromVerif.Lemmas.OMNh

namespace PromVerif.Lemmas.OM
open PromVerif.Py PromVerif.Model.ParseCore PromVerif.Model.Validation PromVerif.Model.OMParse PromVerif.Generated.OMParse

/-- what `_parse_sample` returns has labels and a value -/
theorem parseSample_plain (P : Params) (text : Str) : Post Plain (parseSample P text) := by
  unfold parseSample
  dsimp only
  split
  · rw [if_pos rfl]
    refine post_ite (post_throw_bind _ _) ?_
    apply post_bind; intro x
    exact post_pure _ ⟨rfl, rfl⟩
  · split
    · refine post_ite (post_throw_bind _ _) ?_
      apply post_bind; intro x
      exact post_pure _ ⟨rfl, rfl⟩
    · apply post_bind; intro labels
      apply post_bind; intro x
      apply post_bind; intro y
      exact post_pure _ ⟨rfl, rfl⟩

theorem hist_suffixes_present : ∃ suff, lookupTable tHistogram typeSuffixes = some suff ∧ suff.contains sBucket = true := by
  have h1 : (lookupTable tHistogram typeSuffixes).isSome = true := by decide
  obtain ⟨suff, hs⟩ := Option.isSome_iff_exists.mp h1
  refine ⟨suff, hs, ?_⟩
  have h2 : ((lookupTable tHistogram typeSuffixes).getD []).contains sBucket = true := by decide
  rw [hs] at h2; exact h2

/-- the native-histogram reading of a line: nothing but ValueError; a result has no value and a name that does not
end in `_bucket` (one of the histogram suffixes the rule excludes) -/
theorem parseNhLine_spec (P : Params) (hd : DigitsNotSpace P) (line : Str) :
    Safe (parseNhLine P line) ∧ ∀ s, parseNhLine P line = .ok (some s) → s.value = none ∧ endsWith sBucket s.name = false := by
  obtain ⟨suff, hs, hb⟩ := hist_suffixes_present
  unfold parseNhLine
  rw [hs]
  dsimp only
  obtain ⟨h1, h2⟩ := parseNhSample_spec P hd line suff
  refine ⟨h1, fun s h => ?_⟩
  obtain ⟨hv, hn⟩ := h2 _ h s rfl
  refine ⟨hv, ?_⟩
  unfold endsWithAny at hn
  rw [List.any_eq_false] at hn
  have := hn sBucket (by simpa using hb)
  simpa using this

/-- the tokenised form of a line -/
theorem parseLine_ok (P : Params) (hd : DigitsNotSpace P) (line : Str)
    (hnh : ∀ s, parseNhLine P line = .ok (some s) → endsWith sGsum s.name = false)
    (hs : ∀ s, parseSample P line = .ok s → TsOK P s.ts) : LineOK P (parseLine P line) := by
  unfold parseLine
  split
  · trivial
  · split
    · trivial
    · split
      · split
        · split
          · rename_i e h
            exact unquoteUnescape_safe' _ e h
          · split
            · rfl
            · trivial
        · rfl
      · obtain ⟨h1, h2⟩ := parseNhLine_spec P hd line
        exact ⟨h1, fun s h => ⟨(h2 s h).1, (h2 s h).2, hnh s h⟩, parseSample_safe P line,
          fun s h => ⟨parseSample_plain P line s h, hs s h⟩⟩

/-- **the OpenMetrics parser model is total** on every text: for all number parameters and regex classes with
`float("NaN")` a NaN and no whitespace digit, provided no native-histogram sample's name ends in `_gsum` and every
`Timestamp` of a sample converts to float -/
theorem omParse_safe (P : Params) (hnan : NaNLiteral P) (hd : DigitsNotSpace P) (text : Str)
    (hnh : ∀ line ∈ docLines text, ∀ s, parseNhLine P line = .ok (some s) → endsWith sGsum s.name = false)
    (hs : ∀ line ∈ docLines text, ∀ s, parseSample P line = .ok s → TsOK P s.ts) :
    Safe (omParse P text) := by
  unfold omParse
  apply assemble_safe P hnan
  intro l hl
  obtain ⟨line, hline, rfl⟩ := List.mem_map.mp hl
  exact parseLine_ok P hd line (hnh line hline) (hs line hline)

end PromVerif.Lemmas.OM
