/-
C04: the symbolic number instance `refP` satisfies the `int()` law the theorems assume (so the hypotheses are
satisfiable), and small evaluation helpers for the kernel-checked examples.
-/
import PromVerif.Lemmas.OMRtLine

set_option autoImplicit false

namespace PromVerif.Lemmas.OMRt
open PromVerif.Py PromVerif.Model PromVerif.Model.ParseCore PromVerif.Model.OMParse PromVerif.Spec.OMRoundtrip

theorem refNat_digits {d : Str} (hne : d ≠ []) (hd : d.all isDigit = true) : refNat? d = some (parseDigits d) := by
  have : d.isEmpty = false := by cases d <;> simp at hne ⊢
  simp [refNat?, this, hd]

theorem refNat_none {s : Str} (h : s.all isDigit = false) : refNat? s = none := by
  simp [refNat?, h]

theorem refInt_cases (s : Str) :
    (∃ cs, s = '-' :: cs ∧ refInt? s = (refNat? cs).map (fun n => -((n : Nat) : Int))) ∨
    (∃ cs, s = '+' :: cs ∧ refInt? s = (refNat? cs).map (fun n => ((n : Nat) : Int))) ∨
    ((∀ cs, s ≠ '-' :: cs) ∧ (∀ cs, s ≠ '+' :: cs) ∧ refInt? s = (refNat? s).map (fun n => ((n : Nat) : Int))) := by
  cases s with
  | nil => right; right; exact ⟨by simp, by simp, rfl⟩
  | cons c cs =>
    by_cases h1 : c = '-'
    · subst h1; left; exact ⟨cs, rfl, rfl⟩
    · by_cases h2 : c = '+'
      · subst h2; right; left; exact ⟨cs, rfl, rfl⟩
      · right; right
        refine ⟨fun x e => h1 (List.cons.inj e).1, fun x e => h2 (List.cons.inj e).1, ?_⟩
        unfold refInt?
        split
        · next e => exact absurd (List.cons.inj e).1 h1
        · next e => exact absurd (List.cons.inj e).1 h2
        · rfl

theorem refInt_intLaw : IntLaw refInt? := by
  refine ⟨?_, ?_, ?_⟩
  · intro d hne hd
    rcases refInt_cases d with ⟨cs, e, _⟩ | ⟨cs, e, _⟩ | ⟨_, _, e⟩
    · subst e; simp only [List.all_cons, Bool.and_eq_true] at hd; exact absurd hd.1 (by decide)
    · subst e; simp only [List.all_cons, Bool.and_eq_true] at hd; exact absurd hd.1 (by decide)
    · rw [e, refNat_digits hne hd]; rfl
  · intro d hne hd
    show refInt? ('-' :: d) = _
    rw [show refInt? ('-' :: d) = (refNat? d).map (fun n => -((n : Nat) : Int)) from rfl, refNat_digits hne hd]; rfl
  · intro s ⟨c, hc, hbad⟩
    have hnd : isDigit c = false := by rcases hbad with rfl | rfl | rfl | rfl <;> decide
    have hall : ∀ t : Str, c ∈ t → t.all isDigit = false := by
      intro t ht
      apply Bool.eq_false_iff.mpr
      intro ha
      rw [List.all_eq_true.mp ha c ht] at hnd; cases hnd
    rcases refInt_cases s with ⟨cs, e, he⟩ | ⟨cs, e, he⟩ | ⟨_, _, he⟩
    · subst e
      have : c ∈ cs := by
        rcases List.mem_cons.mp hc with h | h
        · subst h; rcases hbad with h | h | h | h <;> cases h
        · exact h
      rw [he, refNat_none (hall cs this)]; rfl
    · subst e
      have : c ∈ cs := by
        rcases List.mem_cons.mp hc with h | h
        · subst h; rcases hbad with h | h | h | h <;> cases h
        · exact h
      rw [he, refNat_none (hall cs this)]; rfl
    · rw [he, refNat_none (hall s hc)]; rfl

theorem refP_intLaw : IntLaw refP.pyInt := refInt_intLaw

/-- equality of results is decidable (for kernel-evaluated examples) -/
instance {ε α : Type} [DecidableEq ε] [DecidableEq α] : DecidableEq (Except ε α) := fun a b =>
  match a, b with
  | .ok x, .ok y => if h : x = y then isTrue (by rw [h]) else isFalse (fun e => h (by cases e; rfl))
  | .error x, .error y => if h : x = y then isTrue (by rw [h]) else isFalse (fun e => h (by cases e; rfl))
  | .ok _, .error _ => isFalse (fun e => by cases e)
  | .error _, .ok _ => isFalse (fun e => by cases e)

/-- `str(n)` of a one-digit number (the general definition recurses on `n / 10` by well-founded recursion, which the kernel
does not unfold by itself) -/
theorem decDigits_small (n : Nat) (h : n < 10) : decDigits n = [digitChar n] := by
  unfold decDigits; simp [h]

theorem decDigits_step (n : Nat) (h : ¬ n < 10) : decDigits n = decDigits (n / 10) ++ [digitChar (n % 10)] := by
  rw [decDigits]; simp [h]

/-- ` timestamp` or nothing, as the exposition writes it after the value -/
def tsPart (ts : Option TsIn) : Str := optTok (ts.map (fun t => OMExpo.tsStr t.ts))

end PromVerif.Lemmas.OMRt
