/-
C05 lemmas, part 4: the building blocks the expositions emit (names, label lists, number tokens, timestamps) run
through the grammar's automaton / metadata scanner.
-/
import PromVerif.Lemmas.LinesDFA
import PromVerif.Model.TextExpo
import PromVerif.Model.OMExpo

namespace PromVerif.Lemmas.Lines
open PromVerif.Py PromVerif.Model PromVerif.Model.Escape PromVerif.Model.Validation
open PromVerif.Generated.Expo PromVerif.Generated.Validation
open PromVerif.Spec.LineGrammar hiding Str

theorem run_all (om : Bool) (st : St) (p : Char → Bool) (hstep : ∀ c, p c = true → step om st c = st)
    (s : Str) (h : s.all p = true) : run om st s = st := by
  induction s with
  | nil => rfl
  | cons c cs ih =>
    simp only [List.all_cons, Bool.and_eq_true] at h
    rw [run_cons, hstep c h.1]; exact ih h.2

/-- a token: first character takes `st0` to `st`, every further one keeps `st` -/
theorem run_tok (om : Bool) (st0 st : St) (p : Char → Bool) (h0 : ∀ c, p c = true → step om st0 c = st)
    (h1 : ∀ c, p c = true → step om st c = st) (s : Str) (hne : s ≠ []) (h : s.all p = true) :
    run om st0 s = st := by
  cases s with
  | nil => exact absurd rfl hne
  | cons c cs =>
    simp only [List.all_cons, Bool.and_eq_true] at h
    rw [run_cons, h0 c h.1]; exact run_all om st p h1 cs h.2

-- names -------------------------------------------------------------------------------------------------------
theorem matchExact_metric_bare (n : Str) (h : matchExact metricNameRe n = true) : bareMetricName n = true := by
  cases n with
  | nil => simp [matchExact] at h
  | cons c cs =>
    simp only [matchExact, Bool.and_eq_true, List.all_eq_true] at h
    simp only [bareMetricName, Bool.and_eq_true, List.all_eq_true]
    exact ⟨inClass_nameFirst c h.1, fun x hx => inClass_nameRest x (h.2 x hx)⟩

theorem matchExact_label_bare (n : Str) (h : matchExact labelNameRe n = true) : bareLabelName n = true := by
  cases n with
  | nil => simp [matchExact] at h
  | cons c cs =>
    simp only [matchExact, Bool.and_eq_true, List.all_eq_true] at h
    simp only [bareLabelName, Bool.and_eq_true, List.all_eq_true]
    exact ⟨inClass_labelFirst c h.1, fun x hx => inClass_labelRest x (h.2 x hx)⟩

theorem run_bareMetric (om : Bool) (n : Str) (h : bareMetricName n = true) : run om .s0 n = .name := by
  cases n with
  | nil => simp [bareMetricName] at h
  | cons c cs =>
    simp only [bareMetricName, Bool.and_eq_true] at h
    rw [run_cons]
    have : step om .s0 c = .name := by simp [step, h.1]
    rw [this]
    exact run_all om .name nameRest (fun c hc => by simp [step, hc]) cs h.2

theorem labelFirst_ne_brace (c : Char) (h : labelFirst c = true) : c ≠ '}' := by
  intro e; subst e; revert h; decide

theorem run_bareLabel (om ex f : Bool) (n : Str) (h : bareLabelName n = true) :
    run om (.lb ex f) n = .ln ex := by
  cases n with
  | nil => simp [bareLabelName] at h
  | cons c cs =>
    simp only [bareLabelName, Bool.and_eq_true] at h
    rw [run_cons]
    have : step om (.lb ex f) c = .ln ex := by simp [step, labelStart, h.1, labelFirst_ne_brace c h.1]
    rw [this]
    exact run_all om (.ln ex) labelRest (fun c hc => by simp [step, hc]) cs h.2

theorem bareTail_all (cs t : Str) (h : cs.all nameRest = true) : bareTail (cs ++ ' ' :: t) = some t := by
  induction cs with
  | nil =>
    have : nameRest ' ' = false := by decide
    simp [bareTail, this]
  | cons c cs ih =>
    simp only [List.all_cons, Bool.and_eq_true] at h
    simp [bareTail, h.1, ih h.2]

/-- a metric name passes `escape_metric_name` unquoted only if it is in the bare alphabet (exact end anchor: F2 repaired) -/
theorem legacy_metric_bare (n : Str) (hl : isValidLegacyMetricName n = true) : bareMetricName n = true :=
  matchExact_metric_bare n (matchName_exact _ _ n metric_anchor_exact hl)

theorem legacy_label_bare (k : Str) (hl : isValidLegacyLabelname k = true) : bareLabelName k = true := by
  simp only [isValidLegacyLabelname, Bool.and_eq_true] at hl
  exact matchExact_label_bare k (matchName_exact _ _ k label_anchor_exact hl.1)

/-- `name SP rest` of a metadata line, with the name as `escape_metric_name` writes it -/
theorem metaName_escapeMetricName (n t : Str) :
    metaName (escapeMetricName n ++ ' ' :: t) = some t := by
  unfold escapeMetricName
  split
  · next hl =>
    have hb := legacy_metric_bare n hl
    cases n with
    | nil => simp [bareMetricName] at hb
    | cons c cs =>
      simp only [bareMetricName, Bool.and_eq_true] at hb
      simp [metaName, hb.1, bareTail_all cs t hb.2]
  · have h1 : nameFirst '"' = false := by decide
    simp [metaName, h1, qscan_escape]

-- labels ------------------------------------------------------------------------------------------------------
/-- one `name="value"` item as the expositions write it (sample labels: `ex = false`; exemplar labels: `ex = true`),
from a state where a label must start — for EVERY name and value -/
theorem run_labelItem (om ex f : Bool) (k v : Str) :
    run om (.lb ex f) (escapeLabelName k ++ ['=', '"'] ++ escape v ++ ['"']) = .qe (if ex then .exval else .lval) := by
  have hq : ∀ st, step om st '=' = .eq ex →
      run om st (['=', '"'] ++ escape v ++ ['"']) = .qe (if ex then .exval else .lval) := by
    intro st hst
    simp only [List.cons_append, List.nil_append, run_cons, hst, run_append]
    cases ex <;> simp [step, run_escape]
  unfold escapeLabelName
  split
  · next hl =>
    rw [List.append_assoc, List.append_assoc, run_append, run_bareLabel om ex f k (legacy_label_bare k hl)]
    rw [← List.append_assoc]
    exact hq _ (by
      have : labelRest '=' = false := by decide
      simp [step, this])
  · have : run om (.lb ex f) (['"'] ++ escape k ++ ['"']) = .qe (if ex then .exname else .lname) := by
      have h1 : labelFirst '"' = false := by decide
      cases ex <;> simp [run_cons, run_append, step, labelStart, h1, run_escape]
    rw [List.append_assoc, List.append_assoc, run_append, this, ← List.append_assoc]
    exact hq _ (by cases ex <;> simp [step])

/-- a non-empty comma-joined label list -/
theorem run_labelList (om ex f : Bool) (item : Str × Str → Str)
    (hitem : ∀ f kv, run om (.lb ex f) (item kv) = .qe (if ex then .exval else .lval))
    (kv : Str × Str) (l : List (Str × Str)) :
    run om (.lb ex f) (joinStr [','] ((kv :: l).map item)) = .qe (if ex then .exval else .lval) := by
  induction l generalizing kv f with
  | nil => simpa [joinStr] using hitem f kv
  | cons y ys ih =>
    simp only [List.map_cons, joinStr, List.append_assoc, run_append]
    rw [hitem f kv]
    have := ih false y
    simp only [List.map_cons] at this
    cases ex <;> simpa [run_cons, step] using this

-- sorting keeps the elements ------------------------------------------------------------------------------------
theorem mem_insertByKey {β : Type} (kv x : Str × β) (l : List (Str × β)) :
    x ∈ insertByKey kv l ↔ x = kv ∨ x ∈ l := by
  induction l with
  | nil => simp [insertByKey]
  | cons y ys ih =>
    simp only [insertByKey]
    split
    · simp
    · simp [ih]; grind

theorem mem_foldl_insert {β : Type} (x : Str × β) (l acc : List (Str × β)) :
    x ∈ l.foldl (fun acc kv => insertByKey kv acc) acc ↔ x ∈ acc ∨ x ∈ l := by
  induction l generalizing acc with
  | nil => simp
  | cons y ys ih => simp [ih, mem_insertByKey]; grind

theorem mem_sortByKey {β : Type} (x : Str × β) (l : List (Str × β)) : x ∈ sortByKey l ↔ x ∈ l := by
  simp [sortByKey, mem_foldl_insert]

theorem length_insertByKey {β : Type} (kv : Str × β) (l : List (Str × β)) :
    (insertByKey kv l).length = l.length + 1 := by
  induction l with
  | nil => rfl
  | cons y ys ih => simp only [insertByKey]; split <;> simp [ih]

theorem length_foldl_insert {β : Type} (l acc : List (Str × β)) :
    (l.foldl (fun acc kv => insertByKey kv acc) acc).length = acc.length + l.length := by
  induction l generalizing acc with
  | nil => simp
  | cons y ys ih => simp [ih, length_insertByKey]; omega

theorem length_sortByKey {β : Type} (l : List (Str × β)) : (sortByKey l).length = l.length := by
  simp [sortByKey, length_foldl_insert]

theorem sortByKey_ne_nil {β : Type} (l : List (Str × β)) (h : l ≠ []) : sortByKey l ≠ [] := by
  intro e
  have := length_sortByKey l
  rw [e] at this
  cases l with
  | nil => exact h rfl
  | cons a as => simp at this

-- numbers -----------------------------------------------------------------------------------------------------
theorem isDig_of_isDigit (c : Char) (h : isDigit c = true) : isDig c = true := by
  simp only [isDigit, Bool.and_eq_true, decide_eq_true_eq] at h
  have h1 : 48 ≤ c.toNat := by
    have h2 := UInt32.le_iff_toNat_le.mp (Char.le_def.mp h.1)
    have e : ('0' : Char).val.toNat = 48 := by decide
    rw [e] at h2; exact h2
  have h2 : c.toNat ≤ 57 := by
    have h2 := UInt32.le_iff_toNat_le.mp (Char.le_def.mp h.2)
    have e : ('9' : Char).val.toNat = 57 := by decide
    rw [e] at h2; exact h2
  simp [isDig, inRange, h1, h2]

theorem numCh_of_isDig (c : Char) (h : isDig c = true) : numCh c = true := by simp [numCh, h]

theorem decDigits_isDig (n : Nat) : (decDigits n).all isDig = true := by
  have := allDigits_decDigits n
  simp only [List.all_eq_true] at this ⊢
  exact fun c hc => isDig_of_isDigit c (this c hc)

theorem decDigits_ne_nil (n : Nat) : decDigits n ≠ [] := by
  intro e; have := decDigits_length_pos n; simp [e] at this

theorem all_numCh_of_isDig (s : Str) (h : s.all isDig = true) : s.all numCh = true := by
  simp only [List.all_eq_true] at h ⊢
  exact fun c hc => numCh_of_isDig c (h c hc)

theorem intStr_numTok (n : Int) : floatTok (intStr n) = true := by
  have hm : numCh '-' = true := by decide
  cases n with
  | ofNat k =>
    have h1 := decDigits_ne_nil k
    simp [floatTok, intStr, all_numCh_of_isDig _ (decDigits_isDig k)]
    exact h1
  | negSucc k =>
    have := all_numCh_of_isDig _ (decDigits_isDig (k + 1))
    simp only [List.all_eq_true] at this
    simp [floatTok, intStr, hm]
    exact this

end PromVerif.Lemmas.Lines
