/-
A weaker precondition for the cell theorems: FRESHNESS.  A value object is fresh when nothing else has written its
entry since it last read or wrote it: every object is fresh right after an identity change (all are re-bound and
re-read) and right after its construction; an update through an object makes it fresh and makes every OTHER object
on the same (prefix, key) stale.  An increment is safe iff it goes through a fresh object; a `set` is always safe.
This covers "only the youngest object on a key is updated" and also a kept old handle used again after an identity
change, as long as, within one identity epoch, the updates of a key do not alternate between objects.
-/
import PromVerif.Lemmas.MultiprocessDisk

namespace PromVerif.Model.Values
open PromVerif.Py PromVerif.Generated.Multiprocess PromVerif.Model.Multiprocess
open PromVerif.Spec.Multiprocess (Upd)
set_option autoImplicit false

variable {V : Type}

/-! ### the effect of one op on every cell, from a semantic premise -/

/-- what `step_cell` says the cell holds after the op -/
def cellFormula (vo : VOps V) (st : St V) (op : Op V) (fn : Str) (k : Key) : V × V :=
  match op with
  | .inc i a =>
    match st.values[i]? with
    | some v =>
      if fileName (filePrefix v.params) st.actual = fn ∧ mmapKey v.params = k
      then (vo.add (cellVal vo st.disk fn k).1 a, vo.zero) else cellVal vo st.disk fn k
    | none => cellVal vo st.disk fn k
  | .set i x t =>
    match st.values[i]? with
    | some v =>
      if fileName (filePrefix v.params) st.actual = fn ∧ mmapKey v.params = k
      then (x, tsOr0 vo t) else cellVal vo st.disk fn k
    | none => cellVal vo st.disk fn k
  | _ => cellVal vo st.disk fn k

theorem cellVal_writeValue (vo : VOps V) (disk : List (Str × Store V)) (f : Str) (k0 : Key) (x t : V) (fn : Str) (k : Key) :
    cellVal vo (writeValue disk f k0 x t) fn k = if f = fn ∧ k0 = k then (x, t) else cellVal vo disk fn k := by
  unfold cellVal
  rw [cellGet_writeValue]
  split <;> rfl

/-- the frame lemma from `Bound` alone, given that an increment goes through an object whose cache is what its file
    holds (after the identity check) -/
theorem step_cell_sem (vo : VOps V) (st : St V) (op : Op V) (hb : Bound st)
    (hsem : ∀ i a, op = .inc i a → ∀ v, (checkPid vo st).values[i]? = some v →
      cellVal vo (checkPid vo st).disk v.file v.key = (v.value, v.ts))
    (fn : Str) (k : Key) : cellVal vo (step vo st op).1.disk fn k = cellFormula vo st op fn k := by
  have hc := checkPid_post vo st hb
  unfold cellFormula
  cases op with
  | setPid p => rfl
  | get i => exact hc.cellval fn k
  | construct p =>
    have hr := reset_post vo (checkPid vo st).pid (checkPid vo st).files (checkPid vo st).disk p hc.bound.files
    show cellVal vo (reset vo _ _ _ p).2.2 fn k = _
    rw [hr.cellval, hc.cellval]
  | inc i a =>
    simp only [step]
    have hp := getElem?_params hc.params i
    cases hv : (checkPid vo st).values[i]? with
    | none =>
      rw [hv] at hp
      cases hs : st.values[i]? with
      | none => exact hc.cellval fn k
      | some v => rw [hs] at hp; cases hp
    | some v1 =>
      rw [hv] at hp
      cases hs : st.values[i]? with
      | none => rw [hs] at hp; cases hp
      | some v =>
        rw [hs] at hp
        have hpar : v1.params = v.params := Option.some.inj hp
        have hm : v1 ∈ (checkPid vo st).values := List.mem_iff_getElem?.mpr ⟨i, hv⟩
        have hbv := hc.bound.bound v1 hm
        have hcv := hsem i a rfl v1 hv
        show cellVal vo (writeValue _ v1.file v1.key _ _) fn k = _
        rw [cellVal_writeValue]
        simp only
        rw [hbv.1, hbv.2, hc.pid, hpar]
        split
        · next e =>
          obtain ⟨e1, e2⟩ := e
          have : cellVal vo st.disk fn k = (v1.value, v1.ts) := by
            rw [← hc.cellval, ← hcv, hbv.1, hbv.2, hc.pid, hpar, e1, e2]
          rw [this]
        · exact hc.cellval fn k
  | set i x t =>
    simp only [step]
    have hp := getElem?_params hc.params i
    cases hv : (checkPid vo st).values[i]? with
    | none =>
      rw [hv] at hp
      cases hs : st.values[i]? with
      | none => exact hc.cellval fn k
      | some v => rw [hs] at hp; cases hp
    | some v1 =>
      rw [hv] at hp
      cases hs : st.values[i]? with
      | none => rw [hs] at hp; cases hp
      | some v =>
        rw [hs] at hp
        have hpar : v1.params = v.params := Option.some.inj hp
        have hm : v1 ∈ (checkPid vo st).values := List.mem_iff_getElem?.mpr ⟨i, hv⟩
        have hbv := hc.bound.bound v1 hm
        show cellVal vo (writeValue _ v1.file v1.key _ _) fn k = _
        rw [cellVal_writeValue]
        simp only
        rw [hbv.1, hbv.2, hc.pid, hpar]
        split
        · rfl
        · exact hc.cellval fn k

/-- from the per-step formula to the log of one series (the single-op content of `run_cell`) -/
theorem op_cell_log (vo : VOps V) (pre : Str) (k : Key) (p : Str) (hp : '_' ∉ p) (st : St V) (op : Op V)
    (hact : '_' ∉ st.actual)
    (hform : cellVal vo (step vo st op).1.disk (fileName pre p) k = cellFormula vo st op (fileName pre p) k) :
    cellVal vo (step vo st op).1.disk (fileName pre p) k
      = (updLog vo pre k st.actual (st.values.map (·.params)) [op]).foldl (ownStep vo p)
          (cellVal vo st.disk (fileName pre p) k) := by
  rw [hform]
  unfold cellFormula
  have hgi : ∀ i, (st.values.map (fun (v : ValueObj V) => v.params))[i]? = st.values[i]?.map (fun (v : ValueObj V) => v.params) :=
    fun i => List.getElem?_map
  cases op with
  | setPid q => simp [updLog]
  | get i => simp [updLog]
  | construct q => simp [updLog]
  | inc i a =>
    simp only [updLog, List.append_nil, hgi]
    cases hs : st.values[i]? with
    | none => simp
    | some v =>
      simp only [Option.map_some]
      by_cases hid : idOf v.params = (pre, k)
      · have e1 : filePrefix v.params = pre := congrArg Prod.fst hid
        have e2 : mmapKey v.params = k := congrArg Prod.snd hid
        simp only [hid, if_true, List.foldl_cons, List.foldl_nil, ownStep, e1, e2, and_true]
        by_cases hq : st.actual = p
        · simp [hq]
        · have : fileName pre st.actual ≠ fileName pre p := fun e => hq (fileName_inj _ _ _ _ hact hp e).2
          simp [hq, this]
      · have : ¬ (fileName (filePrefix v.params) st.actual = fileName pre p ∧ mmapKey v.params = k) := by
          rintro ⟨e1, e2⟩
          apply hid
          have := (fileName_inj _ _ _ _ hact hp e1).1
          unfold idOf; rw [this, e2]
        simp [hid, this]
  | set i x t =>
    simp only [updLog, List.append_nil, hgi]
    cases hs : st.values[i]? with
    | none => simp
    | some v =>
      simp only [Option.map_some]
      by_cases hid : idOf v.params = (pre, k)
      · have e1 : filePrefix v.params = pre := congrArg Prod.fst hid
        have e2 : mmapKey v.params = k := congrArg Prod.snd hid
        simp only [hid, if_true, List.foldl_cons, List.foldl_nil, ownStep, e1, e2, and_true]
        by_cases hq : st.actual = p
        · simp [hq]
        · have : fileName pre st.actual ≠ fileName pre p := fun e => hq (fileName_inj _ _ _ _ hact hp e).2
          simp [hq, this]
      · have : ¬ (fileName (filePrefix v.params) st.actual = fileName pre p ∧ mmapKey v.params = k) := by
          rintro ⟨e1, e2⟩
          apply hid
          have := (fileName_inj _ _ _ _ hact hp e1).1
          unfold idOf; rw [this, e2]
        simp [hid, this]

/-! ### freshness flags -/

abbrev Flags := Nat → Bool

/-- after the identity check: every object was re-bound (fresh) if the identity changed -/
def rebindFlags (st : St V) (fl : Flags) : Flags := if st.pid ≠ st.actual then (fun _ => true) else fl

/-- an update through object `i`: it is fresh, every other object on the same (prefix, key) is stale -/
def staleOthers (ids : List (Str × Key)) (i : Nat) (fl : Flags) : Flags :=
  fun j => if j = i then true else if ids[j]? = ids[i]? then false else fl j

def flagsStep (st : St V) (fl : Flags) : Op V → Flags
  | .setPid _ => fl
  | .construct _ => fun j => if j = st.values.length then true else rebindFlags st fl j
  | .inc i _ => staleOthers (idsOf st) i (rebindFlags st fl)
  | .set i _ _ => staleOthers (idsOf st) i (rebindFlags st fl)
  | .get _ => rebindFlags st fl

/-- an increment must go through a fresh object (a `set` overwrites and needs nothing) -/
def opFresh (st : St V) (fl : Flags) : Op V → Bool
  | .inc i _ => rebindFlags st fl i
  | _ => true

/-- fresh objects cache what their file holds -/
def FreshInv (vo : VOps V) (st : St V) (fl : Flags) : Prop :=
  ∀ i v, st.values[i]? = some v → fl i = true → cellVal vo st.disk v.file v.key = (v.value, v.ts)

theorem check_fresh (vo : VOps V) (st : St V) (fl : Flags) (hb : Bound st) (h : FreshInv vo st fl) :
    FreshInv vo (checkPid vo st) (rebindFlags st fl) := by
  have hc := checkPid_post vo st hb
  unfold rebindFlags
  by_cases hp : st.pid = st.actual
  · rw [checkPid_same vo st hp]
    simp only [ne_eq, hp, not_true_eq_false, if_false]
    exact h
  · intro i v hv _
    exact hc.cached (Or.inl hp) v (List.mem_iff_getElem?.mpr ⟨i, hv⟩)

theorem fresh_write (vo : VOps V) (st1 : St V) (fl1 : Flags) (hb1 : Bound st1) (h1 : FreshInv vo st1 fl1) (i : Nat)
    (v : ValueObj V) (hv : st1.values[i]? = some v) (x t : V) :
    FreshInv vo (⟨st1.pid, st1.files, st1.values.set i ⟨v.params, x, t, v.file, v.key⟩,
      writeValue st1.disk v.file v.key x t, st1.actual⟩ : St V) (staleOthers (idsOf st1) i fl1) := by
  intro j w hj hf
  have hmemv : v ∈ st1.values := List.mem_iff_getElem?.mpr ⟨i, hv⟩
  have hbv := hb1.bound v hmemv
  have hidv : (idsOf st1)[i]? = some (idOf v.params) := by unfold idsOf; rw [List.getElem?_map, hv]; rfl
  show cellVal vo (writeValue st1.disk v.file v.key x t) w.file w.key = _
  rw [cellVal_writeValue]
  have hj' : (st1.values.set i (⟨v.params, x, t, v.file, v.key⟩ : ValueObj V))[j]? = some w := hj
  rw [List.getElem?_set] at hj'
  by_cases hij : i = j
  · simp only [hij, if_true] at hj'
    split at hj'
    · have := (Option.some.inj hj').symm; subst this; simp
    · cases hj'
  · simp only [hij, if_false] at hj'
    have hji : ¬ j = i := fun e => hij e.symm
    have hmw : w ∈ st1.values := List.mem_iff_getElem?.mpr ⟨j, hj'⟩
    have hbw := hb1.bound w hmw
    have hidw : (idsOf st1)[j]? = some (idOf w.params) := by unfold idsOf; rw [List.getElem?_map, hj']; rfl
    unfold staleOthers at hf
    simp only [hji, if_false] at hf
    have hne : ¬ ((idsOf st1)[j]? = (idsOf st1)[i]?) := by
      intro e; rw [if_pos e] at hf; cases hf
    rw [if_neg hne] at hf
    have : ¬ (v.file = w.file ∧ v.key = w.key) := by
      rintro ⟨e1, e2⟩
      apply hne
      rw [hidw, hidv]
      unfold idOf
      rw [hbv.2, hbw.2] at e1
      rw [hbv.1, hbw.1] at e2
      rw [fileName_inj_prefix _ _ _ e1, e2]
    rw [if_neg this]
    exact h1 j w hj' hf

theorem idsOf_check' (vo : VOps V) (st : St V) (hb : Bound st) : idsOf (checkPid vo st) = idsOf st := idsOf_check vo st hb

/-- freshness is maintained by every op that respects it -/
theorem fresh_step (vo : VOps V) (st : St V) (fl : Flags) (op : Op V) (hb : Bound st) (h : FreshInv vo st fl) :
    FreshInv vo (step vo st op).1 (flagsStep st fl op) := by
  have hc := checkPid_post vo st hb
  have h1 := check_fresh vo st fl hb h
  have hids := idsOf_check vo st hb
  cases op with
  | setPid p => exact h
  | get i => exact h1
  | inc i a =>
    simp only [step, flagsStep]
    cases hv : (checkPid vo st).values[i]? with
    | none =>
      intro j w hj hf
      unfold staleOthers at hf
      by_cases hji : j = i
      · subst hji; rw [hv] at hj; cases hj
      · simp only [hji, if_false] at hf
        split at hf
        · cases hf
        · exact h1 j w hj hf
    | some v => rw [← hids]; exact fresh_write vo _ _ hc.bound h1 i v hv _ _
  | set i x t =>
    simp only [step, flagsStep]
    cases hv : (checkPid vo st).values[i]? with
    | none =>
      intro j w hj hf
      unfold staleOthers at hf
      by_cases hji : j = i
      · subst hji; rw [hv] at hj; cases hj
      · simp only [hji, if_false] at hf
        split at hf
        · cases hf
        · exact h1 j w hj hf
    | some v => rw [← hids]; exact fresh_write vo _ _ hc.bound h1 i v hv _ _
  | construct p =>
    have hr := reset_post vo (checkPid vo st).pid (checkPid vo st).files (checkPid vo st).disk p hc.bound.files
    have hlen : (checkPid vo st).values.length = st.values.length := by
      have := congrArg List.length hc.params
      simpa using this
    simp only [step, flagsStep]
    intro j w hj hf
    have hj' : ((checkPid vo st).values ++ [(reset vo (checkPid vo st).pid (checkPid vo st).files (checkPid vo st).disk p).1])[j]?
        = some w := hj
    rw [List.getElem?_append] at hj'
    by_cases hlt : j < (checkPid vo st).values.length
    · rw [if_pos hlt] at hj'
      have hne : ¬ j = st.values.length := by omega
      simp only [hne, if_false] at hf
      show cellVal vo (reset vo _ _ _ p).2.2 w.file w.key = _
      rw [hr.cellval]
      exact h1 j w hj' hf
    · rw [if_neg hlt] at hj'
      have : j - (checkPid vo st).values.length = 0 := by
        cases hjj : j - (checkPid vo st).values.length with
        | zero => rfl
        | succ n => rw [hjj] at hj'; simp at hj'
      rw [this] at hj'
      simp only [List.getElem?_cons_zero, Option.some.injEq] at hj'
      subst hj'
      show cellVal vo (reset vo _ _ _ p).2.2 _ _ = _
      unfold cellVal
      rw [hr.cached]; rfl

/-! ### world histories -/

/-- every increment of the world history goes through a fresh object (`fl`: the freshness flags of the acting worker's
    objects at the start) -/
def wFresh (vo : VOps V) : St V → Flags → List (Ev V) → Bool
  | _, _, [] => true
  | st, fl, .op o :: r => opFresh st fl o && wFresh vo (step vo st o).1 (flagsStep st fl o) r
  | st, _, .spawn p :: r => wFresh vo (wstep vo st (.spawn p)).1 (fun _ => true) r
  | st, fl, .dead q :: r => wFresh vo (wstep vo st (.dead q)).1 fl r

theorem fresh_dead (vo : VOps V) (st : St V) (fl : Flags) (q : Str) (hb : Bound st) (hid : IdOK st) (hq : '_' ∉ q)
    (h : FreshInv vo st fl) : FreshInv vo (wstep vo st (.dead q)).1 fl := by
  simp only [wstep]
  split
  · intro i v hv _; simp at hv
  · next hne =>
    have hqp : q ≠ st.pid := fun e => hne (Or.inl e)
    intro i v hv hf
    have hm : v ∈ st.values := List.mem_iff_getElem?.mpr ⟨i, hv⟩
    show cellVal vo (deadDisk q st.disk) v.file v.key = _
    rw [cellVal_deadDisk]
    have : isLiveFileOf q v.file = false := by
      cases hl : isLiveFileOf q v.file with
      | false => rfl
      | true =>
        rw [(hb.bound v hm).2] at hl
        exact absurd (isLiveFileOf_fileName q _ st.pid hq hid.1 hl).symm hqp
    rw [this]
    exact h i v hv hf

/-- **every cell of the directory after a world history, under freshness** (same conclusion as `wrun_cell`) -/
theorem wrun_cell_fresh (vo : VOps V) (pre : Str) (k : Key) (p : Str) (hp : '_' ∉ p) (evs : List (Ev V)) (st : St V)
    (fl : Flags) (hb : Bound st) (hfi : FreshInv vo st fl) (hid : IdOK st) (hev : evsIdOK evs)
    (hf : wFresh vo st fl evs = true) :
    cellVal vo (wrun vo st evs).disk (fileName pre p) k
      = (wLog vo pre k st.pid st.actual (st.values.map (·.params)) evs).foldl
          (wOwnStep vo (isLiveFileOf p (fileName pre p)) p) (cellVal vo st.disk (fileName pre p) k) := by
  induction evs generalizing st fl with
  | nil => rfl
  | cons e r ih =>
    rw [wrun_cons]
    have he : evIdOK e := hev e List.mem_cons_self
    have hev' : evsIdOK r := fun x hx => hev x (List.mem_cons_of_mem _ hx)
    have hb1 := wstep_bound vo st e hb hid he
    have hid1 := wstep_idOK vo st e hb hid he
    cases e with
    | spawn q =>
      simp only [wFresh] at hf
      rw [ih _ (fun _ => true) hb1 (fun i v hv _ => by simp [wstep] at hv) hid1 hev' hf]
      simp [wstep, wLog]
    | op o =>
      simp only [wFresh, Bool.and_eq_true] at hf
      have hfi1 := fresh_step vo st fl o hb hfi
      rw [ih _ _ hb1 hfi1 hid1 hev' hf.2]
      simp only [wstep, wLog, List.foldl_append, foldl_map_upd]
      have hsem : ∀ i a, o = .inc i a → ∀ v, (checkPid vo st).values[i]? = some v →
          cellVal vo (checkPid vo st).disk v.file v.key = (v.value, v.ts) := by
        intro i a e v hv
        subst e
        exact check_fresh vo st fl hb hfi i v hv hf.1
      have hcell := op_cell_log vo pre k p hp st o hid.2 (step_cell_sem vo st o hb hsem _ _)
      rw [hcell, step_params vo st o hb, step_actual vo st o hb, (step_pid vo st o hb).2]
      cases o <;> rfl
    | dead q =>
      simp only [wFresh] at hf
      rw [ih _ fl hb1 (fresh_dead vo st fl q hb hid he hfi) hid1 hev' hf]
      simp only [wstep, wLog, List.foldl_cons]
      have hcv : ∀ d : St V, d.disk = deadDisk q st.disk →
          cellVal vo d.disk (fileName pre p) k
            = wOwnStep vo (isLiveFileOf p (fileName pre p)) p (cellVal vo st.disk (fileName pre p) k) (WUpd.dead q) := by
        intro d hd
        rw [hd, cellVal_deadDisk]
        simp only [wOwnStep]
        by_cases hl : isLiveFileOf q (fileName pre p) = true
        · have e := isLiveFileOf_fileName q pre p he hp hl
          subst e
          simp [hl]
        · have hl' : isLiveFileOf q (fileName pre p) = false := by
            cases h' : isLiveFileOf q (fileName pre p) <;> simp_all
          rw [hl']
          by_cases e : q = p
          · subst e; simp [hl']
          · simp [e]
      by_cases hq : q = st.pid ∨ q = st.actual
      · simp only [hq, if_true]
        rw [hcv ⟨st.pid, [], [], deadDisk q st.disk, st.actual⟩ rfl]
        rfl
      · simp only [hq, if_false]
        rw [hcv ⟨st.pid, st.files, st.values, deadDisk q st.disk, st.actual⟩ rfl]

theorem wrun_bound (vo : VOps V) (evs : List (Ev V)) (st : St V) (hb : Bound st) (hid : IdOK st) (hev : evsIdOK evs) :
    Bound (wrun vo st evs) ∧ IdOK (wrun vo st evs) := by
  induction evs generalizing st with
  | nil => exact ⟨hb, hid⟩
  | cons e r ih =>
    rw [wrun_cons]
    have he := hev e List.mem_cons_self
    exact ih _ (wstep_bound vo st e hb hid he) (wstep_idOK vo st e hb hid he) (fun x hx => hev x (List.mem_cons_of_mem _ hx))

/-- freshness of a history that continues with a new worker: the part after the `spawn` is fresh from a clean slate -/
theorem wFresh_append_spawn (vo : VOps V) (a b : List (Ev V)) (q : Str) (st : St V) (fl : Flags)
    (h : wFresh vo st fl (a ++ Ev.spawn q :: b) = true) :
    wFresh vo (wstep vo (wrun vo st a) (Ev.spawn q)).1 (fun _ => true) b = true := by
  induction a generalizing st fl with
  | nil => simpa [wFresh, wrun] using h
  | cons e r ih =>
    rw [wrun_cons]
    cases e with
    | op o =>
      simp only [List.cons_append, wFresh, Bool.and_eq_true] at h
      exact ih _ _ h.2
    | spawn p =>
      simp only [List.cons_append, wFresh] at h
      exact ih _ _ h
    | dead p =>
      simp only [List.cons_append, wFresh] at h
      exact ih _ _ h

theorem freshInv_init (vo : VOps V) (p0 : Str) (fl : Flags) : FreshInv vo (St.init (V := V) p0) fl :=
  fun i v hv _ => by simp [St.init] at hv

end PromVerif.Model.Values
