/-
C04: the label block of the OpenMetrics exposition through `parse_labels(..., openmetrics=True)`.

The OpenMetrics exposition joins the `name="value"` items with ',' and, for a metric name outside the legacy alphabet,
writes `{"name", k="v",…}` (comma AND blank after the quoted name) or `{"name"}`.  The C03 library
(Lemmas/TextParseLabels.lean) proves the text-mode variant on the same shared core; here the OpenMetrics-mode loop.
-/
import PromVerif.Lemmas.OMRtBasic
import PromVerif.Lemmas.OMSafe

set_option autoImplicit false

namespace PromVerif.Lemmas.OMRt
open PromVerif.Py PromVerif.Model PromVerif.Model.Escape PromVerif.Model.ParseCore PromVerif.Model.Validation
open PromVerif.Model.OMParse PromVerif.Spec.OMRoundtrip PromVerif.Lemmas.Escape PromVerif.Lemmas.Scanner
open PromVerif.Lemmas.TextParse PromVerif.Model.TextExpo
open PromVerif.Lemmas.OM (oneLabelBody parseOneLabel_om_eq omTail nextTerm_om_no_comma nextTerm_om_comma_cons)

/-- the OpenMetrics exposition renders items exactly as the text exposition does -/
theorem labelItem_eq_text : OMExpo.labelItem = TextExpo.labelItem := rfl

-- `_next_term` in OpenMetrics mode ------------------------------------------------------------------------------------

/-- the tail of `_next_term` on `term,item,…` for a term the scanner passes -/
theorem omTail_term {tm : Str} (hp : Pass termChs tm) (hne : tm ≠ []) (r : List (Str × Str)) :
    omTail (tm ++ tailStr r) = .ok (strip tm, tailStr r) := by
  have he : tm.isEmpty = false := by cases tm <;> simp at hne ⊢
  have hsc := scan_term_tail hp r
  unfold termChs at hsc
  unfold omTail
  by_cases hr : r = []
  · subst hr
    simp only [↓reduceIte] at hsc
    simp only [hsc]
    simp only [tailStr, List.flatMap_nil, List.append_nil, List.take_length, List.drop_length, he, Bool.false_and,
      Bool.false_eq_true, ↓reduceIte, strip_nil]
  · simp only [hr, ↓reduceIte] at hsc
    simp only [hsc, List.take_left, List.drop_left, he, Bool.false_and, Bool.false_eq_true, ↓reduceIte, strip_tail]

-- the body of one loop iteration on rendered terms -------------------------------------------------------------------

theorem oneLabelBody_item {legacy : Bool} {kv : Str × Str} (h : labelNameOK legacy kv.1 = true) (rest : Str)
    (acc : List (Str × Str)) (hfresh : acc.any (fun x => x.1 == kv.1) = false) :
    oneLabelBody legacy acc (labelItem kv) rest = .ok (acc ++ [kv], rest) := by
  unfold oneLabelBody
  obtain ⟨q, hq1, hq2⟩ := unquote_nameTok h
  have htake : List.take (escapeLabelName kv.1).length (labelItem kv) = escapeLabelName kv.1 := by
    rw [labelItem_eq]; exact List.take_left
  have hdrop : List.drop ((escapeLabelName kv.1).length + 1) (labelItem kv) = '"' :: (escape kv.2 ++ ['"']) := by
    rw [labelItem_eq, ← List.drop_drop, List.drop_left]; rfl
  have hname : (kv.1 == "__name__".toList) = false := by simpa using labelNameOK_ne_name h
  have hlen : ((escape kv.2).length + 1 + 1 != ('"' :: (escape kv.2 ++ ['"'])).length) = false := by simp
  have htk : List.take ((escape kv.2).length + 1 + 1) ('"' :: (escape kv.2 ++ ['"'])) = '"' :: (escape kv.2 ++ ['"']) := by
    apply List.take_of_length_le; simp
  simp only [bind, Except.bind, pure, Except.pure, item_nonempty, Bool.false_eq_true, ↓reduceIte, scan_item_eq h, htake, hq1,
    hdrop, hq2, strip_quoted, findClosingQuote_quoted, hlen, htk, unquoteUnescape_quoted, hname,
    labelNameOK_validate h, hfresh]

theorem oneLabelBody_qname (legacy : Bool) (n : Str) (rest : Str) :
    oneLabelBody legacy [] (qname n) rest = .ok ([("__name__".toList, n)], rest) := by
  unfold oneLabelBody
  have hne : (qname n).isEmpty = false := rfl
  have hop : nextUnquotedChar (qname n) (· == '=') 0 = none := by
    rw [nextUnquotedChar_zero]
    exact scan_none_of_noHit eqChs _ _ _ (quoted_pass eqChs eqChs_safe.quote n).1
  have hlen : ((escape n).length + 1 + 1 != (qname n).length) = false := by simp [qname]
  have htk : List.take ((escape n).length + 1 + 1) (qname n) = qname n := by
    apply List.take_of_length_le; simp [qname]
  have hq : qname n = '"' :: (escape n ++ ['"']) := rfl
  have hsq : strip (qname n) = qname n := strip_quoted _
  have hfc := findClosingQuote_quoted n
  rw [← hq] at hfc
  have huu := unquoteUnescape_quoted n
  rw [← hq] at huu
  simp only [bind, Except.bind, pure, Except.pure, hne, Bool.false_eq_true, ↓reduceIte, hop, hsq]
  rw [hq]
  simp only [← hq, hfc, hlen, htk, huu, Bool.false_eq_true, ↓reduceIte]
  simp only [Bool.not_true, Bool.false_and, Bool.false_eq_true, ↓reduceIte, beq_self_eq_true,
    validateMetricName_nameLabel, List.any_nil, List.nil_append]
  rw [hq]
  rfl

-- one loop iteration in OpenMetrics mode ----------------------------------------------------------------------------------

theorem space_item_pass {legacy : Bool} {kv : Str × Str} (h : labelNameOK legacy kv.1 = true) (pad : Bool) :
    Pass termChs ((if pad then [' '] else []) ++ labelItem kv) := by
  have hi : Pass termChs (labelItem kv) := item_pass termChs_safe (by decide) h
  cases pad with
  | false => simpa using hi
  | true =>
    have hs : Pass termChs [' '] := pass_plain (by intro c hc; simp at hc; subst hc; exact ⟨by decide, by decide, by decide⟩)
    exact pass_append hs hi

theorem strip_space_item {legacy : Bool} {kv : Str × Str} (h : labelNameOK legacy kv.1 = true) (pad : Bool) :
    strip ((if pad then [' '] else []) ++ labelItem kv) = labelItem kv := by
  cases pad with
  | false => simpa using strip_item h
  | true =>
    obtain ⟨a, t, e, _, hs⟩ := item_head h
    have hsp : isPySpace ' ' = true := by decide
    have hl0 : lstripSet isPySpace (labelItem kv) = labelItem kv := lstrip_of_head (a := a) (by rw [e]; rfl) hs
    have hl : lstripSet isPySpace (' ' :: labelItem kv) = labelItem kv := by
      have h1 : lstripSet isPySpace (' ' :: labelItem kv) = lstripSet isPySpace (labelItem kv) := by
        unfold lstripSet; rw [List.dropWhile_cons_of_pos hsp]
      rw [h1]; exact hl0
    have := strip_item h
    unfold strip stripSet at this ⊢
    simp only [↓reduceIte, List.cons_append, List.nil_append, hl]
    rw [hl0] at this
    exact this

/-- `,item…` or `, item…` (and, for the first item of a block without a quoted name, `item…`) -/
theorem parseOneLabel_om_item {legacy : Bool} {kv : Str × Str} (h : labelNameOK legacy kv.1 = true) (r : List (Str × Str))
    (lead pad : Bool) (acc : List (Str × Str)) (hfresh : acc.any (fun x => x.1 == kv.1) = false) :
    parseOneLabel legacy true ((if lead then [','] else []) ++ ((if pad then [' '] else []) ++ labelItem kv ++ tailStr r)) acc =
      .ok (acc ++ [kv], tailStr r) := by
  have hp := space_item_pass h pad
  have hne : (if pad then [' '] else []) ++ labelItem kv ≠ [] := by
    have := item_nonempty kv
    cases pad <;> cases hh : labelItem kv <;> simp_all
  have hnt : nextTerm ((if lead then [','] else []) ++ ((if pad then [' '] else []) ++ labelItem kv ++ tailStr r)) true =
      .ok (labelItem kv, tailStr r) := by
    obtain ⟨a, t, e, hac, _⟩ := item_head h
    have hhead : ∃ d ds, (if pad then [' '] else []) ++ labelItem kv ++ tailStr r = d :: ds ∧ d ≠ ',' := by
      cases pad with
      | true => exact ⟨' ', labelItem kv ++ tailStr r, by simp, by decide⟩
      | false => exact ⟨a, t ++ tailStr r, by simp [e], hac⟩
    obtain ⟨d, ds, hd, hdc⟩ := hhead
    have ht := omTail_term hp hne r
    rw [strip_space_item h pad] at ht
    cases lead with
    | false =>
      simp only [Bool.false_eq_true, ↓reduceIte, List.nil_append]
      rw [hd, nextTerm_om_no_comma d ds hdc, ← hd]; exact ht
    | true =>
      simp only [↓reduceIte, List.cons_append, List.nil_append]
      rw [hd, nextTerm_om_comma_cons d ds hdc, ← hd]; exact ht
  rw [parseOneLabel_om_eq, hnt]
  simp only [bind, Except.bind, item_nonempty, Bool.false_eq_true, ↓reduceIte]
  exact oneLabelBody_item h _ acc hfresh

theorem parseOneLabel_om_qname (legacy : Bool) (n : Str) (r : List (Str × Str)) :
    parseOneLabel legacy true (qname n ++ tailStr r) [] = .ok ([("__name__".toList, n)], tailStr r) := by
  have hp : Pass termChs (qname n) := quoted_pass termChs termChs_safe.quote n
  have ht := omTail_term hp (by simp [qname]) r
  rw [show strip (qname n) = qname n from strip_quoted _] at ht
  have hnt : nextTerm (qname n ++ tailStr r) true = .ok (qname n, tailStr r) := by
    rw [show qname n ++ tailStr r = '"' :: (escape n ++ ['"'] ++ tailStr r) by simp [qname]]
    rw [nextTerm_om_no_comma '"' _ (by decide)]
    rw [show '"' :: (escape n ++ ['"'] ++ tailStr r) = qname n ++ tailStr r by simp [qname]]
    exact ht
  rw [parseOneLabel_om_eq, hnt]
  have hne : (qname n).isEmpty = false := rfl
  simp only [bind, Except.bind, hne, Bool.false_eq_true, ↓reduceIte]
  exact oneLabelBody_qname legacy n _

-- the loop ---------------------------------------------------------------------------------------------------------------------

theorem loop_nil_om (legacy : Bool) (fuel : Nat) (acc : List (Str × Str)) :
    parseLabelsLoop legacy true fuel [] acc = .ok acc := by
  cases fuel <;> simp [parseLabelsLoop]

theorem loop_tail_om {legacy : Bool} : ∀ (r acc : List (Str × Str)) (fuel : Nat), r.length ≤ fuel →
    (∀ kv ∈ r, labelNameOK legacy kv.1 = true) → ((acc ++ r).map (·.1)).Nodup →
    parseLabelsLoop legacy true fuel (tailStr r) acc = .ok (acc ++ r) := by
  intro r
  induction r with
  | nil => intro acc fuel _ _ _; simp [tailStr, loop_nil_om]
  | cons kv r ih =>
    intro acc fuel hf hok hnd
    cases fuel with
    | zero => simp at hf
    | succ f =>
      have hfresh : acc.any (fun x => x.1 == kv.1) = false := by
        apply any_key_false
        rw [List.map_append, List.map_cons] at hnd
        have := (List.nodup_append.mp hnd).2.2
        intro hm
        exact this _ hm _ (by simp) rfl
      have hstep := parseOneLabel_om_item (hok kv (by simp)) r true false acc hfresh
      simp only [↓reduceIte, List.cons_append, List.nil_append, Bool.false_eq_true] at hstep
      rw [tailStr_cons, parseLabelsLoop]
      simp only [List.isEmpty_cons, Bool.false_eq_true, ↓reduceIte, bind, Except.bind, hstep]
      rw [ih (acc ++ [kv]) f (by simp at hf; omega) (fun x hx => hok x (by simp [hx])) (by simpa using hnd)]
      simp

/-- the tail after a quoted metric name: `, item,item…` -/
def spTail (l : List (Str × Str)) : Str :=
  match l with
  | [] => []
  | kv :: r => ',' :: ' ' :: (labelItem kv ++ tailStr r)

theorem strip_last_quote {s : Str} {a : Char} (hh : s.head? = some a) (ha : isPySpace a = false)
    (hl : s.getLast? = some '"') : strip s = s :=
  strip_eq_self (a := a) (b := '"') hh ha hl (by decide)

/-- block without a quoted metric name: `item,item…` -/
theorem parseLabels_om_items {legacy : Bool} (kv : Str × Str) (r : List (Str × Str))
    (hok : ∀ x ∈ kv :: r, labelNameOK legacy x.1 = true) (hnd : ((kv :: r).map (·.1)).Nodup) :
    parseLabels legacy (labelItem kv ++ tailStr r) true = .ok (kv :: r) := by
  have hkv := hok kv (by simp)
  obtain ⟨a, t, e, hac, hs⟩ := item_head hkv
  have hlast : (labelItem kv ++ tailStr r).getLast? = some '"' := by
    rw [List.getLast?_append]
    by_cases hr : r = []
    · subst hr; simp [tailStr, item_last]
    · rw [tail_last r hr]; rfl
  have hstrip : strip (labelItem kv ++ tailStr r) = labelItem kv ++ tailStr r :=
    strip_last_quote (a := a) (by rw [e]; rfl) hs hlast
  have hhd : ((labelItem kv ++ tailStr r).head? == some ',') = false := by
    rw [e]; simpa using hac
  unfold parseLabels
  simp only [hstrip, hhd, Bool.and_false, Bool.false_eq_true, ↓reduceIte]
  rw [parseLabelsLoop]
  have hne : (labelItem kv ++ tailStr r).isEmpty = false := by rw [e]; rfl
  have hstep := parseOneLabel_om_item hkv r false false [] rfl
  simp only [Bool.false_eq_true, ↓reduceIte, List.nil_append] at hstep
  simp only [hne, Bool.false_eq_true, ↓reduceIte, bind, Except.bind, hstep]
  rw [loop_tail_om r [kv] _ (by have := tailStr_length r; simp; omega) (fun x hx => hok x (by simp [hx])) (by simpa using hnd)]
  rfl

/-- block with a quoted metric name: `"name"` or `"name", item,item…` -/
theorem parseLabels_om_named {legacy : Bool} (n : Str) (L : List (Str × Str))
    (hok : ∀ x ∈ L, labelNameOK legacy x.1 = true) (hnd : (L.map (·.1)).Nodup) :
    parseLabels legacy (qname n ++ spTail L) true = .ok (("__name__".toList, n) :: L) := by
  have hhd : ((qname n ++ spTail L).head? == some ',') = false := rfl
  cases L with
  | nil =>
    have hstrip : strip (qname n ++ spTail []) = qname n := by simp [spTail, strip_quoted, qname]
    unfold parseLabels
    simp only [hstrip, hhd, Bool.and_false, Bool.false_eq_true, ↓reduceIte]
    rw [parseLabelsLoop]
    have hne : (qname n).isEmpty = false := rfl
    have := parseOneLabel_om_qname legacy n []
    simp only [tailStr, List.flatMap_nil, List.append_nil] at this
    simp only [hne, Bool.false_eq_true, ↓reduceIte, bind, Except.bind, this]
    exact loop_nil_om _ _ _
  | cons kv r =>
    have hkv := hok kv (by simp)
    have hlast : (qname n ++ spTail (kv :: r)).getLast? = some '"' := by
      simp only [spTail]
      rw [List.getLast?_append]
      have : (',' :: ' ' :: (labelItem kv ++ tailStr r)).getLast? = some '"' := by
        rw [show ',' :: ' ' :: (labelItem kv ++ tailStr r) = [',', ' '] ++ (labelItem kv ++ tailStr r) by simp]
        rw [List.getLast?_append, List.getLast?_append]
        by_cases hr : r = []
        · subst hr; simp [tailStr, item_last]
        · rw [tail_last r hr]; rfl
      rw [this]; rfl
    have hstrip : strip (qname n ++ spTail (kv :: r)) = qname n ++ spTail (kv :: r) :=
      strip_last_quote (a := '"') rfl (by decide) hlast
    unfold parseLabels
    simp only [hstrip, hhd, Bool.and_false, Bool.false_eq_true, ↓reduceIte]
    -- first iteration: the quoted name.  The scanner passes `"name"` and stops at the comma that follows.
    have hp : Pass termChs (qname n) := quoted_pass termChs termChs_safe.quote n
    have hsc : nextUnquotedChar (qname n ++ spTail (kv :: r)) termChs 0 = some (qname n).length := by
      rw [nextUnquotedChar_zero, scan_append_of_noHit _ _ _ _ _ hp.1, hp.2]
      simp only [spTail]
      rw [scan_hit termChs ',' _ false (by decide) (by decide)]; simp
    have hrest_strip : strip (spTail (kv :: r)) = spTail (kv :: r) := by
      have hl : (spTail (kv :: r)).getLast? = some '"' := by
        simp only [spTail]
        rw [show ',' :: ' ' :: (labelItem kv ++ tailStr r) = [',', ' '] ++ (labelItem kv ++ tailStr r) by simp]
        rw [List.getLast?_append, List.getLast?_append]
        by_cases hr : r = []
        · subst hr; simp [tailStr, item_last]
        · rw [tail_last r hr]; rfl
      exact strip_last_quote (a := ',') rfl (by decide) hl
    have hnt : nextTerm (qname n ++ spTail (kv :: r)) true = .ok (qname n, spTail (kv :: r)) := by
      rw [show qname n ++ spTail (kv :: r) = '"' :: (escape n ++ ['"'] ++ spTail (kv :: r)) by simp [qname]]
      rw [nextTerm_om_no_comma '"' _ (by decide)]
      rw [show '"' :: (escape n ++ ['"'] ++ spTail (kv :: r)) = qname n ++ spTail (kv :: r) by simp [qname]]
      unfold omTail
      unfold termChs at hsc
      have he : (qname n).isEmpty = false := rfl
      simp only [hsc, List.take_left, List.drop_left, he, Bool.false_and, Bool.false_eq_true, ↓reduceIte,
        show strip (qname n) = qname n from strip_quoted _, hrest_strip]
    have hfirst : parseOneLabel legacy true (qname n ++ spTail (kv :: r)) [] =
        .ok ([("__name__".toList, n)], spTail (kv :: r)) := by
      rw [parseOneLabel_om_eq, hnt]
      have hne : (qname n).isEmpty = false := rfl
      simp only [bind, Except.bind, hne, Bool.false_eq_true, ↓reduceIte]
      exact oneLabelBody_qname legacy n _
    have hnd' : (([("__name__".toList, n)] ++ (kv :: r)).map (·.1)).Nodup := by
      simp only [List.singleton_append, List.map_cons, List.nodup_cons]
      refine ⟨?_, by simpa using hnd⟩
      intro hm
      rw [← List.map_cons (f := fun x : Str × Str => x.1)] at hm
      obtain ⟨x, hx, he⟩ := List.mem_map.mp hm
      exact labelNameOK_ne_name (hok x hx) he
    have hfresh : ([("__name__".toList, n)] : List (Str × Str)).any (fun x => x.1 == kv.1) = false := by
      have := labelNameOK_ne_name hkv
      simp only [List.any_cons, List.any_nil, Bool.or_false]
      exact beq_eq_false_iff_ne.mpr (Ne.symm this)
    have hsecond := parseOneLabel_om_item hkv r true true [("__name__".toList, n)] hfresh
    simp only [↓reduceIte, List.cons_append, List.nil_append] at hsecond
    have hlen1 : (qname n ++ spTail (kv :: r)).length + 1 = ((qname n ++ spTail (kv :: r)).length - 1) + 1 + 1 := by
      simp [qname, spTail]
    rw [hlen1, parseLabelsLoop]
    have hne : (qname n ++ spTail (kv :: r)).isEmpty = false := rfl
    simp only [hne, Bool.false_eq_true, ↓reduceIte, bind, Except.bind, hfirst]
    rw [parseLabelsLoop]
    have hne2 : (spTail (kv :: r)).isEmpty = false := rfl
    simp only [hne2, Bool.false_eq_true, ↓reduceIte, spTail, hsecond, bind, Except.bind]
    have hnd2 : (([("__name__".toList, n), kv] ++ r).map (·.1)).Nodup := by simpa using hnd'
    rw [loop_tail_om r [("__name__".toList, n), kv] _ (by have := tailStr_length r; simp; omega)
      (fun x hx => hok x (by simp [hx])) hnd2]
    rfl

end PromVerif.Lemmas.OMRt
