/-
C01 helper lemmas, part 6: the samples of a replayed metric are the samples the reference reads off the history.
-/
import PromVerif.Lemmas.MetricsHist
import PromVerif.Lemmas.MetricsRun

namespace PromVerif.Lemmas.Metrics
open PromVerif.Py PromVerif.Model.Metrics PromVerif.Generated.Metrics
open PromVerif.Spec.Metrics

variable {V : Type} [Val V]

/-- what the reference assumes of a declaration: histogram bounds sorted by `<=` (checked by `_prepare_buckets`),
enum states pairwise distinct -/
def GoodDecl (d : Decl V) : Prop :=
  match d.kind with
  | .histogram bs => (bs.map (·.1)).Pairwise (fun x y => Val.le x y = true)
  | .enum states => states.Nodup
  | _ => True

theorem observations_length_le (acts : List (Action V)) : (observations acts).length ≤ acts.length := by
  unfold observations; exact List.length_filterMap_le _ _

/-- **Values.**  The samples of the child that replays `acts` are the samples read off `acts`. -/
theorem series_eq (hrf : resetStoresFloat = true) {B : Nat} (hx : CountExact V B) (htr : LeTrans V) (d : Decl V) (hg : GoodDecl d)
    (acts : List (Action V)) (hok : ∀ a ∈ acts, okAct d a) (hlen : acts.length ≤ B) :
    childSamples d (childOf d acts) = seriesSamples d acts := by
  have hobs := observations_length_le acts
  cases hk : d.kind with
  | counter => simp only [childSamples, seriesSamples, hk, counter_value hrf d hk acts hok]
  | gauge => simp only [childSamples, seriesSamples, hk, gauge_value d hk acts]
  | summary =>
    obtain ⟨h1, h2⟩ := summary_cells d hk acts
    simp only [childSamples, seriesSamples, hk, h1, h2]
    rw [addOnes_exact hx _ (by omega)]
  | info => simp only [childSamples, seriesSamples, hk, info_value d hk acts hok]
  | enum states =>
    have hnd : states.Nodup := by simpa [GoodDecl, hk] using hg
    have hst := enum_state d states hk acts hok
    simp only [childSamples, seriesSamples, hk]
    exact enumSamples_eq d.name _ _ states 0 hnd (fun _ => by simpa using hst) (fun h => by omega)
  | histogram bs =>
    have hp : (bs.map (·.1)).Pairwise (fun x y => Val.le x y = true) := by simpa [GoodDecl, hk] using hg
    obtain ⟨h1, h2⟩ := histogram_cells d bs hk acts
    have hc := cumulate_cells hx htr (bs.map (·.1)) (observations acts) 0 hp (by omega)
    have hc' : cumulate Val.zero ((observations acts).foldl (fun cs o => observeBuckets o (bs.map (·.1)) cs)
          (bs.map (fun _ => Val.zero)))
        = bs.map (fun b => Val.ofNat ((observations acts).countP (fun o => Val.le o b.1))) := by
      simpa [cellsOf, hx.zero_eq, List.map_map, Function.comp_def] using hc
    simp only [childSamples, seriesSamples, hk, h1, h2, hc', bucketCount, sumExposed_eq]
    congr 1
    congr 1
    · rw [zip_map_self]
    · rw [List.getLast?_map]
      cases bs.getLast? <;> rfl

/-- every recorded history has at most `n` calls -/
def HistLen (n : Nat) (h : Hist V) : Prop := h.single.length ≤ n ∧ ∀ kh ∈ h.table, kh.2.length ≤ n

theorem metric_eq (hrf : resetStoresFloat = true) {B : Nat} (hx : CountExact V B) (htr : LeTrans V) (d : Decl V) (hg : GoodDecl d) (h : Hist V)
    (hok : AllOk d h) (hlen : HistLen B h) :
    Model.Metrics.metricSamples (metricOf d h) = Spec.Metrics.metricSamples d h := by
  unfold Model.Metrics.metricSamples Spec.Metrics.metricSamples
  cases hl : d.labelnames.isEmpty with
  | true =>
    simp only [metricOf, hl, Bool.not_true, Bool.false_eq_true, if_false, if_true]
    rw [series_eq hrf hx htr d hg h.single (hok.1 hl) hlen.1]
  | false =>
    simp only [metricOf, hl, Bool.not_false, if_true]
    congr 1
    have : ∀ (t : List (List Str × List (Action V))), (∀ kh ∈ t, (∀ a ∈ kh.2, okAct d a) ∧ kh.2.length ≤ B) →
        (t.map (fun kh => (kh.1, childOf d kh.2))).flatMap (fun kc =>
            (childSamples d kc.2).map (fun s => { s with labels := d.labelnames.zip kc.1 ++ s.labels }))
          = t.flatMap (fun kh =>
            (seriesSamples d kh.2).map (fun s => { s with labels := d.labelnames.zip kh.1 ++ s.labels })) := by
      intro t
      induction t with
      | nil => intro _; rfl
      | cons kh t ih =>
        intro hall
        have h0 := hall kh (by simp)
        simp only [List.map, List.flatMap_cons]
        rw [series_eq hrf hx htr d hg kh.2 h0.1 h0.2, ih (fun kh' hm => hall kh' (by simp [hm]))]
    exact this h.table (fun kh hm => ⟨hok.2 kh hm, hlen.2 kh hm⟩)

theorem collect_eq (hrf : resetStoresFloat = true) {B : Nat} (hx : CountExact V B) (htr : LeTrans V) :
    ∀ (ds : List (Decl V)) (hs : List (Hist V)), (∀ d ∈ ds, GoodDecl d) → Forall2 AllOk ds hs →
      (∀ h ∈ hs, HistLen B h) →
      Model.Metrics.collect (List.zipWith metricOf ds hs) = collectHist ds hs
  | [], [], _, _, _ => rfl
  | d :: ds, h :: hs, hg, .cons h1 h2, hl => by
    simp only [Model.Metrics.collect, collectHist, List.zipWith, List.zip_cons_cons, List.map]
    rw [metric_eq hrf hx htr d (hg d (by simp)) h h1 (hl h (by simp))]
    have := collect_eq hrf hx htr ds hs (fun d' hd' => hg d' (by simp [hd'])) h2 (fun h' hh' => hl h' (by simp [hh']))
    simp only [Model.Metrics.collect, collectHist] at this
    rw [this]

/-! ### lengths of the recorded histories -/

theorem histLen_mono {n m : Nat} (hnm : n ≤ m) (h : Hist V) (hl : HistLen n h) : HistLen m h :=
  ⟨Nat.le_trans hl.1 hnm, fun kh hm => Nat.le_trans (hl.2 kh hm) hnm⟩

theorem appendAt_len (n : Nat) (k : List Str) (a : Action V) :
    ∀ t : List (List Str × List (Action V)), (∀ kh ∈ t, kh.2.length ≤ n) → ∀ kh ∈ appendAt k a t, kh.2.length ≤ n + 1
  | [], _, kh, hm => by simp [appendAt] at hm; subst hm; simp
  | x :: t, hall, kh, hm => by
    simp only [appendAt] at hm
    split at hm
    · rcases List.mem_cons.mp hm with hm | hm
      · subst hm; simp; exact hall x (by simp)
      · exact Nat.le_succ_of_le (hall kh (by simp [hm]))
    · rcases List.mem_cons.mp hm with hm | hm
      · subst hm; exact Nat.le_succ_of_le (hall kh (by simp))
      · exact appendAt_len n k a t (fun kh' h' => hall kh' (by simp [h'])) kh hm

theorem recordOn_len (n : Nat) (ln : List Str) (h : Hist V) (o : Op V) (hl : HistLen n h) :
    HistLen (n + 1) (recordOn ln h o) := by
  cases o with
  | call i addr act =>
    simp only [recordOn]
    split
    · exact ⟨by simp; exact hl.1, fun kh hm => Nat.le_succ_of_le (hl.2 kh hm)⟩
    · exact ⟨Nat.le_succ_of_le hl.1, appendAt_len n _ act h.table hl.2⟩
  | remove i vs =>
    exact ⟨Nat.le_succ_of_le hl.1, fun kh hm => Nat.le_succ_of_le (hl.2 kh (List.mem_filter.mp hm).1)⟩
  | clear i => exact ⟨Nat.le_succ_of_le hl.1, fun kh hm => by simp [recordOn] at hm⟩

theorem mem_modifyNth {α : Type} (f : α → α) : ∀ (i : Nat) (l : List α) (x : α), x ∈ modifyNth f i l →
    x ∈ l ∨ ∃ y ∈ l, x = f y
  | _, [], x, h => by simp [modifyNth] at h
  | 0, a :: l, x, h => by
    simp only [modifyNth] at h
    rcases List.mem_cons.mp h with h | h
    · exact Or.inr ⟨a, by simp, h⟩
    · exact Or.inl (by simp [h])
  | i + 1, a :: l, x, h => by
    simp only [modifyNth] at h
    rcases List.mem_cons.mp h with h | h
    · exact Or.inl (by simp [h])
    · rcases mem_modifyNth f i l x h with h | ⟨y, hy, hx⟩
      · exact Or.inl (by simp [h])
      · exact Or.inr ⟨y, by simp [hy], hx⟩

theorem record_len (ds : List (Decl V)) (n : Nat) (hs : List (Hist V)) (o : Op V) (hl : ∀ h ∈ hs, HistLen n h) :
    ∀ h ∈ record ds hs o, HistLen (n + 1) h := by
  intro h hm
  unfold record at hm
  split at hm
  · exact histLen_mono (Nat.le_succ n) h (hl h hm)
  · rcases mem_modifyNth _ _ _ _ hm with hm | ⟨y, hy, hx⟩
    · exact histLen_mono (Nat.le_succ n) h (hl h hm)
    · subst hx; exact recordOn_len n _ y o (hl y hy)

theorem foldl_record_len (ds : List (Decl V)) : ∀ (ops : List (Op V)) (n : Nat) (hs : List (Hist V)),
    (∀ h ∈ hs, HistLen n h) → ∀ h ∈ ops.foldl (record ds) hs, HistLen (n + ops.length) h
  | [], n, hs, hl => by simpa using hl
  | o :: ops, n, hs, hl => by
    have := foldl_record_len ds ops (n + 1) (record ds hs o) (record_len ds n hs o hl)
    simp only [List.foldl, List.length_cons]
    rw [show n + (ops.length + 1) = n + 1 + ops.length by omega]
    exact this

theorem history_len (ds : List (Decl V)) (ops : List (Op V)) : ∀ h ∈ history ds ops, HistLen ops.length h := by
  have := foldl_record_len ds ops 0 (ds.map (fun _ => Hist.empty)) (by
    intro h hm
    simp at hm
    obtain ⟨_, _, rfl⟩ := hm
    simp [HistLen, Hist.empty])
  simpa [history] using this

theorem accepted_length : ∀ (ops : List (Op V)) (r : Reg V), (accepted r ops).length ≤ ops.length
  | [], _ => by simp [accepted]
  | op :: ops, r => by
    have := accepted_length ops (step r op).1
    simp only [accepted, List.length_append, List.length_cons]
    cases acceptedOp r op <;> simp <;> omega

end PromVerif.Lemmas.Metrics
