/-
Lemmas/ConcFile — the file-backed store: the mmap FILE entry of a value mirrors the in-memory value.

The value attribute and its file entry are modelled as the two components of ONE cell (`value`, `file`) guarded by the
process-wide lock.  Updates:
   inc a   `self._value += a`                       : value := (value the thread LOADED) + a          file unchanged
   fileW   `self._file.write_value(key, <value>)`   : file  := the value in the thread's REGISTER      value unchanged
   other   a store that touches neither
so the write to the file carries what the thread holds after its `+=`, not what the cell holds when the write happens.

`sync g x pc d`: along `pc`, started dirty iff `d`, every `inc` on `x` is followed by a `fileW` on `x` before the guard `g` is
released (and before the program ends).  Invariant (`SyncInv`, on top of `DataInv`): file = value unless some thread that holds
the guard is between its `inc` and its `fileW`.
-/
import PromVerif.Lemmas.ConcData

set_option linter.unusedSectionVars false

namespace PromVerif.Model.Conc
open PromVerif.Generated.Locks

inductive FU (M : Type)
  | inc (a : M)
  | fileW
  | other
deriving Repr

def apF {M : Type} (add : M → M → M) : FU M → M × M → M × M → M × M
  | .inc a, r, c => (add r.1 a, c.2)
  | .fileW, r, c => (c.1, r.1)
  | .other, _, c => c

def FU.blind {M : Type} : FU M → Bool
  | .other => true
  | _ => false

theorem apF_blind {M : Type} (add : M → M → M) :
    ∀ u : FU M, u.blind = true → ∀ a b c, apF add u a c = apF add u b c := by
  intro u hu a b c
  cases u <;> first | rfl | cases hu

section
variable {L X M : Type} [DecidableEq L] [DecidableEq X]

def sync (g : L) (x : X) : List (Micro L X (FU M)) → Bool → Bool
  | [], d => !d
  | .acquire l :: r, d => if l = g then !d && sync g x r false else sync g x r d
  | .release l :: r, d => if l = g then !d && sync g x r false else sync g x r d
  | .load _ :: r, d => sync g x r d
  | .store y u :: r, d =>
    if y = x then
      (match u with
       | .inc _ => sync g x r true
       | .fileW => sync g x r false
       | .other => sync g x r d)
    else sync g x r d
  | .iterBegin _ :: r, d => sync g x r d
  | .iterEnd _ :: r, d => sync g x r d
  | .call _ _ :: r, d => sync g x r d
  | .yield :: r, d => sync g x r d

/-- a piece that is in sync from state `d` ends clean: what follows it starts clean -/
theorem sync_append (g : L) (x : X) (p q : List (Micro L X (FU M))) (d : Bool) (h : sync g x p d = true) :
    sync g x (p ++ q) d = sync g x q false := by
  induction p generalizing d with
  | nil => simp [sync] at h; subst h; rfl
  | cons a r ih =>
    cases a with
    | acquire l =>
      simp only [sync] at h
      simp only [List.cons_append, sync]
      split
      · next hl => simp only [hl, if_true, Bool.and_eq_true] at h; simp [h.1, ih _ h.2]
      · next hl => simp only [hl] at h; exact ih _ h
    | release l =>
      simp only [sync] at h
      simp only [List.cons_append, sync]
      split
      · next hl => simp only [hl, if_true, Bool.and_eq_true] at h; simp [h.1, ih _ h.2]
      · next hl => simp only [hl] at h; exact ih _ h
    | store y u =>
      simp only [sync] at h
      simp only [List.cons_append, sync]
      split
      · next hy =>
        simp only [hy, if_true] at h
        cases u <;> exact ih _ h
      · next hy => simp only [hy] at h; exact ih _ h
    | load y => simp only [sync] at h; simp only [List.cons_append, sync]; exact ih _ h
    | iterBegin y => simp only [sync] at h; simp only [List.cons_append, sync]; exact ih _ h
    | iterEnd y => simp only [sync] at h; simp only [List.cons_append, sync]; exact ih _ h
    | call b c => simp only [sync] at h; simp only [List.cons_append, sync]; exact ih _ h
    | yield => simp only [sync] at h; simp only [List.cons_append, sync]; exact ih _ h

theorem sync_flatten (g : L) (x : X) (ps : List (List (Micro L X (FU M))))
    (h : ∀ p ∈ ps, sync g x p false = true) : sync g x ps.flatten false = true := by
  induction ps with
  | nil => rfl
  | cons p rest ih =>
    rw [List.flatten_cons, sync_append g x p _ false (h p List.mem_cons_self)]
    exact ih (fun q hq => h q (List.mem_cons_of_mem _ hq))

/-- thread `i` may be between its `inc` and its `fileW` -/
def DirtyAt (g : L) (x : X) (s : St L X (FU M) (M × M)) (i : Tid) (t : Thread L X (FU M) (M × M)) : Prop :=
  sync g x t.pc true = true ∧ s.owner g = some i

structure SyncInv (g : L) (x : X) (s : St L X (FU M) (M × M)) : Prop where
  thr : ∀ i t, s.threads[i]? = some t → sync g x t.pc false = true ∨ DirtyAt g x s i t
  cellOk : (s.cell x).2 = (s.cell x).1 ∨ ∃ i t, s.threads[i]? = some t ∧ DirtyAt g x s i t

theorem syncInv_init {g : L} {x : X} (c0 : X → M × M) (hc0 : (c0 x).2 = (c0 x).1)
    (progs : List (List (Micro L X (FU M)))) (h : ∀ p ∈ progs, sync g x p false = true) :
    SyncInv g x (init c0 progs) := by
  constructor
  · intro i t ht
    simp only [init, List.getElem?_map] at ht
    cases hp : progs[i]? with
    | none => simp [hp] at ht
    | some p =>
      simp [hp] at ht
      subst ht
      exact Or.inl (h p (List.mem_of_getElem? hp))
  · exact Or.inl hc0

/-- a step that leaves `cell x` and `owner g` alone and moves thread `i` past a micro-step `sync` ignores -/
theorem syncInv_local {g : L} {x : X} {s s' : St L X (FU M) (M × M)} {i : Tid}
    {t t' : Thread L X (FU M) (M × M)} (inv : SyncInv g x s) (ht : s.threads[i]? = some t)
    (hc : s'.cell x = s.cell x) (ho : s'.owner g = s.owner g) (hthr : s'.threads = s.threads.set i t')
    (hd : ∀ d, sync g x t.pc d = true → sync g x t'.pc d = true) : SyncInv g x s' := by
  have hset : s'.threads[i]? = some t' := by rw [hthr]; exact getElem?_set_self_of ht
  constructor
  · intro j tj hj
    rw [hthr] at hj
    rcases getElem?_set_cases hj with ⟨rfl, rfl, _⟩ | ⟨hne, hj'⟩
    · rcases inv.thr _ _ ht with h | ⟨h, o⟩
      · exact Or.inl (hd _ h)
      · exact Or.inr ⟨hd _ h, by rw [ho]; exact o⟩
    · rcases inv.thr j tj hj' with h | ⟨h, o⟩
      · exact Or.inl h
      · exact Or.inr ⟨h, by rw [ho]; exact o⟩
  · rw [hc]
    rcases inv.cellOk with h | ⟨j, tj, hj, hdj, oj⟩
    · exact Or.inl h
    · right
      by_cases hji : j = i
      · subst hji
        rw [ht] at hj; cases hj
        exact ⟨j, t', hset, hd _ hdj, by rw [ho]; exact oj⟩
      · refine ⟨j, tj, ?_, hdj, by rw [ho]; exact oj⟩
        rw [hthr, List.getElem?_set_ne (Ne.symm hji)]; exact hj

theorem syncInv_step {g : L} {x : X} {add : M → M → M} {v0 : M × M} {all : List (FU M)}
    {s s' : St L X (FU M) (M × M)} {i : Tid}
    (dinv : DataInv g x FU.blind (apF add) v0 all s) (inv : SyncInv g x s)
    (h : step (apF add) s i = some s') : SyncInv g x s' := by
  obtain ⟨t, m, r, ht, hpc, he⟩ := step_some h
  have hsh := dinv.shape i t ht
  have hti := inv.thr i t ht
  cases he with
  | acquire l r ho =>
    by_cases hlg : l = g
    · subst hlg
      -- nobody can be dirty: the guard is free
      have hnod : ∀ j tj, ¬ DirtyAt l x s j tj := fun j tj hd => by have := hd.2; rw [ho] at this; cases this
      have hclean : ∀ (j : Tid) (tj : Thread L X (FU M) (M × M)), s.threads[j]? = some tj → sync l x tj.pc false = true :=
          fun j tj hj => by
        rcases inv.thr j tj hj with h | h
        · exact h
        · exact absurd h (hnod j tj)
      have hsync : (s.cell x).2 = (s.cell x).1 := by
        rcases inv.cellOk with h | ⟨j, tj, _, hd⟩
        · exact h
        · exact absurd hd (hnod j tj)
      constructor
      · intro j tj hj
        simp only at hj
        rcases getElem?_set_cases hj with ⟨rfl, rfl, _⟩ | ⟨hne, hj'⟩
        · have := hclean _ _ ht
          rw [hpc] at this
          simp [sync] at this
          exact Or.inl this
        · exact Or.inl (hclean j tj hj')
      · exact Or.inl hsync
    · refine syncInv_local inv ht rfl (by simp [upd_ne _ _ (Ne.symm hlg)]) rfl ?_
      intro d hd; rw [hpc] at hd; simpa [sync, hlg] using hd
  | release l r ho =>
    by_cases hlg : l = g
    · subst hlg
      have hnod : ∀ j tj, s.threads[j]? = some tj → ¬ DirtyAt l x s j tj := fun j tj hj hd => by
        have oj := hd.2
        rw [ho] at oj
        have e : i = j := Option.some.inj oj
        subst e
        rw [ht] at hj; cases hj
        have := hd.1
        rw [hpc] at this
        simp [sync] at this
      have hclean : ∀ (j : Tid) (tj : Thread L X (FU M) (M × M)), s.threads[j]? = some tj → sync l x tj.pc false = true :=
          fun j tj hj => by
        rcases inv.thr j tj hj with h | h
        · exact h
        · exact absurd h (hnod j tj hj)
      have hsync : (s.cell x).2 = (s.cell x).1 := by
        rcases inv.cellOk with h | ⟨j, tj, hj, hd⟩
        · exact h
        · exact absurd hd (hnod j tj hj)
      constructor
      · intro j tj hj
        simp only at hj
        rcases getElem?_set_cases hj with ⟨rfl, rfl, _⟩ | ⟨hne, hj'⟩
        · have := hclean _ _ ht
          rw [hpc] at this
          simp [sync] at this
          exact Or.inl this
        · exact Or.inl (hclean j tj hj')
      · exact Or.inl hsync
    · refine syncInv_local inv ht rfl (by simp [upd_ne _ _ (Ne.symm hlg)]) rfl ?_
      intro d hd; rw [hpc] at hd; simpa [sync, hlg] using hd
  | load y r =>
    refine syncInv_local inv ht rfl rfl rfl ?_
    intro d hd; rw [hpc] at hd; simpa [sync] using hd
  | store y u r =>
    by_cases hyx : y = x
    · subst hyx
      cases u with
      | other =>
        refine syncInv_local inv ht (by simp [apF]) rfl rfl ?_
        intro d hd; rw [hpc] at hd; simpa [sync] using hd
      | inc a =>
        -- a non-blind store happens in mode `loaded`: the thread owns the guard
        have hown : s.owner g = some i := by
          cases hsh with
          | out d o => rw [hpc] at d; simp [disc] at d
          | held d o => rw [hpc] at d; simp [disc, FU.blind] at d
          | loaded d o e => exact o
        have hr : sync g y r true = true := by
          rcases hti with h | ⟨h, _⟩ <;> (rw [hpc] at h; simpa [sync] using h)
        have hset : (s.threads.set i { t with pc := r, reg := upd t.reg y (apF add (.inc a) (t.reg y) (s.cell y)) })[i]? =
            some { t with pc := r, reg := upd t.reg y (apF add (.inc a) (t.reg y) (s.cell y)) } :=
          getElem?_set_self_of ht
        constructor
        · intro j tj hj
          simp only at hj
          rcases getElem?_set_cases hj with ⟨rfl, rfl, _⟩ | ⟨hne, hj'⟩
          · exact Or.inr ⟨hr, hown⟩
          · rcases inv.thr j tj hj' with h | ⟨h, o⟩
            · exact Or.inl h
            · exact Or.inr ⟨h, o⟩
        · exact Or.inr ⟨i, _, hset, hr, hown⟩
      | fileW =>
        have hreg : t.reg y = s.cell y ∧ s.owner g = some i := by
          cases hsh with
          | out d o => rw [hpc] at d; simp [disc] at d
          | held d o => rw [hpc] at d; simp [disc, FU.blind] at d
          | loaded d o e => exact ⟨e, o⟩
        have hr : sync g y r false = true := by
          rcases hti with h | ⟨h, _⟩ <;> (rw [hpc] at h; simpa [sync] using h)
        constructor
        · intro j tj hj
          simp only at hj
          rcases getElem?_set_cases hj with ⟨rfl, rfl, _⟩ | ⟨hne, hj'⟩
          · exact Or.inl hr
          · rcases inv.thr j tj hj' with h | ⟨h, o⟩
            · exact Or.inl h
            · exact Or.inr ⟨h, o⟩
        · left
          simp only [upd_same, apF, hreg.1]
    · refine syncInv_local inv ht (by simp [upd_ne _ _ (Ne.symm hyx)]) rfl rfl ?_
      intro d hd; rw [hpc] at hd; simpa [sync, hyx] using hd
  | iterBegin y r =>
    refine syncInv_local inv ht rfl rfl rfl ?_
    intro d hd; rw [hpc] at hd; simpa [sync] using hd
  | iterEnd y r =>
    refine syncInv_local inv ht rfl rfl rfl ?_
    intro d hd; rw [hpc] at hd; simpa [sync] using hd
  | call b c r =>
    refine syncInv_local inv ht rfl rfl rfl ?_
    intro d hd; rw [hpc] at hd; simpa [sync] using hd
  | yield r =>
    refine syncInv_local inv ht rfl rfl rfl ?_
    intro d hd; rw [hpc] at hd; simpa [sync] using hd

/-- both invariants along any schedule -/
theorem fileInv_run {g : L} {x : X} {add : M → M → M} (c0 : X → M × M) (hc0 : (c0 x).2 = (c0 x).1)
    (progs : List (List (Micro L X (FU M))))
    (hd : ∀ p ∈ progs, disc g x FU.blind p .out = true) (hs : ∀ p ∈ progs, sync g x p false = true)
    (sched : List Tid) :
    DataInv g x FU.blind (apF add) (c0 x) (pending x (init c0 progs).threads) (run (apF add) (init c0 progs) sched) ∧
    SyncInv g x (run (apF add) (init c0 progs) sched) :=
  run_induction (fun s => DataInv g x FU.blind (apF add) (c0 x) (pending x (init c0 progs).threads) s ∧ SyncInv g x s)
    (fun _ _ _ inv hst => ⟨dataInv_step (apF_blind add) inv.1 hst, syncInv_step inv.1 inv.2 hst⟩) sched _
    ⟨dataInv_init c0 progs hd, syncInv_init c0 hc0 progs hs⟩

/-- when every thread has finished nobody is dirty: the file entry equals the value -/
theorem syncInv_finished {g : L} {x : X} {s : St L X (FU M) (M × M)} (inv : SyncInv g x s) (hf : finished s) :
    (s.cell x).2 = (s.cell x).1 := by
  rcases inv.cellOk with h | ⟨i, t, ht, hd, _⟩
  · exact h
  · have hm : t ∈ s.threads := List.mem_of_getElem? ht
    have := hf t hm
    rw [this] at hd
    simp [sync] at hd

/-- the value component after a sequence of updates: only the increments count, in any order -/
def incsOf : List (FU M) → List M
  | [] => []
  | .inc a :: l => a :: incsOf l
  | _ :: l => incsOf l

theorem fold_value (add : M → M → M) (p : M × M) (l : List (FU M)) :
    (l.foldr (lin (apF add)) p).1 = (incsOf l).foldr (fun a v => add v a) p.1 := by
  induction l with
  | nil => rfl
  | cons u r ih => cases u <;> simp [List.foldr_cons, lin, apF, incsOf, ih]

theorem incsOf_perm {l₁ l₂ : List (FU M)} (h : l₁.Perm l₂) : (incsOf l₁).Perm (incsOf l₂) := by
  induction h with
  | nil => exact List.Perm.nil
  | cons u _ ih => cases u <;> simp [incsOf, ih]
  | swap u v l => cases u <;> cases v <;> simp [incsOf, List.Perm.swap]
  | trans _ _ ih1 ih2 => exact ih1.trans ih2

end
end PromVerif.Model.Conc
