/-
`_check_histogram`: how the loop composes, what a bucket line / a non-bucket line of the current group does to the
loop state, and when `do_checks` fails.
-/
import PromVerif.Lemmas.OMChecks

namespace PromVerif.Lemmas.OM
open PromVerif.Py PromVerif.Model.ParseCore PromVerif.Model.OMParse PromVerif.Generated.OMParse
open PromVerif.Spec.OMRules

/-- the loop from state `h` over `ls`, then the final `do_checks` -/
def histFinish (P : Params) (n : Str) (h : HSt) (ls : List OSample) : PyM Unit :=
  match histLoop P n h ls with
  | .error e => .error e
  | .ok h' => if h'.group.isSome then doChecks P h' else .ok ()

theorem checkHistogram_eq (P : Params) (n : Str) (ls : List OSample) : checkHistogram P ls n = histFinish P n {} ls := rfl

theorem histFinish_cons (P : Params) (n : Str) (h : HSt) (s : OSample) (ls : List OSample) :
    histFinish P n h (s :: ls) = match histStep P n h s with
      | .ok h' => histFinish P n h' ls
      | .error e => .error e := by
  simp only [histFinish, histLoop]
  cases histStep P n h s <;> rfl

theorem histLoop_append (P : Params) (n : Str) (h : HSt) (a b : List OSample) :
    histLoop P n h (a ++ b) = match histLoop P n h a with
      | .ok h' => histLoop P n h' b
      | .error e => .error e := by
  induction a generalizing h with
  | nil => rfl
  | cons s a ih =>
    simp only [List.cons_append, histLoop]
    cases histStep P n h s with
    | error e => rfl
    | ok h' => exact ih h'

theorem histFinish_append (P : Params) (n : Str) (h : HSt) (a b : List OSample) :
    histFinish P n h (a ++ b) = match histLoop P n h a with
      | .ok h' => histFinish P n h' b
      | .error e => .error e := by
  simp only [histFinish, histLoop_append]
  cases histLoop P n h a <;> rfl

/-- whatever samples precede: if the rest fails from every loop state, `_check_histogram` fails -/
theorem hist_of_suffix (P : Params) (n : Str) (pre suf : List OSample) (h : ∀ h0, isError (histFinish P n h0 suf) = true) :
    isError (checkHistogram P (pre ++ suf) n) = true := by
  rw [checkHistogram_eq, histFinish_append]
  cases histLoop P n {} pre with
  | error e => rfl
  | ok h0 => exact h h0

/-! ## the group of a sample -/

theorem not_info : ¬ (tHistogram == tInfo) = true := by decide
theorem not_summary : (tHistogram == tSummary) = false := by decide
theorem not_stateset : ¬ (tHistogram == tStateset) = true := by decide

theorem groupForSample_hist (n : Str) (s : OSample) (g : Labels) (h : histGroupOf n s = some g) :
    groupForSample s n tHistogram = .ok (some g) := by
  unfold histGroupOf at h
  unfold groupForSample
  rw [if_neg not_info, not_summary]
  simp only [Bool.false_and, Bool.false_eq_true, if_false, if_neg not_stateset]
  cases hl : s.labels with
  | none => rw [hl] at h; cases h
  | some l =>
    rw [hl] at h
    dsimp only at h
    by_cases c : s.name = n ++ cs!"_bucket"
    · rw [if_pos c] at h
      have c' : ((tHistogram == tHistogram || tHistogram == tGaugeHistogram) && s.name == n ++ sBucket) = true := by
        rw [c]; simp [sBucket]
      rw [if_pos c']
      by_cases d : dictHas l cs!"le" = true
      · rw [if_pos d] at h
        obtain rfl := Option.some.inj h
        simp only [labelsCopy, hl, dictDel, bind, Except.bind]
        have : dictHas l sLe = true := d
        rw [if_pos this]; rfl
      · rw [if_neg d] at h; cases h
    · rw [if_neg c] at h
      have c' : ¬ ((tHistogram == tHistogram || tHistogram == tGaugeHistogram) && s.name == n ++ sBucket) = true := by
        simpa [sBucket] using c
      rw [if_neg c', ← h]

/-- `_check_histogram` stays in the current group -/
theorem histReset_same (P : Params) (h : HSt) (g g0 : Labels) (ts : Option OTs) (hg : h.group = some g0)
    (he : sortByKey g = sortByKey g0) (ht : tsEq P ts h.ts = true) : histReset P h (some g) ts = .ok h := by
  unfold histReset
  have : (!optDictEq (some g) h.group || !tsEq P ts h.ts) = false := by
    rw [hg, ht]; simp [optDictEq, dictEq, he]
  rw [this]; rfl

/-- a sample of another group (or timestamp) closes the current one: a failing `do_checks` fails the step -/
theorem histReset_other_fails (P : Params) (h : HSt) (g g0 : Labels) (ts : Option OTs) (hg : h.group = some g0)
    (hne : sortByKey g ≠ sortByKey g0 ∨ tsEq P ts h.ts = false) (hd : isError (doChecks P h) = true) :
    isError (histReset P h (some g) ts) = true := by
  unfold histReset
  have : (!optDictEq (some g) h.group || !tsEq P ts h.ts) = true := by
    rw [hg]
    rcases hne with h1 | h1
    · simp [optDictEq, dictEq, h1]
    · simp [h1]
  rw [if_pos this, hg]
  simp only [Option.isSome, if_true]
  cases hc : doChecks P h with
  | error e => rfl
  | ok u => rw [hc] at hd; cases hd

/-! ## what one line does to the loop state -/

/-- a classic sample is not skipped -/
theorem histStep_classic (P : Params) (n : Str) (h : HSt) (s : OSample) (hs : s.nh = none) :
    histStep P n h s = histStepBody P n h s := by
  unfold histStep
  rw [hs]
  simp

theorem suffix_bucket (n : Str) : (n ++ cs!"_bucket").drop n.length = sBucket := by simp [sBucket]

/-- a bucket line: reset test, then the bucket branch -/
theorem histStep_bucket (P : Params) (n : Str) (h : HSt) (s : OSample) (b : Nat) (g : Labels) (hb : IsBucket P n s b g) :
    histStep P n h s = match histReset P h (some g) s.ts with
      | .error e => .error e
      | .ok h0 =>
        match raiseIf (match h0.bucket with
            | some prev => P.cmp bucketOrderCmp (.flt b) (.flt prev)
            | none => false) with
        | .error e => .error e
        | .ok _ =>
          match raiseIfM (P.cmpOpt bucketValueCmp s.value h0.value) with
          | .error e => .error e
          | .ok _ => .ok { h0 with group := some g, ts := s.ts,
                                   hasNegBuckets := h0.hasNegBuckets || P.cmp negBucketCmp (.flt b) (.int 0),
                                   bucket := some b, value := s.value } := by
  obtain ⟨hcl, hname, hgrp, l, le, hl, hle, hf⟩ := hb
  rw [histStep_classic P n h s hcl]
  unfold histStepBody
  rw [groupForSample_hist n s g hgrp]
  dsimp only
  rw [hname, suffix_bucket]
  have e1 : (sBucket.isEmpty) = false := by decide
  simp only [e1, Bool.false_eq_true, if_false, beq_self_eq_true, if_true]
  cases histReset P h (some g) s.ts with
  | error e => rfl
  | ok h0 =>
    dsimp only
    unfold histBucket
    have : leOf s = .ok le := by simp only [leOf, hl]; rw [show sLe = cs!"le" from rfl, hle]
    rw [this]
    dsimp only
    have : P.floatE le = .ok b := by simp only [Params.floatE, hf]
    rw [this]
    rfl

/-- a non-bucket line of the current group keeps `bucket`, `value` and the timestamp, and keeps the group -/
theorem histStep_inGroup (P : Params) (n : Str) (h h' : HSt) (s : OSample) (g l0 : Labels)
    (hs : InHistGroup n g h.ts s) (hg : h.group = some l0) (hl0 : sortByKey l0 = sortByKey g)
    (hrefl : tsEq P h.ts h.ts = true) (hst : histStep P n h s = .ok h') :
    h'.bucket = h.bucket ∧ h'.value = h.value ∧ h'.ts = h.ts ∧ (∃ l, h'.group = some l ∧ sortByKey l = sortByKey g) := by
  obtain ⟨hcl, hnb, hts, ⟨l, hgl, hle⟩, hgs⟩ := hs
  rw [histStep_classic P n h s hcl] at hst
  unfold histStepBody at hst
  rw [groupForSample_hist n s l hgl] at hst
  dsimp only at hst
  by_cases c0 : (s.name.drop n.length).isEmpty = true
  · rw [if_pos c0] at hst
    obtain rfl := Except.ok.inj hst
    exact ⟨rfl, rfl, rfl, ⟨l0, hg, hl0⟩⟩
  · rw [if_neg c0] at hst
    rw [histReset_same P h l l0 s.ts hg (by rw [hle, hl0]) (by rw [hts]; exact hrefl)] at hst
    dsimp only at hst
    have c1 : ¬ (s.name.drop n.length == sBucket) = true := by
      intro e; exact hnb (by simpa [sBucket] using e)
    rw [if_neg c1] at hst
    by_cases c2 : (s.name.drop n.length == sCount || s.name.drop n.length == sGcount) = true
    · rw [if_pos c2] at hst
      obtain rfl := Except.ok.inj hst
      exact ⟨rfl, rfl, hts, ⟨l, rfl, hle⟩⟩
    · rw [if_neg c2] at hst
      by_cases c3 : (s.name.drop n.length == sSum) = true
      · rw [if_pos c3] at hst
        obtain rfl := Except.ok.inj hst
        exact ⟨rfl, rfl, hts, ⟨l, rfl, hle⟩⟩
      · rw [if_neg c3] at hst
        by_cases c4 : (s.name.drop n.length == sGsum) = true
        · rw [if_pos c4] at hst
          cases hc : P.cmpOpt gsumNegCmp s.value (some (.int 0)) with
          | error e => rw [hc] at hst; cases hst
          | ok neg =>
            rw [hc] at hst
            obtain rfl := Except.ok.inj hst
            exact ⟨rfl, rfl, hts, ⟨l, rfl, hle⟩⟩
        · rw [if_neg c4] at hst
          obtain rfl := Except.ok.inj hst
          exact ⟨rfl, rfl, hts, ⟨l, rfl, hle⟩⟩

/-- the loop state right after a bucket line of bound `b`, group `g` that was processed successfully -/
theorem histStep_bucket_ok (P : Params) (n : Str) (h h' : HSt) (s : OSample) (b : Nat) (g : Labels) (hb : IsBucket P n s b g)
    (hst : histStep P n h s = .ok h') : h'.bucket = some b ∧ h'.group = some g ∧ h'.ts = s.ts ∧ h'.value = s.value := by
  rw [histStep_bucket P n h s b g hb] at hst
  cases hr : histReset P h (some g) s.ts with
  | error e => rw [hr] at hst; cases hst
  | ok h0 =>
    rw [hr] at hst; dsimp only at hst
    split at hst
    · cases hst
    · split at hst
      · cases hst
      · obtain rfl := Except.ok.inj hst
        exact ⟨rfl, rfl, rfl, rfl⟩

/-- a second bucket line of the same group whose bound is not above the previous bound fails -/
theorem histStep_bucket_order_fails (P : Params) (n : Str) (h : HSt) (s : OSample) (b b0 : Nat) (g g0 : Labels)
    (hb : IsBucket P n s b g) (hg : h.group = some g0) (he : sortByKey g = sortByKey g0) (ht : tsEq P s.ts h.ts = true)
    (hbk : h.bucket = some b0) (hle : P.le (.flt b) (.flt b0) = true) : isError (histStep P n h s) = true := by
  rw [histStep_bucket P n h s b g hb, histReset_same P h g g0 s.ts hg he ht]
  dsimp only
  rw [hbk]
  have : P.cmp bucketOrderCmp (.flt b) (.flt b0) = true := hle
  simp only [this, raiseIf, if_true]
  rfl

/-- a second bucket line of the same group whose count is below the previous count fails -/
theorem histStep_bucket_value_fails (P : Params) (n : Str) (h : HSt) (s : OSample) (b : Nat) (g g0 : Labels) (v v0 : Num)
    (hb : IsBucket P n s b g) (hg : h.group = some g0) (he : sortByKey g = sortByKey g0) (ht : tsEq P s.ts h.ts = true)
    (hv0 : h.value = some v0) (hv : s.value = some v) (hlt : P.lt v v0 = true) : isError (histStep P n h s) = true := by
  rw [histStep_bucket P n h s b g hb, histReset_same P h g g0 s.ts hg he ht]
  dsimp only
  split
  · rfl
  · rw [hv, hv0]
    have : P.cmpOpt bucketValueCmp (some v) (some v0) = .ok true := by
      show Except.ok (P.cmp bucketValueCmp v v0) = _
      have : P.cmp bucketValueCmp v v0 = P.lt v v0 := rfl
      rw [this, hlt]
    rw [this]
    rfl

/-- the group ends (end of the list, or a sample of another group / timestamp): a failing `do_checks` is reached -/
theorem group_end_fails (P : Params) (n : Str) (h : HSt) (g l0 : Labels) (post : List OSample)
    (hg : h.group = some l0) (hl0 : sortByKey l0 = sortByKey g) (hend : GroupEnds P n g h.ts post)
    (hd : isError (doChecks P h) = true) : isError (histFinish P n h post) = true := by
  cases post with
  | nil =>
    simp only [histFinish, histLoop, hg, Option.isSome, if_true]
    exact hd
  | cons s post =>
    obtain ⟨hcl, hne, l, hgl, hdiff⟩ := hend
    rw [histFinish_cons]
    have : isError (histStep P n h s) = true := by
      rw [histStep_classic P n h s hcl]
      unfold histStepBody
      rw [groupForSample_hist n s l hgl]
      dsimp only
      have c0 : ¬ (s.name.drop n.length).isEmpty = true := by
        intro e; exact hne (List.isEmpty_iff.mp e)
      rw [if_neg c0]
      have := histReset_other_fails P h l l0 s.ts hg (by rw [hl0]; exact hdiff) hd
      cases hr : histReset P h (some l) s.ts with
      | error e => rfl
      | ok h1 => rw [hr] at this; cases this
    cases hs : histStep P n h s with
    | error e => rfl
    | ok h1 => rw [hs] at this; cases this

/-- non-bucket lines of the current group keep the last bucket bound in the loop state -/
theorem hist_tail (P : Params) (n : Str) (g : Labels) (b : Nat) (tail post : List OSample) :
    ∀ (h : HSt) (l0 : Labels), h.group = some l0 → sortByKey l0 = sortByKey g → h.bucket = some b →
      tsEq P h.ts h.ts = true → (∀ s ∈ tail, InHistGroup n g h.ts s) →
      (∀ h', h'.bucket = some b → h'.ts = h.ts → (∃ l, h'.group = some l ∧ sortByKey l = sortByKey g) →
        isError (histFinish P n h' post) = true) →
      isError (histFinish P n h (tail ++ post)) = true := by
  induction tail with
  | nil => intro h l0 hg hl hb _ _ hk; exact hk h hb rfl ⟨l0, hg, hl⟩
  | cons s tail ih =>
    intro h l0 hg hl hb hrefl htail hk
    rw [List.cons_append, histFinish_cons]
    cases hs : histStep P n h s with
    | error e => rfl
    | ok h1 =>
      dsimp only
      obtain ⟨e1, _, e3, l1, e4, e5⟩ := histStep_inGroup P n h h1 s g l0 (htail s (List.mem_cons_self ..)) hg hl hrefl hs
      refine ih h1 l1 e4 e5 (by rw [e1]; exact hb) (by rw [e3]; exact hrefl)
        (fun s' hs' => by rw [e3]; exact htail s' (List.mem_cons_of_mem _ hs')) ?_
      intro h' hb' ht' hg'
      exact hk h' hb' (by rw [ht', e3]) hg'

theorem doChecks_no_inf (P : Params) (h : HSt) (b : Nat) (hb : h.bucket = some b) (hinf : P.isPosInf b = false) :
    isError (doChecks P h) = true := by
  unfold doChecks
  refine runChecks_isError_of_mem _ _ (List.mem_cons_self ..) ?_
  rw [hb]; simp only [hinf]; rfl

theorem doChecks_count_ne (P : Params) (h : HSt) (v c : Num) (hv : h.value = some v) (hc : h.count = some c)
    (hne : P.eq v c = false) : isError (doChecks P h) = true := by
  unfold doChecks
  refine runChecks_isError_of_mem _ (if h.count.isSome then raiseIfM (P.cmpOpt countCmp h.value h.count) else .ok ()) (by simp) ?_
  rw [hc, hv]
  simp only [Option.isSome, if_true]
  have : P.cmpOpt countCmp (some v) (some c) = .ok true := by
    show Except.ok (P.cmp countCmp v c) = _
    have : P.cmp countCmp v c = !P.eq v c := rfl
    rw [this, hne]; rfl
  rw [this]; rfl

/-- a non-bucket line of the current group that is not a `_count` / `_gcount` line keeps `count` -/
theorem histStep_inGroup_count (P : Params) (n : Str) (h h' : HSt) (s : OSample) (g l0 : Labels)
    (hs : InHistGroup n g h.ts s) (hg : h.group = some l0) (hl0 : sortByKey l0 = sortByKey g)
    (hrefl : tsEq P h.ts h.ts = true) (hnc : s.name.drop n.length ≠ sCount ∧ s.name.drop n.length ≠ sGcount)
    (hst : histStep P n h s = .ok h') : h'.count = h.count := by
  obtain ⟨hcl, hnb, hts, ⟨l, hgl, hle⟩, hgs⟩ := hs
  rw [histStep_classic P n h s hcl] at hst
  unfold histStepBody at hst
  rw [groupForSample_hist n s l hgl] at hst
  dsimp only at hst
  by_cases c0 : (s.name.drop n.length).isEmpty = true
  · rw [if_pos c0] at hst
    obtain rfl := Except.ok.inj hst
    rfl
  · rw [if_neg c0] at hst
    rw [histReset_same P h l l0 s.ts hg (by rw [hle, hl0]) (by rw [hts]; exact hrefl)] at hst
    dsimp only at hst
    have c1 : ¬ (s.name.drop n.length == sBucket) = true := by
      intro e; exact hnb (by simpa [sBucket] using e)
    have c2 : ¬ (s.name.drop n.length == sCount || s.name.drop n.length == sGcount) = true := by
      intro e
      rcases (Bool.or_eq_true _ _ ▸ e : _ ∨ _) with e1 | e1
      · exact hnc.1 (by simpa using e1)
      · exact hnc.2 (by simpa using e1)
    rw [if_neg c1, if_neg c2] at hst
    by_cases c3 : (s.name.drop n.length == sSum) = true
    · rw [if_pos c3] at hst
      obtain rfl := Except.ok.inj hst
      rfl
    · rw [if_neg c3] at hst
      by_cases c4 : (s.name.drop n.length == sGsum) = true
      · rw [if_pos c4] at hst
        cases hc : P.cmpOpt gsumNegCmp s.value (some (.int 0)) with
        | error e => rw [hc] at hst; cases hst
        | ok neg =>
          rw [hc] at hst
          obtain rfl := Except.ok.inj hst
          rfl
      · rw [if_neg c4] at hst
        obtain rfl := Except.ok.inj hst
        rfl

/-- non-bucket lines of the current group keep the last bucket's bound and count value in the loop state — and the
stored `_count` when none of them is a `_count` / `_gcount` line (`keepCount`) -/
theorem hist_tail_v (P : Params) (n : Str) (g : Labels) (b : Nat) (v : Option Num) (cnt : Option Num) (keepCount : Bool)
    (tail post : List OSample) :
    ∀ (h : HSt) (l0 : Labels), h.group = some l0 → sortByKey l0 = sortByKey g → h.bucket = some b → h.value = v →
      (keepCount = true → h.count = cnt) →
      tsEq P h.ts h.ts = true → (∀ s ∈ tail, InHistGroup n g h.ts s) →
      (keepCount = true → ∀ s ∈ tail, s.name.drop n.length ≠ sCount ∧ s.name.drop n.length ≠ sGcount) →
      (∀ h', h'.bucket = some b → h'.value = v → (keepCount = true → h'.count = cnt) → h'.ts = h.ts →
        (∃ l, h'.group = some l ∧ sortByKey l = sortByKey g) → isError (histFinish P n h' post) = true) →
      isError (histFinish P n h (tail ++ post)) = true := by
  induction tail with
  | nil => intro h l0 hg hl hb hv hc _ _ _ hk; exact hk h hb hv hc rfl ⟨l0, hg, hl⟩
  | cons s tail ih =>
    intro h l0 hg hl hb hv hc hrefl htail hnc hk
    rw [List.cons_append, histFinish_cons]
    cases hs : histStep P n h s with
    | error e => rfl
    | ok h1 =>
      dsimp only
      obtain ⟨e1, e2, e3, l1, e4, e5⟩ := histStep_inGroup P n h h1 s g l0 (htail s (List.mem_cons_self ..)) hg hl hrefl hs
      refine ih h1 l1 e4 e5 (by rw [e1]; exact hb) (by rw [e2]; exact hv) ?_ (by rw [e3]; exact hrefl)
        (fun s' hs' => by rw [e3]; exact htail s' (List.mem_cons_of_mem _ hs'))
        (fun hkc s' hs' => hnc hkc s' (List.mem_cons_of_mem _ hs')) ?_
      · intro hkc
        rw [histStep_inGroup_count P n h h1 s g l0 (htail s (List.mem_cons_self ..)) hg hl hrefl (hnc hkc s (List.mem_cons_self ..)) hs]
        exact hc hkc
      · intro h' hb' hv' hc' ht' hg'
        exact hk h' hb' hv' hc' (by rw [ht', e3]) hg'

/-- a `_count` / `_gcount` line of the current group stores its value -/
theorem histStep_count (P : Params) (n : Str) (h h' : HSt) (s : OSample) (g l0 : Labels)
    (hs : InHistGroup n g h.ts s) (hg : h.group = some l0) (hl0 : sortByKey l0 = sortByKey g)
    (hrefl : tsEq P h.ts h.ts = true) (hname : s.name = n ++ cs!"_count" ∨ s.name = n ++ cs!"_gcount")
    (hst : histStep P n h s = .ok h') : h'.count = s.value := by
  obtain ⟨hcl, hnb, hts, ⟨l, hgl, hle⟩, _⟩ := hs
  rw [histStep_classic P n h s hcl] at hst
  unfold histStepBody at hst
  rw [groupForSample_hist n s l hgl] at hst
  dsimp only at hst
  have hsuf : s.name.drop n.length = sCount ∨ s.name.drop n.length = sGcount := by
    rcases hname with e | e
    · left; rw [e]; simp [sCount]
    · right; rw [e]; simp [sGcount]
  have c0 : ¬ (s.name.drop n.length).isEmpty = true := by
    rcases hsuf with e | e <;> rw [e] <;> decide
  rw [if_neg c0] at hst
  rw [histReset_same P h l l0 s.ts hg (by rw [hle, hl0]) (by rw [hts]; exact hrefl)] at hst
  dsimp only at hst
  have c1 : ¬ (s.name.drop n.length == sBucket) = true := by
    rcases hsuf with e | e <;> rw [e] <;> decide
  have c2 : (s.name.drop n.length == sCount || s.name.drop n.length == sGcount) = true := by
    rcases hsuf with e | e <;> rw [e] <;> decide
  rw [if_neg c1, if_pos c2] at hst
  obtain rfl := Except.ok.inj hst
  rfl

end PromVerif.Lemmas.OM
