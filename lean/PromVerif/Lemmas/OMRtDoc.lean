/-
C04, document level (1): the text `openmetrics.exposition.generate_latest` writes for a family is a list of lines, each
followed by a line feed; `for line in fd` gives the lines back; every line tokenises (`parseLine`) to what was written.
-/
import PromVerif.Lemmas.OMRtLine
import PromVerif.Lemmas.TextParseDoc

set_option autoImplicit false

namespace PromVerif.Lemmas.OMRt
open PromVerif.Py PromVerif.Model PromVerif.Model.Escape PromVerif.Model.ParseCore PromVerif.Model.Validation
open PromVerif.Model.OMParse PromVerif.Spec.OMRoundtrip PromVerif.Lemmas.Escape PromVerif.Lemmas.Scanner
open PromVerif.Lemmas.TextParse PromVerif.Model.TextExpo PromVerif.Generated.OMParse

-- lines ----------------------------------------------------------------------------------------------------------------------

theorem docLinesAux_line (c : Str) (h : '\n' ∉ c) : ∀ (rest acc : Str),
    docLinesAux (c ++ '\n' :: rest) acc = (acc.reverse ++ c) :: docLinesAux rest [] := by
  induction c with
  | nil => intro rest acc; simp [docLinesAux]
  | cons x xs ih =>
    intro rest acc
    have hx : (x == '\n') = false := by
      have : x ≠ '\n' := fun e => h (by simp [e])
      simpa using this
    rw [List.cons_append, docLinesAux]
    simp only [hx, Bool.false_eq_true, ↓reduceIte]
    rw [ih (fun hm => h (by simp [hm]))]
    simp

/-- `for line in io.StringIO(text)` on lines each terminated by a line feed -/
theorem docLines_render (ls : List Str) (h : ∀ c ∈ ls, '\n' ∉ c) : docLines ((ls.map (· ++ ['\n'])).flatten) = ls := by
  unfold docLines
  induction ls with
  | nil => rfl
  | cons c cs ih =>
    simp only [List.map_cons, List.flatten_cons, List.append_assoc, List.singleton_append]
    rw [docLinesAux_line c (h c (by simp))]
    simp only [List.reverse_nil, List.nil_append]
    rw [ih (fun d hd => h d (by simp [hd]))]

theorem mapM_ok {α β : Type} (f : α → PyM β) (g : α → β) : ∀ (l : List α), (∀ a ∈ l, f a = .ok (g a)) → l.mapM f = .ok (l.map g) := by
  intro l
  induction l with
  | nil => intro _; rfl
  | cons a as ih =>
    intro h
    rw [List.mapM_cons, h a (by simp), ih (fun b hb => h b (by simp [hb]))]
    rfl

-- metadata lines ---------------------------------------------------------------------------------------------------------------

/-- `# KW name rest` without the line feed -/
def metaLine (kw nameTok rest : Str) : Str := '#' :: ' ' :: (kw ++ ' ' :: (nameTok ++ ' ' :: rest))

theorem spChs_space : spChs ' ' = true := rfl

/-- `_split_quoted(line, ' ', 3)` on `# KW name rest`: the fourth token is the whole remainder, empty or not -/
theorem splitQuoted_meta4_sp (kw nm R : Str) (hkw : Pass spChs kw) (hnm : Pass spChs nm) :
    splitQuoted (metaLine kw nm R) spChs 3 = [['#'], kw, nm, R] := by
  unfold splitQuoted metaLine
  have hhash : Pass spChs ['#'] := pass_plain (by intro c hc; simp at hc; subst hc; exact ⟨by decide, by decide, by decide⟩)
  have e0 : '#' :: ' ' :: (kw ++ ' ' :: (nm ++ ' ' :: R)) = [] ++ (['#'] ++ ' ' :: (kw ++ ' ' :: (nm ++ ' ' :: R))) := by simp
  have h1 := splitQuotedAux_hit spChs 3 (('#' :: ' ' :: (kw ++ ' ' :: (nm ++ ' ' :: R))).length) [] ['#']
    (kw ++ ' ' :: (nm ++ ' ' :: R)) ' ' [] rfl hhash spChs_space (by decide) (by simp)
  rw [← e0] at h1
  simp only [List.length_nil] at h1
  rw [h1]
  have e1 : '#' :: ' ' :: (kw ++ ' ' :: (nm ++ ' ' :: R)) = ['#', ' '] ++ (kw ++ ' ' :: (nm ++ ' ' :: R)) := by simp
  cases hf : ('#' :: ' ' :: (kw ++ ' ' :: (nm ++ ' ' :: R))).length with
  | zero => simp at hf
  | succ f =>
    have h2 := splitQuotedAux_hit spChs 3 f ['#', ' '] kw (nm ++ ' ' :: R) ' ' ([] ++ [['#']])
      (trailOdd_space ['#']) hkw spChs_space (by decide) (by simp)
    rw [← e1] at h2
    simp only [List.nil_append, List.length_append, List.length_cons, List.length_nil] at h2 ⊢
    rw [h2]
    cases f with
    | zero => simp at hf
    | succ f' =>
      have e2 : '#' :: ' ' :: (kw ++ ' ' :: (nm ++ ' ' :: R)) = (['#', ' '] ++ kw ++ [' ']) ++ (nm ++ ' ' :: R) := by simp
      have h3 := splitQuotedAux_hit spChs 3 f' (['#', ' '] ++ kw ++ [' ']) nm R ' ' ([['#']] ++ [kw])
        (trailOdd_space _) hnm spChs_space (by decide) (by simp)
      rw [← e2] at h3
      simp only [List.length_append, List.length_cons, List.length_nil] at h3
      rw [h3]
      cases f' with
      | zero => simp at hf
      | succ f'' =>
        have e3 : '#' :: ' ' :: (kw ++ ' ' :: (nm ++ ' ' :: R)) = (['#', ' '] ++ kw ++ [' '] ++ nm ++ [' ']) ++ R := by simp
        by_cases hR : R = []
        · subst hR
          have h4 := splitQuotedAux_end spChs 3 f'' ('#' :: ' ' :: (kw ++ ' ' :: (nm ++ [' ']))) ([['#']] ++ [kw] ++ [nm])
          have hl : (['#', ' '] ++ kw ++ [' '] ++ nm ++ [' ']).length = ('#' :: ' ' :: (kw ++ ' ' :: (nm ++ [' ']))).length := by simp
          simp only [List.length_append, List.length_cons, List.length_nil] at hl h4 ⊢
          rw [hl, h4]; rfl
        · have h4 := splitQuotedAux_last spChs 3 f'' (['#', ' '] ++ kw ++ [' '] ++ nm ++ [' ']) R ([['#']] ++ [kw] ++ [nm])
            (trailOdd_space _) hR (Or.inr (by simp))
          rw [← e3] at h4
          simp only [List.length_append, List.length_cons, List.length_nil] at h4
          rw [h4]; rfl

theorem spChs_safe : NameSafe spChs := nameSafe_eq ' ' (by decide) (by decide)

theorem pass_kw (kw : Str) (h : ∀ c ∈ kw, isLegacyChar c = true) : Pass spChs kw :=
  pass_plain (plainFor_legacy spChs_safe.legacy h)

/-- a metadata line of a family tokenises to its keyword, the family name and the raw remainder -/
theorem parseLine_meta (P : Params) (kw : Str) (hkw : ∀ c ∈ kw, isLegacyChar c = true) {n : Str}
    (hn : metricNameOK P.legacy n = true) (R : Str) (hne : metaLine kw (escapeMetricName n) R ≠ sEOF) :
    parseLine P (metaLine kw (escapeMetricName n) R) = .metadata kw n R := by
  have hsq : splitQuoted (metaLine kw (escapeMetricName n) R) (· == ' ') 3 = [['#'], kw, escapeMetricName n, R] :=
    splitQuoted_meta4_sp kw _ R (pass_kw kw hkw) (metricTok_pass spChs_safe hn)
  obtain ⟨q, hq1, hq2⟩ := metricTok_unquote hn
  have he : (metaLine kw (escapeMetricName n) R == sEOF) = false := by simpa using hne
  unfold parseLine
  have h1 : (metaLine kw (escapeMetricName n) R).isEmpty = false := rfl
  have h2 : (metaLine kw (escapeMetricName n) R).head? == some '#' := rfl
  simp only [h1, he, h2, hsq, hq1, hq2, Bool.false_eq_true, ↓reduceIte]

-- sample lines --------------------------------------------------------------------------------------------------------------------

theorem lineBody_head (s : Sample) (h : isValidLegacyMetricName s.name = true → s.name ≠ []) :
    ∃ c t, lineBody s = c :: t ∧ c ≠ '#' := by
  rcases lineBody_cases s with ⟨hv, _, hb⟩ | ⟨hv, _, _, _, hb⟩ | ⟨_, hb⟩
  · obtain ⟨hne, hc⟩ := legacyName_chars hv (legacyMetric_no_newline hv)
    cases hn : s.name with
    | nil => exact absurd hn hne
    | cons c cs =>
      rw [hb, hn]
      exact ⟨c, _, rfl, legacyChar_ne (hc c (by rw [hn]; simp)) (by decide)⟩
  · obtain ⟨hne, hc⟩ := legacyName_chars hv (legacyMetric_no_newline hv)
    cases hn : s.name with
    | nil => exact absurd hn hne
    | cons c cs =>
      rw [hb, hn]
      exact ⟨c, _, rfl, legacyChar_ne (hc c (by rw [hn]; simp)) (by decide)⟩
  · rw [hb]; exact ⟨'{', _, rfl, by decide⟩

/-- a rendered sample line tokenises to its two readings: "not a native histogram" and the plain sample -/
theorem parseLine_renderedSample (P : Params) (s : Sample) (h : SampleOKom P s) :
    parseLine P (lineBody s) = .sample (.ok none) (parseSample P (lineBody s)) := by
  obtain ⟨c, t, hb, hc⟩ := lineBody_head s (fun hv => (legacyName_chars hv (legacyMetric_no_newline hv)).1)
  have hnh := parseNhLine_of_detect P _ (line_not_nh P s h)
  unfold parseLine
  rw [hnh, hb]
  have h2 : ((c :: t) == sEOF) = false := by
    apply beq_eq_false_iff_ne.mpr
    intro e
    have : c = '#' := by
      have := congrArg List.head? e
      simpa [sEOF] using this
    exact hc this
  have h3 : ((c :: t).head? == some '#') = false := by simpa using hc
  simp only [List.isEmpty_cons, h2, h3, Bool.false_eq_true, ↓reduceIte]

end PromVerif.Lemmas.OMRt
